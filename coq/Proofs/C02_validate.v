(* Proofs/C02_validate.v — soundness of the block validator Model/OptValidate.v against
   IRSem.step_simple.

   norm_sound          normalisation does not change what a term denotes (uses the rules of
                       C02_rules.v: constant folding = eval_binop, add-zero / mul-one on typed values)
   check_block_sound   check_block c f tl f' rho l l' outs = true, the "before" list runs to (e1, s1)
                       => the "after" list runs to (e1', s1) with the SAME state, and every pair of
                       references in outs reads equal values.
   Hypotheses: cfg_ok (pointer size >= 0), env_typed (every value of the initial environment is in
   the range of its declared type), ren_ok (the initial environments agree along rho). *)
From PV Require Import Lib.Py Lib.Tac Spec.IRSyntax Spec.IRSem Model.OptValidate Proofs.C02_rules.
From Coq Require Import String.
Open Scope Z_scope.

Section Sound.
  Variable c : cfg.
  Variable m : modul.
  Variable ge : list (string * Z).
  Variable f f' : func.
  Variable e0 : env.
  Variable args : list value.
  Variable tl : bool.
  Hypothesis Hc : cfg_ok c.

  Definition env_typed : Prop :=
    forall r t b s v, ref_ty f r = Some t -> int_shape c t = Some (b, s) ->
      eval_ref m ge false e0 args r = ODone v -> exists z, v = Vint z /\ wrap_bits b s z = z.
  Hypothesis Hty : tl = true -> env_typed.

  Notation den := (den c m ge e0 args).

  Lemma wrap_ty_idem t z r : wrap_ty c t z = Some r -> wrap_ty c t r = Some r.
  Proof.
    unfold wrap_ty. destruct (int_shape c t) as [[b s]|] eqn:E; [|discriminate].
    intros H. inversion H; subst. rewrite wrap_bits_idem; [reflexivity|].
    eapply int_shape_bits; eassumption.
  Qed.

  Lemma cval_den res x z : cval c x = Some z -> den res x = ODone (Vint z).
  Proof.
    destruct x; simpl; try discriminate. destruct k; try discriminate.
    intros H. unfold eval_const. rewrite H. reflexivity.
  Qed.

  Lemma typed_head_range res x t b s v :
    typed_head f tl x t = true -> int_shape c t = Some (b, s) -> den res x = ODone v ->
    exists z, v = Vint z /\ wrap_bits b s z = z.
  Proof.
    intros Hh Hs Hd. pose proof (int_shape_bits _ _ _ _ Hc Hs) as Hb.
    destruct x; simpl in Hh; try discriminate.
    - (* leaf *) apply Bool.andb_true_iff in Hh. destruct Hh as [Htl Hh].
      pose proof (Hty Htl) as Hty'. destruct (ref_ty f r) eqn:Er; [|discriminate].
      apply ty_eqb_spec in Hh. subst t0. eapply Hty'; eassumption.
    - (* const *) destruct k; try discriminate. apply ty_eqb_spec in Hh. subst.
      simpl in Hd. unfold eval_const, wrap_ty in Hd. rewrite Hs in Hd. inversion Hd; subst.
      eexists. split; [reflexivity|]. apply wrap_bits_idem. assumption.
    - (* bin *) apply ty_eqb_spec in Hh. subst. simpl in Hd.
      destruct (as_int (den res x1)); simpl in Hd; try discriminate.
      destruct (as_int (den res x2)); simpl in Hd; try discriminate.
      destruct (eval_binop c t o a a0) eqn:Eb; simpl in Hd; try discriminate.
      inversion Hd; subst. eexists. split; [reflexivity|]. eapply eval_binop_range; eassumption.
    - (* un *) apply ty_eqb_spec in Hh. subst. simpl in Hd.
      destruct (as_int (den res x)); simpl in Hd; try discriminate.
      destruct (eval_unop c t o a) eqn:Eb; simpl in Hd; try discriminate.
      inversion Hd; subst. eexists. split; [reflexivity|]. eapply eval_unop_range; eassumption.
    - (* cast *) apply ty_eqb_spec in Hh. subst. simpl in Hd.
      destruct (den res x); simpl in Hd; try discriminate.
      destruct a; simpl in Hd; try discriminate;
        try (destruct (ty_is_blob t); discriminate).
      unfold wrap_ty in Hd. rewrite Hs in Hd. inversion Hd; subst.
      eexists. split; [reflexivity|]. apply wrap_bits_idem. assumption.
  Qed.

  (* reading a typed term as an integer *)
  Lemma typed_as_int res x t :
    typed_head f tl x t = true -> is_shape c t = true ->
    forall b s, int_shape c t = Some (b, s) ->
    (exists z, den res x = ODone (Vint z) /\ wrap_bits b s z = z /\ as_int (den res x) = ODone z)
    \/ (forall v, den res x <> ODone v).
  Proof.
    intros Hh _ b s Hs. destruct (den res x) eqn:Ed.
    - destruct (typed_head_range _ _ _ _ _ _ Hh Hs Ed) as (z & -> & Hr).
      left. exists z. repeat split; assumption || reflexivity.
    - right; congruence.
    - right; congruence.
    - right; congruence.
    - right; congruence.
  Qed.

  Lemma is_shape_some t : is_shape c t = true -> exists b s, int_shape c t = Some (b, s).
  Proof. unfold is_shape. destruct (int_shape c t) as [[b s]|]; [eauto|discriminate]. Qed.

  Lemma zeqb_some o z : zeqb o z = true -> o = Some z.
  Proof. destruct o; simpl; [intros H; apply Z.eqb_eq in H; congruence|discriminate]. Qed.

  Lemma bin_unfold res t o a b :
    den res (SBin t o a b) =
    (x <~ as_int (den res a) ;; y <~ as_int (den res b) ;; z <~ eval_binop c t o x y ;; ODone (Vint z)).
  Proof. reflexivity. Qed.

  (* x op 0 / 1 where the other operand is a typed value *)
  Lemma ident_r res t o a b0 k :
    (forall bb s x, int_shape c t = Some (bb, s) -> wrap_bits bb s x = x -> eval_binop c t o x k = ODone x) ->
    cval c b0 = Some k -> typed_head f tl a t = true -> is_shape c t = true ->
    den res (SBin t o a b0) = den res a.
  Proof.
    intros Hrule Hk Hh Hsh. destruct (is_shape_some _ Hsh) as (bb & s & Hs).
    rewrite bin_unfold. rewrite (cval_den res _ _ Hk).
    destruct (typed_as_int res _ _ Hh Hsh _ _ Hs) as [(z & Hd & Hr & Hi)|Hn].
    - rewrite Hi, Hd. simpl. rewrite (Hrule _ _ _ Hs Hr). reflexivity.
    - destruct (den res a) eqn:Ed; simpl; try reflexivity. exfalso. eapply Hn. reflexivity.
  Qed.
  Lemma ident_l res t o a b0 k :
    (forall bb s x, int_shape c t = Some (bb, s) -> wrap_bits bb s x = x -> eval_binop c t o k x = ODone x) ->
    cval c a = Some k -> typed_head f tl b0 t = true -> is_shape c t = true ->
    den res (SBin t o a b0) = den res b0.
  Proof.
    intros Hrule Hk Hh Hsh. destruct (is_shape_some _ Hsh) as (bb & s & Hs).
    rewrite bin_unfold. rewrite (cval_den res _ _ Hk).
    destruct (typed_as_int res _ _ Hh Hsh _ _ Hs) as [(z & Hd & Hr & Hi)|Hn].
    - rewrite Hi, Hd. simpl. rewrite (Hrule _ _ _ Hs Hr). reflexivity.
    - destruct (den res b0) eqn:Ed; simpl; try reflexivity. exfalso. eapply Hn. reflexivity.
  Qed.

  Lemma eval_binop_shape t o x y z : eval_binop c t o x y = ODone z -> exists b s, int_shape c t = Some (b, s).
  Proof.
    unfold eval_binop. destruct (int_shape c t) as [[b s]|]; [eauto|].
    destruct (ty_is_float t); discriminate.
  Qed.

  Lemma chain_bin_sound res t o a b : den res (chain_bin c t o a b) = den res (SBin t o a b).
  Proof.
    unfold chain_bin. destruct a as [| | |t1 o1 y c1| | | |]; try reflexivity.
    destruct (cval c b) as [k2|] eqn:Eb; try reflexivity.
    destruct (cval c c1) as [k1|] eqn:E1; try reflexivity.
    destruct (wrap_ty c t (k1 + k2)) as [k|] eqn:Ew; try reflexivity.
    destruct (ty_eqb t1 t && dec2b binop_eq_dec o1 o &&
              (dec2b binop_eq_dec o Add || dec2b binop_eq_dec o Sub)) eqn:Ec; try reflexivity.
    apply Bool.andb_true_iff in Ec. destruct Ec as [Ec Eo]. apply Bool.andb_true_iff in Ec.
    destruct Ec as [Et Eo1]. apply ty_eqb_spec in Et. apply dec2b_spec in Eo1. subst t1 o1.
    assert (Hs : exists bb s, int_shape c t = Some (bb, s) /\ k = wrap_bits bb s (k1 + k2)).
    { unfold wrap_ty in Ew. destruct (int_shape c t) as [[bb s]|]; [|discriminate].
      inversion Ew. eauto. }
    destruct Hs as (bb & s & Hs & Hk).
    rewrite !bin_unfold. rewrite (cval_den res _ _ E1), (cval_den res _ _ Eb).
    assert (Hkc : den res (SConst t (CInt k)) = ODone (Vint k)).
    { simpl. unfold eval_const. rewrite (wrap_ty_idem _ _ _ Ew). reflexivity. }
    rewrite Hkc. destruct (as_int (den res y)) as [yv| | | |]; try reflexivity.
    cbn [obind as_int].
    apply Bool.orb_true_iff in Eo. destruct Eo as [Eo|Eo]; apply dec2b_spec in Eo; subst o.
    - assert (Hr : eval_binop c t Add yv k1 = ODone (wrap_bits bb s (yv + k1))).
      { unfold eval_binop. rewrite Hs. reflexivity. }
      rewrite Hr. cbn [obind as_int].
      rewrite (c02_rule_chain_add_sound _ _ _ _ _ _ k2 _ Hc Hs Hr), <- Hk. reflexivity.
    - assert (Hr : eval_binop c t Sub yv k1 = ODone (wrap_bits bb s (yv - k1))).
      { unfold eval_binop. rewrite Hs. reflexivity. }
      rewrite Hr. cbn [obind as_int].
      rewrite (c02_rule_chain_sub_sound _ _ _ _ _ _ k2 _ Hc Hs Hr), <- Hk. reflexivity.
  Qed.

  Lemma simp_bin_sound res t o a b : den res (simp_bin c f tl t o a b) = den res (SBin t o a b).
  Proof.
    unfold simp_bin.
    destruct (cval c a) as [x|] eqn:Ea; destruct (cval c b) as [y|] eqn:Eb.
    - (* both constants *)
      destruct (eval_binop c t o x y) eqn:Ev; try reflexivity.
      rewrite bin_unfold, (cval_den res _ _ Ea), (cval_den res _ _ Eb). simpl. rewrite Ev. simpl.
      destruct (eval_binop_shape _ _ _ _ _ Ev) as (bb & s & Hs).
      exact (c02_rule_constfold_sound _ _ _ _ _ _ _ _ Hc Hs Ev).
    - destruct o; try reflexivity; try apply chain_bin_sound.
      simpl (zeqb None 0). cbn [andb].
      destruct (zeqb (Some x) 0 && typed_head f tl b t && is_shape c t) eqn:E2; [|apply chain_bin_sound].
      apply Bool.andb_true_iff in E2. destruct E2 as [E2 E3]. apply Bool.andb_true_iff in E2.
      destruct E2 as [E1 E2]. apply zeqb_some in E1. inversion E1; subst.
      symmetry. eapply ident_l; try eassumption. intros. eapply c02_rule_addzero_l_sound; eassumption.
    - destruct o; try reflexivity; try apply chain_bin_sound.
      + destruct (zeqb (Some y) 0 && typed_head f tl a t && is_shape c t) eqn:E2.
        * apply Bool.andb_true_iff in E2. destruct E2 as [E2 E3]. apply Bool.andb_true_iff in E2.
          destruct E2 as [E1 E2]. apply zeqb_some in E1. inversion E1; subst.
          symmetry. eapply ident_r; try eassumption. intros. eapply c02_rule_addzero_r_sound; eassumption.
        * simpl (zeqb None 0). cbn [andb]. apply chain_bin_sound.
      + destruct (zeqb (Some y) 1 && typed_head f tl a t && is_shape c t) eqn:E2; [|reflexivity].
        apply Bool.andb_true_iff in E2. destruct E2 as [E2 E3]. apply Bool.andb_true_iff in E2.
        destruct E2 as [E1 E2]. apply zeqb_some in E1. inversion E1; subst.
        symmetry. eapply ident_r; try eassumption. intros. eapply c02_rule_mulone_sound; eassumption.
    - destruct o; try reflexivity; apply chain_bin_sound.
  Qed.

  Theorem norm_sound : forall res x, den res (norm c f tl x) = den res x.
  Proof.
    intros res. induction x; try reflexivity.
    - (* const *) simpl. destruct k; try reflexivity.
      destruct (wrap_ty c t z) eqn:E; [|reflexivity].
      simpl. unfold eval_const. rewrite E, (wrap_ty_idem _ _ _ E). reflexivity.
    - (* bin *) simpl norm. rewrite simp_bin_sound, !bin_unfold, IHx1, IHx2. reflexivity.
    - (* un *) simpl. rewrite IHx. reflexivity.
    - (* cast *) simpl norm. cbv zeta.
      destruct (cval c (norm c f tl x)) eqn:Ecv.
      + destruct (wrap_ty c t z) eqn:Ew.
        * simpl. rewrite <- IHx, (cval_den res _ _ Ecv). simpl. rewrite Ew.
          unfold eval_const. rewrite (wrap_ty_idem _ _ _ Ew). reflexivity.
        * simpl. rewrite IHx. reflexivity.
      + simpl. rewrite IHx. reflexivity.
    - (* addr *) simpl. rewrite IHx. reflexivity.
  Qed.

  Lemma teq_den res x y : teq c f tl x y = true -> den res x = den res y.
  Proof.
    unfold teq, sexp_eqb. intros H. apply dec2b_spec in H.
    rewrite <- (norm_sound res x), <- (norm_sound res y), H. reflexivity.
  Qed.

  (* ------------------------------------------------------------------ simulation *)
  Fixpoint scoped (n : nat) (x : sexp) : Prop :=
    match x with
    | SRes k => (k < n)%nat
    | SBin _ _ a b => scoped n a /\ scoped n b
    | SUn _ _ a | SCast _ a | SAddr a => scoped n a
    | _ => True
    end.
  Lemma scoped_mono n n' x : (n <= n')%nat -> scoped n x -> scoped n' x.
  Proof. intros Hn. induction x; simpl; intuition; lia. Qed.
  Lemma den_app res r2 x : scoped (List.length res) x -> den (res ++ r2) x = den res x.
  Proof.
    induction x; simpl; intros H; try reflexivity.
    - rewrite nth_error_app1 by assumption. reflexivity.
    - destruct H as [H1 H2]. rewrite IHx1, IHx2 by assumption. reflexivity.
    - rewrite IHx by assumption. reflexivity.
    - rewrite IHx by assumption. reflexivity.
    - rewrite IHx by assumption. reflexivity.
  Qed.

  (* [B] is the initial environment of the side in question *)
  Definition Inv (B : env) (res : list value) (sg : senv) (E : env) : Prop :=
    (forall v x, sget sg v = Some x ->
       scoped (List.length res) x /\ eval_ref m ge false E args (Loc v) = den res x) /\
    (forall v, sget sg v = None -> env_get E v = env_get B v).
  Definition InvD (res : list value) (D : list sexp) : Prop :=
    forall d, In d D -> forall r2, exists v, den (res ++ r2) d = ODone v.

  Lemma inv_res B res sg E y : Inv B res sg E -> Inv B (res ++ [y]) sg E.
  Proof.
    intros [H1 H2]. split; [|exact H2]. intros v x Hx. destruct (H1 v x Hx) as [Hs Hd]. split.
    - eapply scoped_mono; [|exact Hs]. rewrite app_length. simpl. lia.
    - rewrite den_app by assumption. exact Hd.
  Qed.
  Lemma invd_res res D y : InvD res D -> InvD (res ++ [y]) D.
  Proof. intros H d Hd r2. rewrite <- app_assoc. apply H. exact Hd. Qed.

  Lemma eval_ref_loc_eq E E' v : env_get E v = env_get E' v ->
    eval_ref m ge false E args (Loc v) = eval_ref m ge false E' args (Loc v).
  Proof. intros H. simpl. rewrite H. reflexivity. Qed.

  Lemma inv_push B res sg E v x y :
    Inv B res sg E -> scoped (List.length res) x ->
    eval_ref m ge false ((v, y) :: E) args (Loc v) = den res x ->
    Inv B res ((v, x) :: sg) ((v, y) :: E).
  Proof.
    intros [H1 H2] Hs Hd. split.
    - intros v2 x2. simpl sget. destruct (Pos.eqb_spec v v2).
      + subst. intros Hx. inversion Hx; subst. split; assumption.
      + intros Hx. destruct (H1 v2 x2 Hx) as [Ha Hb]. split; [exact Ha|].
        rewrite eval_ref_skip; [exact Hb|]. unfold ref_is. congruence.
    - intros v2. simpl sget. destruct (Pos.eqb_spec v v2); [discriminate|].
      intros Hx. simpl. destruct (Pos.eqb_spec v v2); [congruence|]. apply H2. exact Hx.
  Qed.

  Lemma sym_sound res sg E r : Inv e0 res sg E ->
    eval_ref m ge false E args r = den res (sym sg r) /\ scoped (List.length res) (sym sg r).
  Proof.
    intros [H1 H2]. destruct r; simpl sym; try (split; [reflexivity|exact I]).
    destruct (sget sg v) eqn:Es.
    - destruct (H1 v s Es) as [Ha Hb]. split; assumption.
    - split; [|exact I]. simpl den. apply eval_ref_loc_eq. apply H2. exact Es.
  Qed.

  Variable e0' : env.
  Variable rho : list (vid * vid).
  Definition ren_ok : Prop := forall v' v, rget rho v' = Some v ->
    eval_ref m ge false e0' args (Loc v') = eval_ref m ge false e0 args (Loc v).
  Hypothesis Hren : ren_ok.

  Lemma sym'_sound res sg E r x : Inv e0' res sg E -> sym' rho sg r = Some x ->
    eval_ref m ge false E args r = den res x /\ scoped (List.length res) x.
  Proof.
    intros [H1 H2] Hx. destruct r; simpl in Hx; try discriminate.
    - destruct (sget sg v) eqn:Es.
      + inversion Hx; subst. destruct (H1 v x Es) as [Ha Hb]. split; assumption.
      + destruct (rget rho v) eqn:Er; [|discriminate]. inversion Hx; subst.
        split; [|exact I].
        transitivity (eval_ref m ge false e0' args (Loc v));
          [apply eval_ref_loc_eq; apply H2; exact Es | exact (Hren _ _ Er)].
    - inversion Hx; subst. split; [reflexivity|exact I].
    - inversion Hx; subst. split; [reflexivity|exact I].
  Qed.

  Lemma eval_int_as E r : eval_int m ge E args r = as_int (eval_ref m ge false E args r).
  Proof. reflexivity. Qed.

  (* a pure instruction steps like the denotation of its term *)
  Definition steps_as (g : func) (E : env) (s : st) (i : instr) (res : list value) (v : vid) (x : sexp) : Prop :=
    step_simple c m ge g args E s i = (y <~ den res x ;; ODone ((v, y) :: E, s)).

  Lemma step_bin_den g E s res v n t o a b xa xb :
    eval_ref m ge false E args a = den res xa -> eval_ref m ge false E args b = den res xb ->
    steps_as g E s (IBinop v n t o a b) res v (SBin t o xa xb).
  Proof.
    intros Ha Hb. unfold steps_as. cbn [step_simple den]. rewrite !eval_int_as, Ha, Hb.
    destruct (as_int (den res xa)); cbn [obind]; try reflexivity.
    destruct (as_int (den res xb)); cbn [obind]; try reflexivity.
    destruct (eval_binop c t o a0 a1); reflexivity.
  Qed.
  Lemma step_un_den g E s res v n t o a xa :
    eval_ref m ge false E args a = den res xa -> steps_as g E s (IUnop v n t o a) res v (SUn t o xa).
  Proof.
    intros Ha. unfold steps_as. cbn [step_simple den]. rewrite !eval_int_as, Ha.
    destruct (as_int (den res xa)); cbn [obind]; try reflexivity.
    destruct (eval_unop c t o a0); reflexivity.
  Qed.
  Lemma step_cast_den g E s res v n t a xa :
    eval_ref m ge false E args a = den res xa -> steps_as g E s (ICast v n t a) res v (SCast t xa).
  Proof.
    intros Ha. unfold steps_as. cbn [step_simple den]. rewrite Ha.
    destruct (den res xa); reflexivity.
  Qed.
  Lemma step_addr_den g E s res v n a xa :
    eval_ref m ge false E args a = den res xa -> steps_as g E s (IAddrOf v n a) res v (SAddr xa).
  Proof.
    intros Ha. unfold steps_as. cbn [step_simple den]. rewrite Ha.
    destruct (den res xa); cbn [obind]; try reflexivity.
    try (destruct a0; reflexivity).
  Qed.
  Lemma step_const_den g E s res v n t k : steps_as g E s (IConst v n t k) res v (SConst t k).
  Proof. unfold steps_as. cbn [step_simple den]. destruct (eval_const c t k); reflexivity. Qed.

  (* values produced by pure terms other than SUndef / leaves are never Vundef *)
  Definition pure_head (x : sexp) : bool :=
    match x with SConst _ _ | SBin _ _ _ _ | SUn _ _ _ | SCast _ _ | SAddr _ => true | _ => false end.
  Lemma pure_not_undef res x y : pure_head x = true -> den res x = ODone y -> y <> Vundef.
  Proof.
    destruct x; simpl; try discriminate; intros _ H.
    - unfold eval_const in H. destruct k.
      + destruct (wrap_ty c t z); [inversion H; discriminate|destruct (ty_is_float t); discriminate].
      + destruct (ty_is_float t); [inversion H; discriminate|discriminate].
    - destruct (as_int (den res x1)); simpl in H; try discriminate.
      destruct (as_int (den res x2)); simpl in H; try discriminate.
      destruct (eval_binop c t o a a0); simpl in H; try discriminate. inversion H; discriminate.
    - destruct (as_int (den res x)); simpl in H; try discriminate.
      destruct (eval_unop c t o a); simpl in H; try discriminate. inversion H; discriminate.
    - destruct (den res x); simpl in H; try discriminate.
      destruct a; simpl in H; try discriminate.
      + destruct (wrap_ty c t z); [inversion H; discriminate|destruct (ty_is_float t); discriminate].
      + destruct (ty_is_blob t); discriminate.
    - destruct (den res x); simpl in H; try discriminate.
      destruct a; try discriminate. inversion H; discriminate.
  Qed.

  Lemma read_bound E v y : y <> Vundef -> eval_ref m ge false ((v, y) :: E) args (Loc v) = ODone y.
  Proof. intros H. simpl. rewrite Pos.eqb_refl. destruct y; congruence. Qed.

  Lemma invd_push res D x y : InvD res D -> scoped (List.length res) x -> den res x = ODone y ->
    InvD res (norm c f tl x :: D).
  Proof.
    intros HD Hs Hd d [<-|Hin] r2; [|apply HD; exact Hin].
    exists y. rewrite norm_sound, den_app by assumption. exact Hd.
  Qed.

  Lemma inv_push_pure B res sg E v x y :
    Inv B res sg E -> scoped (List.length res) x -> pure_head x = true -> den res x = ODone y ->
    Inv B res ((v, x) :: sg) ((v, y) :: E).
  Proof.
    intros HI Hs Hp Hd. apply inv_push; try assumption.
    rewrite read_bound; [symmetry; exact Hd|]. eapply pure_not_undef; eassumption.
  Qed.
  Lemma inv_push_undef B res sg E v :
    Inv B res sg E -> Inv B res ((v, SUndef) :: sg) ((v, Vundef) :: E).
  Proof.
    intros HI. apply inv_push; [exact HI|exact I|]. simpl. rewrite Pos.eqb_refl. reflexivity.
  Qed.

  Ltac absorb_step IH H Hrun HI HD Hst Hsc :=
    unfold steps_as in Hst; cbn [run_simple] in Hrun; rewrite Hst in Hrun;
    match type of Hrun with context [den ?res ?x] =>
      destruct (den res x) as [y| | | |] eqn:Ed; cbn [obind] in Hrun; try discriminate Hrun;
      eapply IH; [exact H | eapply inv_push_pure; [exact HI|exact Hsc|reflexivity|exact Ed]
                 | eapply invd_push; [exact HD|exact Hsc|exact Ed] | exact Hrun]
    end.

  Lemma absorb_sound res : forall l sg D E s sg1 D1 r e1 s1,
    absorb c f tl sg D l = (sg1, D1, r) ->
    Inv e0 res sg E -> InvD res D ->
    run_simple c m ge f args l E s = ODone (e1, s1) ->
    exists E2, run_simple c m ge f args r E2 s = ODone (e1, s1) /\ Inv e0 res sg1 E2 /\ InvD res D1.
  Proof.
    induction l as [|i l IH]; intros sg D E s sg1 D1 r e1 s1 H HI HD Hrun.
    - simpl in H. inversion H; subst. exists E. split; [assumption|split; assumption].
    - cbn [absorb] in H. destruct (is_phi_i i) eqn:Ep.
      + destruct i; try discriminate Ep. cbn [run_simple step_simple obind] in Hrun.
        eapply IH; eassumption.
      + destruct (sym_pure sg i) as [[v x]|] eqn:Esp.
        * destruct i; simpl in Esp; try discriminate Esp; inversion Esp; subst; clear Esp; cbn iota in H.
          -- pose proof (step_const_den f E s res v n t c0) as Hst.
             absorb_step IH H Hrun HI HD Hst I.
          -- destruct (sym_sound res sg E a HI) as [Ha Hsa]. destruct (sym_sound res sg E b HI) as [Hb Hsb].
             pose proof (step_bin_den f E s res v n t o a b _ _ Ha Hb) as Hst.
             absorb_step IH H Hrun HI HD Hst (conj Hsa Hsb).
          -- destruct (sym_sound res sg E a HI) as [Ha Hsa].
             pose proof (step_un_den f E s res v n t o a _ Ha) as Hst.
             absorb_step IH H Hrun HI HD Hst Hsa.
          -- destruct (sym_sound res sg E a HI) as [Ha Hsa].
             pose proof (step_cast_den f E s res v n t a _ Ha) as Hst.
             absorb_step IH H Hrun HI HD Hst Hsa.
          -- destruct (sym_sound res sg E a HI) as [Ha Hsa].
             pose proof (step_addr_den f E s res v n a _ Ha) as Hst.
             absorb_step IH H Hrun HI HD Hst Hsa.
          -- cbn [run_simple step_simple obind] in Hrun.
             eapply IH; [exact H|apply inv_push_undef; exact HI|exact HD|exact Hrun].
        * inversion H; subst. exists E. split; [assumption|split; assumption].
  Qed.

  Lemma defined_den res D x : InvD res D -> defined_in c f tl D x = true -> exists y, den res x = ODone y.
  Proof.
    unfold defined_in. intros HD H. apply Bool.orb_true_iff in H. destruct H as [H|H].
    - destruct x; simpl in H; try discriminate. simpl. destruct (eval_const c t k); try discriminate. eauto.
    - apply existsb_exists in H. destruct H as (d & Hin & He). apply dec2b_spec in He.
      destruct (HD _ Hin []) as [y Hy]. rewrite app_nil_r, <- He, norm_sound in Hy. eauto.
  Qed.

  Ltac absorb'_step IH H HI HD Hst Hsc :=
    match type of H with (if defined_in _ _ _ ?D ?x then _ else _) = _ =>
      destruct (defined_in c f tl D x) eqn:Edf; [|discriminate H];
      destruct (defined_den _ _ _ HD Edf) as [y Ed];
      unfold steps_as in Hst; cbn [run_simple]; rewrite Hst, Ed; cbn [obind];
      eapply IH; [exact H | eapply inv_push_pure; [exact HI|exact Hsc|reflexivity|exact Ed]]
    end.

  Lemma absorb'_sound res D : InvD res D -> forall l sg E s sg1 r,
    absorb' c f tl rho D sg l = Some (sg1, r) -> Inv e0' res sg E ->
    exists E2, run_simple c m ge f' args l E s = run_simple c m ge f' args r E2 s /\ Inv e0' res sg1 E2.
  Proof.
    intros HD. induction l as [|i l IH]; intros sg E s sg1 r H HI.
    - simpl in H. inversion H; subst. exists E. split; [reflexivity|assumption].
    - cbn [absorb'] in H. destruct (is_phi_i i) eqn:Ep.
      + destruct i; try discriminate Ep. cbn [run_simple step_simple obind]. eapply IH; eassumption.
      + destruct (sym_pure' rho sg i) as [[[v x]|]|] eqn:Esp.
        * destruct i; simpl in Esp; try discriminate Esp.
          -- inversion Esp; subst; clear Esp; cbn iota in H.
             pose proof (step_const_den f' E s res v n t c0) as Hst.
             absorb'_step IH H HI HD Hst I.
          -- destruct (sym' rho sg a) as [xa|] eqn:Ea; [|discriminate Esp].
             destruct (sym' rho sg b) as [xb|] eqn:Eb; [|discriminate Esp].
             inversion Esp; subst; clear Esp; cbn iota in H.
             destruct (sym'_sound res sg E a xa HI Ea) as [Ha Hsa].
             destruct (sym'_sound res sg E b xb HI Eb) as [Hb Hsb].
             pose proof (step_bin_den f' E s res v n t o a b _ _ Ha Hb) as Hst.
             absorb'_step IH H HI HD Hst (conj Hsa Hsb).
          -- destruct (sym' rho sg a) as [xa|] eqn:Ea; [|discriminate Esp].
             inversion Esp; subst; clear Esp; cbn iota in H.
             destruct (sym'_sound res sg E a xa HI Ea) as [Ha Hsa].
             pose proof (step_un_den f' E s res v n t o a _ Ha) as Hst.
             absorb'_step IH H HI HD Hst Hsa.
          -- destruct (sym' rho sg a) as [xa|] eqn:Ea; [|discriminate Esp].
             inversion Esp; subst; clear Esp; cbn iota in H.
             destruct (sym'_sound res sg E a xa HI Ea) as [Ha Hsa].
             pose proof (step_cast_den f' E s res v n t a _ Ha) as Hst.
             absorb'_step IH H HI HD Hst Hsa.
          -- destruct (sym' rho sg a) as [xa|] eqn:Ea; [|discriminate Esp].
             inversion Esp; subst; clear Esp; cbn iota in H.
             destruct (sym'_sound res sg E a xa HI Ea) as [Ha Hsa].
             pose proof (step_addr_den f' E s res v n a _ Ha) as Hst.
             absorb'_step IH H HI HD Hst Hsa.
          -- inversion Esp; subst; clear Esp; cbn iota in H.
             cbn [run_simple step_simple obind].
             eapply IH; [exact H|apply inv_push_undef; exact HI].
        * discriminate H.
        * inversion H; subst. exists E. split; [reflexivity|assumption].
  Qed.

  Lemma teq'_sound res sg sg' E E' r r' :
    Inv e0 res sg E -> Inv e0' res sg' E' -> teq' c f tl rho sg sg' r r' = true ->
    eval_ref m ge false E' args r' = eval_ref m ge false E args r.
  Proof.
    unfold teq'. intros HI HI' H. destruct (sym' rho sg' r') eqn:Es; [|discriminate].
    destruct (sym'_sound _ _ _ _ _ HI' Es) as [Ha _]. destruct (sym_sound res sg E r HI) as [Hb _].
    rewrite Ha, Hb. symmetry. apply teq_den. exact H.
  Qed.

  Lemma load_not_undef t s p y : load_val c t s p = ODone y -> y <> Vundef.
  Proof.
    unfold load_val. destruct (scalar_bytes c t); simpl; try discriminate.
    destruct (read_bytes (s_mem s) p (Z.to_nat a)); try discriminate.
    destruct (ty_is_float t); [intros H; inversion H; discriminate|].
    destruct (wrap_ty c t (le_decode l)); [intros H; inversion H; discriminate|discriminate].
  Qed.

  Lemma match_effect_sound res sg sg' E E' s i i' r e1 s1 :
    Inv e0 res sg E -> Inv e0' res sg' E' ->
    match_effect c f tl f' rho sg sg' i i' = Some r ->
    step_simple c m ge f args E s i = ODone (e1, s1) ->
    match r with
    | Some (v, v') => exists y, y <> Vundef /\ e1 = (v, y) :: E /\
                                step_simple c m ge f' args E' s i' = ODone ((v', y) :: E', s1)
    | None => e1 = E /\ step_simple c m ge f' args E' s i' = ODone (E', s1)
    end.
  Proof.
    intros HI HI' Hm Hst.
    destruct i; simpl in Hm; try discriminate Hm; destruct i'; try discriminate Hm.
    - (* load *)
      destruct (ty_eqb t t0 && teq' c f tl rho sg sg' addr addr0) eqn:Ec; [|discriminate Hm].
      inversion Hm; subst; clear Hm. apply Bool.andb_true_iff in Ec. destruct Ec as [Et Ea].
      apply ty_eqb_spec in Et. subst t0. pose proof (teq'_sound _ _ _ _ _ _ _ HI HI' Ea) as Hr.
      cbn [step_simple] in *. rewrite eval_int_as in *. rewrite Hr.
      destruct (as_int (eval_ref m ge false E args addr)); cbn [obind] in *; try discriminate Hst.
      destruct (load_val c t s a) eqn:El; cbn [obind] in *; try discriminate Hst.
      inversion Hst; subst. exists a0. split; [eapply load_not_undef; eassumption|]. split; reflexivity.
    - (* store *)
      destruct (opt_ty_eqb (ref_ty f x) (ref_ty f' x0) && teq' c f tl rho sg sg' x x0 &&
                teq' c f tl rho sg sg' addr addr0) eqn:Ec; [|discriminate Hm].
      inversion Hm; subst; clear Hm. apply Bool.andb_true_iff in Ec. destruct Ec as [Ec Ea].
      apply Bool.andb_true_iff in Ec. destruct Ec as [Et Ex].
      pose proof (teq'_sound _ _ _ _ _ _ _ HI HI' Ea) as Hra.
      pose proof (teq'_sound _ _ _ _ _ _ _ HI HI' Ex) as Hrx.
      unfold opt_ty_eqb in Et. destruct (ref_ty f x) as [t|] eqn:E1; [|discriminate Et].
      destruct (ref_ty f' x0) as [t'|] eqn:E2; [|discriminate Et]. apply ty_eqb_spec in Et. subst t'.
      cbn [step_simple] in *. rewrite eval_int_as in *. rewrite Hra, Hrx, E2. rewrite E1 in Hst.
      destruct (as_int (eval_ref m ge false E args addr)); cbn [obind of_opt] in *; try discriminate Hst.
      destruct (eval_ref m ge false E args x); cbn [obind] in *; try discriminate Hst.
      destruct (store_val c t s a a0); cbn [obind] in *; try discriminate Hst.
      inversion Hst; subst. split; reflexivity.
    - (* alloc *)
      destruct ((size =? size0) && (align =? align0)) eqn:Ec; [|discriminate Hm].
      inversion Hm; subst; clear Hm. apply Bool.andb_true_iff in Ec. destruct Ec as [Ea Eb].
      apply Z.eqb_eq in Ea. apply Z.eqb_eq in Eb. subst.
      cbn [step_simple] in *. destruct (size0 <=? 0); [discriminate Hst|].
      destruct (do_alloc s (zeros size0) align0) as [a s']. inversion Hst; subst.
      eexists. split; [|split; reflexivity]. discriminate.
    - (* literal *)
      destruct (dec2b (list_eq_dec Z.eq_dec) data data0) eqn:Ec; [|discriminate Hm].
      inversion Hm; subst; clear Hm. apply dec2b_spec in Ec. subst.
      cbn [step_simple] in *. destruct (do_alloc s data0 1) as [a s']. inversion Hst; subst.
      eexists. split; [|split; reflexivity]. discriminate.
    - (* copyblob *)
      destruct ((amount =? amount0) && teq' c f tl rho sg sg' dst dst0 && teq' c f tl rho sg sg' src src0) eqn:Ec;
        [|discriminate Hm].
      inversion Hm; subst; clear Hm. apply Bool.andb_true_iff in Ec. destruct Ec as [Ec Es].
      apply Bool.andb_true_iff in Ec. destruct Ec as [En Ed]. apply Z.eqb_eq in En. subst.
      pose proof (teq'_sound _ _ _ _ _ _ _ HI HI' Ed) as Hrd.
      pose proof (teq'_sound _ _ _ _ _ _ _ HI HI' Es) as Hrs.
      cbn [step_simple] in *. rewrite !eval_int_as in *. rewrite Hrd, Hrs.
      destruct (as_int (eval_ref m ge false E args dst)); cbn [obind] in *; try discriminate Hst.
      destruct (as_int (eval_ref m ge false E args src)); cbn [obind] in *; try discriminate Hst.
      destruct (amount0 <? 0); [discriminate Hst|].
      destruct (read_bytes (s_mem s) a0 (Z.to_nat amount0)); [|discriminate Hst].
      destruct (write_bytes (s_mem s) a l); [|discriminate Hst].
      inversion Hst; subst. split; reflexivity.
  Qed.

  Lemma den_res_last res y : y <> Vundef -> den (res ++ [y]) (SRes (List.length res)) = ODone y.
  Proof.
    intros H. simpl. rewrite nth_error_app2 by lia. rewrite Nat.sub_diag. simpl. destruct y; congruence.
  Qed.

  Lemma inv_push_res B res sg E v y :
    Inv B res sg E -> y <> Vundef ->
    Inv B (res ++ [y]) ((v, SRes (List.length res)) :: sg) ((v, y) :: E).
  Proof.
    intros HI Hy. apply inv_push.
    - apply inv_res. exact HI.
    - simpl. rewrite app_length. simpl. lia.
    - rewrite read_bound by assumption. symmetry. apply den_res_last. assumption.
  Qed.

  Lemma check_sound : forall fuel res sg sg' D k l l' outs E E' s e1 s1,
    check c f tl f' fuel rho sg sg' D k l l' outs = true ->
    k = List.length res -> Inv e0 res sg E -> Inv e0' res sg' E' -> InvD res D ->
    run_simple c m ge f args l E s = ODone (e1, s1) ->
    exists e1', run_simple c m ge f' args l' E' s = ODone (e1', s1) /\
      forall r r', In (r, r') outs -> eval_ref m ge false e1' args r' = eval_ref m ge false e1 args r.
  Proof.
    induction fuel as [|n IH]; intros res sg sg' D k l l' outs E E' s e1 s1 H Hk HI HI' HD Hrun;
      [discriminate H|].
    cbn [check] in H.
    destruct (absorb c f tl sg D l) as [[sg1 D1] r] eqn:Eab.
    destruct (absorb' c f tl rho D1 sg' l') as [[sg1' r']|] eqn:Eab'; [|discriminate H].
    destruct (absorb_sound res _ _ _ _ s _ _ _ _ _ Eab HI HD Hrun) as (E2 & Hrun2 & HI2 & HD2).
    destruct (absorb'_sound res D1 HD2 _ _ _ s _ _ Eab' HI') as (E2' & Hrun2' & HI2').
    rewrite Hrun2'.
    destruct r as [|i rr]; destruct r' as [|i' rr']; try discriminate H.
    - cbn [run_simple] in *. inversion Hrun2; subst. exists E2'. split; [reflexivity|].
      intros r r' Hin. rewrite forallb_forall in H. specialize (H _ Hin). cbn [fst snd] in H.
      eapply teq'_sound; eassumption.
    - destruct (match_effect c f tl f' rho sg1 sg1' i i') as [[[v v']|]|] eqn:Em; try discriminate H.
      + cbn [run_simple] in Hrun2.
        destruct (step_simple c m ge f args E2 s i) as [[ea sa]| | | |] eqn:Est; cbn [obind] in Hrun2;
          try discriminate Hrun2.
        destruct (match_effect_sound _ _ _ _ _ _ _ _ _ _ _ HI2 HI2' Em Est) as (y & Hy & -> & Hst').
        cbn [run_simple]. rewrite Hst'. cbn [obind].
        subst k.
        eapply (IH (res ++ [y])); [exact H| | | | |exact Hrun2].
        * rewrite app_length. simpl. lia.
        * apply inv_push_res; assumption.
        * apply inv_push_res; assumption.
        * apply invd_res. exact HD2.
      + cbn [run_simple] in Hrun2.
        destruct (step_simple c m ge f args E2 s i) as [[ea sa]| | | |] eqn:Est; cbn [obind] in Hrun2;
          try discriminate Hrun2.
        destruct (match_effect_sound _ _ _ _ _ _ _ _ _ _ _ HI2 HI2' Em Est) as (-> & Hst').
        cbn [run_simple]. rewrite Hst'. cbn [obind].
        eapply (IH res); [exact H|exact Hk|exact HI2|exact HI2'|exact HD2|exact Hrun2].
  Qed.

  Theorem check_block_sound : forall l l' outs s e1 s1,
    check_block c f tl f' rho l l' outs = true ->
    run_simple c m ge f args l e0 s = ODone (e1, s1) ->
    exists e1', run_simple c m ge f' args l' e0' s = ODone (e1', s1) /\
      forall r r', In (r, r') outs -> eval_ref m ge false e1' args r' = eval_ref m ge false e1 args r.
  Proof.
    intros l l' outs s e1 s1 H Hrun. unfold check_block in H.
    eapply (check_sound _ [] [] [] [] O); try eassumption; try reflexivity.
    - split; [intros v x Hx; discriminate Hx|reflexivity].
    - split; [intros v x Hx; discriminate Hx|reflexivity].
    - intros d [].
  Qed.
End Sound.
