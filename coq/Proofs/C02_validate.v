(* Proofs/C02_validate.v — soundness of the block validator Model/OptValidate.v against
   IRSem.step_simple.

   norm_sound          normalisation does not change what a term denotes (uses the rules of
                       C02_rules.v: constant folding = eval_binop, add-zero / mul-one on typed values)
   check_block_sound   check_block c f f' rho l l' outs = true, the "before" list runs to (e1, s1)
                       => the "after" list runs to (e1', s1) with the SAME state, and every pair of
                       references in outs reads equal values.
   Hypotheses: cfg_ok (pointer size >= 0), env_typed (every value of the initial environment is in
   the range of its declared type), ren_ok (the initial environments agree along rho). *)
From PV Require Import Lib.Py Lib.Tac Spec.IRSyntax Spec.IRSem Model.OptValidate Proofs.C02_rules.
From Coq Require Import String.
Open Scope Z_scope.

Section Sound.
  Variable c : cfg.
  Variable m : modul.
  Variable ge : list (string * Z).
  Variable f f' : func.
  Variable e0 : env.
  Variable args : list value.
  Hypothesis Hc : cfg_ok c.

  Definition env_typed : Prop :=
    forall r t b s v, ref_ty f r = Some t -> int_shape c t = Some (b, s) ->
      eval_ref m ge false e0 args r = ODone v -> exists z, v = Vint z /\ wrap_bits b s z = z.
  Hypothesis Hty : env_typed.

  Notation den := (den c m ge e0 args).

  Lemma wrap_ty_idem t z r : wrap_ty c t z = Some r -> wrap_ty c t r = Some r.
  Proof.
    unfold wrap_ty. destruct (int_shape c t) as [[b s]|] eqn:E; [|discriminate].
    intros H. inversion H; subst. rewrite wrap_bits_idem; [reflexivity|].
    eapply int_shape_bits; eassumption.
  Qed.

  Lemma cval_den res x z : cval c x = Some z -> den res x = ODone (Vint z).
  Proof.
    destruct x; simpl; try discriminate. destruct k; try discriminate.
    intros H. unfold eval_const. rewrite H. reflexivity.
  Qed.

  Lemma typed_head_range res x t b s v :
    typed_head f x t = true -> int_shape c t = Some (b, s) -> den res x = ODone v ->
    exists z, v = Vint z /\ wrap_bits b s z = z.
  Proof.
    intros Hh Hs Hd. pose proof (int_shape_bits _ _ _ _ Hc Hs) as Hb.
    destruct x; simpl in Hh; try discriminate.
    - (* leaf *) destruct (ref_ty f r) eqn:Er; [|discriminate].
      apply ty_eqb_spec in Hh. subst. eapply Hty; eassumption.
    - (* const *) destruct k; try discriminate. apply ty_eqb_spec in Hh. subst.
      simpl in Hd. unfold eval_const, wrap_ty in Hd. rewrite Hs in Hd. inversion Hd; subst.
      eexists. split; [reflexivity|]. apply wrap_bits_idem. assumption.
    - (* bin *) apply ty_eqb_spec in Hh. subst. simpl in Hd.
      destruct (as_int (den res x1)); simpl in Hd; try discriminate.
      destruct (as_int (den res x2)); simpl in Hd; try discriminate.
      destruct (eval_binop c t o a a0) eqn:Eb; simpl in Hd; try discriminate.
      inversion Hd; subst. eexists. split; [reflexivity|]. eapply eval_binop_range; eassumption.
    - (* un *) apply ty_eqb_spec in Hh. subst. simpl in Hd.
      destruct (as_int (den res x)); simpl in Hd; try discriminate.
      destruct (eval_unop c t o a) eqn:Eb; simpl in Hd; try discriminate.
      inversion Hd; subst. eexists. split; [reflexivity|]. eapply eval_unop_range; eassumption.
    - (* cast *) apply ty_eqb_spec in Hh. subst. simpl in Hd.
      destruct (den res x); simpl in Hd; try discriminate.
      destruct a; simpl in Hd; try discriminate;
        try (destruct (ty_is_blob t); discriminate).
      unfold wrap_ty in Hd. rewrite Hs in Hd. inversion Hd; subst.
      eexists. split; [reflexivity|]. apply wrap_bits_idem. assumption.
  Qed.

  (* reading a typed term as an integer *)
  Lemma typed_as_int res x t :
    typed_head f x t = true -> is_shape c t = true ->
    forall b s, int_shape c t = Some (b, s) ->
    (exists z, den res x = ODone (Vint z) /\ wrap_bits b s z = z /\ as_int (den res x) = ODone z)
    \/ (forall v, den res x <> ODone v).
  Proof.
    intros Hh _ b s Hs. destruct (den res x) eqn:Ed.
    - destruct (typed_head_range _ _ _ _ _ _ Hh Hs Ed) as (z & -> & Hr).
      left. exists z. repeat split; try assumption. reflexivity.
    - right; congruence.
    - right; congruence.
    - right; congruence.
    - right; congruence.
  Qed.

  Lemma is_shape_some t : is_shape c t = true -> exists b s, int_shape c t = Some (b, s).
  Proof. unfold is_shape. destruct (int_shape c t) as [[b s]|]; [eauto|discriminate]. Qed.

  Lemma zeqb_some o z : zeqb o z = true -> o = Some z.
  Proof. destruct o; simpl; [intros H; apply Z.eqb_eq in H; congruence|discriminate]. Qed.

  Lemma bin_unfold res t o a b :
    den res (SBin t o a b) =
    (x <~ as_int (den res a) ;; y <~ as_int (den res b) ;; z <~ eval_binop c t o x y ;; ODone (Vint z)).
  Proof. reflexivity. Qed.

  (* x op 0 / 1 where the other operand is a typed value *)
  Lemma ident_r res t o a b0 k :
    (forall bb s x, int_shape c t = Some (bb, s) -> wrap_bits bb s x = x -> eval_binop c t o x k = ODone x) ->
    cval c b0 = Some k -> typed_head f a t = true -> is_shape c t = true ->
    den res (SBin t o a b0) = den res a.
  Proof.
    intros Hrule Hk Hh Hsh. destruct (is_shape_some _ Hsh) as (bb & s & Hs).
    rewrite bin_unfold. rewrite (cval_den res _ _ Hk).
    destruct (typed_as_int res _ _ Hh Hsh _ _ Hs) as [(z & Hd & Hr & Hi)|Hn].
    - rewrite Hi, Hd. simpl. rewrite (Hrule _ _ _ Hs Hr). reflexivity.
    - destruct (den res a) eqn:Ed; simpl; try reflexivity. exfalso. eapply Hn. reflexivity.
  Qed.
  Lemma ident_l res t o a b0 k :
    (forall bb s x, int_shape c t = Some (bb, s) -> wrap_bits bb s x = x -> eval_binop c t o k x = ODone x) ->
    cval c a = Some k -> typed_head f b0 t = true -> is_shape c t = true ->
    den res (SBin t o a b0) = den res b0.
  Proof.
    intros Hrule Hk Hh Hsh. destruct (is_shape_some _ Hsh) as (bb & s & Hs).
    rewrite bin_unfold. rewrite (cval_den res _ _ Hk).
    destruct (typed_as_int res _ _ Hh Hsh _ _ Hs) as [(z & Hd & Hr & Hi)|Hn].
    - rewrite Hi, Hd. simpl. rewrite (Hrule _ _ _ Hs Hr). reflexivity.
    - destruct (den res b0) eqn:Ed; simpl; try reflexivity. exfalso. eapply Hn. reflexivity.
  Qed.

  Lemma eval_binop_shape t o x y z : eval_binop c t o x y = ODone z -> exists b s, int_shape c t = Some (b, s).
  Proof.
    unfold eval_binop. destruct (int_shape c t) as [[b s]|]; [eauto|].
    destruct (ty_is_float t); discriminate.
  Qed.

  Lemma simp_bin_sound res t o a b : den res (simp_bin c f t o a b) = den res (SBin t o a b).
  Proof.
    unfold simp_bin.
    destruct (cval c a) as [x|] eqn:Ea; destruct (cval c b) as [y|] eqn:Eb.
    - (* both constants *)
      destruct (eval_binop c t o x y) eqn:Ev; try reflexivity.
      rewrite bin_unfold, (cval_den res _ _ Ea), (cval_den res _ _ Eb). simpl. rewrite Ev. simpl.
      destruct (eval_binop_shape _ _ _ _ _ Ev) as (bb & s & Hs).
      exact (c02_rule_constfold_sound _ _ _ _ _ _ _ _ Hc Hs Ev).
    - destruct o; try reflexivity.
      destruct (zeqb (Some x) 0 && typed_head f b t && is_shape c t) eqn:E2;
        [|simpl; rewrite ?Bool.andb_false_r; reflexivity].
      simpl (zeqb None 0). cbn [andb].
      apply Bool.andb_true_iff in E2. destruct E2 as [E2 E3]. apply Bool.andb_true_iff in E2.
      destruct E2 as [E1 E2]. apply zeqb_some in E1. inversion E1; subst.
      symmetry. eapply ident_l; try eassumption. intros. eapply c02_rule_addzero_l_sound; eassumption.
    - destruct o; try reflexivity.
      + destruct (zeqb (Some y) 0 && typed_head f a t && is_shape c t) eqn:E2.
        * apply Bool.andb_true_iff in E2. destruct E2 as [E2 E3]. apply Bool.andb_true_iff in E2.
          destruct E2 as [E1 E2]. apply zeqb_some in E1. inversion E1; subst.
          symmetry. eapply ident_r; try eassumption. intros. eapply c02_rule_addzero_r_sound; eassumption.
        * reflexivity.
      + destruct (zeqb (Some y) 1 && typed_head f a t && is_shape c t) eqn:E2; [|reflexivity].
        apply Bool.andb_true_iff in E2. destruct E2 as [E2 E3]. apply Bool.andb_true_iff in E2.
        destruct E2 as [E1 E2]. apply zeqb_some in E1. inversion E1; subst.
        symmetry. eapply ident_r; try eassumption. intros. eapply c02_rule_mulone_sound; eassumption.
    - destruct o; reflexivity.
  Qed.

  Theorem norm_sound : forall res x, den res (norm c f x) = den res x.
  Proof.
    intros res. induction x; try reflexivity.
    - (* const *) simpl. destruct k; try reflexivity.
      destruct (wrap_ty c t z) eqn:E; [|reflexivity].
      simpl. unfold eval_const. rewrite E, (wrap_ty_idem _ _ _ E). reflexivity.
    - (* bin *) simpl norm. rewrite simp_bin_sound, !bin_unfold, IHx1, IHx2. reflexivity.
    - (* un *) simpl. rewrite IHx. reflexivity.
    - (* cast *) simpl norm. cbv zeta.
      destruct (cval c (norm c f x)) eqn:Ecv.
      + destruct (wrap_ty c t z) eqn:Ew.
        * simpl. rewrite <- IHx, (cval_den res _ _ Ecv). simpl. rewrite Ew.
          unfold eval_const. rewrite (wrap_ty_idem _ _ _ Ew). reflexivity.
        * simpl. rewrite IHx. reflexivity.
      + simpl. rewrite IHx. reflexivity.
    - (* addr *) simpl. rewrite IHx. reflexivity.
  Qed.

  Lemma teq_den res x y : teq c f x y = true -> den res x = den res y.
  Proof.
    unfold teq, sexp_eqb. intros H. apply dec2b_spec in H.
    rewrite <- (norm_sound res x), <- (norm_sound res y), H. reflexivity.
  Qed.
End Sound.
