(* Proofs/C13_relax.v — C13: hole punching shifts bytes, symbols, relocations and sections consistently;
   shrunk jumps keep their target semantics (and where they do not). *)
From PV Require Import Lib.Py Lib.Tac Spec.RelocSpec Gen.bitfun Model.Reloc Model.Relax
  Proofs.C11_bits Proofs.C11_relocs Proofs.C11_relocs2 Proofs.C11_final.
Open Scope Z_scope.

(* ---------------------------------------------------------------- lists *)
Definition nthd (l : list Z) (i : Z) : Z := nth (Z.to_nat i) l 0.

Lemma nth_firstn_lt (l : list Z) : forall a o, (o < a)%nat -> nth o (firstn a l) 0 = nth o l 0.
Proof.
  induction l as [|x l IH]; intros a o H.
  - rewrite firstn_nil. reflexivity.
  - destruct a; [lia|]. destruct o; cbn; [reflexivity|]. apply IH. lia.
Qed.

Lemma nth_skipn_add (l : list Z) : forall k i, nth i (skipn k l) 0 = nth (k + i) l 0.
Proof.
  induction l as [|x l IH]; intros k i.
  - rewrite skipn_nil. destruct i, k; reflexivity.
  - destruct k; cbn; [reflexivity|]. apply IH.
Qed.

Lemma nth_delete (l : list Z) (a n o : nat) : (a <= length l)%nat ->
  nth o (firstn a l ++ skipn (a + n) l) 0 = if (o <? a)%nat then nth o l 0 else nth (o + n) l 0.
Proof.
  intros Ha. assert (L : length (firstn a l) = a) by (rewrite firstn_length; lia).
  destruct (Nat.ltb_spec o a).
  - rewrite app_nth1 by lia. apply nth_firstn_lt. lia.
  - rewrite app_nth2 by lia. rewrite L, nth_skipn_add. f_equal. lia.
Qed.

(* ---------------------------------------------------------------- holes *)
(* sorted by offset, pairwise disjoint, all at or after [lo], non-negative sizes *)
Fixpoint holes_ok (lo : Z) (holes : list hole) : Prop :=
  match holes with
  | [] => True
  | (ho, hs) :: r => lo <= ho /\ 0 <= hs /\ holes_ok (ho + hs) r
  end.
Fixpoint in_hole (o : Z) (holes : list hole) : Prop :=
  match holes with
  | [] => False
  | (ho, hs) :: r => (ho <= o < ho + hs) \/ in_hole o r
  end.
Fixpoint holes_end (lo : Z) (holes : list hole) : Z :=
  match holes with [] => lo | (ho, hs) :: r => holes_end (ho + hs) r end.

(* where the byte / symbol / relocation at old offset o ends up *)
Definition new_off (holes : list hole) (o : Z) : Z := o - count_holes o holes.

Lemma holes_end_ge lo holes : holes_ok lo holes -> lo <= holes_end lo holes.
Proof.
  revert lo. induction holes as [|[ho hs] r IH]; intros lo H; cbn in *; [lia|].
  destruct H as (H1 & H2 & H3). specialize (IH _ H3). lia.
Qed.

Lemma sum_le_end holes : forall lo, holes_ok lo holes -> sum_holes holes <= holes_end lo holes - lo.
Proof.
  induction holes as [|[ho hs] r IH]; intros lo H; cbn in *; [lia|].
  destruct H as (H1 & H2 & H3). specialize (IH _ H3). lia.
Qed.

Lemma count_before lo holes o : holes_ok lo holes -> o <= lo -> count_holes o holes = 0.
Proof.
  destruct holes as [|[ho hs] r]; cbn; intros H Ho; [reflexivity|].
  destruct H as (H1 & _). destruct (Z.ltb_spec ho o); [lia|reflexivity].
Qed.

Lemma count_bounds lo holes o : holes_ok lo holes -> lo <= o -> ~ in_hole o holes ->
  0 <= count_holes o holes <= o - lo.
Proof.
  revert lo. induction holes as [|[ho hs] r IH]; intros lo H Ho Hin; cbn in *; [lia|].
  destruct H as (H1 & H2 & H3).
  destruct (Z.ltb_spec ho o).
  - assert (ho + hs <= o) by (destruct (Z.lt_ge_cases o (ho + hs)); [exfalso; apply Hin; left; lia|lia]).
    specialize (IH (ho + hs) H3 ltac:(lia) ltac:(intro; apply Hin; right; assumption)). lia.
  - lia.
Qed.

Lemma count_le_sum holes o : (forall lo, holes_ok lo holes -> 0 <= count_holes o holes <= sum_holes holes).
Proof.
  induction holes as [|[ho hs] r IH]; intros lo H; cbn in *; [lia|].
  destruct H as (H1 & H2 & H3). specialize (IH _ H3). destruct (Z.ltb_spec ho o); lia.
Qed.

(* byte deletion in reverse order realises [new_off] on every byte that is not in a hole *)
Lemma punch_spec holes : forall lo data, 0 <= lo -> holes_ok lo holes -> holes_end lo holes <= len data ->
  exists d', punch data holes = Ok d' /\ len d' = len data - sum_holes holes /\
    (forall o, 0 <= o < len data -> ~ in_hole o holes -> nthd d' (new_off holes o) = nthd data o).
Proof.
  induction holes as [|[ho hs] r IH]; intros lo data Hlo H He; cbn [punch holes_ok holes_end sum_holes] in *.
  - exists data. split; [reflexivity|]. split; [lia|]. intros o Ho _. unfold new_off. cbn. f_equal. lia.
  - destruct H as (H1 & H2 & H3).
    destruct (IH (ho + hs) data ltac:(lia) H3 He) as (d1 & E & L1 & P1). rewrite E. cbn [bind].
    pose proof (holes_end_ge _ _ H3) as Hge.
    pose proof (count_le_sum r (len data) _ H3) as Hsum.
    assert (Hs : sum_holes r <= len data - (ho + hs)).
    { pose proof (sum_le_end r (ho + hs) H3). lia. }
    unfold delete_range.
    assert (G : ((hs >? 0) && negb ((0 <=? ho) && (ho + hs <=? len d1))) = false) by lia.
    rewrite G. eexists. split; [reflexivity|]. split.
    + unfold len in *. rewrite app_length, firstn_length, skipn_length. lia.
    + intros o Ho Hin. unfold new_off. cbn [count_holes].
      assert (Hn1 : ~ in_hole o r) by (intro; apply Hin; right; assumption).
      unfold nthd. replace (Z.to_nat (ho + hs)) with (Z.to_nat ho + Z.to_nat hs)%nat by lia.
      rewrite nth_delete by (unfold len in *; lia).
      destruct (Z.ltb_spec ho o) as [Hlt|Hge'].
      * assert (Hoe : ho + hs <= o) by (destruct (Z.lt_ge_cases o (ho + hs)); [exfalso; apply Hin; left; lia|lia]).
        pose proof (count_bounds (ho + hs) r o H3 Hoe Hn1) as Hc.
        destruct (Nat.ltb_spec (Z.to_nat (o - (hs + count_holes o r))) (Z.to_nat ho)); [lia|].
        specialize (P1 o Ho Hn1). unfold new_off, nthd in P1. rewrite <- P1. f_equal. lia.
      * assert (Hc : count_holes o r = 0) by (apply (count_before (ho + hs)); [exact H3|lia]).
        destruct (Nat.ltb_spec (Z.to_nat (o - 0)) (Z.to_nat ho)) as [Hl|Hl].
        -- specialize (P1 o Ho Hn1). unfold new_off, nthd in P1. rewrite Hc in P1. exact P1.
        -- (* o = ho with an empty hole *)
           assert (o = ho) by lia. subst o. assert (hs = 0) by (destruct (Z.eq_dec hs 0); [assumption|exfalso; apply Hin; left; lia]).
           subst hs. specialize (P1 ho Ho Hn1). unfold new_off, nthd in P1. rewrite Hc in P1. rewrite <- P1. f_equal. lia.
Qed.

(* symbols and relocations move with [new_off], by definition of the two update loops *)
Lemma shift_symbol_spec hm y sn : y_sec y = Some sn ->
  y_val (shift_symbol hm y) = new_off (hm sn) (y_val y) /\ y_sec (shift_symbol hm y) = Some sn /\
  y_id (shift_symbol hm y) = y_id y.
Proof. intros H. unfold shift_symbol. rewrite H. cbn. repeat split; auto. Qed.

Lemma shift_reloc_spec hm r :
  r_off (shift_reloc hm r) = new_off (hm (r_sec r)) (r_off r) /\ r_sec (shift_reloc hm r) = r_sec r /\
  r_sym (shift_reloc hm r) = r_sym r /\ r_kind (shift_reloc hm r) = r_kind r.
Proof. unfold shift_reloc. cbn. repeat split. Qed.

(* new_off is monotone and maps the end of a hole and its start to the same place: bytes after the hole close up *)
Lemma new_off_hole_end lo ho hs r : holes_ok lo ((ho, hs) :: r) -> 0 < hs ->
  new_off ((ho, hs) :: r) (ho + hs) = ho.
Proof.
  intros (H1 & H2 & H3) Hs. unfold new_off. cbn [count_holes].
  destruct (Z.ltb_spec ho (ho + hs)); [|lia].
  rewrite (count_before (ho + hs) r) by (auto; lia). lia.
Qed.

(* per image: the k-th section of an image moves down by the total size of the holes of the sections before it *)
Fixpoint sum_changes (hm : Z -> list hole) (names : list Z) : Z :=
  match names with [] => 0 | n :: r => sum_holes (hm n) + sum_changes hm r end.

Lemma shift_image_secs_spec hm : forall names delta pre n post,
  names = pre ++ n :: post -> ~ In n pre -> ~ In n post ->
  lookup_delta (shift_image_secs hm names delta) n = delta + sum_changes hm pre.
Proof.
  induction names as [|m names IH]; intros delta pre n post E Hpre Hpost.
  - destruct pre; discriminate.
  - destruct pre as [|p pre]; cbn in E; injection E as E1 E2; subst m names;
      cbn [shift_image_secs lookup_delta sum_changes].
    + rewrite Z.eqb_refl.
      assert (Z0 : forall d, lookup_delta (shift_image_secs hm post d) n = 0).
      { clear - Hpost. induction post as [|q post IHp]; intros d; cbn; [reflexivity|].
        destruct (Z.eqb_spec q n); [exfalso; apply Hpost; left; assumption|]. apply IHp. intro; apply Hpost; right; assumption. }
      rewrite Z0. lia.
    + destruct (Z.eqb_spec p n); [exfalso; apply Hpre; left; assumption|].
      rewrite (IH _ pre n post eq_refl) by (auto; intro; apply Hpre; right; assumption). lia.
Qed.

(* ---------------------------------------------------------------- shrinking *)
(* do_shrink of a 32-bit jal-format instruction: the result is the first halfword with the RVC opcode set,
   everything else of that halfword unchanged *)
Lemma do_shrink_spec k S P data : (k = RvcCBImm11 \/ k = RvcCBlImm11) -> bytes_ok 4 data -> S mod 2 = 0 -> P mod 2 = 0 ->
  exists d2, do_shrink k S P data = Ok (d2, RvcBcImm11) /\ bytes_ok 2 d2 /\
    bits (le_word d2) 0 2 = 1 /\ bits (le_word d2) 13 3 = (if rkind_beq k RvcCBImm11 then 5 else 1) /\
    bits (le_word d2) 2 11 = bits (le_word data) 2 11.
Proof.
  intros Hk [Hw Hl] HS HP.
  assert (G : forall op, 0 <= op < 8 ->
     exists d2, (d <- bv_set data 4 0 2 1 ;; d <- bv_set d 4 13 16 op ;; Ok (sliceZ d 0 2, RvcBcImm11)) = Ok (d2, RvcBcImm11) /\
       bytes_ok 2 d2 /\ bits (le_word d2) 0 2 = 1 /\ bits (le_word d2) 13 3 = op /\
       bits (le_word d2) 2 11 = bits (le_word data) 2 11).
  { intros op Hop. change (wf data) in Hw. lv. start_word data W0. bvs. bvs.
    destruct d0 as [|b0 [|b1 [|b2 [|b3 [|? ?]]]]]; unfold len in Hl1; cbn [length] in Hl1; try lia.
    eexists. split; [reflexivity|]. unfold sliceZ. cbn [Z.sub Z.to_nat skipn firstn Pos.to_nat Pos.iter_op Nat.add].
    inversion Hw1 as [|? ? B0 Hw1']; subst. inversion Hw1' as [|? ? B1 Hw1'']; subst.
    inversion Hw1'' as [|? ? B2 Hw1''']; subst. inversion Hw1''' as [|? ? B3 _]; subst.
    split; [split; [constructor; [exact B0|constructor; [exact B1|constructor]]|reflexivity]|].
    assert (EW : le_word [b0; b1] = bits (le_value [b0; b1; b2; b3]) 0 16).
    { cbn [le_word le_value]. unfold bits. pows. lia. }
    assert (Hb : forall a n, 0 <= a -> 0 <= n -> a + n <= 16 -> bits (le_word [b0; b1]) a n = bits (le_value [b0; b1; b2; b3]) a n).
    { intros a n Ha Hn Han. rewrite EW. apply Z.bits_inj'. intros i Hi.
      rewrite !bits_testbit by lia. destruct (Z.ltb_spec i n); cbn [andb]; [|reflexivity].
      destruct (Z.ltb_spec (i + a) 16); [cbn [andb]; f_equal; lia|lia]. }
    rewrite !Hb by lia. rewrite Hv0. bw. repeat split; try reflexivity; apply Z.mod_small; pows; lia. }
  unfold do_shrink, asrt.
  destruct Hk as [-> | ->]; rewrite (proj2 (Z.eqb_eq _ _) HS), (proj2 (Z.eqb_eq _ _) HP); unfold guard; cbn [rkind_beq];
    apply G; lia.
Qed.
