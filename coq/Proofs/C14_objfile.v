(* Proofs/C14_objfile.v — round-trip proofs for Model/ObjectFile.v (property C14). *)
From PV Require Import Lib.Py Lib.Tac Lib.Val Lib.Json Gen.objarch Model.ObjectFile.
From Coq Require Import String Ascii.
Open Scope string_scope.
Open Scope Z_scope.

(* ------------------------------------------------------------------ digits *)
Lemma unhexch_hexch d : 0 <= d < 16 -> unhexch (hexch d) = Some d.
Proof.
  intros H.
  assert (E : d = 0 \/ d = 1 \/ d = 2 \/ d = 3 \/ d = 4 \/ d = 5 \/ d = 6 \/ d = 7 \/ d = 8 \/
              d = 9 \/ d = 10 \/ d = 11 \/ d = 12 \/ d = 13 \/ d = 14 \/ d = 15) by lia.
  repeat (destruct E as [-> | E]; [reflexivity|]). subst d. reflexivity.
Qed.

Lemma hexdigs_nonempty f n : hexdigs f n <> [].
Proof.
  destruct f; cbn [hexdigs]; [discriminate|].
  destruct (n <? 16); [discriminate|].
  intros E. apply app_eq_nil in E. destruct E as [_ E]. discriminate.
Qed.

Lemma hexdigs_parse f : forall n, 0 <= n < 2 ^ Z.of_nat f ->
  fold_left (digit_step 16) (map hexch (hexdigs f n)) (Some 0) = Some n.
Proof.
  assert (Base : forall n, 0 <= n < 16 ->
            fold_left (digit_step 16) (map hexch [n]) (Some 0) = Some n).
  { intros n Hn. cbn [map fold_left]. unfold digit_step. rewrite unhexch_hexch by lia.
    destruct (n <? 16) eqn:E; [f_equal; lia | lia]. }
  induction f as [|f IH]; intros n Hn.
  - cbn [hexdigs]. apply Base. change (2 ^ Z.of_nat 0) with 1 in Hn. lia.
  - cbn [hexdigs]. destruct (n <? 16) eqn:E.
    + apply Base. lia.
    + rewrite map_app, fold_left_app. rewrite IH.
      * cbn [map fold_left]. unfold digit_step.
        rewrite unhexch_hexch by (apply Z.mod_pos_bound; lia).
        destruct (n mod 16 <? 16) eqn:E2.
        -- f_equal. pose proof (Z.div_mod n 16). lia.
        -- pose proof (Z.mod_pos_bound n 16). lia.
      * rewrite Nat2Z.inj_succ, Z.pow_succ_r in Hn by lia.
        split; [apply Z.div_pos; lia|].
        apply Z.div_lt_upper_bound; lia.
Qed.

Lemma log2_fuel n : 0 <= n -> n < 2 ^ Z.of_nat (S (Z.to_nat (Z.log2 n))).
Proof.
  intros H. rewrite Nat2Z.inj_succ, Z2Nat.id by apply Z.log2_nonneg.
  destruct (Z.eq_dec n 0) as [->|Hn].
  - cbn. lia.
  - apply Z.log2_spec. lia.
Qed.

Lemma py_int_hex_abs n : 0 <= n -> py_int 16 (hex_abs n) = Ok n.
Proof.
  intros H. unfold py_int, hex_abs. rewrite list_ascii_of_string_of_list_ascii.
  unfold parse_digits.
  destruct (map hexch (hexdigs (S (Z.to_nat (Z.log2 n))) n)) eqn:E.
  - apply map_eq_nil in E. now apply hexdigs_nonempty in E.
  - rewrite <- E. rewrite hexdigs_parse; [reflexivity|].
    split; [assumption | now apply log2_fuel].
Qed.

Lemma prefix_nil s : prefix "" s = true.
Proof. now destruct s. Qed.

(* hex text of any integer parses back *)
Lemma make_num_py_hex z : make_num (py_hex z) = Ok z.
Proof.
  unfold py_hex. destruct (z <? 0) eqn:E.
  - pose proof (py_int_hex_abs (- z)) as P. set (s := hex_abs (- z)) in *. clearbody s.
    unfold make_num. cbn. rewrite prefix_nil. rewrite P by lia. cbn. f_equal. lia.
  - pose proof (py_int_hex_abs z) as P. set (s := hex_abs z) in *. clearbody s.
    unfold make_num. cbn. rewrite prefix_nil. rewrite P by lia. reflexivity.
Qed.

(* ------------------------------------------------------------------ hexlify / chunks *)
Lemma is_byte_range b : is_byte b = true -> 0 <= b < 256.
Proof. unfold is_byte. lia. Qed.

Lemma unhexlify_hexlify bs : all_byte bs = true -> unhexlify (hexlify bs) = Ok bs.
Proof.
  unfold unhexlify, hexlify. rewrite list_ascii_of_string_of_list_ascii.
  induction bs as [|b r IH]; intros H; cbn [flat_map app unhex_pairs].
  - reflexivity.
  - cbn [all_byte forallb] in H. apply andb_true_iff in H. destruct H as [Hb Hr].
    apply is_byte_range in Hb.
    rewrite unhexch_hexch by (split; [apply Z.div_pos; lia | apply Z.div_lt_upper_bound; lia]).
    rewrite unhexch_hexch by (apply Z.mod_pos_bound; lia).
    unfold all_byte in IH. rewrite IH by assumption. cbn [bind].
    do 2 f_equal. pose proof (Z.div_mod b 16). lia.
Qed.

Lemma forallb_firstn {A} (p : A -> bool) n l :
  forallb p l = true -> forallb p (firstn n l) = true.
Proof.
  revert l; induction n as [|n IH]; intros [|x l] H; cbn [firstn forallb] in *; auto.
  apply andb_true_iff in H. destruct H as [-> H]. cbn. auto.
Qed.

Lemma forallb_skipn {A} (p : A -> bool) n l :
  forallb p l = true -> forallb p (skipn n l) = true.
Proof.
  revert l; induction n as [|n IH]; intros [|x l] H; cbn [skipn forallb] in *; auto.
  apply andb_true_iff in H. destruct H as [_ H]. auto.
Qed.

Lemma chunks_concat f : forall l, (List.length l <= f)%nat -> List.concat (chunks_f f 30 l) = l.
Proof.
  induction f as [|f IH]; intros l H.
  - destruct l; [reflexivity | cbn in H; lia].
  - cbn [chunks_f]. destruct l as [|x l']; [reflexivity|].
    set (l := x :: l') in *. cbn [List.concat].
    rewrite IH.
    + apply firstn_skipn.
    + rewrite skipn_length. subst l. cbn [List.length] in *. lia.
Qed.

Lemma chunks_bytes f : forall l p, all_byte l = true -> In p (chunks_f f 30 l) -> all_byte p = true.
Proof.
  induction f as [|f IH]; intros l p H Hin; cbn [chunks_f] in Hin.
  - destruct Hin.
  - destruct l as [|x l']; [destruct Hin|].
    destruct Hin as [<- | Hin].
    + now apply forallb_firstn.
    + apply (IH (skipn 30 (x :: l'))); [now apply forallb_skipn | assumption].
Qed.

Lemma asc2bin_bin2asc bs : all_byte bs = true -> asc2bin (bin2asc bs) = Ok bs.
Proof.
  intros H. unfold bin2asc. destruct (30 <? len bs).
  - cbn [asc2bin].
    rewrite (mapM_map_id (fun p => JStr (hexlify p))).
    + cbn [bind]. unfold chunks. now rewrite chunks_concat.
    + intros p Hp. cbn [as_str bind]. apply unhexlify_hexlify.
      unfold chunks in Hp. eapply chunks_bytes; eassumption.
  - cbn [asc2bin]. now apply unhexlify_hexlify.
Qed.

(* ------------------------------------------------------------------ record round trips *)
Lemma as_opt_str_jopt o : as_opt_str (jopt_str o) = Ok o.
Proof. now destruct o. Qed.
Lemma as_opt_int_jopt o : as_opt_int (jopt_num o) = Ok o.
Proof. now destruct o. Qed.

Lemma des_ser_section s : wf_section s = true -> des_section (ser_section s) = Ok s.
Proof.
  destruct s as [n a al d]. unfold wf_section. cbn [sec_data]. intros H.
  unfold des_section, ser_section. cbn [sec_name sec_address sec_alignment sec_data].
  cbn [jget jlookup String.eqb Ascii.eqb Bool.eqb bind as_str make_num_j].
  rewrite !make_num_py_hex. cbn [bind]. rewrite asc2bin_bin2asc by assumption. reflexivity.
Qed.

Lemma des_ser_symbol y : wf_symbol y = true -> des_symbol (ser_symbol y) = Ok y.
Proof.
  destruct y as [i n b v s t z]. unfold wf_symbol. cbn [sym_value sym_section]. intros H.
  unfold des_symbol, ser_symbol.
  cbn [sym_id sym_name sym_binding sym_value sym_section sym_typ sym_size].
  destruct v as [v|].
  - cbn [app jhas jget jlookup String.eqb Ascii.eqb Bool.eqb bind as_str as_int make_num_j].
    rewrite make_num_py_hex. cbn [bind]. rewrite as_opt_str_jopt. cbn [bind].
    rewrite as_opt_str_jopt. cbn [bind]. rewrite as_opt_int_jopt. reflexivity.
  - destruct s; [discriminate|].
    cbn [app jhas jget jlookup String.eqb Ascii.eqb Bool.eqb bind as_str as_int make_num_j].
    rewrite as_opt_str_jopt. cbn [bind]. rewrite as_opt_int_jopt. reflexivity.
Qed.

Lemma des_ser_reloc names r :
  str_in (rel_section r) names = true -> des_reloc names (ser_reloc r) = Ok r.
Proof.
  destruct r as [t i s o a]. cbn [rel_section]. intros H.
  unfold des_reloc, ser_reloc. cbn [rel_type rel_symbol_id rel_section rel_offset rel_addend].
  cbn [jget jlookup String.eqb Ascii.eqb Bool.eqb bind as_str as_int make_num_j].
  rewrite !make_num_py_hex. cbn [bind]. now rewrite H.
Qed.

Lemma des_ser_image names i :
  forallb (fun n => str_in n names) (img_sections i) = true ->
  des_image names (ser_image i) = Ok i.
Proof.
  destruct i as [n a ss]. cbn [img_sections]. intros H.
  unfold des_image, ser_image. cbn [img_name img_address img_sections].
  cbn [jget jlookup String.eqb Ascii.eqb Bool.eqb bind as_str as_list make_num_j].
  rewrite make_num_py_hex. cbn [bind].
  rewrite (mapM_map_id JStr); [reflexivity|].
  intros x Hx. cbn [as_str bind]. rewrite forallb_forall in H. now rewrite (H x Hx).
Qed.

(* ------------------------------------------------------------------ symbol table *)
Lemma nodupb_NoDup {A} (eqb : A -> A -> bool) :
  (forall x y, eqb x y = true <-> x = y) ->
  forall l, nodupb eqb l = true -> NoDup l.
Proof.
  intros Heq. induction l as [|x r IH]; intros H; [constructor|].
  cbn [nodupb] in H. apply andb_true_iff in H. destruct H as [H1 H2].
  constructor; [|auto].
  intros Hin. apply negb_true_iff in H1.
  assert (existsb (eqb x) r = true); [|congruence].
  apply existsb_exists. exists x. split; [assumption | now apply Heq].
Qed.

Lemma des_symbols_ok : forall l acc,
  forallb wf_symbol l = true ->
  NoDup (map sym_id (acc ++ l)) ->
  NoDup (map sym_name (filter is_global (acc ++ l))) ->
  des_symbols acc (map ser_symbol l) = Ok (acc ++ l)%list.
Proof.
  induction l as [|y l IH]; intros acc Hwf Hid Hnm; cbn [map des_symbols].
  - now rewrite app_nil_r.
  - cbn [forallb] in Hwf. apply andb_true_iff in Hwf. destruct Hwf as [Hy Hl].
    rewrite des_ser_symbol by assumption. cbn [bind].
    assert (Hadd : add_symbol acc y = Ok (acc ++ [y])%list).
    { unfold add_symbol.
      destruct (is_global y && existsb (fun s => is_global s && (sym_name s =? sym_name y)%string) acc) eqn:E1.
      - exfalso. apply andb_true_iff in E1. destruct E1 as [Gy Ex].
        apply existsb_exists in Ex. destruct Ex as [s [Hs Hs2]].
        apply andb_true_iff in Hs2. destruct Hs2 as [Gs En]. apply String.eqb_eq in En.
        rewrite filter_app in Hnm. cbn [filter] in Hnm. rewrite Gy in Hnm.
        rewrite map_app in Hnm. cbn [map] in Hnm.
        apply NoDup_remove_2 in Hnm. apply Hnm. apply in_or_app. left.
        rewrite <- En. apply in_map. apply filter_In. now split.
      - destruct (existsb (fun s => sym_id s =? sym_id y) acc) eqn:E2.
        + exfalso. apply existsb_exists in E2. destruct E2 as [s [Hs En]].
          apply Z.eqb_eq in En.
          rewrite map_app in Hid. cbn [map] in Hid.
          apply NoDup_remove_2 in Hid. apply Hid. apply in_or_app. left.
          rewrite <- En. now apply in_map.
        + reflexivity. }
    rewrite Hadd. cbn [bind].
    rewrite IH.
    + now rewrite <- app_assoc.
    + assumption.
    + now rewrite <- app_assoc.
    + now rewrite <- app_assoc.
Qed.

(* ------------------------------------------------------------------ whole object *)
Lemma deserialize_serialize o : wf_obj o -> deserialize (serialize o) = Ok o.
Proof.
  destruct o as [arch secs syms rels imgs entry]. unfold wf_obj, wf_objb.
  cbn [obj_arch obj_sections obj_symbols obj_relocations obj_images obj_entry].
  intros H. repeat (apply andb_true_iff in H; destruct H as [H ?]).
  rename H into Harch, H0 into Himg, H1 into Hrel, H2 into Hnm, H3 into Hid, H4 into Hsym,
         H5 into Hsecn, H6 into Hsec.
  assert (Esec : mapM des_section (map ser_section secs) = Ok secs).
  { apply mapM_map_id. intros s Hs. apply des_ser_section.
    rewrite forallb_forall in Hsec. now apply Hsec. }
  assert (Erel : mapM (des_reloc (map sec_name secs)) (map ser_reloc rels) = Ok rels).
  { apply mapM_map_id. intros r Hr. apply des_ser_reloc.
    rewrite forallb_forall in Hrel. now apply Hrel. }
  assert (Eimg : mapM (des_image (map sec_name secs)) (map ser_image imgs) = Ok imgs).
  { apply mapM_map_id. intros i Hi. apply des_ser_image.
    rewrite forallb_forall in Himg. now apply Himg. }
  assert (Esym : des_symbols [] (map ser_symbol syms) = Ok syms).
  { apply (des_symbols_ok syms []); cbn [app].
    - assumption.
    - apply (nodupb_NoDup Z.eqb); [apply Z.eqb_eq | assumption].
    - apply (nodupb_NoDup String.eqb); [apply String.eqb_eq | assumption]. }
  unfold deserialize, deserialize_core, serialize.
  cbn [obj_arch obj_sections obj_symbols obj_relocations obj_images obj_entry].
  destruct entry as [e|];
    cbn [app jhas jget jlookup String.eqb Ascii.eqb Bool.eqb bind as_str as_list as_opt_int get_arch];
    rewrite Harch; cbn [bind]; rewrite Esec; cbn [bind]; rewrite Erel; cbn [bind];
    rewrite Esym; cbn [bind]; rewrite Eimg; reflexivity.
Qed.

Lemma archive_roundtrip objs :
  Forall wf_obj objs -> archive_load (archive_save objs) = Ok objs.
Proof.
  intros H. unfold archive_load, archive_save.
  cbn [jget jlookup String.eqb Ascii.eqb Bool.eqb bind as_list].
  apply mapM_map_id. intros o Ho. apply deserialize_serialize.
  rewrite Forall_forall in H. now apply H.
Qed.

(* corollaries *)
Lemma serialize_injective o1 o2 :
  wf_obj o1 -> wf_obj o2 -> serialize o1 = serialize o2 -> o1 = o2.
Proof.
  intros H1 H2 E. apply deserialize_serialize in H1. apply deserialize_serialize in H2.
  rewrite E in H1. congruence.
Qed.

(* any function of the object record (the linker in particular) cannot tell a reloaded list of
   objects from the original one *)
Lemma reload_indistinguishable {A} (link : list objectfile -> A) objs objs' :
  Forall wf_obj objs -> archive_load (archive_save objs) = Ok objs' -> link objs' = link objs.
Proof. intros H E. rewrite archive_roundtrip in E by assumption. congruence. Qed.
