(* Proofs/C02_rules.v — soundness of the local rewrite rules of the ppci optimizer passes, over the
   expression-level functions of Spec/IRSem.v (unbounded: every type, every operand value).

   RemoveAddZeroPass   x + 0 -> x, 0 + x -> x, x * 1 -> x            (addzero_r, addzero_l, mulone)
   ConstantFolder      op on two constants -> constant                (constfold, constfold_instr)
                       cast of a constant -> constant                  (castfold)
                       (y + c1) + c2 -> y + (c1 + c2)                  (chain_add)
                       (y - c1) - c2 -> y - (c1 + c2)                  (chain_sub)
   CSE                 same (op, operands, type) => same value         (cse)
   CJumpPass           cjmp on two constants -> jmp                    (cjump_const; raw values: refuted
                                                                        for out-of-range constants)
   DeleteUnused        dropping an unused pure instruction             (dead); Alloc is NOT state-neutral
   LoadAfterStore      NOT proved here (needs the read-after-write lemma of IRSem memory and value
                       ranges); the pass is covered by differential execution only
   Values are "in range" when wrap_bits bits sg z = z (IRSem keeps every integer value normalised). *)
From PV Require Import Lib.Py Lib.Tac Spec.IRSyntax Spec.IRSem.
From Coq Require Import String.
Open Scope Z_scope.

(* ------------------------------------------------------------------ wrap_bits *)
Lemma pow2_pos b : 0 <= b -> 0 < 2 ^ b.
Proof. intros. apply Z.pow_pos_nonneg; lia. Qed.

Lemma wrap_bits_mod b s z : 0 <= b -> (wrap_bits b s z) mod 2 ^ b = z mod 2 ^ b.
Proof.
  intros Hb. unfold wrap_bits. pose proof (pow2_pos b Hb) as HM.
  destruct (s && (2 ^ (b - 1) <=? z mod 2 ^ b)).
  - rewrite Zminus_mod, Z_mod_same_full, Z.sub_0_r, !Zmod_mod. reflexivity.
  - apply Zmod_mod.
Qed.

Lemma wrap_bits_congr b s x y : x mod 2 ^ b = y mod 2 ^ b -> wrap_bits b s x = wrap_bits b s y.
Proof. intros H. unfold wrap_bits. rewrite H. reflexivity. Qed.

Lemma wrap_bits_idem b s z : 0 <= b -> wrap_bits b s (wrap_bits b s z) = wrap_bits b s z.
Proof. intros. apply wrap_bits_congr. apply wrap_bits_mod; assumption. Qed.

Lemma wrap_bits_add_l b s x y : 0 <= b -> wrap_bits b s (wrap_bits b s x + y) = wrap_bits b s (x + y).
Proof.
  intros. apply wrap_bits_congr. rewrite Zplus_mod, wrap_bits_mod, <- Zplus_mod by assumption. reflexivity.
Qed.
Lemma wrap_bits_add_r b s x y : 0 <= b -> wrap_bits b s (x + wrap_bits b s y) = wrap_bits b s (x + y).
Proof. intros. rewrite Z.add_comm, wrap_bits_add_l, Z.add_comm by assumption. reflexivity. Qed.
Lemma wrap_bits_sub_l b s x y : 0 <= b -> wrap_bits b s (wrap_bits b s x - y) = wrap_bits b s (x - y).
Proof.
  intros. apply wrap_bits_congr. rewrite Zminus_mod, wrap_bits_mod, <- Zminus_mod by assumption. reflexivity.
Qed.
Lemma wrap_bits_sub_r b s x y : 0 <= b -> wrap_bits b s (x - wrap_bits b s y) = wrap_bits b s (x - y).
Proof.
  intros. apply wrap_bits_congr. rewrite Zminus_mod, wrap_bits_mod, <- Zminus_mod by assumption. reflexivity.
Qed.

(* the widths of all integer-like types are non-negative when the pointer size is *)
Definition cfg_ok (c : cfg) : Prop := 0 <= ptr_bytes c.
Lemma int_shape_bits c t b s : cfg_ok c -> int_shape c t = Some (b, s) -> 0 <= b.
Proof.
  unfold cfg_ok, int_shape. intros Hc H.
  destruct t; cbv beta iota zeta delta [ty_is_int ty_bits ty_signed] in H; try discriminate H;
    match type of H with Some (?x, _) = _ => assert (Hb : b = x) by congruence end; lia.
Qed.

(* every successful binary operation yields an in-range value *)
Lemma eval_binop_range c t o x y z b s :
  cfg_ok c -> int_shape c t = Some (b, s) -> eval_binop c t o x y = ODone z -> wrap_bits b s z = z.
Proof.
  intros Hc Hs H. pose proof (int_shape_bits _ _ _ _ Hc Hs) as Hb.
  unfold eval_binop in H. rewrite Hs in H. cbv beta iota zeta in H.
  destruct o;
    repeat match type of H with
           | (if ?g then _ else _) = _ => destruct g
           end; inversion H; subst; apply wrap_bits_idem; assumption.
Qed.
Lemma eval_unop_range c t o x z b s :
  cfg_ok c -> int_shape c t = Some (b, s) -> eval_unop c t o x = ODone z -> wrap_bits b s z = z.
Proof.
  intros Hc Hs H. pose proof (int_shape_bits _ _ _ _ Hc Hs) as Hb.
  unfold eval_unop in H. rewrite Hs in H. destruct o; inversion H; subst; apply wrap_bits_idem; assumption.
Qed.

(* ------------------------------------------------------------------ RemoveAddZeroPass *)
Theorem c02_rule_addzero_r_sound : forall c t b s x,
  int_shape c t = Some (b, s) -> wrap_bits b s x = x -> eval_binop c t Add x 0 = ODone x.
Proof. intros. unfold eval_binop. rewrite H. cbv beta iota zeta. rewrite Z.add_0_r. congruence. Qed.

Theorem c02_rule_addzero_l_sound : forall c t b s x,
  int_shape c t = Some (b, s) -> wrap_bits b s x = x -> eval_binop c t Add 0 x = ODone x.
Proof. intros. unfold eval_binop. rewrite H. cbv beta iota zeta. rewrite Z.add_0_l. congruence. Qed.

Theorem c02_rule_mulone_sound : forall c t b s x,
  int_shape c t = Some (b, s) -> wrap_bits b s x = x -> eval_binop c t Mul x 1 = ODone x.
Proof. intros. unfold eval_binop. rewrite H. cbv beta iota zeta. rewrite Z.mul_1_r. congruence. Qed.

(* the rule is not an identity of the float type: IRSem does not evaluate float addition at all
   (x + 0.0 -> x is wrong for x = -0.0; tested with Python floats by the check) *)
Theorem c02_rule_addzero_float_unsupported : forall c x y, eval_binop c F64 Add x y = OUnsupported.
Proof. reflexivity. Qed.

(* ------------------------------------------------------------------ ConstantFolder *)
Theorem c02_rule_constfold_sound : forall c t o x y z b s,
  cfg_ok c -> int_shape c t = Some (b, s) ->
  eval_binop c t o x y = ODone z -> eval_const c t (CInt z) = ODone (Vint z).
Proof.
  intros. unfold eval_const, wrap_ty. rewrite H0.
  rewrite (eval_binop_range _ _ _ _ _ _ _ _ H H0 H1). reflexivity.
Qed.

(* instruction level: a binary operation whose operands evaluate to x and y steps exactly like the
   constant instruction the folder puts in its place *)
Theorem c02_rule_constfold_instr_sound : forall c m ge f args e st v n n' t o a b0 x y z b s,
  cfg_ok c -> int_shape c t = Some (b, s) ->
  eval_int m ge e args a = ODone x -> eval_int m ge e args b0 = ODone y ->
  eval_binop c t o x y = ODone z ->
  step_simple c m ge f args e st (IBinop v n t o a b0) =
  step_simple c m ge f args e st (IConst v n' t (CInt z)).
Proof.
  intros. unfold step_simple. rewrite H1. cbn [obind]. rewrite H2. cbn [obind]. rewrite H3. cbn [obind].
  rewrite (c02_rule_constfold_sound _ _ _ _ _ _ _ _ H H0 H3). reflexivity.
Qed.

Theorem c02_rule_castfold_sound : forall c t z r,
  wrap_ty c t z = Some r ->
  eval_cast c t (Vint z) = ODone (Vint r) /\ eval_const c t (CInt z) = ODone (Vint r).
Proof. intros. unfold eval_cast, eval_const. rewrite H. split; reflexivity. Qed.

Theorem c02_rule_chain_add_sound : forall c t b s y c1 c2 r1,
  cfg_ok c -> int_shape c t = Some (b, s) ->
  eval_binop c t Add y c1 = ODone r1 ->
  eval_binop c t Add r1 c2 = eval_binop c t Add y (wrap_bits b s (c1 + c2)).
Proof.
  intros c t b s y c1 c2 r1 Hc Hs H. pose proof (int_shape_bits _ _ _ _ Hc Hs) as Hb.
  unfold eval_binop in *. rewrite Hs in *. cbv beta iota zeta in *. inversion H; subst.
  rewrite wrap_bits_add_l, wrap_bits_add_r, Z.add_assoc by assumption. reflexivity.
Qed.

Theorem c02_rule_chain_sub_sound : forall c t b s y c1 c2 r1,
  cfg_ok c -> int_shape c t = Some (b, s) ->
  eval_binop c t Sub y c1 = ODone r1 ->
  eval_binop c t Sub r1 c2 = eval_binop c t Sub y (wrap_bits b s (c1 + c2)).
Proof.
  intros c t b s y c1 c2 r1 Hc Hs H. pose proof (int_shape_bits _ _ _ _ Hc Hs) as Hb.
  unfold eval_binop in *. rewrite Hs in *. cbv beta iota zeta in *. inversion H; subst.
  rewrite wrap_bits_sub_l, wrap_bits_sub_r by assumption. f_equal. f_equal. lia.
Qed.

(* ------------------------------------------------------------------ CSE *)
(* value of a binary operation as a function of the environment *)
Definition binop_value (c : cfg) (m : modul) (ge : list (string * Z)) (e : env) (args : list value)
           (t : ty) (o : binop) (a b : vref) : outcome Z :=
  x <~ eval_int m ge e args a ;; y <~ eval_int m ge e args b ;; eval_binop c t o x y.

Lemma step_binop_value c m ge f args e st v n t o a b :
  step_simple c m ge f args e st (IBinop v n t o a b) =
  (z <~ binop_value c m ge e args t o a b ;; ODone ((v, Vint z) :: e, st)).
Proof.
  unfold binop_value. simpl.
  destruct (eval_int m ge e args a); simpl; try reflexivity.
  destruct (eval_int m ge e args b); simpl; reflexivity.
Qed.

Definition ref_is (r : vref) (v : vid) : Prop := r = Loc v.

(* a later binding of another value does not change what an operand evaluates to (SSA: no redefinition) *)
Lemma eval_ref_skip m ge ph e args r w x : ~ ref_is r w ->
  eval_ref m ge ph ((w, x) :: e) args r = eval_ref m ge ph e args r.
Proof.
  unfold ref_is. intros H. destruct r; simpl; try reflexivity.
  destruct (Pos.eqb_spec w v); [subst; congruence | reflexivity].
Qed.
Lemma eval_int_skip m ge e args r w x : ~ ref_is r w ->
  eval_int m ge ((w, x) :: e) args r = eval_int m ge e args r.
Proof. intros. unfold eval_int. rewrite eval_ref_skip by assumption. reflexivity. Qed.

Fixpoint ext_by (news : list (vid * value)) (e : env) : env :=
  match news with [] => e | p :: r => p :: ext_by r e end.

(* the second of two operations with the same key computes the value of the first one, whatever
   was defined in between, as long as the operands themselves were not redefined *)
Theorem c02_rule_cse_sound : forall c m ge args e news t o a b,
  (forall w x, In (w, x) news -> ~ ref_is a w /\ ~ ref_is b w) ->
  binop_value c m ge (ext_by news e) args t o a b = binop_value c m ge e args t o a b.
Proof.
  intros c m ge args e news t o a b H. induction news as [|[w x] r IH]; [reflexivity|].
  simpl. unfold binop_value in *.
  destruct (H w x (or_introl eq_refl)) as [Ha Hb].
  rewrite !eval_int_skip by assumption. apply IH. intros w' x' Hin. apply (H w' x'). right. exact Hin.
Qed.

(* ------------------------------------------------------------------ CJumpPass *)
(* on in-range constants the raw comparison of the pass is the comparison of the run-time values *)
Theorem c02_rule_cjump_const_sound : forall c t b s x y,
  int_shape c t = Some (b, s) -> wrap_bits b s x = x -> wrap_bits b s y = y ->
  eval_const c t (CInt x) = ODone (Vint x) /\ eval_const c t (CInt y) = ODone (Vint y).
Proof. intros. unfold eval_const, wrap_ty. rewrite H, H0, H1. split; reflexivity. Qed.

(* ... and it is NOT for constants outside the range of their type (Const 300 : u8 is 44) *)
Theorem c02_cjump_raw_values_refuted : exists t x y,
  eval_cond Ceq x y = false /\
  (exists v, eval_const default_cfg t (CInt x) = ODone v /\ eval_const default_cfg t (CInt y) = ODone v).
Proof. exists U8, 300, 44. split; [reflexivity|]. exists (Vint 44). split; reflexivity. Qed.

(* ------------------------------------------------------------------ DeleteUnusedInstructionsPass *)
(* instruction kinds the pass removes when unused and that leave the state alone *)
Definition state_neutral (i : instr) : bool :=
  match i with
  | IConst _ _ _ _ | IBinop _ _ _ _ _ _ | IUnop _ _ _ _ _ | ICast _ _ _ _ | ILoad _ _ _ _ _
  | IAddrOf _ _ _ | IUndef _ _ _ | IPhi _ _ _ _ => true
  | _ => false
  end.

Theorem c02_rule_dead_sound : forall c m ge f args e st i e1 st1,
  state_neutral i = true ->
  step_simple c m ge f args e st i = ODone (e1, st1) ->
  st1 = st /\
  (e1 = e \/ exists v n t x, instr_def i = Some (v, n, t) /\ e1 = (v, x) :: e) /\
  (forall ph r, (forall v n t, instr_def i = Some (v, n, t) -> ~ ref_is r v) ->
                eval_ref m ge ph e1 args r = eval_ref m ge ph e args r).
Proof.
  intros c m ge f args e st i e1 st1 Hn H.
  assert (Hshape : st1 = st /\ (e1 = e \/ exists v n t x, instr_def i = Some (v, n, t) /\ e1 = (v, x) :: e)).
  { destruct i; simpl in Hn; try discriminate; simpl in H;
      repeat match type of H with
             | obind ?o _ = ODone _ => destruct o eqn:?; simpl in H; try discriminate
             | match ?o with _ => _ end = ODone _ => destruct o eqn:?; simpl in H; try discriminate
             end;
      inversion H; subst; split; try reflexivity; try (left; reflexivity);
      right; do 4 eexists; split; reflexivity. }
  destruct Hshape as [Hs He]. split; [exact Hs|]. split; [exact He|].
  intros ph r Hr. destruct He as [->|(v & n & t & x & Hd & ->)]; [reflexivity|].
  apply eval_ref_skip. eapply Hr. exact Hd.
Qed.

(* an unused Alloc is removed by the pass as well, but it is not state-neutral: the stack pointer
   moves, so every later allocation gets another address (addresses are not observable in the
   generated programs; equality of states is therefore not the right notion for it) *)
Theorem c02_dead_alloc_moves_stack_refuted : exists st e1 st1,
  step_simple default_cfg ex_modul [] (mk_func "f" BGlobal None [] []) [] [] st (IAlloc 1 "a" 8 8)
    = ODone (e1, st1) /\ s_sp st1 <> s_sp st.
Proof.
  exists (mk_st [] 16 []). eexists. eexists. split; [vm_compute; reflexivity|]. vm_compute. discriminate.
Qed.
