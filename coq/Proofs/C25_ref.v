(* Proofs/C25_ref.v — the executable reference of Model/DomRef.v computes the path-based
   definitions of Spec/CfgSpec.v, for every graph (no size bound, no well-formedness hypothesis). *)
From Coq Require Import List Arith Bool Lia.
From PV Require Import Spec.CfgSpec Model.DomRef.
Import ListNotations.

(* ------------------------------------------------------------------ small list facts *)
Lemma mem_In x l : mem x l = true <-> In x l.
Proof.
  unfold mem. rewrite existsb_exists. split.
  - intros [y [H1 H2]]. apply Nat.eqb_eq in H2. now subst.
  - intros H. exists x. split; auto. apply Nat.eqb_refl.
Qed.

Lemma mem_false x l : mem x l = false <-> ~ In x l.
Proof. rewrite <- mem_In. destruct (mem x l); split; intros; try discriminate; auto; now exfalso; auto. Qed.

Lemma dedup_In x l : In x (dedup l) <-> In x l.
Proof.
  induction l as [|y r IH]; simpl; [tauto|].
  destruct (mem y r) eqn:E.
  - rewrite IH. split; auto. intros [->|H]; auto. now apply mem_In.
  - simpl. rewrite IH. tauto.
Qed.

Lemma succs_edge g u v : In v (succs g u) <-> edge g u v.
Proof. unfold succs, edge. rewrite filter_In, Nat.ltb_lt. tauto. Qed.

Lemma expand_In g ok fr vis v :
  In v (expand g ok fr vis) <->
  (exists u, In u fr /\ edge g u v) /\ ok v = true /\ ~ In v vis.
Proof.
  unfold expand. rewrite dedup_In, filter_In, in_flat_map, andb_true_iff, negb_true_iff, mem_false.
  split.
  - intros [[u [Hu Hs]] H]. split; auto. exists u. split; auto. now apply succs_edge.
  - intros [[u [Hu Hs]] H]. split; auto. exists u. split; auto. now apply succs_edge.
Qed.

Lemma nth_map_seq {A} (f : nat -> A) n w dflt : w < n -> nth w (map f (seq 0 n)) dflt = f w.
Proof.
  intros H. rewrite nth_indep with (d' := f 0) by now rewrite map_length, seq_length.
  rewrite map_nth. now rewrite seq_nth.
Qed.

Lemma filter_len_le {A} (p : A -> bool) l : length (filter p l) <= length l.
Proof. induction l; simpl; auto. destruct (p a); simpl; lia. Qed.

Lemma filter_len_mono {A} (p q : A -> bool) l :
  (forall x, p x = true -> q x = true) -> length (filter p l) <= length (filter q l).
Proof.
  intros H. induction l as [|a l IH]; simpl; auto.
  destruct (p a) eqn:Ep.
  - rewrite (H a Ep). simpl. lia.
  - destruct (q a); simpl; lia.
Qed.

Lemma filter_len_lt {A} (p q : A -> bool) l :
  (forall x, p x = true -> q x = true) ->
  (exists x, In x l /\ p x = false /\ q x = true) ->
  length (filter p l) < length (filter q l).
Proof.
  intros H [x [Hx [Hp Hq]]]. induction l as [|a l IH]; simpl in *; [tauto|].
  destruct Hx as [->|Hx].
  - rewrite Hp, Hq. simpl. pose proof (filter_len_mono p q l H). lia.
  - specialize (IH Hx). destruct (p a) eqn:Ep.
    + rewrite (H a Ep). simpl. lia.
    + destruct (q a); simpl; lia.
Qed.

(* ------------------------------------------------------------------ paths *)
Lemma path_head g u l v : path g u l v -> exists l', l = u :: l'.
Proof. destruct 1; eauto. Qed.

Lemma path_last_In g u l v : path g u l v -> In v l.
Proof. induction 1; simpl; auto. Qed.

Lemma path_snoc g u l v w : path g u l v -> edge g v w -> path g u (l ++ [w]) w.
Proof.
  induction 1; intros He; simpl.
  - eapply path_step; eauto. constructor.
  - eapply path_step; eauto.
Qed.

Lemma path_app g u l1 v l2 w : path g u l1 v -> path g v (v :: l2) w -> path g u (l1 ++ l2) w.
Proof.
  induction 1; intros H2; simpl; auto.
  eapply path_step; eauto.
Qed.

Lemma path_bound g u l v : path g u l v -> forall x, In x l -> x = u \/ x < length g.
Proof.
  induction 1; simpl; intros x Hx.
  - destruct Hx as [->|[]]; auto.
  - destruct Hx as [->|Hx]; auto. destruct (IHpath x Hx) as [->|]; auto.
    right. apply H.
Qed.

(* split a path at an occurrence of a vertex *)
Lemma path_split g u l v a : path g u l v -> In a l ->
  exists l1 l2, l = l1 ++ l2 /\ path g u l1 a /\ path g a (a :: l2) v.
Proof.
  induction 1; simpl; intros Ha.
  - destruct Ha as [->|[]]. exists [a], []. repeat split; constructor.
  - destruct Ha as [->|Ha].
    + exists [a], l. repeat split. constructor. eapply path_step; eauto.
    + destruct (IHpath Ha) as [l1 [l2 [-> [P1 P2]]]].
      exists (u :: l1), l2. repeat split; auto. eapply path_step; eauto.
Qed.

(* ------------------------------------------------------------------ closure: soundness *)
Definition okreach g ok e v := exists l, path g e l v /\ forallb ok l = true.

Lemma closure_incl g ok : forall fuel fr vis v, In v vis -> In v (closure fuel g ok fr vis).
Proof.
  induction fuel; intros fr vis v H; cbn [closure]; auto.
  destruct (expand g ok fr vis); auto. apply IHfuel. apply in_or_app; auto.
Qed.

Lemma closure_sound g ok e : forall fuel fr vis,
  (forall v, In v fr -> In v vis) ->
  (forall v, In v vis -> okreach g ok e v) ->
  forall v, In v (closure fuel g ok fr vis) -> okreach g ok e v.
Proof.
  induction fuel; intros fr vis Hf Hv v; cbn [closure]; auto.
  destruct (expand g ok fr vis) as [|x nw] eqn:E; auto.
  apply IHfuel.
  - intros; apply in_or_app; auto.
  - intros y Hy. apply in_app_or in Hy. destruct Hy as [Hy|Hy]; auto.
    rewrite <- E in Hy. apply expand_In in Hy. destruct Hy as [[u [Hu He]] [Hok _]].
    destruct (Hv u (Hf u Hu)) as [l [Hp Hl]]. exists (l ++ [y]). split.
    + eapply path_snoc; eauto.
    + rewrite forallb_app, Hl. simpl. now rewrite Hok.
Qed.

(* ------------------------------------------------------------------ closure: completeness *)
Definition cnt (n : nat) (vis : list nat) : nat :=
  length (filter (fun v => mem v vis) (seq 0 n)).

Lemma cnt_le n vis : cnt n vis <= n.
Proof. unfold cnt. pose proof (filter_len_le (fun v => mem v vis) (seq 0 n)). now rewrite seq_length in H. Qed.

Definition inv g (ok : nat -> bool) fr vis :=
  (forall v, In v fr -> In v vis) /\
  (forall u v, In u vis -> ~ In u fr -> edge g u v -> ok v = true -> In v vis).

Definition closed g (ok : nat -> bool) S :=
  forall u v, In u S -> edge g u v -> ok v = true -> In v S.

Lemma closure_closed g ok : forall fuel fr vis,
  inv g ok fr vis -> length g - cnt (length g) vis < fuel ->
  closed g ok (closure fuel g ok fr vis).
Proof.
  induction fuel; intros fr vis [Hf Hc] Hm; [lia|]. cbn [closure].
  destruct (expand g ok fr vis) as [|x nw] eqn:E.
  - intros u v Hu He Hok.
    destruct (in_dec Nat.eq_dec v vis) as [|Hn]; auto.
    destruct (in_dec Nat.eq_dec u fr) as [Hfr|Hfr].
    + exfalso. assert (In v (expand g ok fr vis)) by (apply expand_In; eauto).
      rewrite E in H. inversion H.
    + eauto.
  - apply IHfuel.
    + split.
      * intros; apply in_or_app; auto.
      * intros u v Hu Hnu He Hok. apply in_or_app.
        destruct (in_dec Nat.eq_dec v vis) as [|Hn]; auto.
        apply in_app_or in Hu. destruct Hu as [Hu|Hu]; [contradiction|].
        destruct (in_dec Nat.eq_dec u fr) as [Hfr|Hfr].
        -- left. rewrite <- E. apply expand_In; eauto.
        -- right. eauto.
    + assert (Hx : In x (expand g ok fr vis)) by (rewrite E; simpl; auto).
      apply expand_In in Hx. destruct Hx as [[u [_ He]] [_ Hnv]].
      assert (cnt (length g) vis < cnt (length g) ((x :: nw) ++ vis)).
      { unfold cnt. apply filter_len_lt.
        - intros y Hy. apply mem_In. apply in_or_app. right. now apply mem_In.
        - exists x. split; [apply in_seq; destruct He; lia|]. split.
          + now apply mem_false.
          + apply mem_In. simpl. auto. }
      pose proof (cnt_le (length g) ((x :: nw) ++ vis)). lia.
Qed.

Lemma closed_complete g ok S : closed g ok S ->
  forall u l v, path g u l v -> In u S -> forallb ok l = true -> In v S.
Proof.
  intros Hc u l v Hp. induction Hp; intros Hu Hl; auto.
  simpl in Hl. apply andb_true_iff in Hl. destruct Hl as [_ Hl].
  apply IHHp; auto.
  destruct (path_head _ _ _ _ Hp) as [l' ->]. simpl in Hl. apply andb_true_iff in Hl.
  eapply Hc; eauto. tauto.
Qed.

Theorem reach_set_spec g ok e v :
  In v (reach_set g ok e) <-> exists l, path g e l v /\ forallb ok l = true.
Proof.
  unfold reach_set. split.
  - destruct (ok e) eqn:Eo; [|intros []].
    apply closure_sound; auto.
    intros y [->|[]]. exists [y]. split; [constructor|]. simpl. now rewrite Eo.
  - intros [l [Hp Hl]].
    assert (Eo : ok e = true).
    { destruct (path_head _ _ _ _ Hp) as [l' ->]. simpl in Hl. apply andb_true_iff in Hl. tauto. }
    rewrite Eo.
    eapply closed_complete; eauto.
    + apply closure_closed.
      * split; auto. intros u w Hu Hnu. contradiction.
      * pose proof (cnt_le (length g) [e]). lia.
    + apply closure_incl. simpl; auto.
Qed.

(* ------------------------------------------------------------------ the reference is correct *)
Lemma avoid_ok d l : forallb (fun v => negb (v =? d)) l = true <-> ~ In d l.
Proof.
  rewrite forallb_forall. split.
  - intros H Hd. apply H in Hd. rewrite Nat.eqb_refl in Hd. discriminate.
  - intros H x Hx. apply negb_true_iff, Nat.eqb_neq. intros ->. auto.
Qed.

Theorem dom_ref_correct g e d w : dom_ref g e d w = true <-> dominates g e d w.
Proof.
  unfold dom_ref, dominates. rewrite negb_true_iff, mem_false, reach_set_spec. split.
  - intros H l Hp. destruct (in_dec Nat.eq_dec d l); auto.
    exfalso. apply H. exists l. split; auto. now apply avoid_ok.
  - intros H [l [Hp Hl]]. apply avoid_ok in Hl. auto.
Qed.

Theorem pdom_ref_correct g x d w : pdom_ref g x d w = true <-> postdominates g x d w.
Proof.
  unfold pdom_ref, postdominates. rewrite negb_true_iff, mem_false, reach_set_spec. split.
  - intros H l Hp. destruct (in_dec Nat.eq_dec d l); auto.
    exfalso. apply H. exists l. split; auto. now apply avoid_ok.
  - intros H [l [Hp Hl]]. apply avoid_ok in Hl. auto.
Qed.

Theorem reachable_ref_correct g u v : reachable_ref g u v = true <-> reachable g u v.
Proof.
  unfold reachable_ref, reach_from, reachable. rewrite mem_In, reach_set_spec. split.
  - intros [l [H _]]. eauto.
  - intros [l H]. exists l. split; auto. now apply forallb_forall.
Qed.

Theorem reach_plus_ref_correct g u v : reach_plus_ref g u v = true <-> reachable_plus g u v.
Proof.
  unfold reach_plus_ref, reachable_plus. rewrite existsb_exists. split.
  - intros [s [Hs Hr]]. exists s. split. now apply succs_edge. now apply reachable_ref_correct.
  - intros [s [Hs Hr]]. exists s. split. now apply succs_edge. now apply reachable_ref_correct.
Qed.

Lemma dom_tab_ref g e d w : d < length g -> dom_tab (avoid_tab g e) d w = dom_ref g e d w.
Proof. intros H. unfold dom_tab, avoid_tab, dom_ref. now rewrite nth_map_seq. Qed.

Lemma dominates_entry g e w : dominates g e e w.
Proof. intros l Hp. destruct (path_head _ _ _ _ Hp) as [l' ->]. simpl; auto. Qed.

Lemma dominates_self g e w : dominates g e w w.
Proof. intros l Hp. eapply path_last_In; eauto. Qed.

(* a dominator of a reachable node is the entry or a node of the graph *)
Lemma dominator_bound g e d w : reachable g e w -> dominates g e d w -> d = e \/ d < length g.
Proof. intros [l Hp] Hd. eapply path_bound; eauto. Qed.

Lemma idom_of_sound g e domb reachb w d :
  (forall a b, a < length g -> (domb a b = true <-> dominates g e a b)) ->
  (reachb w = true -> reachable g e w) ->
  idom_of (length g) domb reachb e w = Some d -> is_idom g e d w.
Proof.
  intros Hdom Hreach. unfold idom_of.
  destruct (reachb w && negb (w =? e)) eqn:Ec; [|discriminate].
  apply andb_true_iff in Ec. destruct Ec as [Er Ene].
  intros Hf. apply find_some in Hf. destruct Hf as [Hin Hp].
  apply in_seq in Hin.
  apply andb_true_iff in Hp. destruct Hp as [Hp Hall].
  apply andb_true_iff in Hp. destruct Hp as [Hne Hd].
  apply negb_true_iff, Nat.eqb_neq in Hne.
  split.
  - split; auto. apply Hdom; auto. lia.
  - intros d' [Hd' Hne'].
    destruct (dominator_bound g e d' w (Hreach Er) Hd') as [->|Hlt].
    + apply dominates_entry.
    + rewrite forallb_forall in Hall.
      assert (Hi : In d' (seq 0 (length g))) by (apply in_seq; lia).
      specialize (Hall d' Hi).
      assert (E1 : negb (d' =? w) = true) by now apply negb_true_iff, Nat.eqb_neq.
      assert (E2 : domb d' w = true) by now apply Hdom.
      rewrite E1, E2 in Hall. simpl in Hall. now apply Hdom.
Qed.

Theorem idom_ref_sound g e w d : idom_ref g e w = Some d -> is_idom g e d w.
Proof.
  apply idom_of_sound.
  - intros. apply dom_ref_correct.
  - apply reachable_ref_correct.
Qed.

Theorem idom_list_sound g e w d : nth w (idom_list g e) None = Some d -> is_idom g e d w.
Proof.
  unfold idom_list. destruct (Nat.lt_ge_cases w (length g)) as [Hlt|Hge].
  - rewrite nth_map_seq by auto. apply idom_of_sound.
    + intros. rewrite dom_tab_ref by auto. apply dom_ref_correct.
    + intros H. apply reachable_ref_correct. exact H.
  - rewrite nth_overflow; [discriminate|]. now rewrite map_length, seq_length.
Qed.

(* ------------------------------------------------------------------ uniqueness of idom *)
Lemma dom_antisym_len g e : forall k a b l,
  length l <= k -> path g e l b -> dominates g e a b -> dominates g e b a -> a = b.
Proof.
  induction k; intros a b l Hk Hp Hab Hba.
  - destruct Hp; simpl in Hk; lia.
  - destruct (Nat.eq_dec a b) as [|Hne]; auto. exfalso.
    pose proof (Hab l Hp) as Ha.
    destruct (path_split _ _ _ _ _ Hp Ha) as [l1 [l2 [-> [P1 P2]]]].
    assert (l2 <> []).
    { intros ->. inversion P2; subst; [congruence|].
      match goal with H : path _ _ [] _ |- _ => inversion H end. }
    assert (length l1 <= k).
    { rewrite app_length in Hk. destruct l2; [congruence|]. simpl in Hk. lia. }
    apply Hne. symmetry. eapply (IHk b a l1); eauto.
Qed.

Lemma dom_antisym g e a b :
  reachable g e b -> dominates g e a b -> dominates g e b a -> a = b.
Proof. intros [l Hp]. eapply dom_antisym_len; eauto. Qed.

Lemma dominator_reachable g e d w : reachable g e w -> dominates g e d w -> reachable g e d.
Proof.
  intros [l Hp] Hd. destruct (path_split _ _ _ _ _ Hp (Hd l Hp)) as [l1 [l2 [_ [P1 _]]]].
  now exists l1.
Qed.

Theorem is_idom_unique g e w d1 d2 :
  reachable g e w -> is_idom g e d1 w -> is_idom g e d2 w -> d1 = d2.
Proof.
  intros Hr [S1 M1] [S2 M2].
  apply (dom_antisym g e d1 d2).
  - eapply dominator_reachable; eauto. apply S2.
  - apply M2; auto.
  - apply M1; auto.
Qed.

Lemma idom_of_complete g e domb reachb w d :
  (forall a b, a < length g -> (domb a b = true <-> dominates g e a b)) ->
  (reachb w = true <-> reachable g e w) ->
  reachable g e w -> w <> e -> is_idom g e d w ->
  idom_of (length g) domb reachb e w = Some d.
Proof.
  intros Hdom Hreach Hr Hne Hid. unfold idom_of.
  assert (E1 : reachb w = true) by now apply Hreach.
  assert (E2 : negb (w =? e) = true) by now apply negb_true_iff, Nat.eqb_neq.
  rewrite E1, E2. simpl.
  assert (Hdn : d < length g).
  { destruct Hid as [[Hd Hdw] _].
    destruct (dominator_bound g e d w Hr Hd) as [->|]; auto.
    destruct Hr as [l Hp]. inversion Hp; subst; [congruence|]. destruct H as [H _].
    destruct (Nat.lt_ge_cases e (length g)); auto.
    rewrite nth_overflow in H by auto. inversion H. }
  match goal with |- find ?P ?L = _ => destruct (find P L) as [d2|] eqn:Ef end.
  - f_equal. eapply is_idom_unique; eauto.
    eapply (idom_of_sound g e domb reachb w d2); try tauto.
    unfold idom_of. rewrite E1, E2. exact Ef.
  - exfalso.
    assert (Hi : In d (seq 0 (length g))) by (apply in_seq; lia).
    pose proof (find_none _ _ Ef d Hi) as Hn. cbv beta in Hn.
    destruct Hid as [[Hd Hdw] Hmax].
    assert (A1 : negb (d =? w) = true) by now apply negb_true_iff, Nat.eqb_neq.
    assert (A2 : domb d w = true) by now apply Hdom.
    rewrite A1, A2 in Hn. simpl in Hn.
    apply not_true_iff_false in Hn. apply Hn.
    apply forallb_forall. intros d' Hd'. apply in_seq in Hd'.
    destruct (negb (d' =? w) && domb d' w) eqn:Ec; auto. simpl.
    apply andb_true_iff in Ec. destruct Ec as [C1 C2].
    apply Hdom; [lia|]. apply Hmax. split.
    + apply Hdom; auto; lia.
    + now apply Nat.eqb_neq, negb_true_iff.
Qed.

Theorem idom_ref_complete g e w d :
  reachable g e w -> w <> e -> is_idom g e d w -> idom_ref g e w = Some d.
Proof.
  apply idom_of_complete.
  - intros. apply dom_ref_correct.
  - apply reachable_ref_correct.
Qed.

(* ------------------------------------------------------------------ dominance frontier *)
Lemma df_ref_with_spec g e domb reachb x y :
  x < length g ->
  (forall b, domb x b = true <-> dominates g e x b) ->
  (forall p, reachb p = true <-> reachable g e p) ->
  In y (df_ref_with g domb reachb x) <-> in_df g e x y.
Proof.
  intros Hx Hdom Hreach. unfold df_ref_with, in_df, sdominates.
  rewrite filter_In, andb_true_iff, existsb_exists, negb_true_iff. split.
  - intros [Hy [[p [Hp Hc]] Hn]].
    apply andb_true_iff in Hc. destruct Hc as [Hc C3].
    apply andb_true_iff in Hc. destruct Hc as [C1 C2].
    split.
    + exists p. repeat split; try (now apply Hreach); try (now apply Hdom).
      * apply succs_edge, mem_In. exact C2.
      * apply mem_In, succs_edge in C2. apply C2.
    + intros [Hd Hne]. apply Hdom in Hd. rewrite Hd in Hn.
      apply Nat.eqb_neq in Hne. rewrite Hne in Hn. discriminate.
  - intros [[p [Hr [He Hd]]] Hn].
    assert (Hpn : p < length g).
    { destruct He as [He _]. destruct (Nat.lt_ge_cases p (length g)); auto.
      rewrite nth_overflow in He by auto. inversion He. }
    split; [apply in_seq; destruct He; lia|]. split.
    + exists p. split; [apply in_seq; lia|].
      apply andb_true_iff. split; [apply andb_true_iff; split|].
      * now apply Hreach.
      * apply mem_In, succs_edge. exact He.
      * now apply Hdom.
    + destruct (domb x y) eqn:Ed; auto. simpl.
      destruct (x =? y) eqn:Exy; auto. exfalso. apply Hn. split.
      * now apply Hdom.
      * now apply Nat.eqb_neq.
Qed.

Theorem df_ref_correct g e x y : x < length g -> In y (df_ref g e x) <-> in_df g e x y.
Proof.
  intros Hx. apply df_ref_with_spec; auto.
  - intros. apply dom_ref_correct.
  - intros. apply reachable_ref_correct.
Qed.

Theorem df_list_correct g e x y : x < length g -> In y (nth x (df_list g e) []) <-> in_df g e x y.
Proof.
  intros Hx. unfold df_list. rewrite nth_map_seq by auto. apply df_ref_with_spec; auto.
  - intros. rewrite dom_tab_ref by auto. apply dom_ref_correct.
  - intros. apply reachable_ref_correct.
Qed.

(* the table of can_reach answers used by the checks *)
Theorem reach_rows_correct g u v : u < length g -> v < length g ->
  (In v (nth u (reach_rows g) []) <-> reachable_plus g u v).
Proof.
  intros Hu Hv. unfold reach_rows. cbv zeta. rewrite nth_map_seq by auto.
  rewrite filter_In, existsb_exists, <- reach_plus_ref_correct.
  unfold reach_plus_ref. rewrite existsb_exists. split.
  - intros [_ [s [Hs Hm]]]. exists s. split; auto.
    assert (s < length g) by (apply succs_edge in Hs; apply Hs).
    rewrite nth_map_seq in Hm by auto. exact Hm.
  - intros [s [Hs Hm]]. split; [apply in_seq; lia|]. exists s. split; auto.
    assert (s < length g) by (apply succs_edge in Hs; apply Hs).
    rewrite nth_map_seq by auto. exact Hm.
Qed.
