(* Proofs/C06_compact.v — deleting the no-op entries of a coloured program.
   The rewritten frame is [compact removed tp]: the [Some] entries of tp with jump targets
   renumbered.  Running it (under the same semantics, re-indexed to its own numbering) performs
   exactly the steps tp performs at non-deleted entries. *)
From Coq Require Import ZArith List Bool Arith Lia.
From PV Require Import Spec.RegAllocSpec Model.RegAllocCheck.
Import ListNotations.
Open Scope Z_scope.

(* number of kept entries before position k *)
Fixpoint cnt (tp : list (option instr)) (k : nat) : nat :=
  match k with
  | O => O
  | S k' => match tp with
            | [] => k
            | None :: t => cnt t k'
            | Some _ :: t => S (cnt t k')
            end
  end.

(* position in tp of the k-th kept entry *)
Fixpoint orig (tp : list (option instr)) (k : nat) : nat :=
  match tp with
  | [] => k
  | None :: t => S (orig t k)
  | Some _ :: t => match k with O => O | S k' => S (orig t k') end
  end.

Definition remapf (f : nat -> nat) (i : instr) : instr :=
  mkInstr (i_uses i) (i_defs i) (i_clob i) (i_move i) (map f (i_jumps i)).

Fixpoint compactf (f : nat -> nat) (tp : list (option instr)) : list instr :=
  match tp with
  | [] => []
  | None :: t => compactf f t
  | Some i :: t => remapf f i :: compactf f t
  end.

Lemma compact_compactf : forall removed tp, compact removed tp = compactf (new_index removed) tp.
Proof. intros removed tp; induction tp as [|[i|] t IH]; cbn; auto. now rewrite IH. Qed.

Lemma new_index_cnt : forall color prog removed k, length removed = length prog ->
  new_index removed k = cnt (target color prog removed) k.
Proof.
  intros color prog; induction prog as [|i p IH]; intros removed k HL.
  - destruct removed; [|discriminate]. destruct k; reflexivity.
  - destruct removed as [|b r]; [discriminate|]. destruct k; [reflexivity|].
    cbn [new_index target hd tl cnt]. injection HL as HL. rewrite (IH r k HL).
    destruct b; reflexivity.
Qed.

Lemma compactf_ext : forall f g tp, (forall k, f k = g k) -> compactf f tp = compactf g tp.
Proof.
  intros f g tp H; induction tp as [|[i|] t IH]; cbn; auto.
  rewrite IH; f_equal. unfold remapf; f_equal. apply map_ext; auto.
Qed.

Lemma cnt_none_step : forall tp pc, nth_error tp pc = Some None -> cnt tp (S pc) = cnt tp pc.
Proof.
  induction tp as [|o t IH]; intros pc H; [destruct pc; discriminate|].
  destruct pc.
  - cbn in H; inversion H; subst; destruct t; reflexivity.
  - cbn [nth_error] in H. specialize (IH pc H).
    destruct o; cbn [cnt] in *; rewrite IH; reflexivity.
Qed.

Lemma cnt_some_step : forall tp pc i, nth_error tp pc = Some (Some i) ->
  cnt tp (S pc) = S (cnt tp pc).
Proof.
  induction tp as [|o t IH]; intros pc i H; [destruct pc; discriminate|].
  destruct pc.
  - cbn in H; inversion H; subst; destruct t; reflexivity.
  - cbn [nth_error] in H. specialize (IH pc i H).
    destruct o; cbn [cnt] in *; rewrite IH; reflexivity.
Qed.

Lemma compactf_nth : forall f tp pc i, nth_error tp pc = Some (Some i) ->
  nth_error (compactf f tp) (cnt tp pc) = Some (remapf f i).
Proof.
  induction tp as [|o t IH]; intros pc i H; [destruct pc; discriminate|].
  destruct pc.
  - cbn in H; inversion H; subst; reflexivity.
  - cbn [nth_error] in H. destruct o; cbn [cnt compactf nth_error]; auto.
Qed.

Lemma compactf_halt : forall f tp pc, nth_error tp pc = None ->
  nth_error (compactf f tp) (cnt tp pc) = None.
Proof.
  induction tp as [|o t IH]; intros pc H.
  - cbn [compactf]. apply nth_error_None; cbn; lia.
  - destruct pc; [discriminate|]. cbn [nth_error] in H.
    destruct o; cbn [cnt compactf nth_error]; auto.
Qed.

Lemma orig_cnt : forall tp pc i, nth_error tp pc = Some (Some i) -> orig tp (cnt tp pc) = pc.
Proof.
  induction tp as [|o t IH]; intros pc i H; [destruct pc; discriminate|].
  destruct pc.
  - cbn in H; inversion H; subst; reflexivity.
  - cbn [nth_error] in H. destruct o; cbn [cnt orig]; f_equal; eauto.
Qed.

Section Compact.
Variables (al : reg -> reg -> bool) (junk : nat -> junk_t) (S : semantics)
          (tp : list (option instr)).

Definition reindex_sem : semantics :=
  mkSem (fun k => sem_out S (orig tp k)) (fun k => sem_br S (orig tp k)).
Definition reindex_junk : nat -> junk_t := fun k => junk (orig tp k).
Definition norm (st : state) : state := (cnt tp (fst st), snd st).
Let cp := map Some (compactf (cnt tp) tp).

Lemma step_compact : forall st,
  norm (step al junk S tp st) = norm st \/
  norm (step al junk S tp st) = step al reindex_junk reindex_sem cp (norm st).
Proof.
  intros [pc rf]. unfold step at 1 2. destruct (nth_error tp pc) as [[i|]|] eqn:H.
  - right. unfold norm, step; cbn [fst snd]. unfold cp.
    rewrite nth_error_map, (compactf_nth _ _ _ _ H); cbn [option_map remapf i_uses i_move i_defs i_clob].
    unfold reindex_junk, reindex_sem; cbn [sem_out]. rewrite (orig_cnt _ _ _ H). f_equal.
    unfold next_pc, remapf; cbn [i_jumps sem_br]. rewrite (orig_cnt _ _ _ H).
    destruct (i_jumps i) as [|j js]; cbn [map].
    + now apply cnt_some_step with i.
    + change (cnt tp j :: map (cnt tp) js) with (map (cnt tp) (j :: js)).
      now rewrite map_nth.
  - left. unfold norm; cbn [fst snd]. f_equal. now apply cnt_none_step.
  - right. unfold norm, step; cbn [fst snd]. unfold cp.
    now rewrite nth_error_map, (compactf_halt _ _ _ H).
Qed.

Lemma run_compact : forall n st, exists m, (m <= n)%nat /\
  norm (run al junk S tp n st) = run al reindex_junk reindex_sem cp m (norm st).
Proof.
  induction n as [|n IH]; intros st; cbn [run].
  - exists 0%nat; split; auto.
  - destruct (IH (step al junk S tp st)) as [m [Hm E]].
    destruct (step_compact st) as [H|H]; rewrite H in E.
    + exists m; split; auto.
    + exists (Datatypes.S m); split; [lia|]. cbn [run]. exact E.
Qed.

End Compact.

(* for the program the validator accepted *)
Theorem compact_sound : forall prog color removed after,
  length removed = length prog ->
  compact removed (target color prog removed) = after ->
  forall al junk S n st, exists m, (m <= n)%nat /\
    let tp := target color prog removed in
    norm tp (run al junk S tp n st)
    = run al (reindex_junk junk tp) (reindex_sem S tp) (map Some after) m (norm tp st).
Proof.
  intros prog color removed after HL HC al junk S n st.
  destruct (run_compact al junk S (target color prog removed) n st) as [m [Hm E]].
  exists m; split; auto. cbv zeta. rewrite E. subst after.
  rewrite compact_compactf.
  rewrite (compactf_ext (new_index removed) (cnt (target color prog removed))); auto.
  intros k; now apply new_index_cnt.
Qed.

Lemma removed_flags_length : forall idx n, length (removed_flags idx n) = n.
Proof. intros; unfold removed_flags; now rewrite map_length, seq_length. Qed.
