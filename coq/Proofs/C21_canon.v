(* Proofs/C21_canon.v — C21: canonical bytes are reproduced by the writer.
   [repro w r]: whatever the strict recognizer [r] accepts is, byte for byte, what [w] writes. *)
From PV Require Import Lib.Py Lib.Tac Model.WasmTypes Gen.Tab_wasm_opcodes Model.WasmBin Model.WasmCanon
  Proofs.C21_leb Proofs.C21_instr Proofs.C21_defs Proofs.C21_module.
From Coq Require Import String.
Local Open Scope string_scope.
Local Open Scope list_scope.
Open Scope Z_scope.

Definition repro {A} (w : A -> result bytes) (r : reader A) : Prop :=
  forall bs a rest, r bs = Ok (a, rest) -> exists pre, bs = pre ++ rest /\ w a = Ok pre.

Ltac inv_bind H :=
  match type of H with
  | bind ?e _ = Ok _ =>
      let E := fresh "E" in let x := fresh "x" in
      remember e as x eqn:E in H; symmetry in E;
      destruct x as [[? ?]| | |]; unfold bind at 1 in H; cbv beta iota in H; try discriminate H
  end.
Ltac inv_bind1 H :=
  match type of H with
  | bind ?e _ = Ok _ =>
      let E := fresh "E" in let x := fresh "x" in
      remember e as x eqn:E in H; symmetry in E;
      destruct x as [?| | |]; unfold bind at 1 in H; cbv beta iota in H; try discriminate H
  end.
Tactic Notation "inv_bind" hyp(H) "as" ident(a) ident(r) ident(E) :=
  match type of H with
  | bind ?e _ = Ok _ =>
      let x := fresh "x" in
      remember e as x eqn:E in H; symmetry in E;
      destruct x as [[a r]| | |]; unfold bind at 1 in H; cbv beta iota in H; try discriminate H
  end.
Ltac inv_if H :=
  match type of H with
  | (if ?c then _ else _) = Ok _ => let C := fresh "C" in destruct c eqn:C; try discriminate H
  end.
Lemma ok_pair_inj {A B} (a a' : A) (b b' : B) : Ok (a, b) = Ok (a', b') -> a = a' /\ b = b'.
Proof. intros H. injection H. auto. Qed.
Ltac inv_ok H := apply ok_pair_inj in H; first [destruct H as [<- <-] | destruct H as [? ?]; subst].
Ltac inv_ok' H := apply ok_pair_inj in H; destruct H as [<- <-].

(* ------------------------------------------------------------------ LEB128 *)
Lemma suleb_cons b r : suleb (b :: r) =
  if negb (is_byte b) then NonCanon else if b <? 128 then Ok (b, r)
  else '(v, r') <- suleb r ;; if v =? 0 then NonCanon else Ok (b - 128 + 128 * v, r').
Proof. reflexivity. Qed.

Lemma ssleb_cons b r : ssleb (b :: r) =
  if negb (is_byte b) then NonCanon else if b <? 128 then Ok ((if 64 <=? b then b - 128 else b), r)
  else '(v, r') <- ssleb r ;;
       let byte := b - 128 in
       if ((v =? 0) && (byte <? 64)) || ((v =? -1) && (64 <=? byte)) then NonCanon
       else Ok (byte + 128 * v, r').
Proof. reflexivity. Qed.

Lemma suleb_repro : forall bs v rest, suleb bs = Ok (v, rest) ->
  exists pre, bs = pre ++ rest /\ 0 <= v /\ (1 <= List.length pre)%nat /\
    forall fuel, (List.length pre <= fuel)%nat -> uleb_enc fuel v = Ok pre.
Proof.
  induction bs as [|b r IH]; intros v rest H; [discriminate H|rewrite suleb_cons in H].
  destruct (is_byte b) eqn:Hb; [|discriminate H]. change (negb true) with false in H. cbv iota in H.
  assert (Hb' : 0 <= b < 256) by (unfold is_byte in Hb; lia).
  destruct (Z.ltb_spec b 128).
  - inv_ok H. exists [b]. split; [reflexivity|]. split; [lia|]. split; [cbn; lia|].
    intros [|f] Hf; [cbn in Hf; lia|]. cbn [uleb_enc].
    assert (E : b / 128 = 0) by lia. rewrite E. cbn. assert (E2 : b mod 128 = b) by lia. now rewrite E2.
  - inv_bind H as z b0 E. destruct (Z.eqb_spec z 0); [discriminate|]. inv_ok' H.
    destruct (IH _ _ E) as (pre & -> & Hz & Hl & Henc).
    exists (b :: pre). split; [reflexivity|]. split; [lia|]. split; [cbn; lia|].
    intros [|f] Hf; [cbn in Hf; lia|]. cbn [uleb_enc].
    assert (E1 : (b - 128 + 128 * z) / 128 = z) by lia.
    assert (E2 : (b - 128 + 128 * z) mod 128 = b - 128) by lia.
    rewrite E1, E2. destruct (Z.eqb_spec z 0); [lia|].
    rewrite Henc by (cbn in Hf; lia). cbn [bind]. do 2 f_equal. lia.
Qed.

Lemma ssleb_repro : forall bs v rest, ssleb bs = Ok (v, rest) ->
  exists pre, bs = pre ++ rest /\ (1 <= List.length pre)%nat /\
    forall fuel, (List.length pre <= fuel)%nat -> signed_leb128_encode fuel v = Ok pre.
Proof.
  induction bs as [|b r IH]; intros v rest H; [discriminate H|rewrite ssleb_cons in H].
  destruct (is_byte b) eqn:Hb; [|discriminate H]. change (negb true) with false in H. cbv iota in H.
  assert (Hb' : 0 <= b < 256) by (unfold is_byte in Hb; lia).
  destruct (Z.ltb_spec b 128).
  - injection H as Hv <-. exists [b]. split; [reflexivity|]. split; [cbn; lia|].
    intros [|f] Hf; [cbn in Hf; lia|]. cbn [signed_leb128_encode].
    destruct (Z.leb_spec 64 b); subst v.
    + assert (E1 : (b - 128) / 128 = -1) by lia. assert (E2 : (b - 128) mod 128 = b) by lia.
      rewrite E1, E2. destruct (Z.leb_spec 64 b); [|lia]. reflexivity.
    + assert (E1 : b / 128 = 0) by lia. assert (E2 : b mod 128 = b) by lia.
      rewrite E1, E2. destruct (Z.leb_spec 64 b); [lia|]. reflexivity.
  - inv_bind H as z b0 E. cbv zeta in H.
    destruct (((z =? 0) && (b - 128 <? 64)) || ((z =? -1) && (64 <=? b - 128))) eqn:Hdone; [discriminate|].
    inv_ok' H. destruct (IH _ _ E) as (pre & -> & Hl & Henc).
    exists (b :: pre). split; [reflexivity|]. split; [cbn; lia|].
    intros [|f] Hf; [cbn in Hf; lia|]. cbn [signed_leb128_encode].
    assert (E1 : (b - 128 + 128 * z) / 128 = z) by lia.
    assert (E2 : (b - 128 + 128 * z) mod 128 = b - 128) by lia.
    rewrite E1, E2. cbv zeta.
    destruct (((z =? 0) && negb (64 <=? b - 128)) || ((z =? -1) && (64 <=? b - 128))) eqn:Hd2; [lia|].
    rewrite Henc by (cbn in Hf; lia). cbn [bind]. do 2 f_equal. lia.
Qed.

Lemma at_most_inv {A} n bs (x : result (A * bytes)) v rest :
  at_most n bs x = Ok (v, rest) -> x = Ok (v, rest) /\ len bs - len rest <= n.
Proof.
  unfold at_most. destruct x as [[a r]| | |]; cbn [bind]; try discriminate.
  destruct (Z.leb_spec (len bs - len r) n) as [Hle|]; [|discriminate]. intros Hx. inv_ok Hx. auto.
Qed.

Lemma len_app_sub (pre rest : bytes) : len (pre ++ rest) - len rest = len pre.
Proof. unfold len. rewrite app_length. lia. Qed.

Lemma s_u32_inv bs v rest : s_u32 bs = Ok (v, rest) ->
  exists pre, bs = pre ++ rest /\ 0 <= v /\ write_vu32 v = Ok pre.
Proof.
  unfold s_u32. intros H. apply at_most_inv in H. destruct H as [H Hn].
  destruct (suleb_repro _ _ _ H) as (pre & -> & Hv & Hl & Henc). rewrite len_app_sub in Hn.
  exists pre. split; [reflexivity|]. split; [exact Hv|].
  unfold write_vu32, unsigned_leb128_encode. destruct (Z.ltb_spec v 0); [lia|].
  rewrite Henc by (unfold LEBFUEL, len in *; lia).
  destruct (Z.leb_spec (len pre) 5); [reflexivity|lia].
Qed.

Lemma s_u32_repro : repro write_vu32 s_u32.
Proof. intros bs v rest H. destruct (s_u32_inv _ _ _ H) as (pre & ? & _ & ?). eauto. Qed.

Lemma s_s32_repro : repro write_vs32 s_s32.
Proof.
  intros bs v rest H. unfold s_s32 in H. apply at_most_inv in H. destruct H as [H Hn].
  destruct (ssleb_repro _ _ _ H) as (pre & -> & Hl & Henc). rewrite len_app_sub in Hn.
  exists pre. split; [reflexivity|]. unfold write_vs32.
  rewrite Henc by (unfold LEBFUEL, len in *; lia).
  destruct (Z.leb_spec (len pre) 5); [reflexivity|lia].
Qed.

Lemma s_s64_repro : repro write_vs64 s_s64.
Proof.
  intros bs v rest H. unfold s_s64 in H. apply at_most_inv in H. destruct H as [H Hn].
  destruct (ssleb_repro _ _ _ H) as (pre & -> & Hl & Henc). rewrite len_app_sub in Hn.
  exists pre. split; [reflexivity|]. unfold write_vs64.
  rewrite Henc by (unfold LEBFUEL, len in *; lia).
  destruct (Z.leb_spec (len pre) 10); [reflexivity|lia].
Qed.

(* ------------------------------------------------------------------ primitives *)
Lemma s_byte_inv bs b rest : s_byte bs = Ok (b, rest) -> bs = [b] ++ rest /\ is_byte b = true.
Proof.
  destruct bs as [|x r]; cbn; [discriminate|]. destruct (is_byte x) eqn:E; [|discriminate].
  intros H. inv_ok H. auto.
Qed.

Lemma s_type_repro : repro write_type s_type.
Proof.
  intros bs t rest H. unfold s_type in H. inv_bind H as z r0 E.
  apply s_byte_inv in E. destruct E as [-> _].
  destruct (assoc Z.eqb lang_types_reverse z) as [t'|]; [|discriminate].
  destruct (assoc String.eqb lang_types t') as [[|b' [|? ?]]|] eqn:Et; try discriminate.
  destruct (Z.eqb_spec b' z); [|discriminate]. inv_ok H. subst.
  exists [z]. split; [reflexivity|]. unfold write_type. now rewrite Et.
Qed.

Lemma s_ref_repro space : repro write_ref (s_ref space).
Proof.
  intros bs x rest H. unfold s_ref in H. inv_bind H as i r0 E. inv_ok H.
  destruct (s_u32_repro _ _ _ E) as (pre & -> & W). exists pre. split; [reflexivity|exact W].
Qed.

Lemma read_exactly_inv n bs d rest : read_exactly n bs = Ok (d, rest) -> bs = d ++ rest /\ len d = n.
Proof.
  unfold read_exactly. destruct (Z.ltb_spec n 0) as [|Hn0]; [discriminate|].
  destruct (Z.ltb_spec (len bs) n) as [|Hn1]; [discriminate|]. intros Hx. inv_ok Hx.
  split; [symmetry; apply firstn_skipn|]. unfold len in *. rewrite firstn_length. lia.
Qed.

Lemma s_exactly_inv n bs d rest : s_exactly n bs = Ok (d, rest) ->
  bs = d ++ rest /\ len d = n /\ all_byte d = true.
Proof.
  unfold s_exactly. intros H. inv_bind H as d0 r0 E. destruct (all_byte d0) eqn:Ea; [|discriminate]. inv_ok H.
  apply read_exactly_inv in E. tauto.
Qed.

Lemma s_lpbytes_repro : repro write_str s_lpbytes.
Proof.
  intros bs d rest H. unfold s_lpbytes in H. inv_bind H as n r0 E.
  destruct (s_u32_repro _ _ _ E) as (pre & -> & W).
  apply s_exactly_inv in H. destruct H as (-> & Hl & _).
  exists (pre ++ d). split; [now rewrite app_assoc|]. unfold write_str. rewrite Hl, W. reflexivity.
Qed.

Lemma s_limits_repro : repro (fun p => write_limits (fst p) (snd p)) s_limits.
Proof.
  intros bs p rest H. unfold s_limits in H. inv_bind H as z r0 E.
  apply s_byte_inv in E. destruct E as [-> _].
  destruct (Z.eqb_spec z 0) as [->|].
  - inv_bind H as mn r1 E. inv_ok H. destruct (s_u32_repro _ _ _ E) as (pre & -> & W).
    exists (0 :: pre). split; [reflexivity|]. cbn [fst snd write_limits]. now rewrite W.
  - destruct (Z.eqb_spec z 1) as [->|]; [|discriminate].
    inv_bind H as mn r1 E. inv_bind H as mx r2 E0. inv_ok H.
    destruct (s_u32_repro _ _ _ E) as (p1 & -> & W1). destruct (s_u32_repro _ _ _ E0) as (p2 & -> & W2).
    exists (1 :: p1 ++ p2). split; [cbn; now rewrite <- app_assoc|]. cbn [fst snd write_limits]. now rewrite W1, W2.
Qed.

Lemma s_bool_inv bs m rest : s_bool bs = Ok (m, rest) -> bs = [bool_byte m] ++ rest.
Proof.
  unfold s_bool. intros H. inv_bind H as z r0 E. apply s_byte_inv in E. destruct E as [-> _].
  destruct (Z.eqb_spec z 0) as [->|]; [inv_ok H; reflexivity|].
  destruct (Z.eqb_spec z 1) as [->|]; [inv_ok H; reflexivity|discriminate].
Qed.

Lemma read_vec_repro {A} (w : A -> result bytes) (r : reader A) : repro w r ->
  forall n bs l rest, read_vec n r bs = Ok (l, rest) ->
  exists pre, bs = pre ++ rest /\ write_all w l = Ok pre /\ List.length l = n.
Proof.
  intros Hr. induction n as [|n IH]; intros bs l rest H; cbn [read_vec] in H.
  - inv_ok H. exists []. repeat split; reflexivity.
  - inv_bind H as x r0 E. inv_bind H as l0 r1 E0. inv_ok H.
    destruct (Hr _ _ _ E) as (p1 & -> & W1). destruct (IH _ _ _ E0) as (p2 & -> & W2 & L).
    exists (p1 ++ p2). split; [now rewrite app_assoc|]. cbn [write_all List.length]. rewrite W1, W2.
    split; [reflexivity|now rewrite L].
Qed.

(* ------------------------------------------------------------------ immediates, instructions *)
Lemma s_arg_repro key k : repro (write_arg key k) (s_arg key k).
Proof.
  intros bs a rest H. unfold s_arg in H. unfold write_arg.
  destruct (assoc akind_eqb rfm k) as [rm|] eqn:Er, (assoc akind_eqb wfm k) as [wm|] eqn:Ew.
  - destruct rm, wm; try discriminate; inv_bind H as x r0 E; inv_ok H; cbn [write_meth].
    + apply s_type_repro in E. exact E.
    + apply s_byte_inv in E. destruct E as [-> Hb]. exists [x]. rewrite Hb. auto.
    + apply s_u32_repro in E. exact E.
    + apply s_s32_repro in E. exact E.
    + apply s_s64_repro in E. exact E.
    + destruct x as [sp i]. pose proof E as E'. unfold s_ref in E'. inv_bind E' as i0 r1 E1.
      apply ok_pair_inj in E'. destruct E' as [E' _]. injection E' as <- <-.
      apply (s_ref_repro space) in E. exact E.
    + apply s_exactly_inv in E. destruct E as (-> & Hl & Hb). exists x. rewrite Hl, Hb. auto.
    + apply s_exactly_inv in E. destruct E as (-> & Hl & Hb). exists x. rewrite Hl, Hb. auto.
  - destruct rm; discriminate.
  - discriminate.
  - destruct k; try discriminate.
    + inv_bind H as z r0 E. inv_bind H as l r1 E0. inv_ok H.
      destruct (s_u32_inv _ _ _ E) as (p1 & -> & Hz & W1).
      destruct (read_vec_repro _ _ (s_ref_repro "label") _ _ _ _ E0) as (p2 & -> & W2 & L).
      exists (p1 ++ p2). split; [now rewrite app_assoc|].
      replace (len l - 1) with z by (unfold len; lia). now rewrite W1, W2.
    + destruct (code_eqb key (28, None)).
      * inv_bind H as z r0 E. destruct (Z.eqb_spec z 0); [discriminate|]. inv_bind H as l r1 E0. inv_ok H.
        destruct (s_u32_inv _ _ _ E) as (p1 & -> & Hz & W1).
        destruct (read_vec_repro _ _ s_type_repro _ _ _ _ E0) as (p2 & -> & W2 & L).
        exists (p1 ++ p2). split; [now rewrite app_assoc|].
        replace (len l) with z by (unfold len; lia). now rewrite W1, W2.
      * inv_ok H. exists []. auto.
Qed.

Lemma s_args_repro key : forall ks bs args rest, s_args key ks bs = Ok (args, rest) ->
  exists pre, bs = pre ++ rest /\ write_args key ks args = Ok pre /\ List.length args = List.length ks.
Proof.
  induction ks as [|k ks IH]; intros bs args rest H; cbn [s_args] in H.
  - inv_ok H. exists []. auto.
  - inv_bind H as a r0 E. inv_bind H as l r1 E0. inv_ok H.
    destruct (s_arg_repro _ _ _ _ _ E) as (p1 & -> & W1). destruct (IH _ _ _ E0) as (p2 & -> & W2 & L).
    exists (p1 ++ p2). split; [now rewrite app_assoc|]. cbn [write_args List.length]. rewrite W1, W2, L. auto.
Qed.

Lemma code_eqb_eq a b : code_eqb a b = true -> a = b.
Proof.
  destruct a as [x [s|]], b as [y [t|]]; unfold code_eqb; cbn; intros H;
    apply andb_true_iff in H; destruct H as [H1 H2]; try discriminate;
    apply Z.eqb_eq in H1; subst; [apply Z.eqb_eq in H2; now subst|reflexivity].
Qed.

Lemma s_instr_repro : repro write_instruction s_instr.
Proof.
  intros bs i rest H. unfold s_instr in H. inv_bind H as z r0 E.
  apply s_byte_inv in E. destruct E as [-> Hb].
  inv_bind H as c r1 E0.
  destruct (assoc code_eqb reverz c) as [op|]; [|discriminate].
  destruct (assoc String.eqb operands op) as [ks|] eqn:Eks; [|discriminate].
  destruct (assoc String.eqb opcodes op) as [c0|] eqn:Eop; [|discriminate].
  inv_bind H as args r2 E1. destruct (effective_code c0 args) as [eff| | |] eqn:Eeff; try discriminate.
  destruct (code_eqb eff c) eqn:Ec; [|discriminate]. inv_ok H. apply code_eqb_eq in Ec. subst eff.
  destruct (s_args_repro _ _ _ _ _ E1) as (p2 & -> & W2 & L).
  unfold write_instruction. cbn [i_op i_args]. rewrite Eop, Eeff. cbn [bind]. rewrite Eks, L, Nat.eqb_refl.
  cbn [negb]. rewrite W2.
  destruct ((z =? 252) || (z =? 253)).
  - inv_bind E0 as sub r3 E. inv_ok E0. destruct (s_u32_repro _ _ _ E) as (p1 & -> & W1). rewrite W1. cbn [bind].
    eexists. split; [|reflexivity]. cbn. now rewrite <- app_assoc.
  - inv_ok E0. cbn [bind]. eexists. split; [|reflexivity]. reflexivity.
Qed.

Lemma write_all_app {A} (w : A -> result bytes) l1 l2 p1 p2 :
  write_all w l1 = Ok p1 -> write_all w l2 = Ok p2 -> write_all w (l1 ++ l2) = Ok (p1 ++ p2).
Proof.
  revert p1. induction l1 as [|x l1 IH]; intros p1 H1 H2; cbn [write_all app] in *.
  - injection H1 as <-. exact H2.
  - destruct (w x) as [a| | |]; try discriminate. cbn [bind] in *.
    destruct (write_all w l1) as [b| | |]; try discriminate. cbn [bind] in *. injection H1 as <-.
    rewrite (IH b eq_refl H2). cbn [bind]. now rewrite app_assoc.
Qed.

Lemma end_only i pe : is_end i = true -> write_instruction i = Ok pe -> i = end_instr.
Proof.
  destruct i as [op args]. unfold is_end. cbn [i_op]. intros H. apply String.eqb_eq in H. subst op.
  unfold write_instruction. cbn [i_op i_args].
  destruct (assoc String.eqb opcodes "end") as [c|]; [|discriminate].
  destruct (effective_code c args) as [eff| | |]; try discriminate. cbn [bind].
  destruct eff as [b [s|]]; [destruct (write_vu32 s); try discriminate|]; cbn [bind].
  all: destruct (assoc String.eqb operands "end") as [ks|] eqn:Eks; try discriminate.
  all: vm_compute in Eks; injection Eks as <-; destruct args; [reflexivity|discriminate].
Qed.

Lemma s_expr_loop_repro : forall fuel blocks acc bs l rest,
  s_expr_loop fuel blocks acc bs = Ok (l, rest) ->
  exists l' pre, l = acc ++ l' /\ bs = pre ++ [11] ++ rest /\ write_instructions l' = Ok pre.
Proof.
  induction fuel as [|f IH]; intros blocks acc bs l rest H; cbn [s_expr_loop] in H; [discriminate|].
  inv_bind H as i r0 E. destruct (s_instr_repro _ _ _ E) as (p1 & -> & W1). cbv zeta in H.
  destruct (blocks_step blocks i =? 0).
  - destruct (is_end i) eqn:Ee; [|discriminate]. inv_ok H.
    rewrite (end_only _ _ Ee W1) in W1. rewrite write_end in W1. injection W1 as <-.
    exists [], []. rewrite app_nil_r. auto.
  - destruct (IH _ _ _ _ _ H) as (l' & p2 & -> & -> & W2).
    exists (i :: l'), (p1 ++ p2). split; [now rewrite <- app_assoc|]. split; [now rewrite <- app_assoc|].
    unfold write_instructions in *. cbn [write_all]. now rewrite W1, W2.
Qed.

(* expressions: instructions followed by the end opcode *)
Lemma s_expr_inv bs l rest : s_expr bs = Ok (l, rest) ->
  exists pre, bs = pre ++ [11] ++ rest /\ write_instructions l = Ok pre.
Proof.
  unfold s_expr. intros H. destruct (s_expr_loop_repro _ _ _ _ _ _ H) as (l' & pre & -> & -> & W).
  exists pre. auto.
Qed.

Lemma s_expr_repro : repro write_expression s_expr.
Proof.
  intros bs l rest H. destruct (s_expr_inv _ _ _ H) as (pre & -> & W).
  exists (pre ++ [11]). split; [now rewrite <- app_assoc|].
  unfold write_expression. rewrite W. cbn [bind]. fold end_instr. now rewrite write_end.
Qed.

(* ------------------------------------------------------------------ definitions *)
Ltac list_eq := repeat (progress (cbn [app]; rewrite <- ?app_assoc)); reflexivity.

Lemma z2n_len {A} (l : list A) n : 0 <= n -> List.length l = Z.to_nat n -> len l = n.
Proof. unfold len. lia. Qed.

Lemma s_type_def_repro : repro write_definition s_type_def.
Proof.
  intros bs d rest H. unfold s_type_def in H. inv_bind H as form r0 E.
  apply s_byte_inv in E. destruct E as [-> _].
  destruct (Z.eqb_spec form 96) as [->|]; [|discriminate]. cbn [negb] in H.
  inv_bind H as np r1 E1. inv_bind H as params r2 E2. inv_bind H as nr r3 E3.
  destruct (Z.ltb_spec nr 128) as [Hnr|]; [|discriminate]. cbn [negb] in H.
  inv_bind H as results r4 E4. inv_ok H.
  destruct (s_u32_inv _ _ _ E1) as (p1 & -> & Hz1 & W1).
  destruct (read_vec_repro _ _ s_type_repro _ _ _ _ E2) as (p2 & -> & W2 & L2).
  destruct (s_u32_inv _ _ _ E3) as (p3 & -> & Hz3 & W3).
  destruct (read_vec_repro _ _ s_type_repro _ _ _ _ E4) as (p4 & -> & W4 & L4).
  cbn [write_definition]. rewrite (z2n_len _ _ Hz1 L2), (z2n_len _ _ Hz3 L4), W1, W2.
  unfold write_vu1. rewrite (write_vu7_bytes nr) by (unfold u7; lia).
  assert (p3 = [nr]) as ->.
  { rewrite write_vu32_small in W3 by lia. injection W3 as <-. reflexivity. }
  rewrite W4. cbn [bind]. eexists. split; [|reflexivity]. list_eq.
Qed.

Lemma s_import_def_repro : repro write_definition s_import_def.
Proof.
  intros bs d rest H. unfold s_import_def in H.
  inv_bind H as modname r0 E0. inv_bind H as name r1 E1. inv_bind H as kind r2 E2.
  destruct (s_lpbytes_repro _ _ _ E0) as (p0 & -> & W0). destruct (s_lpbytes_repro _ _ _ E1) as (p1 & -> & W1).
  apply s_byte_inv in E2. destruct E2 as [-> _].
  destruct (Z.eqb_spec kind 0) as [->|]; [|destruct (Z.eqb_spec kind 1) as [->|];
    [|destruct (Z.eqb_spec kind 2) as [->|]; [|destruct (Z.eqb_spec kind 3) as [->|]; [|discriminate]]]].
  - inv_bind H as x r3 E3. inv_ok H. destruct (s_ref_repro _ _ _ _ E3) as (p3 & -> & W3).
    cbn [write_definition]. rewrite W0, W1, W3. cbn [bind]. eexists. split; [|reflexivity].
    list_eq.
  - inv_bind H as k r3 E3. inv_bind H as lim r4 E4. inv_ok H.
    destruct (s_type_repro _ _ _ E3) as (p3 & -> & W3). destruct (s_limits_repro _ _ _ E4) as (p4 & -> & W4).
    cbn [write_definition]. rewrite W0, W1, W3, W4. cbn [bind]. eexists. split; [|reflexivity].
    list_eq.
  - inv_bind H as lim r4 E4. inv_ok H. destruct (s_limits_repro _ _ _ E4) as (p4 & -> & W4).
    cbn [write_definition]. rewrite W0, W1, W4. cbn [bind]. eexists. split; [|reflexivity].
    list_eq.
  - inv_bind H as t r3 E3. inv_bind H as m r4 E4. inv_ok H.
    destruct (s_type_repro _ _ _ E3) as (p3 & -> & W3). apply s_bool_inv in E4. subst r3.
    cbn [write_definition]. rewrite W0, W1, W3. cbn [bind]. eexists. split; [|reflexivity].
    list_eq.
Qed.

Lemma s_table_def_repro : repro write_definition s_table_def.
Proof.
  intros bs d rest H. unfold s_table_def in H. inv_bind H as k r0 E0. inv_bind H as lim r1 E1. inv_ok H.
  destruct (s_type_repro _ _ _ E0) as (p0 & -> & W0). destruct (s_limits_repro _ _ _ E1) as (p1 & -> & W1).
  cbn [write_definition]. rewrite W0, W1. cbn [bind]. eexists. split; [|reflexivity]. list_eq.
Qed.

Lemma s_memory_def_repro : repro write_definition s_memory_def.
Proof.
  intros bs d rest H. unfold s_memory_def in H. inv_bind H as lim r1 E1. inv_ok H.
  destruct (s_limits_repro _ _ _ E1) as (p1 & -> & W1). cbn [write_definition]. eauto.
Qed.

Lemma s_global_def_repro : repro write_definition s_global_def.
Proof.
  intros bs d rest H. unfold s_global_def in H.
  inv_bind H as t r0 E0. inv_bind H as m r1 E1. inv_bind H as init r2 E2. inv_ok H.
  destruct (s_type_repro _ _ _ E0) as (p0 & -> & W0). apply s_bool_inv in E1. subst r0.
  destruct (s_expr_repro _ _ _ E2) as (p2 & -> & W2).
  cbn [write_definition]. rewrite W0, W2. cbn [bind]. eexists. split; [|reflexivity]. list_eq.
Qed.

Lemma s_export_def_repro : repro write_definition s_export_def.
Proof.
  intros bs d rest H. unfold s_export_def in H. inv_bind H as name r0 E0. inv_bind H as kid r1 E1.
  destruct (s_lpbytes_repro _ _ _ E0) as (p0 & -> & W0). apply s_byte_inv in E1. destruct E1 as [-> _].
  destruct (nthZ export_kinds kid) as [kind|]; [|discriminate].
  destruct (index_of kind export_kinds 0) as [id'|] eqn:Ei; [|discriminate].
  destruct (Z.eqb_spec id' kid) as [->|]; [|discriminate].
  inv_bind H as x r2 E2. inv_ok H. destruct (s_ref_repro _ _ _ _ E2) as (p2 & -> & W2).
  pose proof E2 as E2'. unfold s_ref in E2'. inv_bind E2' as i r3 E3. apply ok_pair_inj in E2'.
  destruct E2' as [<- _].
  cbn [write_definition]. rewrite W0, Ei. cbn [bind fst]. rewrite String.eqb_refl. cbn [negb].
  rewrite W2. cbn [bind]. eexists. split; [|reflexivity]. list_eq.
Qed.

Lemma s_start_def_repro : repro write_definition s_start_def.
Proof.
  intros bs d rest H. unfold s_start_def in H. inv_bind H as x r2 E2. inv_ok H.
  destruct (s_ref_repro _ _ _ _ E2) as (p2 & -> & W2).
  pose proof E2 as E2'. unfold s_ref in E2'. inv_bind E2' as i r3 E3. apply ok_pair_inj in E2'.
  destruct E2' as [<- _]. cbn [write_definition fst]. cbn. rewrite W2. eauto.
Qed.

Lemma read_vec_s_ref_space sp : forall n bs l rest, read_vec n (s_ref sp) bs = Ok (l, rest) ->
  forallb (fun r : (string * Z)%type => String.eqb (fst r) sp) l = true.
Proof.
  induction n as [|n IH]; intros bs l rest E; cbn [read_vec] in E.
  - inv_ok E. reflexivity.
  - inv_bind E as y q0 Ea. inv_bind E as l0 q1 Eb. inv_ok E. unfold s_ref in Ea. inv_bind Ea as i q2 Ec.
    apply ok_pair_inj in Ea. destruct Ea as [<- _]. cbn [forallb fst]. rewrite String.eqb_refl. eauto.
Qed.

Lemma s_elem_def_repro : repro write_definition s_elem_def.
Proof.
  intros bs d rest H. unfold s_elem_def in H. inv_bind H as x r0 E0.
  destruct (Z.eqb_spec x 0) as [->|]; [|discriminate]. cbn [negb] in H.
  inv_bind H as offset r1 E1. inv_bind H as count r2 E2. inv_bind H as refs r3 E3. inv_ok H.
  destruct (s_u32_inv _ _ _ E0) as (p0 & -> & _ & W0).
  destruct (s_expr_repro _ _ _ E1) as (p1 & -> & W1).
  destruct (s_u32_inv _ _ _ E2) as (p2 & -> & Hz & W2).
  destruct (read_vec_repro _ _ (s_ref_repro "func") _ _ _ _ E3) as (p3 & -> & W3 & L3).
  pose proof (read_vec_s_ref_space _ _ _ _ _ E3) as Hf.
  cbn [write_definition fst snd]. cbn [String.eqb Ascii.eqb Bool.eqb negb]. unfold write_ref at 1. cbn [snd].
  rewrite W0, W1. cbn [bind]. rewrite (z2n_len _ _ Hz L3), W2. cbn [bind]. rewrite Hf. cbn [negb].
  rewrite W3. cbn [bind]. eexists. split; [|reflexivity]. list_eq.
Qed.

Lemma s_data_def_repro : repro write_definition s_data_def.
Proof.
  intros bs d rest H. unfold s_data_def in H. inv_bind H as x r0 E0. inv_bind H as mode r1 E1.
  inv_bind H as data r2 E2. inv_ok H.
  destruct (s_u32_inv _ _ _ E0) as (p0 & -> & _ & W0).
  destruct (s_lpbytes_repro _ _ _ E2) as (p2 & -> & W2). unfold write_str in W2.
  destruct (write_vu32 (len data)) as [l| | |] eqn:Wl; try discriminate. cbn [bind] in W2. injection W2 as <-.
  cbn [write_definition].
  destruct (Z.eqb_spec x 1) as [->|].
  - inv_ok E1. rewrite W0. cbn [bind]. rewrite Wl. cbn [bind]. eexists. split; [|reflexivity].
    list_eq.
  - destruct (Z.eqb_spec x 0) as [->|].
    + inv_bind E1 as offset r3 E3. inv_ok E1. destruct (s_expr_repro _ _ _ E3) as (p3 & -> & W3).
      cbn [fst snd]. cbn [String.eqb Ascii.eqb Bool.eqb negb Z.ltb Z.compare]. cbn [bind].
      unfold write_ref. cbn [snd]. rewrite W0. cbn [bind]. rewrite W3. cbn [bind]. rewrite Wl. cbn [bind].
      eexists. split; [|reflexivity]. list_eq.
    + destruct (Z.eqb_spec x 2) as [->|]; [|discriminate].
      inv_bind E1 as rf r3 E3. destruct (0 <? snd rf) eqn:Hpos; [|discriminate]. cbn [negb] in E1.
      inv_bind E1 as offset r4 E4. inv_ok E1.
      destruct (s_ref_repro _ _ _ _ E3) as (p3 & -> & W3). destruct (s_expr_repro _ _ _ E4) as (p4 & -> & W4).
      pose proof E3 as E3'. unfold s_ref in E3'. inv_bind E3' as i r5 E5. apply ok_pair_inj in E3'.
      destruct E3' as [<- _]. cbn [fst snd] in *. cbn [String.eqb Ascii.eqb Bool.eqb negb].
      rewrite Hpos, W0. cbn [bind]. rewrite W3. cbn [bind]. rewrite W4. cbn [bind]. rewrite Wl. cbn [bind].
      eexists. split; [|reflexivity]. list_eq.
Qed.

Lemma s_datacount_def_repro : repro write_definition s_datacount_def.
Proof.
  intros bs d rest H. unfold s_datacount_def in H. inv_bind H as n r0 E0. inv_ok H.
  destruct (s_u32_repro _ _ _ E0) as (p0 & -> & W0). cbn [write_definition]. eauto.
Qed.

(* ------------------------------------------------------------------ functions *)
Lemma entries_eqb_eq a : forall b, entries_eqb a b = true -> a = b.
Proof.
  induction a as [|[c t] a IH]; intros [|[c' t'] b]; cbn; try discriminate; auto.
  intros H. apply andb_true_iff in H. destruct H as [H Hr]. apply andb_true_iff in H. destruct H as [Hc Ht].
  apply Z.eqb_eq in Hc. apply String.eqb_eq in Ht. subst. f_equal. auto.
Qed.

Lemma s_local_entry_repro : repro write_local_entry s_local_entry.
Proof.
  intros bs e rest H. unfold s_local_entry in H. inv_bind H as c r0 E0. inv_bind H as t r1 E1. inv_ok H.
  destruct (s_u32_repro _ _ _ E0) as (p0 & -> & W0). destruct (s_type_repro _ _ _ E1) as (p1 & -> & W1).
  exists (p0 ++ p1). split; [list_eq|]. unfold write_local_entry. cbn [fst snd]. now rewrite W0, W1.
Qed.

Lemma all_of_inv {A} data (rd : reader A) x : all_of data rd = Ok x -> rd data = Ok (x, []).
Proof.
  unfold all_of. intros H. inv_bind H as y r E. destruct r; [|discriminate]. injection H as <-. exact E.
Qed.

Lemma s_func_def_repro t bs d rest : s_func_def t bs = Ok (d, rest) ->
  exists pre, bs = pre ++ rest /\ write_definition d = Ok pre /\ tref d = t /\ has_name "func" d = true.
Proof.
  unfold s_func_def. intros H. inv_bind H as body r0 E0.
  match type of H with bind ?e _ = _ => destruct e as [p| | |] eqn:Ep; cbn [bind] in H; try discriminate H end.
  injection H as <- <-.
  destruct (s_lpbytes_repro _ _ _ E0) as (pl & -> & Wl). unfold write_str in Wl.
  destruct (write_vu32 (len body)) as [l| | |] eqn:El; try discriminate. cbn [bind] in Wl. injection Wl as <-.
  apply all_of_inv in Ep. cbv beta in Ep.
  inv_bind Ep as n r1 E1. inv_bind Ep as entries r2 E2. cbv zeta in Ep.
  destruct (entries_eqb (local_entries (List.concat (map expand_local entries))) entries) eqn:Ee; [|discriminate].
  cbn [negb] in Ep. inv_bind Ep as instrs r3 E3. apply ok_pair_inj in Ep. destruct Ep as [<- ->].
  apply entries_eqb_eq in Ee.
  destruct (s_u32_inv _ _ _ E1) as (p1 & -> & Hz & W1).
  destruct (read_vec_repro _ _ s_local_entry_repro _ _ _ _ E2) as (p2 & -> & W2 & L2).
  destruct (s_expr_inv _ _ _ E3) as (p3 & -> & W3).
  exists (l ++ p1 ++ p2 ++ p3 ++ [11]). split; [list_eq|].
  split; [|split; reflexivity].
  cbn [write_definition fst snd]. rewrite Ee, (z2n_len _ _ Hz L2), W1, W2, W3. cbn [bind].
  replace (p1 ++ p2 ++ p3 ++ [11] ++ []) with (p1 ++ p2 ++ p3 ++ [11]) in El by list_eq.
  rewrite El. cbn [bind]. f_equal; list_eq.
Qed.

(* ------------------------------------------------------------------ sections *)
Lemma filter_named n n' l : forallb (has_name n') l = true ->
  filter (has_name n) l = if String.eqb n' n then l else [].
Proof.
  induction l as [|d l IH]; cbn [forallb filter]; intros H; [now destruct (String.eqb n' n)|].
  apply andb_true_iff in H. destruct H as [Hd Hl]. unfold has_name in Hd at 1. apply String.eqb_eq in Hd.
  unfold has_name at 1. rewrite Hd, (IH Hl). now destruct (String.eqb n' n).
Qed.

Lemma named_inv name x l r : named name x = Ok (l, r) -> x = Ok (l, r) /\ forallb (has_name name) l = true.
Proof.
  unfold named. intros H. inv_bind H as l0 r0 E. destruct (forallb (has_name name) l0) eqn:Hn; [|discriminate].
  inv_ok H. auto.
Qed.

(* an optional section: absent (nothing consumed, no definitions) or the writer's wrapping *)
Lemma s_section_inv {A} id (parse : reader (list A)) bs l rest : u7 id = true ->
  s_section id parse bs = Ok (l, rest) ->
  (l = [] /\ rest = bs) \/
  (l <> [] /\ exists payload, parse payload = Ok (l, []) /\
     exists pre, bs = pre ++ rest /\ wrap_section id payload = Ok pre).
Proof.
  intros Hid H. unfold s_section in H. destruct bs as [|b r]; [inv_ok H; auto|].
  destruct (Z.eqb_spec b id) as [->|]; [|inv_ok H; auto].
  inv_bind H as payload r1 E.
  match type of H with bind ?e _ = _ => destruct e as [l0| | |] eqn:Ep; cbn [bind] in H; try discriminate H end.
  destruct l0 as [|x l0]; [discriminate|]. inv_ok H. right. split; [discriminate|].
  exists payload. split; [now apply all_of_inv|].
  destruct (s_lpbytes_repro _ _ _ E) as (pl & -> & Wl). unfold write_str in Wl.
  destruct (write_vu32 (len payload)) as [lp| | |] eqn:El; try discriminate. cbn [bind] in Wl. injection Wl as <-.
  exists ([id] ++ lp ++ payload). split; [list_eq|].
  unfold wrap_section. rewrite (write_vu7_bytes _ Hid), El. reflexivity.
Qed.

Lemma s_defs_inv name rd payload l : repro write_definition rd ->
  s_defs name rd payload = Ok (l, []) ->
  forallb (has_name name) l = true /\
  exists c x, payload = c ++ x /\ write_vu32 (len l) = Ok c /\ write_all write_definition l = Ok x.
Proof.
  intros Hr H. unfold s_defs in H. apply named_inv in H. destruct H as [H Hn]. split; [exact Hn|].
  inv_bind H as n r0 E. destruct (s_u32_inv _ _ _ E) as (c & -> & Hz & Wc).
  destruct (read_vec_repro _ _ Hr _ _ _ _ H) as (x & -> & Wx & L).
  exists c, x. split; [now rewrite app_nil_r|]. rewrite (z2n_len _ _ Hz L). auto.
Qed.

Lemma std_section_canon m name id rd bs l rest :
  u7 id = true -> repro write_definition rd ->
  write_section m name id = std_write m name id ->
  filter (has_name name) m = l ->
  s_section id (s_defs name rd) bs = Ok (l, rest) ->
  exists pre, bs = pre ++ rest /\ write_section m name id = Ok pre.
Proof.
  intros Hid Hr Hw Hf H. rewrite Hw. unfold std_write. cbv zeta. rewrite Hf.
  destruct (s_section_inv _ _ _ _ _ Hid H) as [[-> ->]|(Hne & payload & Hp & pre & -> & Wp)].
  - exists []. auto.
  - destruct (s_defs_inv _ _ _ _ Hr Hp) as (_ & c & x & -> & Wc & Wx).
    destruct l as [|d l]; [congruence|]. rewrite Wc, Wx. cbn [bind]. eauto.
Qed.

Lemma single_section_canon m name id rd bs l rest :
  u7 id = true -> repro write_definition rd ->
  write_section m name id = single_write m name id ->
  filter (has_name name) m = l ->
  s_section id (s_one name rd) bs = Ok (l, rest) ->
  exists pre, bs = pre ++ rest /\ write_section m name id = Ok pre.
Proof.
  intros Hid Hr Hw Hf H. rewrite Hw. unfold single_write. cbv zeta. rewrite Hf.
  destruct (s_section_inv _ _ _ _ _ Hid H) as [[-> ->]|(Hne & payload & Hp & pre & -> & Wp)].
  - exists []. auto.
  - unfold s_one in Hp. apply named_inv in Hp. destruct Hp as [Hp _].
    inv_bind Hp as d r0 E. apply ok_pair_inj in Hp. destruct Hp as [<- ->].
    destruct (Hr _ _ _ E) as (p & -> & Wd). rewrite app_nil_r in Wp.
    cbn [List.length Nat.eqb negb]. rewrite Wd. cbn [bind]. eauto.
Qed.

Lemma s_u32_vec_inv payload ts : s_u32_vec payload = Ok (ts, []) ->
  exists c x, payload = c ++ x /\ write_vu32 (len ts) = Ok c /\ write_all write_vu32 ts = Ok x.
Proof.
  unfold s_u32_vec. intros H. inv_bind H as n r0 E. destruct (s_u32_inv _ _ _ E) as (c & -> & Hz & Wc).
  destruct (read_vec_repro _ _ s_u32_repro _ _ _ _ H) as (x & -> & Wx & L).
  exists c, x. split; [now rewrite app_nil_r|]. rewrite (z2n_len _ _ Hz L). auto.
Qed.

Lemma s_funcs_inv : forall ts bs l rest, s_funcs ts bs = Ok (l, rest) ->
  exists pre, bs = pre ++ rest /\ write_all write_definition l = Ok pre /\ map tref l = ts.
Proof.
  induction ts as [|t ts IH]; intros bs l rest H; cbn [s_funcs] in H.
  - inv_ok H. exists []. auto.
  - inv_bind H as d r0 E. inv_bind H as l0 r1 E0. inv_ok H.
    destruct (s_func_def_repro _ _ _ _ E) as (p1 & -> & W1 & T1 & _). destruct (IH _ _ _ E0) as (p2 & -> & W2 & T2).
    exists (p1 ++ p2). split; [list_eq|]. cbn [write_all map]. rewrite W1, W2, T1, T2. auto.
Qed.

Lemma function_code_canon m ts funcs bs3 rest3 bs10 rest10 :
  filter (has_name "func") m = funcs ->
  List.length funcs = List.length ts ->
  s_section 3 s_u32_vec bs3 = Ok (ts, rest3) ->
  s_section 10 (s_code ts) bs10 = Ok (funcs, rest10) ->
  (exists pre, bs3 = pre ++ rest3 /\ write_section m "function" 3 = Ok pre) /\
  (exists pre, bs10 = pre ++ rest10 /\ write_section m "func" 10 = Ok pre).
Proof.
  intros Hf Hlen H3 H10.
  change (write_section m "function" 3) with (function_write m 3).
  change (write_section m "func" 10) with (std_write m "func" 10).
  unfold function_write, std_write. cbv zeta. rewrite Hf.
  destruct (s_section_inv 10 _ _ _ _ eq_refl H10) as [[-> ->]|(Hne & payload & Hp & pre & -> & Wp)].
  - destruct ts; [|discriminate].
    destruct (s_section_inv 3 _ _ _ _ eq_refl H3) as [[_ ->]|(Hne & _)]; [|congruence].
    split; exists []; auto.
  - unfold s_code in Hp. apply named_inv in Hp. destruct Hp as [Hp _]. inv_bind Hp as n r0 E.
    destruct (Z.eqb_spec n (len ts)) as [->|]; [|discriminate]. cbn [negb] in Hp.
    destruct (s_u32_inv _ _ _ E) as (c & -> & _ & Wc).
    destruct (s_funcs_inv _ _ _ _ Hp) as (x & -> & Wx & Tx).
    destruct funcs as [|d funcs]; [congruence|].
    assert (Hl : len (d :: funcs) = len ts) by (unfold len; now rewrite Hlen).
    rewrite Hl, Wc, Wx. cbn [bind]. rewrite app_nil_r in Wp. split; [|eauto].
    destruct (s_section_inv 3 _ _ _ _ eq_refl H3) as [[-> _]|(_ & payload3 & Hp3 & pre3 & -> & Wp3)];
      [discriminate|].
    destruct (s_u32_vec_inv _ _ Hp3) as (c3 & x3 & -> & Wc3 & Wx3).
    change (fun d0 : defn => write_ref (func_ref d0)) with (fun d0 : defn => write_vu32 (tref d0)).
    rewrite Wc in Wc3. injection Wc3 as <-.
    rewrite (write_all_map tref write_vu32), Tx, Wx3. cbn [bind]. eauto.
Qed.

Lemma s_custom_def_inv payload d : s_custom_def payload = Ok (d, []) ->
  has_name "custom" d = true /\ write_definition d = Ok payload.
Proof.
  unfold s_custom_def. intros H. inv_bind H as name r0 E. destruct (all_byte r0); [|discriminate].
  apply ok_pair_inj in H. destruct H as [<- _]. split; [reflexivity|].
  destruct (s_lpbytes_repro _ _ _ E) as (p & -> & W). cbn [write_definition]. now rewrite W.
Qed.

Lemma s_customs_inv : forall fuel bs l rest, s_customs fuel bs = Ok (l, rest) ->
  forallb (has_name "custom") l = true /\
  exists pre, bs = pre ++ rest /\ write_all (write_custom_section 0) l = Ok pre.
Proof.
  induction fuel as [|f IH]; intros bs l rest H; cbn [s_customs] in H; [discriminate|].
  destruct bs as [|b r]; [inv_ok H; split; [reflexivity|exists []; auto]|].
  destruct (Z.eqb_spec b 0) as [->|Hb].
  - inv_bind H as payload r1 E.
    match type of H with bind ?e _ = _ => destruct e as [d| | |] eqn:Ep; cbn [bind] in H; try discriminate H end.
    inv_bind H as l0 r2 E0. inv_ok H.
    apply all_of_inv in Ep. destruct (s_custom_def_inv _ _ Ep) as [Hn Wd].
    destruct (IH _ _ _ E0) as (Hl & p2 & -> & W2).
    destruct (s_lpbytes_repro _ _ _ E) as (pl & -> & Wl). unfold write_str in Wl.
    destruct (write_vu32 (len payload)) as [lp| | |] eqn:El; try discriminate. cbn [bind] in Wl. injection Wl as <-.
    split; [cbn [forallb]; now rewrite Hn, Hl|].
    exists (([0] ++ lp ++ payload) ++ p2). split; [list_eq|].
    cbn [write_all]. unfold write_custom_section at 1. rewrite Wd. cbn [bind]. unfold wrap_section.
    rewrite (write_vu7_bytes 0) by reflexivity. cbn [bind]. rewrite El. cbn [bind]. rewrite W2. reflexivity.
  - assert (Hx : Ok (@nil defn, b :: r) = Ok (l, rest)).
    { destruct b; try exact H. congruence. }
    inv_ok Hx. split; [reflexivity|]. exists []. auto.
Qed.

(* ------------------------------------------------------------------ modules *)
Ltac destruct_scrutinee H :=
  repeat (match type of H with
          | context [match ?x with _ => _ end] => is_var x; destruct x; try discriminate H
          end).

Lemma read_header_inv bs r : read_header bs = Ok (tt, r) -> bs = header ++ r.
Proof.
  unfold read_header. intros H. inv_bind H as magic r0 E0. apply read_exactly_inv in E0. destruct E0 as [-> _].
  destruct_scrutinee H.
  inv_bind H as v r1 E1. apply read_exactly_inv in E1. destruct E1 as [-> _].
  destruct_scrutinee H.
  apply ok_pair_inj in H. destruct H as [_ <-]. reflexivity.
Qed.

Lemma s_section_named id name (parse : reader (list defn)) bs l rest :
  (forall p l0 r0, parse p = Ok (l0, r0) -> forallb (has_name name) l0 = true) ->
  s_section id parse bs = Ok (l, rest) -> forallb (has_name name) l = true.
Proof.
  intros Hp H. unfold s_section in H. destruct bs as [|b r]; [inv_ok H; reflexivity|].
  destruct (b =? id); [|inv_ok H; reflexivity].
  inv_bind H as payload r1 E.
  match type of H with bind ?e _ = _ => destruct e as [l0| | |] eqn:Ep; cbn [bind] in H; try discriminate H end.
  destruct l0 as [|x l0]; [discriminate|]. inv_ok H. apply all_of_inv in Ep. eauto.
Qed.

Ltac named_parse := let Hp := fresh in intros ? ? ? Hp; cbv beta in Hp; apply named_inv in Hp; tauto.
Ltac filt := rewrite ?filter_app; repeat (erewrite filter_named by eassumption);
  cbn [String.eqb Ascii.eqb Bool.eqb]; rewrite ?app_nil_r; cbn [app].

Theorem s_module_repro bs m : s_module bs = Ok m -> write_module m = Ok bs /\ canonical_order m = m.
Proof.
  unfold s_module. intros H. inv_bind H as u r E. destruct u. apply read_header_inv in E. subst bs.
  inv_bind H as customs r0 E0. inv_bind H as types r1 E1. inv_bind H as imports r2 E2.
  inv_bind H as ts r3 E3. inv_bind H as tables r4 E4. inv_bind H as memories r5 E5.
  inv_bind H as globals r6 E6. inv_bind H as exports r7 E7. inv_bind H as starts r8 E8.
  inv_bind H as elems r9 E9. inv_bind H as funcs r10 E10. inv_bind H as datas r11 E11.
  inv_bind H as datacounts r12 E12.
  destruct r12; [|discriminate].
  destruct (Nat.eqb (List.length funcs) (List.length ts)) eqn:Hlen; [|discriminate]. cbn [negb] in H.
  injection H as Hm. apply Nat.eqb_eq in Hlen.
  destruct (s_customs_inv _ _ _ _ E0) as (N0 & pc & -> & Wc).
  pose proof (s_section_named 1 "type" (s_defs "type" s_type_def) _ _ _ ltac:(unfold s_defs; named_parse) E1) as N1.
  pose proof (s_section_named 2 "import" (s_defs "import" s_import_def) _ _ _ ltac:(unfold s_defs; named_parse) E2) as N2.
  pose proof (s_section_named 4 "table" (s_defs "table" s_table_def) _ _ _ ltac:(unfold s_defs; named_parse) E4) as N4.
  pose proof (s_section_named 5 "memory" (s_defs "memory" s_memory_def) _ _ _ ltac:(unfold s_defs; named_parse) E5) as N5.
  pose proof (s_section_named 6 "global" (s_defs "global" s_global_def) _ _ _ ltac:(unfold s_defs; named_parse) E6) as N6.
  pose proof (s_section_named 7 "export" (s_defs "export" s_export_def) _ _ _ ltac:(unfold s_defs; named_parse) E7) as N7.
  pose proof (s_section_named 8 "start" (s_one "start" s_start_def) _ _ _ ltac:(unfold s_one; named_parse) E8) as N8.
  pose proof (s_section_named 9 "elem" (s_defs "elem" s_elem_def) _ _ _ ltac:(unfold s_defs; named_parse) E9) as N9.
  pose proof (s_section_named 10 "func" (s_code ts) _ _ _ ltac:(unfold s_code; named_parse) E10) as N10.
  pose proof (s_section_named 11 "data" (s_defs "data" s_data_def) _ _ _ ltac:(unfold s_defs; named_parse) E11) as N11.
  pose proof (s_section_named 12 "datacount" (s_one "datacount" s_datacount_def) _ _ _ ltac:(unfold s_one; named_parse) E12) as N12.
  assert (F0 : filter (has_name "custom") m = customs) by (subst m; filt; reflexivity).
  assert (F1 : filter (has_name "type") m = types) by (subst m; filt; reflexivity).
  assert (F2 : filter (has_name "import") m = imports) by (subst m; filt; reflexivity).
  assert (F4 : filter (has_name "table") m = tables) by (subst m; filt; reflexivity).
  assert (F5 : filter (has_name "memory") m = memories) by (subst m; filt; reflexivity).
  assert (F6 : filter (has_name "global") m = globals) by (subst m; filt; reflexivity).
  assert (F7 : filter (has_name "export") m = exports) by (subst m; filt; reflexivity).
  assert (F8 : filter (has_name "start") m = starts) by (subst m; filt; reflexivity).
  assert (F9 : filter (has_name "elem") m = elems) by (subst m; filt; reflexivity).
  assert (F10 : filter (has_name "func") m = funcs) by (subst m; filt; reflexivity).
  assert (F11 : filter (has_name "data") m = datas) by (subst m; filt; reflexivity).
  assert (F12 : filter (has_name "datacount") m = datacounts) by (subst m; filt; reflexivity).
  split.
  - destruct (std_section_canon m "type" 1 s_type_def _ _ _ eq_refl s_type_def_repro eq_refl F1 E1) as (p1 & -> & W1).
    destruct (std_section_canon m "import" 2 s_import_def _ _ _ eq_refl s_import_def_repro eq_refl F2 E2) as (p2 & -> & W2).
    destruct (function_code_canon m _ _ _ _ _ _ F10 Hlen E3 E10) as [(p3 & -> & W3) (p10 & Hr9 & W10)].
    destruct (std_section_canon m "table" 4 s_table_def _ _ _ eq_refl s_table_def_repro eq_refl F4 E4) as (p4 & -> & W4).
    destruct (std_section_canon m "memory" 5 s_memory_def _ _ _ eq_refl s_memory_def_repro eq_refl F5 E5) as (p5 & -> & W5).
    destruct (std_section_canon m "global" 6 s_global_def _ _ _ eq_refl s_global_def_repro eq_refl F6 E6) as (p6 & -> & W6).
    destruct (std_section_canon m "export" 7 s_export_def _ _ _ eq_refl s_export_def_repro eq_refl F7 E7) as (p7 & -> & W7).
    destruct (single_section_canon m "start" 8 s_start_def _ _ _ eq_refl s_start_def_repro eq_refl F8 E8) as (p8 & -> & W8).
    destruct (std_section_canon m "elem" 9 s_elem_def _ _ _ eq_refl s_elem_def_repro eq_refl F9 E9) as (p9 & -> & W9).
    subst r9.
    destruct (std_section_canon m "data" 11 s_data_def _ _ _ eq_refl s_data_def_repro eq_refl F11 E11) as (p11 & -> & W11).
    destruct (single_section_canon m "datacount" 12 s_datacount_def _ _ _ eq_refl s_datacount_def_repro eq_refl F12 E12)
      as (p12 & -> & W12).
    assert (W0 : write_section m "custom" 0 = Ok pc).
    { change (write_section m "custom" 0) with
        (let ds := filter (has_name "custom") m in
         match ds with [] => Ok [] | _ :: _ => write_all (write_custom_section 0) ds end).
      cbv zeta. rewrite F0. destruct customs; [cbn in Wc; exact Wc|exact Wc]. }
    unfold write_module, write_sections.
    change section_ids with
      [("custom", 0); ("type", 1); ("import", 2); ("function", 3); ("table", 4); ("memory", 5);
       ("global", 6); ("export", 7); ("start", 8); ("elem", 9); ("func", 10); ("code", 10);
       ("data", 11); ("datacount", 12)].
    cbn [write_all fst snd]. rewrite W0, W1, W2, W3, W4, W5, W6, W7, W8, W9, W10, W11, W12.
    change (write_section m "code" 10) with (Ok (A:=bytes) []). cbn [bind]. f_equal; list_eq.
  - unfold canonical_order.
    change section_ids with
      [("custom", 0); ("type", 1); ("import", 2); ("function", 3); ("table", 4); ("memory", 5);
       ("global", 6); ("export", 7); ("start", 8); ("elem", 9); ("func", 10); ("code", 10);
       ("data", 11); ("datacount", 12)].
    cbn [map fst List.concat]. unfold section_defs. cbn [String.eqb Ascii.eqb Bool.eqb orb].
    rewrite F0, F1, F2, F4, F5, F6, F7, F8, F9, F10, F11, F12. cbn [app]. rewrite ?app_nil_r. exact Hm.
Qed.

(* ---- the decidable predicate and the theorem ---- *)
Definition canonical (fuel : nat) (bs : bytes) : bool :=
  match s_module bs with
  | Ok m => wf_module m && Nat.ltb (List.length m + 14) fuel
  | _ => false
  end.

Theorem canonical_bytes fuel bs m :
  canonical fuel bs = true -> read_module fuel bs = Ok m -> write_module m = Ok bs.
Proof.
  unfold canonical. destruct (s_module bs) as [m0| | |] eqn:Es; try discriminate.
  intros H Hr. apply andb_true_iff in H. destruct H as [Hwf Hf]. apply Nat.ltb_lt in Hf.
  destruct (s_module_repro _ _ Es) as [Hw Hc].
  rewrite (module_roundtrip m0 bs fuel Hwf Hw Hf), Hc in Hr. injection Hr as <-. exact Hw.
Qed.

(* the writer's output is canonical: the predicate is inhabited by everything the writer produces
   from a recognizable module; stated for completeness of the reading: canonical bytes exist *)
Theorem canonical_reads fuel bs : canonical fuel bs = true ->
  exists m, read_module fuel bs = Ok m /\ s_module bs = Ok m.
Proof.
  unfold canonical. destruct (s_module bs) as [m0| | |] eqn:Es; try discriminate.
  intros H. apply andb_true_iff in H. destruct H as [Hwf Hf]. apply Nat.ltb_lt in Hf.
  destruct (s_module_repro _ _ Es) as [Hw Hc]. exists m0. split; [|reflexivity].
  rewrite (module_roundtrip m0 bs fuel Hwf Hw Hf). now rewrite Hc.
Qed.
