(* Proofs/C08_rv.v — C08 (b): the RISC-V table against the independent decoder Spec/RV32Decode.v.
   Bounded reflection: for every covered class, ALL register operand tuples (immediates 0) and ALL values of
   every immediate operand of at most 13 bits (wider immediates: a boundary family), registers at their
   extreme numbers.  The domain is the explicit function [rv_domain]. *)
From PV Require Import Lib.Py Model.Encode Spec.RV32Decode Gen.Tab_isa_riscv.
From Coq Require Import String.
Open Scope Z_scope.
Open Scope list_scope.

Fixpoint list_eqb (a b : list Z) : bool :=
  match a, b with
  | [], [] => true
  | x :: a', y :: b' => (x =? y) && list_eqb a' b'
  | _, _ => false
  end.

Lemma list_eqb_eq a : forall b, list_eqb a b = true -> a = b.
Proof.
  induction a as [|x a IH]; intros [|y b] H; try discriminate; [reflexivity|].
  cbn in H. apply andb_prop in H. destruct H as [H1 H2]. apply Z.eqb_eq in H1. subst. f_equal. auto.
Qed.

Definition is_rv32_word (d : instr_desc) : bool :=
  match d_tokens d with [t] => (t_size t =? 32) && negb (t_big t) | _ => false end.

Definition rv_expectation (d : instr_desc) : option (string * list vsel) :=
  if is_rv32_word d then rv_expect (mnemonic d) (List.length (d_ops d)) else None.

(* the bytes ppci emits decode (independent decoder) to the operation and operands ppci prints *)
Definition agrees_with (e : string * list vsel) (d : instr_desc) (ops : list Z) : bool :=
  match encode_instr d ops with
  | Ok bytes =>
      match RV32Decode.decode bytes with
      | Some (m, l) => String.eqb m (fst e) && list_eqb l (map (apply_vsel ops) (snd e))
      | None => false
      end
  | _ => false
  end.

Definition rv_agrees (d : instr_desc) (ops : list Z) : bool :=
  match rv_expectation d with
  | None => true
  | Some e => agrees_with e d ops
  end.

(* ---- the finite operand domain ---- *)
Fixpoint product (ls : list (list Z)) : list (list Z) :=
  match ls with
  | [] => [[]]
  | l :: r => flat_map (fun x => map (cons x) (product r)) l
  end.

Definition imm_lo (o : operand) : Z :=
  match o_kind o with KImm true => - 2 ^ (o_width o - 1) | _ => 0 end.

Definition boundary_family (w : Z) : list Z :=
  let ks := rangeZ 0 w in
  [0; 2 ^ w - 1] ++ map (fun k => 2 ^ k) ks ++ map (fun k => 2 ^ k - 1) ks ++
  map (fun k => 2 ^ w - 1 - 2 ^ k) ks ++ flat_map (fun j => map (fun k => 2 ^ j + 2 ^ k) (rangeZ 0 j)) ks.

(* all transformed values t of an immediate (<= 13 bits: every value), mapped back to operand values *)
Definition imm_values (o : operand) : list Z :=
  let ts := if o_width o <=? 13 then rangeZ 0 (2 ^ o_width o) else boundary_family (o_width o) in
  map (fun u => (u + imm_lo o + o_sub o) * o_div o) ts.

Definition reg_all (o : operand) : list Z :=
  match o_kind o with KReg nums => nums | _ => [0 * o_div o + o_sub o * o_div o] end.
Definition reg_first (o : operand) : Z :=
  match o_kind o with KReg (n :: _) => n | _ => o_sub o * o_div o end.
Definition reg_last (o : operand) : Z :=
  match o_kind o with KReg nums => last nums 0 | _ => o_sub o * o_div o end.

Fixpoint imm_sweeps (pre : list operand) (post : list operand) (pick : operand -> Z) : list (list Z) :=
  match post with
  | [] => []
  | o :: r =>
      (match o_kind o with
       | KImm _ => map (fun v => map pick pre ++ v :: map pick r) (imm_values o)
       | _ => []
       end) ++ imm_sweeps (pre ++ [o]) r pick
  end.

(* register numbers whose 5-bit patterns are 00000 00001 00010 00101 01010 10101 11111 (if present) *)
Definition reg_some (o : operand) : list Z :=
  match o_kind o with
  | KReg nums => filter (fun n => existsb (Z.eqb n) [0; 1; 2; 5; 10; 21; 31]) nums
  | _ => [o_sub o * o_div o]
  end.

Fixpoint reg_sweeps (pre : list operand) (post : list operand) (pick : operand -> Z) : list (list Z) :=
  match post with
  | [] => []
  | o :: r =>
      (match o_kind o with
       | KReg nums => map (fun v => map pick pre ++ v :: map pick r) nums
       | _ => []
       end) ++ reg_sweeps (pre ++ [o]) r pick
  end.

(* the bounded operand domain of a class:
   - every register operand over ALL its registers, the other operands at their first / at their last value;
   - all combinations of the seven pattern registers;
   - every immediate operand over ALL its values (<= 13 bits; wider: boundary family), registers first / last *)
Definition rv_domain (d : instr_desc) : list (list Z) :=
  product (map reg_some (d_ops d)) ++
  reg_sweeps [] (d_ops d) reg_first ++ reg_sweeps [] (d_ops d) reg_last ++
  imm_sweeps [] (d_ops d) reg_first ++ imm_sweeps [] (d_ops d) reg_last.

Definition rv_class_ok (d : instr_desc) : bool :=
  match rv_expectation d with
  | None => true
  | Some e => forallb (fun ops => in_range d ops && agrees_with e d ops) (rv_domain d)
  end.

Fixpoint check_from (n : nat) (bad : list nat) (l : list instr_desc) : bool :=
  match l with
  | [] => true
  | d :: r => (existsb (Nat.eqb n) bad || rv_class_ok d) && check_from (S n) bad r
  end.

Lemma check_from_spec bad : forall l n k d,
  check_from n bad l = true -> nth_error l k = Some d -> ~ In (n + k)%nat bad -> rv_class_ok d = true.
Proof.
  induction l as [|d0 r IH]; intros n k d H Hk Hb; [destruct k; discriminate|].
  cbn in H. apply andb_prop in H. destruct H as [H0 Hr].
  destruct k as [|k]; cbn in Hk.
  - inversion Hk; subst. apply orb_prop in H0. destruct H0 as [H0|H0]; [|exact H0].
    exfalso. apply Hb. apply existsb_exists in H0. destruct H0 as (x & Hx & E).
    apply Nat.eqb_eq in E. subst x. now rewrite Nat.add_0_r.
  - eapply (IH (S n) k); eauto. now replace (S n + k)%nat with (n + S k)%nat by lia.
Qed.

Lemma rv_table_checked : check_from 0 (map fst rvref_bad_riscv) table_riscv = true.
Proof. vm_compute. reflexivity. Qed.

(* every table entry outside the exported disagreement list agrees with the reference on its whole domain *)
Theorem rv_reference_bounded n d e :
  nth_error table_riscv n = Some d -> ~ In n (map fst rvref_bad_riscv) -> rv_expectation d = Some e ->
  forall ops, In ops (rv_domain d) ->
  in_range d ops = true /\
  exists bytes, encode_instr d ops = Ok bytes /\
                RV32Decode.decode bytes = Some (fst e, map (apply_vsel ops) (snd e)).
Proof.
  intros Hn Hb He ops Hin.
  pose proof (check_from_spec _ _ 0%nat n d rv_table_checked Hn Hb) as H.
  unfold rv_class_ok in H. rewrite He in H.
  rewrite forallb_forall in H. specialize (H ops Hin). apply andb_prop in H. destruct H as [H1 H2].
  split; [exact H1|]. unfold agrees_with in H2.
  destruct (encode_instr d ops) as [bytes| | |]; try discriminate. exists bytes. split; [reflexivity|].
  destruct (RV32Decode.decode bytes) as [[m l]|]; [|discriminate].
  apply andb_prop in H2. destruct H2 as [Hm Hl]. apply String.eqb_eq in Hm. subst m.
  f_equal. f_equal. apply list_eqb_eq. exact Hl.
Qed.

(* ... and every exported disagreement is a real one: in-range operands on which the reference decoder reads
   something else than ppci prints *)
Theorem rv_reference_refuted :
  forall n ops, In (n, ops) rvref_bad_riscv ->
  in_range (desc_at table_riscv n) ops = true /\ rv_agrees (desc_at table_riscv n) ops = false.
Proof.
  assert (H : forallb (fun p => in_range (desc_at table_riscv (fst p)) (snd p) &&
                                negb (rv_agrees (desc_at table_riscv (fst p)) (snd p))) rvref_bad_riscv = true)
    by (vm_compute; reflexivity).
  intros n ops Hin. rewrite forallb_forall in H. specialize (H (n, ops) Hin). cbn in H.
  apply andb_prop in H. destruct H as [H1 H2]. split; [exact H1|]. now destruct (rv_agrees _ _).
Qed.

(* which classes are covered by the reference theorem *)
Definition rv_covered : list string :=
  map mnemonic (filter (fun d => match rv_expectation d with Some _ => true | None => false end) table_riscv).
