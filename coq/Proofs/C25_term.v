(* Proofs/C25_term.v — termination of the two set fixpoints (models of calculate_post_dominators and
   calculate_reach) within n*n+2 sweeps: the sets are canonical sublists of 0..n-1, every changing
   sweep strictly shrinks (post dominators) / grows (reach) the total size, which lies in 0..n*n. *)
From PV Require Import Lib.Py.
From PV Require Import Spec.CfgSpec Model.DomRef Model.DomTree.
From PV Require Import Proofs.C25_ref Proofs.C25_pdom Proofs.C25_reach.
Close Scope Z_scope.
Open Scope nat_scope.

Definition canon (n : nat) (l : list nat) : Prop := l = filter (fun d => mem d l) (seq 0 n).

Lemma canon_filter n p : canon n (filter p (seq 0 n)).
Proof.
  unfold canon. apply filter_ext_in. intros d Hd.
  destruct (p d) eqn:Ep.
  - symmetry. apply mem_In. apply filter_In. auto.
  - symmetry. apply mem_false. rewrite filter_In. intros [_ H]. congruence.
Qed.

Lemma canon_In n l d : canon n l -> In d l -> d < n.
Proof. intros Hc Hd. rewrite Hc in Hd. apply filter_In in Hd. destruct Hd as [Hd _]. apply in_seq in Hd. lia. Qed.

Lemma canon_len n l : canon n l -> length l <= n.
Proof.
  intros Hc. rewrite Hc. etransitivity; [apply filter_len_le|]. now rewrite seq_length.
Qed.

Lemma forallb_false_ex {A} (p : A -> bool) l : forallb p l = false -> exists x, In x l /\ p x = false.
Proof.
  induction l as [|a l IH]; simpl; [discriminate|]. intros H.
  destruct (p a) eqn:Ea.
  - destruct (IH H) as [x [Hx Hp]]. eauto.
  - eauto.
Qed.

Lemma canon_sub_lt n l1 l2 : canon n l1 -> canon n l2 ->
  (forall d, In d l1 -> In d l2) -> l1 <> l2 -> length l1 < length l2.
Proof.
  intros C1 C2 Hsub Hne.
  destruct (forallb (fun d => implb (mem d l2) (mem d l1)) (seq 0 n)) eqn:E.
  - exfalso. apply Hne. rewrite C1, C2. apply filter_ext_in. intros d Hd.
    rewrite forallb_forall in E. specialize (E d Hd).
    destruct (mem d l1) eqn:E1.
    + symmetry. apply mem_In. apply Hsub. now apply mem_In.
    + destruct (mem d l2); auto.
  - apply forallb_false_ex in E. destruct E as [d [Hd Hp]].
    rewrite C1, C2. apply filter_len_lt.
    + intros y Hy. apply mem_In. apply Hsub. now apply mem_In.
    + exists d. split; auto. destruct (mem d l2), (mem d l1); simpl in Hp; auto; discriminate.
Qed.

Lemma list_eqb_refl l : list_eqb l l = true.
Proof. induction l; simpl; auto. now rewrite Nat.eqb_refl. Qed.

Lemma list_eqb_false l1 l2 : list_eqb l1 l2 = false -> l1 <> l2.
Proof. intros H ->. rewrite list_eqb_refl in H. discriminate. Qed.

Definition tot (pd : list (list nat)) : nat := list_sum (map (@length nat) pd).

Lemma tot_set_nth v : forall pd i, i < length pd ->
  tot (set_nth i v pd) + length (nth i pd []) = tot pd + length v.
Proof.
  unfold tot. induction pd as [|a pd IH]; intros i Hi; simpl in Hi; [lia|].
  destruct i; simpl; [lia|]. specialize (IH i). simpl in IH. lia.
Qed.

Lemma tot_bound n : forall pd, (forall l, In l pd -> length l <= n) -> tot pd <= length pd * n.
Proof.
  unfold tot. induction pd as [|a pd IH]; intros H; simpl; auto.
  pose proof (H a (or_introl eq_refl)). specialize (IH (fun l Hl => H l (or_intror Hl))). lia.
Qed.

(* ================================================================= post dominators *)
Section PdomTerm.
Variable g : graph.
Let n := length g.

Definition pinv (pd : list (list nat)) : Prop :=
  length pd = n /\
  forall w, w < n -> succs g w <> [] ->
    canon n (nth w pd []) /\ forall d, In d (newset g pd w) -> In d (nth w pd []).

Lemma newset_In' pd node d : In d (newset g pd node) <->
  d < length g /\ (d = node \/ forall s, edge g node s -> In d (nth s pd [])).
Proof.
  unfold newset. rewrite filter_In, in_seq, orb_true_iff, Nat.eqb_eq, forallb_forall.
  split.
  - intros [[_ H1] [H2|H2]]; split; auto. right. intros s Hs.
    apply mem_In. apply H2. apply in_map_iff. exists s. split; auto. now apply succs_edge.
  - intros [H1 [H2|H2]]; split; auto; try (split; [apply Nat.le_0_l|exact H1]).
    right. intros l Hl.
    apply in_map_iff in Hl. destruct Hl as [s [<- Hs]]. apply mem_In. apply H2. now apply succs_edge.
Qed.

Lemma newset_mono pd pd' w d :
  (forall s e0, In e0 (nth s pd' []) -> In e0 (nth s pd []) ) ->
  In d (newset g pd' w) -> In d (newset g pd w).
Proof.
  intros Hle H. apply newset_In' in H. apply newset_In'. destruct H as [Hd [->|H]]; split; auto.
Qed.

Lemma psweep_step pd change node : node < n -> pinv pd ->
  let r := pdom_sweep g (pd, change) node in
  pinv (fst r) /\ tot (fst r) <= tot pd /\ (snd r = change \/ (snd r = true /\ tot (fst r) < tot pd)).
Proof.
  intros Hn [Hlen Hinv]. rewrite pdom_sweep_eq.
  destruct (succs g node) as [|s0 ss] eqn:Es;
    [simpl; split; [split; assumption|split; [lia|left; reflexivity]]|].
  destruct (list_eqb (newset g pd node) (nth node pd [])) eqn:El;
    [simpl; split; [split; assumption|split; [lia|left; reflexivity]]|].
  simpl.
  assert (Hs : succs g node <> []) by (rewrite Es; discriminate).
  destruct (Hinv node Hn Hs) as [Hc Hsub].
  assert (Hlt : length (newset g pd node) < length (nth node pd [])).
  { apply (canon_sub_lt n); auto. apply canon_filter. now apply list_eqb_false. }
  assert (Hle : forall s e0, In e0 (nth s (set_nth node (newset g pd node) pd) []) -> In e0 (nth s pd [])).
  { intros s e0. rewrite nth_set_nth by lia. destruct (s =? node) eqn:E; auto.
    apply Nat.eqb_eq in E. subst. auto. }
  pose proof (tot_set_nth (newset g pd node) pd node ltac:(lia)) as Ht.
  split; [|split; [lia|right; split; auto; lia]].
  split; [now rewrite set_nth_length|].
  intros w Hw Hsw. rewrite nth_set_nth by lia. destruct (w =? node) eqn:E.
  - apply Nat.eqb_eq in E. subst w. split; [apply canon_filter|].
    intros d Hd. eapply newset_mono; eauto.
  - destruct (Hinv w Hw Hsw) as [Hcw Hsubw]. split; auto.
    intros d Hd. apply Hsubw. eapply newset_mono; eauto.
Qed.

Lemma pfold_step : forall l pd c0, (forall u, In u l -> u < n) -> pinv pd ->
  let r := fold_left (pdom_sweep g) l (pd, c0) in
  pinv (fst r) /\ tot (fst r) <= tot pd /\ (snd r = true -> c0 = true \/ tot (fst r) < tot pd).
Proof.
  induction l as [|u l IH]; intros pd c0 Hl Hi; cbn [fold_left].
  - simpl. split; [assumption|split; [lia|intros ->; auto]].
  - destruct (psweep_step pd c0 u (Hl u (or_introl eq_refl)) Hi) as [I1 [T1 C1]].
    destruct (pdom_sweep g (pd, c0) u) as [pd1 c1] eqn:E. simpl in I1, T1, C1.
    destruct (IH pd1 c1 (fun v Hv => Hl v (or_intror Hv)) I1) as [I2 [T2 C2]].
    split; auto. split; [lia|]. intros Hr. specialize (C2 Hr).
    destruct C2 as [->|C2]; [|right; lia].
    destruct C1 as [C1|[_ C1]]; [left; auto|right; lia].
Qed.

Lemma pdom_loop_terminates : forall fuel pd, pinv pd -> tot pd < fuel ->
  exists res, pdom_loop fuel g pd = Ok res.
Proof.
  induction fuel; intros pd Hi Ht; [lia|]. cbn [pdom_loop].
  destruct (pfold_step (seq 0 (length g)) pd false) as [I1 [T1 C1]]; auto.
  { intros u Hu. apply in_seq in Hu. unfold n. lia. }
  destruct (fold_left (pdom_sweep g) (seq 0 (length g)) (pd, false)) as [pd' change].
  simpl in I1, T1, C1. destruct change.
  - apply IHfuel; auto. destruct (C1 eq_refl); [discriminate|lia].
  - eauto.
Qed.

Lemma filter_true {A} (l : list A) : filter (fun _ => true) l = l.
Proof. induction l; simpl; congruence. Qed.

Lemma canon_seq : canon n (seq 0 n).
Proof. pose proof (canon_filter n (fun _ => true)) as H. now rewrite filter_true in H. Qed.

Theorem post_dominators_terminates x : x < n -> succs g x = [] ->
  exists res, post_dominators (n * n + 2) g x = Ok res.
Proof.
  intros Hx Hsink. unfold post_dominators. apply pdom_loop_terminates.
  - split; [now rewrite map_length, seq_length|].
    intros w Hw Hs. fold n. rewrite nth_map_seq by auto.
    destruct (w =? x) eqn:E.
    + apply Nat.eqb_eq in E. subst w. congruence.
    + split; [apply canon_seq|].
      intros d Hd. apply newset_In' in Hd. apply in_seq. fold n in Hd. lia.
  - fold n.
    assert (tot (map (fun w => if w =? x then [w] else seq 0 n) (seq 0 n)) <= n * n); [|lia].
    etransitivity; [apply (tot_bound n)|].
    + intros l Hl. apply in_map_iff in Hl. destruct Hl as [w [<- _]].
      destruct (w =? x); simpl; [lia|now rewrite seq_length].
    + rewrite map_length, seq_length. lia.
Qed.
End PdomTerm.

(* ================================================================= reach *)
Section ReachTerm.
Variable g : graph.
Let n := length g.

Definition rinv2 (rs : list (list nat)) : Prop :=
  length rs = n /\ forall w, w < n -> canon n (nth w rs []).

Lemma rinv2_tot rs : rinv2 rs -> tot rs <= n * n.
Proof.
  intros [Hlen Hc]. rewrite <- Hlen at 1. apply tot_bound.
  intros l Hl. destruct (In_nth _ _ [] Hl) as [i [Hi <-]]. apply canon_len. apply Hc. lia.
Qed.

Lemma rsweep_step rs change node : node < n -> rinv2 rs ->
  let r := reach_sweep g (rs, change) node in
  rinv2 (fst r) /\ tot rs <= tot (fst r) /\ (snd r = change \/ (snd r = true /\ tot rs < tot (fst r))).
Proof.
  intros Hn [Hlen Hc]. rewrite reach_sweep_eq.
  destruct (list_eqb (rnew g rs node) (nth node rs [])) eqn:El;
    [simpl; split; [split; assumption|split; [lia|left; reflexivity]]|].
  simpl.
  assert (Hlt : length (nth node rs []) < length (rnew g rs node)).
  { apply (canon_sub_lt n); auto.
    - apply canon_filter.
    - intros d Hd. apply rnew_In. split; auto. eapply canon_In; eauto.
    - apply list_eqb_false in El. congruence. }
  pose proof (tot_set_nth (rnew g rs node) rs node ltac:(lia)) as Ht.
  split; [|split; [lia|right; split; auto; lia]].
  split; [now rewrite set_nth_length|].
  intros w Hw. rewrite nth_set_nth by lia. destruct (w =? node); auto. apply canon_filter.
Qed.

Lemma rfold_step : forall l rs c0, (forall u, In u l -> u < n) -> rinv2 rs ->
  let r := fold_left (reach_sweep g) l (rs, c0) in
  rinv2 (fst r) /\ tot rs <= tot (fst r) /\ (snd r = true -> c0 = true \/ tot rs < tot (fst r)).
Proof.
  induction l as [|u l IH]; intros rs c0 Hl Hi; cbn [fold_left].
  - simpl. split; [assumption|split; [lia|intros ->; auto]].
  - destruct (rsweep_step rs c0 u (Hl u (or_introl eq_refl)) Hi) as [I1 [T1 C1]].
    destruct (reach_sweep g (rs, c0) u) as [rs1 c1] eqn:E. simpl in I1, T1, C1.
    destruct (IH rs1 c1 (fun v Hv => Hl v (or_intror Hv)) I1) as [I2 [T2 C2]].
    split; auto. split; [lia|]. intros Hr. specialize (C2 Hr).
    destruct C2 as [->|C2]; [|right; lia].
    destruct C1 as [C1|[_ C1]]; [left; auto|right; lia].
Qed.

Lemma reach_loop_terminates : forall fuel rs, rinv2 rs -> n * n - tot rs < fuel ->
  exists res, reach_loop fuel g rs = Ok res.
Proof.
  induction fuel; intros rs Hi Ht; [lia|]. cbn [reach_loop].
  destruct (rfold_step (seq 0 (length g)) rs false) as [I1 [T1 C1]]; auto.
  { intros u Hu. apply in_seq in Hu. unfold n. lia. }
  destruct (fold_left (reach_sweep g) (seq 0 (length g)) (rs, false)) as [rs' change].
  simpl in I1, T1, C1. destruct change.
  - apply IHfuel; auto. pose proof (rinv2_tot _ I1).
    destruct (C1 eq_refl); [discriminate|lia].
  - eauto.
Qed.

Theorem calculate_reach_terminates : exists res, calculate_reach (n * n + 2) g = Ok res.
Proof.
  unfold calculate_reach. apply reach_loop_terminates; [|lia].
  split; [now rewrite map_length, seq_length|].
  intros w Hw. fold n. rewrite nth_map_seq by auto. apply canon_filter.
Qed.
End ReachTerm.

(* ================================================================= total correctness *)
Theorem post_dominators_total g x : x < length g -> succs g x = [] ->
  exists res, post_dominators (length g * length g + 2) g x = Ok res /\
    forall w d, w < length g ->
      (In d (nth w res []) <-> d < length g /\ postdominates g x d w).
Proof.
  intros Hx Hs. destruct (post_dominators_terminates g x Hx Hs) as [res Hr].
  exists res. split; auto. eapply post_dominators_correct; eauto.
Qed.

Theorem calculate_reach_total g :
  exists res, calculate_reach (length g * length g + 2) g = Ok res /\
    forall u d, u < length g -> (In d (nth u res []) <-> reachable_plus g u d).
Proof.
  destruct (calculate_reach_terminates g) as [res Hr].
  exists res. split; auto. eapply calculate_reach_correct; eauto.
Qed.
