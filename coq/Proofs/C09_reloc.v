(* Proofs/C09_reloc.v — relocations follow from the recognised (class variant, operands). *)
From PV Require Import Lib.Py Model.AsmSyntax Model.AsmReloc Proofs.C09_syntax.
From Coq Require Import String.
Open Scope Z_scope.

Theorem reloc_roundtrip : forall kwl kws regs stab extra nonwf amb (rtab : list (nat * list reloc_row)),
  table_facts kws regs stab extra nonwf amb ->
  forall i j ops ops' toks,
  (i < List.length stab)%nat -> (j < List.length (stab ++ extra))%nat ->
  in_pairs i amb = false ->
  ops_ok kws regs (s_rule (entry_at stab i)) ops = true ->
  render regs (s_syn (entry_at stab i)) ops = Some toks ->
  matches kwl kws regs (s_rule (entry_at (stab ++ extra) j)) toks = Some ops' ->
  relocs_of rtab j ops' = relocs_of rtab i ops.
Proof.
  intros kwl kws regs stab extra nonwf amb rtab TF i j ops ops' toks Hi Hj Ha Ho Hr Hm.
  destruct (table_roundtrip kwl kws regs stab extra nonwf amb TF i j ops ops' toks Hi Hj Ha Ho Hr Hm) as [E1 E2].
  subst. reflexivity.
Qed.
