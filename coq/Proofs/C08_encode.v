(* Proofs/C08_encode.v — C08: generic decodability of descriptor-based encodings.
   Main result [decodable_gen]: for a well-formed descriptor and in-range operands, encode_instr succeeds,
   decode_fields returns the operands and every fixed field reads back its constant. *)
From PV Require Import Lib.Py Lib.Tac Model.Encode.
From Coq Require Import String.
Open Scope Z_scope.


(* ---------- bits of one slice write ---------- *)
Lemma pow2_pos n : 0 <= n -> 0 < 2 ^ n.
Proof. intros. apply Z.pow_pos_nonneg; lia. Qed.

Lemma testbit_high v n i : 0 <= v < 2 ^ n -> n <= i -> Z.testbit v i = false.
Proof. intros. eapply testbit_small; eauto. Qed.

Lemma apply1_testbit size bv lo w v p :
  0 <= lo -> 0 < w -> lo + w <= size -> 0 <= v < 2 ^ w -> 0 <= p < size ->
  Z.testbit (apply1 size bv lo w v) p =
    if (lo <=? p) && (p <? lo + w) then Z.testbit v (p - lo) else Z.testbit bv p.
Proof.
  intros Hlo Hw Hsz Hv Hp. unfold apply1.
  rewrite Z.lor_spec, Z.land_spec, Z.lxor_spec.
  rewrite Z.ones_spec_low by lia.
  rewrite !Z.shiftl_spec by lia.
  rewrite testbit_ones_full by lia.
  destruct (Z.leb_spec lo p); destruct (Z.ltb_spec p (lo + w)); cbn [andb].
  - replace (0 <=? p - lo) with true by lia. replace (p - lo <? w) with true by lia.
    cbn. now rewrite andb_false_r.
  - replace (p - lo <? w) with false by lia. rewrite andb_false_r. cbn.
    rewrite andb_true_r. rewrite (testbit_high v w) by lia. now rewrite orb_false_r.
  - replace (0 <=? p - lo) with false by lia. cbn. rewrite andb_true_r.
    rewrite (Z.testbit_neg_r v) by lia. now rewrite orb_false_r.
  - lia.
Qed.

Lemma apply1_bound size bv lo w v :
  0 <= lo -> 0 < w -> lo + w <= size -> 0 <= v < 2 ^ w -> 0 <= bv < 2 ^ size ->
  0 <= apply1 size bv lo w v < 2 ^ size.
Proof.
  intros Hlo Hw Hsz Hv Hb.
  assert (Hnn : 0 <= apply1 size bv lo w v).
  { unfold apply1. apply Z.lor_nonneg. split.
    - apply Z.land_nonneg. left. lia.
    - apply Z.shiftl_nonneg. lia. }
  split; [exact Hnn|].
  apply bits_lt_pow2; [lia|exact Hnn|].
  intros i Hi. unfold apply1.
  rewrite Z.lor_spec, Z.land_spec, Z.shiftl_spec by lia.
  rewrite (testbit_high bv size) by lia.
  rewrite (testbit_high v w) by lia. reflexivity.
Qed.

(* ---------- evaluated writes ---------- *)
Definition e_ok (size : Z) (k : nat) (e : ewrite) : Prop :=
  e_tok e = k -> 0 <= e_lo e /\ 0 < e_width e /\ e_lo e + e_width e <= size /\ 0 <= e_val e < 2 ^ e_width e.

Definition e_disj (a b : ewrite) : Prop :=
  e_tok a <> e_tok b \/ e_lo a + e_width a <= e_lo b \/ e_lo b + e_width b <= e_lo a.

Fixpoint pw_disj (es : list ewrite) : Prop :=
  match es with [] => True | e :: r => Forall (e_disj e) r /\ pw_disj r end.

Lemma step_bound size k bv e :
  e_ok size k e -> 0 <= bv < 2 ^ size -> 0 <= step size k bv e < 2 ^ size.
Proof.
  intros He Hb. unfold step. destruct (Nat.eqb_spec (e_tok e) k) as [E|E]; [|exact Hb].
  destruct (He E) as (?&?&?&?). apply apply1_bound; auto.
Qed.

Lemma fold_bound size k es : forall bv,
  Forall (e_ok size k) es -> 0 <= bv < 2 ^ size ->
  0 <= fold_left (step size k) es bv < 2 ^ size.
Proof.
  induction es as [|e r IH]; intros bv Hf Hb; cbn [fold_left]; [exact Hb|].
  inversion Hf; subst. apply IH; auto. apply step_bound; auto.
Qed.

Definition covers (k : nat) (e : ewrite) (p : Z) : Prop :=
  e_tok e = k /\ e_lo e <= p < e_lo e + e_width e.

Lemma fold_keep size k es : forall bv p,
  Forall (e_ok size k) es -> 0 <= bv < 2 ^ size -> 0 <= p < size ->
  (forall e, In e es -> ~ covers k e p) ->
  Z.testbit (fold_left (step size k) es bv) p = Z.testbit bv p.
Proof.
  induction es as [|e r IH]; intros bv p Hf Hb Hp Hn; cbn [fold_left]; [reflexivity|].
  inversion Hf; subst.
  rewrite IH; auto.
  - unfold step. destruct (Nat.eqb_spec (e_tok e) k) as [E|E]; [|reflexivity].
    destruct (H1 E) as (?&?&?&?).
    rewrite apply1_testbit by auto.
    assert (Hc : ~ covers k e p) by (apply Hn; left; reflexivity).
    unfold covers in Hc.
    destruct (Z.leb_spec (e_lo e) p); destruct (Z.ltb_spec p (e_lo e + e_width e)); cbn [andb]; try reflexivity.
    exfalso. apply Hc. split; [exact E|lia].
  - apply step_bound; auto.
  - intros e' Hin. apply Hn. right; exact Hin.
Qed.

Lemma fold_hit size k es : forall bv e p,
  Forall (e_ok size k) es -> pw_disj es -> 0 <= bv < 2 ^ size ->
  In e es -> covers k e p ->
  Z.testbit (fold_left (step size k) es bv) p = Z.testbit (e_val e) (p - e_lo e).
Proof.
  induction es as [|e0 r IH]; intros bv e p Hf Hd Hb Hin Hc; [destruct Hin|].
  inversion Hf; subst. destruct Hd as [Hd0 Hdr]. cbn [fold_left].
  destruct Hin as [->|Hin].
  - destruct Hc as [E Hr]. destruct (H1 E) as (?&?&?&?).
    rewrite fold_keep; auto.
    + unfold step. rewrite (proj2 (Nat.eqb_eq _ _) E).
      rewrite apply1_testbit by (auto; lia).
      replace (e_lo e <=? p) with true by lia. replace (p <? e_lo e + e_width e) with true by lia.
      reflexivity.
    + apply step_bound; auto.
    + lia.
    + intros e' Hin' [E' Hr'].
      rewrite Forall_forall in Hd0. specialize (Hd0 e' Hin').
      destruct Hd0 as [Hne|[Hl|Hl]]; [congruence|lia|lia].
  - apply IH; auto. apply step_bound; auto.
Qed.

(* tokval *)
Lemma tokval_bound size k es : 0 <= size -> Forall (e_ok size k) es -> 0 <= tokval size k es < 2 ^ size.
Proof. intros Hs Hf. unfold tokval. apply fold_bound; auto. split; [lia|apply pow2_pos; lia]. Qed.

Lemma tokval_hit size k es e p :
  0 <= size -> Forall (e_ok size k) es -> pw_disj es -> In e es -> covers k e p ->
  Z.testbit (tokval size k es) p = Z.testbit (e_val e) (p - e_lo e).
Proof.
  intros Hs Hf Hd Hin Hc. unfold tokval. apply fold_hit; auto.
  split; [lia|apply pow2_pos; lia].
Qed.

Lemma tokval_miss size k es p :
  0 <= size -> Forall (e_ok size k) es -> 0 <= p < size -> (forall e, In e es -> ~ covers k e p) ->
  Z.testbit (tokval size k es) p = false.
Proof.
  intros Hs Hf Hp Hn. unfold tokval. rewrite fold_keep; auto. apply Z.bits_0.
  split; [lia|apply pow2_pos; lia].
Qed.

(* ---------- operand ranges ---------- *)
Definition t_range (o : operand) (t : Z) : Prop :=
  match o_kind o with
  | KImm true => - 2 ^ (o_width o - 1) <= t < 2 ^ (o_width o - 1) /\ 1 <= o_width o
  | _ => 0 <= t < 2 ^ o_width o
  end.

Lemma op_range d i o v :
  operand_ok d i o = true -> op_in_range o v = true ->
  0 < o_div o /\ 0 <= o_width o /\
  (o_kind o = KLabel -> v = 0 /\ o_width o = 0) /\
  (o_kind o <> KLabel -> v mod o_div o = 0 /\ t_range o (opval o v)).
Proof.
  unfold operand_ok, op_in_range, t_range. intros Hok Hin.
  apply andb_prop in Hok. destruct Hok as [Hok Hk].
  apply andb_prop in Hok. destruct Hok as [Hok _].
  apply andb_prop in Hok. destruct Hok as [Hd Hw].
  split; [lia|]. split; [lia|].
  destruct (o_kind o) as [nums|sg|].
  - split; [discriminate|]. intros _.
    apply existsb_exists in Hin. destruct Hin as (x & Hx & E). apply Z.eqb_eq in E. subst x.
    rewrite forallb_forall in Hk. specialize (Hk v Hx). lia.
  - split; [discriminate|]. intros _. destruct sg; cbn in Hk; lia.
  - split; [|congruence]. intros _. lia.
Qed.

Lemma in_range_nth os : forall ops i o,
  in_range_l os ops = true -> nth_error os i = Some o ->
  exists v, nth_error ops i = Some v /\ op_in_range o v = true.
Proof.
  induction os as [|o0 r IH]; intros ops i o Hr Hn; [destruct i; discriminate|].
  destruct ops as [|v0 vr]; [discriminate|]. cbn in Hr. apply andb_prop in Hr. destruct Hr as [H0 Hr].
  destruct i as [|i]; cbn in *.
  - inversion Hn; subst. eauto.
  - eapply IH; eauto.
Qed.

Lemma in_range_length os : forall ops, in_range_l os ops = true -> List.length ops = List.length os.
Proof.
  induction os as [|o r IH]; intros [|v vr] H; try discriminate; [reflexivity|].
  cbn in H. apply andb_prop in H. destruct H. cbn. f_equal. auto.
Qed.

Lemma operands_ok_nth d os : forall n i o,
  operands_ok_from d n os = true -> nth_error os i = Some o -> operand_ok d (n + i) o = true.
Proof.
  induction os as [|o0 r IH]; intros n i o Hok Hn; [destruct i; discriminate|].
  cbn in Hok. apply andb_prop in Hok. destruct Hok as [H0 Hr].
  destruct i as [|i]; cbn in Hn.
  - inversion Hn; subst. now rewrite Nat.add_0_r.
  - replace (n + S i)%nat with (S n + i)%nat by lia. eapply IH; eauto.
Qed.

(* ---------- the value a variable write stores ---------- *)
Definition stored (t sh w : Z) : Z := (Z.shiftr t sh) mod 2 ^ w.

Lemma stored_bits t sh w j : 0 <= sh -> 0 <= j < w -> Z.testbit (stored t sh w) j = Z.testbit t (sh + j).
Proof.
  intros Hs Hj. unfold stored. rewrite Z.mod_pow2_bits_low by lia.
  rewrite Z.shiftr_spec by lia. f_equal. lia.
Qed.

Lemma stored_range t sh w : 0 < w -> 0 <= stored t sh w < 2 ^ w.
Proof. intros. unfold stored. apply Z.mod_pos_bound. apply pow2_pos. lia. Qed.

Lemma norm_masked t sh w : 0 < w ->
  norm_value w (Z.land (Z.shiftr t sh) (Z.ones w)) = Ok (stored t sh w).
Proof.
  intros Hw. rewrite Z.land_ones by lia. fold (stored t sh w).
  pose proof (stored_range t sh w Hw) as R. unfold norm_value.
  replace (2 ^ w <=? stored t sh w) with false by lia.
  replace (stored t sh w <? 0) with false by lia.
  replace ((0 <=? stored t sh w) && (stored t sh w <? 2 ^ w)) with true by lia. reflexivity.
Qed.

Lemma shiftr_range t sh w W :
  0 <= sh -> 0 < w -> W <= sh + w -> - 2 ^ W <= t < 2 ^ W -> - 2 ^ w <= Z.shiftr t sh < 2 ^ w.
Proof.
  intros Hs Hw HW Ht. rewrite Z.shiftr_div_pow2 by lia.
  assert (P1 : 0 < 2 ^ sh) by (apply pow2_pos; lia).
  assert (P2 : 0 < 2 ^ w) by (apply pow2_pos; lia).
  assert (Hle : 2 ^ W <= 2 ^ sh * 2 ^ w).
  { rewrite <- Z.pow_add_r by lia.
    destruct (Z.le_gt_cases 0 W).
    - apply Z.pow_le_mono_r; lia.
    - rewrite (Z.pow_neg_r 2 W) by lia. apply Z.lt_le_incl, pow2_pos. lia. }
  split.
  - apply Z.div_le_lower_bound; lia.
  - apply Z.div_lt_upper_bound; lia.
Qed.

Lemma norm_unmasked x w : 0 < w -> - 2 ^ w <= x < 2 ^ w -> norm_value w x = Ok (x mod 2 ^ w).
Proof.
  intros Hw Hx. assert (P : 0 < 2 ^ w) by (apply pow2_pos; lia). unfold norm_value.
  replace (2 ^ w <=? x) with false by lia.
  destruct (Z.ltb_spec x 0).
  - replace ((0 <=? 2 ^ w + x) && (2 ^ w + x <? 2 ^ w)) with true by lia.
    f_equal. apply Z.mod_unique with (q := -1); lia.
  - replace ((0 <=? x) && (x <? 2 ^ w)) with true by lia. f_equal.
    symmetry. apply Z.mod_small. lia.
Qed.

Lemma t_range_wide o t : 0 <= o_width o -> t_range o t -> - 2 ^ o_width o <= t < 2 ^ o_width o.
Proof.
  unfold t_range. intros Hw H.
  assert (P : 0 < 2 ^ o_width o) by (apply pow2_pos; lia).
  destruct (o_kind o) as [|[|]|]; try lia.
  destruct H as [H H1].
  assert (2 ^ o_width o = 2 * 2 ^ (o_width o - 1)).
  { replace (o_width o) with (1 + (o_width o - 1)) at 1 by lia. rewrite Z.pow_add_r by lia. reflexivity. }
  lia.
Qed.

(* ---------- relation between the writes and their evaluation ---------- *)
Definition ew_rel (d : instr_desc) (ops : list Z) (w : write) (e : ewrite) : Prop :=
  e_tok e = w_tok w /\ e_lo e = w_lo w /\ e_width e = w_width w /\
  0 <= e_val e < 2 ^ w_width w /\
  match w_src w with
  | SConst c => e_val e = c
  | SOp i sh m => exists v o, nth_error ops i = Some v /\ nth_error (d_ops d) i = Some o /\
                              0 <= sh /\ e_val e = stored (opval o v) sh (w_width w)
  end.

Lemma eval_writes_ok d ops :
  operands_ok_from d 0 (d_ops d) = true -> in_range d ops = true ->
  forall ws, forallb (write_ok d) ws = true ->
  exists es, eval_writes d ops ws = Ok es /\ Forall2 (ew_rel d ops) ws es.
Proof.
  intros Hops Hr. induction ws as [|w r IH]; intros Hw; [exists []; split; [reflexivity|constructor]|].
  cbn in Hw. apply andb_prop in Hw. destruct Hw as [Hw Hrest].
  destruct (IH Hrest) as (es & Hes & Hrel). clear IH.
  unfold write_ok in Hw. destruct (nth_error (d_tokens d) (w_tok w)) as [t|] eqn:Et; [|discriminate].
  apply andb_prop in Hw. destruct Hw as [Hw Hsrc].
  cbn [eval_writes]. unfold src_value.
  destruct (w_src w) as [c|i sh m] eqn:Es.
  - cbn [bind]. unfold norm_value.
    replace (2 ^ w_width w <=? c) with false by lia.
    replace (c <? 0) with false by lia.
    replace ((0 <=? c) && (c <? 2 ^ w_width w)) with true by lia.
    cbn [bind]. rewrite Hes. cbn [bind]. eexists; split; [reflexivity|].
    constructor; [|exact Hrel]. unfold ew_rel. cbn. rewrite Es. repeat split; lia.
  - destruct (nth_error (d_ops d) i) as [o|] eqn:Eo; [|discriminate].
    destruct (in_range_nth _ _ _ _ Hr Eo) as (v & Ev & Hin).
    pose proof (operands_ok_nth d _ 0%nat i o Hops Eo) as Hok. cbn in Hok.
    destruct (op_range d i o v Hok Hin) as (Hdiv & Hwd & Hlab & Hnl).
    rewrite Ev. cbn [bind].
    assert (Hww : 0 < w_width w) by lia.
    assert (Hsh : 0 <= sh) by lia.
    assert (Hn : norm_value (w_width w)
               (if m then Z.land (Z.shiftr (opval o v) sh) (Z.ones (w_width w)) else Z.shiftr (opval o v) sh)
             = Ok (stored (opval o v) sh (w_width w))).
    { destruct m.
      - apply norm_masked; lia.
      - unfold stored. apply norm_unmasked; [lia|].
        apply shiftr_range with (W := o_width o); try lia.
        destruct (o_kind o) eqn:Ek.
        + apply t_range_wide; [lia|]. apply Hnl. congruence.
        + apply t_range_wide; [lia|]. apply Hnl. congruence.
        + exfalso. rewrite andb_false_r in Hsrc. discriminate. }
    rewrite Hn. cbn [bind]. rewrite Hes. cbn [bind]. eexists; split; [reflexivity|].
    constructor; [|exact Hrel]. unfold ew_rel. cbn. rewrite Es.
    pose proof (stored_range (opval o v) sh (w_width w) Hww).
    repeat split; try lia. exists v, o. repeat split; auto.
Qed.

(* ---------- pack / unpack ---------- *)
Lemma le_value_le_bytes n : forall v, le_value (le_bytes n v) = v mod 2 ^ (8 * Z.of_nat n).
Proof.
  induction n as [|n IH]; intros v.
  - cbn. now rewrite Z.mod_1_r.
  - cbn [le_bytes le_value]. rewrite IH.
    replace (8 * Z.of_nat (S n)) with (8 + 8 * Z.of_nat n) by lia.
    rewrite Z.pow_add_r by lia. change (2 ^ 8) with 256.
    rewrite Z.rem_mul_r by (try lia; apply pow2_pos; lia).
    change 255 with (Z.ones 8). rewrite Z.land_ones by lia. change (2 ^ 8) with 256.
    rewrite Z.shiftr_div_pow2 by lia. change (2 ^ 8) with 256. reflexivity.
Qed.

Lemma le_bytes_length n : forall v, List.length (le_bytes n v) = n.
Proof. induction n; intros; cbn; auto. Qed.

Lemma pack_length t v : List.length (pack t v) = Z.to_nat (t_size t / 8).
Proof. unfold pack. destruct (t_big t); [rewrite rev_length|]; apply le_bytes_length. Qed.

Lemma unpack_pack t v : tok_ok t = true -> 0 <= v < 2 ^ t_size t -> unpack t (pack t v) = v.
Proof.
  unfold tok_ok. intros Ht Hv. unfold unpack, pack.
  assert (E : le_value (le_bytes (Z.to_nat (t_size t / 8)) v) = v).
  { rewrite le_value_le_bytes. rewrite Z2Nat.id by lia.
    replace (8 * (t_size t / 8)) with (t_size t) by lia. apply Z.mod_small. lia. }
  destruct (t_big t); [rewrite rev_involutive|]; exact E.
Qed.

Lemma firstn_app_exact {A} (a b : list A) : firstn (List.length a) (a ++ b) = a.
Proof. induction a; cbn; [now destruct b|now f_equal]. Qed.
Lemma skipn_app_exact {A} (a b : list A) : skipn (List.length a) (a ++ b) = b.
Proof. induction a; cbn; auto. Qed.

Lemma unpack_pack_all ts : forall vs,
  Forall2 (fun t v => tok_ok t = true /\ 0 <= v < 2 ^ t_size t) ts vs ->
  unpack_all ts (pack_all ts vs) = Ok vs.
Proof.
  induction ts as [|t tr IH]; intros vs H; inversion H; subst; [reflexivity|].
  cbn [pack_all unpack_all]. destruct H2 as [Ht Hv].
  rewrite app_length, pack_length.
  replace (Nat.ltb _ _) with false by (symmetry; apply Nat.ltb_ge; lia).
  rewrite <- (pack_length t y) at 1. rewrite skipn_app_exact.
  rewrite IH by assumption. cbn [bind].
  rewrite <- (pack_length t y). rewrite firstn_app_exact.
  now rewrite unpack_pack.
Qed.

(* ---------- token values ---------- *)
Lemma tokvals_nth ts es : forall n k t,
  nth_error ts k = Some t -> nth k (tokvals_from n ts es) 0 = tokval (t_size t) (n + k) es.
Proof.
  induction ts as [|t0 tr IH]; intros n k t H; [destruct k; discriminate|].
  destruct k as [|k]; cbn in *.
  - inversion H; subst. now rewrite Nat.add_0_r.
  - rewrite (IH (S n) k t H). f_equal. lia.
Qed.

Lemma tokvals_forall2 ts es (P : tokdesc -> Z -> Prop) : forall n,
  (forall k t, nth_error ts k = Some t -> P t (tokval (t_size t) (n + k) es)) ->
  Forall2 P ts (tokvals_from n ts es).
Proof.
  induction ts as [|t0 tr IH]; intros n H; cbn; constructor.
  - specialize (H 0%nat t0 eq_refl). now rewrite Nat.add_0_r in H.
  - apply IH. intros k t Hk. specialize (H (S k) t Hk). now replace (S n + k)%nat with (n + S k)%nat by lia.
Qed.

(* ---------- from descriptor facts to evaluated-write facts ---------- *)
Lemma rel_e_ok d ops ws es size k t :
  Forall2 (ew_rel d ops) ws es -> forallb (write_ok d) ws = true ->
  nth_error (d_tokens d) k = Some t -> size = t_size t ->
  Forall (e_ok size k) es.
Proof.
  intros Hrel. induction Hrel as [|w e ws es Hwe Hrel IH]; intros Hw Hk Hs; constructor.
  - cbn in Hw. apply andb_prop in Hw. destruct Hw as [Hw _].
    destruct Hwe as (Et & El & Ew & Hv & _). intros E. unfold write_ok in Hw.
    rewrite <- Et, E, Hk in Hw. rewrite El, Ew. subst size. lia.
  - cbn in Hw. apply andb_prop in Hw. destruct Hw. apply IH; auto.
Qed.

Lemma rel_disj d ops w e ws es :
  ew_rel d ops w e -> Forall2 (ew_rel d ops) ws es -> forallb (disjoint_w w) ws = true ->
  Forall (e_disj e) es.
Proof.
  intros (Et & El & Ew & _) Hrel. induction Hrel as [|w' e' ws es Hwe Hrel IH]; intros H; constructor.
  - cbn in H. apply andb_prop in H. destruct H as [H _]. destruct Hwe as (Et' & El' & Ew' & _).
    unfold disjoint_w in H. unfold e_disj. rewrite Et, Et', El, El', Ew, Ew'.
    destruct (Nat.eqb_spec (w_tok w) (w_tok w')); [right; lia|left; assumption].
  - cbn in H. apply andb_prop in H. destruct H. apply IH; auto.
Qed.

Lemma rel_pw d ops ws es :
  Forall2 (ew_rel d ops) ws es -> pairwise_disjoint ws = true -> pw_disj es.
Proof.
  intros Hrel. induction Hrel as [|w e ws es Hwe Hrel IH]; intros H; cbn; [exact I|].
  cbn in H. apply andb_prop in H. destruct H as [H1 H2]. split; [|auto].
  eapply rel_disj; eauto.
Qed.

Lemma forall2_in_l {A B} (R : A -> B -> Prop) l1 l2 a :
  Forall2 R l1 l2 -> In a l1 -> exists b, In b l2 /\ R a b.
Proof.
  intros H. induction H as [|x y l1 l2 Hxy H IH]; intros Hin; [destruct Hin|].
  destruct Hin as [->|Hin]; [exists y; split; [left; reflexivity|assumption]|].
  destruct (IH Hin) as (b & Hb & Rb). exists b; split; [right; assumption|assumption].
Qed.

(* find_bit returns a write of the list *)
Lemma find_bit_some ws i k tok p :
  find_bit ws i k = Some (tok, p) ->
  exists w sh m, In w ws /\ w_src w = SOp i sh m /\ sh <= k < sh + w_width w /\
                 tok = w_tok w /\ p = w_lo w + (k - sh).
Proof.
  induction ws as [|w r IH]; cbn; [discriminate|].
  destruct (w_src w) as [c|j sh m] eqn:Es.
  - intros H. destruct (IH H) as (w' & sh' & m' & Hin & R). exists w', sh', m'. split; [right; exact Hin|exact R].
  - destruct (Nat.eqb_spec j i) as [->|Hne]; cbn [andb].
    + destruct (Z.leb_spec sh k) as [L1|L1]; destruct (Z.ltb_spec k (sh + w_width w)) as [L2|L2]; cbn [andb]; intros H;
        try (destruct (IH H) as (w' & sh' & m' & Hin & R); exists w', sh', m'; split; [right; exact Hin|exact R]).
      inversion H; subst. exists w, sh, m. repeat split; auto; try lia.
    + intros H. destruct (IH H) as (w' & sh' & m' & Hin & R). exists w', sh', m'. split; [right; exact Hin|exact R].
Qed.

(* ---------- reading bits back ---------- *)
Lemma bits_sum (b : Z -> bool) t : forall n,
  (forall k, 0 <= k < Z.of_nat n -> b k = Z.testbit t k) ->
  (fix rb (n : nat) : Z := match n with O => 0 | S n' => rb n' + (if b (Z.of_nat n') then 2 ^ Z.of_nat n' else 0) end) n
  = t mod 2 ^ Z.of_nat n.
Proof.
  induction n as [|n IH]; intros H.
  - cbn. now rewrite Z.mod_1_r.
  - rewrite IH by (intros; apply H; lia). rewrite H by lia.
    replace (Z.of_nat (S n)) with (Z.of_nat n + 1) by lia.
    rewrite Z.pow_add_r by lia. change (2 ^ 1) with 2.
    rewrite Z.rem_mul_r by (try lia; apply Z.pow_nonzero; lia).
    rewrite <- Z.testbit_spec' by lia.
    destruct (Z.testbit t (Z.of_nat n)); cbn [Z.b2z]; lia.
Qed.

Lemma read_bits_eq d tv i t : forall n,
  (forall k, 0 <= k < Z.of_nat n -> read_bit d tv i k = Z.testbit t k) ->
  read_bits d tv i n = t mod 2 ^ Z.of_nat n.
Proof.
  intros n H. rewrite <- (bits_sum (read_bit d tv i) t n H).
  induction n as [|n IH]; [reflexivity|].
  cbn [read_bits]. rewrite IH by (intros; apply H; lia). reflexivity.
Qed.

Lemma all_below_spec n p : all_below n p = true -> forall k, 0 <= k < Z.of_nat n -> p k = true.
Proof.
  induction n as [|n IH]; intros H k Hk; [lia|].
  cbn in H. apply andb_prop in H. destruct H as [H1 H2].
  destruct (Z.eq_dec k (Z.of_nat n)) as [->|]; [assumption|]. apply IH; auto. lia.
Qed.

Section Main.
Variable d : instr_desc.
Variable ops : list Z.
Hypothesis Htok : forallb tok_ok (d_tokens d) = true.
Hypothesis Hw : forallb (write_ok d) (d_writes d) = true.
Hypothesis Hdisj : pairwise_disjoint (d_writes d) = true.
Hypothesis Hops : operands_ok_from d 0 (d_ops d) = true.
Hypothesis Hr : in_range d ops = true.
Variable es : list ewrite.
Hypothesis Hrel : Forall2 (ew_rel d ops) (d_writes d) es.

Let tv := tokvals_from 0 (d_tokens d) es.

Lemma tok_facts k t : nth_error (d_tokens d) k = Some t ->
  tok_ok t = true /\ 0 <= t_size t /\ Forall (e_ok (t_size t) k) es /\ nth k tv 0 = tokval (t_size t) k es.
Proof.
  intros Hk. assert (Hok : tok_ok t = true).
  { rewrite forallb_forall in Htok. apply Htok. eapply nth_error_In; eauto. }
  split; [exact Hok|]. unfold tok_ok in Hok. split; [lia|]. split.
  - eapply rel_e_ok; eauto.
  - unfold tv. rewrite (tokvals_nth _ _ 0%nat k t Hk). reflexivity.
Qed.

Lemma tv_bounds : Forall2 (fun t v => tok_ok t = true /\ 0 <= v < 2 ^ t_size t) (d_tokens d) tv.
Proof.
  unfold tv. apply tokvals_forall2. intros k t Hk. cbn.
  destruct (tok_facts k t Hk) as (Hok & Hs & Hf & _). split; [exact Hok|].
  apply tokval_bound; auto.
Qed.

(* bit p of token (w_tok w) inside the range of write w is the bit of the stored value *)
Lemma write_bit w e j : In w (d_writes d) -> In e es -> ew_rel d ops w e -> 0 <= j < w_width w ->
  Z.testbit (nth (w_tok w) tv 0) (w_lo w + j) = Z.testbit (e_val e) j.
Proof.
  intros Hin Hine He Hj.
  assert (Hwo : write_ok d w = true) by (rewrite forallb_forall in Hw; auto).
  unfold write_ok in Hwo. destruct (nth_error (d_tokens d) (w_tok w)) as [t|] eqn:Et; [|discriminate].
  destruct (tok_facts _ _ Et) as (Hok & Hs & Hf & ->).
  destruct He as (E1 & E2 & E3 & _).
  rewrite (tokval_hit (t_size t) (w_tok w) es e (w_lo w + j)); auto.
  - f_equal. lia.
  - eapply rel_pw; eauto.
  - unfold covers. rewrite E1, E2, E3. split; [reflexivity|lia].
Qed.

Lemma decode_op_correct i o v :
  nth_error (d_ops d) i = Some o -> nth_error ops i = Some v -> decode_op d tv i o = v.
Proof.
  intros Eo Ev.
  destruct (in_range_nth _ _ _ _ Hr Eo) as (v' & Ev' & Hin). rewrite Ev in Ev'. inversion Ev'; subst v'. clear Ev'.
  pose proof (operands_ok_nth d _ 0%nat i o Hops Eo) as Hok. cbn in Hok.
  destruct (op_range d i o v Hok Hin) as (Hdiv & Hwd & Hlab & Hnl).
  unfold decode_op.
  destruct (o_kind o) as [nums|sg|] eqn:Ek; [| |destruct (Hlab eq_refl); lia].
  all: destruct Hnl as [Hmod Hrange]; [congruence|].
  all: assert (Hrb : read_bits d tv i (Z.to_nat (o_width o)) = opval o v mod 2 ^ o_width o).
  1,3: rewrite (read_bits_eq d tv i (opval o v)); [now rewrite Z2Nat.id by lia|];
    rewrite Z2Nat.id by lia; intros k Hk;
    unfold operand_ok in Hok; apply andb_prop in Hok; destruct Hok as [Hok _];
    apply andb_prop in Hok; destruct Hok as [_ Hcov];
    pose proof (all_below_spec _ _ Hcov k) as Hc; rewrite Z2Nat.id in Hc by lia; specialize (Hc Hk);
    unfold read_bit; destruct (find_bit (d_writes d) i k) as [[tok p]|] eqn:Ef; [|discriminate];
    destruct (find_bit_some _ _ _ _ _ Ef) as (w & sh & m & Hinw & Es & Hks & -> & ->);
    destruct (forall2_in_l _ _ _ _ Hrel Hinw) as (e & Hine & He);
    rewrite (write_bit w e (k - sh) Hinw Hine He) by lia;
    destruct He as (_ & _ & _ & _ & Hsrc); rewrite Es in Hsrc;
    destruct Hsrc as (v2 & o2 & Ev2 & Eo2 & Hsh & ->);
    rewrite Ev in Ev2; rewrite Eo in Eo2; inversion Ev2; inversion Eo2; subst v2 o2;
    rewrite stored_bits by lia; f_equal; lia.
  - (* register *)
    rewrite Hrb. unfold t_range in Hrange. rewrite Ek in Hrange.
    rewrite Z.mod_small by lia. unfold opval.
    replace (v / o_div o - o_sub o + o_sub o) with (v / o_div o) by lia.
    rewrite Z.mul_comm. symmetry. apply Z_div_exact_full_2; lia.
  - (* immediate *)
    rewrite Hrb. unfold t_range in Hrange. rewrite Ek in Hrange.
    set (t := opval o v) in *. set (W := o_width o) in *.
    assert (Ht : (if sg && (2 ^ (W - 1) <=? t mod 2 ^ W) then t mod 2 ^ W - 2 ^ W else t mod 2 ^ W) = t).
    { destruct sg; cbn [andb].
      - destruct Hrange as [Hrange HW].
        assert (P : 0 < 2 ^ (W - 1)) by (apply pow2_pos; lia).
        assert (E2 : 2 ^ W = 2 * 2 ^ (W - 1)).
        { replace W with (1 + (W - 1)) at 1 by lia. rewrite Z.pow_add_r by lia. reflexivity. }
        destruct (Z.lt_ge_cases t 0).
        + assert (Em : t mod 2 ^ W = t + 2 ^ W) by (symmetry; apply Z.mod_unique with (q := -1); lia).
          rewrite Em. replace (2 ^ (W - 1) <=? t + 2 ^ W) with true by lia. lia.
        + rewrite Z.mod_small by lia. replace (2 ^ (W - 1) <=? t) with false by lia. reflexivity.
      - rewrite Z.mod_small by lia. reflexivity. }
    rewrite Ht. unfold t, opval.
    replace (v / o_div o - o_sub o + o_sub o) with (v / o_div o) by lia.
    rewrite Z.mul_comm. symmetry. apply Z_div_exact_full_2; lia.
Qed.

Lemma decode_ops_correct : forall os n vs,
  (forall i o, nth_error os i = Some o -> nth_error (d_ops d) (n + i) = Some o) ->
  (forall i, nth_error vs i = nth_error ops (n + i)) ->
  List.length vs = List.length os ->
  decode_ops_from d tv n os = vs.
Proof.
  induction os as [|o r IH]; intros n vs Ho Hv Hl; destruct vs as [|v vr]; try discriminate; [reflexivity|].
  cbn [decode_ops_from]. f_equal.
  - apply decode_op_correct.
    + specialize (Ho 0%nat o eq_refl). now rewrite Nat.add_0_r in Ho.
    + specialize (Hv 0%nat). cbn in Hv. now rewrite Nat.add_0_r in Hv.
  - apply IH.
    + intros i o' Hi. specialize (Ho (S i) o' Hi). now replace (S n + i)%nat with (n + S i)%nat by lia.
    + intros i. specialize (Hv (S i)). cbn in Hv. now replace (S n + i)%nat with (n + S i)%nat by lia.
    + cbn in Hl. lia.
Qed.

Lemma extract_bits x lo w j : 0 <= lo -> 0 <= w -> 0 <= j ->
  Z.testbit (extract x lo w) j = Z.testbit x (lo + j) && (j <? w).
Proof.
  intros Hlo Hw0 Hj. unfold extract. rewrite Z.shiftr_spec by lia. rewrite Z.land_spec.
  rewrite Z.shiftl_spec by lia. rewrite testbit_ones_full by lia.
  replace (j + lo - lo) with j by lia. replace (j + lo) with (lo + j) by lia.
  replace (0 <=? j) with true by lia. reflexivity.
Qed.

Lemma fixed_fields_ok :
  forallb (fun w => match w_src w with
                    | SConst c => extract (nth (w_tok w) tv 0) (w_lo w) (w_width w) =? c
                    | SOp _ _ _ => true
                    end) (d_writes d) = true.
Proof.
  apply forallb_forall. intros w Hin. destruct (w_src w) as [c|] eqn:Es; [|reflexivity].
  apply Z.eqb_eq.
  assert (Hwo : write_ok d w = true) by (rewrite forallb_forall in Hw; auto).
  unfold write_ok in Hwo. destruct (nth_error (d_tokens d) (w_tok w)) as [t|] eqn:Et; [|discriminate].
  rewrite Es in Hwo.
  destruct (forall2_in_l _ _ _ _ Hrel Hin) as (e & Hine & He).
  pose proof He as He'. destruct He' as (_ & _ & _ & _ & Hsrc). rewrite Es in Hsrc.
  apply Z.bits_inj'. intros j Hj. rewrite extract_bits by lia.
  destruct (Z.ltb_spec j (w_width w)).
  - rewrite andb_true_r. rewrite (write_bit w e j Hin Hine He) by lia. now rewrite Hsrc.
  - rewrite andb_false_r. symmetry. apply testbit_high with (n := w_width w); lia.
Qed.

End Main.

Theorem decodable_gen d ops :
  wf_desc d = true -> in_range d ops = true ->
  exists bytes, encode_instr d ops = Ok bytes /\ decode_fields d bytes = Ok ops /\ fixed_ok d bytes = true.
Proof.
  intros Hwf Hr. unfold wf_desc in Hwf.
  apply andb_prop in Hwf. destruct Hwf as [Hwf Hops].
  apply andb_prop in Hwf. destruct Hwf as [Hwf Hdisj].
  apply andb_prop in Hwf. destruct Hwf as [Htok Hw].
  destruct (eval_writes_ok d ops Hops Hr (d_writes d) Hw) as (es & Hes & Hrel).
  exists (pack_all (d_tokens d) (tokvals_from 0 (d_tokens d) es)).
  assert (Hup : unpack_all (d_tokens d) (pack_all (d_tokens d) (tokvals_from 0 (d_tokens d) es))
                = Ok (tokvals_from 0 (d_tokens d) es)).
  { apply unpack_pack_all. apply (tv_bounds d ops Htok Hw es Hrel). }
  split; [|split].
  - unfold encode_instr, encode_tokens. rewrite Hes. reflexivity.
  - unfold decode_fields. rewrite Hup. cbn [bind]. f_equal.
    apply (decode_ops_correct d ops Htok Hw Hdisj Hops Hr es Hrel (d_ops d) 0%nat ops).
    + intros i o Hi. exact Hi.
    + intros i. reflexivity.
    + apply in_range_length. exact Hr.
  - unfold fixed_ok. rewrite Hup.
    apply (fixed_fields_ok d ops Htok Hw Hdisj es Hrel).
Qed.

(* ---------- sum form of a token value ---------- *)
Fixpoint esum (k : nat) (es : list ewrite) : Z :=
  match es with
  | [] => 0
  | e :: r => (if Nat.eqb (e_tok e) k then e_val e * 2 ^ e_lo e else 0) + esum k r
  end.

Lemma apply1_add size bv lo w v :
  0 <= lo -> 0 < w -> lo + w <= size -> 0 <= v < 2 ^ w -> 0 <= bv < 2 ^ size ->
  (forall p, lo <= p < lo + w -> Z.testbit bv p = false) ->
  apply1 size bv lo w v = bv + v * 2 ^ lo.
Proof.
  intros Hlo Hw Hsz Hv Hb Hz.
  rewrite <- Z.shiftl_mul_pow2 by lia.
  assert (E0 : Z.land bv (Z.shiftl v lo) = 0).
  { apply Z.bits_inj'. intros p Hp. rewrite Z.land_spec, Z.bits_0, Z.shiftl_spec by lia.
    destruct (Z.lt_ge_cases p lo); [rewrite (Z.testbit_neg_r v) by lia; apply andb_false_r|].
    destruct (Z.lt_ge_cases p (lo + w)); [rewrite Hz by lia; reflexivity|].
    rewrite (testbit_high v w) by lia. apply andb_false_r. }
  rewrite Z.add_nocarry_lxor by exact E0. rewrite Z.lxor_lor by exact E0.
  apply Z.bits_inj'. intros p Hp.
  destruct (Z.lt_ge_cases p size).
  - rewrite apply1_testbit by lia. rewrite Z.lor_spec, Z.shiftl_spec by lia.
    destruct (Z.leb_spec lo p); destruct (Z.ltb_spec p (lo + w)); cbn [andb].
    + rewrite Hz by lia. reflexivity.
    + rewrite (testbit_high v w) by lia. now rewrite orb_false_r.
    + rewrite (Z.testbit_neg_r v) by lia. now rewrite orb_false_r.
    + lia.
  - pose proof (apply1_bound size bv lo w v Hlo Hw Hsz Hv Hb).
    rewrite (testbit_high _ size) by lia.
    rewrite Z.lor_spec, Z.shiftl_spec by lia.
    rewrite (testbit_high bv size) by lia. rewrite (testbit_high v w) by lia. reflexivity.
Qed.

Lemma fold_sum size k es : forall bv,
  Forall (e_ok size k) es -> pw_disj es -> 0 <= bv < 2 ^ size ->
  (forall e p, In e es -> covers k e p -> Z.testbit bv p = false) ->
  fold_left (step size k) es bv = bv + esum k es.
Proof.
  induction es as [|e r IH]; intros bv Hf Hd Hb Hz; cbn [fold_left esum]; [lia|].
  inversion Hf; subst. destruct Hd as [Hd0 Hdr].
  rewrite IH; auto.
  - unfold step. destruct (Nat.eqb_spec (e_tok e) k) as [E|E]; [|lia].
    destruct (H1 E) as (?&?&?&?).
    rewrite apply1_add; auto; [lia|].
    intros p Hp. apply (Hz e p); [left; reflexivity|split; [exact E|lia]].
  - apply step_bound; auto.
  - intros e' p Hin Hc. unfold step. destruct (Nat.eqb_spec (e_tok e) k) as [E|E].
    + destruct (H1 E) as (?&?&?&?). destruct Hc as [E' Hr'].
      rewrite Forall_forall in H2. pose proof (H2 e' Hin E') as (?&?&?&?).
      rewrite apply1_testbit by lia.
      rewrite Forall_forall in Hd0. specialize (Hd0 e' Hin).
      destruct Hd0 as [Hne|[Hl|Hl]]; [congruence| |].
      * replace (p <? e_lo e + e_width e) with false by lia. rewrite andb_false_r.
        apply (Hz e' p); [right; exact Hin|split; [exact E'|lia]].
      * replace (e_lo e <=? p) with false by lia. cbn [andb].
        apply (Hz e' p); [right; exact Hin|split; [exact E'|lia]].
    + apply (Hz e' p); [right; exact Hin|exact Hc].
Qed.

Lemma tokval_sum size k es :
  0 <= size -> Forall (e_ok size k) es -> pw_disj es -> tokval size k es = esum k es.
Proof.
  intros Hs Hf Hd. unfold tokval. rewrite fold_sum; auto.
  - split; [lia|apply pow2_pos; lia].
  - intros. apply Z.bits_0.
Qed.

(* the same sum computed from the descriptor *)
Fixpoint wsum (d : instr_desc) (ops : list Z) (k : nat) (ws : list write) : Z :=
  match ws with
  | [] => 0
  | w :: r =>
      (if Nat.eqb (w_tok w) k then
         match w_src w with
         | SConst c => c
         | SOp i sh _ => match nth_error ops i, nth_error (d_ops d) i with
                         | Some v, Some o => (Z.shiftr (opval o v) sh) mod 2 ^ w_width w
                         | _, _ => 0
                         end
         end * 2 ^ w_lo w
       else 0) + wsum d ops k r
  end.

Lemma esum_wsum d ops k ws es : Forall2 (ew_rel d ops) ws es -> esum k es = wsum d ops k ws.
Proof.
  intros H. induction H as [|w e ws es Hwe H IH]; [reflexivity|].
  cbn [esum wsum]. rewrite IH. f_equal.
  destruct Hwe as (Et & El & Ew & _ & Hsrc). rewrite Et, El.
  destruct (Nat.eqb (w_tok w) k); [|reflexivity]. f_equal.
  destruct (w_src w) as [c|i sh m]; [exact Hsrc|].
  destruct Hsrc as (v & o & -> & -> & _ & ->). reflexivity.
Qed.

(* single-token instructions: the emitted bytes are the little/big-endian bytes of the sum *)
Theorem encode_single_sum d ops t :
  wf_desc d = true -> in_range d ops = true -> d_tokens d = [t] ->
  encode_instr d ops = Ok (pack t (wsum d ops 0 (d_writes d))) /\
  0 <= wsum d ops 0 (d_writes d) < 2 ^ t_size t.
Proof.
  intros Hwf Hr Ht. pose proof Hwf as Hwf0. unfold wf_desc in Hwf.
  apply andb_prop in Hwf. destruct Hwf as [Hwf Hops].
  apply andb_prop in Hwf. destruct Hwf as [Hwf Hdisj].
  apply andb_prop in Hwf. destruct Hwf as [Htok Hw].
  destruct (eval_writes_ok d ops Hops Hr (d_writes d) Hw) as (es & Hes & Hrel).
  assert (Hk : nth_error (d_tokens d) 0 = Some t) by (rewrite Ht; reflexivity).
  destruct (tok_facts d ops Htok Hw es Hrel 0%nat t Hk) as (Hok & Hs & Hf & _).
  assert (Hsum : tokval (t_size t) 0 es = wsum d ops 0 (d_writes d)).
  { rewrite tokval_sum; auto. - eapply esum_wsum; eauto. - eapply rel_pw; eauto. }
  split.
  - unfold encode_instr, encode_tokens. rewrite Hes. cbn [bind]. rewrite Ht. cbn.
    rewrite Hsum. now rewrite app_nil_r.
  - rewrite <- Hsum. apply tokval_bound; auto.
Qed.

(* ---------- overlap enumeration: membership specification ---------- *)
Lemma pairs_with_spec i a : forall r j p q,
  In (p, q) (pairs_with i a j r) <->
  p = i /\ exists n e, q = (j + n)%nat /\ nth_error r n = Some e /\ fst e = false /\ compat_sig a (snd e) = true.
Proof.
  induction r as [|[dj b] r IH]; intros j p q; cbn [pairs_with].
  - split; [intros []|]. intros (_ & n & e & _ & H & _). destruct n; discriminate.
  - rewrite in_app_iff, IH. split.
    + intros [H|H].
      * destruct dj; cbn in H; [destruct H|]. destruct (compat_sig a b) eqn:Ec; cbn in H; [|destruct H].
        destruct H as [H|[]]. inversion H; subst. split; [reflexivity|].
        exists 0%nat, (false, b). rewrite Nat.add_0_r. repeat split; auto.
      * destruct H as (-> & n & e & -> & Hn & Hd & Hc). split; [reflexivity|].
        exists (S n), e. repeat split; auto. lia.
    + intros (-> & n & e & -> & Hn & Hd & Hc). destruct n as [|n]; cbn in Hn.
      * inversion Hn; subst e. cbn in Hd, Hc. subst dj. rewrite Hc. left. cbn. left. now rewrite Nat.add_0_r.
      * right. split; [reflexivity|]. exists n, e. repeat split; auto. lia.
Qed.

Lemma overlap_pairs_from_spec : forall l i p q,
  In (p, q) (overlap_pairs_from i l) <->
  exists m n a b, p = (i + m)%nat /\ q = (i + m + S n)%nat /\
    nth_error l m = Some (false, a) /\ nth_error l (m + S n) = Some (false, b) /\ compat_sig a b = true.
Proof.
  induction l as [|[di a] r IH]; intros i p q; cbn [overlap_pairs_from].
  - split; [intros []|]. intros (m & n & a & b & _ & _ & H & _). destruct m; discriminate.
  - rewrite in_app_iff, IH. split.
    + intros [H|H].
      * destruct di; [destruct H|]. apply pairs_with_spec in H.
        destruct H as (-> & n & e & -> & Hn & Hd & Hc). destruct e as [de b]. cbn in Hd, Hc. subst de.
        exists 0%nat, n, a, b. rewrite Nat.add_0_r. repeat split; auto. lia.
      * destruct H as (m & n & a' & b & -> & -> & H1 & H2 & Hc).
        exists (S m), n, a', b. repeat split; auto; lia.
    + intros (m & n & a' & b & -> & -> & H1 & H2 & Hc). destruct m as [|m]; cbn in H1, H2.
      * inversion H1; subst di a'. left. apply pairs_with_spec. split; [lia|].
        exists n, (false, b). repeat split; auto. lia.
      * right. exists m, n, a', b. repeat split; auto; lia.
Qed.

(* two table entries (i < j) are listed exactly when neither is a data directive and no fixed bit
   of their common prefix tells them apart *)
Theorem overlap_pairs_spec l i j :
  In (i, j) (overlap_pairs l) <->
  (i < j)%nat /\ exists d1 d2, nth_error l i = Some d1 /\ nth_error l j = Some d2 /\
     is_data d1 = false /\ is_data d2 = false /\ compatible d1 d2 = true.
Proof.
  unfold overlap_pairs. rewrite overlap_pairs_from_spec. split.
  - intros (m & n & a & b & -> & -> & H1 & H2 & Hc). cbn. split; [lia|].
    rewrite nth_error_map in H1, H2.
    destruct (nth_error l m) as [d1|] eqn:E1; [|discriminate].
    destruct (nth_error l (m + S n)) as [d2|] eqn:E2; [|discriminate].
    cbn in H1, H2. assert (D1 : is_data d1 = false) by congruence. assert (D2 : is_data d2 = false) by congruence. exists d1, d2. assert (a = fixed_sig d1) by congruence. assert (b = fixed_sig d2) by congruence. subst a b. repeat split; auto.
  - intros (Hlt & d1 & d2 & E1 & E2 & D1 & D2 & Hc).
    exists i, (j - i - 1)%nat, (fixed_sig d1), (fixed_sig d2). cbn.
    replace (i + S (j - i - 1))%nat with j by lia.
    rewrite !nth_error_map, E1, E2. cbn. rewrite D1, D2. repeat split; auto.
Qed.
