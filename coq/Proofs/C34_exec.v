(* Proofs/C34_exec.v — a task that raises stops the run: what has and has not run (C34, wave 5). *)
From PV Require Import Lib.Py Spec.BuildSpec Model.Tasks Model.TasksExec Proofs.C34_tasks.
From Coq Require Import Lia.
Open Scope Z_scope.

Lemma run_tasks_spec n : forall ts i e f, run_tasks n ts i = (e, f) ->
  (forall m j, In (m, j) e -> m = n) /\
  (f = true -> In true ts) /\
  (f = false -> ~ In true ts /\
     forall j, i <= j < i + Z.of_nat (length ts) -> In (n, j) e).
Proof.
  induction ts as [|b r IH]; intros i e f H; cbn [run_tasks] in H.
  - inversion H; subst. repeat split; try discriminate; cbn; intros; try contradiction; try lia.
  - destruct b.
    + inversion H; subst. repeat split; try discriminate.
      * intros m j [E|[]]. inversion E; auto.
      * intros _. left; reflexivity.
    + destruct (run_tasks n r (i + 1)) as [e' f'] eqn:R. inversion H; subst.
      destruct (IH _ _ _ R) as (A & B & C). repeat split.
      * intros m j [E|Hin]; [inversion E; auto | eauto].
      * intros Hf. right. auto.
      * intros [E|Hin]; [discriminate | destruct (C H0) as [C1 _]; auto].
      * intros j Hj. destruct (C H0) as [_ C2].
        destruct (Z.eq_dec j i) as [->|Hne]; [left; reflexivity|].
        right. apply C2. cbn [length] in Hj. lia.
Qed.

(* the targets before the failing one completed; nothing else was started *)
Definition exec_post (tk : taskmap) (order : list name) (ev : list event) (fo : option name) : Prop :=
  exists pre,
    match fo with
    | Some f => (exists post, order = pre ++ f :: post) /\ In true (tasks_of tk f)
    | None => order = pre
    end /\
    (forall m j, In (m, j) ev -> In m pre \/ fo = Some m) /\
    (forall m, In m pre -> ~ In true (tasks_of tk m) /\
       forall j, 0 <= j < Z.of_nat (length (tasks_of tk m)) -> In (m, j) ev).

Lemma exec_spec tk : forall order ev fo, exec tk order = (ev, fo) -> exec_post tk order ev fo.
Proof.
  induction order as [|n r IH]; intros ev fo H; cbn [exec] in H.
  - inversion H; subst. exists []. repeat split; try reflexivity; intros; contradiction.
  - destruct (run_tasks n (tasks_of tk n) 0) as [e f] eqn:R.
    destruct (run_tasks_spec _ _ _ _ _ R) as (A & B & C).
    destruct f.
    + inversion H; subst. exists []. split; [|split].
      * split; [exists r; reflexivity | auto].
      * intros m j Hin. right. f_equal. symmetry. eauto.
      * intros m [].
    + destruct (exec tk r) as [e2 f2] eqn:X. inversion H; subst.
      destruct (IH _ _ eq_refl) as (pre & P1 & P2 & P3).
      destruct (C eq_refl) as [C1 C2].
      exists (n :: pre). split; [|split].
      * destruct fo as [f|].
        -- destruct P1 as [(post & ->) Hf]. split; [exists post; reflexivity | exact Hf].
        -- subst r. reflexivity.
      * intros m j Hin. apply in_app_or in Hin. destruct Hin as [Hin|Hin].
        -- left. left. symmetry. eauto.
        -- destruct (P2 _ _ Hin); [left; right; assumption | right; assumption].
      * intros m [<-|Hin].
        -- split; [exact C1|]. intros j Hj. apply in_or_app. left. apply C2. lia.
        -- destruct (P3 _ Hin) as [Q1 Q2]. split; [exact Q1|].
           intros j Hj. apply in_or_app. right. auto.
Qed.

Lemma run_exec_inv fuel g tk dflt req ev fo :
  run_exec_fuel fuel g tk dflt req = Ok (ev, fo) ->
  exists order, run_fuel fuel g dflt req = Ok order /\ exec tk order = (ev, fo).
Proof.
  unfold run_exec_fuel. destruct (run_fuel fuel g dflt req) as [o| | |] eqn:R; cbn; try discriminate.
  intros H. inversion H. exists o. auto.
Qed.

Lemma run_topo fuel g dflt req h : run_fuel fuel g dflt req = Ok h -> topo g h.
Proof. intros H. apply run_ok in H. destruct H as (ext & _ & T & _). exact T. Qed.

(* every transitive dependency of a target that was started ran completely and without failure *)
Lemma started_deps_done fuel g tk dflt req ev fo :
  run_exec_fuel fuel g tk dflt req = Ok (ev, fo) ->
  forall a i b, In (a, i) ev -> path g a b ->
    ~ In true (tasks_of tk b) /\
    forall j, 0 <= j < Z.of_nat (length (tasks_of tk b)) -> In (b, j) ev.
Proof.
  intros H a i b Hev P. apply run_exec_inv in H. destruct H as (order & R & X).
  pose proof (run_topo _ _ _ _ _ R) as T.
  destruct (exec_spec _ _ _ _ X) as (pre & P1 & P2 & P3).
  apply P3. destruct (P2 _ _ Hev) as [Hin|Hf].
  - apply in_split in Hin. destruct Hin as (p1 & p2 & ->).
    assert (E : exists t, order = p1 ++ a :: t).
    { destruct fo as [f|].
      - destruct P1 as [(post & ->) _]. exists (p2 ++ f :: post).
        rewrite <- app_assoc. reflexivity.
      - subst order. eauto. }
    destruct E as (t & E). apply in_or_app. left. eapply topo_path; eauto.
  - subst fo. destruct P1 as [(post & ->) _]. eapply topo_path; eauto.
Qed.

(* the failing target is reachable and really has a raising task; no (transitive) dependant of
   it has started any task *)
Lemma failure_blocks fuel g tk dflt req ev f :
  run_exec_fuel fuel g tk dflt req = Ok (ev, Some f) ->
  In true (tasks_of tk f) /\ reach g (effective dflt req) f /\
  forall a i, path g a f -> ~ In (a, i) ev.
Proof.
  intros H. pose proof H as H0. apply run_exec_inv in H. destruct H as (order & R & X).
  destruct (exec_spec _ _ _ _ X) as (pre & [(post & E) Hf] & _ & _).
  split; [exact Hf|]. split.
  - apply (ok_exact _ _ _ _ _ R). subst order. apply in_or_app. right. left. reflexivity.
  - intros a i P Hin.
    destruct (started_deps_done _ _ _ _ _ _ _ H0 a i f Hin P) as [N _]. contradiction.
Qed.

(* no failure: every task of every requested target and transitive dependency ran, and only those *)
Lemma no_failure_all_run fuel g tk dflt req ev :
  run_exec_fuel fuel g tk dflt req = Ok (ev, None) ->
  (forall n, reach g (effective dflt req) n ->
     ~ In true (tasks_of tk n) /\
     forall j, 0 <= j < Z.of_nat (length (tasks_of tk n)) -> In (n, j) ev) /\
  (forall n j, In (n, j) ev -> reach g (effective dflt req) n).
Proof.
  intros H. apply run_exec_inv in H. destruct H as (order & R & X).
  destruct (exec_spec _ _ _ _ X) as (pre & E & P2 & P3). cbn in E. subst pre.
  split.
  - intros n Hn. apply P3. apply (ok_exact _ _ _ _ _ R). exact Hn.
  - intros n j Hin. destruct (P2 _ _ Hin) as [Hi|Hd]; [|discriminate].
    apply (ok_exact _ _ _ _ _ R). exact Hi.
Qed.
