(* C29 — cover completeness for target x86_64: reflection of the closure check on the regenerated table *)
From Coq Require Import String List.
From PV Require Import Spec.BurgCoverSpec Spec.IRTrees Spec.C29Known Model.BurgCover Model.C29Synth Proofs.C29_cover Gen.Tab_burg_x86_64.
Import ListNotations.
Local Open Scope string_scope.

Lemma closure_x86_64 : closure_ok (usable assume_x86_64 rules_x86_64) (irtrees desc_x86_64 excl_x86_64) "S" "stm" = true.
Proof. vm_compute. reflexivity. Qed.

Theorem cover_complete_x86_64 : forall t,
  in_lang (irtrees desc_x86_64 excl_x86_64) "S" t -> covers (usable assume_x86_64 rules_x86_64) t "stm".
Proof. exact (closure_ok_complete _ _ _ _ closure_x86_64). Qed.

(* the synthesized rules (UND<ty>, CALL, ASM) produce registers of the class the target maps the type to *)
Lemma synth_classes_x86_64 : synth_bad desc_x86_64 clsnt_x86_64 synth_x86_64 = [] /\ synth_complete desc_x86_64 synth_x86_64 = true.
Proof. split; vm_compute; reflexivity. Qed.
