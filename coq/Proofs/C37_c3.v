(* Proofs/C37_c3.v -- lemmas for C37 (C3 front-end, expressions over int/byte/bool). *)
From PV Require Import Lib.Py Lib.Tac Lib.Val Spec.IRSyntax Spec.IRSem Spec.C3Spec Model.C3Lower.
From Coq Require Import String.
Open Scope Z_scope.

Definition wok (w : Z) : Prop := w = 16 \/ w = 32 \/ w = 64.

Lemma wrap_norm bits sg z : bits = 8 \/ bits = 16 \/ bits = 32 \/ bits = 64 ->
  wrap_bits bits sg z = norm bits sg z.
Proof.
  intros [-> | [-> | [-> | ->]]]; unfold wrap_bits, norm; destruct sg; cbn [andb];
    match goal with |- context [2 ^ ?a] => let v := eval vm_compute in (2 ^ a) in change (2 ^ a) with v end;
    repeat match goal with |- context [2 ^ ?a] => let v := eval vm_compute in (2 ^ a) in change (2 ^ a) with v end;
    try match goal with |- context [?a <=? ?b] => destruct (a <=? b) eqn:E end; lia.
Qed.

Lemma wok_bits w t : wok w -> bits_of w t = 8 \/ bits_of w t = 16 \/ bits_of w t = 32 \/ bits_of w t = 64.
Proof. intros [-> | [-> | ->]]; destruct t; cbn; auto. Qed.

Lemma ir_ty_shape w t ty : wok w -> ir_ty w t = Some ty ->
  int_shape c3cfg ty = Some (bits_of w t, signed_of t).
Proof. intros [-> | [-> | ->]] H; destruct t; cbn in H; inversion H; reflexivity. Qed.

Lemma ir_int_ok w : wok w -> exists it, ir_int w = Some it /\ ir_ty w CInt = Some it /\ ir_ty w CBool = Some it.
Proof. intros [-> | [-> | ->]]; eexists; repeat split; reflexivity. Qed.

Lemma wrap_ty_norm w t ty z : wok w -> ir_ty w t = Some ty ->
  wrap_ty c3cfg ty z = Some (normt w t z).
Proof.
  intros Hw H. unfold wrap_ty. rewrite (ir_ty_shape w t ty Hw H). unfold normt.
  now rewrite wrap_norm by (apply wok_bits; exact Hw).
Qed.

Lemma binop_exact w t ty o x y r : wok w -> ir_ty w t = Some ty ->
  arith (bits_of w t) (signed_of t) o x y = Some r ->
  eval_binop c3cfg ty (binop_of o) x y = ODone r.
Proof.
  intros Hw H A. unfold eval_binop. rewrite (ir_ty_shape w t ty Hw H). cbv zeta.
  pose proof (wok_bits w t Hw) as Hb. unfold arith in A.
  destruct o; cbn [binop_of]; cbv zeta in A.
  1-3, 8-10: (inversion A; subst; now rewrite wrap_norm).
  - destruct (y =? 0); [discriminate|].
    destruct (signed_of t && (x =? - 2 ^ (bits_of w t - 1)) && (y =? -1)); [discriminate|].
    inversion A; subst; now rewrite wrap_norm.
  - destruct (y =? 0); [discriminate|].
    destruct (signed_of t && (x =? - 2 ^ (bits_of w t - 1)) && (y =? -1)); [discriminate|].
    inversion A; subst; now rewrite wrap_norm.
  - destruct ((0 <=? y) && (y <? bits_of w t)); [|discriminate]. inversion A; subst; now rewrite wrap_norm.
  - destruct ((0 <=? y) && (y <? bits_of w t)); [|discriminate]. inversion A; subst; now rewrite wrap_norm.
Qed.

Lemma neg_exact w t ty x : wok w -> ir_ty w t = Some ty ->
  eval_unop c3cfg ty Neg x = ODone (normt w t (- x)).
Proof.
  intros Hw H. unfold eval_unop. rewrite (ir_ty_shape w t ty Hw H). unfold normt.
  now rewrite wrap_norm by (apply wok_bits; exact Hw).
Qed.

Lemma norm_in_range w t z : wok w -> numeric t = true -> in_range w t (normt w t z) = true.
Proof.
  intros [-> | [-> | ->]] Hn; destruct t; try discriminate; unfold normt, norm, in_range; cbn [bits_of signed_of];
    repeat match goal with |- context [2 ^ ?a] => let v := eval vm_compute in (2 ^ a) in change (2 ^ a) with v end;
    lia.
Qed.

Lemma norm_id w t z : wok w -> numeric t = true -> in_range w t z = true -> normt w t z = z.
Proof.
  intros [-> | [-> | ->]] Hn; destruct t; try discriminate; unfold normt, norm, in_range; cbn [bits_of signed_of];
    repeat match goal with |- context [2 ^ ?a] => let v := eval vm_compute in (2 ^ a) in change (2 ^ a) with v end;
    lia.
Qed.

Lemma byte_in_int w z : wok w -> in_range w CByte z = true -> in_range w CInt z = true.
Proof.
  intros [-> | [-> | ->]]; unfold in_range;
    repeat match goal with |- context [2 ^ ?a] => let v := eval vm_compute in (2 ^ a) in change (2 ^ a) with v end;
    lia.
Qed.

Lemma bool_in_int w z : wok w -> in_range w CBool z = true -> in_range w CInt z = true.
Proof.
  intros [-> | [-> | ->]]; unfold in_range;
    repeat match goal with |- context [2 ^ ?a] => let v := eval vm_compute in (2 ^ a) in change (2 ^ a) with v end;
    lia.
Qed.

Lemma common_model w a b ct : wok w -> get_common_type w a b = Some ct ->
  (numeric a = true -> numeric b = true -> common a b = Some ct) /\
  (common a b = None -> a = CBool /\ b = CBool /\ ct = CBool).
Proof.
  intros [-> | [-> | ->]]; destruct a, b; cbn; intros H; inversion H; subst; split; try tauto;
    try discriminate; auto.
Qed.

(* implicit conversion toward the common type keeps the value *)
Lemma coerce_widen w env ta tb ct va ca x : wok w ->
  common ta tb = Some ct \/ common tb ta = Some ct ->
  coerce_tree w ta ct va = Some ca -> eval_l env va = ODone x -> in_range w ta x = true ->
  eval_l env ca = ODone x /\ in_range w ct x = true.
Proof.
  intros Hw Hc Hco He Hr. destruct (ir_int_ok w Hw) as (it & Hit & Hti & _).
  assert (C : (ta = ct) \/ (ta = CByte /\ ct = CInt)).
  { destruct Hc as [Hc|Hc]; destruct ta, tb; cbn in Hc; inversion Hc; auto. }
  destruct C as [-> | (-> & ->)].
  - unfold coerce_tree, do_coerce in Hco. replace (cty_eqb ct ct) with true in Hco by (destruct ct; reflexivity).
    inversion Hco; subst. auto.
  - unfold coerce_tree, do_coerce in Hco. cbn [cty_eqb tclass_of bits_of] in Hco.
    destruct (8 <? w - 1) eqn:E; [|destruct Hw as [-> | [-> | ->]]; discriminate].
    rewrite Hti in Hco. inversion Hco; subst. cbn [eval_l]. rewrite He. cbn [obind].
    rewrite (wrap_ty_norm w CInt it x Hw Hti). cbn [of_opt].
    pose proof (byte_in_int w x Hw Hr) as Hi. rewrite (norm_id w CInt x Hw eq_refl Hi). auto.
Qed.

Lemma cmp_exact o x y : eval_cond (cond_of o) x y = C3Spec.compare o x y.
Proof. destruct o; cbn; try reflexivity. - apply Z.gtb_ltb. - apply Z.geb_leb. Qed.

Definition bool_code (env : list Z) (k : kbuilder) (x : Z) : Prop :=
  forall y n, eval_k env (k y n) = eval_k env (if x =? 1 then y else n).

Lemma k_of_value_ok w env it v x : wok w -> ir_int w = Some it -> eval_l env v = ODone x ->
  bool_code env (k_of_value it v) x.
Proof.
  intros Hw Hit He y n. unfold k_of_value. cbn [eval_k eval_l]. rewrite He. cbn [obind].
  assert (Hti : ir_ty w CInt = Some it) by exact Hit.
  rewrite (wrap_ty_norm w CInt it 1 Hw Hti). cbn [of_opt obind].
  rewrite (norm_id w CInt 1 Hw eq_refl) by (destruct Hw as [-> | [-> | ->]]; reflexivity).
  cbn [eval_cond]. destruct (x =? 1); reflexivity.
Qed.

Lemma bool01 w x : in_range w CBool x = true -> x = 0 \/ x = 1.
Proof. unfold in_range. lia. Qed.

Theorem lower_exact w env : wok w -> forall e t v k x,
  lower w e = Some (t, v, k) -> eval w env e = Some x ->
  typeof e = Some t /\ eval_l env v = ODone x /\ in_range w t x = true /\
  (t = CBool -> bool_code env k x).
Proof.
  intros Hw. destruct (ir_int_ok w Hw) as (it & Hit & Hti & Htb).
  induction e as [z | b | t0 n | o a IHa b IHb | a IHa | t0 a IHa | o a IHa b IHb
                  | a IHa b IHb | a IHa b IHb | a IHa]; intros t v k x Hl He;
    cbn [lower] in Hl; rewrite Hit in Hl.
  - (* literal *)
    inversion Hl; subst. cbn [eval] in He.
    destruct ((0 <=? z) && (z <? 2 ^ (w - 1))) eqn:E; [|discriminate]. inversion He; subst.
    assert (R : in_range w CInt x = true) by (unfold in_range; lia).
    repeat split; auto.
    + cbn [eval_l]. rewrite (wrap_ty_norm w CInt it x Hw Hti). cbn [of_opt].
      now rewrite (norm_id w CInt x Hw eq_refl R).
    + discriminate.
  - (* true / false *)
    inversion Hl; subst. cbn [eval] in He. inversion He; subst.
    repeat split; auto.
    + cbn [eval_l]. rewrite (wrap_ty_norm w CInt it _ Hw Hti). cbn [of_opt].
      destruct b; cbn [b2z]; rewrite (norm_id w CInt _ Hw eq_refl); auto;
        destruct Hw as [-> | [-> | ->]]; reflexivity.
    + destruct b; reflexivity.
    + intros _ y n. destruct b; reflexivity.
  - (* variable *)
    destruct (ir_ty w t0) as [vt|] eqn:Hvt; [|discriminate]. inversion Hl; subst.
    cbn [eval] in He. destruct (nth_error env n) as [z|] eqn:En; [|discriminate].
    destruct (in_range w t z) eqn:R; [|discriminate]. inversion He; subst.
    assert (EV : eval_l env (LVar vt n) = ODone x) by (cbn [eval_l]; now rewrite En).
    repeat split; auto. intros _. now apply (k_of_value_ok w env it _ x Hw Hit).
  - (* binary arithmetic *)
    destruct (lower w a) as [[[ta va] ka]|] eqn:La; [|discriminate].
    destruct (lower w b) as [[[tb vb] kb]|] eqn:Lb; [|discriminate].
    destruct (get_common_type w ta tb) as [ct|] eqn:Hct; [|discriminate].
    destruct (coerce_tree w ta ct va) as [ca|] eqn:Ca; [|discriminate].
    destruct (coerce_tree w tb ct vb) as [cb|] eqn:Cb; [|discriminate].
    destruct (ir_ty w ct) as [rt|] eqn:Hrt; [|discriminate]. inversion Hl; subst. clear Hl.
    cbn [eval] in He.
    destruct (typeof a) as [ta'|] eqn:Ta; [|discriminate].
    destruct (typeof b) as [tb'|] eqn:Tb; [|discriminate].
    destruct (common ta' tb') as [ct'|] eqn:Hc'; [|discriminate].
    destruct (eval w env a) as [xa|] eqn:Ea; [|discriminate].
    destruct (eval w env b) as [xb|] eqn:Eb; [|discriminate].
    destruct (IHa _ _ _ _ eq_refl eq_refl) as (Ta2 & Va & Ra & _).
    destruct (IHb _ _ _ _ eq_refl eq_refl) as (Tb2 & Vb & Rb & _).
    inversion Ta2; inversion Tb2; subst ta' tb'.
    assert (Na : numeric ta = true /\ numeric tb = true) by (destruct ta, tb; cbn in Hc'; try discriminate; auto).
    destruct Na as (Na & Nb).
    destruct (common_model w ta tb t Hw Hct) as (CM & _). specialize (CM Na Nb).
    rewrite CM in Hc'. inversion Hc'; subst ct'.
    destruct (coerce_widen w env ta tb t va ca xa Hw (or_introl CM) Ca Va Ra) as (Vca & Rca).
    destruct (coerce_widen w env tb ta t vb cb xb Hw (or_intror CM) Cb Vb Rb) as (Vcb & Rcb).
    assert (EV : eval_l env (LBin rt (binop_of o) ca cb) = ODone x).
    { cbn [eval_l]. rewrite Vca, Vcb. cbn [obind]. now apply (binop_exact w t rt o xa xb x Hw Hrt). }
    assert (Nt : numeric t = true) by (destruct ta, tb; cbn in CM; inversion CM; reflexivity).
    repeat split; auto.
    + cbn [typeof]. now rewrite Ta, Tb.
    + unfold arith in He. destruct o; cbv zeta in He;
        repeat match type of He with (if ?c then _ else _) = _ => destruct c; try discriminate end;
        inversion He; subst; apply (norm_in_range w t _ Hw Nt).
    + intros ->. discriminate.
  - (* unary minus *)
    destruct (lower w a) as [[[ta va] ka]|] eqn:La; [|discriminate].
    destruct (ir_ty w ta) as [rt|] eqn:Hrt; [|discriminate]. inversion Hl; subst. clear Hl.
    cbn [eval typeof] in He.
    destruct (typeof a) as [ta'|] eqn:Ta; [|discriminate].
    destruct (numeric ta') eqn:Nt; [|discriminate].
    destruct (eval w env a) as [xa|] eqn:Ea; [|discriminate]. inversion He; subst. clear He.
    destruct (IHa _ _ _ _ eq_refl eq_refl) as (Ta2 & Va & Ra & _). inversion Ta2; subst ta'.
    assert (EV : eval_l env (LNeg rt va) = ODone (normt w t (- xa))).
    { cbn [eval_l]. rewrite Va. cbn [obind]. now apply neg_exact. }
    repeat split; auto.
    + cbn [typeof]. now rewrite Ta, Nt.
    + now apply norm_in_range.
    + intros ->. discriminate.
  - (* cast *)
    destruct (lower w a) as [[[ta va] ka]|] eqn:La; [|discriminate].
    destruct (numeric ta && numeric t0) eqn:Nn; [|discriminate].
    destruct (ir_ty w t0) as [rt|] eqn:Hrt; [|discriminate]. inversion Hl; subst. clear Hl.
    cbn [eval typeof] in He.
    destruct (typeof a) as [ta'|] eqn:Ta; [|discriminate].
    destruct (numeric ta' && numeric t) eqn:Nt; [|discriminate].
    destruct (eval w env a) as [xa|] eqn:Ea; [|discriminate]. inversion He; subst. clear He.
    destruct (IHa _ _ _ _ eq_refl eq_refl) as (Ta2 & Va & Ra & _). inversion Ta2; subst ta'.
    assert (EV : eval_l env (LCast rt va) = ODone (normt w t xa)).
    { cbn [eval_l]. rewrite Va. cbn [obind]. now rewrite (wrap_ty_norm w t rt xa Hw Hrt). }
    repeat split; auto.
    + cbn [typeof]. now rewrite Ta, Nt.
    + apply norm_in_range; auto. now apply andb_true_iff in Nt.
    + intros ->. cbn in Nn. now rewrite andb_false_r in Nn.
  - (* comparison *)
    destruct (lower w a) as [[[ta va] ka]|] eqn:La; [|discriminate].
    destruct (lower w b) as [[[tb vb] kb]|] eqn:Lb; [|discriminate].
    destruct (get_common_type w ta tb) as [ct|] eqn:Hct; [|discriminate].
    destruct (coerce_tree w ta ct va) as [ca|] eqn:Ca; [|discriminate].
    destruct (coerce_tree w tb ct vb) as [cb|] eqn:Cb; [|discriminate]. inversion Hl; subst. clear Hl.
    cbn [eval typeof] in He.
    destruct (typeof a) as [ta'|] eqn:Ta; [|discriminate].
    destruct (typeof b) as [tb'|] eqn:Tb; [|discriminate].
    destruct (common ta' tb') as [ct'|] eqn:Hc'; [|discriminate].
    destruct (eval w env a) as [xa|] eqn:Ea; [|discriminate].
    destruct (eval w env b) as [xb|] eqn:Eb; [|discriminate]. inversion He; subst. clear He.
    destruct (IHa _ _ _ _ eq_refl eq_refl) as (Ta2 & Va & Ra & _).
    destruct (IHb _ _ _ _ eq_refl eq_refl) as (Tb2 & Vb & Rb & _).
    inversion Ta2; inversion Tb2; subst ta' tb'.
    assert (Na : numeric ta = true /\ numeric tb = true) by (destruct ta, tb; cbn in Hc'; try discriminate; auto).
    destruct Na as (Na & Nb).
    destruct (common_model w ta tb ct Hw Hct) as (CM & _). specialize (CM Na Nb).
    destruct (coerce_widen w env ta tb ct va ca xa Hw (or_introl CM) Ca Va Ra) as (Vca & Rca).
    destruct (coerce_widen w env tb ta ct vb cb xb Hw (or_intror CM) Cb Vb Rb) as (Vcb & Rcb).
    assert (BC : bool_code env (fun y n => KCJ (cond_of o) ca cb y n) (b2z (C3Spec.compare o xa xb))).
    { intros y n. cbn [eval_k]. rewrite Vca, Vcb. cbn [obind]. rewrite cmp_exact.
      destruct (C3Spec.compare o xa xb); reflexivity. }
    repeat split; auto.
    + cbn [typeof]. now rewrite Ta, Tb, Hc'.
    + cbn [eval_l]. rewrite (BC KYes KNo). destruct (C3Spec.compare o xa xb); reflexivity.
    + destruct (C3Spec.compare o xa xb); reflexivity.
  - (* and *)
    destruct (lower w a) as [[[ta va] ka]|] eqn:La; [|discriminate].
    destruct ta; try discriminate.
    destruct (lower w b) as [[[tb vb] kb]|] eqn:Lb; [|discriminate].
    destruct tb; try discriminate. inversion Hl; subst. clear Hl.
    cbn [eval typeof] in He.
    destruct (typeof a) as [[| |]|] eqn:Ta; try discriminate.
    destruct (typeof b) as [[| |]|] eqn:Tb; try discriminate.
    destruct (eval w env a) as [xa|] eqn:Ea; [|discriminate].
    destruct (IHa _ _ _ _ eq_refl eq_refl) as (_ & Va & Ra & Ka). specialize (Ka eq_refl).
    destruct (bool01 w xa Ra) as [-> | ->]; cbn [Z.eqb] in He.
    + inversion He; subst.
      assert (BC : bool_code env (fun y n => ka (kb y n) n) 0) by (intros y n; now rewrite Ka).
      split; [cbn [typeof]; now rewrite Ta, Tb|]. split; [|split; auto].
      cbn [eval_l]. pose proof (BC KYes KNo) as B. cbv beta in B. now rewrite B.
    + destruct (IHb _ _ _ _ eq_refl He) as (_ & Vb & Rb & Kb). specialize (Kb eq_refl).
      assert (BC : bool_code env (fun y n => ka (kb y n) n) x) by (intros y n; rewrite Ka; apply Kb).
      split; [cbn [typeof]; now rewrite Ta, Tb|]. split; [|split; auto].
      cbn [eval_l]. pose proof (BC KYes KNo) as B. cbv beta in B. rewrite B.
      destruct (bool01 w x Rb) as [-> | ->]; reflexivity.
  - (* or *)
    destruct (lower w a) as [[[ta va] ka]|] eqn:La; [|discriminate].
    destruct ta; try discriminate.
    destruct (lower w b) as [[[tb vb] kb]|] eqn:Lb; [|discriminate].
    destruct tb; try discriminate. inversion Hl; subst. clear Hl.
    cbn [eval typeof] in He.
    destruct (typeof a) as [[| |]|] eqn:Ta; try discriminate.
    destruct (typeof b) as [[| |]|] eqn:Tb; try discriminate.
    destruct (eval w env a) as [xa|] eqn:Ea; [|discriminate].
    destruct (IHa _ _ _ _ eq_refl eq_refl) as (_ & Va & Ra & Ka). specialize (Ka eq_refl).
    destruct (bool01 w xa Ra) as [-> | ->]; cbn [Z.eqb] in He.
    + destruct (IHb _ _ _ _ eq_refl He) as (_ & Vb & Rb & Kb). specialize (Kb eq_refl).
      assert (BC : bool_code env (fun y n => ka y (kb y n)) x) by (intros y n; rewrite Ka; apply Kb).
      split; [cbn [typeof]; now rewrite Ta, Tb|]. split; [|split; auto].
      cbn [eval_l]. pose proof (BC KYes KNo) as B. cbv beta in B. rewrite B.
      destruct (bool01 w x Rb) as [-> | ->]; reflexivity.
    + inversion He; subst.
      assert (BC : bool_code env (fun y n => ka y (kb y n)) 1) by (intros y n; now rewrite Ka).
      split; [cbn [typeof]; now rewrite Ta, Tb|]. split; [|split; auto].
      cbn [eval_l]. pose proof (BC KYes KNo) as B. cbv beta in B. now rewrite B.
  - (* not *)
    destruct (lower w a) as [[[ta va] ka]|] eqn:La; [|discriminate].
    destruct ta; try discriminate. inversion Hl; subst. clear Hl.
    cbn [eval typeof] in He.
    destruct (typeof a) as [[| |]|] eqn:Ta; try discriminate.
    destruct (eval w env a) as [xa|] eqn:Ea; [|discriminate]. inversion He; subst. clear He.
    destruct (IHa _ _ _ _ eq_refl eq_refl) as (_ & Va & Ra & Ka). specialize (Ka eq_refl).
    assert (BC : bool_code env (fun y n => ka n y) (1 - xa)).
    { intros y n. rewrite Ka. destruct (bool01 w xa Ra) as [-> | ->]; reflexivity. }
    split; [cbn [typeof]; now rewrite Ta|]. split; [|split; auto].
    + cbn [eval_l]. pose proof (BC KYes KNo) as B. cbv beta in B. rewrite B.
      destruct (bool01 w xa Ra) as [-> | ->]; reflexivity.
    + destruct (bool01 w xa Ra) as [-> | ->]; reflexivity.
Qed.

(* ------------------------------------------------------------------ corollaries *)
Lemma expr_exact w env e t v k x : wok w ->
  lower w e = Some (t, v, k) -> eval w env e = Some x ->
  typeof e = Some t /\ eval_l env v = ODone x.
Proof. intros Hw Hl He. destruct (lower_exact w env Hw e t v k x Hl He) as (A & B & _). auto. Qed.

Lemma cond_exact w env e v k x : wok w ->
  lower w e = Some (CBool, v, k) -> eval w env e = Some x ->
  eval_k env (k KYes KNo) = ODone (x =? 1).
Proof.
  intros Hw Hl He. destruct (lower_exact w env Hw e CBool v k x Hl He) as (_ & _ & _ & K).
  rewrite (K eq_refl KYes KNo). destruct (x =? 1); reflexivity.
Qed.

(* the operand that short-circuit evaluation skips has no influence: b may be anything the
   front-end accepts as bool, including an expression whose evaluation is undefined *)
Lemma and_short_circuit w env a b t v k : wok w ->
  lower w (EAnd a b) = Some (t, v, k) -> typeof b = Some CBool -> eval w env a = Some 0 ->
  eval_l env v = ODone 0 /\ eval_k env (k KYes KNo) = ODone false.
Proof.
  intros Hw Hl Tb Ea.
  assert (Ta : typeof a = Some CBool).
  { cbn [lower] in Hl. destruct (ir_int w); [|discriminate].
    destruct (lower w a) as [[[ta va] ka]|] eqn:La; [|discriminate].
    destruct ta; try discriminate.
    destruct (lower_exact w env Hw a CBool va ka 0 La Ea) as (T & _). exact T. }
  assert (He : eval w env (EAnd a b) = Some 0) by (cbn [eval typeof]; now rewrite Ta, Tb, Ea).
  destruct (lower_exact w env Hw _ t v k 0 Hl He) as (T & V & _ & K).
  split; [exact V|]. cbn [typeof] in T. rewrite Ta, Tb in T. inversion T; subst.
  now rewrite (K eq_refl KYes KNo).
Qed.

Lemma or_short_circuit w env a b t v k : wok w ->
  lower w (EOr a b) = Some (t, v, k) -> typeof b = Some CBool -> eval w env a = Some 1 ->
  eval_l env v = ODone 1 /\ eval_k env (k KYes KNo) = ODone true.
Proof.
  intros Hw Hl Tb Ea.
  assert (Ta : typeof a = Some CBool).
  { cbn [lower] in Hl. destruct (ir_int w); [|discriminate].
    destruct (lower w a) as [[[ta va] ka]|] eqn:La; [|discriminate].
    destruct ta; try discriminate.
    destruct (lower_exact w env Hw a CBool va ka 1 La Ea) as (T & _). exact T. }
  assert (He : eval w env (EOr a b) = Some 1) by (cbn [eval typeof]; now rewrite Ta, Tb, Ea).
  destruct (lower_exact w env Hw _ t v k 1 Hl He) as (T & V & _ & K).
  split; [exact V|]. cbn [typeof] in T. rewrite Ta, Tb in T. inversion T; subst.
  now rewrite (K eq_refl KYes KNo).
Qed.

(* implicit conversions (typechecker.do_coerce on int/byte/bool) *)
Lemma coerce_byte_to_int w env va x : wok w ->
  eval_l env va = ODone x -> in_range w CByte x = true ->
  exists ca, coerce_tree w CByte CInt va = Some ca /\ eval_l env ca = ODone x.
Proof.
  intros Hw He Hr. destruct (ir_int_ok w Hw) as (it & Hit & Hti & _).
  exists (LCast it va). split.
  - unfold coerce_tree, do_coerce. cbn [cty_eqb tclass_of bits_of]. rewrite Hti.
    destruct Hw as [-> | [-> | ->]]; reflexivity.
  - cbn [eval_l]. rewrite He. cbn [obind]. rewrite (wrap_ty_norm w CInt it x Hw Hti). cbn [of_opt].
    now rewrite (norm_id w CInt x Hw eq_refl (byte_in_int w x Hw Hr)).
Qed.

Lemma coerce_int_to_byte w env va x : wok w ->
  eval_l env va = ODone x ->
  coerce_tree w CInt CByte va = Some (LCast U8 va) /\ eval_l env (LCast U8 va) = ODone (x mod 256).
Proof.
  intros Hw He. split; [reflexivity|]. cbn [eval_l]. rewrite He. cbn [obind].
  rewrite (wrap_ty_norm w CByte U8 x Hw eq_refl). reflexivity.
Qed.

Lemma coerce_bool_none w t : t <> CBool -> do_coerce w CBool t = None /\ do_coerce w t CBool = None.
Proof. intros H. destruct t; try contradiction; split; reflexivity. Qed.
