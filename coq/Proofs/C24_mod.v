(* Proofs/C24_mod.v — module-level simulation: functions with calls (property C24). *)
From PV Require Import Lib.Py Lib.Tac Spec.IRSemArith Gen.ir2py_runtime Model.Ir2Py Proofs.C24_ir2py.
From PV Require Import Spec.IRSyntax Spec.IRSem Model.Ir2PyFunc Proofs.C24_func Model.Ir2PyMod.
From Coq Require Import String.
Open Scope Z_scope.

Definition ev_of (e : event) : string * list Z :=
  (fst e, map (fun v => match v with Vint z => z | _ => 0 end) (snd e)).
Definition tr_of (t : trace) : ptrace := map ev_of t.

Lemma ev_of_ints name zs : ev_of (name, map Vint zs) = (name, zs).
Proof. unfold ev_of. cbn. f_equal. rewrite map_map. induction zs; cbn; congruence. Qed.

Lemma in_range_0 it : 0 < bits it -> in_range it 0.
Proof. intros H. destruct (range_pos it H) as [P E]. unfold in_range, lo, hi. destruct (signed it); lia. Qed.

Lemma run_items_cons i r cur en :
  run_items (i :: r) cur en =
  (c <- run_items [i] cur en ;;
   match c with PNext c' e' => run_items r c' e' | PReturn v => Ok (PReturn v) end).
Proof.
  destruct i; cbn [run_items].
  - destruct (exec en ss); reflexivity.
  - reflexivity.
  - destruct (run_jump j en) as [[t e']| | |]; reflexivity.
  - destruct (get_int en a); cbn [bind]; [|reflexivity..].
    destruct (get_int en b); cbn [bind]; [|reflexivity..].
    destruct (run_jump _ en) as [[t e']| | |]; reflexivity.
  - destruct (getv en x); reflexivity.
Qed.

Definition mblocks := list (string * list mitem).
Definition MSuffix (r all : mblocks) : Prop := exists pre, all = pre ++ r.
Fixpoint msplit (cur : string) (rest : mblocks) : option (list mitem * mblocks) :=
  match rest with
  | [] => None
  | (name, items) :: r => if String.eqb cur name then Some (items, r) else msplit cur r
  end.
Lemma msplit_some cur rest items r' :
  msplit cur rest = Some (items, r') -> In (cur, items) rest /\ MSuffix r' rest.
Proof.
  induction rest as [|[name it] r IH]; cbn; [discriminate|].
  destruct (String.eqb_spec cur name) as [->|Hne].
  - intros [= -> ->]. split; [now left|]. exists [(name, items)]. reflexivity.
  - intros H. destruct (IH H) as [H1 [pre H2]]. split; [now right|].
    exists ((name, it) :: pre). cbn. now rewrite H2.
Qed.
Lemma msplit_in cur rest items :
  In (cur, items) rest -> exists items' r', msplit cur rest = Some (items', r').
Proof.
  induction rest as [|[name it] r IH]; cbn; [tauto|].
  destruct (String.eqb_spec cur name) as [->|Hne]; [eauto|].
  intros [[= -> ->]|H]; [congruence|auto].
Qed.
Lemma MSuffix_trans a b c : MSuffix a b -> MSuffix b c -> MSuffix a c.
Proof. intros [p1 ->] [p2 ->]. exists (p2 ++ p1). now rewrite app_assoc. Qed.
Lemma MSuffix_refl a : MSuffix a a.
Proof. now exists []. Qed.
Lemma MSuffix_In (a b : mblocks) x : MSuffix a b -> In x a -> In x b.
Proof. intros [p ->] H. apply in_or_app. now right. Qed.

Section Mod.
  Variable oracle : string -> list Z -> Z.
  Hypothesis Hor : forall n a, oracle n a = 0.      (* Spec.IRSem: an external function returns 0 *)
  Variable c : cfg.
  Variable m : modul.
  Variable ge : list (string * Z).
  Variable fs : list mfunc.
  Hypothesis Hfs : compile_modul m = Some fs.
  Hypothesis Hnm : forall f, In f (m_funcs m) -> names_okb f = true.
  Hypothesis Hfn : NoDup (map f_name (m_funcs m)).

  Notation RM k := (run_mod oracle fs k).

  Definition finish_m (call : string -> list pyval -> ptrace -> result (pyval * ptrace))
             (k : string -> pyenv -> ptrace -> result (pyval * ptrace)) (r : mblocks)
             (x : result (pctl * ptrace)) : result (pyval * ptrace) :=
    '(c', tr') <- x ;;
    match c' with PNext cur' en' => scan_m oracle call k r cur' en' tr' | PReturn v => Ok (v, tr') end.

  Lemma scan_m_split call k rest cur en tr :
    scan_m oracle call k rest cur en tr =
    match msplit cur rest with
    | Some (items, r') => finish_m call k r' (run_mitems oracle call items cur en tr)
    | None => k cur en tr
    end.
  Proof.
    induction rest as [|[name items] r IH]; cbn; [reflexivity|].
    destruct (String.eqb cur name); [reflexivity|apply IH].
  Qed.

  Lemma run_mitems_MI call items : forall rest cur pen cur' pen' tr,
    run_items items cur pen = Ok (PNext cur' pen') ->
    run_mitems oracle call (map MI items ++ rest) cur pen tr = run_mitems oracle call rest cur' pen' tr.
  Proof.
    induction items as [|i r IH]; intros rest cur pen cur' pen' tr H.
    - cbn in H. injection H as <- <-. reflexivity.
    - rewrite run_items_cons in H. cbn [map app run_mitems].
      destruct (run_items [i] cur pen) as [[c1 e1|v]| | |]; cbn [bind] in H |- *; try discriminate.
      now apply IH.
  Qed.

  (* ---------------------------------------------------------------- module plumbing *)
  Lemma cm_in : forall l gs, compile_mfuncs m l = Some gs -> forall f, In f l ->
    exists g, compile_mfunc m f = Some g /\ In g gs.
  Proof.
    induction l as [|a r IH]; intros gs H f Hf; [destruct Hf|]. cbn in H.
    destruct (compile_mfunc m a) as [g|] eqn:Ca; [|discriminate].
    destruct (compile_mfuncs m r) as [gs'|] eqn:Cr; [|discriminate]. injection H as <-.
    destruct Hf as [<-|Hf]; [exists g; split; [assumption|now left]|].
    destruct (IH gs' eq_refl f Hf) as [g' [H1 H2]]. exists g'. split; [assumption|now right].
  Qed.
  Lemma mf_fields f g : compile_mfunc m f = Some g ->
    mf_name g = f_name f /\ mf_params g = map fst (f_params f) /\
    exists k0 ks, f_blocks f = k0 :: ks /\ mf_entry g = b_name k0 /\
                  compile_mblocks m f (f_blocks f) = Some (mf_blocks g).
  Proof.
    unfold compile_mfunc. destruct (f_blocks f) as [|k0 ks] eqn:Fb; [discriminate|].
    destruct (compile_mblocks m f (k0 :: ks)) as [bs|] eqn:Cb; [|discriminate].
    destruct (params_int f); [|discriminate]. intros [= <-]. cbn. eauto 8.
  Qed.
  Lemma cm_find : forall l gs, NoDup (map f_name l) -> compile_mfuncs m l = Some gs ->
    forall f g, In f l -> compile_mfunc m f = Some g -> find_mfunc (f_name f) gs = Some g.
  Proof.
    induction l as [|a r IH]; intros gs ND H f g Hf Hc; [destruct Hf|]. cbn in H, ND.
    inversion ND as [|? ? Hn ND']; subst.
    destruct (compile_mfunc m a) as [ga|] eqn:Ca; [|discriminate].
    destruct (compile_mfuncs m r) as [gs'|] eqn:Cr; [|discriminate]. injection H as <-.
    cbn [find_mfunc]. destruct (mf_fields a ga Ca) as [Na _]. rewrite Na.
    destruct Hf as [<-|Hf].
    - rewrite String.eqb_refl. congruence.
    - destruct (String.eqb_spec (f_name a) (f_name f)) as [E|_]; [|eauto].
      exfalso. apply Hn. rewrite E. now apply in_map.
  Qed.
  Lemma compile_mblocks_names f : forall l bs, compile_mblocks m f l = Some bs -> map fst bs = map b_name l.
  Proof.
    induction l as [|a r IH]; intros bs H; cbn in H; [now injection H as <-|].
    destruct (compile_minstrs m f (b_id a) (b_ins a)); [|discriminate].
    destruct (compile_mblocks m f r) as [rest|]; [|discriminate]. injection H as <-. cbn. f_equal. now apply IH.
  Qed.
  Lemma compile_mblocks_in f : forall l bs, compile_mblocks m f l = Some bs -> forall k, In k l ->
    exists items, compile_minstrs m f (b_id k) (b_ins k) = Some items /\ In (b_name k, items) bs.
  Proof.
    induction l as [|a r IH]; intros bs H k Hk; [destruct Hk|]. cbn in H.
    destruct (compile_minstrs m f (b_id a) (b_ins a)) as [items|] eqn:Ci; [|discriminate].
    destruct (compile_mblocks m f r) as [rest|] eqn:Cr; [|discriminate]. injection H as <-.
    destruct Hk as [<-|Hk]; [exists items; split; [assumption|now left]|].
    destruct (IH rest eq_refl k Hk) as [it [H1 H2]]. exists it. split; [assumption|now right].
  Qed.

  (* the per-function side conditions of Proofs.C24_func, from names_okb *)
  Record fok (f : func) : Prop := mk_fok {
    fk_def : forall i d, In i (func_instrs f) -> instr_def i = Some d -> find_def f (def_id d) = Some d;
    fk_name : forall v1 v2 d1 d2, find_def f v1 = Some d1 -> find_def f v2 = Some d2 ->
                                  def_name d1 = def_name d2 -> v1 = v2;
    fk_par : forall k p v d, nth_error (f_params f) k = Some p -> find_def f v = Some d -> fst p <> def_name d;
    fk_pn : NoDup (map fst (f_params f));
    fk_bn : NoDup (map b_name (f_blocks f)) }.
  Lemma fok_of f : In f (m_funcs m) -> fok f.
  Proof.
    intros Hin. pose proof (Hnm f Hin) as Hok.
    unfold names_okb in Hok. rewrite !andb_true_iff in Hok. destruct Hok as [[N1 N2] N3].
    apply nodup_str_NoDup in N1, N3. apply nodup_pos_NoDup in N2. unfold func_local_names in N1.
    pose proof (NoDup_app_l _ _ N1) as Npar. pose proof (NoDup_app_r _ _ N1) as Ndn.
    constructor; try assumption.
    - intros i d Hi Hd. apply find_def_in; [assumption|]. eapply instr_def_in; eauto.
    - intros v1 v2 d1 d2 F1 F2 E. destruct (find_def_some _ _ _ F1) as [I1 <-].
      destruct (find_def_some _ _ _ F2) as [I2 <-]. f_equal. eapply (NoDup_map_inj def_name); eauto.
    - intros k p v0 d Hp Fd E. destruct (find_def_some _ _ _ Fd) as [I _].
      apply (NoDup_app_disj _ _ (fst p) N1).
      + apply in_map. eapply nth_error_In; eauto.
      + rewrite E. now apply in_map.
  Qed.

  (* ---------------------------------------------------------------- arguments of a call *)
  Definition args_ok (zs : list Z) (tys : list ty) : Prop :=
    Forall2 (fun z t => exists it, ity_of t = Some it /\ in_range it z) zs tys.

  Lemma args_sim f args e pen : agree f args e pen -> forall rs tys ns vs,
    typed_refs f rs tys = Some ns -> omap (eval_ref m ge false e args) rs = ODone vs ->
    exists zs, vs = map Vint zs /\ read_vars pen ns = Ok (map PInt zs) /\ args_ok zs tys.
  Proof.
    intros A. induction rs as [|r rs IH]; intros tys ns vs Ht Ho; destruct tys as [|t tys]; cbn in Ht; try discriminate.
    - injection Ht as <-. cbn in Ho. injection Ho as <-. exists []. repeat split; constructor.
    - destruct (ity_of t) as [it|] eqn:It; [|discriminate].
      destruct (typed_ref f r t) as [n|] eqn:Tr; [|discriminate].
      destruct (typed_refs f rs tys) as [ns'|] eqn:Trs; [|discriminate]. injection Ht as <-.
      cbn in Ho. destruct (eval_ref m ge false e args r) as [x| | | |] eqn:Ex; cbn in Ho; try discriminate.
      destruct (omap (eval_ref m ge false e args) rs) as [vs'| | | |] eqn:Eo; cbn in Ho; try discriminate.
      injection Ho as <-.
      destruct (agree_ref m ge f args e pen r n t x A (typed_ref_name _ _ _ _ Tr) Ex) as [z [it' [-> [It' [Hz G]]]]].
      destruct (IH tys ns' vs' Trs eq_refl) as [zs [-> [Rd Ao]]].
      exists (z :: zs). split; [reflexivity|]. split.
      + cbn [read_vars map]. rewrite G. cbn [bind]. rewrite Rd. reflexivity.
      + constructor; [eauto|assumption].
  Qed.

  Lemma ints_of_map zs : ints_of (map PInt zs) = Ok zs.
  Proof. induction zs as [|z r IH]; cbn; [reflexivity|]. now rewrite IH. Qed.

  Lemma typed_refs_length f : forall rs tys ns, typed_refs f rs tys = Some ns -> List.length ns = List.length tys.
  Proof.
    induction rs as [|r rs IH]; intros [|t tys] ns H; cbn in H; try discriminate; [now injection H as <-|].
    destruct (ity_of t); [|discriminate]. destruct (typed_ref f r t); [|discriminate].
    destruct (typed_refs f rs tys) as [ns'|] eqn:E; [|discriminate]. injection H as <-. cbn. f_equal. eauto.
  Qed.

  (* ---------------------------------------------------------------- the simulation *)
  Definition reaches_m (all : mblocks) (v : Z) (tr' : ptrace) (name : string) (pen : pyenv) (tr : ptrace) : Prop :=
    exists K, forall kc, (K <= kc)%nat -> forall F', (K <= F')%nat -> forall rest, MSuffix rest all ->
      scan_m oracle (RM kc) (iter_m oracle (RM kc) all F') rest name pen tr = Ok (PInt v, tr').
  Definition concl_m (all : mblocks) (v : Z) (tr' : ptrace) (items : list mitem) (cur : string)
             (pen : pyenv) (tr : ptrace) : Prop :=
    exists K, forall kc, (K <= kc)%nat -> forall F', (K <= F')%nat -> forall r', MSuffix r' all ->
      finish_m (RM kc) (iter_m oracle (RM kc) all F') r' (run_mitems oracle (RM kc) items cur pen tr) = Ok (PInt v, tr').
  Definition ret_ok (f : func) (v : Z) : Prop :=
    exists rt it, f_ret f = Some rt /\ ity_of rt = Some it /\ in_range it v.

  Definition mblock_ok (n : nat) : Prop := forall f g pred b e s x s' blk pen args,
    In f (m_funcs m) -> compile_mfunc m f = Some g ->
    exec_block c m ge n f args pred b e s = ODone (Some x, s') ->
    find_block f b = Some blk ->
    (forall ph, eval_phis m ge pred e args (b_ins blk) = ODone ph -> agree f args (ph ++ e) pen) ->
    exists v, x = Vint v /\ ret_ok f v /\
              reaches_m (mf_blocks g) v (tr_of (s_tr s')) (b_name blk) pen (tr_of (s_tr s)).

  Definition mfunc_ok (n : nat) : Prop := forall f g zs s x s' eb,
    In f (m_funcs m) -> compile_mfunc m f = Some g -> entry_bid f = Some eb ->
    args_ok zs (map snd (f_params f)) ->
    exec_block c m ge n f (map Vint zs) None eb [] s = ODone (Some x, s') ->
    exists v, x = Vint v /\ ret_ok f v /\
      exists K, forall k, (K <= k)%nat ->
        RM k (f_name f) (map PInt zs) (tr_of (s_tr s)) = Ok (PInt v, tr_of (s_tr s')).

  Lemma args_agree f zs : fok f -> args_ok zs (map snd (f_params f)) ->
    agree f (map Vint zs) [] (combine (map fst (f_params f)) (map PInt zs)).
  Proof.
    intros Fk Hargs. split; [intros v0 x E; discriminate|].
    intros k x E. rewrite nth_error_map in E. destruct (nth_error zs k) as [z|] eqn:Ez; [|discriminate].
    injection E as <-.
    assert (Hk : exists p, nth_error (f_params f) k = Some p /\ exists it, ity_of (snd p) = Some it /\ in_range it z).
    { clear -Hargs Ez. unfold args_ok in Hargs. revert zs k Hargs Ez.
      induction (f_params f) as [|p ps IH]; intros zs k Hargs Ez; cbn in Hargs; inversion Hargs; subst;
        [destruct k; discriminate|].
      destruct k; cbn in *; [injection Ez as <-; eauto|eauto]. }
    destruct Hk as [p [Hp [it [Ht Hz]]]]. exists z, p, it. do 4 (split; [first [reflexivity|assumption]|]).
    eapply getv_combine; [apply (fk_pn f Fk)| |].
    - rewrite nth_error_map, Hp. reflexivity.
    - rewrite nth_error_map, Ez. reflexivity.
  Qed.

  Lemma mfunc_of_block n : mblock_ok n -> mfunc_ok n.
  Proof.
    intros Hb f g zs s x s' eb Hin Hc He Hargs Hx.
    pose proof (fok_of f Hin) as Fk.
    destruct (mf_fields f g Hc) as [Ng [Pg [k0 [ks [Fb [Eg Cb]]]]]].
    unfold entry_bid in He. rewrite Fb in He. injection He as <-.
    assert (Fk0 : find_block f (b_id k0) = Some k0).
    { unfold find_block. rewrite Fb. cbn. now rewrite Pos.eqb_refl. }
    destruct (Hb f g None (b_id k0) [] s x s' k0 (combine (map fst (f_params f)) (map PInt zs)) (map Vint zs)
                 Hin Hc Hx Fk0) as [v [-> [Rk [K HK]]]].
    { intros ph Eph. apply eval_phis_entry in Eph. subst. now apply args_agree. }
    exists v. split; [reflexivity|]. split; [assumption|].
    exists (S (S K)). intros k Hk. destruct k as [|k']; [lia|]. cbn [run_mod].
    unfold compile_modul in Hfs. rewrite (cm_find _ _ Hfn Hfs f g Hin Hc).
    rewrite Pg, !map_length.
    assert (Ln : List.length zs = List.length (f_params f)).
    { clear -Hargs. unfold args_ok in Hargs. revert zs Hargs. induction (f_params f) as [|p ps IH]; intros zs H;
        cbn in H; inversion H; subst; cbn; [reflexivity|]. f_equal. now apply IH. }
    rewrite Ln, Nat.eqb_refl. cbn [negb]. rewrite Eg.
    destruct k' as [|k'']; [lia|]. cbn [iter_m].
    apply HK; try lia. apply MSuffix_refl.
  Qed.

  Lemma concl_m_call all v tr' res (isext : bool) name ns c0 cur pen tr vsP vP tr1 :
    read_vars pen ns = Ok vsP ->
    (exists K1 : nat, forall kc : nat, (K1 <= kc)%nat ->
        (if isext then ext_call oracle name vsP tr else RM kc name vsP tr) = Ok (vP, tr1)) ->
    concl_m all v tr' c0 cur (match res with Some x => (x, vP) :: pen | None => pen end) tr1 ->
    concl_m all v tr' (MCall res (isext : bool) name ns :: c0) cur pen tr.
  Proof.
    intros Hr [K1 H1] [K2 H2]. exists (Nat.max K1 K2). intros kc Hkc F' HF' r' Hs.
    cbn [run_mitems]. rewrite Hr. cbn [bind]. rewrite H1 by lia. cbn [bind]. apply H2; try lia. assumption.
  Qed.

  Lemma concl_m_MI all v tr' items c0 cur pen cur' pen' tr :
    run_items items cur pen = Ok (PNext cur' pen') ->
    concl_m all v tr' c0 cur' pen' tr -> concl_m all v tr' (map MI items ++ c0) cur pen tr.
  Proof.
    intros Hr [K HK]. exists K. intros kc Hkc F' HF' r' Hs.
    rewrite (run_mitems_MI _ items c0 cur pen cur' pen' tr Hr). now apply HK.
  Qed.

  Lemma reaches_concl all v tr' j name pen pen' cur tr :
    run_jump j pen = Ok (name, pen') -> reaches_m all v tr' name pen' tr ->
    concl_m all v tr' [MI (PJump j)] cur pen tr.
  Proof.
    intros Rj [K HK]. exists K. intros kc Hkc F' HF' r' Hs. unfold finish_m. cbn [run_mitems run_items].
    rewrite Rj. cbn [bind]. now apply HK.
  Qed.

  Lemma ity_not_float t it : ity_of t = Some it -> ty_is_float t = false /\ ty_is_blob t = false.
  Proof. destruct t; cbn; intros H; try discriminate; split; reflexivity. Qed.

  Lemma find_func_some name g0 : find_func m name = Some g0 -> In g0 (m_funcs m) /\ f_name g0 = name.
  Proof. unfold find_func. intros H. apply find_some in H. destruct H as [H1 H2]. now apply String.eqb_eq in H2. Qed.

  Lemma step_simple_state f b args e s i e' s' its :
    compile_instr f b i = Some its -> is_terminator i = false ->
    step_simple c m ge f args e s i = ODone (e', s') -> s' = s.
  Proof.
    intros Hc Ht St. destruct i; cbn in Hc, Ht; try discriminate; cbn in St;
      repeat match type of St with
             | context [obind ?o _] => destruct o; cbn [obind] in St; try discriminate
             end; now injection St.
  Qed.

  Local Opaque step_simple eval_int eval_ref eval_cond exec_block run_mod.

  Lemma all_mblock_ok : forall n, mblock_ok n.
  Proof.
    induction n as [|n IHn]; intros f g pred b e s x s' blk pen args Hinf Hcg H Hf Hag.
    { Local Transparent exec_block. cbn [exec_block] in H. discriminate. }
    pose proof (mfunc_of_block n IHn) as IHf.
    pose proof (fok_of f Hinf) as Fk. destruct Fk as [Hdef Hname Hpar Hpn Hbnf].
    destruct (mf_fields f g Hcg) as [Ng [Pg [k0 [ks [Fb [Eg Cb]]]]]].
    set (all := mf_blocks g) in *.
    assert (Hbn : NoDup (map fst all)) by (rewrite (compile_mblocks_names f _ _ Cb); assumption).
    cbn [exec_block] in H. rewrite Hf in H.
    destruct (eval_phis m ge pred e args (b_ins blk)) as [ph| | | |] eqn:Eph; cbn [obind] in H; try discriminate.
    specialize (Hag ph eq_refl).
    destruct (find_block_some _ _ _ Hf) as [Hblk Hid].
    destruct (compile_mblocks_in f _ _ Cb blk Hblk) as [items [Ci Iall]]. rewrite Hid in Ci. fold all in Iall.
    assert (Q : exists v, x = Vint v /\ ret_ok f v /\
                concl_m all v (tr_of (s_tr s')) items (b_name blk) pen (tr_of (s_tr s))).
    { Local Opaque exec_block.
      assert (Hin : forall i, In i (b_ins blk) -> In i (func_instrs f)) by (intros; eapply block_instrs; eauto).
      clear Eph Iall. revert Hin Ci Hag H. generalize (ph ++ e) as e1. generalize s as s1. revert items pen.
      generalize (b_ins blk) as l.
      induction l as [|i r IHl]; intros items pen1 s1 e1 Hin Ci A H; [discriminate|].
      cbn [compile_minstrs] in Ci.
      destruct (is_terminator i && negb match r with [] => true | _ => false end) eqn:Tl; [discriminate|].
      destruct (compile_minstr m f b i) as [a|] eqn:Cia; [|discriminate].
      destruct (compile_minstrs m f b r) as [c0|] eqn:Cr; [|discriminate]. injection Ci as <-.
      assert (Hi : In i (func_instrs f)) by (apply Hin; now left).
      assert (Hin' : forall i0, In i0 r -> In i0 (func_instrs f)) by (intros; apply Hin; now right).
      assert (Simple : forall i0 its e2 s2, i0 = i -> is_terminator i = false ->
                compile_instr f b i = Some its -> a = map MI its ->
                step_simple c m ge f args e1 s1 i = ODone (e2, s2) ->
                (forall pen2, agree f args e2 pen2 ->
                   exists v, x = Vint v /\ ret_ok f v /\
                     concl_m all v (tr_of (s_tr s')) c0 (b_name blk) pen2 (tr_of (s_tr s2))) ->
                exists v, x = Vint v /\ ret_ok f v /\
                  concl_m all v (tr_of (s_tr s')) (a ++ c0) (b_name blk) pen1 (tr_of (s_tr s1))).
      { intros i0 its e2 s2 _ Ht Hci -> St Hk.
        assert (s2 = s1) by (eapply step_simple_state; eauto). subst s2.
        destruct (step_sim c m ge f args Hdef Hname Hpar b e1 s1 i e2 s1 its pen1 Hi Ht St Hci A [] (b_name blk))
          as [pen2 [Rn A2]].
        rewrite app_nil_r in Rn. cbn [run_items] in Rn.
        destruct (Hk pen2 A2) as [v [-> [Rk Cc]]]. exists v. split; [reflexivity|]. split; [assumption|].
        eapply concl_m_MI; eauto. }
      assert (JumpCase : forall t j e2 s2 pen2, agree f args e2 pen2 -> jump_of f b t = Some j ->
                exec_block c m ge n f args (Some b) t e2 s2 = ODone (Some x, s') ->
                exists vv name pen', x = Vint vv /\ ret_ok f vv /\ run_jump j pen2 = Ok (name, pen') /\
                                     reaches_m all vv (tr_of (s_tr s')) name pen' (tr_of (s_tr s2))).
      { intros t j e2 s2 pen2 A2 Hj Hx.
        destruct (exec_block_inv _ _ _ _ _ _ _ _ _ _ _ Hx) as [blk' [ph' [Hf' He']]].
        destruct (jump_sim m ge f args Hdef Hname Hpar b t e2 pen2 j blk' ph' A2 Hj Hf' He') as [pen' [Rj A']].
        destruct (IHn f g (Some b) t e2 s2 x s' blk' pen' args Hinf Hcg Hx Hf') as [vv [-> [Rv Rc]]].
        { intros ph0 Eph0. rewrite He' in Eph0. now injection Eph0 as <-. }
        exists vv, (b_name blk'), pen'. auto. }
      destruct i; cbn [compile_minstr] in Cia; try discriminate.
      1-5: (destruct (compile_instr f b _) as [its|] eqn:Cii; [|discriminate]; injection Cia as <-;
            cbn in H;
            destruct (step_simple c m ge f args e1 s1 _) as [[e2 s2]| | | |] eqn:St; cbn [obind] in H; try discriminate;
            eapply (Simple _ its e2 s2 eq_refl eq_refl eq_refl eq_refl eq_refl); intros pen2 A2;
            apply (IHl c0 pen2 s2 e2 Hin' eq_refl A2 H)).
      - (* ICallF *)
        destruct callee as [| |name|]; try discriminate.
        destruct (ity_of t) as [it|] eqn:It; [|discriminate].
        cbn in H.
        destruct (omap (eval_ref m ge false e1 args) args0) as [vs| | | |] eqn:Eo; cbn [obind] in H; try discriminate.
        pose proof (Hdef _ _ Hi eq_refl) as Fd. cbn in Fd.
        destruct (ity_shape c t it It) as [_ Hbits].
        destruct (find_func m name) as [g0|] eqn:Ff.
        + destruct (f_ret g0) as [rt|] eqn:Rg; [|discriminate].
          destruct (ty_eqb rt t) eqn:Et; [|discriminate]. apply ty_eqb_spec in Et. subst rt.
          destruct (typed_refs f args0 (map snd (f_params g0))) as [ns|] eqn:Tr; [|discriminate]. injection Cia as <-.
          destruct (args_sim f args e1 pen1 A args0 _ ns vs Tr Eo) as [zs [-> [Rd Ao]]].
          destruct (negb (Nat.eqb (List.length (map Vint zs)) (List.length (f_params g0)))); cbn [obind] in H; [discriminate|].
          destruct (entry_bid g0) as [eb|] eqn:Eb; cbn [obind] in H; [|discriminate].
          destruct (exec_block c m ge n g0 (map Vint zs) None eb [] s1) as [[r1 s2]| | | |] eqn:Ex;
            cbn [obind] in H; try discriminate.
          destruct r1 as [x0|]; cbn [obind] in H; [|discriminate].
          destruct (find_func_some _ _ Ff) as [Hing Nmg].
          pose proof Hfs as Hfs'. unfold compile_modul in Hfs'. destruct (cm_in _ _ Hfs' g0 Hing) as [gg [Cgg _]].
          destruct (IHf g0 gg zs s1 x0 s2 eb Hing Cgg Eb Ao Ex) as [z [-> [Rz [K1 HK1]]]].
          assert (Hz : in_range it z).
          { destruct Rz as [rt' [it' [R1 [R2 R3]]]]. rewrite Rg in R1. injection R1 as <-.
            rewrite It in R2. injection R2 as <-. assumption. }
          assert (A2 : agree f args ((v, Vint z) :: e1) ((n0, PInt z) :: pen1)).
          { eapply (agree_def f args Hname Hpar e1 pen1 v (v, n0, t) it z); eauto; cbn [def_name def_ty fst snd];
              [apply getv_cons_eq | intros; now apply getv_cons_ne]. }
          destruct (IHl c0 _ s2 _ Hin' eq_refl A2 H) as [vv [-> [Rv Cc]]].
          exists vv. split; [reflexivity|]. split; [assumption|]. cbn [app].
          eapply (concl_m_call all vv _ (Some n0) false name ns c0 _ pen1 _ (map PInt zs) (PInt z) (tr_of (s_tr s2))); eauto.
          exists K1. intros kc Hkc. rewrite <- Nmg. now apply HK1.
        + destruct (find_ext m name) as [[ | nm tys rt | ]|] eqn:Fe; try discriminate.
          destruct (ty_eqb rt t) eqn:Et; [|discriminate]. apply ty_eqb_spec in Et. subst rt.
          destruct (typed_refs f args0 tys) as [ns|] eqn:Tr; [|discriminate]. injection Cia as <-.
          destruct (args_sim f args e1 pen1 A args0 _ ns vs Tr Eo) as [zs [-> [Rd Ao]]].
          destruct (negb (Nat.eqb (List.length (map Vint zs)) (List.length tys))); cbn [obind] in H; [discriminate|].
          destruct (ity_not_float t it It) as [Nf Nb]. rewrite Nf, Nb in H. cbn [obind] in H.
          assert (A2 : agree f args ((v, Vint 0) :: e1) ((n0, PInt 0) :: pen1)).
          { eapply (agree_def f args Hname Hpar e1 pen1 v (v, n0, t) it 0); eauto; cbn [def_name def_ty fst snd];
              [now apply in_range_0 | apply getv_cons_eq | intros; now apply getv_cons_ne]. }
          destruct (IHl c0 _ _ _ Hin' eq_refl A2 H) as [vv [-> [Rv Cc]]].
          exists vv. split; [reflexivity|]. split; [assumption|]. cbn [app].
          cbn [s_tr tr_of map] in Cc. rewrite ev_of_ints in Cc.
          eapply (concl_m_call all vv _ (Some n0) true name ns c0 _ pen1 _ (map PInt zs) (PInt 0)); eauto.
          exists O. intros kc _. unfold ext_call. rewrite ints_of_map. cbn [bind]. now rewrite Hor.
      - (* ICallP: external procedures *)
        destruct callee as [| |name|]; try discriminate.
        cbn in H.
        destruct (omap (eval_ref m ge false e1 args) args0) as [vs| | | |] eqn:Eo; cbn [obind] in H; try discriminate.
        destruct (find_func m name) as [g0|] eqn:Ff; [discriminate|].
        destruct (find_ext m name) as [[ | | nm tys]|] eqn:Fe; try discriminate.
        destruct (typed_refs f args0 tys) as [ns|] eqn:Tr; [|discriminate]. injection Cia as <-.
        destruct (args_sim f args e1 pen1 A args0 _ ns vs Tr Eo) as [zs [-> [Rd Ao]]].
        destruct (negb (Nat.eqb (List.length (map Vint zs)) (List.length tys))); cbn [obind] in H; [discriminate|].
        destruct (IHl c0 _ _ _ Hin' eq_refl A H) as [vv [-> [Rv Cc]]].
        exists vv. split; [reflexivity|]. split; [assumption|]. cbn [app].
        cbn [s_tr tr_of map] in Cc. rewrite ev_of_ints in Cc.
        eapply (concl_m_call all vv _ None true name ns c0 _ pen1 _ (map PInt zs) (PInt 0)); eauto.
        exists O. intros kc _. unfold ext_call. rewrite ints_of_map. cbn [bind]. now rewrite Hor.
      - (* IJump *)
        destruct (compile_instr f b (IJump b0)) as [its|] eqn:Cii; [|discriminate]. injection Cia as <-.
        cbn in Cii. destruct (jump_of f b b0) as [j|] eqn:Hj; [|discriminate]. injection Cii as <-.
        destruct r; [|discriminate]. cbn in Cr. injection Cr as <-.
        cbn in H.
        destruct (JumpCase b0 j e1 s1 pen1 A Hj H) as [vv [name [pen' [-> [Rv [Rj Rc]]]]]].
        exists vv. split; [reflexivity|]. split; [assumption|]. cbn [map app]. eapply reaches_concl; eauto.
      - (* ICJump *)
        destruct (compile_instr f b (ICJump a0 c1 b0 yes no)) as [its|] eqn:Cii; [|discriminate]. injection Cia as <-.
        cbn in Cii.
        destruct (int_ref f a0) as [nx|] eqn:Rx; [|discriminate].
        destruct (int_ref f b0) as [ny|] eqn:Ry; [|discriminate].
        destruct (jump_of f b yes) as [jy|] eqn:Hjy; [|discriminate].
        destruct (jump_of f b no) as [jn|] eqn:Hjn; [|discriminate]. injection Cii as <-.
        destruct r; [|discriminate]. cbn in Cr. injection Cr as <-.
        cbn in H.
        destruct (eval_int m ge e1 args a0) as [xv| | | |] eqn:Ex; cbn [obind] in H; try discriminate.
        destruct (eval_int m ge e1 args b0) as [yv| | | |] eqn:Ey; cbn [obind] in H; try discriminate.
        destruct (int_ref_name _ _ _ Rx) as [tx [itx [Rnx _]]].
        destruct (int_ref_name _ _ _ Ry) as [ty [ity [Rny _]]].
        destruct (agree_int m ge f args e1 pen1 a0 nx tx xv A Rnx Ex) as [_ [_ [_ Gx]]].
        destruct (agree_int m ge f args e1 pen1 b0 ny ty yv A Rny Ey) as [_ [_ [_ Gy]]].
        rewrite eval_cond_cmp in H.
        assert (J : exists vv name pen', x = Vint vv /\ ret_ok f vv /\
                      run_jump (if py_cmp (ccop c1) xv yv then jy else jn) pen1 = Ok (name, pen') /\
                      reaches_m all vv (tr_of (s_tr s')) name pen' (tr_of (s_tr s1))).
        { destruct (py_cmp (ccop c1) xv yv); eapply JumpCase; eauto. }
        destruct J as [vv [name [pen' [-> [Rv [Rj [K HK]]]]]]].
        exists vv. split; [reflexivity|]. split; [assumption|].
        exists K. intros kc Hkc F' HF' r' Hs. unfold finish_m. cbn [map app run_mitems run_items]. unfold get_int.
        rewrite Gx, Gy. cbn [bind as_int]. rewrite Rj. cbn [bind]. now apply HK.
      - (* IReturn *)
        destruct (f_ret f) as [rt|] eqn:Rf; [|discriminate].
        destruct (ity_of rt) as [itr|] eqn:Ir; [|discriminate].
        destruct (typed_ref f a0 rt) as [nx|] eqn:Rx; [|discriminate]. injection Cia as <-.
        cbn in H.
        destruct (eval_ref m ge false e1 args a0) as [x0| | | |] eqn:Ex; cbn [obind] in H; try discriminate.
        injection H as <- <-.
        destruct (agree_ref m ge f args e1 pen1 a0 nx rt x0 A (typed_ref_name _ _ _ _ Rx) Ex) as [z [it' [-> [It' [Hz G]]]]].
        exists z. split; [reflexivity|]. split; [exists rt, it'; auto|].
        exists O. intros kc _ F' _ r' _. unfold finish_m. cbn [app run_mitems run_items]. rewrite G. reflexivity. }
    destruct Q as [v [-> [Rv [K HK]]]]. exists v. split; [reflexivity|]. split; [assumption|].
    exists (S K). intros kc Hkc F' HF' rest Hsuf.
    assert (Same : forall items', In (b_name blk, items') all -> items' = items).
    { intros items' I'. pose proof (NoDup_map_inj fst all Hbn _ _ I' Iall eq_refl) as E. now injection E. }
    rewrite scan_m_split. destruct (msplit (b_name blk) rest) as [[items' r']|] eqn:Sp.
    - destruct (msplit_some _ _ _ _ Sp) as [I' S'].
      rewrite (Same items' (MSuffix_In _ _ _ Hsuf I')). apply HK; [lia|lia|]. eapply MSuffix_trans; eauto.
    - destruct F' as [|F'']; [lia|]. cbn [iter_m]. rewrite scan_m_split.
      destruct (msplit_in _ _ _ Iall) as [items' [r' Sp']]. rewrite Sp'.
      destruct (msplit_some _ _ _ _ Sp') as [I' S'].
      rewrite (Same items' I'). apply HK; [lia|lia|assumption].
  Qed.
End Mod.

(* ------------------------------------------------------------------ whole modules *)
Theorem module_simulates oracle c m fs fname f zs s fuel x s' :
  (forall n a, oracle n a = 0) ->
  wf_modul m = true -> compile_modul m = Some fs -> find_func m fname = Some f ->
  args_ok zs (map snd (f_params f)) ->
  run_function c m fname (map Vint zs) s fuel = ODone (Some x, s') ->
  exists v, x = Vint v /\
    exists K, forall k, (K <= k)%nat ->
      run_mod oracle fs k fname (map PInt zs) (tr_of (s_tr s)) = Ok (PInt v, tr_of (s_tr s')).
Proof.
  intros Hor Hwf Hfs Hf Hargs Hrun.
  unfold wf_modul in Hwf. rewrite !andb_true_iff in Hwf. destruct Hwf as [[Hgn _] Hfuncs].
  rewrite forallb_forall in Hfuncs.
  assert (Hnm : forall g, In g (m_funcs m) -> names_okb g = true).
  { intros g Hg. eapply wf_func_names_ok. now apply Hfuncs. }
  assert (Hfn : NoDup (map f_name (m_funcs m))).
  { apply nodup_str_NoDup in Hgn. unfold global_names in Hgn.
    apply NoDup_app_r in Hgn. now apply NoDup_app_r in Hgn. }
  unfold find_func in Hf. pose proof (find_some _ _ Hf) as [Hin Hname]. apply String.eqb_eq in Hname.
  unfold run_function in Hrun. unfold find_func in Hrun. rewrite Hf in Hrun.
  destruct (negb (Nat.eqb (List.length (map Vint zs)) (List.length (f_params f)))); [discriminate|].
  destruct (entry_bid f) as [eb|] eqn:Eb; [|discriminate].
  pose proof Hfs as Hfs'. unfold compile_modul in Hfs'.
  destruct (cm_in m _ _ Hfs' f Hin) as [g [Cg _]].
  destruct (mfunc_of_block oracle Hor c m (layout c m) fs Hfs Hnm Hfn fuel
              (all_mblock_ok oracle Hor c m (layout c m) fs Hfs Hnm Hfn fuel)
              f g zs s x s' eb Hin Cg Eb Hargs Hrun) as [v [-> [_ HK]]].
  exists v. split; [reflexivity|]. rewrite <- Hname. exact HK.
Qed.

(* non-vacuous: a loop whose back edge swaps two phis and calls two module functions, called from a
   function that also calls an external function *)
Definition c24_call_modul : modul :=
  (mk_modul "exc"%string
  [EFunc "getk"%string [I32] I32]
  []
  [mk_func "inc0"%string BGlobal (Some I32) [("x"%string, I32)]
   [mk_block 1 "entry"%string [IConst 1 "k1"%string I32 (CInt 1); IBinop 2 "r"%string I32 Add (Param 0) (Loc 1); IReturn (Loc 2)]]; mk_func "mix0"%string BGlobal (Some I32) [("p"%string, I32); ("q"%string, I32)]
   [mk_block 1 "entry"%string [IConst 1 "k1"%string I32 (CInt 3); IBinop 2 "t"%string I32 Mul (Param 0) (Loc 1); IBinop 3 "u"%string I32 Sub (Loc 2) (Param 1); IReturn (Loc 3)]]; mk_func "swapcall0"%string BGlobal (Some I32) [("n"%string, I32)]
   [mk_block 1 "entry"%string [IConst 1 "k2"%string I32 (CInt 1); IConst 2 "k3"%string I32 (CInt 5); IConst 3 "k4"%string I32 (CInt 0); IConst 4 "k5"%string I32 (CInt 0); IJump 2]; mk_block 2 "hdr"%string [IPhi 5 "a"%string I32 [(1%positive, (Loc 1)); (2%positive, (Loc 6))]; IPhi 6 "b"%string I32 [(1%positive, (Loc 2)); (2%positive, (Loc 5))]; IPhi 7 "i"%string I32 [(1%positive, (Loc 3)); (2%positive, (Loc 11))]; IPhi 8 "acc"%string I32 [(1%positive, (Loc 4)); (2%positive, (Loc 10))]; ICallF 9 "t"%string I32 (Glob "mix0"%string) [(Loc 5); (Loc 6)]; IBinop 10 "acc2"%string I32 Add (Loc 8) (Loc 9); ICallF 11 "i2"%string I32 (Glob "inc0"%string) [(Loc 7)]; ICJump (Loc 11) Clt (Param 0) 2 3]; mk_block 3 "ex"%string [IConst 12 "k1"%string I32 (CInt 7); IBinop 13 "r"%string I32 Mul (Loc 10) (Loc 12); IBinop 14 "r2"%string I32 Add (Loc 13) (Loc 5); IBinop 15 "r3"%string I32 Sub (Loc 14) (Loc 6); IReturn (Loc 15)]]; mk_func "useext"%string BGlobal (Some I32) [("q"%string, I32)]
   [mk_block 1 "entry"%string [ICallF 1 "k"%string I32 (Glob "getk"%string) [(Param 0)]; ICallF 2 "w"%string I32 (Glob "swapcall0"%string) [(Param 0)]; IBinop 3 "r"%string I32 Add (Loc 1) (Loc 2); IReturn (Loc 3)]]]).
Lemma module_simulates_nonvacuous :
  wf_modul c24_call_modul = true /\
  exists fs s', compile_modul c24_call_modul = Some fs /\
    run_function default_cfg c24_call_modul "useext" (map Vint [4]) (init_st default_cfg c24_call_modul) 40
      = ODone (Some (Vint 172), s') /\
    tr_of (s_tr s') = [("getk"%string, [4])] /\
    run_mod_int (fun _ _ => 0) fs 40 "useext" [4] = Ok (172, [("getk"%string, [4])]).
Proof. split; [vm_compute; reflexivity|]. do 2 eexists. repeat split; vm_compute; reflexivity. Qed.
