(* C29 — cover completeness for target thumb: reflection of the closure check on the regenerated table *)
From Coq Require Import String List.
From PV Require Import Spec.BurgCoverSpec Spec.IRTrees Spec.C29Known Model.BurgCover Model.C29Synth Proofs.C29_cover Gen.Tab_burg_thumb.
Import ListNotations.
Local Open Scope string_scope.

Lemma closure_thumb : closure_ok (usable assume_thumb rules_thumb) (irtrees desc_thumb excl_thumb) "S" "stm" = true.
Proof. vm_compute. reflexivity. Qed.

Theorem cover_complete_thumb : forall t,
  in_lang (irtrees desc_thumb excl_thumb) "S" t -> covers (usable assume_thumb rules_thumb) t "stm".
Proof. exact (closure_ok_complete _ _ _ _ closure_thumb). Qed.

(* the synthesized rules (UND<ty>, CALL, ASM) produce registers of the class the target maps the type to *)
Lemma synth_classes_thumb : synth_bad desc_thumb clsnt_thumb synth_thumb = [] /\ synth_complete desc_thumb synth_thumb = true.
Proof. split; vm_compute; reflexivity. Qed.
