(* Proofs/C06_helpers.v — theorems about the hand models of calculate_liveness and
   calculate_interference (Model.RegAllocHelpers). *)
From Coq Require Import ZArith List Bool Arith Lia.
From PV Require Import Spec.RegAllocSpec Model.RegAllocCheck Model.RegAllocHelpers Proofs.C06_regalloc.
Import ListNotations.
Open Scope Z_scope.

(* ---------------------------------------------------------------- liveness *)
Definition sim_state (a b : lstate) : Prop :=
  forall k x, (In x (fst (a k)) <-> In x (fst (b k))) /\ (In x (snd (a k)) <-> In x (snd (b k))).

(* the dataflow equations at node k, as sets *)
Definition eq_holds (nodes : nat -> fnode) (st : lstate) (k : nat) : Prop :=
  forall x,
    (In x (fst (st k)) <-> In x (n_gen (nodes k)) \/ (In x (snd (st k)) /\ ~ In x (n_kill (nodes k))))
    /\ (In x (snd (st k)) <-> exists s, In s (n_succ (nodes k)) /\ In x (fst (st s))).

Lemma seteq_In : forall a b, seteq a b = true -> forall x, In x a <-> In x b.
Proof.
  unfold seteq; intros a b H x. apply andb_true_iff in H. destruct H as [H1 H2].
  split; apply subset_In; auto.
Qed.

Lemma sim_refl : forall a, sim_state a a.
Proof. intros a k x; split; reflexivity. Qed.

Lemma sim_trans : forall a b c, sim_state a b -> sim_state b c -> sim_state a c.
Proof.
  intros a b c H1 H2 k x. destruct (H1 k x) as [A1 A2], (H2 k x) as [B1 B2].
  split; etransitivity; eauto.
Qed.

Lemma sweep_flag : forall nodes ks st ch st', sweep nodes ks st ch = (st', false) -> ch = false.
Proof.
  intros nodes ks; induction ks as [|k r IH]; intros st ch st' H; cbn [sweep] in H.
  - now inversion H.
  - apply IH in H. destruct ch; auto.
Qed.

Lemma sweep_fix : forall nodes ks st ch st', sweep nodes ks st ch = (st', false) ->
  sim_state st st' /\ forall k, In k ks -> eq_holds nodes st' k.
Proof.
  intros nodes ks; induction ks as [|k r IH]; intros st ch st' H; cbn [sweep] in H.
  - inversion H; subst. split; [apply sim_refl|intros k []].
  - pose proof (sweep_flag _ _ _ _ _ H) as Hf.
    destruct (IH _ _ _ H) as [S2 E2]. clear IH.
    set (nd := nodes k) in *. set (i := fst (st k)) in *. set (o := snd (st k)) in *.
    set (i' := n_gen nd ++ filter (fun x => negb (memz x (n_kill nd))) o) in *.
    set (st1 := upd st k (i', o)) in *.
    set (o' := concat (map (fun s => fst (st1 s)) (n_succ nd))) in *.
    rewrite !orb_false_iff in Hf. destruct Hf as [[_ Hi] Ho].
    apply negb_false_iff in Hi, Ho.
    pose proof (seteq_In _ _ Hi) as EI. pose proof (seteq_In _ _ Ho) as EO.
    assert (S1 : sim_state st (upd st k (i', o'))).
    { intros j x. unfold upd. destruct (Nat.eqb_spec j k) as [->|N]; cbn [fst snd].
      - split; [apply EI|apply EO].
      - split; reflexivity. }
    split; [eapply sim_trans; eauto|].
    intros j [<-|Hj]; [|now apply E2].
    intros x. destruct (S2 k x) as [A1 A2]. unfold upd in A1, A2. rewrite Nat.eqb_refl in A1, A2.
    cbn [fst snd] in A1, A2. split.
    + rewrite <- A1. unfold i'. rewrite in_app_iff, filter_In, negb_true_iff, memz_false.
      fold nd. rewrite <- A2, <- (EO x). reflexivity.
    + assert (FE : forall s, fst (st1 s) = fst (upd st k (i', o') s)).
      { intros s. unfold st1, upd. destruct (s =? k)%nat; reflexivity. }
      rewrite <- A2. unfold o'. rewrite in_concat. split.
      * intros [l [Hl Hx]]. apply in_map_iff in Hl. destruct Hl as [s [<- Hs]].
        exists s; split; auto. apply (proj1 (S2 s x)). rewrite <- FE. exact Hx.
      * intros [s [Hs Hx]]. exists (fst (st1 s)); split; [apply in_map_iff; eauto|].
        rewrite FE. apply (proj1 (S2 s x)). exact Hx.
Qed.

Theorem liveness_model_fixpoint : forall nodes ks fuel st st',
  liveness_iter nodes ks fuel st = Some st' -> forall k, In k ks -> eq_holds nodes st' k.
Proof.
  intros nodes ks fuel; induction fuel as [|f IH]; intros st st' H k Hk; cbn [liveness_iter] in H;
    [discriminate|].
  destruct (sweep nodes ks st false) as [st1 ch] eqn:E. destruct ch.
  - eapply IH; eauto.
  - inversion H; subst. destruct (sweep_fix _ _ _ _ _ E) as [_ F]. now apply F.
Qed.

(* ---------------------------------------------------------------- interference *)
Lemma has_edge_In : forall g a b, In (a, b) g \/ In (b, a) g -> has_edge g a b = true.
Proof.
  intros g a b H. unfold has_edge. apply existsb_exists.
  destruct H as [H|H]; [exists (a, b)|exists (b, a)]; split; auto; cbn [fst snd];
    rewrite !Z.eqb_refl; cbn; auto using orb_true_r.
Qed.

Lemma edges_of_complete : forall i lo d v,
  In d (i_defs i ++ i_clob i) -> In v lo -> v <> d ->
  In (d, v) (edges_of i lo) \/ In (v, d) (edges_of i lo).
Proof.
  intros i lo d v Hd Hv Hne. unfold edges_of. apply in_app_or in Hd. destruct Hd as [Hd|Hd].
  - left. apply in_flat_map. exists d. split; [apply in_or_app; now right|].
    apply in_or_app; left. apply in_map. apply filter_In. split; [apply in_or_app; now left|].
    apply negb_true_iff. now apply Z.eqb_neq.
  - right. apply in_flat_map. exists v. split; [apply in_or_app; now left|].
    apply in_or_app; right. now apply in_map.
Qed.

Theorem interference_complete : forall prog live pc i d v,
  nth_error prog pc = Some i ->
  In d (i_defs i ++ i_clob i) -> In v (live_out_of live pc) -> v <> d ->
  has_edge (interference_model prog live) d v = true.
Proof.
  intros prog; induction prog as [|j p IH]; intros live pc i d v Hi Hd Hv Hne.
  - destruct pc; discriminate.
  - apply has_edge_In. cbn [interference_model]. destruct pc.
    + cbn in Hi. inversion Hi; subst j.
      assert (Hv' : In v (hd [] live)) by (unfold live_out_of in Hv; destruct live; auto).
      destruct (edges_of_complete i _ d v Hd Hv' Hne); [left|right]; apply in_or_app; now left.
    + cbn [nth_error] in Hi.
      assert (Hv' : In v (live_out_of (tl live) pc)).
      { unfold live_out_of in *. destruct live; cbn [tl]; auto. destruct pc; auto. }
      specialize (IH (tl live) pc i d v Hi Hd Hv' Hne).
      unfold has_edge in IH. apply existsb_exists in IH. destruct IH as [[a b] [Hin E]].
      cbn [fst snd] in E. apply orb_true_iff in E.
      destruct E as [E|E]; apply andb_true_iff in E; destruct E as [E1 E2];
        apply Z.eqb_eq in E1, E2; subst; [left|right]; apply in_or_app; now right.
Qed.
