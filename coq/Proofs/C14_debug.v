(* Proofs/C14_debug.v — round trip of the debug-info model Model/DebugInfo.v (property C14). *)
From PV Require Import Lib.Py Lib.Tac Lib.Val Lib.Json Model.DebugInfo.
From Coq Require Import String Ascii.
Open Scope string_scope.
Open Scope Z_scope.

(* ------------------------------------------------------------------ type ids *)
Lemma index_of_nth x l : forall i, index_of x l = Some i -> nth_error l i = Some x.
Proof.
  induction l as [|y r IH]; intros i; cbn [index_of]; [discriminate|].
  destruct (Nat.eqb x y) eqn:E.
  - intros H. injection H as <-. apply Nat.eqb_eq in E. subst. reflexivity.
  - destruct (index_of x r) eqn:E2; [|discriminate].
    intros H. injection H as <-. cbn [nth_error]. now apply IH.
Qed.

Lemma index_of_In x l : In x l -> exists i, index_of x l = Some i.
Proof.
  induction l as [|y r IH]; cbn [In index_of]; [tauto|].
  intros [->|H].
  - rewrite Nat.eqb_refl. eauto.
  - destruct (Nat.eqb x y); [eauto|]. destruct (IH H) as [i ->]. eauto.
Qed.

Lemma idof_inj s a b : In a s -> In b s -> idof s a = idof s b -> a = b.
Proof.
  unfold idof. intros Ha Hb.
  destruct (index_of_In _ _ Ha) as [i Hi]. destruct (index_of_In _ _ Hb) as [j Hj].
  rewrite Hi, Hj. intros E. apply Nat2Z.inj in E. subst j.
  apply index_of_nth in Hi. apply index_of_nth in Hj. congruence.
Qed.

Lemma dedup_acc_In_acc l : forall acc x, In x acc -> In x (dedup_acc acc l).
Proof.
  induction l as [|y r IH]; intros acc x H; cbn [dedup_acc]; [assumption|].
  destruct (existsb (Nat.eqb y) acc); apply IH; [assumption|].
  apply in_or_app. now left.
Qed.

Lemma dedup_acc_In l : forall acc x, In x l -> In x (dedup_acc acc l).
Proof.
  induction l as [|y r IH]; intros acc x H; cbn [dedup_acc]; [destruct H|].
  destruct H as [->|H].
  - destruct (existsb (Nat.eqb x) acc) eqn:E; apply dedup_acc_In_acc.
    + apply existsb_exists in E. destruct E as [z [Hz Hxz]].
      apply Nat.eqb_eq in Hxz. now subst.
    + apply in_or_app. right. now left.
  - destruct (existsb (Nat.eqb y) acc); now apply IH.
Qed.

Lemma visit_types_In ts : forall p k, (k < List.length ts)%nat -> In (p + k)%nat (visit_types p ts).
Proof.
  induction ts as [|t r IH]; intros p k H; cbn [List.length] in H; [lia|].
  cbn [visit_types]. destruct k as [|k].
  - left. lia.
  - right. apply in_or_app. right.
    replace (p + S k)%nat with (S p + k)%nat by lia. apply IH. lia.
Qed.

Lemma type_ids_In d p : (p < List.length (dbg_types d))%nat -> In p (type_ids d).
Proof.
  intros H. unfold type_ids, visit_order. apply dedup_acc_In.
  apply in_or_app. left. now apply (visit_types_In (dbg_types d) 0%nat p).
Qed.

Lemma index_ofZ_seq (f : nat -> Z) : forall m s q, (s <= q < s + m)%nat ->
  (forall a b, (a < s + m)%nat -> (b < s + m)%nat -> f a = f b -> a = b) ->
  index_ofZ (f q) (map f (seq s m)) = Some (q - s)%nat.
Proof.
  induction m as [|m IH]; intros s q Hq Hinj; [lia|].
  cbn [seq map index_ofZ]. destruct (f q =? f s) eqn:E.
  - apply Z.eqb_eq in E. apply Hinj in E; [|lia|lia]. subst. f_equal. lia.
  - assert (q <> s) by (intros ->; rewrite Z.eqb_refl in E; discriminate).
    rewrite (IH (S s) q); [f_equal; lia | lia |].
    intros a b Ha Hb. apply Hinj; lia.
Qed.

(* ------------------------------------------------------------------ leaves *)
Lemma read_srcloc_ser l : read_srcloc (ser_srcloc l) = Ok l.
Proof. destruct l as [[f|] r c n]; reflexivity. Qed.

Lemma read_addr_ser a : read_addr (ser_addr a) = Ok a.
Proof. destruct a; reflexivity. Qed.

Lemma read_dlocation_ser l : read_dlocation (ser_dlocation l) = Ok l.
Proof.
  destruct l as [s a]. unfold read_dlocation, ser_dlocation. cbn [dl_loc dl_addr].
  cbn [jget jlookup String.eqb Ascii.eqb Bool.eqb bind].
  rewrite read_srcloc_ser. cbn [bind]. rewrite read_addr_ser. reflexivity.
Qed.

(* ------------------------------------------------------------------ types *)
Section Ids.
  Variable f : nat -> Z.

  Definition raw_field (x : dfield) : rfield := mkRField (fld_name x) (f (fld_typ x)) (fld_offset x).
  Definition raw_of (t : dtype) : rtype :=
    match t with
    | TBase n s e => RBase n s e
    | TStruct fs => RStruct (map raw_field fs)
    | TArray e s => RArray (f e) s
    | TPointer q => RPointer (f q)
    end.
  Fixpoint raws_from (p : nat) (ts : list dtype) : list (Z * rtype) :=
    match ts with
    | [] => []
    | t :: r => (f p, raw_of t) :: raws_from (S p) r
    end.

  Lemma parse_field_ser x : parse_field (ser_field f x) = Ok (raw_field x).
  Proof. destruct x; reflexivity. Qed.

  Lemma parse_type_ser p t : parse_type (ser_type f p t) = Ok (f p, raw_of t).
  Proof.
    destruct t as [n s e|fs|e s|q]; try reflexivity.
    unfold parse_type, ser_type.
    cbn [jget jlookup String.eqb Ascii.eqb Bool.eqb bind as_int as_str as_list].
    rewrite (mapM_map_ok (ser_field f) parse_field raw_field); [reflexivity|].
    intros x _. apply parse_field_ser.
  Qed.

  Lemma parse_types_ser ts : forall p, mapM parse_type (ser_types f p ts) = Ok (raws_from p ts).
  Proof.
    induction ts as [|t r IH]; intros p; cbn [ser_types mapM raws_from]; [reflexivity|].
    rewrite parse_type_ser. cbn [bind]. rewrite IH. reflexivity.
  Qed.

  Lemma raws_from_ids ts : forall p, map fst (raws_from p ts) = map f (seq p (List.length ts)).
  Proof.
    induction ts as [|t r IH]; intros p; cbn [raws_from map List.length seq fst]; [reflexivity|].
    now rewrite IH.
  Qed.

  Variable ids : list Z.
  Variable n : nat.
  Hypothesis Hres : forall q, (q < n)%nat -> resolve ids (f q) = Ok q.
  Let okr := fun p => Nat.ltb p n.

  Lemma resolve_type_raw p t :
    forallb okr (type_refs t) = true -> resolve_type ids (f p, raw_of t) = Ok t.
  Proof.
    unfold okr. destruct t as [nm s e|fs|e s|q]; cbn [type_refs forallb raw_of resolve_type snd]; intros H.
    - reflexivity.
    - rewrite (mapM_map_id raw_field); [reflexivity|].
      intros x Hx. rewrite forallb_forall in H.
      assert (Hlt : Nat.ltb (fld_typ x) n = true) by (apply H; now apply in_map).
      apply Nat.ltb_lt in Hlt.
      unfold resolve_field, raw_field. cbn [rf_typ rf_name rf_offset].
      rewrite Hres by assumption. now destruct x.
    - rewrite andb_true_r in H. apply Nat.ltb_lt in H. now rewrite Hres.
    - rewrite andb_true_r in H. apply Nat.ltb_lt in H. now rewrite Hres.
  Qed.

  Lemma resolve_types_raw ts : forall p,
    forallb (fun t => forallb okr (type_refs t)) ts = true ->
    mapM (resolve_type ids) (raws_from p ts) = Ok ts.
  Proof.
    induction ts as [|t r IH]; intros p H; cbn [raws_from mapM]; [reflexivity|].
    cbn [forallb] in H. apply andb_true_iff in H. destruct H as [Ht Hr].
    rewrite resolve_type_raw by assumption. cbn [bind]. now rewrite IH.
  Qed.

  Lemma read_var_ser v : okr (dv_typ v) = true -> read_var ids (ser_var f v) = Ok v.
  Proof.
    unfold okr. destruct v as [nm t l a]. cbn [dv_typ]. intros H. apply Nat.ltb_lt in H.
    unfold read_var, ser_var. cbn [dv_name dv_typ dv_loc dv_addr].
    cbn [jget jlookup String.eqb Ascii.eqb Bool.eqb bind as_int as_str].
    rewrite read_srcloc_ser. cbn [bind]. rewrite Hres by assumption. cbn [bind].
    rewrite read_addr_ser. reflexivity.
  Qed.

  Lemma read_param_ser a : okr (dp_typ a) = true -> read_param ids (ser_param f a) = Ok a.
  Proof.
    unfold okr. destruct a as [nm t]. cbn [dp_typ]. intros H. apply Nat.ltb_lt in H.
    unfold read_param, ser_param. cbn [dp_name dp_typ].
    cbn [jget jlookup String.eqb Ascii.eqb Bool.eqb bind as_int as_str].
    now rewrite Hres.
  Qed.

  Lemma read_func_ser fn :
    okr (df_ret fn) && forallb (fun a => okr (dp_typ a)) (df_args fn)
      && forallb (fun v => okr (dv_typ v)) (df_vars fn) = true ->
    read_func ids (ser_func f fn) = Ok fn.
  Proof.
    destruct fn as [nm l r args b e vars]. cbn [df_ret df_args df_vars]. intros H.
    apply andb_true_iff in H. destruct H as [H Hv]. apply andb_true_iff in H. destruct H as [Hr Ha].
    unfold okr in Hr. apply Nat.ltb_lt in Hr.
    unfold read_func, ser_func. cbn [df_name df_loc df_ret df_args df_begin df_end df_vars].
    cbn [jget jlookup String.eqb Ascii.eqb Bool.eqb bind as_int as_str as_list].
    rewrite read_srcloc_ser. cbn [bind]. rewrite Hres by assumption. cbn [bind].
    rewrite (mapM_map_id (ser_param f)).
    2:{ intros a Hin. apply read_param_ser. rewrite forallb_forall in Ha. now apply Ha. }
    cbn [bind]. rewrite !read_addr_ser. cbn [bind].
    rewrite (mapM_map_id (ser_var f)).
    2:{ intros v Hin. apply read_var_ser. rewrite forallb_forall in Hv. now apply Hv. }
    reflexivity.
  Qed.
End Ids.

(* ------------------------------------------------------------------ whole debug info *)
Lemma deserialize_render check f d :
  wf_dbg d ->
  (forall a b, (a < List.length (dbg_types d))%nat -> (b < List.length (dbg_types d))%nat ->
               f a = f b -> a = b) ->
  dbg_deserialize_with check (render f d)
  = (_ <- check (raws_from f 0 (dbg_types d)) ;; Ok d).
Proof.
  destruct d as [locs funcs types vars]. unfold wf_dbg, wf_dbgb.
  cbn [dbg_locations dbg_functions dbg_types dbg_variables]. intros H Hinj.
  apply andb_true_iff in H. destruct H as [H Hf]. apply andb_true_iff in H. destruct H as [Ht Hv].
  set (n := List.length types) in *.
  set (ids := map fst (raws_from f 0 types)).
  assert (Hres : forall q, (q < n)%nat -> resolve ids (f q) = Ok q).
  { intros q Hq. unfold resolve, ids. rewrite raws_from_ids. fold n.
    rewrite (index_ofZ_seq f n 0 q); [f_equal; f_equal; lia | lia | exact Hinj]. }
  unfold dbg_deserialize_with, render.
  cbn [dbg_locations dbg_functions dbg_types dbg_variables].
  cbn [jget jlookup String.eqb Ascii.eqb Bool.eqb bind as_list].
  rewrite (mapM_map_id ser_dlocation) by (intros; apply read_dlocation_ser). cbn [bind].
  rewrite parse_types_ser. cbn [bind].
  destruct (check (raws_from f 0 types)) as [u|c|e|]; cbn [bind]; try reflexivity.
  fold ids.
  rewrite (resolve_types_raw f ids n Hres) by exact Ht. cbn [bind].
  rewrite (mapM_map_id (ser_var f)).
  2:{ intros v Hin. apply (read_var_ser f ids n Hres). rewrite forallb_forall in Hv. now apply Hv. }
  cbn [bind].
  rewrite (mapM_map_id (ser_func f)).
  2:{ intros fn Hin. apply (read_func_ser f ids n Hres). rewrite forallb_forall in Hf. now apply Hf. }
  reflexivity.
Qed.

Lemma type_ids_inj d a b :
  (a < List.length (dbg_types d))%nat -> (b < List.length (dbg_types d))%nat ->
  idof (type_ids d) a = idof (type_ids d) b -> a = b.
Proof. intros Ha Hb. apply idof_inj; now apply type_ids_In. Qed.

(* the type table as written for d *)
Definition raws_of (d : debuginfo) : list (Z * rtype) :=
  raws_from (idof (type_ids d)) 0 (dbg_types d).

Lemma dbg_roundtrip d : wf_dbg d -> dbg_deserialize (dbg_serialize d) = Ok d.
Proof.
  intros H. unfold dbg_deserialize, dbg_serialize.
  rewrite deserialize_render; [reflexivity | assumption | apply type_ids_inj].
Qed.

(* the unrepaired loader: same result whenever its lazy construction does not trip *)
Lemma dbg_roundtrip_v1_gen d :
  wf_dbg d -> dbg_deserialize_v1 (dbg_serialize d) = (_ <- v1_sim (raws_of d) ;; Ok d).
Proof.
  intros H. unfold dbg_deserialize_v1, dbg_serialize.
  rewrite deserialize_render; [reflexivity | assumption | apply type_ids_inj].
Qed.

Definition v1_loadable (d : debuginfo) : bool :=
  match v1_sim (raws_of d) with Ok _ => true | _ => false end.

Lemma dbg_roundtrip_v1 d :
  wf_dbg d -> v1_loadable d = true -> dbg_deserialize_v1 (dbg_serialize d) = Ok d.
Proof.
  intros H L. rewrite dbg_roundtrip_v1_gen by assumption. unfold v1_loadable in L.
  destruct (v1_sim (raws_of d)); try discriminate. reflexivity.
Qed.

(* whenever the unrepaired loader succeeds, the repaired one gives the same debug info *)
Lemma v1_refines x d : dbg_deserialize_v1 x = Ok d -> dbg_deserialize x = Ok d.
Proof.
  unfold dbg_deserialize_v1, dbg_deserialize, dbg_deserialize_with.
  destruct (jget "locations" x); cbn [bind]; try discriminate.
  destruct (as_list a); cbn [bind]; try discriminate.
  destruct (mapM read_dlocation a0); cbn [bind]; try discriminate.
  destruct (jget "types" x); cbn [bind]; try discriminate.
  destruct (as_list a2); cbn [bind]; try discriminate.
  destruct (mapM parse_type a3); cbn [bind]; try discriminate.
  destruct (v1_sim a4); cbn [bind]; try discriminate.
  trivial.
Qed.

(* witness of the defect: pointer type registered before the struct whose field uses it *)
Definition ptr_first : debuginfo :=
  mkDbg [] [] [TPointer 1; TStruct [mkField "next" 0 0]] [].

Lemma ptr_first_fails :
  wf_dbg ptr_first /\ dbg_deserialize_v1 (dbg_serialize ptr_first) = Internal KeyError
  /\ dbg_deserialize (dbg_serialize ptr_first) = Ok ptr_first.
Proof. vm_compute. repeat split. Qed.
