(* Proofs/C10_concat.v — general exactness of bit_concat fields (all widths, positions, token states). *)
From PV Require Import Lib.Py Lib.Tac Spec.FieldSpec Model.TokenField Gen.Tab_fields Proofs.C10_fields Proofs.C10_tie.
From Coq Require Import String.
Open Scope Z_scope.

Lemma getitem_val x b e : 0 <= b -> b < e -> tok_getitem x b e = Ok ((x / 2 ^ b) mod 2 ^ (e - b)).
Proof.
  intros Hb He. destruct (getitem_bits b e Hb ltac:(lia) x 0 ltac:(lia)) as [t [G _]]. rewrite G. f_equal.
  apply Z.bits_inj'. intros j Hj.
  destruct (getitem_bits b e Hb ltac:(lia) x j Hj) as [t' [G' T]]. rewrite G in G'. injection G' as <-.
  rewrite T. destruct (Z.ltb_spec j (e - b)).
  - rewrite Z.mod_pow2_bits_low by lia. rewrite Z.div_pow2_bits by lia. apply andb_true_r.
  - rewrite Z.mod_pow2_bits_high by lia. apply andb_false_r.
Qed.

Definition chunk (x : Z) (p : part) : Z := (x / 2 ^ pb p) mod 2 ^ psize p.
Fixpoint val (x : Z) (ps : list part) : Z :=
  match ps with [] => 0 | p :: r => chunk x p * 2 ^ widths r + val x r end.

Lemma chunk_range x p : pwf p -> 0 <= chunk x p < 2 ^ psize p.
Proof. intros [H1 H2]. unfold chunk. apply Z.mod_pos_bound. apply Z.pow_pos_nonneg; [lia|]. rewrite psize_eq. lia. Qed.

Lemma val_range x ps : Forall pwf ps -> 0 <= val x ps < 2 ^ widths ps.
Proof.
  induction 1 as [|p r Hp Hr IH]; cbn [val widths]; [cbn; lia|].
  pose proof (chunk_range x p Hp) as C. pose proof (widths_nonneg r Hr) as Wn.
  assert (0 <= psize p) by (destruct Hp; rewrite psize_eq; lia).
  rewrite Z.pow_add_r by lia.
  assert (0 < 2 ^ widths r) by (apply Z.pow_pos_nonneg; lia). nia.
Qed.

Lemma concat_get_val x ps : Forall pwf ps -> forall acc,
  concat_get x ps acc = Ok (acc * 2 ^ widths ps + val x ps).
Proof.
  induction 1 as [|p r Hp Hr IH]; intros acc; cbn [concat_get val widths].
  - f_equal. cbn. lia.
  - rewrite part_get_eq. destruct Hp as [P1 P2]. rewrite getitem_val by assumption. cbn [bind].
    rewrite IH. f_equal. rewrite <- psize_eq. fold (chunk x p).
    pose proof (chunk_range x p (conj P1 P2)) as C.
    assert (Hw : 0 <= psize p) by (rewrite psize_eq; lia).
    unfold pmask. rewrite shiftl1_pow by lia. rewrite land_ones_mod by lia.
    rewrite (Z.mod_small (chunk x p)) by lia.
    rewrite Z.lor_comm, lor_disjoint_add by lia.
    pose proof (widths_nonneg r Hr). rewrite Z.pow_add_r by lia. ring.
Qed.

Definition in_part (p : part) (i : Z) : Prop := pb p <= i < pe p.

Lemma chunk_ext x y p : pwf p -> (forall i, in_part p i -> Z.testbit x i = Z.testbit y i) -> chunk x p = chunk y p.
Proof.
  intros [P1 P2] H. unfold chunk. apply Z.bits_inj'. intros j Hj.
  assert (Hw : 0 <= psize p) by (rewrite psize_eq; lia).
  destruct (Z.ltb_spec j (psize p)).
  - rewrite !Z.mod_pow2_bits_low by lia. rewrite !Z.div_pow2_bits by lia. apply H.
    unfold in_part. rewrite psize_eq in *. lia.
  - rewrite !Z.mod_pow2_bits_high by lia. reflexivity.
Qed.

Lemma val_ext x y ps : Forall pwf ps ->
  (forall p i, In p ps -> in_part p i -> Z.testbit x i = Z.testbit y i) -> val x ps = val y ps.
Proof.
  induction 1 as [|p r Hp Hr IH]; intros H; cbn [val]; [reflexivity|].
  rewrite (chunk_ext x y p Hp) by (intros i Hi; apply (H p i); [now left|assumption]).
  rewrite IH; [reflexivity|]. intros q i Hq Hi. apply (H q i); [now right|assumption].
Qed.

Lemma part_wfb_spec size p : part_wfb size p = true -> pwf p /\ pe p <= size.
Proof. destruct p as [b e s]. unfold part_wfb, pwf. cbn [pb pe]. lia. Qed.
Lemma disjointb_spec p q i : disjointb p q = true -> in_part p i -> in_part q i -> False.
Proof. destruct p as [b e s], q as [b' e' s']. unfold disjointb, in_part. cbn [pb pe]. lia. Qed.

Lemma concat_set_spec size v ps :
  forallb (part_wfb size) ps = true -> parts_disjointb ps = true -> forall bv,
  exists bv', concat_set size bv ps v = Ok bv' /\ val bv' ps = v mod 2 ^ widths ps /\
    (forall i, 0 <= i < size -> (forall p, In p ps -> ~ in_part p i) -> Z.testbit bv' i = Z.testbit bv i).
Proof.
  induction ps as [|p r IH]; intros W D bv.
  - exists bv. cbn [concat_set val widths]. split; [reflexivity|]. split; [now rewrite Z.mod_1_r|auto].
  - cbn [forallb] in W. apply andb_prop in W as [Wp Wr]. cbn [parts_disjointb] in D. apply andb_prop in D as [Dp Dr].
    destruct (IH Wr Dr bv) as [bv1 [E1 [V1 F1]]]. cbn [concat_set]. rewrite E1. cbn [bind].
    destruct (part_wfb_spec size p Wp) as [[P1 P2] P3].
    assert (Wf : Forall pwf r).
    { apply Forall_forall. intros q Hq. apply (part_wfb_spec size). exact (proj1 (forallb_forall _ _) Wr q Hq). }
    pose proof (widths_nonneg r Wf) as Wn.
    assert (Hw : 0 < psize p) by (rewrite psize_eq; lia).
    set (c := Z.land (Z.shiftr v (widths r)) (pmask p)).
    assert (Cr : 0 <= c < 2 ^ psize p) by (apply pmask_land_range; lia).
    assert (Cv : c = (v / 2 ^ widths r) mod 2 ^ psize p).
    { unfold c, pmask. rewrite shiftl1_pow by lia. rewrite land_ones_mod by lia. now rewrite shiftr_div by lia. }
    rewrite part_set_eq. rewrite psize_eq in *.
    destruct (proj2 (setitem_accepts size bv1 (pb p) (pe p) P1 ltac:(lia) c) ltac:(lia)) as [bv' E].
    exists bv'. split; [exact E|].
    assert (Bits : forall i, 0 <= i -> Z.testbit bv' i =
              if (pb p <=? i) && (i <? pe p) then Z.testbit (c mod 2 ^ (pe p - pb p)) (i - pb p)
              else Z.testbit bv1 i && (i <? size)).
    { intros i Hi. apply (setitem_bits size bv1 (pb p) (pe p) P1 ltac:(lia) c bv' i P3 E Hi). }
    split.
    + cbn [val widths].
      assert (Ch : chunk bv' p = c).
      { pose proof (set_get size bv1 (pb p) (pe p) P1 ltac:(lia) c bv' P3 E) as G.
        rewrite getitem_val in G by lia. injection G as G. unfold chunk. rewrite psize_eq, G.
        apply Z.mod_small. lia. }
      rewrite Ch.
      rewrite (val_ext bv' bv1 r Wf).
      * rewrite V1, Cv, psize_eq.
        assert (0 < 2 ^ widths r) by (apply Z.pow_pos_nonneg; lia).
        assert (0 < 2 ^ (pe p - pb p)) by (apply Z.pow_pos_nonneg; lia).
        rewrite (Z.add_comm (pe p - pb p)), Z.pow_add_r by lia.
        rewrite Z.rem_mul_r by lia. lia.
      * intros q i Hq Hi.
        assert (Hqs : pwf q /\ pe q <= size) by (apply part_wfb_spec; exact (proj1 (forallb_forall _ _) Wr q Hq)).
        assert (Hd : disjointb p q = true) by exact (proj1 (forallb_forall _ _) Dp q Hq).
        unfold in_part in Hi. destruct Hqs as [[Q1 Q2] Q3]. rewrite Bits by lia.
        destruct ((pb p <=? i) && (i <? pe p)) eqn:In.
        -- exfalso. apply (disjointb_spec p q i Hd); unfold in_part; lia.
        -- replace (i <? size) with true by lia. apply andb_true_r.
    + intros i Hi Hn. rewrite Bits by lia.
      assert (N : ~ in_part p i) by (apply Hn; now left). unfold in_part in N.
      replace ((pb p <=? i) && (i <? pe p)) with false by lia.
      replace (i <? size) with true by lia. rewrite andb_true_r.
      apply F1; [lia|]. intros q Hq. apply Hn. now right.
Qed.

(* all widths, all positions, any token state: an in-range value written to a bit_concat field is read back
   exactly, and no bit outside the parts of the field changes *)
Lemma concat_field_exact size bv ps v :
  field_wfb size (FConcat ps) = true -> ps <> [] ->
  fits (fsigned (FConcat ps)) (fwidth (FConcat ps)) v ->
  exists bv' t, field_set size bv (FConcat ps) v = Ok bv' /\ field_get bv' (FConcat ps) = Ok t /\
    decode (fsigned (FConcat ps)) (fwidth (FConcat ps)) t = v /\
    (forall i, 0 <= i < size -> (forall p, In p ps -> ~ in_part p i) -> Z.testbit bv' i = Z.testbit bv i).
Proof.
  intros W Hne F. cbn [field_wfb] in W. apply andb_prop in W as [W D].
  destruct (concat_set_spec size v ps W D bv) as [bv' [E [V Fr]]].
  assert (Wf : Forall pwf ps).
  { apply Forall_forall. intros q Hq. apply (part_wfb_spec size). exact (proj1 (forallb_forall _ _) W q Hq). }
  exists bv', (val bv' ps). cbn [field_set field_get fwidth]. split; [exact E|].
  split; [rewrite concat_get_val by assumption; f_equal; lia|]. split; [|exact Fr].
  rewrite V. apply decode_mod; [|exact F].
  destruct ps as [|p r]; [congruence|]. cbn [widths]. inversion Wf as [|? ? [P1 P2] Wr]. subst.
  pose proof (widths_nonneg r Wr). rewrite psize_eq. lia.
Qed.

(* reflected over the exported table: every real bit_concat field, every in-range value, every token state *)
Lemma table_concat_exact_all r bv v ps :
  In r fields_table -> row_field r = FConcat ps -> ps <> [] ->
  fits (fsigned (FConcat ps)) (fwidth (FConcat ps)) v ->
  exists bv' t, field_set (row_size r) bv (FConcat ps) v = Ok bv' /\ field_get bv' (FConcat ps) = Ok t /\
    decode (fsigned (FConcat ps)) (fwidth (FConcat ps)) t = v /\
    (forall i, 0 <= i < row_size r -> (forall p, In p ps -> ~ in_part p i) -> Z.testbit bv' i = Z.testbit bv i).
Proof.
  intros Hr Hf Hne F. apply concat_field_exact; try assumption.
  rewrite <- Hf. apply table_wellformed_all. exact Hr.
Qed.
