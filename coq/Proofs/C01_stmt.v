(* Proofs/C01_stmt.v — the statement skeleton CCodeGenerator builds (Model/CGenStmt.v) executes a structured
   C statement exactly as the big-step semantics Spec/CStmtSpec.v: same outcome (normal / break / continue /
   return v), same final store, with the same fuel — whenever the C execution is defined and terminates.
   Induction on the fuel; expressions and conditions by Proofs/C01_expr.v. *)
From PV Require Import Lib.Py Lib.Tac Spec.CIntSpec Spec.CExprSpec Spec.CStmtSpec Gen.ceval Model.CEval
                       Model.CGenExpr Model.CGenStmt Spec.IRSyntax Spec.IRSem Proofs.C01_base Proofs.C01_arith
                       Proofs.C01_expr.
Open Scope Z_scope.

Ltac ostep := cbn [obind]; cbv beta iota.

(* ---- generic facts about the jump target of a switch ---- *)
Section TargetFacts.
Context {A B : Type}.
Variable F : A -> B.
Local Notation mapF := (map (fun it : slabel * A => match it with (l, s) => (l, F s) end)).
Lemma find_case_ext (f h : Z -> bool) (l : list (slabel * A)) :
  (forall z, f z = h z) -> find_case f l = find_case h l.
Proof.
  intros E. induction l as [|[lb s] r IH]; [reflexivity|]. cbn [find_case]. destruct lb; try exact IH.
  rewrite E, IH. reflexivity.
Qed.
Lemma find_case_map eqv (l : list (slabel * A)) :
  find_case eqv (mapF l) = option_map mapF (find_case eqv l).
Proof.
  induction l as [|[lb s] r IH]; [reflexivity|]. cbn [map find_case]. destruct lb; try exact IH.
  destruct (eqv z); [reflexivity|exact IH].
Qed.
Lemma find_default_map (l : list (slabel * A)) :
  find_default (mapF l) = option_map mapF (find_default l).
Proof. induction l as [|[lb s] r IH]; [reflexivity|]. cbn [map find_default]. destruct lb; try exact IH. reflexivity. Qed.
Lemma switch_target_map eqv (l : list (slabel * A)) :
  switch_target eqv (mapF l) = option_map mapF (switch_target eqv l).
Proof.
  unfold switch_target. rewrite find_case_map. destruct (find_case eqv l); [reflexivity|apply find_default_map].
Qed.
Lemma find_case_suffix eqv (P : slabel * A -> bool) (l r : list (slabel * A)) :
  find_case eqv l = Some r -> forallb P l = true -> forallb P r = true.
Proof.
  induction l as [|[lb s] t IH]; [discriminate|]. cbn [find_case forallb]. intros H Q.
  apply andb_prop in Q as [Q1 Q2].
  destruct lb; try (apply IH; assumption).
  destruct (eqv z); [injection H as <-; cbn [forallb]; now rewrite Q1, Q2|apply IH; assumption].
Qed.
Lemma find_default_suffix (P : slabel * A -> bool) (l r : list (slabel * A)) :
  find_default l = Some r -> forallb P l = true -> forallb P r = true.
Proof.
  induction l as [|[lb s] t IH]; [discriminate|]. cbn [find_default forallb]. intros H Q.
  apply andb_prop in Q as [Q1 Q2].
  destruct lb; try (apply IH; assumption). injection H as <-. cbn [forallb]. now rewrite Q1, Q2.
Qed.
Lemma switch_target_suffix eqv (P : slabel * A -> bool) (l r : list (slabel * A)) :
  switch_target eqv l = Some r -> forallb P l = true -> forallb P r = true.
Proof.
  unfold switch_target. destruct (find_case eqv l) eqn:E.
  - intros [= <-]. now apply (find_case_suffix eqv P l).
  - apply find_default_suffix.
Qed.
End TargetFacts.

Section Stmt.
Variable k : cfg.
Variable g : cgen.
Hypothesis Hwf : wf_ctx (cg_ctx g).
Hypothesis Hf : faithful k g.
Local Notation dm := (dm_of (cg_ctx g)).
Variable te : tenv.
Variable rt : ity.
Variable sv : semv.

Local Notation L s := (lower_stmt g (elab_stmt sv te rt s)).
Local Notation Ex := (exec dm te rt).

(* expression statement / condition / converted value (return, initialiser) *)
Lemma e_val e st v st' : store_ok dm te st -> agrees sv dm te e = true -> ceval dm te st e = Some (v, st') ->
  xrun k (lower g (elab sv te e)) st = ODone (v, st') /\ store_ok dm te st'.
Proof.
  intros SO A EV. split; [exact (expr_value k g Hwf Hf te sv e st v st' SO A EV)|].
  exact (proj2 (ceval_ok g Hwf te e st v st' EV SO)).
Qed.
Lemma e_cond e st v st' : store_ok dm te st -> agrees sv dm te e = true -> ceval dm te st e = Some (v, st') ->
  crun k (lcond g (elab sv te e)) st = ODone (negb (v =? 0), st') /\ store_ok dm te st'.
Proof.
  intros SO A EV. split; [exact (expr_cond k g Hwf Hf te sv e st v st' SO A EV)|].
  exact (proj2 (ceval_ok g Hwf te e st v st' EV SO)).
Qed.
Lemma e_conv t e st v st' : store_ok dm te st -> agrees sv dm te e = true -> ceval dm te st e = Some (v, st') ->
  xrun k (lower g (coerce (elab sv te e) t)) st = ODone (convert dm t v, st') /\ store_ok dm te st'.
Proof.
  intros SO A EV. split; [exact (fn_value k g Hwf Hf te sv t e st v st' SO A EV)|].
  exact (proj2 (ceval_ok g Hwf te e st v st' EV SO)).
Qed.

(* the promoted controlling expression of a switch *)
Lemma e_prom e st v st' : store_ok dm te st -> agrees sv dm te e = true ->
  agree_p sv dm (xtype_of dm te e) = true -> ceval dm te st e = Some (v, st') ->
  xrun k (lower g (promote_m sv (elab sv te e))) st = ODone (convert dm (promote dm (xtype_of dm te e)) v, st') /\
  store_ok dm te st' /\ ttyp (promote_m sv (elab sv te e)) = promote dm (xtype_of dm te e).
Proof.
  intros SO A P EV. pose proof (expr_typing g te sv e A) as T.
  destruct (ceval_ok g Hwf te e st v st' EV SO) as [Rv S1].
  unfold promote_m. rewrite T. unfold agree_p, pp_v in P. apply ity_eqb_true in P.
  destruct (mem_ty (xtype_of dm te e) promotable_types).
  - rewrite P. split; [exact (fn_value k g Hwf Hf te sv _ e st v st' SO A EV)|].
    split; [assumption|apply ttyp_coerce].
  - rewrite <- P. split; [|split; [assumption|exact T]].
    rewrite (cid g Hwf _ _ Rv). exact (expr_value k g Hwf Hf te sv e st v st' SO A EV).
Qed.

Lemma case_val_ok t z : case_val k (irty g t) z = convert dm t z.
Proof. unfold case_val. now rewrite (wrap_ty_ok k g Hwf Hf). Qed.

Definition Sim (f : nat) : Prop := forall s st o st',
  store_ok dm te st -> agrees_stmt sv dm te s = true ->
  Ex f st s = Some (o, st') ->
  srun k f (L s) st = ODone (o, st') /\ store_ok dm te st'.

(* the for loop, given the simulation of its body at fuel f *)
Lemma for_sim f (IH : Sim f) c post body : agrees sv dm te c = true -> agrees sv dm te post = true ->
  agrees_stmt sv dm te body = true ->
  forall n st o st', store_ok dm te st ->
  for_loop dm te (Ex f) n st c post body = Some (o, st') ->
  for_loop_i k (srun k f) n st (lcond g (elab sv te c)) (lower g (elab sv te post)) (L body) = ODone (o, st')
  /\ store_ok dm te st'.
Proof.
  intros Ac Ap Ab. induction n as [|m IHn]; intros st o st' SO EV; [discriminate|].
  cbn [for_loop] in EV. cbn [for_loop_i].
  destruct (ceval dm te st c) as [[vc s1]|] eqn:Ec; [|discriminate].
  destruct (e_cond c st vc s1 SO Ac Ec) as [Cc S1]. rewrite Cc. ostep.
  destruct (vc =? 0); cbn [negb].
  - injection EV as <- <-. now split.
  - destruct (Ex f s1 body) as [[ob s2]|] eqn:Eb; [|discriminate].
    destruct (IH body s1 ob s2 S1 Ab Eb) as [Rb S2]. rewrite Rb. ostep.
    destruct (loop_exit ob) as [o'|].
    + injection EV as <- <-. now split.
    + destruct (ceval dm te s2 post) as [[vp s3]|] eqn:Ep; [|discriminate].
      destruct (e_val post s2 vp s3 S2 Ap Ep) as [Rp S3]. rewrite Rp. ostep.
      exact (IHn s3 o st' S3 EV).
Qed.

Lemma find_target_ext_helper {A} (pv : Z) (t : ity) (l : list (slabel * A))
  (E : forall z, case_val k (irty g t) z = convert dm t z) :
  switch_target (fun z => pv =? case_val k (irty g t) z) l = switch_target (fun z => pv =? convert dm t z) l.
Proof.
  unfold switch_target. rewrite (find_case_ext (fun z => pv =? case_val k (irty g t) z) (fun z => pv =? convert dm t z) l).
  - reflexivity.
  - intros z. now rewrite E.
Qed.

(* the items of a switch body from the jump target on *)
Lemma items_sim f (IH : Sim f) : forall rest st o st', store_ok dm te st ->
  forallb (fun it : slabel * cstmt => match it with (_, s) => agrees_stmt sv dm te s end) rest = true ->
  run_items (Ex f) rest st = Some (o, st') ->
  run_items_i (srun k f)
              (map (fun it : slabel * tstmt => match it with (l, s) => (l, lower_stmt g s) end)
                   (map (fun it : slabel * cstmt => match it with (l, s) => (l, elab_stmt sv te rt s) end) rest)) st
  = ODone (o, st')
  /\ store_ok dm te st'.
Proof.
  induction rest as [|[lb s] r IHr]; intros st o st' SO A EV.
  - injection EV as <- <-. now split.
  - cbn [forallb] in A. apply andb_prop in A as [As Ar]. cbn [run_items] in EV. cbn [map run_items_i].
    destruct (Ex f st s) as [[os s1]|] eqn:Es; [|discriminate].
    destruct (IH s st os s1 SO As Es) as [Rs S1]. rewrite Rs. ostep.
    destruct os; try (injection EV as <- <-; now split).
    exact (IHr s1 o st' S1 Ar EV).
Qed.

Theorem stmt_sim : forall f, Sim f.
Proof.
  induction f as [|f IH]; intros s st o st' SO A EV; [discriminate|].
  destruct s; cbn [exec] in EV; cbn [elab_stmt lower_stmt srun]; cbn [agrees_stmt] in A.
  - (* skip *) injection EV as <- <-. now split.
  - (* expression statement *)
    destruct (ceval dm te st e) as [[v s1]|] eqn:E; [|discriminate]. injection EV as <- <-.
    destruct (e_val e st v s1 SO A E) as [R S1]. rewrite R. ostep. now split.
  - (* declaration with initialiser *)
    destruct (ceval dm te st e) as [[v s1]|] eqn:E; [|discriminate].
    destruct (nth_error s1 n) as [old|] eqn:En; [|discriminate]. injection EV as <- <-.
    destruct (e_conv (tvar te n) e st v s1 SO A E) as [R S1]. rewrite R. ostep. rewrite En.
    split; [reflexivity|]. apply (upd_ok g te s1 S1). apply (cir g Hwf).
  - (* sequence *)
    apply andb_prop in A as [Aa Ab].
    destruct (Ex f st s1) as [[oa sa]|] eqn:Ea; [|discriminate].
    destruct (IH s1 st oa sa SO Aa Ea) as [Ra Sa]. rewrite Ra. ostep.
    destruct oa; try (injection EV as <- <-; now split).
    exact (IH s2 sa o st' Sa Ab EV).
  - (* if without else *)
    apply andb_prop in A as [Ac Aa].
    destruct (ceval dm te st c) as [[vc s1]|] eqn:Ec; [|discriminate].
    destruct (e_cond c st vc s1 SO Ac Ec) as [Cc S1]. rewrite Cc. ostep.
    destruct (vc =? 0); cbn [negb].
    + injection EV as <- <-. now split.
    + exact (IH s s1 o st' S1 Aa EV).
  - (* if else *)
    apply andb_prop in A as [A Ab]. apply andb_prop in A as [Ac Aa].
    destruct (ceval dm te st c) as [[vc s0]|] eqn:Ec; [|discriminate].
    destruct (e_cond c st vc s0 SO Ac Ec) as [Cc S1]. rewrite Cc. ostep.
    destruct (vc =? 0); cbn [negb].
    + exact (IH s2 s0 o st' S1 Ab EV).
    + exact (IH s1 s0 o st' S1 Aa EV).
  - (* while *)
    pose proof A as Aw. apply andb_prop in A as [Ac Ab].
    destruct (ceval dm te st c) as [[vc s1]|] eqn:Ec; [|discriminate].
    destruct (e_cond c st vc s1 SO Ac Ec) as [Cc S1]. rewrite Cc. ostep.
    destruct (vc =? 0); cbn [negb].
    + injection EV as <- <-. now split.
    + destruct (Ex f s1 s) as [[ob s2]|] eqn:Eb; [|discriminate].
      destruct (IH s s1 ob s2 S1 Ab Eb) as [Rb S2]. rewrite Rb. ostep.
      destruct (loop_exit ob) as [o'|].
      * injection EV as <- <-. now split.
      * exact (IH (SWhile c s) s2 o st' S2 Aw EV).
  - (* do while *)
    pose proof A as Aw. apply andb_prop in A as [Ac Ab].
    destruct (Ex f st s) as [[ob s1]|] eqn:Eb; [|discriminate].
    destruct (IH s st ob s1 SO Ab Eb) as [Rb S1]. rewrite Rb. ostep.
    destruct (loop_exit ob) as [o'|].
    + injection EV as <- <-. now split.
    + destruct (ceval dm te s1 c) as [[vc s2]|] eqn:Ec; [|discriminate].
      destruct (e_cond c s1 vc s2 S1 Ac Ec) as [Cc S2]. rewrite Cc. ostep.
      destruct (vc =? 0); cbn [negb].
      * injection EV as <- <-. now split.
      * exact (IH (SDoWhile s c) s2 o st' S2 Aw EV).
  - (* for *)
    apply andb_prop in A as [A Ab]. apply andb_prop in A as [A Ap]. apply andb_prop in A as [Ai Ac].
    destruct (Ex f st s1) as [[oi si]|] eqn:Ei; [|discriminate].
    destruct (IH s1 st oi si SO Ai Ei) as [Ri Si]. rewrite Ri. ostep.
    destruct oi; try discriminate.
    exact (for_sim f IH c post s2 Ac Ap Ab f si o st' Si EV).
  - (* break *) injection EV as <- <-. now split.
  - (* continue *) injection EV as <- <-. now split.
  - (* return *)
    destruct (ceval dm te st e) as [[v s1]|] eqn:E; [|discriminate]. injection EV as <- <-.
    destruct (e_conv rt e st v s1 SO A E) as [R S1]. rewrite R. ostep. now split.
  - (* switch *)
    apply andb_prop in A as [A Ai]. apply andb_prop in A as [Ae Ap].
    destruct (ceval dm te st e) as [[v s1]|] eqn:E; [|discriminate].
    destruct (e_prom e st v s1 SO Ae Ap E) as (R & S1 & T). rewrite R. ostep. rewrite T.
    rewrite (switch_target_map (lower_stmt g)), (switch_target_map (elab_stmt sv te rt)).
    rewrite (find_target_ext_helper _ _ _ (fun z => case_val_ok (promote dm (xtype_of dm te e)) z)).
    destruct (switch_target (fun z => convert dm (promote dm (xtype_of dm te e)) v =?
                                      convert dm (promote dm (xtype_of dm te e)) z) items) as [rest|] eqn:Tg;
      cbn [option_map].
    + destruct (run_items (Ex f) rest s1) as [[ob s2]|] eqn:Er; [|discriminate]. injection EV as <- <-.
      pose proof (switch_target_suffix _ _ _ _ Tg Ai) as Ar.
      destruct (items_sim f IH rest s1 ob s2 S1 Ar Er) as [Rr S2]. rewrite Rr. ostep. now split.
    + injection EV as <- <-. now split.
Qed.

(* a whole function body: the value returned *)
Theorem fn_stmt_exact np fuel args body v :
  store_ok dm te (args ++ repeat 0 (List.length te - np)) -> agrees_stmt sv dm te body = true ->
  run_fn dm te np rt fuel args body = Some v ->
  '(o, _) <~ srun k fuel (L body) (args ++ repeat 0 (List.length te - np)) ;;
  match o with SRet r => ODone r | _ => OStuck end = ODone v.
Proof.
  intros SO A R. unfold run_fn in R. destruct (scoped false false (seq 0 np) body); [|discriminate].
  destruct (Ex fuel (args ++ repeat 0 (List.length te - np)) body) as [[o s1]|] eqn:E; [|discriminate].
  destruct o; try discriminate. injection R as <-.
  destruct (stmt_sim fuel body _ _ _ SO A E) as [Rn _]. rewrite Rn. reflexivity.
Qed.
End Stmt.
