(* Proofs/C07_exec.v — C07, ISA side: which registers an RV32I/M instruction writes and reads, as
   theorems about Spec/RV32Exec.exec (frame + non-interference), per instruction format. *)
From PV Require Import Lib.Py Lib.Tac Spec.RV32Decode Spec.RV32Exec.
From Coq Require Import String.
Open Scope Z_scope.
Open Scope list_scope.

Lemma u32_idem v : u32 (u32 v) = u32 v.
Proof. unfold u32, W32. now rewrite Z.mod_mod by lia. Qed.

Lemma getreg_setreg s r v x :
  getreg (setreg s r v) x = if (x =? r) && negb (r =? 0) then u32 v else getreg s x.
Proof.
  unfold getreg, setreg. destruct (r =? 0) eqn:Er.
  - rewrite andb_false_r. reflexivity.
  - cbn [regs negb]. rewrite andb_true_r. destruct (x =? 0) eqn:Ex.
    + destruct (x =? r) eqn:Exr; [|reflexivity]. lia.
    + destruct (x =? r); [apply u32_idem|reflexivity].
Qed.

Lemma getreg_setreg_other s r v x : x <> r -> getreg (setreg s r v) x = getreg s x.
Proof. intros H. rewrite getreg_setreg. destruct (x =? r) eqn:E; [lia|reflexivity]. Qed.

Lemma getreg_setpc s p x : getreg (setpc s p) x = getreg s x.
Proof. reflexivity. Qed.
Lemma getpc_setpc s p : getpc (setpc s p) = u32 p.
Proof. unfold getpc, setpc. cbn. apply u32_idem. Qed.
Lemma getpc_setreg s r v : getpc (setreg s r v) = getpc s.
Proof. unfold getpc, setreg. now destruct (r =? 0). Qed.
Lemma loadbyte_setpc s p a : loadbyte (setpc s p) a = loadbyte s a.
Proof. reflexivity. Qed.
Lemma loadbyte_setreg s r v a : loadbyte (setreg s r v) a = loadbyte s a.
Proof. unfold loadbyte, setreg. now destruct (r =? 0). Qed.

Lemma getreg_storebyte s a v x : getreg (storebyte s a v) x = getreg s x.
Proof. reflexivity. Qed.
Lemma getreg_store_le n : forall s a v x, getreg (store_le s n a v) x = getreg s x.
Proof. induction n; intros; cbn; [reflexivity|]. now rewrite IHn. Qed.
Lemma getpc_store_le n : forall s a v, getpc (store_le s n a v) = getpc s.
Proof. induction n; intros; cbn; [reflexivity|]. now rewrite IHn. Qed.

Lemma loadbyte_storebyte s a v x :
  loadbyte (storebyte s a v) x = if u32 x =? u32 a then v mod 256 else loadbyte s x.
Proof.
  unfold loadbyte, storebyte. cbn. destruct (u32 x =? u32 a); [|reflexivity].
  now rewrite Z.mod_mod by lia.
Qed.

Lemma loadbyte_store_le_ext n : forall s s' a v,
  (forall x, loadbyte s x = loadbyte s' x) ->
  forall x, loadbyte (store_le s n a v) x = loadbyte (store_le s' n a v) x.
Proof.
  induction n; intros s s' a v H x; cbn; [apply H|].
  apply IHn. intros y. rewrite !loadbyte_storebyte. now rewrite H.
Qed.

Lemma load_le_ext n : forall s s' a,
  (forall x, loadbyte s x = loadbyte s' x) -> load_le s n a = load_le s' n a.
Proof. induction n; intros s s' a H; cbn; [reflexivity|]. now rewrite H, (IHn s s'). Qed.

Lemma load_value_ext s s' k a :
  (forall x, loadbyte s x = loadbyte s' x) -> load_value s k a = load_value s' k a.
Proof. intros H. destruct k; cbn [load_value]; now rewrite (load_le_ext _ s s'). Qed.

(* ---- the registers an instruction writes / reads (ISA manual, per format) ---- *)
Definition writes (i : rvinstr) : list Z :=
  match i with
  | RLui rd _ | RAuipc rd _ | RJal rd _ | RJalr rd _ _ | RLoad _ rd _ _ | ROpImm _ rd _ _ | ROp _ rd _ _ => [rd]
  | RBranch _ _ _ _ | RStore _ _ _ _ => []
  end.

Definition reads (i : rvinstr) : list Z :=
  match i with
  | RLui _ _ | RAuipc _ _ | RJal _ _ => []
  | RJalr _ rs1 _ | RLoad _ _ _ rs1 | ROpImm _ _ rs1 _ => [rs1]
  | RBranch _ a b _ | ROp _ _ a b => [a; b]
  | RStore _ rs2 _ rs1 => [rs2; rs1]
  end.

Definition is_store (i : rvinstr) : bool := match i with RStore _ _ _ _ => true | _ => false end.

(* frame: a register outside [writes i] keeps its value (x0 reads 0 before and after) *)
Lemma exec_frame i s r : ~ In r (writes i) -> getreg (exec i s) r = getreg s r.
Proof.
  intros H. destruct i; cbn [exec writes In] in *;
    try (rewrite getreg_setpc, getreg_setreg_other by (intros ->; tauto); reflexivity).
  - destruct (branch_taken _ _ _); apply getreg_setpc.
  - rewrite getreg_setpc. apply getreg_store_le.
Qed.

(* only stores change memory *)
Lemma exec_mem_frame i s a : is_store i = false -> loadbyte (exec i s) a = loadbyte s a.
Proof.
  intros H. destruct i; cbn [exec is_store] in *; try discriminate;
    try (rewrite loadbyte_setpc, loadbyte_setreg; reflexivity).
  destruct (branch_taken _ _ _); apply loadbyte_setpc.
Qed.

(* non-interference: written values, next pc and memory depend only on [reads i], pc and memory *)
Lemma exec_reads i s s' :
  (forall r, In r (reads i) -> getreg s r = getreg s' r) ->
  getpc s = getpc s' ->
  (forall a, loadbyte s a = loadbyte s' a) ->
  (forall r, In r (writes i) -> getreg (exec i s) r = getreg (exec i s') r) /\
  getpc (exec i s) = getpc (exec i s') /\
  (forall a, loadbyte (exec i s) a = loadbyte (exec i s') a).
Proof.
  intros Hr Hp Hm.
  destruct i; cbn [exec reads writes In] in *;
    repeat match goal with
    | |- context [getreg s ?x] => rewrite (Hr x) by tauto
    end; rewrite ?Hp.
  1-4,6,8-9: (split; [|split]);
    [ intros r [<-|[]]; rewrite !getreg_setpc, !getreg_setreg;
      rewrite Z.eqb_refl; cbn [andb];
      match goal with |- context [negb (?x =? 0)] => destruct (x =? 0) eqn:E0 end; cbn [negb];
      [ apply Z.eqb_eq in E0; rewrite E0; reflexivity
      | rewrite ?(load_value_ext s s') by assumption; reflexivity ]
    | rewrite !getpc_setpc; reflexivity
    | intros a; rewrite !loadbyte_setpc, !loadbyte_setreg; apply Hm ].
  - (* branch *) destruct (branch_taken _ _ _); (split; [|split]); try (intros r []);
      try (rewrite !getpc_setpc; reflexivity); intros a; rewrite !loadbyte_setpc; apply Hm.
  - (* store *) split; [|split]; [intros r []| rewrite !getpc_setpc; reflexivity|].
    intros a. rewrite !loadbyte_setpc. now apply loadbyte_store_le_ext.
Qed.

(* ---- positional view: role of each decoded operand, per format ---- *)
Inductive role := RoleW | RoleR | RoleImm.

Definition fmt_roles (f : fmt) : list role :=
  match f with
  | FU _ | FJal => [RoleW; RoleImm]
  | FJalr | FI _ => [RoleW; RoleR; RoleImm]
  | FB _ => [RoleR; RoleR; RoleImm]
  | FL _ => [RoleW; RoleImm; RoleR]
  | FS _ => [RoleR; RoleImm; RoleR]
  | FR _ => [RoleW; RoleR; RoleR]
  end.

Definition role_eqb (a b : role) : bool :=
  match a, b with RoleW, RoleW | RoleR, RoleR | RoleImm, RoleImm => true | _, _ => false end.

Fixpoint sel (ro : role) (roles : list role) (args : list Z) : list Z :=
  match roles, args with
  | r :: roles', a :: args' => if role_eqb r ro then a :: sel ro roles' args' else sel ro roles' args'
  | _, _ => []
  end.

Lemma build_total f args : List.length args = List.length (fmt_roles f) -> exists i, build f args = Some i.
Proof.
  intros H. destruct f as [[]| | | | | | |]; cbn in H;
    destruct args as [|a1 [|a2 [|a3 [|a4 args]]]]; try discriminate; cbn; eauto.
Qed.

Lemma build_roles f args i : build f args = Some i ->
  writes i = sel RoleW (fmt_roles f) args /\ reads i = sel RoleR (fmt_roles f) args.
Proof.
  intros H. destruct f as [[]| | | | | | |];
    destruct args as [|a1 [|a2 [|a3 [|a4 args]]]]; try discriminate; cbn in H; inversion H; subst; cbn; auto.
Qed.
