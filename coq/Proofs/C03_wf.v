(* Proofs/C03_wf.v — soundness of the executable well-formedness checker (property C03):
   wf_function_b m f = true -> wf_function m f, using C25's correctness theorems for the
   reference reachability / dominance algorithm. *)
From PV Require Import Lib.Py Spec.IRSyntax Spec.CfgSpec Spec.IRWf Model.DomRef Model.IRWfCheck
  Proofs.C25_ref.
From Coq Require Import String.
Open Scope nat_scope.

Lemma mem_pos_In p l : mem_pos p l = true <-> In p l.
Proof.
  induction l as [|x r IH]; cbn; [split; [discriminate|tauto]|].
  rewrite orb_true_iff, IH, Pos.eqb_eq. split; intros [H|H]; auto.
Qed.
Lemma nodup_pos_NoDup l : nodup_pos l = true -> NoDup l.
Proof.
  induction l as [|x r IH]; cbn; [constructor|].
  rewrite andb_true_iff, negb_true_iff. intros [H1 H2]. constructor; auto.
  intro H. apply mem_pos_In in H. congruence.
Qed.
Lemma mem_str_In s l : mem_str s l = true <-> In s l.
Proof.
  induction l as [|x r IH]; cbn; [split; [discriminate|tauto]|].
  rewrite orb_true_iff, IH, String.eqb_eq. split; intros [H|H]; auto.
Qed.
Lemma nodup_str_NoDup l : nodup_str l = true -> NoDup l.
Proof.
  induction l as [|x r IH]; cbn; [constructor|].
  rewrite andb_true_iff, negb_true_iff. intros [H1 H2]. constructor; auto.
  intro H. apply mem_str_In in H. congruence.
Qed.
Lemma opt_ty_eqb_eq a b : opt_ty_eqb a b = true -> a = b.
Proof.
  destruct a, b; cbn; try discriminate; auto. intro H. apply ty_eqb_spec in H. congruence.
Qed.

Lemma shape_b_spec l : shape_b l = true ->
  exists body t, l = body ++ [t] /\ is_terminator t = true /\
                 forall i, In i body -> is_terminator i = false.
Proof.
  unfold shape_b. destruct (rev l) as [|t body] eqn:E; [discriminate|].
  rewrite andb_true_iff. intros [Ht Hb].
  exists (rev body), t. split; [|split; auto].
  - rewrite <- (rev_involutive l), E. reflexivity.
  - intros i Hi. apply in_rev in Hi. rewrite forallb_forall in Hb.
    apply Hb in Hi. now apply negb_true_iff in Hi.
Qed.

Lemma cfg_length f : List.length (cfg f) = List.length (f_blocks f).
Proof. unfold cfg. apply map_length. Qed.

Section S.
Variable m : modul.
Variable f : func.

Lemma dom_b_sound d w : dom_b f (avoid_tab (cfg f) 0) d w = true -> dominates (cfg f) 0 d w.
Proof.
  unfold dom_b. destruct (Nat.ltb d (List.length (f_blocks f))) eqn:E; intro H.
  - apply Nat.ltb_lt in E. rewrite dom_tab_ref in H by (rewrite cfg_length; exact E).
    now apply dom_ref_correct.
  - now apply dom_ref_correct.
Qed.

Lemma ref_ok_b_sound r : ref_ok_b m f r = true -> ref_ok m f r.
Proof.
  destruct r; cbn.
  - destruct (def_site f v); [eauto|discriminate].
  - apply Nat.ltb_lt.
  - apply mem_str_In.
  - discriminate.
Qed.

Lemma preds_of_spec k pb : In pb (preds_of f k) <-> is_pred f pb k.
Proof.
  unfold preds_of, is_pred. rewrite in_map_iff. split.
  - intros (k' & E & H). apply filter_In in H. destruct H as [H1 H2].
    apply mem_pos_In in H2. eauto.
  - intros (k' & H1 & E & H2). exists k'. split; auto. apply filter_In. split; auto.
    now apply mem_pos_In.
Qed.

Lemma phi_preds_b_sound k ins : phi_preds_b f k ins = true ->
  NoDup (map fst ins) /\ forall pb, In pb (map fst ins) <-> is_pred f pb k.
Proof.
  unfold phi_preds_b. rewrite !andb_true_iff, !forallb_forall. intros [[H1 H2] H3].
  split; [now apply nodup_pos_NoDup|]. intro pb. rewrite <- preds_of_spec. split; intro H.
  - apply mem_pos_In. auto.
  - apply mem_pos_In. auto.
Qed.

Lemma ty_is_sound r t : ty_is f r t = true -> ty_of f r = Some t.
Proof. unfold ty_is. apply opt_ty_eqb_eq. Qed.

Lemma args_typed : forall args ats,
  Nat.eqb (List.length args) (List.length ats) = true ->
  forallb (fun p => ty_is f (fst p) (snd p)) (combine args ats) = true ->
  map (ty_of f) args = map Some ats.
Proof.
  induction args as [|a r IH]; destruct ats as [|t ts]; cbn; try discriminate; auto.
  intros HL. rewrite andb_true_iff. intros [H1 H2]. apply ty_is_sound in H1.
  rewrite H1. f_equal. apply IH; auto.
Qed.

Lemma call_ok_b_sound c args rt : call_ok_b m f c args rt = true -> call_ok m f c args rt.
Proof.
  unfold call_ok_b, call_ok. destruct c; auto.
  destruct (sig_of m name) as [[ats r]|]; auto.
  rewrite !andb_true_iff. intros [[H1 H2] H3]. split.
  - now apply opt_ty_eqb_eq.
  - now apply args_typed.
Qed.

Lemma instr_typed_b_sound i : instr_typed_b m f i = true -> instr_typed m f i.
Proof.
  destruct i; cbn; auto; rewrite ?andb_true_iff.
  - intros [H1 H2]. split; now apply ty_is_sound.
  - apply ty_is_sound.
  - apply ty_is_sound.
  - apply ty_is_sound.
  - intros [H1 H2]. split; now apply ty_is_sound.
  - rewrite forallb_forall. intros H pb r Hin. apply (H (pb, r)) in Hin. now apply ty_is_sound.
  - intros [H1 H2]. split; [now apply ty_is_sound | now apply call_ok_b_sound].
  - intros [H1 H2]. split; [now apply ty_is_sound | now apply call_ok_b_sound].
  - apply opt_ty_eqb_eq.
  - destruct (f_ret f); [|discriminate]. intro H. exists t. split; auto. now apply ty_is_sound.
  - destruct (f_ret f); [discriminate|auto].
Qed.

Lemma dom_use_b_sound s v : dom_use_b f (avoid_tab (cfg f) 0) s (Loc v) = true ->
  exists bj q t, def_site f v = Some (bj, q, t) /\
    ((bj = s_bi s /\ q < s_pos s) \/ (bj <> s_bi s /\ dominates (cfg f) 0 bj (s_bi s))).
Proof.
  cbn. destruct (def_site f v) as [[[bj q] t]|]; [|discriminate].
  intro H. exists bj, q, t. split; auto.
  destruct (Nat.eqb bj (s_bi s)) eqn:E.
  - apply Nat.eqb_eq in E. apply Nat.ltb_lt in H. auto.
  - apply Nat.eqb_neq in E. right. split; auto. now apply dom_b_sound.
Qed.

Lemma dom_phi_b_sound pb w : dom_phi_b f (avoid_tab (cfg f) 0) (pb, Loc w) = true ->
  exists bj q t, def_site f w = Some (bj, q, t) /\ dominates (cfg f) 0 bj (bidx f pb).
Proof.
  unfold dom_phi_b. cbn. destruct (def_site f w) as [[[bj q] t]|]; [|discriminate].
  intro H. exists bj, q, t. split; auto. now apply dom_b_sound.
Qed.

Theorem wf_function_b_sound : wf_function_b m f = true -> wf_function m f.
Proof.
  unfold wf_function_b. rewrite !andb_true_iff.
  intros [[[[[[[H1 H2] H3] H4] H5] H6] H7] H8].
  cbv zeta in H8. rewrite forallb_forall in H8.
  assert (HS : forall s, In s (sites f) -> site_b m f (avoid_tab (cfg f) 0) s = true) by auto.
  clear H8.
  repeat split.
  - (* entry *) intro E. rewrite E in H1. discriminate.
  - (* block ids *) now apply nodup_pos_NoDup.
  - (* shape *) intros k Hk. rewrite forallb_forall in H3. apply shape_b_spec. auto.
  - (* targets *) intros k Hk b Hb. unfold targets_b in H4. rewrite forallb_forall in H4.
    specialize (H4 k Hk). rewrite forallb_forall in H4. specialize (H4 b Hb).
    apply mem_pos_In in H4. apply in_map_iff in H4. destruct H4 as (k' & E & Hin). eauto.
  - (* reachable *) intros n Hn. unfold reachable_b in H5. rewrite forallb_forall in H5.
    apply reachable_ref_correct. unfold reachable_ref. apply H5. apply in_seq. lia.
  - (* def ids *) now apply nodup_pos_NoDup.
  - (* names *) now apply nodup_str_NoDup.
  - (* defined *) intros s Hs r Hr. specialize (HS s Hs). unfold site_b in HS.
    rewrite !andb_true_iff in HS. destruct HS as [[HA _] _].
    rewrite forallb_forall in HA. apply ref_ok_b_sound. auto.
  - (* dom *) intros s Hs Hphi v Hv. specialize (HS s Hs). unfold site_b in HS.
    rewrite !andb_true_iff in HS. destruct HS as [[_ HB] _].
    apply dom_use_b_sound.
    destruct (s_ins s); try discriminate Hphi; rewrite forallb_forall in HB; apply HB; exact Hv.
  - (* dom phi *) intros s v n t ins Hs E pb w Hin. specialize (HS s Hs). unfold site_b in HS.
    rewrite E in HS. rewrite !andb_true_iff in HS. destruct HS as [[_ [HB _]] _].
    rewrite forallb_forall in HB. apply dom_phi_b_sound. apply HB. exact Hin.
  - (* phi preds: NoDup *) specialize (HS s H). unfold site_b in HS. rewrite H0 in HS.
    rewrite !andb_true_iff in HS. destruct HS as [[_ [_ HB]] _].
    apply phi_preds_b_sound in HB. apply HB.
  - specialize (HS s H). unfold site_b in HS. rewrite H0 in HS.
    rewrite !andb_true_iff in HS. destruct HS as [[_ [_ HB]] _].
    apply phi_preds_b_sound in HB. apply HB.
  - specialize (HS s H). unfold site_b in HS. rewrite H0 in HS.
    rewrite !andb_true_iff in HS. destruct HS as [[_ [_ HB]] _].
    apply phi_preds_b_sound in HB. apply HB.
  - (* types *) intros s Hs. specialize (HS s Hs). unfold site_b in HS.
    rewrite !andb_true_iff in HS. destruct HS as [_ HC]. now apply instr_typed_b_sound.
Qed.
End S.

Theorem wf_modul_b_sound m : wf_modul_b m = true -> wf_module m.
Proof.
  unfold wf_modul_b, wf_module. rewrite forallb_forall. intros H f Hf.
  apply wf_function_b_sound. auto.
Qed.
