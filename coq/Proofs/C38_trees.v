(* Proofs/C38_trees.v — whole constant expression trees: the recursion of
   ConstantFolder.is_const / eval_const (Model.ConstFold) through nested Binop and Cast
   instructions, against the run-time evaluation of the same tree under Spec.IRArith. *)
From PV Require Import Lib.Py Lib.Tac Spec.IRArith Model.PyOperator Gen.constfold Gen.constfold_ops Model.ConstFold
  Proofs.C38_constfold.
From Coq Require Import String.
Open Scope Z_scope.

(* a constant expression over integer types, as the front ends emit it before folding *)
Inductive cexp :=
  | CConst (v : Z) (t : ity)
  | CVar (t : ity)                          (* a value unknown at compile time: Parameter, Load, Phi, ... *)
  | CBin (op : binop) (t : ity) (a b : cexp)
  | CCast (t : ity) (src : cexp).

Definition cty (e : cexp) : ity :=
  match e with CConst _ t | CVar t | CBin _ t _ _ | CCast t _ => t end.

(* the IR value tree the pass sees *)
Fixpoint to_value (e : cexp) : value :=
  match e with
  | CConst v t => VConst v (typ_of t)
  | CVar t => VOther (typ_of t)
  | CBin op t a b => VBinop (to_value a) (opcode op) (to_value b) (typ_of t)
  | CCast t s => VCast (to_value s) (typ_of t)
  end.

(* well-formed IR: constants lie in the range of their type, operands of a Binop have the type of
   the Binop (ppci's verifier demands this); only operators of the folder's table *)
Fixpoint wt (e : cexp) : Prop :=
  match e with
  | CConst v t => 1 <= bits t /\ in_range t v
  | CVar t => 1 <= bits t
  | CBin op t a b => 1 <= bits t /\ handled op = true /\ cty a = t /\ cty b = t /\ wt a /\ wt b
  | CCast t s => 1 <= bits t /\ wt s
  end.

(* run-time evaluation of the tree, instruction by instruction *)
Fixpoint run (e : cexp) : option Z :=
  match e with
  | CConst v _ => Some v
  | CVar _ => None
  | CBin op t a b =>
      match run a, run b with
      | Some x, Some y => eval_binop op t x y
      | _, _ => None
      end
  | CCast t s => match run s with Some x => Some (eval_cast t x) | None => None end
  end.

Definition is_leaf (e : cexp) : bool := match e with CConst _ _ => true | _ => false end.

(* one Binop on evaluated operands: is_defined says yes and ops[op](ty, a, b) is the run-time value *)
Lemma apply_exact op t a b v : 1 <= bits t -> in_range t a -> in_range t b -> handled op = true ->
  eval_binop op t a b = Some v ->
  is_defined_ty (opcode op) (typ_of t) b = true /\ apply_op (opcode op) (typ_of t) a b = Ok v.
Proof.
  intros Hb Ha Hr Hh E. pose proof (fold_exact op t a b v Hb Ha Hr Hh E) as F. unfold fold in F.
  pose proof (handled_in_ops op) as I. rewrite Hh in I. unfold in_ops in I.
  destruct (assoc (opcode op) ops_table) as [f|] eqn:A; [|discriminate].
  destruct (is_defined_ty (opcode op) (typ_of t) b) eqn:D.
  - split; [reflexivity|].
    rewrite (bin_folds _ _ _ _ f A (typ_of_int t) D) in F. unfold apply_op. rewrite A.
    destruct (f a b); cbn [bind] in *; try discriminate.
    destruct (correct_ty a0 (typ_of t)); cbn [bind] in *; congruence.
  - rewrite (bin_undefined _ _ _ _ f A D) in F. discriminate.
Qed.

Lemma eval_binop_range op t a b v : 1 <= bits t -> in_range t a -> in_range t b -> handled op = true ->
  eval_binop op t a b = Some v -> in_range t v.
Proof.
  intros Hb Ha Hr Hh E. destruct op; try discriminate Hh; cbn [eval_binop] in E.
  - injection E as <-. now apply wrap_range.
  - injection E as <-. now apply wrap_range.
  - injection E as <-. now apply wrap_range.
  - destruct (div_defined t a b) eqn:D; [|discriminate]. injection E as <-.
    apply rem_range; try assumption. unfold div_defined in D. lia.
  - destruct ((0 <=? b) && (b <? bits t)); [|discriminate]. injection E as <-. now apply wrap_range.
  - destruct ((0 <=? b) && (b <? bits t)) eqn:D; [|discriminate]. injection E as <-.
    apply shr_range; try assumption. lia.
Qed.

(* the recursion: a well-formed tree that evaluates at run time is const for the folder, and
   eval_const computes the run-time value (of the tree's type, in range) *)
Lemma tree_eval e : forall v, wt e -> run e = Some v ->
  is_const (to_value e) = Ok true /\ eval_const (to_value e) = Ok (v, typ_of (cty e)) /\ in_range (cty e) v.
Proof.
  induction e as [c t | t | op t a IHa b IHb | t s IHs]; intros v W R; cbn [wt run to_value cty] in *.
  - destruct W as [Hb Hr]. injection R as <-. cbn [is_const eval_const]. auto.
  - discriminate R.
  - destruct W as (Hb & Hh & Ta & Tb & Wa & Wb).
    destruct (run a) as [x|]; [|discriminate]. destruct (run b) as [y|]; [|discriminate].
    destruct (IHa x Wa eq_refl) as (Ca & Ea & Ra). destruct (IHb y Wb eq_refl) as (Cb & Eb & Rb).
    rewrite Ta in Ea, Ra. rewrite Tb in Eb, Rb.
    destruct (apply_exact op t x y v Hb Ra Rb Hh R) as [D P].
    cbn [is_const eval_const]. rewrite <- (handled_in_ops op), Hh, Ca, Cb, Ea, Eb.
    cbn [negb bind typ_of t_int]. change (Typ false true false (bits t) (signed t)) with (typ_of t).
    rewrite D, typ_eqb_refl, P. unfold guard. cbn [bind].
    split; [reflexivity|]. split; [reflexivity|]. now apply (eval_binop_range op t x y).
  - destruct W as [Hb Ws]. destruct (run s) as [x|]; [|discriminate]. injection R as <-.
    destruct (IHs x Ws eq_refl) as (Cs & Es & Rs).
    cbn [is_const eval_const]. rewrite Cs, Es. cbn [bind]. rewrite cast_wrap by lia. cbn [bind].
    split; [reflexivity|]. split; [reflexivity|]. unfold eval_cast. now apply wrap_range.
Qed.

(* what the pass does with the instruction at the root of such a tree *)
Theorem tree_fold_exact e v : wt e -> is_leaf e = false -> run e = Some v ->
  on_instruction (to_value e) = Ok (Folded v (typ_of (cty e))) /\ in_range (cty e) v.
Proof.
  intros W L R. destruct (tree_eval e v W R) as (C & E & I). split; [|exact I].
  destruct e; [discriminate L|discriminate R| |]; cbn [to_value] in *; unfold on_instruction; rewrite C; cbn [bind]; rewrite E; reflexivity.
Qed.

(* ---- totality: any well-formed tree (constants, unknown values, casts, table operators; run-time
   evaluation defined or not) ---- *)
Lemma ty_of_to_value e : ty_of (to_value e) = typ_of (cty e).
Proof. destruct e; reflexivity. Qed.

Definition const_ok (e : cexp) : Prop :=
  is_const (to_value e) = Ok false \/
  exists v, is_const (to_value e) = Ok true /\ eval_const (to_value e) = Ok (v, typ_of (cty e)) /\ in_range (cty e) v.

Lemma tree_total e : wt e -> const_ok e.
Proof.
  unfold const_ok.
  induction e as [c t | t | op t a IHa b IHb | t s IHs]; intros W; cbn [wt to_value cty] in *.
  - right. exists c. cbn [is_const eval_const]. tauto.
  - left. reflexivity.
  - destruct W as (Hb & Hh & Ta & Tb & Wa & Wb).
    cbn [is_const eval_const]. rewrite <- (handled_in_ops op), Hh. cbn [negb typ_of t_int].
    destruct (IHa Wa) as [Ca | (x & Ca & Ea & Ra)]; rewrite Ca; cbn [bind negb]; [left; reflexivity|].
    destruct (IHb Wb) as [Cb | (y & Cb & Eb & Rb)]; rewrite Cb; cbn [bind negb]; [left; reflexivity|].
    rewrite Ta in Ea. rewrite Tb in Eb. rewrite Ea, Eb. cbn [bind].
    change (Typ false true false (bits t) (signed t)) with (typ_of t).
    destruct (is_defined_ty (opcode op) (typ_of t) y) eqn:D; [|left; reflexivity].
    right. pose proof (handled_in_ops op) as I. rewrite Hh in I. unfold in_ops in I.
    destruct (assoc (opcode op) ops_table) as [f|] eqn:A; [|discriminate].
    destruct (ops_defined_ok (opcode op) t x y f A D) as [r F].
    exists (wrap t r). split; [reflexivity|]. split; [|now apply wrap_range].
    rewrite typ_eqb_refl. unfold guard, apply_op. rewrite A, F. cbn [bind]. rewrite correct_wrap by lia. reflexivity.
  - destruct W as [Hb Ws]. cbn [is_const eval_const].
    destruct (IHs Ws) as [Cs | (x & Cs & Es & Rs)]; rewrite Cs; [left; reflexivity|].
    right. exists (wrap t x). split; [reflexivity|]. split; [|now apply wrap_range].
    rewrite Es. cbn [bind]. rewrite cast_wrap by lia. reflexivity.
Qed.

(* a chain rule on a well-formed tree: does not apply, or re-associates with an in-range constant *)
Lemma chain_total s e : wt e ->
  chain_cond s (to_value e) = Ok false \/
  (chain_cond s (to_value e) = Ok true /\
   exists y z c, chain_apply (to_value e) = Ok (Rechained y z c (typ_of (cty e))) /\ in_range (cty e) c).
Proof.
  intros W. destruct e as [c t | t | op t a b | t s0]; try (left; reflexivity).
  destruct a as [c t' | t' | opa ta y c1 | t' s0]; try (left; reflexivity).
  cbn [wt cty] in W. destruct W as (Hb & Hh & Ta & Tb & (Hb' & Hh' & Ty & Tc1 & Wy & Wc1) & Wc2). subst ta.
  cbn [to_value chain_cond chain_apply cty].
  destruct (opcode opa =? code_of s); cbn [negb]; [|left; reflexivity].
  destruct (tree_total c1 Wc1) as [C1 | (v1 & C1 & E1 & R1)]; rewrite C1; cbn [bind negb]; [left; reflexivity|].
  destruct (opcode op =? code_of s); cbn [negb]; [|left; reflexivity].
  destruct (tree_total b Wc2) as [C2 | (v2 & C2 & E2 & R2)]; rewrite C2; cbn [bind negb]; [left; reflexivity|].
  right. split; [reflexivity|]. rewrite Tc1 in E1. rewrite Tb in E2. rewrite E1, E2. cbn [bind].
  rewrite typ_eqb_refl. unfold guard. rewrite cast_wrap by lia. cbn [bind].
  rewrite ?typ_eqb_refl, ty_of_to_value, Ty, ?typ_eqb_refl.
  exists (to_value y), (opcode op), (wrap t (v1 + v2)). split; [reflexivity|]. now apply wrap_range.
Qed.

(* outcome of the pass on the root of ANY well-formed tree: never an exception; whatever constant
   it creates (fold or re-association) has the instruction's type and lies in its range *)
Definition good_outcome (t : ity) (o : outcome) : Prop :=
  match o with
  | Unchanged => True
  | Folded v ty => ty = typ_of t /\ in_range t v
  | Rechained _ _ c ty => ty = typ_of t /\ in_range t c
  end.

Theorem tree_never_raises e : wt e -> exists o, on_instruction (to_value e) = Ok o /\ good_outcome (cty e) o.
Proof.
  intros W.
  assert (G : forall c, is_const (to_value e) = Ok c ->
     (c = true -> exists v, eval_const (to_value e) = Ok (v, typ_of (cty e)) /\ in_range (cty e) v) ->
     exists o, (c0 <- is_const (to_value e) ;;
                if c0 then ' (v, ty) <- eval_const (to_value e) ;; Ok (Folded v ty)
                else p <- chain_cond "+" (to_value e) ;;
                     if p then chain_apply (to_value e)
                     else m <- chain_cond "-" (to_value e) ;; if m then chain_apply (to_value e) else Ok Unchanged) = Ok o
               /\ good_outcome (cty e) o).
  { intros c C K. rewrite C. cbn [bind]. destruct c.
    - destruct (K eq_refl) as (v & E & R). rewrite E. cbn [bind]. exists (Folded v (typ_of (cty e))). cbn. auto.
    - destruct (chain_total "+" e W) as [P | (P & y & z & c & A & R)]; rewrite P; cbn [bind].
      + destruct (chain_total "-" e W) as [M | (M & y & z & c & A & R)]; rewrite M; cbn [bind].
        * exists Unchanged. cbn. auto.
        * rewrite A. eexists; split; [reflexivity|]. cbn. auto.
      + rewrite A. eexists; split; [reflexivity|]. cbn. auto. }
  destruct (tree_total e W) as [C | (v & C & E & R)].
  - destruct e; [exists Unchanged; cbn; auto | | |]; unfold on_instruction; cbn [to_value];
      (apply (G false); [exact C | discriminate]).
  - destruct e; [exists Unchanged; cbn; auto | | |]; unfold on_instruction; cbn [to_value];
      (apply (G true); [exact C | intros _; exists v; auto]).
Qed.
