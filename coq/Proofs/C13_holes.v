(* Proofs/C13_holes.v — C13 (wave 5): the hole lists that Linker.do_relaxations hands to _apply_relaxation_holes
   satisfy the hypotheses of the shifting theorems.  For ANY object: if the candidate detection loop (scan_relocs,
   phase 1 of do_relaxations) succeeds, every recorded hole is (site offset + 2, 2); and if the relocation sites of a
   section are non-negative and at least 4 bytes apart (distinct 32-bit instruction sites), the sorted hole list of
   that section (holes_of = holes_map[section] after sorted()) is sorted, pairwise disjoint and of positive sizes:
   holes_ok 0 /\ holes_pos — the premises of c13_holes_shift_consistent and c13_relax_link_site_*. *)
From PV Require Import Lib.Py Lib.Tac Gen.bitfun Model.Reloc Model.Relax Proofs.C13_relax Proofs.C13_compose.
Open Scope Z_scope.

(* offsets of the relocations of section [sec], in list order *)
Definition offs_of (sec : Z) (rels : list relent) : list Z :=
  map r_off (filter (fun r => r_sec r =? sec) rels).

(* non-negative and pairwise at least 4 apart *)
Fixpoint apart (l : list Z) : Prop :=
  match l with
  | [] => True
  | x :: r => 0 <= x /\ Forall (fun y => 4 <= Z.abs (x - y)) r /\ apart r
  end.

(* holes of one section before sorting (holes_map[section] in append order) *)
Definition uholes (lst : list (hole * relent * rkind)) (sec : Z) : list hole :=
  map (fun x => fst (fst x)) (filter (fun x => r_sec (snd (fst x)) =? sec) lst).

Fixpoint hapart (l : list hole) : Prop :=
  match l with
  | [] => True
  | h :: r => 2 <= fst h /\ snd h = 2 /\ Forall (fun h' => 4 <= Z.abs (fst h - fst h')) r /\ hapart r
  end.

(* sorted, disjoint, every size 2 *)
Fixpoint hok (lo : Z) (l : list hole) : Prop :=
  match l with
  | [] => True
  | (ho, hs) :: r => lo <= ho /\ hs = 2 /\ hok (ho + 2) r
  end.

Lemma hok_holes_ok l : forall lo, hok lo l -> holes_ok lo l /\ holes_pos l.
Proof.
  induction l as [|[ho hs] r IH]; intros lo H; cbn in *; [auto|].
  destruct H as (H1 & -> & H3). destruct (IH _ H3). repeat split; auto; lia.
Qed.

(* ---- phase 1 records the hole (offset + 2, 2) for a relocation of the list *)
Lemma can_shrink_size k S P : can_shrink k S P = Ok true -> rk_size k = 4.
Proof. destruct k; cbn; intros H; try discriminate; reflexivity. Qed.

Lemma scan_step secs syms r rest secs' lst :
  scan_relocs secs syms (r :: rest) = Ok (secs', lst) ->
  (exists secs1, scan_relocs secs1 syms rest = Ok (secs', lst)) \/
  (exists secs1 lst' newk, scan_relocs secs1 syms rest = Ok (secs', lst') /\
     lst = ((r_off r + 2, 2), r, newk) :: lst').
Proof.
  cbn [scan_relocs]. intros H.
  destruct (get_symbol_id_value secs syms (r_sym r)) as [S| | |]; cbn [bind] in H; try discriminate.
  destruct (find_section secs (r_sec r)) as [sec| | |]; cbn [bind] in H; try discriminate.
  destruct (can_shrink (r_kind r) S (s_addr sec + r_off r)) as [[|]| | |] eqn:Ec; cbn [bind] in H; try discriminate.
  2: { left. eexists. exact H. }
  pose proof (can_shrink_size _ _ _ Ec) as Hsz. rewrite Hsz in H.
  unfold asrt, guard in H.
  destruct (len (sliceZ (s_data sec) (r_off r) (r_off r + 4)) =? 4); try discriminate.
  destruct (do_shrink (r_kind r) S (s_addr sec + r_off r) (sliceZ (s_data sec) (r_off r) (r_off r + 4)))
    as [[d2 newk]| | |]; cbn [bind] in H; try discriminate.
  destruct ((0 <=? 4 - len d2) && (4 - len d2 <=? 4)); try discriminate.
  destruct (Z.eqb_spec (r_off r + len d2 + len d2) (r_off r + 4)) as [E|]; try discriminate.
  match type of H with context [scan_relocs ?s1 syms rest] =>
    destruct (scan_relocs s1 syms rest) as [[secs'' lst']| | |] eqn:Er; cbn [bind] in H; try discriminate end.
  injection H as <- <-. right. do 3 eexists. split; [exact Er|].
  assert (E2 : len d2 = 2) by lia. rewrite E2. reflexivity.
Qed.

Lemma scan_in rels : forall secs syms secs' lst, scan_relocs secs syms rels = Ok (secs', lst) ->
  Forall (fun x => In (snd (fst x)) rels /\ fst (fst x) = (r_off (snd (fst x)) + 2, 2)) lst.
Proof.
  induction rels as [|r rest IH]; intros secs syms secs' lst H.
  - cbn in H. injection H as _ <-. constructor.
  - destruct (scan_step _ _ _ _ _ _ H) as [(s1 & H1) | (s1 & lst' & nk & H1 & ->)].
    + eapply Forall_impl; [|exact (IH _ _ _ _ H1)]. cbn. intros x (Ha & Hb). split; auto.
    + constructor; [cbn; auto|].
      eapply Forall_impl; [|exact (IH _ _ _ _ H1)]. cbn. intros x (Ha & Hb). split; auto.
Qed.

Lemma scan_apart sec rels : forall secs syms secs' lst, scan_relocs secs syms rels = Ok (secs', lst) ->
  apart (offs_of sec rels) -> hapart (uholes lst sec).
Proof.
  induction rels as [|r rest IH]; intros secs syms secs' lst H Ha.
  - cbn in H. injection H as _ <-. exact I.
  - assert (Ha' : apart (offs_of sec rest)).
    { unfold offs_of in *. cbn [filter] in Ha. destruct (r_sec r =? sec); [cbn in Ha; tauto|exact Ha]. }
    destruct (scan_step _ _ _ _ _ _ H) as [(s1 & H1) | (s1 & lst' & nk & H1 & ->)].
    + exact (IH _ _ _ _ H1 Ha').
    + unfold uholes. cbn [filter fst snd].
      destruct (Z.eqb_spec (r_sec r) sec) as [Es|Es]; [|exact (IH _ _ _ _ H1 Ha')].
      cbn [map fst snd hapart].
      unfold offs_of in Ha. cbn [filter] in Ha. rewrite (proj2 (Z.eqb_eq _ _) Es) in Ha. cbn [map apart] in Ha.
      destruct Ha as (H0 & HF & _).
      split; [lia|]. split; [reflexivity|]. split; [|exact (IH _ _ _ _ H1 Ha')].
      pose proof (scan_in _ _ _ _ _ H1) as Hin.
      rewrite Forall_forall in *. intros h Hh.
      apply in_map_iff in Hh. destruct Hh as (x & <- & Hx). apply filter_In in Hx. destruct Hx as (Hx & Hs).
      destruct (Hin x Hx) as (Hr & Hh). destruct x as [[[xo xs] xr] xk]. cbn [fst snd] in *.
      injection Hh as -> ->.
      assert (H2 : In (r_off xr) (map r_off (filter (fun r0 => r_sec r0 =? sec) rest))).
      { apply in_map. apply filter_In. split; assumption. }
      specialize (HF _ H2). lia.
Qed.

(* ---- sorted(holes) *)
Lemma insert_in h l x : In x (insert_hole h l) -> x = h \/ In x l.
Proof.
  induction l as [|y r IH]; cbn; intros H.
  - destruct H; [left; auto|contradiction].
  - destruct (fst h <=? fst y); cbn in H.
    + destruct H as [H|[H|H]]; auto.
    + destruct H as [H|H]; auto. destruct (IH H); auto.
Qed.

Lemma sort_in l x : In x (sort_holes l) -> In x l.
Proof.
  induction l as [|h r IH]; cbn; intros H; [exact H|].
  destruct (insert_in _ _ _ H); auto.
Qed.

Lemma insert_hok l : forall lo ho, hok lo l -> lo <= ho -> Forall (fun x => 4 <= Z.abs (ho - fst x)) l ->
  hok lo (insert_hole (ho, 2) l).
Proof.
  induction l as [|[xo xs] r IH]; intros lo ho H Hlo HF; cbn [insert_hole fst].
  - cbn. auto.
  - destruct H as (H1 & -> & H3). inversion HF as [|? ? Hx HF']; subst. cbn [fst] in Hx.
    destruct (Z.leb_spec ho xo).
    + cbn [hok]. repeat split; auto; lia.
    + cbn [hok]. repeat split; auto. apply IH; auto. lia.
Qed.

Lemma sort_hok l : hapart l -> hok 0 (sort_holes l).
Proof.
  induction l as [|[ho hs] r IH]; cbn [sort_holes hapart fst snd]; intros H; [exact I|].
  destruct H as (H1 & -> & HF & Hr). apply insert_hok; [auto|lia|].
  rewrite Forall_forall in *. intros x Hx. apply HF. apply sort_in. exact Hx.
Qed.

(* ---- the holes of every section, as produced by do_relaxations, are sorted, disjoint, positive *)
Theorem holes_of_ok secs syms rels secs' lst sec :
  scan_relocs secs syms rels = Ok (secs', lst) -> apart (offs_of sec rels) ->
  holes_ok 0 (holes_of lst sec) /\ holes_pos (holes_of lst sec).
Proof.
  intros H Ha. apply hok_holes_ok. apply sort_hok. exact (scan_apart _ _ _ _ _ _ H Ha).
Qed.

(* every hole is the second halfword of a relocation site of that section *)
Theorem holes_of_sites secs syms rels secs' lst sec h :
  scan_relocs secs syms rels = Ok (secs', lst) -> In h (holes_of lst sec) ->
  exists r, In r rels /\ r_sec r = sec /\ h = (r_off r + 2, 2).
Proof.
  intros H Hh. apply sort_in in Hh. apply in_map_iff in Hh. destruct Hh as (x & <- & Hx).
  apply filter_In in Hx. destruct Hx as (Hx & Hs).
  pose proof (scan_in _ _ _ _ _ H) as Hin. rewrite Forall_forall in Hin. destruct (Hin x Hx) as (Hr & Hh).
  exists (snd (fst x)). repeat split; auto. lia.
Qed.

(* the hypotheses are inhabited with a non-empty hole list: two jumps 8 bytes apart in one section, both shrunk *)
Lemma holes_of_nonvacuous :
  let secs := [mkSec 1 0 [111; 0; 0; 0; 19; 0; 0; 0; 111; 0; 0; 0; 19; 0; 0; 0]] in
  let syms := [mkSym 1 false (Some 1) 4] in
  let rels := [mkRel RvcCBImm11 1 1 8 0; mkRel RvcCBImm11 1 1 0 0] in
  apart (offs_of 1 rels) /\
  exists secs' lst, scan_relocs secs syms rels = Ok (secs', lst) /\ holes_of lst 1 = [(2, 2); (10, 2)].
Proof.
  cbn zeta. split.
  - cbn. repeat split; try lia. constructor; [cbn; lia|constructor]. constructor.
  - eexists. eexists. split; vm_compute; reflexivity.
Qed.
