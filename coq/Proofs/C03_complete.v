(* Proofs/C03_complete.v — completeness of the (model of the) ppci verifier on the phi-free fragment:
   a function without phi instructions that the verified checker wf_function_b accepts is accepted by
   verify_function (every repair configuration), given the bookkeeping derived from the instructions
   (stored uses = operands, stored predecessors = blocks with an edge).  With the repaired verifier
   and the representation invariants repr_ok, acceptance conversely implies IRWf.wf_function.
   EXCLUDED from the fragment: functions containing ir.Phi (so: values merged at joins / carried
   around loops); calls, branches, self loops, critical edges, unreachable-free CFGs are included. *)
From PV Require Import Lib.Py Spec.IRSyntax Spec.CfgSpec Spec.IRWf Model.DomRef Model.IRWfCheck
  Model.Verify Proofs.C25_ref Proofs.C03_wf Proofs.C03_verify.
From Coq Require Import String.
Open Scope nat_scope.
Open Scope list_scope.


(* the bookkeeping state derived from the instructions: stored uses = operands (in operand order),
   stored predecessors = blocks with an edge to the block *)
Definition st_of (f : func) : vstate :=
  mk_vstate (map (fun k => map instr_uses (b_ins k)) (f_blocks f)) (map (preds_of f) (f_blocks f)).

(* the fragment: no phi instructions (straight-line code, branches, joins without values, calls) *)
Definition phi_free (f : func) : bool := forallb (fun i => negb (is_phi i)) (func_instrs f).

Lemma all_ok_intro {A} (chk : A -> result unit) l :
  (forall x, In x l -> chk x = Ok tt) -> all_ok chk l = Ok tt.
Proof.
  induction l as [|y r IH]; cbn; auto. intro H. rewrite (H y (or_introl eq_refl)). cbn.
  apply IH. intros x Hx. apply H. now right.
Qed.

Lemma site_nth f s : In s (sites f) ->
  nth_error (f_blocks f) (s_bi s) = Some (s_blk s) /\
  nth_error (b_ins (s_blk s)) (s_pos s) = Some (s_ins s).
Proof.
  unfold sites. rewrite in_flat_map. intros ((bi, k) & H1 & H2).
  unfold block_sites in H2. apply in_map_iff in H2. destruct H2 as ((p, i) & E & Hin).
  subst s. cbn in *. split; [now apply enum_nth|now apply enum_nth].
Qed.

Lemma nth_of_nth_error {A} (l : list A) i x d : nth_error l i = Some x -> nth i l d = x.
Proof. revert i. induction l; destruct i; cbn; try discriminate; [congruence|auto]. Qed.

Lemma uses_at_st f s : In s (sites f) ->
  uses_at (st_of f) (s_bi s) (s_pos s) = instr_uses (s_ins s).
Proof.
  intro Hs. destruct (site_nth f s Hs) as [H1 H2]. unfold uses_at, st_of. cbn.
  erewrite (nth_of_nth_error _ (s_bi s)); [|erewrite map_nth_error; [reflexivity|exact H1]].
  erewrite (nth_of_nth_error _ (s_pos s)); [reflexivity|].
  erewrite map_nth_error; [reflexivity|exact H2].
Qed.
Lemma preds_at_st f bi k : nth_error (f_blocks f) bi = Some k -> preds_at (st_of f) bi = preds_of f k.
Proof.
  intro H. unfold preds_at, st_of. cbn.
  erewrite (nth_of_nth_error _ bi); [reflexivity|]. erewrite map_nth_error; [reflexivity|exact H].
Qed.

Lemma site_of_instr f bi k i : In (bi, k) (enum (f_blocks f)) -> In i (b_ins k) ->
  exists s, In s (sites f) /\ s_ins s = i /\ s_blk s = k /\ s_bi s = bi.
Proof.
  intros Hk Hi. destruct (enum_In _ _ Hi) as [p Hp].
  exists (mk_site bi k p i). repeat split. unfold sites. apply in_flat_map.
  exists (bi, k). split; auto. unfold block_sites. apply in_map_iff. exists (p, i). auto.
Qed.

Lemma forallb_mem_refl l : forallb (fun b => mem_pos b l) l = true.
Proof. apply forallb_forall. intros x Hx. now apply mem_pos_In. Qed.
Lemma vref_mem_intro r l : In r l -> vref_mem r l = true.
Proof. intro H. unfold vref_mem. apply existsb_exists. exists r. split; auto. now apply vref_eqb_spec. Qed.

Lemma nodup_app_disj {A} (a b : list A) : NoDup (a ++ b) -> forall x, In x a -> In x b -> False.
Proof.
  induction a as [|y r IH]; cbn; [tauto|]. intros H x [->|Hx] Hb.
  - inversion H; subst. apply H2. apply in_app_iff. auto.
  - inversion H; subst. eauto.
Qed.
Lemma nodup_app_r {A} (a b : list A) : NoDup (a ++ b) -> NoDup b.
Proof. induction a; cbn; auto. intro H. inversion H; auto. Qed.
Lemma nodup_app_l {A} (a b : list A) : NoDup (a ++ b) -> NoDup a.
Proof.
  induction a as [|y r IH]; cbn; [constructor|]. intro H. inversion H; subst. constructor; auto.
  intro. apply H2. apply in_app_iff. auto.
Qed.

(* an element of a duplicate-free list does not occur in the prefix before it *)
Lemma prefix_fresh {A} (g : A -> list string) base L idx s n :
  NoDup (base ++ flat_map g L) -> nth_error L idx = Some s -> In n (g s) ->
  ~ In n (base ++ flat_map g (firstn idx L)).
Proof.
  intros N Hs Hn.
  assert (E : L = firstn idx L ++ s :: skipn (S idx) L).
  { clear N Hn. revert idx Hs. induction L as [|y r IH]; destruct idx; cbn; try discriminate.
    - intro H. injection H as ->. reflexivity.
    - intro H. f_equal. now apply IH. }
  rewrite E in N at 1. rewrite flat_map_app in N. cbn in N. rewrite app_assoc in N.
  intro Hin. apply (nodup_app_disj _ _ N n Hin). apply in_app_iff. left. exact Hn.
Qed.


Lemma mem_str_notin s l : ~ In s l -> mem_str s l = false.
Proof. intro H. destruct (mem_str s l) eqn:E; auto. apply mem_str_In in E. contradiction. Qed.
Lemma check_true e : check true e = Ok tt.
Proof. reflexivity. Qed.

Section C.
Variable vx : vfixes.
Variable m : modul.
Variable f : func.

Lemma types_complete i : instr_typed_b m f i = true -> check_types vx m f i = Ok tt.
Proof.
  destruct i; cbn; auto; rewrite ?andb_true_iff.
  - intros [-> ->]. reflexivity.
  - intros ->. destruct (vx_unop vx); reflexivity.
  - intros ->. reflexivity.
  - intros ->. reflexivity.
  - intros ->. reflexivity.
  - intros [_ H]. unfold call_ok_b in H. unfold check_call. destruct callee; auto.
    destruct (sig_of m name) as [[ats r]|]; auto. rewrite !andb_true_iff in H.
    destruct H as [[H1 H2] H3]. apply opt_ty_eqb_eq in H1. subst r. rewrite H2, H3.
    assert (E : ty_eqb t t = true) by now apply ty_eqb_spec. rewrite E. reflexivity.
  - intros [_ H]. unfold call_ok_b in H. unfold check_call. destruct callee; auto.
    destruct (sig_of m name) as [[ats r]|]; auto. rewrite !andb_true_iff in H.
    destruct H as [[H1 H2] H3]. apply opt_ty_eqb_eq in H1. subst r. rewrite H2, H3. reflexivity.
  - intros ->. reflexivity.
Qed.

Hypothesis HW : wf_function_b m f = true.
Hypothesis HP : phi_free f = true.

Lemma site_not_phi s : In s (sites f) -> is_phi (s_ins s) = false.
Proof.
  intro Hs. unfold phi_free in HP. rewrite forallb_forall in HP.
  apply negb_true_iff. apply HP. rewrite <- sites_instrs. now apply in_map.
Qed.

Lemma wf_parts :
  negb (Nat.eqb (List.length (f_blocks f)) 0) = true /\
  (forall k, In k (f_blocks f) -> shape_b (b_ins k) = true) /\
  reachable_b f = true /\
  NoDup (bnames f ++ flat_map site_names (sites f)) /\
  (forall s, In s (sites f) -> site_b m f (avoid_tab (cfg f) 0) s = true).
Proof.
  unfold wf_function_b in HW. rewrite !andb_true_iff in HW.
  destruct HW as [[[[[[[H1 H2] H3] H4] H5] H6] H7] H8]. cbv zeta in H8.
  rewrite forallb_forall in H8. rewrite forallb_forall in H3.
  repeat split; auto. rewrite sites_names. now apply nodup_str_NoDup.
Qed.

Lemma c_block_head bk : In bk (enum (f_blocks f)) -> check_block_head f bk = Ok tt.
Proof.
  destruct bk as [bi k]. intro Hk. destruct wf_parts as (_ & HS & _ & ND & HB).
  pose proof (enum_nth _ _ _ Hk) as Hn.
  assert (Hin : In k (f_blocks f)) by (eapply nth_error_In; eauto).
  unfold check_block_head.
  assert (E : forall l, flat_map (fun k : block => [b_name k]) l = map b_name l)
    by (induction l; cbn; congruence).
  assert (F : mem_str (b_name k) (firstn bi (bnames f)) = false).
  { apply mem_str_notin. unfold bnames. rewrite firstn_map, <- E.
    apply (prefix_fresh (fun k : block => [b_name k]) [] (f_blocks f) bi k (b_name k)); auto.
    - cbn. rewrite E. apply nodup_app_l in ND. exact ND.
    - now left. }
  rewrite F. cbn.
  specialize (HS k Hin). unfold shape_b in HS.
  destruct (rev (b_ins k)) as [|t body] eqn:R; [discriminate|].
  apply andb_true_iff in HS. destruct HS as [Ht Hb]. rewrite Ht, Hb. cbn.
  assert (Hti : In t (b_ins k)) by (apply in_rev; rewrite R; now left).
  destruct (site_of_instr f bi k t Hk Hti) as (s & Hs & Es & _).
  specialize (HB s Hs). unfold site_b in HB. rewrite !andb_true_iff in HB.
  destruct HB as [_ HT]. rewrite Es in HT.
  destruct t; try reflexivity; cbn in HT.
  - destruct (f_ret f); [|discriminate]. unfold ty_is in HT. rewrite HT. reflexivity.
  - destruct (f_ret f); [discriminate|reflexivity].
Qed.

Lemma c_preds_match bk : In bk (enum (f_blocks f)) -> preds_match f (st_of f) bk = true.
Proof.
  destruct bk as [bi k]. intro Hk. unfold preds_match.
  rewrite (preds_at_st f bi k (enum_nth _ _ _ Hk)). now rewrite forallb_mem_refl.
Qed.

Lemma c_phi_inputs s : In s (sites f) -> check_phi_inputs vx (st_of f) s = Ok tt.
Proof.
  intro Hs. pose proof (site_not_phi s Hs) as P. unfold check_phi_inputs.
  destruct (s_ins s); try reflexivity. discriminate P.
Qed.

Lemma dom_b_complete d w : dom_b f (avoid_tab (cfg f) 0) d w = true -> dom_ref (cfg f) 0 d w = true.
Proof. intro H. apply dom_ref_correct. now apply dom_b_sound. Qed.

Lemma c_dominates s r : In s (sites f) -> In r (instr_uses (s_ins s)) ->
  bind (instruction_dominates vx f r s) assert_ = Ok tt.
Proof.
  intros Hs Hr. destruct wf_parts as (_ & _ & _ & _ & HB).
  pose proof (site_not_phi s Hs) as P.
  specialize (HB s Hs). unfold site_b in HB. rewrite !andb_true_iff in HB.
  destruct HB as [[HA HD] _]. rewrite forallb_forall in HA. specialize (HA r Hr).
  assert (HD' : dom_use_b f (avoid_tab (cfg f) 0) s r = true).
  { destruct (s_ins s); try discriminate P; rewrite forallb_forall in HD; apply HD; exact Hr. }
  destruct r; cbn in *; try reflexivity; [|discriminate].
  destruct (def_site f v) as [[[bj q] t]|]; [|discriminate].
  assert (DP : dominates_plain f bj q (s_bi s) (s_pos s) = true).
  { unfold dominates_plain. destruct (Nat.eqb bj (s_bi s)) eqn:E; auto.
    unfold sdom_b. rewrite (dom_b_complete _ _ HD'), E. reflexivity. }
  destruct (s_ins s); try discriminate P; cbn; rewrite DP; reflexivity.
Qed.

Lemma c_instruction is : In is (enum (sites f)) -> verify_instruction vx m f (st_of f) is = Ok tt.
Proof.
  destruct is as [idx s]. intro Hi. pose proof (enum_nth _ _ _ Hi) as Hn.
  assert (Hs : In s (sites f)) by (eapply nth_error_In; eauto).
  destruct wf_parts as (_ & _ & _ & ND & HB).
  unfold verify_instruction.
  assert (N : match instr_def (s_ins s) with
              | Some d => assert_ (negb (mem_str (def_name d) (bnames f ++ vnames_before f idx)))
              | None => Ok tt
              end = Ok tt).
  { destruct (instr_def (s_ins s)) as [d|] eqn:E; auto.
    rewrite mem_str_notin; [reflexivity|]. unfold vnames_before.
    apply (prefix_fresh site_names (bnames f) (sites f) idx s (def_name d)); auto.
    unfold site_names. rewrite E. now left. }
  rewrite (uses_at_st f s Hs), N. cbn [bind].
  specialize (HB s Hs). unfold site_b in HB. rewrite !andb_true_iff in HB. destruct HB as [_ HT].
  rewrite (types_complete _ HT). cbn [bind].
  assert (U : (if vx_uses vx
               then assert_ (forallb (fun r => vref_mem r (instr_uses (s_ins s))) (instr_uses (s_ins s))
                             && forallb (fun r => vref_mem r (instr_uses (s_ins s))) (instr_uses (s_ins s)))
               else Ok tt) = Ok tt).
  { destruct (vx_uses vx); auto.
    assert (Q : forallb (fun r => vref_mem r (instr_uses (s_ins s))) (instr_uses (s_ins s)) = true)
      by (apply forallb_forall; intros r Hr; now apply vref_mem_intro).
    rewrite Q. reflexivity. }
  cbv zeta. rewrite U. cbn [bind].
  apply all_ok_intro. intros r Hr. now apply c_dominates.
Qed.

Theorem verifier_complete_phi_free : verify_function vx m f (st_of f) = Ok tt.
Proof.
  unfold verify_function.
  rewrite (all_ok_intro _ _ c_block_head). cbn.
  destruct wf_parts as (H1 & _ & H3 & _). rewrite H1, H3. cbn.
  assert (PM : forallb (preds_match f (st_of f)) (enum (f_blocks f)) = true)
    by (apply forallb_forall; apply c_preds_match).
  rewrite PM. cbn. rewrite (all_ok_intro _ _ c_phi_inputs). cbn.
  apply all_ok_intro. apply c_instruction.
Qed.
End C.


(* what the verifier cannot see because it is fixed by the representation: ids are assigned by the
   importer, jump targets / parameters / module-level names are object references, and the pointer
   type of CopyBlob operands and callees is enforced by the constructors of ir.py *)
Definition repr_ok (m : modul) (f : func) : Prop :=
  wf_block_ids f /\ wf_targets f /\ wf_def_ids f /\
  (forall s, In s (sites f) -> forall r, In r (instr_uses (s_ins s)) ->
     match r with
     | Param n => n < List.length (f_params f)
     | Glob g => In g (global_names m)
     | _ => True
     end) /\
  (forall s, In s (sites f) ->
     match s_ins s with
     | ICopyBlob d s0 _ => ty_of f d = Some Ptr /\ ty_of f s0 = Some Ptr
     | ICallF _ _ _ c _ | ICallP c _ => ty_of f c = Some Ptr
     | _ => True
     end).

Theorem verifier_fixed_sound_phi_free m f st :
  phi_free f = true -> repr_ok m f ->
  verify_function v_all_fixed m f st = Ok tt -> wf_function m f.
Proof.
  intros HP (R1 & R2 & R3 & R4 & R5) HV.
  destruct (verifier_fixed_sound m f st HV)
    as ((G1 & G2 & G3 & G4 & G5 & G6 & G7 & G8 & G9) & HC & PE & DP & UT).
  assert (NP : forall s, In s (sites f) -> is_phi (s_ins s) = false).
  { intros s Hs. unfold phi_free in HP. rewrite forallb_forall in HP.
    apply negb_true_iff. apply HP. rewrite <- sites_instrs. now apply in_map. }
  repeat split; auto.
  - (* defined *) intros s Hs r Hr. specialize (G5 s Hs r Hr). specialize (R4 s Hs r Hr).
    destruct r; cbn; auto.
  - (* phi preds: no phis *) specialize (NP s H). rewrite H0 in NP. discriminate.
  - specialize (NP s H). rewrite H0 in NP. discriminate.
  - specialize (NP s H). rewrite H0 in NP. discriminate.
  - (* types *) intros s Hs. specialize (G9 s Hs). specialize (R5 s Hs).
    destruct (s_ins s) eqn:E; cbn in *; auto.
    + eapply UT; eauto.
Qed.

(* on the phi-free fragment: accepted by the checker => accepted by the verifier (every configuration,
   derived bookkeeping) => well-formed (repaired verifier, representation invariants) *)
Theorem verifier_iff_wf_partial m f :
  phi_free f = true ->
  (wf_function_b m f = true -> forall vx, verify_function vx m f (st_of f) = Ok tt) /\
  (repr_ok m f -> verify_function v_all_fixed m f (st_of f) = Ok tt -> wf_function m f).
Proof.
  intro HP. split.
  - intros HW vx. now apply verifier_complete_phi_free.
  - intros HR HV. eapply verifier_fixed_sound_phi_free; eauto.
Qed.

(* a phi-free well-formed function (hypotheses inhabited) *)
Definition w5 : func := mk_func "f" BGlobal (Some I32) [("a", I32)]
  [mk_block 1 "entry" [IConst 1 "c" I32 (CInt 1); ICJump (Param 0) Ceq (Loc 1) 2 3];
   mk_block 2 "yes" [IBinop 2 "x" I32 Mul (Param 0) (Loc 1); IReturn (Loc 2)];
   mk_block 3 "no" [IUnop 3 "u" I32 Neg (Loc 1); IJump 3]].
Lemma w5_ok : wf_function_b (mod_of w5) w5 = true /\ phi_free w5 = true.
Proof. split; vm_compute; reflexivity. Qed.
