(* Proofs/C23_mem.v — load / store rows of ppci2wasm against WasmMemSpec and IRSem (C23). *)
From Coq Require Import ZArith List Bool Lia.
Import ListNotations.
From PV Require Import Lib.Py Lib.Tac.
From PV Require Import Spec.IRSyntax Spec.IRSem Spec.WasmNumSpec Spec.WasmMemSpec.
From PV Require Import Model.Ir2WasmOps Model.Ir2WasmMem Proofs.C23_ops.
Open Scope Z_scope.

Lemma le_value_decode : forall l, le_value l = le_decode l.
Proof. induction l as [|b l IH]; simpl; [reflexivity|rewrite IH; reflexivity]. Qed.
Lemma le_bytes_encode : forall n v, le_bytes n v = le_encode v n.
Proof. induction n; intros; simpl; [reflexivity|]. rewrite IHn. reflexivity. Qed.

Lemma le_decode_range : forall l, Forall (fun b => 0 <= b < 256) l ->
  0 <= le_decode l < 2 ^ (8 * Z.of_nat (length l)).
Proof.
  induction 1 as [|b l Hb Hl IH].
  - simpl. lia.
  - change (le_decode (b :: l)) with (b + 256 * le_decode l).
    replace (8 * Z.of_nat (length (b :: l))) with (8 + 8 * Z.of_nat (length l))
      by (simpl length; rewrite Nat2Z.inj_succ; lia).
    rewrite Z.pow_add_r by lia. change (2 ^ 8) with 256.
    set (P := 2 ^ (8 * Z.of_nat (length l))) in *. clearbody P. cbv beta in Hb. lia.
Qed.

Lemma le_encode_mod : forall n x, le_encode (x mod 2 ^ (8 * Z.of_nat n)) n = le_encode x n.
Proof.
  induction n; intros x; [reflexivity|].
  cbn [le_encode].
  replace (8 * Z.of_nat (S n)) with (8 + 8 * Z.of_nat n) by (rewrite Nat2Z.inj_succ; lia).
  rewrite Z.pow_add_r by lia. change (2 ^ 8) with 256.
  set (P := 2 ^ (8 * Z.of_nat n)).
  assert (HP : 0 < P) by (apply Z.pow_pos_nonneg; lia).
  f_equal.
  - rewrite <- Znumtheory.Zmod_div_mod; try lia. exists P. lia.
  - rewrite <- (IHn (x / 256)). fold P. f_equal.
    rewrite Z.rem_mul_r by lia. rewrite (Z.mul_comm 256 ((x / 256) mod P)).
    rewrite Z.div_add by lia.
    rewrite (Z.div_small (x mod 256) 256) by (apply Z.mod_pos_bound; lia). lia.
Qed.

Lemma in_firstn' : forall (x : Z) n l, In x (firstn n l) -> In x l.
Proof. intros x n l H. rewrite <- (firstn_skipn n l). apply in_or_app. left; exact H. Qed.
Lemma in_skipn' : forall (x : Z) n l, In x (skipn n l) -> In x l.
Proof. intros x n l H. rewrite <- (firstn_skipn n l). apply in_or_app. right; exact H. Qed.

Lemma firstn_skipn_bytes : forall mem a n, byte_mem mem -> 0 <= a -> a + Z.of_nat n <= mlen mem ->
  let bs := firstn n (skipn (Z.to_nat a) mem) in
  length bs = n /\ Forall (fun b => 0 <= b < 256) bs.
Proof.
  intros mem a n B Ha Hl. unfold mlen in Hl. split.
  - rewrite firstn_length, skipn_length. lia.
  - apply Forall_forall. intros x Hx. unfold byte_mem in B. rewrite Forall_forall in B. apply B.
    apply in_firstn' in Hx. apply in_skipn' in Hx. exact Hx.
Qed.

Section Rows.
Variable c : cfg.
Hypothesis Hp : ptr_bytes c = 4.

Ltac ifs :=
  repeat match goal with
         | |- context [if ?x then _ else _] => destruct x eqn:?
         end.

Theorem load_good_sound : forall r, load_good r = true -> load_row c r.
Proof.
  intros [[[t cw] n] sx] G. unfold load_good in G.
  destruct (container t) as [cw'|] eqn:C; [|discriminate].
  repeat (apply andb_true_iff in G; destruct G as [G ?]).
  assert (cw = cw') by (destruct cw, cw'; simpl in G; congruence). subst cw'.
  apply Nat.eqb_eq in H1. subst n.
  split.
  { destruct t; simpl in C; try discriminate; simpl; rewrite ?Hp; reflexivity. }
  intros mem a B Ha Hl.
  destruct (firstn_skipn_bytes mem a (bytes_of t) B Ha Hl) as [Len Byt].
  pose proof (le_decode_range _ Byt) as R. rewrite Len in R.
  set (u := le_decode (firstn (bytes_of t) (skipn (Z.to_nat a) mem))) in *.
  unfold mem_load. rewrite Z.add_0_r.
  replace (a + Z.of_nat (bytes_of t) <=? mlen mem) with true by (symmetry; apply Z.leb_le; lia).
  rewrite le_value_decode. fold u. clearbody u.
  unfold wrap_ty, int_shape. 
  destruct t; simpl in C; try discriminate; inversion C; subst cw;
    cbn [ty_is_int ty_bits ty_signed bytes_of] in *; rewrite ?Hp;
    destruct sx; simpl in H; try discriminate;
    eexists; (split; [reflexivity|]); f_equal;
    unfold rep, wrap_bits; cbn [bits andb]; simpl Z.of_nat in *; pows; ifs; lia.
Qed.

Theorem store_good_sound : forall r, store_good r = true -> store_row c r.
Proof.
  intros [[t cw] n] G. unfold store_good in G.
  destruct (container t) as [cw'|] eqn:C; [|discriminate].
  repeat (apply andb_true_iff in G; destruct G as [G ?]).
  assert (cw = cw') by (destruct cw, cw'; simpl in G; congruence). subst cw'.
  apply Nat.eqb_eq in H0. subst n.
  split.
  { destruct t; simpl in C; try discriminate; simpl; rewrite ?Hp; reflexivity. }
  intros mem a v Hv Ha Hl.
  unfold mem_store. rewrite Z.add_0_r.
  replace (a + Z.of_nat (bytes_of t) <=? mlen mem) with true by (symmetry; apply Z.leb_le; lia).
  rewrite le_bytes_encode, le_encode_mod.
  f_equal. f_equal. f_equal.
  rewrite <- (le_encode_mod (bytes_of t) v), <- (le_encode_mod (bytes_of t) (rep cw v)).
  f_equal. unfold rep.
  destruct t; simpl in C; try discriminate; inversion C; subst cw;
    cbn [bytes_of bits]; simpl Z.of_nat; pows; lia.
Qed.
End Rows.
