(* Proofs/C05_rules.v — C05: soundness of the exported riscv instruction-selection rules (Gen/Tab_rv_patterns.v)
   whose tree is an integer binary operator over registers / a constant, or a constant, by a syntactic check
   [check_rule] (reflection over the table) + the per-opcode lemmas of C05_arith.v; the large-immediate
   materialisation of Li. *)
From PV Require Import Lib.Py Lib.Tac Spec.IRSyntax Spec.IRSem Spec.RV32Decode Spec.RV32Exec Model.RvRules
  Proofs.C07_exec Proofs.C05_arith.
From Coq Require Import String.
Open Scope Z_scope.
Open Scope list_scope.

(* ---- reading of the tree patterns ---- *)
Inductive leaf := LChild (k : nat) | LConst (p : list nat).
Inductive tsem := SemBin (o : binop) (t : ty) (l r : leaf) | SemConst (t : ty).

Definition ty_of (s : string) : option ty :=
  if String.eqb s "I8" then Some I8 else if String.eqb s "I16" then Some I16 else if String.eqb s "I32" then Some I32
  else if String.eqb s "U8" then Some U8 else if String.eqb s "U16" then Some U16 else if String.eqb s "U32" then Some U32
  else None.

Definition binop_of (s : string) : option binop :=
  if String.eqb s "ADD" then Some Add else if String.eqb s "SUB" then Some Sub else if String.eqb s "MUL" then Some Mul
  else if String.eqb s "DIV" then Some Div else if String.eqb s "REM" then Some Rem else if String.eqb s "OR" then Some Or
  else if String.eqb s "AND" then Some And else if String.eqb s "XOR" then Some Xor else if String.eqb s "SHL" then Some Shl
  else if String.eqb s "SHR" then Some Shr else None.

Definition is_reg (t : tree) : bool := match t with TNT nt => String.eqb nt "reg" | _ => false end.
Definition is_const (t : tree) (tyname : string) : bool :=
  match t with TOp op ty _ [] => String.eqb op "CONST" && String.eqb ty tyname | _ => false end.

Definition tree_sem (t : tree) : option tsem :=
  match t with
  | TOp op tyn _ [] =>
      if String.eqb op "CONST" then match ty_of tyn with Some ty => Some (SemConst ty) | None => None end else None
  | TOp op tyn _ [a; b] =>
      match binop_of op, ty_of tyn with
      | Some o, Some ty =>
          if is_reg a && is_reg b then Some (SemBin o ty (LChild 0) (LChild 1))
          else if is_reg a && is_const b tyn then Some (SemBin o ty (LChild 0) (LConst [1%nat]))
          else if is_const a tyn && is_reg b then Some (SemBin o ty (LConst [0%nat]) (LChild 0))
          else None
      | _, _ => None
      end
  | _ => None
  end.

(* ---- conditions ---- *)
Definition cond_holds (c : cond) (cs : list (list nat * Z)) : Prop :=
  match c with
  | CTrue => True
  | CLt p hi => exists v, const_at cs p = Some v /\ v < hi
  | CRange p lo hi => exists v, const_at cs p = Some v /\ lo <= v < hi
  | COther _ => False
  end.

Definition ty_lo (bits : Z) (sg : bool) : Z := if sg then - 2 ^ (bits - 1) else 0.
Definition ty_hi (bits : Z) (sg : bool) : Z := if sg then 2 ^ (bits - 1) else 2 ^ bits.

(* interval the constant at path p is confined to by its type and the rule's condition *)
Definition cond_lo (c : cond) (p : list nat) (bits : Z) (sg : bool) : Z :=
  match c with CRange q lo _ => if path_eqb q p then Z.max lo (ty_lo bits sg) else ty_lo bits sg | _ => ty_lo bits sg end.
Definition cond_hi (c : cond) (p : list nat) (bits : Z) (sg : bool) : Z :=
  match c with
  | CRange q _ hi | CLt q hi => if path_eqb q p then Z.min hi (ty_hi bits sg) else ty_hi bits sg
  | _ => ty_hi bits sg
  end.

Lemma path_eqb_eq a : forall b, path_eqb a b = true -> a = b.
Proof.
  induction a as [|x a IH]; intros [|y b] H; try discriminate; [reflexivity|].
  cbn in H. apply andb_prop in H. destruct H as [H1 H2]. apply Nat.eqb_eq in H1. subst. f_equal. auto.
Qed.

Lemma cond_bounds c cs p bits sg v :
  cond_holds c cs -> const_at cs p = Some v -> ty_lo bits sg <= v < ty_hi bits sg ->
  cond_lo c p bits sg <= v < cond_hi c p bits sg.
Proof.
  intros Hc Hv Ht. destruct c as [|q hi|q lo hi|]; cbn [cond_holds cond_lo cond_hi] in *; try lia.
  - destruct (path_eqb q p) eqn:E; [|lia]. apply path_eqb_eq in E. subst q.
    destruct Hc as (w & Hw & Hlt). rewrite Hv in Hw. inversion Hw; subst. lia.
  - destruct (path_eqb q p) eqn:E; [|lia]. apply path_eqb_eq in E. subst q.
    destruct Hc as (w & Hw & Hlt). rewrite Hv in Hw. inversion Hw; subst. lia.
Qed.

(* ---- which immediate operation implements (operator, type) with a constant right operand ---- *)
Definition ri_op (o : binop) (bits : Z) (sg : bool) : option iop :=
  match o with
  | Add => Some IADDI | And => Some IANDI | Or => Some IORI | Xor => Some IXORI
  | Shl => if bits =? 32 then Some ISLLI else None
  | Shr => if bits =? 32 then Some (if sg then ISRAI else ISRLI) else None
  | _ => None
  end.
Definition commutes (o : binop) : bool := match o with Add | And | Or | Xor => true | _ => false end.
Definition is_shift (o : binop) : bool := match o with Shl | Shr => true | _ => false end.

Definition rop_eqb (a b : rop) : bool :=
  match a, b with
  | RADD, RADD | RSUB, RSUB | RSLL, RSLL | RSLT, RSLT | RSLTU, RSLTU | RXOR, RXOR | RSRL, RSRL | RSRA, RSRA
  | ROR, ROR | RAND, RAND | RMUL, RMUL | RMULH, RMULH | RMULHSU, RMULHSU | RMULHU, RMULHU | RDIV, RDIV
  | RDIVU, RDIVU | RREM, RREM | RREMU, RREMU => true
  | _, _ => false
  end.
Definition iop_eqb (a b : iop) : bool :=
  match a, b with
  | IADDI, IADDI | ISLTI, ISLTI | ISLTIU, ISLTIU | IXORI, IXORI | IORI, IORI | IANDI, IANDI | ISLLI, ISLLI
  | ISRLI, ISRLI | ISRAI, ISRAI => true
  | _, _ => false
  end.
Lemma rop_eqb_eq a b : rop_eqb a b = true -> a = b.
Proof. destruct a, b; cbn; intros; congruence. Qed.
Lemma iop_eqb_eq a b : iop_eqb a b = true -> a = b.
Proof. destruct a, b; cbn; intros; congruence. Qed.

Definition shape (t : ty) : option (Z * bool) := if ty_ok t then int_shape rv_cfg t else None.

Inductive impl :=
  | ImplRR (ro : rop)                         (* [mn F0, C0, C1] -> F0 *)
  | ImplRI (io : iop) (p : list nat)          (* [mn F0, C0, const p] -> F0 *)
  | ImplLi.                                   (* [li F0, const []] -> F0 *)

Definition body_impl (r : rule) : option impl :=
  match r_body r, r_result r with
  | [(mn, [SFresh 0; SChild 0; SChild 1])], [SFresh 0] =>
      match assoc_fmt rv_formats mn with Some (FR ro) => Some (ImplRR ro) | _ => None end
  | [(mn, [SFresh 0; SChild 0; SConst p])], [SFresh 0] =>
      match assoc_fmt rv_formats mn with Some (FI io) => Some (ImplRI io p) | _ => None end
  | [(mn, [SFresh 0; SConst []])], [SFresh 0] => if String.eqb mn "li" then Some ImplLi else None
  | _, _ => None
  end.

Definition cond_known (c : cond) : bool := match c with COther _ => false | _ => true end.

Definition check_rule (r : rule) : bool :=
  cond_known (r_cond r) &&
  match tree_sem (r_tree r), body_impl r with
  | Some (SemBin o t (LChild 0) (LChild 1)), Some (ImplRR ro) =>
      match shape t with
      | Some (bits, sg) => match rr_op o bits sg with Some ro' => rop_eqb ro ro' | None => false end
      | None => false
      end
  | Some (SemBin o t (LChild 0) (LConst p)), Some (ImplRI io q) =>
      path_eqb p q &&
      match shape t with
      | Some (bits, sg) =>
          match ri_op o bits sg with
          | Some io' => iop_eqb io io' &&
              (if is_shift o then cond_hi (r_cond r) p bits sg <=? 32
               else (-2048 <=? cond_lo (r_cond r) p bits sg) && (cond_hi (r_cond r) p bits sg <=? 2048))
          | None => false
          end
      | None => false
      end
  | Some (SemBin o t (LConst p) (LChild 0)), Some (ImplRI io q) =>
      path_eqb p q && commutes o &&
      match shape t with
      | Some (bits, sg) =>
          match ri_op o bits sg with
          | Some io' => iop_eqb io io' &&
              (-2048 <=? cond_lo (r_cond r) p bits sg) && (cond_hi (r_cond r) p bits sg <=? 2048)
          | None => false
          end
      | None => false
      end
  | Some (SemConst t), Some ImplLi => match shape t with Some _ => true | None => false end
  | _, _ => false
  end.

(* ---- what a sound rule guarantees ---- *)
Definition env_ok (e : env) : Prop :=
  (forall d, In d (e_fresh e) -> d <> 0 /\ ~ In d (e_child e)) /\ NoDup (e_fresh e).

Definition leaf_val (e : env) (s : state) (bits : Z) (sg : bool) (l : leaf) : option Z :=
  match l with
  | LChild k => match nth_error (e_child e) k with Some c => Some (val bits sg (getreg s c)) | None => None end
  | LConst p => const_at (e_const e) p
  end.

Definition consts_typed (e : env) (bits : Z) (sg : bool) : Prop :=
  forall p v, const_at (e_const e) p = Some v -> ty_lo bits sg <= v < ty_hi bits sg.

Definition sem_value (sem : tsem) (e : env) (s : state) : option (Z * outcome Z) :=
  match sem with
  | SemBin o t l r =>
      match shape t with
      | Some (bits, sg) =>
          match leaf_val e s bits sg l, leaf_val e s bits sg r with
          | Some a, Some b => Some (bits, eval_binop rv_cfg t o a b)
          | _, _ => None
          end
      | None => None
      end
  | SemConst t =>
      match shape t, const_at (e_const e) [] with
      | Some (bits, sg), Some c => Some (bits, ODone (wrap_bits bits sg c))
      | _, _ => None
      end
  end.

Definition sem_type (sem : tsem) : ty := match sem with SemBin _ t _ _ | SemConst t => t end.

Definition rule_correct (r : rule) : Prop :=
  forall sem e s il bits sg v,
  tree_sem (r_tree r) = Some sem -> shape (sem_type sem) = Some (bits, sg) ->
  env_ok e -> cond_holds (r_cond r) (e_const e) -> consts_typed e bits sg ->
  (forall p c, const_at (e_const e) p = Some c -> -2147483648 <= c < 4294967296) ->
  instantiate r e = Some il ->
  sem_value sem e s = Some (bits, ODone v) ->
  exists rd, opnds_val e (r_result r) = Some [rd] /\
    rep bits (getreg (exec_seq il s) rd) v /\
    (forall x, ~ In x (e_fresh e) -> getreg (exec_seq il s) x = getreg s x) /\
    (forall a, loadbyte (exec_seq il s) a = loadbyte s a).

(* ------------------------------------------------------------------ Li *)
Lemma land_bit11 v : Z.land v 2048 = if (v / 2048) mod 2 =? 1 then 2048 else 0.
Proof.
  change 2048 with (2 ^ 11) at 1. apply Z.bits_inj'. intros k Hk.
  rewrite Z.land_spec, Z.pow2_bits_eqb by lia.
  destruct (Z.eqb_spec 11 k) as [<-|Hne].
  - rewrite andb_true_r. destruct ((v / 2048) mod 2 =? 1) eqn:E.
    + change 2048 with (2 ^ 11). rewrite Z.pow2_bits_eqb, Z.eqb_refl by lia.
      apply Z.testbit_true; [lia|]. change (2 ^ 11) with 2048. lia.
    + rewrite Z.bits_0. apply Bool.not_true_is_false. intros Ht. apply Z.testbit_true in Ht; [|lia].
      change (2 ^ 11) with 2048 in Ht. lia.
  - rewrite andb_false_r. destruct ((v / 2048) mod 2 =? 1).
    + change 2048 with (2 ^ 11). rewrite Z.pow2_bits_eqb by lia. destruct (Z.eqb_spec 11 k); [contradiction|reflexivity].
    + now rewrite Z.bits_0.
Qed.

(* the value li leaves in rd, as arithmetic on Z *)
Lemma li_value v : -2147483648 <= v < 4294967296 -> inrange12 v = false ->
  let imm' := if Z.land v 2048 =? 0 then v else v + 4096 in
  let hi := Z.land (Z.shiftr imm' 12) 1048575 in
  let lo := Z.land imm' 4095 in
  u32 (u32 (hi * 4096) + sext 12 (lo mod 2 ^ 12)) = u32 v.
Proof.
  intros Hv Hr. cbv zeta. rewrite land_bit11.
  change 4095 with (2 ^ 12 - 1). change 1048575 with (2 ^ 20 - 1).
  rewrite !land_ones_mod, !shiftr_div by lia. unfold u32, W32, sext.
  change (2 ^ 12) with 4096. change (2 ^ 20) with 1048576. change (2 ^ (12 - 1)) with 2048.
  destruct ((v / 2048) mod 2 =? 1) eqn:E; cbn [Z.eqb]; rewrite Z.mod_mod by lia.
  - destruct ((v + 4096) mod 4096 <? 2048) eqn:E2; lia.
  - destruct (v mod 4096 <? 2048) eqn:E2; lia.
Qed.

Lemma getreg_range s r : 0 <= getreg s r < 2 ^ 32.
Proof.
  unfold getreg. destruct (r =? 0); [cbn; lia|]. unfold u32, W32. change (2 ^ 32) with 4294967296.
  apply Z.mod_pos_bound. lia.
Qed.

Lemma getreg_0 s : getreg s 0 = 0.
Proof. reflexivity. Qed.

Lemma rep_u32 bits x v : 0 <= bits <= 32 -> rep bits x v -> rep bits (u32 x) v.
Proof. intros Hb H. unfold rep, u32 in *. now rewrite mod32_modn. Qed.

Definition imm12 (c : Z) : Z := sext 12 (c mod 4096).
Arguments imm12 : simpl never.

Lemma sext12_small c : -2048 <= c < 2048 -> imm12 c = c.
Proof.
  intros H. unfold imm12, sext. change (2 ^ (12 - 1)) with 2048.
  destruct (c mod 4096 <? 2048) eqn:E; lia.
Qed.

(* c05_rv_li_correct: Li(rd, v) leaves exactly v (mod 2^32) in rd, changes nothing else *)
Theorem li_correct rd v : rd <> 0 -> -2147483648 <= v < 4294967296 ->
  exists il, to_rv_all (li_expand rd v) = Some il /\
    forall s, getreg (exec_seq il s) rd = u32 v /\
              (forall x, x <> rd -> getreg (exec_seq il s) x = getreg s x) /\
              (forall a, loadbyte (exec_seq il s) a = loadbyte s a).
Proof.
  intros Hrd Hv. unfold li_expand. destruct (inrange12 v) eqn:Hr.
  - exists [ROpImm IADDI rd 0 (imm12 v)]. split; [reflexivity|]. intros s. cbn [exec_seq exec].
    unfold inrange12 in Hr. rewrite sext12_small by lia.
    rewrite !getreg_setpc, getreg_setreg, Z.eqb_refl. cbn [andb].
    assert (rd =? 0 = false) as -> by lia. cbn [negb]. split; [|split].
    + unfold alu_i. rewrite getreg_0. rewrite u32_idem. f_equal.
    + intros x Hx. now rewrite getreg_setpc, getreg_setreg_other.
    + intros a. now rewrite loadbyte_setpc, loadbyte_setreg.
  - set (imm' := if Z.land v 2048 =? 0 then v else v + 4096).
    exists [RLui rd (Z.land (Z.shiftr imm' 12) 1048575);
            ROpImm IADDI rd rd (sext 12 (Z.land imm' 4095 mod 2 ^ 12))].
    split; [reflexivity|]. intros s. cbn [exec_seq exec].
    split; [|split].
    + rewrite !getreg_setpc, !getreg_setreg, !Z.eqb_refl. cbn [andb].
      assert (rd =? 0 = false) as -> by lia. cbn [negb]. unfold alu_i.
      rewrite u32_idem. apply (li_value v Hv Hr).
    + intros x Hx. now rewrite !getreg_setpc, getreg_setreg_other, getreg_setpc, getreg_setreg_other.
    + intros a. now rewrite !loadbyte_setpc, loadbyte_setreg, loadbyte_setpc, loadbyte_setreg.
Qed.

(* ------------------------------------------------------------------ printed instruction -> RV32 instruction *)
Ltac enum_mn H mn :=
  cbn [assoc_fmt rv_formats] in H;
  repeat match type of H with
  | (if String.eqb ?k mn then _ else _) = _ =>
      destruct (String.eqb_spec k mn) as [<-|_]; [try discriminate H|]
  end; try discriminate H.

Lemma to_rv_R mn ro d a b : assoc_fmt rv_formats mn = Some (FR ro) -> to_rv (mn, [d; a; b]) = Some (ROp ro d a b).
Proof. intros H. enum_mn H mn; inversion H; subst; reflexivity. Qed.

Definition is_shift_i (io : iop) : bool := match io with ISLLI | ISRLI | ISRAI => true | _ => false end.

Lemma to_rv_I mn io d a c : assoc_fmt rv_formats mn = Some (FI io) ->
  to_rv (mn, [d; a; c]) = Some (ROpImm io d a (if is_shift_i io then c else imm12 c)).
Proof. intros H. enum_mn H mn; inversion H; subst; reflexivity. Qed.

Lemma fmt_not_li mn f : assoc_fmt rv_formats mn = Some f -> String.eqb mn "li" = false.
Proof.
  intros H. destruct (String.eqb_spec mn "li") as [->|]; [|reflexivity]. vm_compute in H. discriminate.
Qed.

Ltac inv_match H :=
  repeat match type of H with
  | match ?x with _ => _ end = _ => destruct x eqn:?; try discriminate H
  end.

Lemma body_impl_rr r ro : body_impl r = Some (ImplRR ro) ->
  exists mn, r_body r = [(mn, [SFresh 0; SChild 0; SChild 1])] /\ r_result r = [SFresh 0] /\
             assoc_fmt rv_formats mn = Some (FR ro).
Proof.
  unfold body_impl. intros H. inv_match H; inversion H; subst; eexists; repeat split; eauto.
Qed.

Lemma body_impl_ri r io p : body_impl r = Some (ImplRI io p) ->
  exists mn, r_body r = [(mn, [SFresh 0; SChild 0; SConst p])] /\ r_result r = [SFresh 0] /\
             assoc_fmt rv_formats mn = Some (FI io).
Proof.
  unfold body_impl. intros H. inv_match H; inversion H; subst; eexists; repeat split; eauto.
Qed.

Lemma body_impl_li r : body_impl r = Some ImplLi ->
  r_body r = [("li"%string, [SFresh 0; SConst []])] /\ r_result r = [SFresh 0].
Proof.
  unfold body_impl. intros H. inv_match H; inversion H; subst.
  match goal with E : String.eqb _ "li" = true |- _ => apply String.eqb_eq in E; subst end. auto.
Qed.

(* ------------------------------------------------------------------ one instruction *)
Lemma exec_rop ro d a b s : d <> 0 ->
  getreg (exec (ROp ro d a b) s) d = u32 (alu_r ro (getreg s a) (getreg s b)) /\
  (forall x, x <> d -> getreg (exec (ROp ro d a b) s) x = getreg s x) /\
  (forall m, loadbyte (exec (ROp ro d a b) s) m = loadbyte s m).
Proof.
  intros Hd. cbn [exec]. split; [|split].
  - rewrite getreg_setpc, getreg_setreg, Z.eqb_refl. assert (d =? 0 = false) as -> by lia. reflexivity.
  - intros x Hx. now rewrite getreg_setpc, getreg_setreg_other.
  - intros m. now rewrite loadbyte_setpc, loadbyte_setreg.
Qed.

Lemma exec_ropimm io d a c s : d <> 0 ->
  getreg (exec (ROpImm io d a c) s) d = u32 (alu_i io (getreg s a) c) /\
  (forall x, x <> d -> getreg (exec (ROpImm io d a c) s) x = getreg s x) /\
  (forall m, loadbyte (exec (ROpImm io d a c) s) m = loadbyte s m).
Proof.
  intros Hd. cbn [exec]. split; [|split].
  - rewrite getreg_setpc, getreg_setreg, Z.eqb_refl. assert (d =? 0 = false) as -> by lia. reflexivity.
  - intros x Hx. now rewrite getreg_setpc, getreg_setreg_other.
  - intros m. now rewrite loadbyte_setpc, loadbyte_setreg.
Qed.

(* ------------------------------------------------------------------ immediate forms *)
Theorem alu_ri_sound t o bits sg io a c v :
  int_shape rv_cfg t = Some (bits, sg) -> (bits = 8 \/ bits = 16 \/ bits = 32) ->
  ri_op o bits sg = Some io ->
  0 <= a < 2 ^ 32 ->
  (is_shift o = false -> -2048 <= c < 2048) -> (is_shift o = true -> c < 32) ->
  eval_binop rv_cfg t o (val bits sg a) c = ODone v ->
  rep bits (alu_i io a (if is_shift_i io then c else imm12 c)) v.
Proof.
  intros Hs Hb Hio Ha Hc1 Hc2 Hev.
  assert (Hn1 : 0 < bits) by (clear - Hb; lia). assert (Hn0 : 0 <= bits <= 32) by (clear - Hb; lia).
  assert (Hn2 : 0 <= bits) by (clear - Hb; lia).
  unfold eval_binop in Hev. rewrite Hs in Hev. unfold rep, val in *.
  assert (Ea := wrap_bits_mod bits sg a Hn1).
  destruct o; cbn [ri_op] in Hio; try discriminate.
  - (* Add *) inversion Hio; inversion Hev; subst. cbn [is_shift_i alu_i]. rewrite sext12_small by auto. unfold u32.
    rewrite (mod32_modn bits _ Hn0), (wrap_bits_mod bits sg _ Hn1). apply eqm_add; congruence.
  - (* Or *) inversion Hio; inversion Hev; subst. cbn [is_shift_i alu_i]. rewrite sext12_small by auto.
    rewrite (wrap_bits_mod bits sg _ Hn1). apply eqm_lor; [assumption|congruence|]. unfold u32. apply mod32_modn; assumption.
  - (* And *) inversion Hio; inversion Hev; subst. cbn [is_shift_i alu_i]. rewrite sext12_small by auto.
    rewrite (wrap_bits_mod bits sg _ Hn1). apply eqm_land; [assumption|congruence|]. unfold u32. apply mod32_modn; assumption.
  - (* Xor *) inversion Hio; inversion Hev; subst. cbn [is_shift_i alu_i]. rewrite sext12_small by auto.
    rewrite (wrap_bits_mod bits sg _ Hn1). apply eqm_lxor; [assumption|congruence|]. unfold u32. apply mod32_modn; assumption.
  - (* Shl *)
    destruct (bits =? 32) eqn:E32; [|discriminate]. assert (bits = 32) by (clear - E32; lia). subst bits.
    inversion Hio; subst io. cbn [is_shift_i alu_i].
    destruct ((0 <=? c) && (c <? 32)) eqn:Ok; [|discriminate]. inversion Hev; subst v.
    rewrite (Z.mod_small c 32) by (clear - Ok; lia). unfold u32.
    rewrite (mod32_modn 32 _ Hn0), (wrap_bits_mod 32 sg _ Hn1). apply eqm_mul; congruence.
  - (* Shr *)
    destruct (bits =? 32) eqn:E32; [|discriminate]. assert (bits = 32) by (clear - E32; lia). subst bits.
    destruct ((0 <=? c) && (c <? 32)) eqn:Ok; [|discriminate]. inversion Hev; subst v.
    rewrite (wrap_bits_mod 32 sg _ Hn1).
    destruct sg; inversion Hio; subst io; cbn [is_shift_i alu_i]; rewrite (Z.mod_small c 32) by (clear - Ok; lia).
    + unfold u32. rewrite (mod32_modn 32 _ Hn0). now rewrite (s32_is_wrap a).
    + now rewrite (wrap32u a Ha).
Qed.

Lemma eval_binop_comm t o a b : commutes o = true -> eval_binop rv_cfg t o a b = eval_binop rv_cfg t o b a.
Proof.
  intros H. unfold eval_binop. destruct (int_shape rv_cfg t) as [[bits sg]|]; [|reflexivity].
  destruct o; try discriminate; cbn; f_equal; f_equal; [apply Z.add_comm|apply Z.lor_comm|apply Z.land_comm|apply Z.lxor_comm].
Qed.

(* ------------------------------------------------------------------ soundness of the check *)
Lemma shape_props t bits sg : shape t = Some (bits, sg) ->
  int_shape rv_cfg t = Some (bits, sg) /\ (bits = 8 \/ bits = 16 \/ bits = 32).
Proof.
  unfold shape. destruct (ty_ok t) eqn:E; [|discriminate]. intros H. split; [exact H|].
  destruct t; try discriminate; cbn in H; inversion H; auto.
Qed.

Lemma fresh0_facts e d : env_ok e -> nth_error (e_fresh e) 0 = Some d ->
  d <> 0 /\ ~ In d (e_child e) /\ (forall x, ~ In x (e_fresh e) -> x <> d).
Proof.
  intros [H _] Hd. assert (In d (e_fresh e)) by (eapply nth_error_In; eauto).
  destruct (H d H0). repeat split; auto. intros x Hx ->. contradiction.
Qed.

Theorem check_rule_sound r : check_rule r = true -> rule_correct r.
Proof.
  unfold check_rule. intros Hck. apply andb_prop in Hck. destruct Hck as [_ Hck].
  intros sem e s il bits sg v Hsem Hshape Henv Hcond Htyped Hc32 Hinst Hval.
  rewrite Hsem in Hck.
  destruct sem as [o t l rr|t]; cbn [sem_type] in Hshape.
  - (* binary operator *)
    destruct (shape_props _ _ _ Hshape) as [Hs Hb].
    cbn [sem_value] in Hval. rewrite Hshape in Hval.
    destruct l as [[|kl]|pl]; try discriminate Hck.
    + (* left operand = child 0 *)
      destruct rr as [[|[|kr]]|pr]; try discriminate Hck.
      * (* reg, reg *)
        destruct (body_impl r) as [[ro|io q|]|] eqn:Hbi; try discriminate Hck.
        rewrite Hshape in Hck. destruct (rr_op o bits sg) as [ro'|] eqn:Hrr; [|discriminate].
        apply rop_eqb_eq in Hck. subst ro'.
        destruct (body_impl_rr _ _ Hbi) as (mn & Hbody & Hres & Hfmt).
        unfold instantiate in Hinst. rewrite Hbody in Hinst. cbn [body_items opnds_val opnd_val] in Hinst.
        cbn [leaf_val] in Hval.
        destruct (nth_error (e_fresh e) 0) as [d|] eqn:Hd; [|discriminate].
        destruct (nth_error (e_child e) 0) as [c0|] eqn:H0; [|discriminate].
        destruct (nth_error (e_child e) 1) as [c1|] eqn:H1; [|discriminate].
        unfold expand_item in Hinst. rewrite (fmt_not_li _ _ Hfmt) in Hinst.
        cbn [List.app to_rv_all] in Hinst. rewrite (to_rv_R _ _ _ _ _ Hfmt) in Hinst. inversion Hinst; subst il.
        inversion Hval as [Hev]. clear Hval.
        destruct (fresh0_facts e d Henv Hd) as (Hd0 & _ & Hfr).
        exists d. rewrite Hres. cbn [opnds_val opnd_val]. rewrite Hd. split; [reflexivity|].
        cbn [exec_seq]. destruct (exec_rop ro d c0 c1 s Hd0) as (Hv & Hf & Hm).
        split; [|split; [|exact Hm]].
        -- rewrite Hv. apply rep_u32; [clear - Hb; lia|].
           eapply alu_rr_sound; eauto using getreg_range.
        -- intros x Hx. apply Hf. now apply Hfr.
      * (* reg, const *)
        destruct (body_impl r) as [[ro|io q|]|] eqn:Hbi; try discriminate Hck.
        apply andb_prop in Hck. destruct Hck as [Hpq Hck]. apply path_eqb_eq in Hpq. subst q.
        rewrite Hshape in Hck. destruct (ri_op o bits sg) as [io'|] eqn:Hri; [|discriminate].
        apply andb_prop in Hck. destruct Hck as [Hio Hrange]. apply iop_eqb_eq in Hio. subst io'.
        destruct (body_impl_ri _ _ _ Hbi) as (mn & Hbody & Hres & Hfmt).
        unfold instantiate in Hinst. rewrite Hbody in Hinst. cbn [body_items opnds_val opnd_val] in Hinst.
        cbn [leaf_val] in Hval.
        destruct (nth_error (e_fresh e) 0) as [d|] eqn:Hd; [|discriminate].
        destruct (nth_error (e_child e) 0) as [c0|] eqn:H0; [|discriminate].
        destruct (const_at (e_const e) pr) as [c|] eqn:Hc; [|discriminate].
        unfold expand_item in Hinst. rewrite (fmt_not_li _ _ Hfmt) in Hinst.
        cbn [List.app to_rv_all] in Hinst. rewrite (to_rv_I _ _ _ _ _ Hfmt) in Hinst. inversion Hinst; subst il.
        inversion Hval as [Hev]. clear Hval.
        destruct (fresh0_facts e d Henv Hd) as (Hd0 & _ & Hfr).
        pose proof (cond_bounds _ _ _ bits sg _ Hcond Hc (Htyped _ _ Hc)) as Hcb.
        exists d. rewrite Hres. cbn [opnds_val opnd_val]. rewrite Hd. split; [reflexivity|].
        cbn [exec_seq]. destruct (exec_ropimm io d c0 (if is_shift_i io then c else imm12 c) s Hd0) as (Hv & Hf & Hm).
        split; [|split; [|exact Hm]].
        -- rewrite Hv. apply rep_u32; [clear - Hb; lia|].
           eapply alu_ri_sound; eauto using getreg_range.
           ++ intros Hsh. rewrite Hsh in Hrange. clear - Hrange Hcb. lia.
           ++ intros Hsh. rewrite Hsh in Hrange. clear - Hrange Hcb. lia.
        -- intros x Hx. apply Hf. now apply Hfr.
    + (* left operand = constant, right = child 0 *)
      destruct rr as [[|kr]|pr]; try discriminate Hck.
      destruct (body_impl r) as [[ro|io q|]|] eqn:Hbi; try discriminate Hck.
      apply andb_prop in Hck. destruct Hck as [Hpq Hck]. apply andb_prop in Hpq. destruct Hpq as [Hpq Hcomm].
      apply path_eqb_eq in Hpq. subst q.
      rewrite Hshape in Hck. destruct (ri_op o bits sg) as [io'|] eqn:Hri; [|discriminate].
      apply andb_prop in Hck. destruct Hck as [Hck Hhi]. apply andb_prop in Hck. destruct Hck as [Hio Hlo].
      apply iop_eqb_eq in Hio. subst io'.
      destruct (body_impl_ri _ _ _ Hbi) as (mn & Hbody & Hres & Hfmt).
      unfold instantiate in Hinst. rewrite Hbody in Hinst. cbn [body_items opnds_val opnd_val] in Hinst.
      cbn [leaf_val] in Hval.
      destruct (nth_error (e_fresh e) 0) as [d|] eqn:Hd; [|discriminate].
      destruct (nth_error (e_child e) 0) as [c0|] eqn:H0; [|destruct (const_at (e_const e) pl); discriminate].
      destruct (const_at (e_const e) pl) as [c|] eqn:Hc; [|discriminate].
      unfold expand_item in Hinst. rewrite (fmt_not_li _ _ Hfmt) in Hinst.
      cbn [List.app to_rv_all] in Hinst. rewrite (to_rv_I _ _ _ _ _ Hfmt) in Hinst. inversion Hinst; subst il.
      inversion Hval as [Hev]. clear Hval. rewrite (eval_binop_comm _ _ _ _ Hcomm) in Hev.
      destruct (fresh0_facts e d Henv Hd) as (Hd0 & _ & Hfr).
      pose proof (cond_bounds _ _ _ bits sg _ Hcond Hc (Htyped _ _ Hc)) as Hcb.
      assert (Hns : is_shift o = false) by (destruct o; try discriminate; reflexivity).
      exists d. rewrite Hres. cbn [opnds_val opnd_val]. rewrite Hd. split; [reflexivity|].
      cbn [exec_seq]. destruct (exec_ropimm io d c0 (if is_shift_i io then c else imm12 c) s Hd0) as (Hv & Hf & Hm).
      split; [|split; [|exact Hm]].
      * rewrite Hv. apply rep_u32; [clear - Hb; lia|].
        eapply alu_ri_sound; eauto using getreg_range.
        -- intros _. clear - Hlo Hhi Hcb. lia.
        -- intros Hsh. congruence.
      * intros x Hx. apply Hf. now apply Hfr.
  - (* constant via li *)
    destruct (body_impl r) as [[ro|io q|]|] eqn:Hbi; try discriminate Hck.
    destruct (body_impl_li _ Hbi) as (Hbody & Hres).
    cbn [sem_value] in Hval. rewrite Hshape in Hval.
    destruct (const_at (e_const e) []) as [c|] eqn:Hc; [|discriminate]. inversion Hval; subst v. clear Hval.
    unfold instantiate in Hinst. rewrite Hbody in Hinst. cbn [body_items opnds_val opnd_val] in Hinst.
    rewrite Hc in Hinst.
    destruct (nth_error (e_fresh e) 0) as [d|] eqn:Hd; [|discriminate].
    destruct (fresh0_facts e d Henv Hd) as (Hd0 & _ & Hfr).
    unfold expand_item in Hinst. cbn [String.eqb Ascii.eqb Bool.eqb] in Hinst.
    rewrite List.app_nil_r in Hinst.
    destruct (li_correct d c Hd0 (Hc32 _ _ Hc)) as (il' & Hil & Hex).
    rewrite Hil in Hinst. inversion Hinst; subst il'.
    destruct (Hex s) as (Hv & Hf & Hm).
    destruct (shape_props _ _ _ Hshape) as [Hs Hb].
    exists d. rewrite Hres. cbn [opnds_val opnd_val]. rewrite Hd. split; [reflexivity|].
    split; [|split; [|exact Hm]].
    + rewrite Hv. unfold rep, u32. rewrite mod32_modn by (clear - Hb; lia).
      now rewrite wrap_bits_mod by (clear - Hb; lia).
    + intros x Hx. apply Hf. now apply Hfr.
Qed.

(* ------------------------------------------------------------------ concrete counterexamples (exported by the
   search of tools/props/c05.py): a rule in the scope of [tree_sem], operand registers/constants satisfying the
   rule's condition and a register file on which the emitted code does NOT leave the IRSem value in the result
   register, or changes a register that is not a fresh temporary *)
Definition cond_holdsb (c : cond) (cs : list (list nat * Z)) : bool :=
  match c with
  | CTrue => true
  | CLt p hi => match const_at cs p with Some v => v <? hi | None => false end
  | CRange p lo hi => match const_at cs p with Some v => (lo <=? v) && (v <? hi) | None => false end
  | COther _ => false
  end.

Fixpoint lookup (l : list (Z * Z)) (x : Z) : Z :=
  match l with [] => 0 | (k, v) :: r => if k =? x then v else lookup r x end.
Definition state_of (regs : list (Z * Z)) : state := mkSt (lookup regs) 0 (fun _ => 0).

Definition witness_ok (r : rule) (e : env) (regs : list (Z * Z)) : bool :=
  match tree_sem (r_tree r) with
  | Some sem =>
      match shape (sem_type sem), instantiate r e, opnds_val e (r_result r) with
      | Some (bits, sg), Some il, Some [rd] =>
          let s := state_of regs in
          let s' := exec_seq il s in
          cond_holdsb (r_cond r) (e_const e) &&
          forallb (fun pc => (ty_lo bits sg <=? snd pc) && (snd pc <? ty_hi bits sg)) (e_const e) &&
          forallb (fun d => negb (d =? 0) && negb (existsb (Z.eqb d) (e_child e))) (e_fresh e) &&
          match sem_value sem e s with
          | Some (_, ODone v) =>
              negb (getreg s' rd mod 2 ^ bits =? v mod 2 ^ bits) ||
              existsb (fun kv => negb (existsb (Z.eqb (fst kv)) (e_fresh e)) &&
                                 negb (getreg s' (fst kv) =? getreg s (fst kv))) regs
          | _ => false
          end
      | _, _, _ => false
      end
  | None => false
  end.
