(* C29 — cover completeness for target riscv_rvc: reflection of the closure check on the regenerated table *)
From Coq Require Import String List.
From PV Require Import Spec.BurgCoverSpec Spec.IRTrees Spec.C29Known Model.BurgCover Model.C29Synth Proofs.C29_cover Gen.Tab_burg_riscv_rvc.
Import ListNotations.
Local Open Scope string_scope.

Lemma closure_riscv_rvc : closure_ok (usable assume_riscv_rvc rules_riscv_rvc) (irtrees desc_riscv_rvc excl_riscv_rvc) "S" "stm" = true.
Proof. vm_compute. reflexivity. Qed.

Theorem cover_complete_riscv_rvc : forall t,
  in_lang (irtrees desc_riscv_rvc excl_riscv_rvc) "S" t -> covers (usable assume_riscv_rvc rules_riscv_rvc) t "stm".
Proof. exact (closure_ok_complete _ _ _ _ closure_riscv_rvc). Qed.

(* the synthesized rules (UND<ty>, CALL, ASM) produce registers of the class the target maps the type to *)
Lemma synth_classes_riscv_rvc : synth_bad desc_riscv_rvc clsnt_riscv_rvc synth_riscv_rvc = [] /\ synth_complete desc_riscv_rvc synth_riscv_rvc = true.
Proof. split; vm_compute; reflexivity. Qed.
