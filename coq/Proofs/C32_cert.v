(* Proofs/C32_cert.v — property C32: per-instance completeness for ALL words. If the tables pass [tables_ok]
   and the exported LR(1) item sets pass [complete_cert], the (repaired) parser accepts every sentence of
   the grammar: the parser run is simulated along an arbitrary parse tree (mutual induction). *)
From PV Require Import Lib.Py Spec.CfgGrammarSpec Model.LrValidator Proofs.C32_sound Proofs.C32_safe.
From PV Require Import Model.LrComplete.
Open Scope Z_scope.

Lemma mem_z_In x l : mem_z x l = true <-> In x l.
Proof.
  unfold mem_z. rewrite existsb_exists. split.
  - intros (y & Hy & E). apply Z.eqb_eq in E. now subst.
  - intros H. exists x. split; [assumption|apply Z.eqb_refl].
Qed.

Lemma skipn_cons_nth {A} d : forall (l : list A) x xs,
  skipn d l = x :: xs -> nth_error l d = Some x /\ skipn (S d) l = xs.
Proof.
  induction d as [|d IH]; intros [|y l] x xs H; cbn in H; try discriminate.
  - injection H as -> ->. split; reflexivity.
  - apply IH in H. exact H.
Qed.

Section Cert.
Variable g : grammar.
Variable T : tables.
Variable I : ccert.

Definition hd_tok (L : list Z) : Z := fst (next_token L).
Definition runL (f : nat) (st : stack) (L : list Z) : result tree :=
  let '(la, rest) := next_token L in run true f g T st la rest.
(* configuration (st, L) reaches (st', L') *)
Definition R (st : stack) (L : list Z) (st' : stack) (L' : list Z) : Prop :=
  exists n, forall f, runL (n + f) st L = runL f st' L'.

Lemma R_trans a La b Lb c Lc : R a La b Lb -> R b Lb c Lc -> R a La c Lc.
Proof.
  intros [n Hn] [m Hm]. exists (n + m)%nat. intros f. rewrite <- Nat.add_assoc, Hn. apply Hm.
Qed.
Lemma R_refl a La : R a La a La.
Proof. exists 0%nat. reflexivity. Qed.

(* ---- FIRST / nullable hints are sound for parse trees *)
Hypothesis HH : hints_ok g I = true.

Lemma hints_prod X rhs : In (X, rhs) (prods g) ->
  (forallb (nullable_sym I) rhs = true -> nullable_sym I X = true) /\
  (forall c, In c (fseq g I rhs) -> In c (first_sym g I X)) /\ ~ In X (terminals g).
Proof.
  intros Hin. unfold hints_ok in HH. rewrite forallb_forall in HH. specialize (HH _ Hin).
  cbn [fst snd] in HH. apply andb_true_iff in HH as [H12 H3]. apply andb_true_iff in H12 as [H1 H2].
  split; [|split].
  - intros Hn. rewrite Hn in H1. exact H1.
  - intros c Hc. rewrite forallb_forall in H2. apply mem_z_In. now apply H2.
  - intros Ht. apply mem_z_In in Ht. rewrite Ht in H3. discriminate.
Qed.

Lemma first_sound :
  (forall X t, wf_tree g X t ->
     (yield t = [] -> nullable_sym I X = true) /\
     (forall c u, yield t = c :: u -> In c (first_sym g I X))) /\
  (forall al ts, wf_forest g al ts ->
     (flat_map yield ts = [] -> forallb (nullable_sym I) al = true) /\
     (forall c u, flat_map yield ts = c :: u -> In c (fseq g I al))).
Proof.
  apply wf_tree_forest_ind.
  - intros a Ha. split; [discriminate|]. intros c u [= <- <-]. unfold first_sym.
    apply in_or_app. left. apply mem_z_In in Ha. rewrite Ha. now left.
  - intros p X rhs cs Hn Hf [IH1 IH2]. cbn [yield].
    destruct (hints_prod X rhs (nth_error_In _ _ Hn)) as (H1 & H2 & _). split.
    + intros E. apply H1, IH1, E.
    + intros c u E. apply H2. eapply IH2, E.
  - split; [reflexivity|discriminate].
  - intros X xs t ts Ht [IHt1 IHt2] Hts [IHs1 IHs2]. cbn [flat_map forallb fseq]. split.
    + intros E. apply app_eq_nil in E as [E1 E2]. rewrite (IHt1 E1), (IHs1 E2). reflexivity.
    + intros c u E. apply in_or_app. destruct (yield t) as [|c' u'] eqn:Ey.
      * right. rewrite (IHt1 eq_refl). cbn in E. eapply IHs2, E.
      * left. cbn in E. injection E as <- _. eapply IHt2. reflexivity.
Qed.

Lemma follow_ok al ts L' : wf_forest g al ts ->
  In (hd_tok (flat_map yield ts ++ L')) (fseq_la g I al (hd_tok L')).
Proof.
  intros Hf. destruct (proj2 first_sound al ts Hf) as [H1 H2]. unfold fseq_la. apply in_or_app.
  destruct (flat_map yield ts) as [|c u] eqn:E.
  - right. rewrite (H1 eq_refl). now left.
  - left. cbn. eapply H2. reflexivity.
Qed.

(* ---- certificate lookups *)
Hypothesis HT : tables_ok true g T = true.
Hypothesis HI : forallb (fun e => forallb (item_ok g T I (fst e)) (snd e)) (c_items I) = true.

Lemma citem_eqb_eq a b : citem_eqb a b = true -> a = b.
Proof.
  destruct a as [[p d] a], b as [[p' d'] a']. unfold citem_eqb; cbn. intros H.
  apply andb_true_iff in H as [H H3]. apply andb_true_iff in H as [H1 H2].
  apply Nat.eqb_eq in H1, H2. apply Z.eqb_eq in H3. now subst.
Qed.

Lemma has_item_ok s it : has_item I s it = true -> item_ok g T I s it = true.
Proof.
  unfold has_item, items_of. destruct (find _ _) as [e|] eqn:E; [|discriminate].
  apply find_some in E as [Hin Hk]. apply Z.eqb_eq in Hk. intros H.
  apply existsb_exists in H as (it' & Hit & Heq). apply citem_eqb_eq in Heq. subst it'.
  rewrite forallb_forall in HI. specialize (HI _ Hin). rewrite forallb_forall in HI.
  rewrite Hk in HI. now apply HI.
Qed.

Lemma get_prod_of_nth p X rhs : nth_error (prods g) p = Some (X, rhs) ->
  get_prod g (Z.of_nat p) = Some (p, (X, rhs)).
Proof.
  intros H. unfold get_prod. assert (Hl : (p < length (prods g))%nat) by (apply nth_error_Some; congruence).
  unfold len. destruct (Z.of_nat p <? 0) eqn:E1; [lia|].
  destruct ((Z.of_nat p <? 0) || (Z.of_nat (length (prods g)) <=? Z.of_nat p)) eqn:E2; [lia|].
  rewrite Nat2Z.id, H. reflexivity.
Qed.

Lemma prod_indices_In q X rhs : nth_error (prods g) q = Some (X, rhs) -> In q (prod_indices g X).
Proof.
  intros H. unfold prod_indices. apply in_map_iff. exists (q, (X, rhs)). split; [reflexivity|].
  apply filter_In. split; [|cbn; apply Z.eqb_refl].
  assert (Hl : (q < length (prods g))%nat) by (apply nth_error_Some; congruence).
  apply nth_error_split in H as (l1 & l2 & E & El).
  rewrite E, app_length. cbn [length]. rewrite <- El.
  replace (length l1 + S (length l2))%nat with (length l1 + S (length l2))%nat by reflexivity.
  rewrite seq_app. cbn [seq]. 
  assert (Hc : forall (a : list nat) (b : list (Z * list Z)) a' b', length a = length b ->
             combine (a ++ a') (b ++ b') = combine a b ++ combine a' b').
  { induction a as [|x a IHa]; intros [|y b] a' b' Hab; cbn in *; try lia; [reflexivity|].
    f_equal. apply IHa. lia. }
  rewrite Hc by (rewrite seq_length; reflexivity). apply in_or_app. right. cbn. now left.
Qed.

(* ---- single steps *)
Lemma firstn_skipn_app (ents st : stack) n : length ents = n ->
  firstn n (ents ++ st) = ents /\ skipn n (ents ++ st) = st.
Proof.
  intros <-. split.
  - rewrite firstn_app, Nat.sub_diag, firstn_all. cbn. apply app_nil_r.
  - rewrite skipn_app, Nat.sub_diag, skipn_all. reflexivity.
Qed.

Lemma step_shift st X s' L' :
  stack_path T st -> lookup (top_state st, X) (actions T) = Some (Shift s') ->
  R st (X :: L') ((X, s', Leaf X) :: st) L'.
Proof.
  intros Hp Hl. exists 1%nat. intros f. unfold runL. cbn [next_token Nat.add run].
  rewrite (exit_shape_false g T st Hp), Hl.
  destruct (next_token L') as [la' rest']. reflexivity.
Qed.

Lemma step_reduce ents st L q X rhs s' a :
  stack_path T (ents ++ st) -> length ents = length rhs ->
  lookup (top_state (ents ++ st), hd_tok L) (actions T) = Some a ->
  (a = Reduce (Z.of_nat q) \/ (a = Accept (Z.of_nat q) /\ st <> [])) ->
  nth_error (prods g) q = Some (X, rhs) ->
  lookup (top_state st, X) (gotos T) = Some s' ->
  R (ents ++ st) L ((X, s', Node q (rev (map e_val ents))) :: st) L.
Proof.
  intros Hp Hlen Hl Ha Hq Hg. exists 1%nat. intros f. unfold runL, hd_tok in *.
  destruct (next_token L) as [la rest]. cbn [fst] in Hl. cbn [Nat.add run].
  rewrite (exit_shape_false g T _ Hp), Hl.
  destruct (firstn_skipn_app ents st (length rhs) Hlen) as [E1 E2].
  assert (El : (length (ents ++ st) <? length rhs)%nat = false).
  { apply Nat.ltb_ge. rewrite app_length. lia. }
  destruct Ha as [->|[-> Hne]]; rewrite (get_prod_of_nth q X rhs Hq); cbv zeta;
    change (@length Z rhs) with (@length symbol rhs); rewrite El, E1, E2.
  - match goal with |- context [lookup ?k (gotos T)] =>
      replace (lookup k (gotos T)) with (Some s') by (symmetry; exact Hg) end. reflexivity.
  - cbn [negb]. destruct st as [|e0 st0]; [contradiction|].
    match goal with |- context [lookup ?k (gotos T)] =>
      replace (lookup k (gotos T)) with (Some s') by (symmetry; exact Hg) end. reflexivity.
Qed.

(* ---- the simulation: the parser follows any parse tree *)
Lemma simulation :
  (forall X t, wf_tree g X t ->
     forall st L L' p d a A rhs,
       stack_path T st -> has_item I (top_state st) (p, d, a) = true ->
       nth_error (prods g) p = Some (A, rhs) -> nth_error rhs d = Some X ->
       L = yield t ++ L' -> In (hd_tok L') (fseq_la g I (skipn (S d) rhs) a) ->
       exists e, R st L (e :: st) L' /\ stack_path T (e :: st) /\
                 has_item I (e_state e) (p, S d, a) = true) /\
  (forall al ts, wf_forest g al ts ->
     forall st0 ents L L' p A rhs d,
       stack_path T (ents ++ st0) -> length ents = d ->
       has_item I (top_state (ents ++ st0)) (p, d, hd_tok L') = true ->
       nth_error (prods g) p = Some (A, rhs) -> skipn d rhs = al ->
       L = flat_map yield ts ++ L' ->
       exists ents', length ents' = (d + length al)%nat /\ R (ents ++ st0) L (ents' ++ st0) L' /\
                     stack_path T (ents' ++ st0) /\
                     has_item I (top_state (ents' ++ st0)) (p, (d + length al)%nat, hd_tok L') = true).
Proof.
  apply wf_tree_forest_ind.
  - (* leaf *)
    intros X HX st L L' p d a A rhs Hp Hit Hpr Hd -> Hfol. cbn [yield app].
    pose proof (has_item_ok _ _ Hit) as Hok. unfold item_ok in Hok. rewrite Hpr, Hd in Hok.
    apply mem_z_In in HX. rewrite HX in Hok.
    apply andb_true_iff in Hok as [Hok _].
    destruct (lookup (top_state st, X) (actions T)) as [[s'| |]|] eqn:El; try discriminate.
    exists (X, s', Leaf X). split; [now apply step_shift|]. split; [|exact Hok].
    pose proof (action_checked true g T HT _ _ El) as Hc. cbn [action_ok] in Hc.
    apply andb_true_iff in Hc as [_ Hs0]. apply negb_true_iff in Hs0.
    cbn. split; [apply shift_edge; now apply lookup_In in El|]. split; [|assumption].
    cbn. intros ->. discriminate.
  - (* node *)
    intros q X rhsq cs Hq Hf IH st L L' p d a A rhs Hp Hit Hpr Hd -> Hfol. cbn [yield].
    pose proof (has_item_ok _ _ Hit) as Hok. unfold item_ok in Hok. rewrite Hpr, Hd in Hok.
    destruct (hints_prod X rhsq (nth_error_In _ _ Hq)) as (_ & _ & HnT).
    destruct (mem_z X (terminals g)) eqn:Et; [apply mem_z_In in Et; contradiction|].
    apply andb_true_iff in Hok as [Hok H6]. apply andb_true_iff in Hok as [Hgo Hcl].
    destruct (lookup (top_state st, X) (gotos T)) as [s'|] eqn:Eg; [|discriminate].
    rewrite forallb_forall in Hcl. specialize (Hcl q (prod_indices_In q X rhsq Hq)).
    rewrite forallb_forall in Hcl. specialize (Hcl _ Hfol).
    destruct (IH st [] (flat_map yield cs ++ L') L' q X rhsq 0%nat Hp eq_refl Hcl Hq eq_refl eq_refl)
      as (ents' & Hlen & HR & Hp' & Hit').
    cbn [Nat.add] in Hlen, Hit'.
    pose proof (has_item_ok _ _ Hit') as Hok'. unfold item_ok in Hok'. rewrite Hq in Hok'.
    rewrite (proj2 (nth_error_None rhsq (length rhsq)) (Nat.le_refl _)) in Hok'.
    apply andb_true_iff in Hok' as [_ Hact].
    destruct (lookup (top_state (ents' ++ st), hd_tok L') (actions T)) as [act|] eqn:Ea; [|discriminate].
    assert (Hcase : act = Reduce (Z.of_nat q) \/ (act = Accept (Z.of_nat q) /\ st <> [])).
    { destruct act as [?|p'|p']; [discriminate| |].
      - left. apply andb_true_iff in Hact as [Hact _]. apply Z.eqb_eq in Hact. now subst.
      - right. apply andb_true_iff in Hact as [Hact Hb]. apply andb_true_iff in Hact as [Hact Hs].
        apply Z.eqb_eq in Hact, Hs, Hb. subst p'. split; [reflexivity|].
        intros ->. cbn [top_state] in H6. rewrite Z.eqb_refl, Hs, Z.eqb_refl in H6. cbn [andb] in H6.
        rewrite Hb in Hfol. apply mem_z_In in Hfol. rewrite Hfol in H6. discriminate. }
    exists (X, s', Node q (rev (map e_val ents'))). split; [|split; [|exact Hgo]].
    + eapply R_trans; [exact HR|]. eapply step_reduce; eauto.
    + destruct (goto_edge true g T HT _ _ _ Eg) as [He Hs0].
      cbn. split; [assumption|]. split; assumption.
  - (* nil *)
    intros st0 ents L L' p A rhs d Hp Hlen Hit Hpr Hsk ->. cbn [flat_map app length].
    exists ents. rewrite Nat.add_0_r. split; [assumption|]. split; [apply R_refl|]. split; assumption.
  - (* cons *)
    intros X xs t ts Ht IHt Hts IHts st0 ents L L' p A rhs d Hp Hlen Hit Hpr Hsk ->.
    cbn [flat_map]. rewrite <- app_assoc.
    destruct (skipn_cons_nth d rhs X xs Hsk) as [Hd Hsk'].
    destruct (IHt (ents ++ st0) (yield t ++ flat_map yield ts ++ L') (flat_map yield ts ++ L')
                  p d (hd_tok L') A rhs Hp Hit Hpr Hd eq_refl) as (e & HR1 & Hp1 & Hit1).
    { rewrite Hsk'. now apply follow_ok. }
    destruct (IHts st0 (e :: ents) (flat_map yield ts ++ L') L' p A rhs (S d)) as (ents' & Hlen' & HR2 & Hp2 & Hit2);
      try assumption; try reflexivity.
    { cbn. now rewrite Hlen. }
    exists ents'. cbn [length]. replace (d + S (length xs))%nat with (S d + length xs)%nat by lia.
    split; [assumption|]. split; [|split; assumption].
    eapply R_trans; [exact HR1|exact HR2].
Qed.

Hypothesis HS : mem_z (start g) (terminals g) = false.
Hypothesis H0 : forallb (fun q => has_item I 0 (q, O, EOF)) (prod_indices g (start g)) = true.

Lemma complete_run w : sentence g w -> exists fuel v, parse_model true fuel g T w = Ok v.
Proof.
  intros (t & Ht & Hy). inversion Ht as [a Ha E1 E2|q X rhsq cs Hq Hf E1 E2]; subst.
  - apply mem_z_In in Ha. rewrite Ha in HS. discriminate.
  - rewrite forallb_forall in H0. specialize (H0 q (prod_indices_In q _ rhsq Hq)).
    destruct (proj2 simulation rhsq cs Hf [] [] (yield (Node q cs)) [] q (start g) rhsq 0%nat)
      as (ents' & Hlen & [n HR] & Hp' & Hit'); try reflexivity; try assumption.
    all: try exact Logic.I. all: try (cbn [yield]; now rewrite app_nil_r).
    cbn [Nat.add app] in *. rewrite app_nil_r in *.
    pose proof (has_item_ok _ _ Hit') as Hok. unfold item_ok in Hok. rewrite Hq in Hok.
    rewrite (proj2 (nth_error_None rhsq (length rhsq)) (Nat.le_refl _)) in Hok.
    apply andb_true_iff in Hok as [_ Hact]. unfold hd_tok in Hact. cbn [next_token fst] in Hact.
    destruct (lookup (top_state ents', EOF) (actions T)) as [[?|p'|p']|] eqn:Ea; try discriminate.
    { rewrite !Z.eqb_refl in Hact. cbn in Hact. rewrite andb_false_r in Hact. discriminate. }
    apply andb_true_iff in Hact as [Hact _]. apply andb_true_iff in Hact as [Hact _].
    apply Z.eqb_eq in Hact. subst p'.
    exists (n + 1)%nat. eexists. unfold parse_model. specialize (HR 1%nat). unfold runL in HR.
    cbn [next_token] in HR. destruct (next_token (yield (Node q cs))) as [la rest]. rewrite HR.
    cbn [run]. rewrite (exit_shape_false g T _ Hp'), Ea, (get_prod_of_nth q _ rhsq Hq). cbv zeta.
    change (@length Z rhsq) with (@length symbol rhsq). rewrite <- Hlen.
    rewrite Nat.ltb_irrefl, skipn_all. cbn [negb]. reflexivity.
Qed.

End Cert.

Lemma c32_complete_tables_lemma : forall g T I w,
  tables_ok true g T = true -> complete_cert g T I = true -> sentence g w -> ~ In EOF w ->
  exists fuel v, parse_model true fuel g T w = Ok v /\ parse_of g w v.
Proof.
  intros g T I w HT HC Hs Hw. unfold complete_cert in HC.
  apply andb_true_iff in HC as [HC HI]. apply andb_true_iff in HC as [HC H0].
  apply andb_true_iff in HC as [HH HS]. apply negb_true_iff in HS.
  destruct (complete_run g T I HH HT HI HS H0 w Hs) as (fuel & v & E).
  exists fuel, v. split; [exact E|]. eapply c32_sound_lemma; eauto.
Qed.
