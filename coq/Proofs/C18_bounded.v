(* Proofs/C18_bounded.v — load (save hf) = hf checked by computation on a finite family of
   canonical HexFiles (the unbounded statement is not proved; see Props/C18.v). *)
From PV Require Import Lib.Py Spec.IhexSpec Model.Hexfile.
Open Scope Z_scope.

Definition hexfile_eqb (a b : HexFile) : bool :=
  (start_address a =? start_address b) &&
  (fix eqb (x y : list region) : bool :=
     match x, y with
     | [], [] => true
     | p :: x', q :: y' => region_eqb p q && eqb x' y'
     | _, _ => false
     end) (regions a) (regions b).

Definition roundtrips (hf : HexFile) : bool :=
  match save hf with
  | Ok lines => match load lines with Ok hf' => hexfile_eqb hf' hf | _ => false end
  | _ => false
  end.

Definition bytes_from (seed n : Z) : list Z := map (fun i => (seed + 7 * i) mod 256) (rangeZ 0 n).

(* region start addresses around 0, 64 KiB multiples, 16 MiB and the top of the 32-bit space *)
Definition anchors : list Z :=
  [0; 1; 255; 65505; 65506; 65520; 65534; 65535; 65536; 65537; 131041; 131071; 131072; 196605;
   16777185; 16777215; 16777216; 2147483632; 4294901729; 4294901760; 4294967200].
Definition sizes : list Z := [1; 2; 29; 30; 31; 32; 59; 60; 61; 70; 95].
Definition starts : list Z := [0; 1; 4660; 4294967295].

(* one region; two regions with a gap; three regions spread over different 64 KiB pages *)
Definition family1 : list HexFile :=
  flat_map (fun a => flat_map (fun n => map (fun s => mkHexFile [(a, bytes_from (a + n) n)] s) starts) sizes) anchors.
Definition family2 : list HexFile :=
  flat_map (fun a => flat_map (fun n => map (fun g =>
     mkHexFile [(a, bytes_from a n); (a + n + g, bytes_from g (n + 3))] (a + 1)) [1; 2; 30; 65536; 70000]) sizes)
    (filter (fun a => a <? 4000000000) anchors).
Definition family3 : list HexFile :=
  map (fun n => mkHexFile [(65535, bytes_from 1 n); (131070 + n, bytes_from 2 (2 * n)); (196605 + 3 * n, bytes_from 3 70);
                           (16777215, bytes_from 4 n); (4294967295 - n, bytes_from 5 n)] n) sizes.
(* a region longer than 64 KiB (crosses two page boundaries) *)
Definition family4 : list HexFile := [mkHexFile [(61443, bytes_from 9 65600)] 256].

Lemma load_save_family1 : forallb roundtrips family1 = true.
Proof. vm_compute. reflexivity. Qed.
Lemma load_save_family2 : forallb roundtrips family2 = true.
Proof. vm_compute. reflexivity. Qed.
Lemma load_save_family3 : forallb roundtrips family3 = true.
Proof. vm_compute. reflexivity. Qed.
Lemma load_save_family4 : forallb roundtrips family4 = true.
Proof. vm_compute. reflexivity. Qed.

Lemma family_sizes : (List.length family1, List.length family2, List.length family3, List.length family4)
                     = (924, 990, 11, 1)%nat.
Proof. vm_compute. reflexivity. Qed.

Definition family : list HexFile := family1 ++ family2 ++ family3 ++ family4.
Lemma load_save_family : forallb roundtrips family = true.
Proof.
  unfold family. rewrite !forallb_app.
  now rewrite load_save_family1, load_save_family2, load_save_family3, load_save_family4.
Qed.
Lemma load_save_bounded hf : In hf family -> exists lines, save hf = Ok lines /\
  exists hf', load lines = Ok hf' /\ hexfile_eqb hf' hf = true.
Proof.
  intros H. pose proof load_save_family as A. rewrite forallb_forall in A. specialize (A hf H).
  unfold roundtrips in A. destruct (save hf) as [lines| | |]; try discriminate.
  exists lines. split; [reflexivity|]. destruct (load lines) as [hf'| | |]; try discriminate. eauto.
Qed.
