(* Proofs/C19_srecord.v — lemmas for property C19 (S-record writer). *)
From PV Require Import Lib.Py Lib.Tac Gen.bitfun Spec.SrecSpec Model.Srecord.
From Coq Require Import String Ascii.
Open Scope Z_scope.

(* ---------------- text layer *)
Lemma hexval_hexdigit n : 0 <= n < 16 -> hexval (hexdigit n) = Some n.
Proof.
  intros H.
  assert (A : forallb (fun n => match hexval (hexdigit n) with Some m => m =? n | None => false end)
                      (rangeZ 0 16) = true) by (vm_compute; reflexivity).
  rewrite forallb_forall in A. specialize (A n). rewrite rangeZ_In in A. specialize (A H).
  destruct (hexval (hexdigit n)); [f_equal; lia | discriminate].
Qed.

Lemma hex_bytes_hexlify bs : all_byte bs = true -> hex_bytes (hexlify_upper bs) = Some bs.
Proof.
  induction bs as [|b r IH]; intros H; [reflexivity|].
  cbn [all_byte forallb] in H. apply andb_true_iff in H. destruct H as [Hb Hr].
  unfold is_byte in Hb.
  cbn [hexlify_upper hex_bytes].
  rewrite !hexval_hexdigit by lia. fold (all_byte r) in Hr. rewrite (IH Hr).
  do 2 f_equal. lia.
Qed.

Lemma parse_line_to t bs : 0 <= t <= 9 -> all_byte bs = true ->
  parse_line (String "S" (String (ascii_of_nat (Z.to_nat (48 + t))) (hexlify_upper bs))) = Some (t, bs).
Proof.
  intros Ht Hb. unfold parse_line.
  rewrite nat_ascii_embedding by lia.
  replace (Z.of_nat (Z.to_nat (48 + t)) - 48) with t by lia.
  replace (Z.of_nat (nat_of_ascii "S") =? 83) with true by reflexivity.
  replace (0 <=? t) with true by lia. replace (t <=? 9) with true by lia. cbn [andb].
  now rewrite hex_bytes_hexlify.
Qed.

(* ---------------- record layer *)
Lemma is_byte_land v : is_byte (Z.land v 255) = true.
Proof.
  change 255 with (2 ^ 8 - 1). rewrite land_ones_mod by lia. unfold is_byte.
  assert (0 <= v mod 2 ^ 8 < 2 ^ 8) by (apply Z.mod_pos_bound; lia). change (2 ^ 8) with 256 in *. lia.
Qed.

Definition addr_ok (k a : Z) : Prop := 0 <= a < 256 ^ k.

Lemma vtb_ok a k : In k [2; 3; 4] -> exists bs,
  value_to_bytes_big_endian a k = Ok bs /\ List.length bs = Z.to_nat k /\ all_byte bs = true /\
  (addr_ok k a -> be_value bs = a).
Proof.
  intros Hk. unfold addr_ok.
  cbn [In] in Hk. destruct Hk as [<-|[<-|[<-|[]]]]; unfold value_to_bytes_big_endian.
  1: change (rangeZ 0 2) with [0; 1].
  2: change (rangeZ 0 3) with [0; 1; 2].
  3: change (rangeZ 0 4) with [0; 1; 2; 3].
  all: cbn [rev app map];
    match goal with |- context [guard (forallb ?f ?l) _ _] => change (forallb f l) with true end;
    cbn [guard]; unfold all_byte; cbn [forallb]; rewrite ?is_byte_land; cbn [andb guard];
    eexists; split; [reflexivity|]; split; [reflexivity|];
    split; [unfold all_byte; cbn [forallb]; rewrite ?is_byte_land; reflexivity|].
  all: change (0 * 8) with 0; change (1 * 8) with 8; change (2 * 8) with 16; change (3 * 8) with 24.
  all: intros Ha; unfold be_value; cbn [fold_left]; change 255 with (2 ^ 8 - 1);
    rewrite !land_ones_mod by lia; rewrite !shiftr_div by lia;
    change (2 ^ 8) with 256; change (2 ^ 0) with 1; change (2 ^ 16) with 65536; change (2 ^ 24) with 16777216.
  - change (256 ^ 2) with 65536 in Ha. lia.
  - change (256 ^ 3) with 16777216 in Ha. lia.
  - change (256 ^ 4) with 4294967296 in Ha. lia.
Qed.

Lemma crc_checksum s : Z.land (Z.lnot s) 255 = 255 - s mod 256.
Proof.
  unfold Z.lnot. change 255 with (2 ^ 8 - 1) at 1. rewrite land_ones_mod by lia.
  change (2 ^ 8) with 256. lia.
Qed.

Lemma sumZ_app a b : sumZ (a ++ b) = sumZ a + sumZ b.
Proof. induction a as [|x a IH]; cbn [app sumZ]; lia. Qed.

Lemma all_byte_app a b : all_byte (a ++ b) = all_byte a && all_byte b.
Proof. unfold all_byte. apply forallb_app. Qed.

Lemma len_app {A} (a b : list A) : len (a ++ b) = len a + len b.
Proof. unfold len. rewrite app_length. lia. Qed.

Lemma to_line_reads_gen t k a d :
  address_byte_sizes t = Some k -> addr_len t = Some (Z.to_nat k) -> In k [2; 3; 4] -> 0 <= t <= 9 ->
  addr_ok k a -> all_byte d = true -> len d <= 250 ->
  exists s, to_line (mkSRecord t a d) = Ok s /\ read_line s = Some (mk_srec t a d).
Proof.
  intros Hs Hl Hk Ht Ha Hd Hn.
  destruct (vtb_ok a k Hk) as (ab & Hv & Hlen & Hab & Hbe). specialize (Hbe Ha).
  assert (Hk' : 2 <= k <= 4) by (cbn [In] in Hk; lia).
  assert (Hlab : len ab = k) by (unfold len; lia).
  unfold to_line, to_line_bytes. cbn [typ address data]. rewrite Hs, Hv. cbn [bind].
  assert (Hc : is_byte (len (ab ++ d) + 1) = true) by (rewrite len_app; unfold is_byte; unfold len in *; lia).
  rewrite Hc. cbn [guard bind]. eexists. split; [reflexivity|].
  unfold read_line. rewrite crc_checksum.
  set (count := len (ab ++ d) + 1) in *.
  set (crc := 255 - sumZ (count :: ab ++ d) mod 256).
  assert (Hcrc : is_byte crc = true) by (unfold is_byte, crc; lia).
  rewrite parse_line_to; [|lia|].
  2:{ cbn [app all_byte forallb]. fold (all_byte ((ab ++ d) ++ [crc])). rewrite Hc.
      rewrite !all_byte_app, Hab, Hd. cbn [all_byte forallb]. now rewrite Hcrc. }
  unfold decode. rewrite Hl. cbn [app].
  rewrite removelast_last, last_last.
  assert (E1 : all_byte (count :: (ab ++ d) ++ [crc]) = true).
  { cbn [all_byte forallb]. fold (all_byte ((ab ++ d) ++ [crc])). rewrite Hc.
    rewrite !all_byte_app, Hab, Hd. cbn [all_byte forallb]. now rewrite Hcrc. }
  rewrite E1.
  assert (E2 : (count =? len ((ab ++ d) ++ [crc])) = true).
  { rewrite (len_app (ab ++ d)). unfold count. change (len [crc]) with 1. lia. }
  rewrite E2.
  assert (E3 : Nat.leb (S (Z.to_nat k)) (List.length ((ab ++ d) ++ [crc])) = true).
  { apply Nat.leb_le. rewrite !app_length. cbn [List.length]. lia. }
  rewrite E3.
  assert (E4 : (crc =? checksum (count :: ab ++ d)) = true) by (unfold checksum, crc; lia).
  rewrite E4. cbn [andb].
  rewrite <- Hlen. rewrite firstn_app, Nat.sub_diag, firstn_all. cbn [firstn]. rewrite app_nil_r.
  rewrite skipn_app, Nat.sub_diag, skipn_all. cbn [skipn app].
  now rewrite Hbe.
Qed.

Definition size_of (t : Z) : Z := match address_byte_sizes t with Some k => k | None => 0 end.

Lemma to_line_reads t a d :
  In t [0; 1; 2; 3; 7; 8; 9] -> addr_ok (size_of t) a -> all_byte d = true -> len d <= 250 ->
  exists s, to_line (mkSRecord t a d) = Ok s /\ read_line s = Some (mk_srec t a d).
Proof.
  intros Ht. cbn [In] in Ht.
  destruct Ht as [<-|[<-|[<-|[<-|[<-|[<-|[<-|[]]]]]]]]; unfold size_of; cbn [address_byte_sizes Z.eqb];
    intros; eapply to_line_reads_gen; eauto; try reflexivity; cbn [In]; try lia; auto.
Qed.

(* ---------------- chunks *)
Fixpoint chunk_list (n : nat) (l : list Z) : list (list Z) :=
  match n with O => [] | S n' => firstn 30 l :: chunk_list n' (skipn 30 l) end.

Lemma skipn_add {A} b : forall (l : list A) a, skipn a (skipn b l) = skipn (b + a) l.
Proof.
  induction b as [|b IH]; intros l a; [reflexivity|].
  destruct l as [|x l]; [now rewrite !skipn_nil|]. cbn [skipn Nat.add]. apply IH.
Qed.

Lemma chunks_gen d n : forall i, 0 <= i ->
  map (fun i => sliceZ d i (i + 30)) (seqZ_step i 30 n) = chunk_list n (skipn (Z.to_nat i) d).
Proof.
  induction n as [|n IH]; intros i Hi; [reflexivity|].
  cbn [seqZ_step map chunk_list]. f_equal.
  - unfold sliceZ. replace (i + 30 - i) with 30 by lia. reflexivity.
  - rewrite IH by lia. f_equal. rewrite skipn_add. f_equal. lia.
Qed.

Definition nchunks (l : list Z) : nat := Z.to_nat ((len l + 29) / 30).

Lemma chunks_chunk_list d : chunks d = chunk_list (nchunks d) d.
Proof.
  unfold chunks, rangeZ_step, nchunks. rewrite chunks_gen by lia. cbn [Z.to_nat skipn].
  do 2 f_equal. lia.
Qed.

Lemma len_skipn30 (l : list Z) : 30 <= len l -> len (skipn 30 l) = len l - 30.
Proof. unfold len. rewrite skipn_length. lia. Qed.

Lemma nchunks_S l : 0 < len l -> nchunks l = S (nchunks (skipn 30 l)).
Proof.
  intros H. unfold nchunks.
  destruct (Z_lt_le_dec (len l) 30).
  - rewrite skipn_all2 by (unfold len in *; lia). change (len []) with 0.
    replace ((len l + 29) / 30) with 1 by lia. reflexivity.
  - rewrite len_skipn30 by lia. lia.
Qed.

Lemma nchunks_0 l : len l = 0 -> nchunks l = O.
Proof. intros H. unfold nchunks. rewrite H. reflexivity. Qed.

Lemma len_nonneg {A} (l : list A) : 0 <= len l.
Proof. unfold len. lia. Qed.

(* the records the data loop is meant to emit *)
Fixpoint recs_of (T : Z) (chs : list (list Z)) (a : Z) : list srec :=
  match chs with [] => [] | c :: r => mk_srec T a c :: recs_of T r (a + len c) end.

Lemma all_byte_firstn n l : all_byte l = true -> all_byte (firstn n l) = true.
Proof.
  intros H. rewrite <- (firstn_skipn n l), all_byte_app in H. now apply andb_true_iff in H.
Qed.
Lemma all_byte_skipn n l : all_byte l = true -> all_byte (skipn n l) = true.
Proof.
  intros H. rewrite <- (firstn_skipn n l), all_byte_app in H. now apply andb_true_iff in H.
Qed.

Lemma len_firstn30 (l : list Z) : len (firstn 30 l) = Z.min 30 (len l).
Proof. unfold len. rewrite firstn_length. lia. Qed.

Lemma data_lines_read T : In T [1; 2; 3] -> forall n l a, n = nchunks l ->
  0 <= a -> a + len l <= 256 ^ size_of T -> all_byte l = true ->
  exists ls, data_lines T (chunk_list n l) a = Ok ls /\
             read_file ls = Some (recs_of T (chunk_list n l) a).
Proof.
  intros HT. induction n as [|n IH]; intros l a Hn Ha Hfit Hb.
  - cbn. eauto.
  - assert (Hl : 0 < len l).
    { destruct (Z.eq_dec (len l) 0) as [E|E]; [rewrite (nchunks_0 _ E) in Hn; discriminate|].
      pose proof (len_nonneg l). lia. }
    rewrite (nchunks_S _ Hl) in Hn. injection Hn as Hn.
    cbn [chunk_list data_lines recs_of].
    assert (HT' : In T [0; 1; 2; 3; 7; 8; 9]) by (cbn [In] in *; intuition).
    assert (Hsz : address_byte_sizes T = Some (size_of T)).
    { cbn [In] in HT. destruct HT as [<-|[<-|[<-|[]]]]; reflexivity. }
    unfold SRecord_init. rewrite Hsz. cbn [bind].
    destruct (to_line_reads T a (firstn 30 l) HT') as (s & Hs & Hr).
    + unfold addr_ok. lia.
    + now apply all_byte_firstn.
    + rewrite len_firstn30. lia.
    + rewrite Hs. cbn [bind].
      destruct (IH (skipn 30 l) (a + len (firstn 30 l)) Hn) as (ls & Hls & Hrs).
      * pose proof (len_nonneg (firstn 30 l)). lia.
      * rewrite len_firstn30.
        destruct (Z_lt_le_dec (len l) 30).
        -- rewrite skipn_all2 by (unfold len in *; lia). change (len []) with 0. lia.
        -- rewrite len_skipn30 by lia. lia.
      * now apply all_byte_skipn.
      * rewrite Hls. cbn [bind]. eexists. split; [reflexivity|].
        cbn [read_file]. now rewrite Hr, Hrs.
Qed.

(* ---------------- denotation *)
Lemma denote_app xs ys a :
  denote (xs ++ ys) a = match denote ys a with Some b => Some b | None => denote xs a end.
Proof.
  induction xs as [|x xs IH]; cbn [app denote].
  - now destruct (denote ys a).
  - rewrite IH. now destruct (denote ys a).
Qed.

Lemma image_nil base a : image base [] a = None.
Proof. unfold image. change (len []) with 0. destruct (_ && _) eqn:E; [lia|reflexivity]. Qed.

Lemma denote_recs T : is_data T = true -> forall n l a x, (List.length l <= n * 30)%nat ->
  denote (recs_of T (chunk_list n l) a) x = image a l x.
Proof.
  intros HT. induction n as [|n IH]; intros l a x Hn.
  - destruct l; [|cbn in Hn; lia]. cbn. now rewrite image_nil.
  - cbn [chunk_list recs_of denote]. rewrite IH by (rewrite skipn_length; lia).
    unfold rec_lookup. cbn [s_typ s_addr s_data]. rewrite HT. cbn [andb].
    generalize (firstn_skipn 30 l). generalize (firstn 30 l) (skipn 30 l). intros c r Hl. subst l.
    unfold image. rewrite len_app.
    pose proof (len_nonneg c). pose proof (len_nonneg r).
    destruct ((a + len c <=? x) && (x <? a + len c + len r)) eqn:E1.
    + replace ((a <=? x) && (x <? a + (len c + len r))) with true by lia.
      rewrite nth_error_app2 by (unfold len in *; lia).
      destruct (nth_error r (Z.to_nat (x - (a + len c)))) eqn:E2.
      * rewrite <- E2. f_equal. unfold len. lia.
      * rewrite <- E2. 
        assert (nth_error r (Z.to_nat (x - (a + len c))) <> None).
        { apply nth_error_Some. unfold len in *. lia. }
        congruence.
    + destruct ((a <=? x) && (x <? a + len c)) eqn:E3.
      * replace ((a <=? x) && (x <? a + (len c + len r))) with true by lia.
        rewrite nth_error_app1 by (unfold len in *; lia). reflexivity.
      * replace ((a <=? x) && (x <? a + (len c + len r))) with false by lia. reflexivity.
Qed.

(* ---------------- the writer *)
Definition data_type_for (end_address : Z) : Z :=
  if end_address <=? 65536 then 1 else if end_address <=? 16777216 then 2 else 3.

Definition expected_recs (base : Z) (code : list Z) : list srec :=
  let T := data_type_for (base + len code) in
  mk_srec 0 0 HDR :: recs_of T (chunk_list (nchunks code) code) base ++ [mk_srec (10 - T) 0 []].

Lemma nchunks_covers l : (List.length l <= nchunks l * 30)%nat.
Proof. unfold nchunks, len. lia. Qed.

Lemma write_srecord_master base code :
  0 <= base -> base + len code <= 4294967296 -> all_byte code = true ->
  exists lines, write_srecord base code = Ok lines /\
                read_file lines = Some (expected_recs base code).
Proof.
  intros Hb Hfit Hc. unfold write_srecord, expected_recs, data_type_for.
  rewrite chunks_chunk_list.
  destruct (to_line_reads 0 0 HDR) as (l0 & Hl0 & Hr0);
    [cbn [In]; auto | unfold addr_ok; cbn; lia | reflexivity | cbn; lia |].
  assert (Hterm : forall t, In t [7; 8; 9] -> exists l9, to_line (mkSRecord t 0 []) = Ok l9 /\
                                             read_line l9 = Some (mk_srec t 0 [])).
  { intros t Ht. apply to_line_reads; [cbn [In] in *; intuition | | reflexivity | cbn; lia].
    unfold addr_ok. cbn [In] in Ht. destruct Ht as [<-|[<-|[<-|[]]]]; cbn; lia. }
  assert (Hdata : forall T, In T [1; 2; 3] -> base + len code <= 256 ^ size_of T ->
            exists ls, data_lines T (chunk_list (nchunks code) code) base = Ok ls /\
                       read_file ls = Some (recs_of T (chunk_list (nchunks code) code) base)).
  { intros T HT Hf. now apply data_lines_read. }
  assert (Hfin : forall T ls l9 rs,
            read_file ls = Some rs -> read_line l9 = Some (mk_srec (10 - T) 0 []) ->
            read_file (l0 :: ls ++ [l9]) = Some (mk_srec 0 0 HDR :: rs ++ [mk_srec (10 - T) 0 []])).
  { intros T ls l9 rs H1 H2. cbn [read_file]. rewrite Hr0.
    assert (G : forall ls rs, read_file ls = Some rs ->
                read_file (ls ++ [l9]) = Some (rs ++ [mk_srec (10 - T) 0 []])).
    { clear - H2. induction ls as [|x ls IH]; intros rs H.
      - injection H as <-. cbn [app read_file]. now rewrite H2.
      - cbn [app read_file] in *. destruct (read_line x); [|discriminate].
        destruct (read_file ls) eqn:E; [|discriminate]. injection H as <-.
        now rewrite (IH _ eq_refl). }
    now rewrite (G _ _ H1). }
  destruct (base + len code <=? 65536) eqn:E1; [|destruct (base + len code <=? 16777216) eqn:E2;
    [|replace (base + len code <=? 4294967296) with true by lia]]; cbn [bind];
    change (SRecord_init 0 0 HDR) with (Ok (mkSRecord 0 0 HDR)); cbn [bind]; rewrite Hl0; cbn [bind].
  - destruct (Hdata 1) as (ls & Hls & Hrs); [cbn [In]; auto | change (256 ^ size_of 1) with 65536; lia |].
    destruct (Hterm 9) as (l9 & Hl9 & Hr9); [cbn [In]; auto|].
    rewrite Hls. cbn [bind]. change (SRecord_init 9 0 []) with (Ok (mkSRecord 9 0 [])). cbn [bind]. rewrite Hl9. cbn [bind].
    eexists. split; [reflexivity|]. now apply (Hfin 1).
  - destruct (Hdata 2) as (ls & Hls & Hrs); [cbn [In]; auto | change (256 ^ size_of 2) with 16777216; lia |].
    destruct (Hterm 8) as (l9 & Hl9 & Hr9); [cbn [In]; auto|].
    rewrite Hls. cbn [bind]. change (SRecord_init 8 0 []) with (Ok (mkSRecord 8 0 [])). cbn [bind]. rewrite Hl9. cbn [bind].
    eexists. split; [reflexivity|]. now apply (Hfin 2).
  - destruct (Hdata 3) as (ls & Hls & Hrs); [cbn [In]; auto | change (256 ^ size_of 3) with 4294967296; lia |].
    destruct (Hterm 7) as (l9 & Hl9 & Hr9); [cbn [In]; auto|].
    rewrite Hls. cbn [bind]. change (SRecord_init 7 0 []) with (Ok (mkSRecord 7 0 [])). cbn [bind]. rewrite Hl9. cbn [bind].
    eexists. split; [reflexivity|]. now apply (Hfin 3).
Qed.

Lemma data_type_cases e : let T := data_type_for e in (T = 1 \/ T = 2 \/ T = 3).
Proof. unfold data_type_for. destruct (e <=? 65536); auto. destruct (e <=? 16777216); auto. Qed.

Lemma recs_of_types T chs : forall a, forallb (fun r => s_typ r =? T) (recs_of T chs a) = true.
Proof. induction chs as [|c r IH]; intros a; cbn [recs_of forallb s_typ]; [reflexivity|]. rewrite IH. lia. Qed.

Lemma forallb_rev {A} (f : A -> bool) l : forallb f (rev l) = forallb f l.
Proof.
  induction l as [|x l IH]; [reflexivity|]. cbn [rev forallb]. rewrite forallb_app, IH. cbn [forallb].
  destruct (f x), (forallb f l); reflexivity.
Qed.

Lemma expected_wf base code : wf_file (expected_recs base code) = true.
Proof.
  unfold expected_recs, wf_file. cbn [s_typ]. rewrite rev_app_distr. cbn [rev app s_typ].
  set (T := data_type_for (base + len code)).
  replace (10 - (10 - T)) with T by lia.
  rewrite forallb_rev, recs_of_types.
  destruct (data_type_cases (base + len code)) as [E|[E|E]]; fold T in E; rewrite E; reflexivity.
Qed.

Lemma expected_denote base code a : denote (expected_recs base code) a = image base code a.
Proof.
  unfold expected_recs. set (T := data_type_for (base + len code)).
  change (mk_srec 0 0 HDR :: ?x) with ([mk_srec 0 0 HDR] ++ x).
  assert (HT : is_data T = true).
  { destruct (data_type_cases (base + len code)) as [E|[E|E]]; fold T in E; rewrite E; reflexivity. }
  assert (Hterm : denote [mk_srec (10 - T) 0 []] a = None).
  { cbn [denote]. unfold rec_lookup. cbn [s_typ s_addr s_data]. change (len []) with 0.
    destruct (_ && _) eqn:E; [lia|reflexivity]. }
  rewrite !denote_app, Hterm.
  rewrite (denote_recs T HT) by apply nchunks_covers.
  destruct (image base code a); [reflexivity|].
  cbn [denote]. unfold rec_lookup. cbn [s_typ is_data Z.leb andb]. reflexivity.
Qed.

Lemma write_srecord_too_large base code :
  4294967296 < base + len code -> write_srecord base code = Diag 1.
Proof.
  intros H. unfold write_srecord.
  replace (base + len code <=? 65536) with false by lia.
  replace (base + len code <=? 16777216) with false by lia.
  replace (base + len code <=? 4294967296) with false by lia. reflexivity.
Qed.

(* ---------------- statements used by Props/C19.v *)
Definition precondition (base : Z) (code : list Z) : Prop :=
  0 <= base /\ base + len code <= 4294967296 /\ all_byte code = true.

Lemma record_wellformed base code : precondition base code ->
  exists lines recs, write_srecord base code = Ok lines /\ read_file lines = Some recs.
Proof.
  intros (H1 & H2 & H3). destruct (write_srecord_master base code H1 H2 H3) as (l & Hl & Hr). eauto.
Qed.

Lemma denotes_code base code lines : precondition base code -> write_srecord base code = Ok lines ->
  exists recs, read_file lines = Some recs /\ forall a, denote recs a = image base code a.
Proof.
  intros (H1 & H2 & H3) Hw. destruct (write_srecord_master base code H1 H2 H3) as (l & Hl & Hr).
  rewrite Hw in Hl. injection Hl as <-. eexists. split; [exact Hr|]. apply expected_denote.
Qed.

Lemma header_is_S0 base code lines : precondition base code -> write_srecord base code = Ok lines ->
  exists recs, read_file lines = Some recs /\ wf_file recs = true /\
               exists rest, recs = mk_srec 0 0 [72; 68; 82] :: rest.
Proof.
  intros (H1 & H2 & H3) Hw. destruct (write_srecord_master base code H1 H2 H3) as (l & Hl & Hr).
  rewrite Hw in Hl. injection Hl as <-. eexists. split; [exact Hr|]. split; [apply expected_wf|].
  unfold expected_recs. eauto.
Qed.

