(* Proofs/C10_bitview.v — BitView.__setitem__ (regenerated: Gen.token_fields.bitview_setitem). *)
From PV Require Import Lib.Py Lib.Tac.
From PV Require Gen.token_fields.
Open Scope Z_scope.
Module G := PV.Gen.token_fields.

Definition upd {A} (k : nat) (x : A) (l : list A) : list A := firstn k l ++ x :: skipn (S k) l.

Lemma upd_cons {A} k (x a : A) l : upd (S k) x (a :: l) = a :: upd k x l.
Proof. reflexivity. Qed.
Lemma upd_0 {A} (x a : A) l : upd 0 x (a :: l) = x :: l.
Proof. reflexivity. Qed.

Lemma upd_length {A} (x : A) : forall k l, (k < length l)%nat -> length (upd k x l) = length l.
Proof.
  induction k as [|k IH]; intros [|a l] H; cbn [length] in H; try lia.
  - reflexivity.
  - rewrite upd_cons. cbn [length]. rewrite IH by lia. reflexivity.
Qed.
Lemma len_upd {A} k (x : A) l : (k < length l)%nat -> len (upd k x l) = len l.
Proof. intros H. unfold len. now rewrite upd_length. Qed.
Lemma nth_upd_same {A} (x d : A) : forall k l, (k < length l)%nat -> nth k (upd k x l) d = x.
Proof.
  induction k as [|k IH]; intros [|a l] H; cbn [length] in H; try lia.
  - reflexivity.
  - rewrite upd_cons. cbn [nth]. apply IH. lia.
Qed.
Lemma nth_upd_other {A} (x d : A) : forall k l k', (k < length l)%nat -> k' <> k ->
  nth k' (upd k x l) d = nth k' l d.
Proof.
  induction k as [|k IH]; intros [|a l] k' H Hne; cbn [length] in H; try lia.
  - rewrite upd_0. destruct k'; [lia|reflexivity].
  - rewrite upd_cons. destruct k'; [reflexivity|]. cbn [nth]. apply IH; lia.
Qed.
Lemma upd_upd {A} (x y : A) : forall k l, (k < length l)%nat -> upd k y (upd k x l) = upd k y l.
Proof.
  induction k as [|k IH]; intros [|a l] H; cbn [length] in H; try lia.
  - reflexivity.
  - rewrite !upd_cons. f_equal. apply IH. lia.
Qed.

Definition newbyte (old o s d value : Z) : Z :=
  Z.lor (Z.land old (Z.lxor 255 (Z.shiftl (Z.shiftl 1 s - 1) o)))
        (Z.shiftl (Z.land (Z.shiftl 1 s - 1) (Z.shiftr value d)) o).

Lemma newbyte_bit old o s d value t : 0 <= old < 256 -> 0 <= o -> 0 < s -> 0 <= d -> 0 <= t ->
  Z.testbit (newbyte old o s d value) t =
  if (o <=? t) && (t <? o + s) then Z.testbit value (t - o + d) else Z.testbit old t && (t <? 8).
Proof.
  intros Ho Hoo Hs Hd Ht. unfold newbyte. rewrite shiftl1_pow by lia.
  rewrite Z.lor_spec, Z.land_spec, Z.lxor_spec, !Z.shiftl_spec by lia.
  change 255 with (2 ^ 8 - 1). rewrite !testbit_ones_full by lia.
  destruct ((o <=? t) && (t <? o + s)) eqn:In.
  - rewrite Z.land_spec, testbit_ones_full, Z.shiftr_spec by lia.
    replace ((0 <=? t - o) && (t - o <? s)) with true by lia.
    replace ((0 <=? t) && (t <? 8)) with ((t <? 8)) by lia.
    destruct (Z.ltb_spec t 8); cbn [xorb andb orb].
    + now rewrite andb_false_r.
    + rewrite (testbit_small old 8 t) by (change (2 ^ 8) with 256; lia). reflexivity.
  - assert (T : Z.testbit (Z.land (2 ^ s - 1) (Z.shiftr value d)) (t - o) = false).
    { destruct (Z.lt_ge_cases t o); [apply Z.testbit_neg_r; lia|].
      rewrite Z.land_spec, testbit_ones_full by lia. replace ((0 <=? t - o) && (t - o <? s)) with false by lia. reflexivity. }
    rewrite T, orb_false_r.
    replace ((0 <=? t - o) && (t - o <? s)) with false by lia. rewrite xorb_false_r.
    replace (0 <=? t) with true by lia. reflexivity.
Qed.

Lemma newbyte_range old o s d value : 0 <= old < 256 -> 0 <= o -> 0 < s -> o + s <= 8 -> 0 <= d ->
  0 <= newbyte old o s d value < 256.
Proof.
  intros Ho Hoo Hs Hos Hd.
  assert (N : 0 <= newbyte old o s d value).
  { unfold newbyte. rewrite shiftl1_pow by lia.
    assert (0 < 2 ^ s) by (apply Z.pow_pos_nonneg; lia).
    apply Z.lor_nonneg. split.
    - apply Z.land_nonneg. left. lia.
    - apply Z.shiftl_nonneg. apply Z.land_nonneg. left. lia. }
  split; [exact N|]. change 256 with (2 ^ 8). apply bits_lt_pow2; [lia|exact N|].
  intros t Ht. rewrite newbyte_bit by lia.
  replace ((o <=? t) && (t <? o + s)) with false by lia. replace (t <? 8) with false by lia. apply andb_false_r.
Qed.

Lemma guard_elim {A} c (e k : result A) : c = true -> guard c e k = k.
Proof. intros ->. reflexivity. Qed.

Lemma is_byte_range x : 0 <= x < 256 -> is_byte x = true.
Proof. unfold is_byte. lia. Qed.

Lemma land_byte old m : 0 <= old < 256 -> 0 <= Z.land old m < 256.
Proof.
  intros H. assert (N : 0 <= Z.land old m) by (apply Z.land_nonneg; left; lia).
  split; [exact N|]. change 256 with (2 ^ 8). apply bits_lt_pow2; [lia|exact N|].
  intros t Ht. rewrite Z.land_spec, (testbit_small old 8 t) by (change (2 ^ 8) with 256; lia). reflexivity.
Qed.

Ltac fold_upd := repeat match goal with
  | |- context [firstn ?k ?l ++ ?x :: skipn (S ?k) ?l] => change (firstn k l ++ x :: skipn (S k) l) with (upd k x l)
  end.

(* one iteration that touches byte begin + j *)
Lemma step_mid start stop value begin j l bits data :
  0 <= start -> start < stop -> 0 <= j -> start < j * 8 + 8 -> j * 8 < stop ->
  0 <= begin -> begin + j < len data -> 0 <= nth (Z.to_nat (begin + j)) data 0 < 256 ->
  exists bits',
    G.bitview_setitem_loop1 start stop value begin (j :: l) bits data =
    G.bitview_setitem_loop1 start stop value begin l bits'
      (upd (Z.to_nat (begin + j))
           (newbyte (nth (Z.to_nat (begin + j)) data 0) (Z.max start (j * 8) - j * 8)
                    (Z.min stop (j * 8 + 8) - Z.max start (j * 8)) (Z.max start (j * 8) - start) value) data).
Proof.
  intros Hs Hss Hj H1 H2 Hb Hlen Hold.
  assert (Hk : (Z.to_nat (begin + j) < length data)%nat) by (unfold len in Hlen; lia).
  cbn [G.bitview_setitem_loop1]. cbv zeta.
  replace (start >=? j * 8 + 8) with false by lia. replace (stop <=? j * 8) with false by lia.
  set (old := nth (Z.to_nat (begin + j)) data 0) in *.
  destruct (start >? j * 8) eqn:C1; destruct (stop <? j * 8 + 8) eqn:C2; eexists;
    fold_upd;
    (rewrite guard_elim by lia); (rewrite guard_elim by lia); (rewrite guard_elim by lia); (rewrite guard_elim by lia);
    (rewrite guard_elim by lia); (rewrite guard_elim by lia);
    (rewrite guard_elim by (apply is_byte_range, land_byte; exact Hold));
    rewrite !len_upd by exact Hk;
    (rewrite guard_elim by lia); (rewrite guard_elim by lia);
    rewrite nth_upd_same by exact Hk; rewrite upd_upd by exact Hk;
    match goal with |- guard (is_byte ?x) _ _ = _ =>
      match goal with |- _ = _ _ _ _ _ _ _ (upd _ ?nb _) => replace x with nb end end.
  all: try (rewrite guard_elim; [reflexivity|apply is_byte_range]).
  all: try (apply newbyte_range; [exact Hold|lia..]).
  all: unfold newbyte;
    repeat match goal with
    | |- context [Z.max ?a ?b] => first [replace (Z.max a b) with a by lia | replace (Z.max a b) with b by lia]
    | |- context [Z.min ?a ?b] => first [replace (Z.min a b) with a by lia | replace (Z.min a b) with b by lia]
    end; reflexivity.
Qed.

Lemma step_skip start stop value begin j l bits data : j * 8 + 8 <= start ->
  G.bitview_setitem_loop1 start stop value begin (j :: l) bits data =
  G.bitview_setitem_loop1 start stop value begin l bits data.
Proof. intros H. cbn [G.bitview_setitem_loop1]. cbv zeta. replace (start >=? j * 8 + 8) with true by lia. reflexivity. Qed.

Lemma step_break start stop value begin j l bits data : start < j * 8 + 8 -> stop <= j * 8 ->
  G.bitview_setitem_loop1 start stop value begin (j :: l) bits data = Ok (bits, data).
Proof.
  intros H1 H2. cbn [G.bitview_setitem_loop1]. cbv zeta.
  replace (start >=? j * 8 + 8) with false by lia. replace (stop <=? j * 8) with true by lia. reflexivity.
Qed.

Definition bytes_ok (data : list Z) : Prop := forall k, (k < length data)%nat -> 0 <= nth k data 0 < 256.

(* bit t of byte k after the write *)
Definition expect_bit (data : list Z) (begin lo hi start stop value : Z) (k : nat) (t : Z) : bool :=
  if (begin + lo <=? Z.of_nat k) && (Z.of_nat k <? begin + hi) &&
     (start <=? 8 * (Z.of_nat k - begin) + t) && (8 * (Z.of_nat k - begin) + t <? stop)
  then Z.testbit value (8 * (Z.of_nat k - begin) + t - start)
  else Z.testbit (nth k data 0) t.

Lemma loop_spec start stop value begin : 0 <= start -> start < stop -> 0 <= begin ->
  forall n a bits data, 0 <= a -> begin + a + Z.of_nat n <= len data -> bytes_ok data ->
  exists bits' data',
    G.bitview_setitem_loop1 start stop value begin (seqZ_from a n) bits data = Ok (bits', data') /\
    length data' = length data /\ bytes_ok data' /\
    forall k t, (k < length data)%nat -> 0 <= t < 8 ->
      Z.testbit (nth k data' 0) t = expect_bit data begin a (a + Z.of_nat n) start stop value k t.
Proof.
  intros Hs Hss Hb. induction n as [|n IH]; intros a bits data Ha Hlen Hok.
  - exists bits, data. cbn [seqZ_from G.bitview_setitem_loop1].
    split; [reflexivity|]. split; [reflexivity|]. split; [exact Hok|].
    intros k t Hk Ht. unfold expect_bit.
    replace ((begin + a <=? Z.of_nat k) && (Z.of_nat k <? begin + (a + Z.of_nat 0))) with false by lia. reflexivity.
  - cbn [seqZ_from].
    destruct (Z.le_gt_cases (a * 8 + 8) start) as [Hskip|Hns].
    + rewrite step_skip by assumption.
      destruct (IH (a + 1) bits data ltac:(lia) ltac:(lia) Hok) as [b' [d' [E [L [B Sp]]]]].
      exists b', d'. split; [exact E|]. split; [exact L|]. split; [exact B|].
      intros k t Hk Ht. rewrite Sp by assumption. unfold expect_bit.
      destruct (Z.eq_dec (Z.of_nat k) (begin + a)) as [Ek|Nk].
      * replace ((begin + (a + 1) <=? Z.of_nat k)) with false by lia. cbn [andb].
        replace (start <=? 8 * (Z.of_nat k - begin) + t) with false by lia. now rewrite !andb_false_r.
      * replace (begin + (a + 1) <=? Z.of_nat k) with (begin + a <=? Z.of_nat k) by lia.
        replace (a + 1 + Z.of_nat n) with (a + Z.of_nat (S n)) by lia. reflexivity.
    + destruct (Z.le_gt_cases stop (a * 8)) as [Hbr|Hnb].
      * rewrite step_break by assumption. exists bits, data.
        split; [reflexivity|]. split; [reflexivity|]. split; [exact Hok|].
        intros k t Hk Ht. unfold expect_bit.
        destruct ((begin + a <=? Z.of_nat k) && (Z.of_nat k <? begin + (a + Z.of_nat (S n)))) eqn:In; [|reflexivity].
        replace (8 * (Z.of_nat k - begin) + t <? stop) with false by lia. now rewrite andb_false_r.
      * assert (Hk0 : (Z.to_nat (begin + a) < length data)%nat) by (unfold len in Hlen; lia).
        pose proof (Hok _ Hk0) as Hold.
        destruct (step_mid start stop value begin a (seqZ_from (a + 1) n) bits data Hs Hss Ha ltac:(lia) ltac:(lia)
                    Hb ltac:(unfold len in *; lia) Hold) as [b1 E1].
        rewrite E1. set (nb := newbyte _ _ _ _ _) in *. set (d1 := upd _ nb data).
        assert (Hnb' : 0 <= nb < 256) by (apply newbyte_range; [exact Hold|lia..]).
        assert (L1 : length d1 = length data) by (apply upd_length; exact Hk0).
        assert (Ok1 : bytes_ok d1).
        { intros k Hk. rewrite L1 in Hk. destruct (Nat.eq_dec k (Z.to_nat (begin + a))) as [->|Nk].
          - unfold d1. rewrite nth_upd_same by exact Hk0. exact Hnb'.
          - unfold d1. rewrite nth_upd_other by assumption. apply Hok. exact Hk. }
        assert (Hl1 : begin + (a + 1) + Z.of_nat n <= len d1) by (unfold len in *; rewrite L1; lia).
        destruct (IH (a + 1) b1 d1 ltac:(lia) Hl1 Ok1) as [b' [d' [E [L [B Sp]]]]].
        exists b', d'. split; [exact E|]. split; [lia|]. split; [exact B|].
        intros k t Hk Ht. rewrite Sp by (try rewrite L1; assumption). unfold expect_bit.
        destruct (Nat.eq_dec k (Z.to_nat (begin + a))) as [->|Nk].
        -- replace (begin + (a + 1) <=? Z.of_nat (Z.to_nat (begin + a))) with false by lia. cbn [andb].
           unfold d1. rewrite nth_upd_same by exact Hk0. unfold nb. rewrite newbyte_bit by (try exact Hold; lia).
           rewrite Z2Nat.id by lia.
           replace ((begin + a <=? begin + a) && (begin + a <? begin + (a + Z.of_nat (S n)))) with true by lia. cbn [andb].
           replace (8 * (begin + a - begin) + t) with (a * 8 + t) by lia.
           destruct ((start <=? a * 8 + t) && (a * 8 + t <? stop)) eqn:In.
           ++ replace ((Z.max start (a * 8) - a * 8 <=? t) &&
                       (t <? Z.max start (a * 8) - a * 8 + (Z.min stop (a * 8 + 8) - Z.max start (a * 8)))) with true by lia.
              f_equal. lia.
           ++ replace ((Z.max start (a * 8) - a * 8 <=? t) &&
                       (t <? Z.max start (a * 8) - a * 8 + (Z.min stop (a * 8 + 8) - Z.max start (a * 8)))) with false by lia.
              replace (t <? 8) with true by lia. apply andb_true_r.
        -- unfold d1. rewrite nth_upd_other by assumption.
           replace (begin + (a + 1) <=? Z.of_nat k) with (begin + a <=? Z.of_nat k) by lia.
           replace (a + 1 + Z.of_nat n) with (a + Z.of_nat (S n)) by lia. reflexivity.
Qed.

(* BitView(data, begin, length)[start:stop] = value.  Bits [start, stop) of the little-endian word formed by
   data[begin : begin+length] (bit i of the word = bit i mod 8 of byte begin + i / 8) become the bits of value;
   every other bit of every byte of data is unchanged; the length of data is unchanged. *)
Lemma bitview_writes_exactly data begin length_ start stop value :
  0 <= begin -> 0 <= length_ -> begin + length_ <= len data -> bytes_ok data ->
  0 <= start -> start < stop -> stop <= length_ * 8 -> value < 2 ^ (stop - start) ->
  exists data', G.bitview_setitem data begin length_ start stop value = Ok data' /\
    length data' = length data /\ bytes_ok data' /\
    forall k t, (k < length data)%nat -> 0 <= t < 8 ->
      Z.testbit (nth k data' 0) t =
      if (begin <=? Z.of_nat k) && (Z.of_nat k <? begin + length_) &&
         (start <=? 8 * (Z.of_nat k - begin) + t) && (8 * (Z.of_nat k - begin) + t <? stop)
      then Z.testbit value (8 * (Z.of_nat k - begin) + t - start)
      else Z.testbit (nth k data 0) t.
Proof.
  intros Hb Hl Hlen Hok Hs Hss Hst Hv. unfold G.bitview_setitem.
  rewrite guard_elim by lia. rewrite guard_elim by lia. rewrite guard_elim by lia.
  rewrite shiftl1_pow by lia. rewrite guard_elim by lia.
  unfold rangeZ. rewrite Z.sub_0_r.
  destruct (loop_spec start stop value begin Hs Hss Hb (Z.to_nat length_) 0 (stop - start) data ltac:(lia) ltac:(lia) Hok)
    as [b' [d' [E [L [B Sp]]]]].
  rewrite E. cbn [bind]. exists d'. split; [reflexivity|]. split; [exact L|]. split; [exact B|].
  intros k t Hk Ht. rewrite Sp by assumption. unfold expect_bit.
  replace (begin + 0) with begin by lia. replace (0 + Z.of_nat (Z.to_nat length_)) with length_ by lia. reflexivity.
Qed.
