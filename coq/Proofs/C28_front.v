(* Proofs/C28_front.v — "never an internal error" for the modelled components of the C front-end:
   constant-expression evaluation + packing, case labels, enumerators, #if evaluation. *)
From PV Require Import Lib.Py Lib.Tac Spec.CIntSpec Gen.ceval Model.CEval Model.CSema Model.CEvalOrig
  Proofs.C27_ceval Model.CSwitchEnum Gen.ppif Model.PPIf.
From Coq Require Import String.
Open Scope Z_scope.

(* outcome predicates *)
Definition good {A} (r : result A) : Prop := match r with Ok _ | Diag _ => True | _ => False end.
(* the only python exceptions of the unguarded evaluator: ZeroDivisionError and ValueError(negative shift count) *)
Definition okish {A} (r : result A) : Prop :=
  match r with Ok _ | Diag _ => True | Internal ZeroDiv | Internal ValueErrorI => True | _ => False end.

Lemma good_okish {A} (r : result A) : good r -> okish r.
Proof. destruct r; cbn; tauto. Qed.

Lemma good_bind {A B} (r : result A) (f : A -> result B) :
  good r -> (forall v, r = Ok v -> good (f v)) -> good (bind r f).
Proof. destruct r; cbn; intros H K; try tauto. now apply K. Qed.

Lemma okish_bind {A B} (r : result A) (f : A -> result B) :
  okish r -> (forall v, r = Ok v -> okish (f v)) -> okish (bind r f).
Proof. destruct r as [a|d|e|]; cbn; intros H K; try tauto. now apply K. Qed.

(* ---- tables ---- *)
Lemma lookup_Forall {A} (P : string * A -> Prop) k (l : list (string * A)) f :
  Forall P l -> CEval.lookup k l = Some f -> P (k, f).
Proof.
  induction 1 as [|[k' v] r Hp _ IH]; cbn [CEval.lookup]; [discriminate|].
  destruct (String.eqb k k') eqn:E.
  - apply String.eqb_eq in E. subst k'. intros [= ->]. exact Hp.
  - exact IH.
Qed.

Definition bin_okish (p : string * (Z -> Z -> result Z)) : Prop := forall x y, okish (snd p x y).
Definition bin_guarded (p : string * (Z -> Z -> result Z)) : Prop :=
  forall x y, (is_divop (fst p) = true -> y <> 0) -> (is_shiftop (fst p) = true -> 0 <= y) ->
              exists v, snd p x y = Ok v.
Definition un_total (p : string * (Z -> result Z)) : Prop := forall x, exists v, snd p x = Ok v.

Ltac crush_entry :=
  cbn [fst snd]; unfold ceval.c_rem, ceval.c_div, binop_11, binop_12, guard, bind;
  repeat match goal with |- context [if ?b then _ else _] => destruct b eqn:? end;
  cbn; eauto.

Lemma binop_table_okish : Forall bin_okish binop_table.
Proof. unfold binop_table. repeat constructor; intros x y; crush_entry. Qed.

Lemma binop_table_guarded : Forall bin_guarded binop_table.
Proof.
  unfold binop_table.
  repeat constructor; intros x y Hd Hs; cbn [fst snd] in *;
    try (eexists; reflexivity).
  - (* / *) rewrite c_div_ok; [eauto|]. apply Hd. reflexivity.
  - (* % *) rewrite c_rem_ok; [eauto|]. apply Hd. reflexivity.
  - (* >> *) unfold binop_11, guard. specialize (Hs eq_refl).
    destruct (0 <=? y) eqn:E; [eauto|lia].
  - (* << *) unfold binop_12, guard. specialize (Hs eq_refl).
    destruct (0 <=? y) eqn:E; [eauto|lia].
Qed.

Lemma unop_table_total : Forall un_total unop_table.
Proof. unfold unop_table. repeat constructor; intros x; cbn [snd]; eauto. Qed.

Lemma un_known_lookup op : un_known op = true -> exists f, CEval.lookup op unop_table = Some f.
Proof.
  unfold un_known. intros H.
  destruct (String.eqb op "-") eqn:E1; [apply String.eqb_eq in E1; subst; cbn; eauto|].
  destruct (String.eqb op "~") eqn:E2; [apply String.eqb_eq in E2; subst; cbn; eauto|].
  destruct (String.eqb op "!") eqn:E3; [apply String.eqb_eq in E3; subst; cbn; eauto|].
  discriminate.
Qed.

(* ---- the evaluator ---- *)
Lemma eval_f_false c e : eval_expr_f false c e = eval_expr c e.
Proof.
  induction e as [v t|a IH t|op a IH t|a IHa op b IHb t|a IHa b IHb d IHd t]; cbn [eval_expr_f eval_expr].
  - reflexivity.
  - now rewrite IH.
  - now rewrite IH.
  - rewrite IHa, IHb. cbn [andb]. reflexivity.
  - now rewrite IHa, IHb, IHd.
Qed.

Section Ctx.
Variable c : cctx.
Hypothesis Hwf : wf_ctx c.

Lemma convert_good t v : good (convert_m c t v).
Proof. rewrite (convert_m_ok c Hwf). exact I. Qed.

(* the unguarded code: no KeyError / NotImplementedError / TypeError on the trees of the grammar *)
Lemma eval_okish e : ops_known e = true -> okish (eval_expr c e).
Proof.
  induction e as [v t|a IH t|op a IH t|a IHa op b IHb t|a IHa b IHb d IHd t];
    cbn [ops_known eval_expr]; intros K.
  - exact I.
  - apply okish_bind; [now apply IH|]. intros v _. apply good_okish, convert_good.
  - apply andb_prop in K as [Ku Ka]. unfold un_known in Ku. rewrite Ku.
    apply okish_bind; [now apply IH|]. intros v _.
    destruct (un_known_lookup op Ku) as [f Hf]. rewrite Hf.
    destruct (lookup_Forall un_total _ _ _ unop_table_total Hf v) as [r Hr]. cbn [snd] in Hr.
    rewrite Hr. cbn [bind]. apply good_okish, convert_good.
  - apply andb_prop in K as [K Kb]. apply andb_prop in K as [Ko Ka].
    destruct (String.eqb op "&&") eqn:E1.
    { apply okish_bind; [now apply IHa|]. intros va _. destruct (va =? 0); [exact I|].
      apply okish_bind; [now apply IHb|]. intros vb _. exact I. }
    destruct (String.eqb op "||") eqn:E2.
    { apply okish_bind; [now apply IHa|]. intros va _. destruct (negb (va =? 0)); [exact I|].
      apply okish_bind; [now apply IHb|]. intros vb _. exact I. }
    apply okish_bind; [now apply IHa|]. intros lhs _.
    apply okish_bind; [now apply IHb|]. intros rhs _.
    unfold bin_known in Ko. rewrite E1, E2 in Ko. cbn [orb] in Ko.
    destruct (CEval.lookup op binop_table) as [f|] eqn:Hf; [|discriminate].
    pose proof (lookup_Forall bin_okish _ _ _ binop_table_okish Hf lhs rhs) as P. cbn [snd] in P.
    apply okish_bind; [exact P|]. intros r _. apply good_okish, convert_good.
  - apply andb_prop in K as [K Kd]. apply andb_prop in K as [Ka Kb].
    apply okish_bind; [now apply IHa|]. intros va _.
    destruct (negb (va =? 0)); [now apply IHb|now apply IHd].
Qed.

(* the guarded code (fixes/C28-const-division-by-zero.diff): Ok or a diagnostic *)
Lemma eval_fixed_good e : ops_known e = true -> good (eval_expr_f true c e).
Proof.
  induction e as [v t|a IH t|op a IH t|a IHa op b IHb t|a IHa b IHb d IHd t];
    cbn [ops_known eval_expr_f]; intros K.
  - exact I.
  - apply good_bind; [now apply IH|]. intros v _. apply convert_good.
  - apply andb_prop in K as [Ku Ka]. unfold un_known in Ku. rewrite Ku.
    apply good_bind; [now apply IH|]. intros v _.
    destruct (un_known_lookup op Ku) as [f Hf]. rewrite Hf.
    destruct (lookup_Forall un_total _ _ _ unop_table_total Hf v) as [r Hr]. cbn [snd] in Hr.
    rewrite Hr. cbn [bind]. apply convert_good.
  - apply andb_prop in K as [K Kb]. apply andb_prop in K as [Ko Ka].
    destruct (String.eqb op "&&") eqn:E1.
    { apply good_bind; [now apply IHa|]. intros va _. destruct (va =? 0); [exact I|].
      apply good_bind; [now apply IHb|]. intros vb _. exact I. }
    destruct (String.eqb op "||") eqn:E2.
    { apply good_bind; [now apply IHa|]. intros va _. destruct (negb (va =? 0)); [exact I|].
      apply good_bind; [now apply IHb|]. intros vb _. exact I. }
    apply good_bind; [now apply IHa|]. intros lhs _.
    apply good_bind; [now apply IHb|]. intros rhs _.
    cbn [andb].
    destruct (is_divop op && (rhs =? 0)) eqn:G1; [exact I|].
    destruct (is_shiftop op && (rhs <? 0)) eqn:G2; [exact I|].
    unfold bin_known in Ko. rewrite E1, E2 in Ko. cbn [orb] in Ko.
    destruct (CEval.lookup op binop_table) as [f|] eqn:Hf; [|discriminate].
    assert (D : is_divop op = true -> rhs <> 0) by (intros D; rewrite D in G1; cbn [andb] in G1; lia).
    assert (S : is_shiftop op = true -> 0 <= rhs) by (intros S; rewrite S in G2; cbn [andb] in G2; lia).
    destruct (lookup_Forall bin_guarded _ _ _ binop_table_guarded Hf lhs rhs D S) as [r Hr]. cbn [snd] in Hr.
    rewrite Hr. cbn [bind]. apply convert_good.
  - apply andb_prop in K as [K Kd]. apply andb_prop in K as [Ka Kb].
    apply good_bind; [now apply IHa|]. intros va _.
    destruct (negb (va =? 0)); [now apply IHb|now apply IHd].
Qed.

(* T g = e;  where the initialiser carries the conversion to T (what CSemantics.coerce builds) *)
Lemma init_fixed_good t e : llong_size c = 8 -> ops_known e = true ->
  good (global_init_f true c t (CastE e t)).
Proof.
  intros H8 K. unfold global_init_f. cbn [eval_expr_f].
  pose proof (eval_fixed_good e K) as G.
  destruct (eval_expr_f true c e) as [v| | |] eqn:E; cbn in G; cbn [bind]; try exact I; try tauto.
  rewrite (convert_m_ok c Hwf). cbn [bind].
  rewrite (pack_in_range c t _ H8 (convert_in_range c Hwf t v)). exact I.
Qed.

(* ---- switch ---- *)
Lemma on_label_good st l : label_known l = true -> good (on_label true c st l).
Proof.
  destruct l as [e|e1 e2|]; cbn [label_known on_label]; intros K.
  - apply good_bind; [now apply eval_fixed_good|]. intros v _. destruct (overlaps v v (sw_vals st)); exact I.
  - apply andb_prop in K as [K1 K2].
    apply good_bind; [now apply eval_fixed_good|]. intros v1 _.
    apply good_bind; [now apply eval_fixed_good|]. intros v2 _.
    destruct (v1 >? v2); [exact I|]. destruct (overlaps v1 v2 (sw_vals st)); exact I.
  - destruct (sw_default st); exact I.
Qed.

Lemma on_labels_good ls : forall st, forallb label_known ls = true -> good (on_labels true c st ls).
Proof.
  induction ls as [|l r IH]; intros st K; cbn [on_labels]; [exact I|].
  cbn [forallb] in K. apply andb_prop in K as [Kl Kr].
  apply good_bind; [now apply on_label_good|]. intros st' _. now apply IH.
Qed.

Lemma cg_range_good vs : forall opts, good (cg_range vs opts).
Proof.
  induction vs as [|v r IH]; intros opts; cbn [cg_range]; [exact I|].
  destruct (existsb (Z.eqb v) opts); [exact I|apply IH].
Qed.

Lemma cg_labels_good ls : forall opts, forallb label_known ls = true -> good (cg_labels true c opts ls).
Proof.
  induction ls as [|l r IH]; intros opts K; cbn [cg_labels]; [exact I|].
  cbn [forallb] in K. apply andb_prop in K as [Kl Kr].
  apply good_bind; [|intros o _; now apply IH].
  destruct l as [e|e1 e2|]; cbn [label_known cg_label] in *.
  - apply good_bind; [now apply eval_fixed_good|]. intros v _. destruct (existsb (Z.eqb v) opts); exact I.
  - apply andb_prop in Kl as [K1 K2].
    apply good_bind; [now apply eval_fixed_good|]. intros v1 _.
    apply good_bind; [now apply eval_fixed_good|]. intros v2 _. apply cg_range_good.
  - exact I.
Qed.

Lemma switch_fixed_good ls : forallb label_known ls = true -> good (switch_model true c ls).
Proof.
  intros K. unfold switch_model.
  apply good_bind; [now apply on_labels_good|]. intros _ _.
  apply good_bind; [now apply cg_labels_good|]. intros _ _. exact I.
Qed.

(* ---- enum ---- *)
Lemma enum_values_fixed ls : forall next,
  forallb (fun o => match o with Some e => ops_known e | None => true end) ls = true ->
  match enum_values true c next ls with
  | Ok vs => Forall (fun v => in_int_range c v = true) vs
  | Diag _ => True
  | _ => False
  end.
Proof.
  induction ls as [|o r IH]; intros next K; cbn [enum_values]; [constructor|].
  cbn [forallb] in K. apply andb_prop in K as [Ko Kr].
  assert (G : good (match o with Some e => eval_expr_f true c e | None => Ok next end))
    by (destruct o; [now apply eval_fixed_good|exact I]).
  destruct (match o with Some e => eval_expr_f true c e | None => Ok next end) as [v| | |];
    cbn in G; cbn [bind]; try exact I; try tauto.
  cbn [andb]. destruct (in_int_range c v) eqn:R; cbn [negb]; [|exact I].
  specialize (IH (v + 1) Kr).
  destruct (enum_values true c (v + 1) r) as [vs| | |]; cbn [bind]; try exact I; try tauto.
  constructor; assumption.
Qed.

Lemma in_int_range_spec v : in_int_range c v = true -> in_range (dm_of c) TInt v = true.
Proof.
  unfold in_int_range, in_range, tmin, tmax. unfold dm_of. cbn [is_signed bits bits_int].
  intros H. lia.
Qed.

Lemma enum_fixed_good ls : llong_size c = 8 ->
  forallb (fun o => match o with Some e => ops_known e | None => true end) ls = true ->
  good (enum_model true c ls).
Proof.
  intros H8 K. unfold enum_model.
  pose proof (enum_values_fixed ls 0 K) as E.
  destruct (enum_values true c 0 ls) as [vs| | |]; cbn [bind]; try exact I; try tauto.
  assert (R : in_range (dm_of c) TInt (last vs 0) = true).
  { apply in_int_range_spec.
    assert (Z0 : in_int_range c 0 = true).
    { unfold in_int_range. destruct Hwf as [H2 _].
      assert (0 < 2 ^ (8 * int_size c - 1)) by (apply Z.pow_pos_nonneg; lia). lia. }
    clear K. induction E as [|v vs' Hv _ IH]; [exact Z0|].
    destruct vs' as [|w ws]; [exact Hv|]. exact IH. }
  rewrite (pack_in_range c TInt _ H8 R). exact I.
Qed.

End Ctx.

(* ---- the wrapping pack (fixes/C28-pack-integer-conversion.diff): total, no cast needed ---- *)
Lemma pack_w_ok c (Hwf : wf_ctx c) t v : llong_size c = 8 ->
  pack_w c t v = Ok (bytes_of (little_endian c) (sizeof c t) (convert (dm_of c) t v)).
Proof.
  intros H8. unfold pack_w. rewrite (convert_m_ok c Hwf). cbn [bind].
  exact (pack_in_range c t _ H8 (convert_in_range c Hwf t v)).
Qed.

Lemma init_wrap_good c (Hwf : wf_ctx c) t e : llong_size c = 8 -> ops_known e = true ->
  good (global_init_w c t e).
Proof.
  intros H8 K. unfold global_init_w.
  apply good_bind; [now apply eval_fixed_good|]. intros v _.
  rewrite (pack_w_ok c Hwf t v H8). exact I.
Qed.

(* ---- refutations on the code as found (fixed = false) ---- *)
Definition e_div0 := BinOp (NumLit 1 TInt) "/" (NumLit 0 TInt) TInt.
Definition e_mod0 := BinOp (NumLit 1 TInt) "%" (NumLit 0 TInt) TInt.
Definition e_shl_neg := BinOp (NumLit 1 TInt) "<<" (UnOp "-" (NumLit 1 TInt) TInt) TInt.

Lemma ceval_refuted :
  ops_known e_div0 = true /\ eval_expr x86_64 e_div0 = Internal ZeroDiv /\
  ops_known e_mod0 = true /\ eval_expr x86_64 e_mod0 = Internal ZeroDiv /\
  ops_known e_shl_neg = true /\ eval_expr x86_64 e_shl_neg = Internal ValueErrorI /\
  global_init x86_64 TInt e_div0 = Internal ZeroDiv.
Proof. vm_compute. repeat split; reflexivity. Qed.

Lemma switch_refuted :
  label_known (ECase e_div0) = true /\ switch_model false x86_64 [ECase e_div0] = Internal ZeroDiv /\
  switch_model true x86_64 [ECase e_div0] = Diag 1.
Proof. vm_compute. repeat split; reflexivity. Qed.

(* enum E { A = 2147483647, B }; enum E g = B;   struct.error from CContext.pack *)
Lemma enum_refuted :
  enum_model false x86_64 [Some (NumLit 2147483647 TInt); None] = Internal StructError /\
  enum_model true x86_64 [Some (NumLit 2147483647 TInt); None] = Diag 21.
Proof. vm_compute. split; reflexivity. Qed.

(* ---- #if evaluation (C26 model) ---- *)
Definition pp_okish (r : result Z) : Prop := okish r.

Definition op_okish (p : string * (Z * bool * option (Z -> Z -> result Z))) : Prop :=
  forall f, op_func (snd p) = Some f -> forall x y, okish (f x y).

Lemma op_map_okish : Forall op_okish op_map.
Proof.
  unfold op_map.
  repeat constructor; intros f Hf; cbn in Hf; try discriminate; injection Hf as <-; intros x y;
    unfold Gen.ppif.c_rem, Gen.ppif.c_div, op_5, op_6, guard, bind;
    repeat match goal with |- context [if ?b then _ else _] => destruct b eqn:? end; cbn; eauto.
Qed.

Lemma pp_lookup_Forall {A} (P : string * A -> Prop) k (l : list (string * A)) f :
  Forall P l -> PPIf.lookup k l = Some f -> P (k, f).
Proof.
  induction 1 as [|[k' v] r Hp _ IH]; cbn [PPIf.lookup]; [discriminate|].
  destruct (String.eqb k k') eqn:E.
  - apply String.eqb_eq in E. subst k'. intros [= ->]. exact Hp.
  - exact IH.
Qed.

(* trees the #if parser builds: unary ! - ~, binary operators of OP_MAP that have a function, ?: *)
Fixpoint pp_known (t : ptree) : bool :=
  match t with
  | PTNum _ => true
  | PTUn op a => (String.eqb op "!" || String.eqb op "-" || String.eqb op "~") && pp_known a
  | PTBin a op b =>
      (String.eqb op "||" || String.eqb op "&&" ||
       match PPIf.lookup op op_map with Some e => is_some (op_func e) | None => false end)
      && pp_known a && pp_known b
  | PTTern a b d => pp_known a && pp_known b && pp_known d
  end.

Lemma ppif_okish t : pp_known t = true -> okish (eval_tree t).
Proof.
  unfold eval_tree.
  induction t as [v|op a IH|a IHa op b IHb|a IHa b IHb d IHd]; cbn [pp_known eval_tree_with]; intros K.
  - exact I.
  - apply andb_prop in K as [Ko Ka]. apply okish_bind; [now apply IH|]. intros v _.
    destruct (String.eqb op "!"); [exact I|]. destruct (String.eqb op "-"); [exact I|].
    destruct (String.eqb op "~"); [exact I|]. cbn in Ko. discriminate.
  - apply andb_prop in K as [K Kb]. apply andb_prop in K as [Ko Ka].
    destruct (String.eqb op "||") eqn:E1.
    { apply okish_bind; [now apply IHa|]. intros v _.
      apply okish_bind; [destruct (negb (truthy v)); [now apply IHb|exact I]|]. intros v' _. exact I. }
    destruct (String.eqb op "&&") eqn:E2.
    { apply okish_bind; [now apply IHa|]. intros v _.
      apply okish_bind; [destruct (truthy v); [now apply IHb|exact I]|]. intros v' _. exact I. }
    cbn [orb] in Ko.
    destruct (PPIf.lookup op op_map) as [e|] eqn:Hl; [|discriminate].
    apply okish_bind; [now apply IHa|]. intros va _.
    apply okish_bind; [now apply IHb|]. intros vb _.
    destruct (op_func e) as [f|] eqn:Hf; [|discriminate].
    exact (pp_lookup_Forall op_okish _ _ _ op_map_okish Hl f Hf va vb).
  - apply andb_prop in K as [K Kd]. apply andb_prop in K as [Ka Kb].
    apply okish_bind; [now apply IHa|]. intros v _.
    destruct (truthy v); [now apply IHb|now apply IHd].
Qed.

Lemma ppif_refuted :
  pp_known (PTBin (PTNum 1) "/" (PTNum 0)) = true /\
  eval_tree (PTBin (PTNum 1) "/" (PTNum 0)) = Internal ZeroDiv /\
  eval_tree (PTBin (PTNum 1) "%" (PTNum 0)) = Internal ZeroDiv /\
  eval_tree (PTBin (PTNum 1) "<<" (PTUn "-" (PTNum 1))) = Internal ValueErrorI.
Proof. vm_compute. repeat split; reflexivity. Qed.

Lemma nonvacuous :
  wf_ctx x86_64 /\ llong_size x86_64 = 8 /\
  ops_known (BinOp (NumLit 7 TInt) "/" (NumLit 2 TInt) TInt) = true /\
  eval_expr_f true x86_64 (BinOp (NumLit 7 TInt) "/" (NumLit 2 TInt) TInt) = Ok 3 /\
  forallb label_known [ECase (NumLit 1 TInt); ERange (NumLit 2 TInt) (NumLit 4 TInt); EDefault] = true /\
  switch_model true x86_64 [ECase (NumLit 1 TInt); ERange (NumLit 2 TInt) (NumLit 4 TInt); EDefault] = Ok 0 /\
  switch_model true x86_64 [ECase (NumLit 3 TInt); ERange (NumLit 2 TInt) (NumLit 4 TInt)] = Diag 13 /\
  enum_model true x86_64 [None; Some (NumLit 5 TInt); None] = Ok 0.
Proof. unfold wf_ctx. vm_compute. repeat split; try reflexivity; discriminate. Qed.
