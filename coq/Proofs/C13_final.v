(* Proofs/C13_final.v — C13: statements used by Props/C13.v. *)
From PV Require Import Lib.Py Lib.Tac Spec.RelocSpec Gen.bitfun Model.Reloc Model.Relax
  Proofs.C11_bits Proofs.C11_final Proofs.C13_relax.
Open Scope Z_scope.

Definition is_relaxable (k : rkind) : Prop := k = RvcCBImm11 \/ k = RvcCBlImm11.

(* a relaxable 32-bit jump, shrunk and then relocated by the replacement relocation (bc_imm11) at its new
   place P' towards the new symbol address S', is a c.j (from j) / c.jal (from jal) that goes exactly to S' *)
Lemma shrunk_keeps_target k A S P data S' P' : is_relaxable k -> bytes_ok 4 data ->
  S mod 2 = 0 -> P mod 2 = 0 -> S' mod 2 = 0 -> P' mod 2 = 0 -> fits_signed 12 (S' - P') ->
  exists d2 d3, do_shrink k S P data = Ok (d2, RvcBcImm11) /\ apply RvcBcImm11 A S' d2 P' = Ok d3 /\
    bytes_ok 2 d3 /\ rvc_j_target (le_word d3) P' = S' /\
    (if rkind_beq k RvcCBImm11 then is_cj (le_word d3) else is_cjal (le_word d3)) = true.
Proof.
  intros Hk Hd HS HP HS' HP' Hf.
  destruct (do_shrink_spec k S P data Hk Hd HS HP) as (d2 & E2 & W2 & B0 & B13 & _).
  destruct (exact_rvc_cj A S' P' d2 W2 HS' HP' Hf) as (d3 & E3 & W3 & T & F0 & F13).
  exists d2, d3. repeat split; try apply W3; auto.
  unfold is_cj, is_cjal. rewrite F0, F13, B0, B13.
  destruct (rkind_beq k RvcCBImm11); reflexivity.
Qed.

(* which register the shrunk instruction links: c.j none (x0), c.jal always ra (x1) *)
Definition shrunk_link_reg (k : rkind) : Z := if rkind_beq k RvcCBImm11 then 0 else 1.

(* shrinking keeps the linking behaviour exactly when the 32-bit instruction linked that register already *)
Lemma shrunk_equiv k (w32 w16 P P' : Z) : is_relaxable k -> rv_rd w32 = shrunk_link_reg k ->
  rv_jal_target w32 P - P = rvc_j_target w16 P' - P' ->
  let j32 := sem_jal w32 P in
  let j16 := (if rkind_beq k RvcCBImm11 then sem_cj w16 P' else sem_cjal w16 P') in
  jump_equiv 4 2 P P' j32 j16 (fun t t' => t - P = t' - P').
Proof.
  intros Hk Hrd Ht. unfold sem_jal, sem_cj, sem_cjal, jump_equiv, shrunk_link_reg in *.
  destruct Hk as [-> | ->]; cbn [rkind_beq] in *; rewrite Hrd; repeat split; auto; lia.
Qed.

(* jal x5, f carries cbl_imm11; do_shrink never looks at rd: it becomes c.jal (links ra, not x5) *)
Lemma jal_rd_refuted :
  exists data d2 S P, is_jal (le_word data) = true /\ rv_rd (le_word data) = 5 /\
    can_shrink RvcCBlImm11 S P = Ok true /\ do_shrink RvcCBlImm11 S P data = Ok (d2, RvcBcImm11) /\
    is_cjal (le_word d2) = true /\
    ~ (let '(JumpSem _ r32 _) := sem_jal (le_word data) P in
       let '(JumpSem _ r16 _) := sem_cjal (le_word d2) P in r32 = r16).
Proof.
  exists [239; 2; 0; 0], [237; 34], 64, 0. vm_compute. repeat split; try reflexivity. intro H; discriminate H.
Qed.

(* section addresses are shifted without re-aligning: a 4-aligned section behind one shrunk jump ends up at
   an address that is 2 mod 4 *)
Lemma alignment_refuted :
  exists secs syms rels images secs' syms' rels',
    Forall (fun s => s_addr s mod 4 = 0) secs /\
    do_relaxations secs syms rels images = Ok (secs', syms', rels') /\
    exists s, In s secs' /\ s_addr s mod 4 <> 0.
Proof.
  exists [mkSec 1 0 [111; 0; 0; 0; 19; 0; 0; 0]; mkSec 2 8 [1; 2; 3; 4]],
         [mkSym 1 false (Some 1) 4], [mkRel RvcCBImm11 1 1 0 0], [mkImg 0 [1; 2]].
  eexists. eexists. eexists. split; [repeat constructor|].
  split; [vm_compute; reflexivity|].
  exists (mkSec 2 6 [1; 2; 3; 4]). split; [right; left; reflexivity|]. vm_compute. discriminate.
Qed.
