(* Proofs/C15_irtext.v — proofs about Model/IrText.v (IR text format, property C15).
   1. per-kind / statement / block round trip of the token-level parser (unbounded);
   2. refutations: the code as it is (tcfg_orig) and the findings that remain (tcfg_fixed);
   3. whole-module round trip incl. lexer, name resolution, normal form and textual fixpoint
      on the generated corpus Gen/c15_corpus.v (bounded, vm_compute). *)
From PV Require Import Lib.Py Lib.Val Lib.Json Spec.IRSyntax Model.IrJson Model.IrText Gen.c15_corpus.
From Coq Require Import String Ascii List Lia.
Import ListNotations.
Local Open Scope string_scope.
Local Open Scope list_scope.

Lemma toks_app a b : toks (a ++ b) = toks a ++ toks b.
Proof. unfold toks. apply flat_map_app. Qed.

Lemma parse_type_ok t rest : parse_type (toks (l_ty t) ++ rest) = Ok (t, rest).
Proof. destruct t; reflexivity. Qed.
Lemma binop_name_inv o : binop_of_name (binop_name o) = Some o.
Proof. destruct o; reflexivity. Qed.
Lemma cond_name_inv o : cond_of_name (cond_name o) = Some o.
Proof. destruct o; reflexivity. Qed.

(* ---- token shape of ", ".join *)
Lemma toks_join_comma (x : list ltok) (xs : list (list ltok)) :
  toks (join_comma (x :: xs)) = toks x ++ flat_map (fun y => TOp "," :: toks y) xs.
Proof.
  revert x. induction xs as [|y r IH]; intros x.
  - cbn. now rewrite app_nil_r.
  - change (join_comma (x :: y :: r)) with (x ++ [OP ","; LSp] ++ join_comma (y :: r)).
    rewrite !toks_app, IH. cbn. reflexivity.
Qed.

Lemma comma_loop_ok {A} (item : list token -> result (A * list token)) (tk : A -> list token)
      (xs : list A) rest fuel :
  (forall y r, In y xs -> item (tk y ++ r) = Ok (y, r)) ->
  peek_is "," rest = false -> (List.length xs < fuel)%nat ->
  comma_loop item fuel (flat_map (fun y => TOp "," :: tk y) xs ++ rest) = Ok (xs, rest).
Proof.
  revert fuel. induction xs as [|y r IH]; intros fuel Hi Hp Hf.
  - destruct fuel; [cbn in Hf; lia|]. cbn. now rewrite Hp.
  - destruct fuel; [cbn in Hf; lia|]. cbn [flat_map]. rewrite <- app_comm_cons.
    cbn [comma_loop]. change (peek_is "," (TOp "," :: _)) with true. cbn [consume_op]. cbn.
    rewrite <- app_assoc. rewrite Hi by (now left). cbn.
    rewrite IH; [reflexivity| |assumption|cbn in Hf; lia].
    intros; apply Hi; now right.
Qed.

Lemma until_rbrace_ok {A} (item : list token -> result (A * list token)) (tk : A -> list token)
      (xs : list A) rest fuel :
  (forall y r, In y xs -> item (tk y ++ r) = Ok (y, r)) ->
  (forall y r, In y xs -> peek_is "}" (tk y ++ r) = false) ->
  (List.length xs < fuel)%nat ->
  until_rbrace item fuel (flat_map tk xs ++ TOp "}" :: rest) = Ok (xs, TOp "}" :: rest).
Proof.
  revert fuel. induction xs as [|y r IH]; intros fuel Hi Hp Hf.
  - destruct fuel; [cbn in Hf; lia|]. reflexivity.
  - destruct fuel; [cbn in Hf; lia|]. cbn [flat_map]. rewrite <- app_assoc.
    cbn [until_rbrace]. rewrite Hp by (now left). rewrite Hi by (now left). cbn.
    rewrite IH; [reflexivity| | |cbn in Hf; lia]; intros; [apply Hi|apply Hp]; now right.
Qed.

(* "(" a, b, c ")" *)
Lemma parse_parens_ok {A} N (item : list token -> result (A * list token)) (tk : A -> list token)
      (lt : A -> list ltok) (xs : list A) rest :
  (forall y, toks (lt y) = tk y) ->
  (forall y r, In y xs -> item (tk y ++ r) = Ok (y, r)) ->
  (forall y r, In y xs -> peek_is ")" (tk y ++ r) = false) ->
  (List.length xs <= N)%nat ->
  parse_parens N item (TOp "(" :: toks (join_comma (map lt xs)) ++ TOp ")" :: rest) = Ok (xs, rest).
Proof.
  intros Ht Hi Hp Hn. destruct xs as [|x r].
  - reflexivity.
  - cbn [map]. rewrite toks_join_comma, Ht. unfold parse_parens. cbn [consume_op String.eqb Ascii.eqb Bool.eqb].
    cbn. rewrite <- app_assoc. rewrite Hp by (now left). rewrite Hi by (now left). cbn.
    rewrite flat_map_concat_map, map_map, <- flat_map_concat_map.
    erewrite flat_map_ext by (intros; rewrite Ht; reflexivity).
    rewrite comma_loop_ok; [reflexivity| |reflexivity|cbn in Hn; lia].
    intros; apply Hi; now right.
Qed.

Section P.
Variable c : tcfg.
Variable N : nat.

Lemma assign_prefix t n body :
  toks (l_assign t n ++ body) = toks (l_ty t) ++ TId n :: TOp "=" :: toks body.
Proof. unfold l_assign. rewrite !toks_app. rewrite <- app_assoc. reflexivity. Qed.

(* a statement that starts with a type is an assignment *)
Lemma stmt_assign t r :
  parse_statement c N (toks (l_ty t) ++ r) =
  ('(i, ts) <- parse_assignment c N (toks (l_ty t) ++ r) ;; ts <- consume_op ";" ts ;; Ok (i, ts)).
Proof. destruct t; reflexivity. Qed.

Ltac kind :=
  unfold l_instr; rewrite ?assign_prefix; rewrite <- ?app_assoc; rewrite ?stmt_assign;
  unfold parse_assignment; rewrite ?parse_type_ok; cbn; rewrite ?Bool.andb_false_r; try reflexivity.

Definition stmt_ok (i : rinstr) : Prop :=
  forall rest, parse_statement c N (toks (l_instr i) ++ TOp ";" :: rest) = Ok (i, rest).

Lemma kind_const t n k : rprintable_instr c (RConst t n k) = true -> stmt_ok (RConst t n k).
Proof.
  intros H rest. kind. destruct k as [z|s]; cbn; [reflexivity|].
  cbn in H. destruct (String.eqb s "inf" || String.eqb s "nan")%bool eqn:E; cbn; [|reflexivity].
  rewrite H. apply Bool.orb_true_iff in E.
  destruct E as [E|E]; apply String.eqb_eq in E; subst s; cbn; destruct (fx_ops c); reflexivity.
Qed.
Lemma kind_binop t n a o b : rprintable_instr c (RBinop t n a o b) = true -> stmt_ok (RBinop t n a o b).
Proof.
  intros H rest. kind. destruct o; cbn; try reflexivity;
    cbn in H; apply Bool.andb_true_iff in H; destruct H as [H1 H2]; unfold kw6 in H2; rewrite H1, H2; reflexivity.
Qed.
Lemma kind_unop t n o a : rprintable_instr c (RUnop t n o a) = true -> stmt_ok (RUnop t n o a).
Proof. intros H rest. kind. destruct o; cbn; [reflexivity|]. cbn in H. rewrite H. reflexivity. Qed.
Lemma kind_cast t n a : stmt_ok (RCast t n a).
Proof. intros rest. kind. Qed.
(* ['volatile'] name *)
Lemma parse_vol_ref_ok vol a rest :
  (negb vol || fx_volatile c = true)%bool -> peek_is "ID" rest = false ->
  parse_vol_ref c (toks (l_vol vol ++ [K a]) ++ rest) = Ok (vol, a, rest).
Proof.
  intros Hv Hr. unfold parse_vol_ref.
  destruct vol; cbn [l_vol app toks flat_map K parse_id bind].
  - cbn in Hv. cbn. rewrite Hv. reflexivity.
  - cbn. rewrite Hr. destruct (String.eqb a "volatile"); reflexivity.
Qed.
Lemma kind_load t n a vol : rprintable_instr c (RLoad t n a vol) = true -> stmt_ok (RLoad t n a vol).
Proof.
  intros H rest. destruct vol; cbn in H; unfold l_instr; rewrite assign_prefix, <- app_assoc, stmt_assign;
    unfold parse_assignment; rewrite parse_type_ok; cbn; rewrite ?Bool.andb_false_r.
  - rewrite H. reflexivity.
  - destruct (String.eqb a "volatile"); reflexivity.
Qed.
Lemma kind_store x a vol : rprintable_instr c (RStore x a vol) = true -> stmt_ok (RStore x a vol).
Proof.
  intros H rest. destruct vol; cbn in H; unfold parse_statement; cbn.
  - rewrite H. reflexivity.
  - destruct (String.eqb x "volatile"); reflexivity.
Qed.
Lemma kind_copyblob d s n : rprintable_instr c (RCopyBlob d s n) = true -> stmt_ok (RCopyBlob d s n).
Proof. intros H rest. cbn in H. unfold parse_statement. cbn. rewrite H. reflexivity. Qed.
Lemma kind_undef t n : rprintable_instr c (RUndef t n) = true -> stmt_ok (RUndef t n).
Proof.
  intros H rest. destruct t as [t|]; [|discriminate]. cbn in H.
  unfold l_instr. rewrite assign_prefix, <- app_assoc, stmt_assign.
  unfold parse_assignment. rewrite parse_type_ok. cbn. rewrite ?Bool.andb_false_r, H. destruct (fx_ops c); reflexivity.
Qed.
Lemma kind_alloc t n s al : stmt_ok (RAlloc t n s al).
Proof. intros rest. kind. Qed.
Lemma kind_addressof t n a : stmt_ok (RAddrOf t n a).
Proof. intros rest. kind. Qed.
Lemma kind_literal t n h : stmt_ok (RLit t n h).
Proof. intros rest. kind. Qed.
Lemma kind_jump b : stmt_ok (RJump b).
Proof. intros rest. reflexivity. Qed.
Lemma kind_cjump a o b y n : stmt_ok (RCJump a o b y n).
Proof. intros rest. destruct o; reflexivity. Qed.
Lemma kind_return a : stmt_ok (RReturn a).
Proof. intros rest. reflexivity. Qed.
Lemma kind_exit : stmt_ok RExit.
Proof. intros rest. reflexivity. Qed.

Lemma toks_l_args args :
  toks (l_args args) = TOp "(" :: toks (join_comma (map (fun a => [K a]) args)) ++ [TOp ")"].
Proof. unfold l_args. rewrite !toks_app. reflexivity. Qed.
Lemma args_parens args rest : (List.length args <= N)%nat ->
  parse_parens N parse_id (toks (l_args args) ++ rest) = Ok (args, rest).
Proof.
  intros Hn. rewrite toks_l_args. cbn [app]. rewrite <- app_assoc. cbn [app].
  apply (parse_parens_ok N parse_id (fun a => [TId a]) (fun a => [K a])); auto.
Qed.
Opaque parse_parens comma_loop.
Lemma stmt_callp_pre f ts :
  parse_statement c N (TId "call" :: TId f :: ts) =
  ('(args, ts1) <- parse_parens N parse_id ts ;; ts2 <- consume_op ";" ts1 ;; Ok (RCallP f args, ts2)).
Proof. unfold parse_statement. cbn. destruct (parse_parens N parse_id ts) as [[a t]| | |]; reflexivity. Qed.
Lemma toks_callp f args : toks (l_instr (RCallP f args)) = TId "call" :: TId f :: toks (l_args args).
Proof. unfold l_instr. rewrite toks_app. reflexivity. Qed.
Lemma kind_callp f args : (List.length args <= N)%nat -> stmt_ok (RCallP f args).
Proof.
  intros Hn rest. rewrite toks_callp. cbn [app]. rewrite stmt_callp_pre, args_parens by assumption. reflexivity.
Qed.
Lemma stmt_callf_pre t n f ts :
  parse_statement c N (toks (l_ty t) ++ TId n :: TOp "=" :: TId "call" :: TId f :: ts) =
  ('(args, ts1) <- parse_parens N parse_id ts ;; ts2 <- consume_op ";" ts1 ;; Ok (RCallF t n f args, ts2)).
Proof.
  rewrite stmt_assign. unfold parse_assignment. rewrite parse_type_ok. cbn. rewrite ?Bool.andb_false_r.
  destruct (parse_parens N parse_id ts) as [[a x]| | |]; reflexivity.
Qed.
Lemma toks_callf t n f args :
  toks (l_instr (RCallF t n f args)) = toks (l_ty t) ++ TId n :: TOp "=" :: TId "call" :: TId f :: toks (l_args args).
Proof. unfold l_instr. rewrite assign_prefix, toks_app. reflexivity. Qed.
Lemma kind_callf t n f args : (List.length args <= N)%nat -> stmt_ok (RCallF t n f args).
Proof.
  intros Hn rest. rewrite toks_callf, <- app_assoc. cbn [app].
  rewrite stmt_callf_pre, args_parens by assumption. reflexivity.
Qed.
Definition pair_toks (p : string * string) : list token := [TId (fst p); TOp ":"; TId (snd p)].
Lemma stmt_phi_pre t n b v ts :
  parse_statement c N (toks (l_ty t) ++ TId n :: TOp "=" :: TId "phi" :: TId b :: TOp ":" :: TId v :: ts) =
  ('(ps, ts1) <- comma_loop parse_phi_pair N ts ;; ts2 <- consume_op ";" ts1 ;; Ok (RPhi t n ((b, v) :: ps), ts2)).
Proof.
  rewrite stmt_assign. unfold parse_assignment. rewrite parse_type_ok. cbn. rewrite ?Bool.andb_false_r.
  destruct (comma_loop parse_phi_pair N ts) as [[a x]| | |]; reflexivity.
Qed.
Lemma toks_phi t n b v ps :
  toks (l_instr (RPhi t n ((b, v) :: ps))) =
  toks (l_ty t) ++ TId n :: TOp "=" :: TId "phi" :: TId b :: TOp ":" :: TId v
                :: flat_map (fun p => TOp "," :: pair_toks p) ps.
Proof.
  unfold l_instr. rewrite assign_prefix, toks_app. cbn [map]. rewrite toks_join_comma.
  rewrite flat_map_concat_map, map_map, <- flat_map_concat_map. reflexivity.
Qed.
Lemma kind_phi t n ins : rprintable_instr c (RPhi t n ins) = true -> (List.length ins <= N)%nat ->
  stmt_ok (RPhi t n ins).
Proof.
  intros H Hn rest. destruct ins as [|[b v] ps]; [discriminate|].
  rewrite toks_phi, <- app_assoc. cbn [app]. rewrite stmt_phi_pre.
  rewrite (comma_loop_ok parse_phi_pair pair_toks).
  - reflexivity.
  - intros [y1 y2] r _. reflexivity.
  - reflexivity.
  - cbn in Hn. lia.
Qed.

Theorem stmt_roundtrip i : rprintable_instr c i = true -> (rsize_instr i <= N)%nat -> stmt_ok i.
Proof.
  destruct i; intros H Hn; cbn in Hn;
    [apply kind_const|apply kind_binop|apply kind_unop|apply kind_cast|apply kind_load|apply kind_store
    |apply kind_alloc|apply kind_addressof|apply kind_literal|apply kind_copyblob|apply kind_phi|apply kind_undef
    |apply kind_callf|apply kind_callp|apply kind_jump|apply kind_cjump|apply kind_return|apply kind_exit];
    assumption.
Qed.
Transparent parse_parens comma_loop.
End P.

Lemma toks_flat_map {A} (g : A -> list ltok) l : toks (flat_map g l) = flat_map (fun x => toks (g x)) l.
Proof. induction l as [|x r IH]; [reflexivity|]. cbn [flat_map]. now rewrite toks_app, IH. Qed.

Lemma instr_first i r : exists s r', toks (l_instr i) ++ r = TId s :: r'.
Proof.
  destruct i; try destruct vol; try (destruct t as [t|]); unfold l_instr; rewrite ?assign_prefix; try (destruct t; cbn; eauto); cbn; eauto.
Qed.

Section Q.
Variable c : tcfg.
Variable N : nat.

Definition rblock_ok (k : rblock) : Prop :=
  (List.length (rb_ins k) < N)%nat /\
  forall i, In i (rb_ins k) -> rprintable_instr c i = true /\ (rsize_instr i <= N)%nat.

Definition stmt_toks (i : rinstr) : list token := toks (l_instr i) ++ [TOp ";"].
Lemma toks_block k :
  toks (l_block k) = TId (rb_name k) :: TOp ":" :: TOp "{" :: flat_map stmt_toks (rb_ins k) ++ [TOp "}"].
Proof.
  unfold l_block. rewrite !toks_app, toks_flat_map.
  replace (flat_map (fun x => toks ([LInd 4] ++ l_instr x ++ [OP ";"; LNl])) (rb_ins k))
    with (flat_map stmt_toks (rb_ins k)); [reflexivity|].
  apply flat_map_ext. intros i. rewrite !toks_app. unfold stmt_toks. reflexivity.
Qed.
Lemma block_roundtrip k rest : rblock_ok k -> parse_block c N (toks (l_block k) ++ rest) = Ok (k, rest).
Proof.
  intros [Hl Hi]. rewrite toks_block. unfold parse_block. cbn [app parse_id bind consume_op String.eqb Ascii.eqb Bool.eqb].
  cbn. rewrite <- app_assoc. cbn [app].
  rewrite (until_rbrace_ok (parse_statement c N) stmt_toks).
  - cbn. destruct k; reflexivity.
  - intros y r Hy. unfold stmt_toks. rewrite <- app_assoc. cbn [app].
    destruct (Hi y Hy). now apply stmt_roundtrip.
  - intros y r Hy. unfold stmt_toks. rewrite <- app_assoc.
    destruct (instr_first y ([TOp ";"] ++ r)) as (s & r' & E). rewrite E. reflexivity.
  - assumption.
Qed.
End Q.

(* ------------------------------------------------------------------ functions *)
Lemma ty_first t r : exists s r', toks (l_ty t) ++ r = TId s :: r'.
Proof. destruct t; cbn; eauto. Qed.

Section R.
Variable c : tcfg.
Variable N : nat.

Definition param_l (p : ty * string) : list ltok := l_ty (fst p) ++ [LSp; K (snd p)].
Lemma toks_param p : toks (param_l p) = toks (l_ty (fst p)) ++ [TId (snd p)].
Proof. unfold param_l. rewrite toks_app. reflexivity. Qed.

Lemma parse_params_ok ps : forall fuel rest, (List.length ps < fuel)%nat ->
  parse_params fuel (toks (join_comma (map param_l ps)) ++ TOp ")" :: rest) = Ok (ps, TOp ")" :: rest).
Proof.
  induction ps as [|[t n] ps IH]; intros fuel rest Hf.
  - destruct fuel; [cbn in Hf; lia|]. reflexivity.
  - destruct fuel; [cbn in Hf; lia|]. cbn [map]. rewrite toks_join_comma, toks_param. cbn [fst snd].
    rewrite <- !app_assoc. cbn [parse_params].
    destruct (ty_first t ([TId n] ++ flat_map (fun y => TOp "," :: toks y) (map param_l ps) ++ TOp ")" :: rest))
      as (s & r' & E). rewrite E. change (peek_is ")" (TId s :: r')) with false. cbv iota. rewrite <- E.
    rewrite parse_type_ok. cbn [bind app parse_id].
    destruct ps as [|q ps'].
    + reflexivity.
    + cbn [map flat_map app]. change (peek_is "," (TOp "," :: _)) with true. cbv iota.
      cbn [consume_op String.eqb Ascii.eqb Bool.eqb bind].
      specialize (IH fuel rest). cbn [map] in IH. rewrite toks_join_comma in IH.
      rewrite IH by (cbn in Hf |- *; lia). reflexivity.
Qed.

Definition rfunc_ok (f : rfunc) : Prop :=
  (List.length (rf_params f) < N)%nat /\ (List.length (rf_blocks f) < N)%nat /\
  forall k, In k (rf_blocks f) -> rblock_ok c N k.

Definition block_toks (k : rblock) : list token := toks (l_block k).
Lemma toks_func f :
  toks (l_func f) =
  TId (binding_name (rf_binding f))
  :: match rf_ret f with Some t => TId "function" :: toks (l_ty t) | None => [TId "procedure"] end
  ++ TId (rf_name f) :: TOp "(" :: toks (join_comma (map param_l (rf_params f)))
  ++ TOp ")" :: TOp "{" :: flat_map block_toks (rf_blocks f) ++ [TOp "}"].
Proof.
  unfold l_func. rewrite !toks_app, toks_flat_map. destruct (rf_ret f); rewrite ?toks_app; cbn [toks flat_map app];
    rewrite <- ?app_assoc; reflexivity.
Qed.
Lemma block_first k r : exists s r', block_toks k ++ r = TId s :: r'.
Proof. unfold block_toks. rewrite toks_block. cbn. eauto. Qed.

Lemma func_body_ok b ret name ps bl rest :
  (List.length ps < N)%nat -> (List.length bl < N)%nat -> (forall k, In k bl -> rblock_ok c N k) ->
  ('(ps0, ts) <- parse_params N (toks (join_comma (map param_l ps)) ++
                                 TOp ")" :: TOp "{" :: flat_map block_toks bl ++ TOp "}" :: rest) ;;
   ts0 <- consume_op ")" ts ;; ts1 <- consume_op "{" ts0 ;;
   '(bl0, ts2) <- until_rbrace (parse_block c N) N ts1 ;;
   ts3 <- consume_op "}" ts2 ;;
   Ok (mk_rfunc b ret name ps0 bl0, ts3)) = Ok (mk_rfunc b ret name ps bl, rest).
Proof.
  intros Hp Hb Hk.
  rewrite parse_params_ok by assumption. cbn [bind consume_op String.eqb Ascii.eqb Bool.eqb].
  cbn. rewrite (until_rbrace_ok (parse_block c N) block_toks).
  - reflexivity.
  - intros y r Hy. apply block_roundtrip. now apply Hk.
  - intros y r _. destruct (block_first y r) as (s & r' & E). rewrite E. reflexivity.
  - assumption.
Qed.

Lemma func_roundtrip f rest : rfunc_ok f ->
  parse_declaration c N (toks (l_func f) ++ rest) = Ok (RFunc f, rest).
Proof.
  intros (Hp & Hb & Hk). rewrite toks_func. destruct f as [b ret name ps bl].
  cbn [rf_binding rf_ret rf_name rf_params rf_blocks] in *.
  unfold parse_declaration, parse_function.
  destruct b, ret as [t|]; cbn [binding_name app at_keyword String.eqb Ascii.eqb Bool.eqb tl bind consume_keyword parse_id];
    cbn -[parse_params until_rbrace toks join_comma block_toks parse_type]; rewrite <- ?app_assoc;
    try rewrite parse_type_ok; cbn -[parse_params until_rbrace toks join_comma block_toks parse_type];
    repeat (rewrite <- ?app_assoc; cbn [app]); rewrite func_body_ok by assumption; reflexivity.
Qed.
End R.


(* ------------------------------------------------------------------ refutations *)
Open Scope Z_scope.
Definition proc (exts : list ext) (blocks : list block) : modul :=
  mk_modul "m" exts [] [mk_func "pr" BGlobal None [] blocks].
Definition proc1 (ins : list instr) : modul := proc [] [mk_block 1 "entry" ins].
(* a use before the definition in print order: entry -> b2 (defines x) -> b1 (uses x) *)
Definition fwd (exts : list ext) (x : instr) (use : list instr) : modul :=
  proc exts [mk_block 1 "entry" [IJump 3]; mk_block 2 "b1" (use ++ [IExit]); mk_block 3 "b2" [x; IJump 2]].

Definition w_init : modul :=
  mk_modul "m" [] [mk_gvar "g" BGlobal 4 4 (Some [InitBytes [1; 2; 3; 4]; InitRef Ptr "g"])] [].
Definition tab_exp : list (Z * string) := [(5055640609639927018, "1e+30")].
Definition w_float_exp : modul := proc1 [IConst 1 "c" F64 (CFloat 5055640609639927018); IExit].
Definition tab_inf : list (Z * string) := [(9218868437227405312, "inf")].
Definition w_float_inf : modul := proc1 [IConst 1 "c" F64 (CFloat 9218868437227405312); IExit].
Definition w_rol : modul := proc1 [IConst 1 "a" I32 (CInt 3); IBinop 2 "r" I32 Rol (Loc 1) (Loc 1); IExit].
Definition w_inv : modul := proc1 [IConst 1 "a" I32 (CInt 3); IUnop 2 "r" I32 Inv (Loc 1); IExit].
Definition w_fwd : modul := fwd [] (IConst 2 "x" I32 (CInt 3)) [IUnop 1 "y" I32 Neg (Loc 2)].
Definition w_volatile : modul :=
  proc1 [IAlloc 1 "a" 4 4; IAddrOf 2 "p" (Loc 1); IConst 3 "c" I32 (CInt 1); IStore (Loc 3) (Loc 2) true;
         ILoad 4 "l" I32 (Loc 2) true; IExit].
Definition w_copyblob : modul :=
  proc1 [IAlloc 1 "a" 4 4; IAddrOf 2 "p" (Loc 1); ICopyBlob (Loc 2) (Loc 2) 4; IExit].
Definition w_undef : modul := proc1 [IUndef 1 "u" I32; IExit].
Definition w_fwd_double : modul := fwd [] (IConst 1 "x" Ptr (CInt 3)) [IStore (Loc 1) (Loc 1) false].
Definition w_fwd_call : modul :=
  fwd [EProc "xp" [I32; I32]] (IConst 1 "x" I32 (CInt 3)) [ICallP (Glob "xp") [Loc 1; Loc 1]].

(* print with the configuration [c], read the characters back *)
Definition text_roundtrip (c : tcfg) (tab : list (Z * string)) (m : modul) : result modul :=
  read_text c (fp_of tab) (print_text c (fr_of tab) m).

Lemma global_init_refuted :
  exists m', wf_modul w_init = true /\ text_roundtrip tcfg_orig [] w_init = Ok m' /\
             map g_value (m_vars m') = [None] /\ map g_value (m_vars w_init) <> [None].
Proof. eexists. split; [|split; [|split]]; [vm_compute; reflexivity ..|discriminate]. Qed.
Lemma float_exponent_refuted :
  wf_modul w_float_exp = true /\ text_roundtrip tcfg_orig tab_exp w_float_exp = Diag 1.
Proof. split; vm_compute; reflexivity. Qed.
Lemma float_nonfinite_refuted :
  wf_modul w_float_inf = true /\ text_roundtrip tcfg_orig tab_inf w_float_inf = Internal NotImplemented.
Proof. split; vm_compute; reflexivity. Qed.
Lemma rotate_refuted : wf_modul w_rol = true /\ text_roundtrip tcfg_orig [] w_rol = Internal NotImplemented.
Proof. split; vm_compute; reflexivity. Qed.
Lemma invert_refuted : wf_modul w_inv = true /\ text_roundtrip tcfg_orig [] w_inv = Diag 1.
Proof. split; vm_compute; reflexivity. Qed.
Lemma forward_type_refuted : wf_modul w_fwd = true /\ text_roundtrip tcfg_orig [] w_fwd = Internal TypeError.
Proof. split; vm_compute; reflexivity. Qed.
(* with the fixes the same witnesses round-trip *)
Lemma witnesses_fixed :
  forallb (fun p => roundtrip_ok tcfg_fixed (fst p) (snd p))
          [([], w_init); (tab_exp, w_float_exp); (tab_inf, w_float_inf); ([], w_rol); ([], w_inv); ([], w_fwd)] = true.
Proof. vm_compute. reflexivity. Qed.
(* findings that remain *)
Lemma volatile_refuted :
  exists m', wf_modul w_volatile = true /\ text_roundtrip tcfg_w2 [] w_volatile = Ok m' /\ m' <> w_volatile
             /\ m' = norm tcfg_w2 w_volatile.
Proof. eexists. split; [|split; [|split]]; [vm_compute; reflexivity ..|discriminate|vm_compute; reflexivity]. Qed.
Lemma copyblob_refuted : wf_modul w_copyblob = true /\ text_roundtrip tcfg_w2 [] w_copyblob = Internal KeyError.
Proof. split; vm_compute; reflexivity. Qed.
Lemma undefined_refuted : wf_modul w_undef = true /\ text_roundtrip tcfg_w2 [] w_undef = Internal KeyError.
Proof. split; vm_compute; reflexivity. Qed.
(* ------------------------------------------------------------------ bounded whole-module theorem *)
Definition roundtrip_prop (c : tcfg) (tab : list (Z * string)) (m : modul) : Prop :=
  wf_modul m = true /\ printable c (fr_of tab) (fp_of tab) m = true /\
  lex c (print_text c (fr_of tab) m) = Ok (print_tokens c (fr_of tab) m) /\
  read_text c (fp_of tab) (print_text c (fr_of tab) m) = Ok (norm c m) /\
  print_tokens c (fr_of tab) (norm c m) = print_tokens c (fr_of tab) m /\
  print_text c (fr_of tab) (norm c m) = print_text c (fr_of tab) m.
Lemma tokens_eqb_eq a b : tokens_eqb a b = true -> a = b.
Proof. unfold tokens_eqb. destruct (list_eq_dec token_eq_dec a b); congruence. Qed.
Lemma roundtrip_ok_spec c tab m : roundtrip_ok c tab m = true -> roundtrip_prop c tab m.
Proof.
  unfold roundtrip_ok, roundtrip_prop. intros H.
  apply Bool.andb_true_iff in H. destruct H as [H H5].
  apply Bool.andb_true_iff in H. destruct H as [H H4].
  apply Bool.andb_true_iff in H. destruct H as [H H3].
  apply Bool.andb_true_iff in H. destruct H as [H1 H2].
  apply Bool.andb_true_iff in H5. destruct H5 as [H5 H6].
  destruct (lex c (print_text c (fr_of tab) m)) as [ts| | |] eqn:El; try discriminate.
  apply tokens_eqb_eq in H3. subst ts.
  destruct (read_tokens c (fp_of tab) (print_tokens c (fr_of tab) m)) as [m'| | |] eqn:Er; try discriminate.
  apply modul_eqb_spec in H4. subst m'.
  apply tokens_eqb_eq in H5. apply String.eqb_eq in H6.
  repeat split; try assumption.
  unfold read_text. rewrite El. cbn. exact Er.
Qed.
Lemma corpus_ok : forallb (fun p => roundtrip_ok tcfg_fixed (fst p) (snd p)) corpus = true.
Proof. vm_compute. reflexivity. Qed.
Lemma corpus_roundtrip : forall tab m, In (tab, m) corpus -> roundtrip_prop tcfg_fixed tab m.
Proof.
  intros tab m Hin. apply roundtrip_ok_spec.
  pose proof corpus_ok as H. rewrite forallb_forall in H. exact (H (tab, m) Hin).
Qed.
Lemma witnesses_roundtrip : forall tab m,
  In (tab, m) [([], w_init); (tab_exp, w_float_exp); (tab_inf, w_float_inf); ([], w_rol); ([], w_inv); ([], w_fwd)] ->
  roundtrip_prop tcfg_fixed tab m.
Proof.
  intros tab m Hin. apply roundtrip_ok_spec.
  pose proof witnesses_fixed as H. rewrite forallb_forall in H. exact (H (tab, m) Hin).
Qed.

(* the replace_use defects of ppci/ir.py (baseline + C15 fixes; repaired in /repo meanwhile) *)
Definition w_fwd_phi : modul :=
  fwd [] (IConst 2 "x" I32 (CInt 3)) [IPhi 1 "y" I32 [(1%positive, Loc 2); (3%positive, Loc 2)]].
Lemma fwd_double_use_refuted :
  wf_modul w_fwd_double = true /\ text_roundtrip tcfg_noru [] w_fwd_double = Internal KeyError.
Proof. split; vm_compute; reflexivity. Qed.
Lemma fwd_double_phi_refuted :
  wf_modul w_fwd_phi = true /\ text_roundtrip tcfg_noru [] w_fwd_phi = Internal KeyError.
Proof. split; vm_compute; reflexivity. Qed.
Lemma fwd_call_args_refuted :
  exists m', wf_modul w_fwd_call = true /\ text_roundtrip tcfg_noru [] w_fwd_call = Ok m' /\ wf_modul m' = false.
Proof. eexists. split; [|split]; vm_compute; reflexivity. Qed.
Lemma replace_use_fixed :
  forallb (fun m => roundtrip_ok tcfg_fixed [] m) [w_fwd_double; w_fwd_phi; w_fwd_call] = true.
Proof. vm_compute. reflexivity. Qed.
Lemma replace_use_roundtrip : forall m, In m [w_fwd_double; w_fwd_phi; w_fwd_call] -> roundtrip_prop tcfg_fixed [] m.
Proof.
  intros m Hin. apply roundtrip_ok_spec.
  pose proof replace_use_fixed as H. rewrite forallb_forall in H. exact (H m Hin).
Qed.

(* with the third group of repairs the three remaining witnesses round-trip; volatile flags are kept *)
Lemma wave3_fixed : forallb (fun m => roundtrip_ok tcfg_fixed [] m) [w_volatile; w_copyblob; w_undef] = true.
Proof. vm_compute. reflexivity. Qed.
Lemma wave3_roundtrip : forall m, In m [w_volatile; w_copyblob; w_undef] -> roundtrip_prop tcfg_fixed [] m.
Proof.
  intros m Hin. apply roundtrip_ok_spec.
  pose proof wave3_fixed as H. rewrite forallb_forall in H. exact (H m Hin).
Qed.
Lemma volatile_kept : text_roundtrip tcfg_fixed [] w_volatile = Ok w_volatile.
Proof. vm_compute. reflexivity. Qed.
Lemma norm_keeps_volatile c f i : fx_volatile c = true -> (forall v n t ins, i <> IPhi v n t ins) -> norm_instr c f i = i.
Proof. intros Hc Hp. destruct i; cbn [norm_instr]; rewrite ?Hc; try reflexivity. exfalso. eapply Hp. reflexivity. Qed.
