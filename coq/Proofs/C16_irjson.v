(* Proofs/C16_irjson.v — lemmas about Model/IrJson.v (hand model of ppci/irutils/io.py). *)
From PV Require Import Lib.Py Lib.Tac Lib.Val Lib.Json Spec.IRSyntax Model.IrJson.
From Coq Require Import String Ascii.
Local Open Scope string_scope.
Local Open Scope list_scope.
Open Scope Z_scope.

(* ------------------------------------------------------------------ witnesses *)
Definition proc (blocks : list block) : modul :=
  mk_modul "m" [] [] [mk_func "pr" BGlobal None [] blocks].
Definition w_value : modul :=
  mk_modul "m" [] [mk_gvar "g" BGlobal 4 4 (Some [InitBytes [1; 2; 3; 4]])] [].
Definition w_volatile : modul :=
  proc [mk_block 1 "entry" [IAlloc 1 "a" 4 4; IAddrOf 2 "p" (Loc 1); IConst 3 "c" I32 (CInt 1);
                            IStore (Loc 3) (Loc 2) true; ILoad 4 "l" I32 (Loc 2) true; IExit]].
Definition w_copyblob : modul :=
  proc [mk_block 1 "entry" [IAlloc 1 "a" 4 4; IAddrOf 2 "p" (Loc 1); ICopyBlob (Loc 2) (Loc 2) 4; IExit]].
Definition w_undefined : modul := proc [mk_block 1 "entry" [IUndef 1 "u" I32; IExit]].
Definition fwd (xt : ty) (body : list instr) : list block :=
  [mk_block 1 "entry" [IJump 3]; mk_block 2 "b1" (body ++ [IExit]);
   mk_block 3 "b2" [IConst (match instrs_defs body with [] => 1 | _ => 2 end)%positive "x" xt (CInt 3); IJump 2]].
Definition w_fwdtype : modul := proc (fwd I32 [IUnop 1 "y" I32 Neg (Loc 2)]).
Definition w_fwd_double : modul := proc (fwd Ptr [IStore (Loc 1) (Loc 1) false]).
Definition w_fwd_call : modul :=
  mk_modul "m" [EProc "xp" [I32; I32]] []
    [mk_func "pr" BGlobal None [] (fwd I32 [ICallP (Glob "xp") [Loc 1; Loc 1]])].

Definition cfg_no_value := mk_jcfg false true true true true.
Definition cfg_no_volatile := mk_jcfg true false true true true.
Definition cfg_no_copyblob := mk_jcfg true true false true true.
Definition cfg_no_undefined := mk_jcfg true true true false true.
Definition cfg_no_fwdtype := mk_jcfg true true true true false.

Definition rt_ok (c : jcfg) (m : modul) : bool :=
  match roundtrip c m with Ok m' => modul_eqb m' m | _ => false end.
Lemma rt_ok_spec c m : rt_ok c m = true <-> roundtrip c m = Ok m.
Proof.
  unfold rt_ok. destruct (roundtrip c m) eqn:E; split; intros H; try discriminate.
  - apply modul_eqb_spec in H. now subst.
  - inversion H. subst. now apply modul_eqb_spec.
Qed.

Ltac refute w :=
  exists w; split; [vm_compute; reflexivity | intros H; apply rt_ok_spec in H; vm_compute in H; discriminate H].

Lemma value_refuted : exists m, wf_modul m = true /\ roundtrip cfg_no_value m <> Ok m.
Proof. refute w_value. Qed.
Lemma volatile_refuted : exists m, wf_modul m = true /\ roundtrip cfg_no_volatile m <> Ok m.
Proof. refute w_volatile. Qed.
Lemma copyblob_refuted : exists m, wf_modul m = true /\ roundtrip cfg_no_copyblob m <> Ok m.
Proof. refute w_copyblob. Qed.
Lemma undefined_refuted : exists m, wf_modul m = true /\ roundtrip cfg_no_undefined m <> Ok m.
Proof. refute w_undefined. Qed.
Lemma fwdtype_refuted : exists m, wf_modul m = true /\ roundtrip cfg_no_fwdtype m <> Ok m.
Proof. refute w_fwdtype. Qed.
Lemma orig_refuted : forall w, In w [w_value; w_volatile; w_copyblob; w_undefined; w_fwdtype] ->
  wf_modul w = true /\ roundtrip cfg_orig w <> Ok w.
Proof.
  intros w Hin. cbn [In] in Hin.
  repeat (destruct Hin as [<-|Hin];
          [split; [vm_compute; reflexivity | intros H; apply rt_ok_spec in H; vm_compute in H; discriminate H]|]).
  contradiction.
Qed.
(* the repaired witnesses do round-trip *)
Lemma fixed_witnesses : forallb (rt_ok cfg_fixed) [w_value; w_volatile; w_copyblob; w_undefined; w_fwdtype] = true.
Proof. vm_compute. reflexivity. Qed.
(* known findings that remain with all C16 fixes applied (defects of ir.py replace_use) *)
Lemma fwd_double_use_refuted : wf_modul w_fwd_double = true /\ roundtrip cfg_fixed w_fwd_double = Internal KeyError.
Proof. split; vm_compute; reflexivity. Qed.
Lemma fwd_call_args_refuted : exists m', wf_modul w_fwd_call = true /\ roundtrip cfg_fixed w_fwd_call = Ok m' /\ m' <> w_fwd_call.
Proof.
  eexists. split; [vm_compute; reflexivity|]. split; [vm_compute; reflexivity|].
  intros H. apply modul_eqb_spec in H. vm_compute in H. discriminate H.
Qed.

(* ------------------------------------------------------------------ bounded module round trip *)
From PV Require Import Gen.c16_corpus.
Definition corpus_ok (m : modul) : bool := wf_modul m && rt_ok cfg_fixed m.
Lemma corpus_roundtrip : forall m, In m corpus -> wf_modul m = true /\ roundtrip cfg_fixed m = Ok m.
Proof.
  assert (H : forallb corpus_ok corpus = true) by (vm_compute; reflexivity).
  intros m Hin. rewrite forallb_forall in H. specialize (H m Hin).
  unfold corpus_ok in H. apply andb_prop in H. destruct H as [H1 H2].
  split; [assumption | now apply rt_ok_spec].
Qed.
Lemma corpus_nonempty : (10 <= List.length corpus)%nat.
Proof. vm_compute. repeat constructor. Qed.
