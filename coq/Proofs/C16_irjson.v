(* Proofs/C16_irjson.v — lemmas about Model/IrJson.v (hand model of ppci/irutils/io.py). *)
From PV Require Import Lib.Py Lib.Tac Lib.Val Lib.Json Spec.IRSyntax Model.IrJson.
From Coq Require Import String Ascii.
Local Open Scope string_scope.
Local Open Scope list_scope.
Open Scope Z_scope.

(* ------------------------------------------------------------------ witnesses *)
Definition proc (blocks : list block) : modul :=
  mk_modul "m" [] [] [mk_func "pr" BGlobal None [] blocks].
Definition w_value : modul :=
  mk_modul "m" [] [mk_gvar "g" BGlobal 4 4 (Some [InitBytes [1; 2; 3; 4]])] [].
Definition w_volatile : modul :=
  proc [mk_block 1 "entry" [IAlloc 1 "a" 4 4; IAddrOf 2 "p" (Loc 1); IConst 3 "c" I32 (CInt 1);
                            IStore (Loc 3) (Loc 2) true; ILoad 4 "l" I32 (Loc 2) true; IExit]].
Definition w_copyblob : modul :=
  proc [mk_block 1 "entry" [IAlloc 1 "a" 4 4; IAddrOf 2 "p" (Loc 1); ICopyBlob (Loc 2) (Loc 2) 4; IExit]].
Definition w_undefined : modul := proc [mk_block 1 "entry" [IUndef 1 "u" I32; IExit]].
Definition fwd (xt : ty) (body : list instr) : list block :=
  [mk_block 1 "entry" [IJump 3]; mk_block 2 "b1" (body ++ [IExit]);
   mk_block 3 "b2" [IConst (match instrs_defs body with [] => 1 | _ => 2 end)%positive "x" xt (CInt 3); IJump 2]].
Definition w_fwdtype : modul := proc (fwd I32 [IUnop 1 "y" I32 Neg (Loc 2)]).
Definition w_fwd_double : modul := proc (fwd Ptr [IStore (Loc 1) (Loc 1) false]).
Definition w_fwd_call : modul :=
  mk_modul "m" [EProc "xp" [I32; I32]] []
    [mk_func "pr" BGlobal None [] (fwd I32 [ICallP (Glob "xp") [Loc 1; Loc 1]])].

Definition w_fwd_phi : modul :=
  proc [mk_block 1 "entry" [IJump 5];
        mk_block 2 "j" [IPhi 1 "p" I32 [(3%positive, Loc 2); (4%positive, Loc 2)]; IExit];
        mk_block 3 "a" [IJump 2]; mk_block 4 "b" [IJump 2];
        mk_block 5 "d" [IConst 2 "x" I32 (CInt 3); ICJump (Loc 2) Ceq (Loc 2) 3 4]].

Definition cfg_no_value := mk_jcfg false true true true true true true true.
Definition cfg_no_volatile := mk_jcfg true false true true true true true true.
Definition cfg_no_copyblob := mk_jcfg true true false true true true true true.
Definition cfg_no_undefined := mk_jcfg true true true false true true true true.
Definition cfg_no_fwdtype := mk_jcfg true true true true false true true true.
Definition cfg_no_ru_generic := mk_jcfg true true true true true false true true.
Definition cfg_no_ru_phi := mk_jcfg true true true true true true false true.
Definition cfg_no_ru_call := mk_jcfg true true true true true true true false.

Definition rt_ok (c : jcfg) (m : modul) : bool :=
  match roundtrip c m with Ok m' => modul_eqb m' m | _ => false end.
Lemma rt_ok_spec c m : rt_ok c m = true <-> roundtrip c m = Ok m.
Proof.
  unfold rt_ok. destruct (roundtrip c m) eqn:E; split; intros H; try discriminate.
  - apply modul_eqb_spec in H. now subst.
  - inversion H. subst. now apply modul_eqb_spec.
Qed.

Ltac refute w :=
  exists w; split; [vm_compute; reflexivity | intros H; apply rt_ok_spec in H; vm_compute in H; discriminate H].

Lemma value_refuted : exists m, wf_modul m = true /\ roundtrip cfg_no_value m <> Ok m.
Proof. refute w_value. Qed.
Lemma volatile_refuted : exists m, wf_modul m = true /\ roundtrip cfg_no_volatile m <> Ok m.
Proof. refute w_volatile. Qed.
Lemma copyblob_refuted : exists m, wf_modul m = true /\ roundtrip cfg_no_copyblob m <> Ok m.
Proof. refute w_copyblob. Qed.
Lemma undefined_refuted : exists m, wf_modul m = true /\ roundtrip cfg_no_undefined m <> Ok m.
Proof. refute w_undefined. Qed.
Lemma fwdtype_refuted : exists m, wf_modul m = true /\ roundtrip cfg_no_fwdtype m <> Ok m.
Proof. refute w_fwdtype. Qed.
Definition all_witnesses := [w_value; w_volatile; w_copyblob; w_undefined; w_fwdtype; w_fwd_double; w_fwd_phi; w_fwd_call].
Lemma orig_refuted : forall w, In w all_witnesses -> wf_modul w = true /\ roundtrip cfg_orig w <> Ok w.
Proof.
  intros w Hin. unfold all_witnesses in Hin. cbn [In] in Hin.
  repeat (destruct Hin as [<-|Hin];
          [split; [vm_compute; reflexivity | intros H; apply rt_ok_spec in H; vm_compute in H; discriminate H]|]).
  contradiction.
Qed.
(* the repaired witnesses do round-trip *)
Lemma fixed_witnesses : forallb (rt_ok cfg_fixed) all_witnesses = true.
Proof. vm_compute. reflexivity. Qed.
(* as-found behaviour of ppci/ir.py replace_use reached through DictReader (fixed by 2d6a9c1, e4350a7, 283ca09) *)
Lemma fwd_double_use_refuted :
  wf_modul w_fwd_double = true /\ roundtrip cfg_no_ru_generic w_fwd_double = Internal KeyError.
Proof. split; vm_compute; reflexivity. Qed.
Lemma fwd_phi_refuted : wf_modul w_fwd_phi = true /\ roundtrip cfg_no_ru_phi w_fwd_phi = Internal KeyError.
Proof. split; vm_compute; reflexivity. Qed.
Lemma fwd_call_args_refuted :
  exists m', wf_modul w_fwd_call = true /\ roundtrip cfg_no_ru_call w_fwd_call = Ok m' /\ m' <> w_fwd_call.
Proof.
  eexists. split; [vm_compute; reflexivity|]. split; [vm_compute; reflexivity|].
  intros H. apply modul_eqb_spec in H. vm_compute in H. discriminate H.
Qed.

(* ------------------------------------------------------------------ components *)
Lemma type_roundtrip t : get_type (write_type t) = Ok t.
Proof. destruct t; reflexivity. Qed.

Lemma unhex_hex n : 0 <= n < 16 -> unhexdigit (hexdigit n) = Some n.
Proof.
  intros H.
  assert (E : n = 0 \/ n = 1 \/ n = 2 \/ n = 3 \/ n = 4 \/ n = 5 \/ n = 6 \/ n = 7 \/ n = 8 \/ n = 9
              \/ n = 10 \/ n = 11 \/ n = 12 \/ n = 13 \/ n = 14 \/ n = 15) by lia.
  repeat (destruct E as [->|E]; [reflexivity|]). subst. reflexivity.
Qed.

Lemma unhexlify_hexlify l : all_byte l = true -> unhexlify (hexlify l) = Ok l.
Proof.
  induction l as [|b r IH]; intros H; [reflexivity|].
  unfold all_byte in *. cbn [forallb] in H. apply andb_prop in H. destruct H as [Hb Hr].
  unfold is_byte in Hb.
  cbn [hexlify unhexlify].
  rewrite (unhex_hex (b / 16)) by lia. rewrite (unhex_hex (b mod 16)) by lia.
  rewrite (IH Hr). cbn [bind]. f_equal. f_equal. lia.
Qed.

Lemma in_firstn {A} (x : A) n l : In x (firstn n l) -> In x l.
Proof. intros H. rewrite <- (firstn_skipn n l). apply in_or_app. now left. Qed.
Lemma in_skipn {A} (x : A) n l : In x (skipn n l) -> In x l.
Proof. intros H. rewrite <- (firstn_skipn n l). apply in_or_app. now right. Qed.

Lemma chunks_concat fuel : forall l, (List.length l <= fuel)%nat -> List.concat (chunks30 fuel l) = l.
Proof.
  induction fuel as [|n IH]; intros l Hl.
  - destruct l; [reflexivity | cbn in Hl; lia].
  - destruct l as [|x r]; [reflexivity|].
    cbn [chunks30]. cbn [List.concat]. rewrite IH.
    + apply firstn_skipn.
    + rewrite skipn_length. cbn [List.length] in *. lia.
Qed.
Lemma chunks_bytes fuel : forall l p, all_byte l = true -> In p (chunks30 fuel l) -> all_byte p = true.
Proof.
  induction fuel as [|n IH]; intros l p Hl Hp; [contradiction|].
  destruct l as [|x r]; [contradiction|].
  cbn [chunks30 In] in Hp. destruct Hp as [<-|Hp].
  - unfold all_byte in *. rewrite forallb_forall in *. intros y Hy. apply Hl. eapply in_firstn; eassumption.
  - apply (IH (skipn 30 (x :: r))); [|assumption].
    unfold all_byte in *. rewrite forallb_forall in *. intros y Hy. apply Hl. eapply in_skipn; eassumption.
Qed.

Lemma bytes_roundtrip d : all_byte d = true -> asc2bin (bin2asc d) = Ok d.
Proof.
  intros H. unfold bin2asc. destruct (30 <? len d).
  - cbn [asc2bin].
    rewrite (mapM_map_id (fun p => JStr (hexlify p))).
    + cbn [bind]. rewrite chunks_concat by lia. reflexivity.
    + intros p Hp. cbn [as_str bind]. apply unhexlify_hexlify. eapply chunks_bytes; eassumption.
  - cbn [asc2bin]. now apply unhexlify_hexlify.
Qed.

Lemma const_roundtrip c : read_const (write_const c) = Ok c.
Proof. destruct c; reflexivity. Qed.
Lemma binop_name_roundtrip o : binop_of_name (binop_name o) = Some o.
Proof. destruct o; reflexivity. Qed.
Lemma unop_name_roundtrip o : unop_of_name (unop_name o) = Some o.
Proof. destruct o; reflexivity. Qed.
Lemma cond_name_roundtrip o : cond_of_name (cond_name o) = Some o.
Proof. destruct o; reflexivity. Qed.
Lemma binding_roundtrip b : construct_binding (binding_name b) = Ok b.
Proof. destruct b; reflexivity. Qed.

(* initial values of global variables (fix C16-1) *)
Lemma init_roundtrip gn i : wf_init gn i = true -> read_init (write_init i) = Ok i.
Proof.
  destruct i as [d|t s]; intros H; cbn in H.
  - unfold read_init, write_init, jstr. cbn [jget jlookup String.eqb Ascii.eqb Bool.eqb bind as_str].
    cbn. rewrite bytes_roundtrip by assumption. reflexivity.
  - unfold read_init, write_init, jstr. cbn. rewrite type_roundtrip. reflexivity.
Qed.

Definition reg_glob (name : string) (st : rst) : rst :=
  mk_rst ((name, (Glob name, Ptr)) :: rs_glob st) (rs_loc st) false (rs_pend st) (rs_next st) (rs_bmap st)
         (rs_funcs st) (rs_blocks st) (rs_ins st).
Lemma register_glob cfg name st (o : option instr) :
  rs_infun st = false -> plookup name (rs_pend st) = None -> vlookup name (rs_glob st) = None ->
  register cfg name (Glob name) Ptr o st = Ok (o, reg_glob name st).
Proof.
  intros Hi Hp Hv. unfold register. rewrite Hp. cbn [bind]. rewrite Hi, Hv. reflexivity.
Qed.

Lemma variable_roundtrip gn g st :
  wf_gvar gn g = true -> rs_infun st = false ->
  plookup (g_name g) (rs_pend st) = None -> vlookup (g_name g) (rs_glob st) = None ->
  construct_variable cfg_fixed (write_variable cfg_fixed g) st = Ok (g, reg_glob (g_name g) st).
Proof.
  destruct g as [n b a al v]. unfold wf_gvar. cbn [g_value g_name]. intros Hw Hi Hp Hv.
  unfold construct_variable, write_variable, jstr, jint.
  cbn [fix_value cfg_fixed g_name g_binding g_amount g_align g_value app].
  cbn [jget jlookup String.eqb Ascii.eqb Bool.eqb bind as_str as_int].
  cbn. rewrite binding_roundtrip. cbn [bind].
  destruct v as [l|].
  - rewrite (mapM_map_id write_init read_init).
    + cbn [bind]. rewrite register_glob by assumption. reflexivity.
    + intros x Hx. apply (init_roundtrip gn). rewrite forallb_forall in Hw. now apply Hw.
  - cbn [bind]. rewrite register_glob by assumption. reflexivity.
Qed.

Lemma external_roundtrip e st :
  rs_infun st = false ->
  plookup (ext_name e) (rs_pend st) = None -> vlookup (ext_name e) (rs_glob st) = None ->
  construct_external cfg_fixed (write_external e) st = Ok (e, reg_glob (ext_name e) st).
Proof.
  intros Hi Hp Hv. destruct e as [n|n args rt|n args]; cbn [ext_name] in *;
    unfold construct_external, write_external, jstr; cbn.
  - rewrite register_glob by assumption. reflexivity.
  - rewrite (mapM_map_id write_type get_type) by (intros; apply type_roundtrip).
    cbn [bind]. rewrite type_roundtrip. cbn [bind]. rewrite register_glob by assumption. reflexivity.
  - rewrite (mapM_map_id write_type get_type) by (intros; apply type_roundtrip).
    cbn [bind]. rewrite register_glob by assumption. reflexivity.
Qed.

(* reader state after a value-defining instruction [i] (vid = rs_next st) was constructed *)
Definition after_value (i : instr) (n : string) (t : ty) (st : rst) : rst :=
  mk_rst (rs_glob st) ((n, (Loc (rs_next st), t)) :: rs_loc st) true (rs_pend st) (Pos.succ (rs_next st))
         (rs_bmap st) (rs_funcs st) (rs_blocks st) (rs_ins st ++ [i]).
Definition open_block (st : rst) : Prop :=
  match List.rev (rs_ins st) with x :: _ => is_terminator x = false | [] => True end.
Definition fresh_name (n : string) (st : rst) : Prop :=
  rs_infun st = true /\ plookup n (rs_pend st) = None /\ vlookup n (rs_loc st) = None /\
  mem_str n (block_names_of (rs_blocks st)) = false.

Lemma finish_value_fresh cfg i v n t st :
  instr_def i = Some (v, n, t) -> v = rs_next st -> fresh_name n st -> open_block st ->
  finish_value cfg i st = Ok (after_value i n t st).
Proof.
  intros Hd -> (Hi & Hp & Hv & Hb) Ho. unfold finish_value. rewrite Hd.
  unfold register. rewrite Hp. cbn [bind]. rewrite Hi, Hv. cbn [bind].
  unfold add_instruction, with_next. cbn [rs_ins rs_blocks].
  unfold open_block in Ho. destruct (List.rev (rs_ins st)) as [|x r].
  - cbn [check negb bind]. rewrite Hd. cbn [def_name fst snd]. rewrite Hb. reflexivity.
  - rewrite Ho. cbn [check negb bind]. rewrite Hd. cbn [def_name fst snd]. rewrite Hb. reflexivity.
Qed.

(* instruction kinds without operands: constants, stack slots, literal data, undefined *)
Lemma leaf_instr_roundtrip f vt i v n t st :
  match i with
  | IConst _ _ _ _ | IUndef _ _ _ => True
  | IAlloc _ _ s _ => s <> 0
  | ILit _ _ d => all_byte d = true
  | _ => False
  end ->
  instr_def i = Some (v, n, t) -> v = rs_next st -> fresh_name n st -> open_block st ->
  exists j, write_instruction cfg_fixed f i = Ok j /\
            construct_instruction cfg_fixed vt j st = Ok (after_value i n t st).
Proof.
  intros Hk Hd Hv Hf Ho.
  destruct i; try contradiction; cbn [write_instruction fix_undefined cfg_fixed]; eexists; (split; [reflexivity|]);
    unfold construct_instruction, jstr, jint; cbn [jget jlookup String.eqb Ascii.eqb Bool.eqb bind as_str as_int];
    cbn -[finish_value]; cbn [instr_def] in Hd; inversion Hd; subst.
  - rewrite type_roundtrip. cbn [bind]. rewrite const_roundtrip. cbn [bind].
    eapply finish_value_fresh; try eassumption; reflexivity.
  - destruct (Z.eqb_spec size 0) as [E|E]; [contradiction|]. cbn [negb check bind].
    eapply finish_value_fresh; try eassumption; reflexivity.
  - rewrite bytes_roundtrip by assumption. cbn [bind]. eapply finish_value_fresh; try eassumption; reflexivity.
  - rewrite type_roundtrip. cbn [bind]. eapply finish_value_fresh; try eassumption; reflexivity.
Qed.

(* ------------------------------------------------------------------ bounded module round trip *)
From PV Require Import Gen.c16_corpus.
Definition corpus_ok (m : modul) : bool := wf_modul m && rt_ok cfg_fixed m.
Lemma corpus_roundtrip : forall m, In m corpus -> wf_modul m = true /\ roundtrip cfg_fixed m = Ok m.
Proof.
  assert (H : forallb corpus_ok corpus = true) by (vm_compute; reflexivity).
  intros m Hin. rewrite forallb_forall in H. specialize (H m Hin).
  unfold corpus_ok in H. apply andb_prop in H. destruct H as [H1 H2].
  split; [assumption | now apply rt_ok_spec].
Qed.
Lemma corpus_nonempty : (10 <= List.length corpus)%nat.
Proof. vm_compute. repeat constructor. Qed.
