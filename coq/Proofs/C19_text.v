(* Proofs/C19_text.v — shape of the text lines written by write_srecord: 'S', a type digit, then only
   upper-case hex digits; at most 74 characters (the format allows 2 + 2 * 256 = 514). *)
From PV Require Import Lib.Py Lib.Tac Gen.bitfun Spec.SrecSpec Model.Srecord Proofs.C19_srecord.
From Coq Require Import String Ascii.
Open Scope Z_scope.

Definition is_hexupper (c : ascii) : bool :=
  let n := Z.of_nat (nat_of_ascii c) in ((48 <=? n) && (n <=? 57)) || ((65 <=? n) && (n <=? 70)).
Fixpoint hexchars (s : string) : bool :=
  match s with EmptyString => true | String c r => is_hexupper c && hexchars r end.
(* "S" followed by hex digits only *)
Definition srec_chars (s : string) : bool :=
  match s with String c r => (Z.of_nat (nat_of_ascii c) =? 83) && hexchars r | EmptyString => false end.

Definition line_ok (s : string) : Prop := srec_chars s = true /\ (String.length s <= 74)%nat.

Lemma hexdigit_upper n : 0 <= n < 16 -> is_hexupper (hexdigit n) = true.
Proof.
  intros H.
  assert (A : forallb (fun n => is_hexupper (hexdigit n)) (rangeZ 0 16) = true) by (vm_compute; reflexivity).
  rewrite forallb_forall in A. apply A. now apply rangeZ_In.
Qed.

Lemma digit_upper t : 0 <= t <= 9 -> is_hexupper (ascii_of_nat (Z.to_nat (48 + t))) = true.
Proof.
  intros H.
  assert (A : forallb (fun t => is_hexupper (ascii_of_nat (Z.to_nat (48 + t)))) (rangeZ 0 10) = true)
    by (vm_compute; reflexivity).
  rewrite forallb_forall in A. apply A. apply rangeZ_In. lia.
Qed.

Lemma hexlify_chars bs : all_byte bs = true ->
  hexchars (hexlify_upper bs) = true /\ String.length (hexlify_upper bs) = (2 * List.length bs)%nat.
Proof.
  induction bs as [|b r IH]; intros H; [split; reflexivity|].
  cbn [all_byte forallb] in H. apply andb_true_iff in H. destruct H as [Hb Hr]. unfold is_byte in Hb.
  fold (all_byte r) in Hr. destruct (IH Hr) as [I1 I2].
  cbn [hexlify_upper hexchars String.length List.length]. rewrite !hexdigit_upper by lia. rewrite I1, I2.
  split; [reflexivity | lia].
Qed.

Lemma sizes_cases t k : address_byte_sizes t = Some k -> In k [2; 3; 4] /\ 0 <= t <= 9.
Proof.
  unfold address_byte_sizes.
  repeat (match goal with |- context [?a =? ?b] => destruct (Z.eqb_spec a b) end;
          [intros H; injection H as <-; cbn [In]; split; [tauto | lia]|]).
  discriminate.
Qed.

Lemma ok_inj {A} (a b : A) : Ok a = Ok b -> a = b.
Proof. congruence. Qed.

Lemma to_line_shape r s : to_line r = Ok s -> all_byte (data r) = true -> len (data r) <= 30 -> line_ok s.
Proof.
  intros Hs Hd Hn. unfold to_line, to_line_bytes in Hs.
  destruct (address_byte_sizes (typ r)) as [k|] eqn:Ek; [|discriminate].
  destruct (sizes_cases _ _ Ek) as (Hk & Ht).
  destruct (vtb_ok (address r) k Hk) as (ab & Hv & Hlen & Hab & _). rewrite Hv in Hs. cbn [bind] in Hs.
  destruct (is_byte (len (ab ++ data r) + 1)) eqn:Ec; cbn [guard bind] in Hs; [|discriminate].
  apply ok_inj in Hs. subst s.
  set (bs := (len (ab ++ data r) + 1 :: ab ++ data r) ++ [Z.land (Z.lnot (sumZ (len (ab ++ data r) + 1 :: ab ++ data r))) 255]).
  assert (Hb : all_byte bs = true).
  { unfold bs. rewrite all_byte_app. cbn [all_byte forallb]. fold (all_byte (ab ++ data r)).
    rewrite Ec, all_byte_app, Hab, Hd, is_byte_land. reflexivity. }
  destruct (hexlify_chars bs Hb) as [H1 H2]. split.
  - cbn [srec_chars hexchars]. change (Z.of_nat (nat_of_ascii "S") =? 83) with true.
    rewrite digit_upper by lia. now rewrite H1.
  - cbn [String.length]. rewrite H2. unfold bs. rewrite app_length. cbn [List.length]. rewrite app_length.
    assert (In k [2; 3; 4]) by exact Hk. cbn [In] in H. unfold len in Hn. lia.
Qed.

Lemma chunk_list_small n : forall l, all_byte l = true ->
  Forall (fun c => all_byte c = true /\ len c <= 30) (chunk_list n l).
Proof.
  induction n as [|n IH]; intros l H; [constructor|]. cbn [chunk_list]. constructor.
  - split; [now apply all_byte_firstn | rewrite len_firstn30; lia].
  - apply IH. now apply all_byte_skipn.
Qed.

Lemma data_lines_shape T : forall chs a ls, data_lines T chs a = Ok ls ->
  Forall (fun c => all_byte c = true /\ len c <= 30) chs -> Forall line_ok ls.
Proof.
  induction chs as [|c r IH]; intros a ls H Hc; [injection H as <-; constructor|].
  cbn [data_lines] in H. unfold SRecord_init in H.
  destruct (address_byte_sizes T); cbn [bind] in H; [|discriminate].
  destruct (to_line (mkSRecord T a c)) as [l| | |] eqn:El; cbn [bind] in H; try discriminate.
  destruct (data_lines T r (a + len c)) as [ls'| | |] eqn:Er; cbn [bind] in H; try discriminate.
  injection H as <-. inversion Hc as [|? ? (H1 & H2) Hc']; subst. constructor.
  - eapply to_line_shape; [exact El | exact H1 | exact H2].
  - eapply IH; eauto.
Qed.

Lemma lines_ascii_and_length base code lines : all_byte code = true ->
  write_srecord base code = Ok lines -> Forall line_ok lines.
Proof.
  intros Hc H. unfold write_srecord in H.
  destruct (if base + len code <=? 65536 then Ok (1, 9)
            else if base + len code <=? 16777216 then Ok (2, 8)
            else if base + len code <=? 4294967296 then Ok (3, 7) else Diag 1) as [[T E]| | |];
    cbn [bind] in H; try discriminate.
  unfold SRecord_init in H at 1. destruct (address_byte_sizes 0); cbn [bind] in H; [|discriminate].
  destruct (to_line (mkSRecord 0 0 HDR)) as [l0| | |] eqn:E0; cbn [bind] in H; try discriminate.
  destruct (data_lines T (chunks code) base) as [ls| | |] eqn:Ed; cbn [bind] in H; try discriminate.
  unfold SRecord_init in H. destruct (address_byte_sizes E); cbn [bind] in H; [|discriminate].
  destruct (to_line (mkSRecord E 0 [])) as [l9| | |] eqn:E9; cbn [bind] in H; try discriminate.
  injection H as <-. constructor; [|apply Forall_app; split; [|constructor; [|constructor]]].
  - eapply to_line_shape; [exact E0 | reflexivity | cbn; lia].
  - rewrite chunks_chunk_list in Ed. eapply data_lines_shape; [exact Ed | now apply chunk_list_small].
  - eapply to_line_shape; [exact E9 | reflexivity | cbn; lia].
Qed.
