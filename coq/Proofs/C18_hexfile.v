(* Proofs/C18_hexfile.v — lemmas for property C18 (Intel HEX reader/writer). *)
From PV Require Import Lib.Py Lib.Tac Spec.IhexSpec Model.Hexfile.
From Coq Require Import String Ascii.
Open Scope Z_scope.

(* ---------------- generic list facts *)
Lemma sumZ_app a b : sumZ (a ++ b) = sumZ a + sumZ b.
Proof. induction a as [|x a IH]; cbn [app sumZ]; lia. Qed.
Lemma all_byte_app a b : all_byte (a ++ b) = all_byte a && all_byte b.
Proof. unfold all_byte. apply forallb_app. Qed.
Lemma len_app {A} (a b : list A) : len (a ++ b) = len a + len b.
Proof. unfold len. rewrite app_length. lia. Qed.
Lemma len_nonneg {A} (l : list A) : 0 <= len l.
Proof. unfold len. lia. Qed.
Lemma len_cons {A} (x : A) l : len (x :: l) = 1 + len l.
Proof. unfold len. cbn [List.length]. lia. Qed.

(* ---------------- text layer *)
Lemma hexval_model n : 0 <= n < 16 -> Hexfile.hexval (hexdigit_lower n) = Some n.
Proof.
  intros H.
  assert (A : forallb (fun n => match Hexfile.hexval (hexdigit_lower n) with Some m => m =? n | None => false end)
                      (rangeZ 0 16) = true) by (vm_compute; reflexivity).
  rewrite forallb_forall in A. specialize (A n). rewrite rangeZ_In in A. specialize (A H).
  destruct (Hexfile.hexval (hexdigit_lower n)); [f_equal; lia | discriminate].
Qed.
Lemma hexval_spec n : 0 <= n < 16 -> IhexSpec.hexval (hexdigit_lower n) = Some n.
Proof.
  intros H.
  assert (A : forallb (fun n => match IhexSpec.hexval (hexdigit_lower n) with Some m => m =? n | None => false end)
                      (rangeZ 0 16) = true) by (vm_compute; reflexivity).
  rewrite forallb_forall in A. specialize (A n). rewrite rangeZ_In in A. specialize (A H).
  destruct (IhexSpec.hexval (hexdigit_lower n)); [f_equal; lia | discriminate].
Qed.

Lemma fromhex_hexlify bs : all_byte bs = true -> fromhex (hexlify bs) = Some bs.
Proof.
  induction bs as [|b r IH]; intros H; [reflexivity|].
  cbn [all_byte forallb] in H. apply andb_true_iff in H. destruct H as [Hb Hr]. unfold is_byte in Hb.
  cbn [hexlify fromhex]. rewrite !hexval_model by lia. fold (all_byte r) in Hr. rewrite (IH Hr).
  do 2 f_equal. lia.
Qed.
Lemma hex_bytes_hexlify bs : all_byte bs = true -> hex_bytes (hexlify bs) = Some bs.
Proof.
  induction bs as [|b r IH]; intros H; [reflexivity|].
  cbn [all_byte forallb] in H. apply andb_true_iff in H. destruct H as [Hb Hr]. unfold is_byte in Hb.
  cbn [hexlify hex_bytes]. rewrite !hexval_spec by lia. fold (all_byte r) in Hr. rewrite (IH Hr).
  do 2 f_equal. lia.
Qed.

(* ---------------- lines *)
Definition valid_line (l : HexLine) : Prop :=
  0 <= address l < 65536 /\ is_byte (typ l) = true /\ all_byte (data l) = true /\ len (data l) < 256.

(* the bytes of the record of l *)
Definition line_bytes (l : HexLine) : list Z :=
  let s := len (data l) + address l / 256 + address l mod 256 + typ l + sumZ (data l) in
  len (data l) :: address l / 256 :: address l mod 256 :: typ l :: data l ++ [(- s) mod 256].

Lemma crc_twos s : Z.land (Z.lnot s + 1) 255 = (- s) mod 256.
Proof.
  unfold Z.lnot. change 255 with (2 ^ 8 - 1). rewrite land_ones_mod by lia.
  change (2 ^ 8) with 256. f_equal. lia.
Qed.

Lemma to_line_ok l : valid_line l -> to_line l = Ok (String ":" (hexlify (line_bytes l))).
Proof.
  intros (Ha & Ht & Hd & Hn). unfold to_line, pack_H, line_bytes.
  pose proof (len_nonneg (data l)).
  replace (is_byte (len (data l))) with true by (unfold is_byte; lia).
  replace ((0 <=? address l) && (address l <? 65536)) with true by lia.
  cbn [guard bind]. rewrite Ht. cbn [guard app]. rewrite crc_twos.
  assert (E : sumZ (len (data l) :: address l / 256 :: address l mod 256 :: typ l :: data l)
              = len (data l) + address l / 256 + address l mod 256 + typ l + sumZ (data l))
    by (cbn [sumZ]; lia).
  rewrite E. reflexivity.
Qed.

Lemma line_bytes_all_byte l : valid_line l -> all_byte (line_bytes l) = true.
Proof.
  intros (Ha & Ht & Hd & Hn). unfold line_bytes. pose proof (len_nonneg (data l)).
  cbn [all_byte forallb]. fold (all_byte (data l ++ [(- (len (data l) + address l / 256 + address l mod 256 + typ l + sumZ (data l))) mod 256])).
  rewrite all_byte_app, Hd, Ht. cbn [all_byte forallb]. unfold is_byte. lia.
Qed.

Lemma firstn_len_app {A} (a b : list A) : firstn (List.length a) (a ++ b) = a.
Proof. rewrite firstn_app, Nat.sub_diag, firstn_all. cbn [firstn]. apply app_nil_r. Qed.

Lemma line_roundtrip l : valid_line l ->
  exists s, to_line l = Ok s /\ from_line s = Ok l.
Proof.
  intros Hv. rewrite (to_line_ok l Hv). eexists. split; [reflexivity|].
  pose proof (line_bytes_all_byte l Hv) as Hb.
  destruct Hv as (Ha & Ht & Hd & Hn). pose proof (len_nonneg (data l)).
  unfold from_line. change (Ascii.eqb ":" ":") with true. cbn [negb].
  rewrite (fromhex_hexlify _ Hb). unfold line_bytes in *.
  set (crc := (- (len (data l) + address l / 256 + address l mod 256 + typ l + sumZ (data l))) mod 256) in *.
  assert (E1 : len (len (data l) :: address l / 256 :: address l mod 256 :: typ l :: data l ++ [crc])
               = len (data l) + 5).
  { rewrite !len_cons, len_app. change (len [crc]) with 1. lia. }
  rewrite E1. replace (len (data l) + 5 =? len (data l) + 5) with true by lia. cbn [negb].
  assert (E2 : Z.land (sumZ (len (data l) :: address l / 256 :: address l mod 256 :: typ l :: data l ++ [crc])) 255 = 0).
  { change 255 with (2 ^ 8 - 1). rewrite land_ones_mod by lia. change (2 ^ 8) with 256.
    cbn [sumZ]. rewrite sumZ_app. cbn [sumZ]. unfold crc. lia. }
  rewrite E2. change (0 =? 0) with true. cbn [negb].
  unfold sliceZ at 1. change (Z.to_nat (3 - 1)) with 2%nat. change (Z.to_nat 1) with 1%nat.
  cbn [skipn firstn unpack_H bind].
  unfold nthZ. change (3 <? 0) with false. change (Z.to_nat 3) with 3%nat. cbn [nth_error].
  unfold sliceZ. change (Z.to_nat 4) with 4%nat. cbn [skipn].
  replace (Z.to_nat (len (data l) + 5 - 1 - 4)) with (List.length (data l)) by (unfold len; lia).
  rewrite firstn_len_app.
  replace (address l / 256 * 256 + address l mod 256) with (address l) by lia.
  destruct l; reflexivity.
Qed.

(* the reference reader accepts every emitted line: length byte and checksum are right *)
Lemma line_checksum_length l : valid_line l ->
  exists s, to_line l = Ok s /\ read_line s = Some (mk_irec (address l) (typ l) (data l)).
Proof.
  intros Hv. rewrite (to_line_ok l Hv). eexists. split; [reflexivity|].
  pose proof (line_bytes_all_byte l Hv) as Hb.
  destruct Hv as (Ha & Ht & Hd & Hn). pose proof (len_nonneg (data l)).
  unfold read_line, parse_line. change (Z.of_nat (nat_of_ascii ":") =? 58) with true. cbn iota.
  rewrite (hex_bytes_hexlify _ Hb). unfold line_bytes in *. unfold decode.
  rewrite Hb. rewrite removelast_last, last_last.
  replace (len (data l) =? len (data l)) with true by lia.
  rewrite len_app. change (len [?x]) with 1.
  replace (1 <=? len (data l) + 1) with true by lia.
  match goal with |- context [?a =? ?b] => replace (a =? b) with true by (apply eq_sym, Z.eqb_eq; f_equal; lia) end.
  cbn [andb]. do 2 f_equal. lia.
Qed.

(* ---------------- check *)
From Coq Require Import Permutation.

Definition nonempty (rs : list region) : Prop := Forall (fun r => 0 < len (snd r)) rs.

Lemma insert_perm r l : Permutation (r :: l) (insert_region r l).
Proof.
  induction l as [|x t IH]; cbn [insert_region]; [reflexivity|].
  destruct (fst r <=? fst x); [reflexivity|].
  eapply perm_trans; [apply perm_swap|]. now apply perm_skip.
Qed.
Lemma sort_perm l : Permutation l (sort_regions l).
Proof.
  induction l as [|x t IH]; cbn [sort_regions]; [reflexivity|].
  eapply perm_trans; [apply perm_skip, IH | apply insert_perm].
Qed.

Lemma holds_perm l l' a x : Permutation l l' -> holds l a x -> holds l' a x.
Proof. intros P (b & Hin & Hb). exists b. split; [eapply Permutation_in; eauto | exact Hb]. Qed.

Lemma block_lookup_app a d1 d2 x b :
  block_lookup (a, d1 ++ d2) x = Some b <->
  block_lookup (a, d1) x = Some b \/ block_lookup (a + len d1, d2) x = Some b.
Proof.
  unfold block_lookup. cbn [fst snd]. rewrite len_app.
  pose proof (len_nonneg d1). pose proof (len_nonneg d2).
  destruct ((a <=? x) && (x <? a + len d1)) eqn:E1.
  - replace ((a <=? x) && (x <? a + (len d1 + len d2))) with true by lia.
    replace ((a + len d1 <=? x) && (x <? a + len d1 + len d2)) with false by lia.
    rewrite nth_error_app1 by (unfold len in *; lia). intuition discriminate.
  - destruct ((a + len d1 <=? x) && (x <? a + len d1 + len d2)) eqn:E2.
    + replace ((a <=? x) && (x <? a + (len d1 + len d2))) with true by lia.
      rewrite nth_error_app2 by (unfold len in *; lia).
      replace (Z.to_nat (x - a) - List.length d1)%nat with (Z.to_nat (x - (a + len d1))) by (unfold len; lia).
      intuition discriminate.
    + replace ((a <=? x) && (x <? a + (len d1 + len d2))) with false by lia. intuition discriminate.
Qed.

Lemma holds_cons r l a x : holds (r :: l) a x <-> block_lookup r a = Some x \/ holds l a x.
Proof.
  unfold holds. split.
  - intros (b & [<-|Hin] & Hb); [now left | right; eauto].
  - intros [H|(b & Hin & Hb)]; [exists r; cbn; auto | exists b; cbn; auto].
Qed.

Lemma scan_some l : forall l', scan l = Ok (Some l') ->
  (forall a x, holds l' a x <-> holds l a x) /\ S (List.length l') = List.length l /\
  (nonempty l -> nonempty l').
Proof.
  induction l as [|r1 tl IH]; intros l' H; [discriminate|].
  cbn [scan] in H. destruct tl as [|r2 rest]; [discriminate|].
  destruct (r_end r1 =? fst r2) eqn:E1.
  - injection H as <-. split; [|split].
    + intros a x. rewrite !holds_cons. destruct r1 as [a1 d1], r2 as [a2 d2].
      unfold r_end in E1. cbn [fst snd] in *. rewrite block_lookup_app.
      replace (a1 + len d1) with a2 by lia. tauto.
    + reflexivity.
    + intros Hn. inversion Hn as [|? ? H1 Hn']. inversion Hn' as [|? ? H2 Hn'']. subst.
      constructor; [|assumption]. cbn [snd]. rewrite len_app. lia.
  - destruct (r_end r1 >? fst r2); [discriminate|].
    destruct (scan (r2 :: rest)) as [[l2|]| | |] eqn:E2; cbn [bind option_map] in H; try discriminate.
    injection H as <-. destruct (IH l2 eq_refl) as (H1 & H2 & H3). split; [|split].
    + intros a x. rewrite !(holds_cons r1). now rewrite H1.
    + cbn [List.length] in *. lia.
    + intros Hn. inversion Hn; subst. constructor; [assumption|]. now apply H3.
Qed.

(* gaps between neighbours *)
Fixpoint separated (l : list region) : Prop :=
  match l with
  | [] => True
  | r :: tl => match tl with [] => True | r2 :: _ => r_end r < fst r2 end /\ separated tl
  end.

Lemma scan_none l : scan l = Ok None -> separated l.
Proof.
  induction l as [|r1 tl IH]; intros H; [exact I|].
  cbn [scan] in H. destruct tl as [|r2 rest]; [cbn; auto|].
  destruct (r_end r1 =? fst r2) eqn:E1; [discriminate|].
  destruct (r_end r1 >? fst r2) eqn:E2; [discriminate|].
  destruct (scan (r2 :: rest)) as [[l2|]| | |] eqn:E3; cbn [bind option_map] in H; try discriminate.
  split; [lia | now apply IH].
Qed.

Lemma canonical_of l : nonempty l -> separated l -> canonical l.
Proof.
  induction l as [|r tl IH]; intros Hn Hs; [exact I|].
  inversion Hn as [|? ? Hr Ht]; subst. destruct Hs as [Hs1 Hs2]. cbn [canonical]. split; [assumption|].
  split; [destruct tl; [exact I | exact Hs1] | now apply IH].
Qed.

Lemma check_loop_sound fuel : forall l l', check_loop fuel l = Ok l' -> nonempty l ->
  (forall a x, holds l' a x <-> holds l a x) /\ canonical l'.
Proof.
  induction fuel as [|f IH]; intros l l' H Hn; [discriminate|].
  cbn [check_loop] in H. destruct (len l <=? 1) eqn:E.
  - injection H as <-. split; [tauto|]. apply canonical_of; [assumption|].
    destruct l as [|r [|r2 t]]; cbn; auto. rewrite !len_cons in E. pose proof (len_nonneg t). lia.
  - destruct (scan l) as [[l2|]| | |] eqn:E2; cbn [bind] in H; try discriminate.
    + destruct (scan_some l l2 E2) as (H1 & H2 & H3).
      destruct (IH l2 l' H (H3 Hn)) as (H4 & H5). split; [|assumption].
      intros a x. now rewrite H4.
    + injection H as <-. split; [tauto|]. apply canonical_of; [assumption | now apply scan_none].
Qed.

Lemma scan_no_fuel l : scan l <> OutOfFuel.
Proof.
  induction l as [|r1 tl IH]; [discriminate|]. cbn [scan]. destruct tl as [|r2 rest]; [discriminate|].
  destruct (r_end r1 =? fst r2); [discriminate|]. destruct (r_end r1 >? fst r2); [discriminate|].
  destruct (scan (r2 :: rest)) as [[l2|]| | |]; cbn [bind]; try discriminate. congruence.
Qed.

Lemma check_loop_fuel fuel : forall l, (List.length l < fuel)%nat -> check_loop fuel l <> OutOfFuel.
Proof.
  induction fuel as [|f IH]; intros l Hl; [lia|].
  cbn [check_loop]. destruct (len l <=? 1); [discriminate|].
  destruct (scan l) as [[l2|]| | |] eqn:E2; cbn [bind]; try discriminate.
  - apply IH. destruct (scan_some l l2 E2) as (_ & H2 & _). lia.
  - exfalso. now apply (scan_no_fuel l).
Qed.

Lemma nonempty_perm l l' : Permutation l l' -> nonempty l -> nonempty l'.
Proof. intros P H. unfold nonempty in *. rewrite Forall_forall in *. intros r Hr. apply H. eapply Permutation_in; [symmetry; eassumption | assumption]. Qed.

Lemma check_merges rs rs' : nonempty rs -> check rs = Ok rs' ->
  (forall a x, holds rs' a x <-> holds rs a x) /\ canonical rs'.
Proof.
  intros Hn H. unfold check in H.
  destruct (check_loop_sound _ _ _ H (nonempty_perm _ _ (sort_perm rs) Hn)) as (H1 & H2).
  split; [|assumption]. intros a x. rewrite H1. split; apply holds_perm; [symmetry|]; apply sort_perm.
Qed.

Lemma check_terminates rs : check rs <> OutOfFuel.
Proof.
  unfold check. apply check_loop_fuel.
  rewrite <- (Permutation_length (sort_perm rs)). lia.
Qed.

(* ---------------- chunks (30 bytes) *)
Fixpoint chunk_list (n : nat) (l : list Z) : list (list Z) :=
  match n with O => [] | S n' => firstn 30 l :: chunk_list n' (skipn 30 l) end.

Lemma skipn_add {A} b : forall (l : list A) a, skipn a (skipn b l) = skipn (b + a) l.
Proof.
  induction b as [|b IH]; intros l a; [reflexivity|].
  destruct l as [|x l]; [now rewrite !skipn_nil|]. cbn [skipn Nat.add]. apply IH.
Qed.
Lemma chunks_gen d n : forall i, 0 <= i ->
  map (fun i => sliceZ d i (i + 30)) (seqZ_step i 30 n) = chunk_list n (skipn (Z.to_nat i) d).
Proof.
  induction n as [|n IH]; intros i Hi; [reflexivity|].
  cbn [seqZ_step map chunk_list]. f_equal.
  - unfold sliceZ. replace (i + 30 - i) with 30 by lia. reflexivity.
  - rewrite IH by lia. f_equal. rewrite skipn_add. f_equal. lia.
Qed.
Definition nchunks (l : list Z) : nat := Z.to_nat ((len l + 29) / 30).
Lemma chunks_chunk_list d : chunks d = chunk_list (nchunks d) d.
Proof.
  unfold chunks, rangeZ_step, nchunks. rewrite chunks_gen by lia. cbn [Z.to_nat skipn].
  do 2 f_equal. lia.
Qed.
Lemma len_skipn30 (l : list Z) : 30 <= len l -> len (skipn 30 l) = len l - 30.
Proof. unfold len. rewrite skipn_length. lia. Qed.
Lemma len_skipn30' (l : list Z) : len (skipn 30 l) = Z.max 0 (len l - 30).
Proof. unfold len. rewrite skipn_length. lia. Qed.
Lemma nchunks_S l : 0 < len l -> nchunks l = S (nchunks (skipn 30 l)).
Proof.
  intros H. unfold nchunks. rewrite len_skipn30'.
  destruct (Z_lt_le_dec (len l) 30); [replace ((len l + 29) / 30) with 1 by lia; replace (Z.max 0 (len l - 30)) with 0 by lia; reflexivity | lia].
Qed.
Lemma nchunks_0 l : len l = 0 -> nchunks l = O.
Proof. intros H. unfold nchunks. rewrite H. reflexivity. Qed.
Lemma nchunks_pos n l : S n = nchunks l -> 0 < len l.
Proof.
  intros H. destruct (Z.eq_dec (len l) 0) as [E|E]; [rewrite (nchunks_0 _ E) in H; discriminate|].
  pose proof (len_nonneg l). lia.
Qed.
Lemma all_byte_firstn n l : all_byte l = true -> all_byte (firstn n l) = true.
Proof. intros H. rewrite <- (firstn_skipn n l), all_byte_app in H. now apply andb_true_iff in H. Qed.
Lemma all_byte_skipn n l : all_byte l = true -> all_byte (skipn n l) = true.
Proof. intros H. rewrite <- (firstn_skipn n l), all_byte_app in H. now apply andb_true_iff in H. Qed.
Lemma len_firstn30 (l : list Z) : len (firstn 30 l) = Z.min 30 (len l).
Proof. unfold len. rewrite firstn_length. lia. Qed.
Lemma len_split30 (l : list Z) : len l = len (firstn 30 l) + len (skipn 30 l).
Proof. rewrite <- len_app, firstn_skipn. reflexivity. Qed.

(* ---------------- save: lines -> records *)
Definition rec4 (e : Z) : irec := mk_irec 0 4 [e / 256; e mod 256].

Fixpoint recs_chunks (chs : list (list Z)) (ext addr : Z) : list irec :=
  match chs with
  | [] => []
  | c :: r =>
      if addr >=? 65536
      then rec4 (Z.shiftr (ext + 65536) 16) :: mk_irec (addr - 65536) 0 c
             :: recs_chunks r (ext + 65536) (addr - 65536 + len c)
      else mk_irec addr 0 c :: recs_chunks r ext (addr + len c)
  end.

Lemma to_line_reads a t d : 0 <= a < 65536 -> is_byte t = true -> all_byte d = true -> len d < 256 ->
  exists s, to_line (mkHexLine a t d) = Ok s /\ read_line s = Some (mk_irec a t d).
Proof. intros. apply (line_checksum_length (mkHexLine a t d)). repeat split; cbn; auto; lia. Qed.

Lemma ext_line_reads e : 0 <= e < 65536 ->
  exists s, (x <- pack_H e ;; to_line (mkHexLine 0 4 x)) = Ok s /\ read_line s = Some (rec4 e).
Proof.
  intros H. unfold pack_H. replace ((0 <=? e) && (e <? 65536)) with true by lia. cbn [bind].
  apply to_line_reads; [lia | reflexivity | | reflexivity].
  cbn [all_byte forallb]. unfold is_byte. lia.
Qed.

Definition chunk_inv (ext addr : Z) (l : list Z) : Prop :=
  0 <= ext /\ ext mod 65536 = 0 /\ 0 <= addr < 65566 /\ ext + addr + len l <= 4294967296.

Lemma chunk_inv_step ext addr l : chunk_inv ext addr l -> 0 < len l ->
  (addr >=? 65536) = true ->
  chunk_inv (ext + 65536) (addr - 65536 + len (firstn 30 l)) (skipn 30 l) /\
  0 <= Z.shiftr (ext + 65536) 16 < 65536 /\ Z.shiftr (ext + 65536) 16 * 65536 = ext + 65536.
Proof.
  intros (H1 & H2 & H3 & H4) Hl Ha. rewrite shiftr_div by lia. change (2 ^ 16) with 65536.
  pose proof (len_split30 l). pose proof (len_firstn30 l). pose proof (len_nonneg (skipn 30 l)).
  unfold chunk_inv. repeat split; try lia.
Qed.
Lemma chunk_inv_step2 ext addr l : chunk_inv ext addr l ->
  (addr >=? 65536) = false -> chunk_inv ext (addr + len (firstn 30 l)) (skipn 30 l).
Proof.
  intros (H1 & H2 & H3 & H4) Ha. pose proof (len_nonneg l).
  pose proof (len_split30 l). pose proof (len_firstn30 l). pose proof (len_nonneg (skipn 30 l)).
  unfold chunk_inv. repeat split; try lia.
Qed.

Lemma save_chunks_reads n : forall l ext addr, n = nchunks l -> all_byte l = true -> chunk_inv ext addr l ->
  exists ls, save_chunks (chunk_list n l) ext addr = Ok ls /\
             read_lines ls = Some (recs_chunks (chunk_list n l) ext addr).
Proof.
  induction n as [|n IH]; intros l ext addr Hn Hb Hi; [cbn; eauto|].
  pose proof (nchunks_pos _ _ Hn) as Hl. rewrite (nchunks_S _ Hl) in Hn. injection Hn as Hn.
  cbn [chunk_list save_chunks recs_chunks].
  pose proof (len_firstn30 l) as Hf.
  destruct (addr >=? 65536) eqn:Ea.
  - destruct (chunk_inv_step _ _ _ Hi Hl Ea) as (Hi' & He & _).
    destruct (ext_line_reads _ He) as (s1 & Hs1 & Hr1).
    destruct (pack_H (Z.shiftr (ext + 65536) 16)) as [x| | |] eqn:Ep; cbn [bind] in Hs1; try discriminate.
    cbn [bind]. rewrite Hs1. cbn [bind].
    destruct (to_line_reads (addr - 65536) 0 (firstn 30 l)) as (s2 & Hs2 & Hr2);
      [destruct Hi as (_ & _ & ? & _); lia | reflexivity | now apply all_byte_firstn | lia |].
    rewrite Hs2. cbn [bind].
    destruct (IH (skipn 30 l) (ext + 65536) (addr - 65536 + len (firstn 30 l)) Hn (all_byte_skipn 30 l Hb) Hi') as (ls & Hls & Hrs).
    rewrite Hls. cbn [bind]. eexists. split; [reflexivity|]. cbn [read_lines]. now rewrite Hr1, Hr2, Hrs.
  - pose proof (chunk_inv_step2 _ _ _ Hi Ea) as Hi'.
    destruct (to_line_reads addr 0 (firstn 30 l)) as (s2 & Hs2 & Hr2);
      [destruct Hi as (_ & _ & ? & _); lia | reflexivity | now apply all_byte_firstn | lia |].
    rewrite Hs2. cbn [bind].
    destruct (IH (skipn 30 l) ext (addr + len (firstn 30 l)) Hn (all_byte_skipn 30 l Hb) Hi') as (ls & Hls & Hrs).
    rewrite Hls. cbn [bind]. eexists. split; [reflexivity|]. cbn [read_lines]. now rewrite Hr2, Hrs.
Qed.

(* ---------------- save: records -> blocks *)
Fixpoint blocks_of (chs : list (list Z)) (a : Z) : list (Z * list Z) :=
  match chs with [] => [] | c :: r => (a, c) :: blocks_of r (a + len c) end.

Lemma be_value2 e : 0 <= e -> be_value [e / 256; e mod 256] = e.
Proof. intros H. unfold be_value. cbn [fold_left]. lia. Qed.

Lemma interp_chunks n : forall l ext addr ulba blocks start,
  n = nchunks l -> chunk_inv ext addr l -> ulba * 65536 = ext ->
  exists ulba', forall rest,
    interp (recs_chunks (chunk_list n l) ext addr ++ rest) ulba blocks start =
    interp rest ulba' (rev (blocks_of (chunk_list n l) (ext + addr)) ++ blocks) start.
Proof.
  induction n as [|n IH]; intros l ext addr ulba blocks start Hn Hi Hu; [exists ulba; reflexivity|].
  pose proof (nchunks_pos _ _ Hn) as Hl. rewrite (nchunks_S _ Hl) in Hn. injection Hn as Hn.
  cbn [chunk_list recs_chunks blocks_of].
  pose proof (len_firstn30 l) as Hf. pose proof (len_split30 l) as Hsp. pose proof (len_nonneg (skipn 30 l)).
  destruct (addr >=? 65536) eqn:Ea.
  - destruct (chunk_inv_step _ _ _ Hi Hl Ea) as (Hi' & He & He2).
    set (e := Z.shiftr (ext + 65536) 16) in *.
    destruct (IH (skipn 30 l) (ext + 65536) (addr - 65536 + len (firstn 30 l)) e
                 ((ext + addr, firstn 30 l) :: blocks) start Hn Hi' He2) as (u' & Hu').
    exists u'. intros rest. cbn [app interp rec4 i_typ i_data i_off].
    change (4 =? 1) with false. change (4 =? 0) with false. change (4 =? 4) with true. cbn iota.
    change (len [e / 256; e mod 256] =? 2) with true. cbn iota. rewrite be_value2 by lia.
    change (0 =? 1) with false. change (0 =? 0) with true. cbn iota.
    replace (e * 65536 + (addr - 65536)) with (ext + addr) by lia.
    destruct Hi as (? & ? & ? & ?).
    replace (ext + addr + len (firstn 30 l) <=? 4294967296) with true by lia.
    rewrite Hu'. cbn [rev]. rewrite <- app_assoc. cbn [app].
    replace (ext + 65536 + (addr - 65536 + len (firstn 30 l))) with (ext + addr + len (firstn 30 l)) by lia.
    reflexivity.
  - pose proof (chunk_inv_step2 _ _ _ Hi Ea) as Hi'.
    destruct (IH (skipn 30 l) ext (addr + len (firstn 30 l)) ulba
                 ((ext + addr, firstn 30 l) :: blocks) start Hn Hi' Hu) as (u' & Hu').
    exists u'. intros rest. cbn [app interp i_typ i_data i_off].
    change (0 =? 1) with false. change (0 =? 0) with true. cbn iota.
    replace (ulba * 65536 + addr) with (ext + addr) by lia.
    destruct Hi as (? & ? & ? & ?).
    replace (ext + addr + len (firstn 30 l) <=? 4294967296) with true by lia.
    rewrite Hu'. cbn [rev]. rewrite <- app_assoc. cbn [app].
    replace (ext + (addr + len (firstn 30 l))) with (ext + addr + len (firstn 30 l)) by lia.
    reflexivity.
Qed.

Lemma lookup_app xs ys a :
  lookup (xs ++ ys) a = match lookup xs a with Some b => Some b | None => lookup ys a end.
Proof. induction xs as [|x xs IH]; cbn [app lookup]; [reflexivity|]. destruct (block_lookup x a); auto. Qed.

Lemma block_lookup_nil b a : block_lookup (b, []) a = None.
Proof. unfold block_lookup. cbn [fst snd]. change (len []) with 0. destruct (_ && _) eqn:E; [lia|reflexivity]. Qed.

Lemma lookup_blocks n : forall l A x, (List.length l <= n * 30)%nat ->
  lookup (blocks_of (chunk_list n l) A) x = block_lookup (A, l) x.
Proof.
  induction n as [|n IH]; intros l A x Hn.
  - destruct l; [|cbn in Hn; lia]. cbn [chunk_list blocks_of lookup]. now rewrite block_lookup_nil.
  - cbn [chunk_list blocks_of lookup]. rewrite IH by (rewrite skipn_length; lia).
    generalize (firstn_skipn 30 l). generalize (firstn 30 l) (skipn 30 l). intros c r Hl. subst l.
    destruct (block_lookup (A, c) x) eqn:E1.
    + symmetry. apply block_lookup_app. now left.
    + destruct (block_lookup (A + len c, r) x) eqn:E2.
      * symmetry. apply block_lookup_app. now right.
      * destruct (block_lookup (A, c ++ r) x) eqn:E3; [|reflexivity].
        apply block_lookup_app in E3. destruct E3; congruence.
Qed.

(* ---------------- save: one region, all regions, the file *)
Lemma land_hi a : 0 <= a < 4294967296 -> Z.land a 4294901760 = 65536 * (a / 65536).
Proof.
  intros H. transitivity (Z.shiftl (Z.shiftr a 16) 16).
  - change 4294901760 with (Z.shiftl (Z.ones 16) 16).
    apply Z.bits_inj'. intros n Hn. rewrite Z.land_spec.
    destruct (Z.ltb_spec n 16).
    + rewrite !Z.shiftl_spec_low by lia. apply andb_false_r.
    + rewrite !Z.shiftl_spec by lia. rewrite Z.shiftr_spec by lia. replace (n - 16 + 16) with n by lia.
      destruct (Z.ltb_spec n 32).
      * rewrite Z.ones_spec_low by lia. apply andb_true_r.
      * rewrite Z.ones_spec_high by lia. rewrite andb_false_r.
        symmetry. apply (testbit_small a 32); [change (2 ^ 32) with 4294967296|]; lia.
  - rewrite shiftr_div, shiftl_mul by lia. change (2 ^ 16) with 65536. lia.
Qed.

Definition region_ok (r : region) : Prop :=
  0 <= fst r /\ 0 < len (snd r) /\ fst r + len (snd r) <= 4294967296 /\ all_byte (snd r) = true.

Definition region_blocks (r : region) : list (Z * list Z) :=
  blocks_of (chunk_list (nchunks (snd r)) (snd r)) (fst r).

Definition recs_region (r : region) : list irec :=
  let ext := Z.land (fst r) 4294901760 in
  rec4 (Z.shiftr ext 16) :: recs_chunks (chunk_list (nchunks (snd r)) (snd r)) ext (fst r - ext).

Lemma region_ext r : region_ok r ->
  let ext := Z.land (fst r) 4294901760 in
  chunk_inv ext (fst r - ext) (snd r) /\ 0 <= Z.shiftr ext 16 < 65536 /\ Z.shiftr ext 16 * 65536 = ext.
Proof.
  intros (H1 & H2 & H3 & H4). cbn zeta. rewrite land_hi by lia.
  rewrite shiftr_div by lia. change (2 ^ 16) with 65536. unfold chunk_inv. repeat split; lia.
Qed.

Lemma save_region_reads r : region_ok r ->
  exists ls, save_region r = Ok ls /\ read_lines ls = Some (recs_region r).
Proof.
  intros Hr. destruct (region_ext r Hr) as (Hi & He & _). destruct Hr as (H1 & H2 & H3 & H4).
  unfold save_region, recs_region. rewrite chunks_chunk_list.
  set (ext := Z.land (fst r) 4294901760) in *.
  destruct (ext_line_reads _ He) as (s1 & Hs1 & Hr1).
  destruct (pack_H (Z.shiftr ext 16)) as [x| | |] eqn:Ep; cbn [bind] in Hs1; try discriminate.
  cbn [bind]. rewrite Hs1. cbn [bind].
  destruct (save_chunks_reads (nchunks (snd r)) (snd r) ext (fst r - ext) eq_refl H4 Hi) as (ls & Hls & Hrs).
  rewrite Hls. cbn [bind]. eexists. split; [reflexivity|]. cbn [read_lines]. now rewrite Hr1, Hrs.
Qed.

Lemma interp_region r ulba blocks start : region_ok r ->
  exists ulba', forall rest,
    interp (recs_region r ++ rest) ulba blocks start =
    interp rest ulba' (rev (region_blocks r) ++ blocks) start.
Proof.
  intros Hr. destruct (region_ext r Hr) as (Hi & He & He2). unfold recs_region, region_blocks.
  set (ext := Z.land (fst r) 4294901760) in *. set (e := Z.shiftr ext 16) in *.
  destruct (interp_chunks (nchunks (snd r)) (snd r) ext (fst r - ext) e blocks start eq_refl Hi He2)
    as (u' & Hu').
  exists u'. intros rest. cbn [app interp rec4 i_typ i_data].
  change (4 =? 1) with false. change (4 =? 0) with false. change (4 =? 4) with true. cbn iota.
  change (len [e / 256; e mod 256] =? 2) with true. cbn iota. rewrite be_value2 by lia.
  rewrite Hu'. replace (ext + (fst r - ext)) with (fst r) by lia. reflexivity.
Qed.

Fixpoint recs_regions (rs : list region) : list irec :=
  match rs with [] => [] | r :: t => recs_region r ++ recs_regions t end.
Fixpoint all_blocks (rs : list region) : list (Z * list Z) :=
  match rs with [] => [] | r :: t => region_blocks r ++ all_blocks t end.

Lemma read_lines_app a : forall b ra rb, read_lines a = Some ra -> read_lines b = Some rb ->
  read_lines (a ++ b) = Some (ra ++ rb).
Proof.
  induction a as [|x a IH]; intros b ra rb Ha Hb.
  - injection Ha as <-. exact Hb.
  - cbn [app read_lines] in *. destruct (read_line x); [|discriminate].
    destruct (read_lines a) eqn:E; [|discriminate]. injection Ha as <-.
    now rewrite (IH b _ rb eq_refl Hb).
Qed.

Lemma save_regions_reads rs : Forall region_ok rs ->
  exists ls, save_regions rs = Ok ls /\ read_lines ls = Some (recs_regions rs).
Proof.
  induction rs as [|r t IH]; intros H; [cbn; eauto|].
  inversion H as [|? ? Hr Ht]; subst. cbn [save_regions recs_regions].
  destruct (save_region_reads r Hr) as (l1 & Hl1 & Hr1). destruct (IH Ht) as (l2 & Hl2 & Hr2).
  rewrite Hl1, Hl2. cbn [bind]. eexists. split; [reflexivity|]. now apply read_lines_app.
Qed.

Lemma interp_regions rs : Forall region_ok rs -> forall ulba blocks start,
  exists ulba', forall rest,
    interp (recs_regions rs ++ rest) ulba blocks start =
    interp rest ulba' (rev (all_blocks rs) ++ blocks) start.
Proof.
  induction rs as [|r t IH]; intros H ulba blocks start; [exists ulba; reflexivity|].
  inversion H as [|? ? Hr Ht]; subst. cbn [recs_regions all_blocks].
  destruct (interp_region r ulba blocks start Hr) as (u1 & H1).
  destruct (IH Ht u1 (rev (region_blocks r) ++ blocks) start) as (u2 & H2).
  exists u2. intros rest. rewrite <- app_assoc, H1, H2. rewrite rev_app_distr, <- app_assoc. reflexivity.
Qed.

Lemma lookup_all_blocks rs a : lookup (all_blocks rs) a = lookup rs a.
Proof.
  induction rs as [|r t IH]; [reflexivity|]. cbn [all_blocks lookup]. rewrite lookup_app, IH.
  unfold region_blocks. rewrite lookup_blocks by (unfold nchunks, len; lia).
  destruct r; reflexivity.
Qed.

Lemma be_value4 v : 0 <= v < 4294967296 ->
  be_value [v / 16777216; (v / 65536) mod 256; (v / 256) mod 256; v mod 256] = v.
Proof. intros H. unfold be_value. cbn [fold_left]. lia. Qed.

Definition hexfile_ok (hf : HexFile) : Prop :=
  Forall region_ok (regions hf) /\ 0 <= start_address hf < 4294967296.

Lemma save_denotes hf : hexfile_ok hf ->
  exists lines blocks, save hf = Ok lines /\
    denote_file lines = Some (blocks, if start_address hf =? 0 then None else Some (start_address hf)) /\
    forall a, lookup blocks a = lookup (regions hf) a.
Proof.
  intros (Hr & Hs). unfold save.
  destruct (save_regions_reads _ Hr) as (body & Hb & Hrb). rewrite Hb. cbn [bind].
  destruct (to_line_reads 0 1 []) as (le & Hle & Hre); [lia | reflexivity | reflexivity | cbn; lia |].
  destruct (interp_regions _ Hr 0 [] None) as (u & Hu).
  exists (body ++ (if start_address hf =? 0 then [] else
                   match (d <- pack_I (start_address hf) ;; to_line (mkHexLine 0 5 d)) with Ok l => [l] | _ => [] end) ++ [le]).
  exists (all_blocks (regions hf)).
  destruct (start_address hf =? 0) eqn:E0; cbn [negb bind].
  - rewrite Hle. cbn [bind app]. split; [reflexivity|]. split; [|apply lookup_all_blocks].
    unfold denote_file. rewrite (read_lines_app body [le] _ [mk_irec 0 1 []] Hrb) by (cbn [read_lines]; now rewrite Hre).
    rewrite Hu. cbn [interp i_typ i_data]. change (1 =? 1) with true. cbn iota.
    now rewrite app_nil_r, rev_involutive.
  - unfold pack_I. replace ((0 <=? start_address hf) && (start_address hf <? 4294967296)) with true by lia.
    cbn [bind].
    set (v := start_address hf) in *.
    destruct (to_line_reads 0 5 [v / 16777216; (v / 65536) mod 256; (v / 256) mod 256; v mod 256])
      as (l5 & Hl5 & Hr5); [lia | reflexivity | cbn [all_byte forallb]; unfold is_byte; lia | cbn; lia |].
    rewrite Hl5. cbn [bind]. rewrite Hle. cbn [bind]. split; [reflexivity|]. split; [|apply lookup_all_blocks].
    unfold denote_file.
    rewrite (read_lines_app body ([l5] ++ [le]) _ [mk_irec 0 5 [v / 16777216; (v / 65536) mod 256; (v / 256) mod 256; v mod 256]; mk_irec 0 1 []] Hrb)
      by (cbn [app read_lines]; now rewrite Hr5, Hre).
    rewrite Hu. cbn [interp i_typ i_data].
    change (5 =? 1) with false. change (5 =? 0) with false. change (5 =? 4) with false. change (5 =? 5) with true.
    cbn iota. change (len [?a; ?b; ?c; ?d] =? 4) with true. cbn iota. change (1 =? 1) with true. cbn iota.
    rewrite be_value4 by lia. now rewrite app_nil_r, rev_involutive.
Qed.
