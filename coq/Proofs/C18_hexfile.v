(* Proofs/C18_hexfile.v — lemmas for property C18 (Intel HEX reader/writer). *)
From PV Require Import Lib.Py Lib.Tac Spec.IhexSpec Model.Hexfile.
From Coq Require Import String Ascii.
Open Scope Z_scope.
