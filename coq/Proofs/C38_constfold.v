(* Proofs/C38_constfold.v — lemmas about the constant folder:
   Gen.constfold (py2coq from ppci/opt/constantfolding.py: correct, cast, rem, is_defined),
   Gen.constfold_ops (export of ConstantFolder.ops), Model.ConstFold (is_const / eval_const / on_block)
   against Spec.IRArith. *)
From PV Require Import Lib.Py Lib.Tac Spec.IRArith Model.PyOperator Gen.constfold Gen.constfold_ops Model.ConstFold.
From Coq Require Import String.
Open Scope Z_scope.

Definition typ_of (t : ity) : typ := Typ false true false (bits t) (signed t).

Lemma bit_length_eq v n : 1 <= n -> 0 <= v < 2 ^ n -> (bit_length v =? n) = (2 ^ (n - 1) <=? v).
Proof.
  intros Hn Hv. unfold bit_length.
  assert (P : 0 < 2 ^ (n - 1)) by (apply Z.pow_pos_nonneg; lia).
  destruct (Z.eqb_spec v 0) as [->|Hz]; [lia|].
  rewrite Z.abs_eq by lia.
  assert (Z.log2 v < n) by (apply Z.log2_lt_pow2; lia).
  destruct (Z.leb_spec (2 ^ (n - 1)) v).
  - assert (n - 1 <= Z.log2 v) by (apply Z.log2_le_pow2; lia). lia.
  - assert (Z.log2 v < n - 1) by (apply Z.log2_lt_pow2; lia). lia.
Qed.

Lemma pow_split n : 1 <= n -> 2 ^ n = 2 * 2 ^ (n - 1).
Proof. intros H. replace n with (1 + (n - 1)) at 1 by lia. rewrite Z.pow_add_r by lia. reflexivity. Qed.

(* the translated [correct] is the Spec's [wrap] *)
Lemma correct_wrap t v : 1 <= bits t -> correct_ty v (typ_of t) = Ok (wrap t v).
Proof.
  intros Hb. unfold correct_ty, correct, typ_of; cbn [t_ptr t_int t_float t_bits t_signed].
  guard_ok. rewrite shiftl1_pow by lia.
  assert (P : 0 < 2 ^ bits t) by (apply Z.pow_pos_nonneg; lia).
  guard_ok. f_equal. unfold wrap.
  rewrite bit_length_eq by (try lia; apply Z.mod_pos_bound; lia). reflexivity.
Qed.

Lemma wrap_range t v : 1 <= bits t -> in_range t (wrap t v).
Proof.
  intros Hb. unfold in_range, wrap, lo, hi.
  assert (P : 0 < 2 ^ (bits t - 1)) by (apply Z.pow_pos_nonneg; lia).
  pose proof (pow_split (bits t) Hb) as E.
  pose proof (Z.mod_pos_bound v (2 ^ bits t) ltac:(lia)) as B.
  destruct (signed t); cbn [andb]; [|lia].
  destruct (Z.leb_spec (2 ^ (bits t - 1)) (v mod 2 ^ bits t)); lia.
Qed.

Lemma wrap_congr t v : 1 <= bits t -> (wrap t v) mod 2 ^ bits t = v mod 2 ^ bits t.
Proof.
  intros Hb. unfold wrap.
  assert (P : 0 < 2 ^ bits t) by (apply Z.pow_pos_nonneg; lia).
  destruct (signed t && (2 ^ (bits t - 1) <=? v mod 2 ^ bits t)).
  - replace (v mod 2 ^ bits t - 2 ^ bits t) with (v mod 2 ^ bits t + (-1) * 2 ^ bits t) by lia.
    rewrite Z.mod_add by lia. apply Z.mod_mod; lia.
  - apply Z.mod_mod; lia.
Qed.

Lemma wrap_id t v : 1 <= bits t -> in_range t v -> wrap t v = v.
Proof.
  intros Hb [L H]. unfold wrap, lo, hi in *.
  assert (P : 0 < 2 ^ (bits t - 1)) by (apply Z.pow_pos_nonneg; lia).
  pose proof (pow_split (bits t) Hb) as E.
  destruct (signed t); cbn [andb].
  - destruct (Z.lt_ge_cases v 0).
    + assert (M : v mod 2 ^ bits t = v + 2 ^ bits t).
      { symmetry. apply (Z.mod_unique_pos _ _ (-1)); lia. }
      rewrite M. destruct (Z.leb_spec (2 ^ (bits t - 1)) (v + 2 ^ bits t)); lia.
    + rewrite Z.mod_small by lia. destruct (Z.leb_spec (2 ^ (bits t - 1)) v); lia.
  - apply Z.mod_small; lia.
Qed.

(* wrap depends only on the residue *)
Lemma wrap_mod_eq t v w : v mod 2 ^ bits t = w mod 2 ^ bits t -> wrap t v = wrap t w.
Proof. intros E. unfold wrap. rewrite E. reflexivity. Qed.

(* wrap is THE in-range representative *)
Lemma wrap_meaning t v : 1 <= bits t ->
  in_range t (wrap t v) /\ (wrap t v) mod 2 ^ bits t = v mod 2 ^ bits t /\
  (forall w, in_range t w -> w mod 2 ^ bits t = v mod 2 ^ bits t -> w = wrap t v).
Proof.
  intros Hb. split; [now apply wrap_range|]. split; [now apply wrap_congr|].
  intros w Hw E. rewrite <- (wrap_id t w) by assumption. now apply wrap_mod_eq.
Qed.

Definition bin (op : Z) (t : typ) (a b : Z) : value := VBinop (VConst a t) op (VConst b t) t.

Lemma typ_eqb_refl x : typ_eqb x x = true.
Proof. unfold typ_eqb. rewrite !Bool.eqb_reflx, Z.eqb_refl. reflexivity. Qed.

Lemma typ_eqb_eq x y : typ_eqb x y = true -> x = y.
Proof.
  destruct x as [p1 i1 f1 b1 s1], y as [p2 i2 f2 b2 s2]; unfold typ_eqb; cbn. intros H.
  repeat (apply andb_prop in H; destruct H as [H ?]).
  repeat match goal with H : Bool.eqb _ _ = true |- _ => apply Bool.eqb_prop in H end.
  assert (b1 = b2) by lia. congruence.
Qed.

(* the three ways a Binop of two constants can go *)
Lemma bin_not_in_ops op ty a b : assoc op ops_table = None -> on_instruction (bin op ty a b) = Ok Unchanged.
Proof.
  intros H. unfold on_instruction, bin. cbn [is_const]. unfold in_ops. rewrite H. reflexivity.
Qed.

Lemma bin_not_int op ty a b : t_int ty = false -> on_instruction (bin op ty a b) = Ok Unchanged.
Proof.
  intros H. unfold on_instruction, bin. cbn [is_const]. rewrite H.
  destruct (negb (in_ops op)); reflexivity.
Qed.

Lemma bin_undefined op ty a b f : assoc op ops_table = Some f -> is_defined_ty op ty b = false ->
  on_instruction (bin op ty a b) = Ok Unchanged.
Proof.
  intros H D. unfold on_instruction, bin. cbn [is_const eval_const]. unfold in_ops. rewrite H.
  destruct (t_int ty); cbn; rewrite ?D; reflexivity.
Qed.

Lemma bin_folds op ty a b f : assoc op ops_table = Some f -> t_int ty = true -> is_defined_ty op ty b = true ->
  on_instruction (bin op ty a b) = (r <- f a b ;; w <- correct_ty r ty ;; Ok (Folded w ty)).
Proof.
  intros H I D. unfold on_instruction, bin. cbn [is_const eval_const]. unfold in_ops, apply_op. rewrite H, I.
  cbn [negb bind]. rewrite D. rewrite typ_eqb_refl. unfold guard.
  destruct (f a b); cbn [bind]; try reflexivity. destruct (correct_ty a0 ty); reflexivity.
Qed.

(* operator of the Spec -> operation string of ir.Binop -> code *)
Definition name_of (op : binop) : string :=
  match op with
  | Add => "+" | Sub => "-" | Mul => "*" | Div => "/" | Rem => "%"
  | Or => "|" | And => "&" | Xor => "^" | Shl => "<<" | Shr => ">>"
  end.
Definition opcode (op : binop) : Z := code_of (name_of op).
(* the operators the folder has in its table *)
Definition handled (op : binop) : bool :=
  match op with Add | Sub | Mul | Rem | Shl | Shr => true | _ => false end.

Lemma handled_in_ops op : handled op = in_ops (opcode op).
Proof. destruct op; reflexivity. Qed.

Lemma typ_of_int t : t_int (typ_of t) = true. Proof. reflexivity. Qed.

Lemma rem_is_Zrem a b : b <> 0 -> rem a b = Ok (Z.rem a b).
Proof.
  intros Hb. unfold rem. guard_ok. f_equal.
  destruct (Z.ltb_spec a 0).
  - rewrite <- (Z.opp_involutive a) at 2. rewrite Z.rem_opp_l by lia. f_equal.
    rewrite Z.abs_neq by lia. rewrite <- (Z.rem_abs_r (-a) b) by lia.
    rewrite Z.rem_mod_nonneg by lia. reflexivity.
  - rewrite Z.abs_eq by lia. rewrite <- (Z.rem_abs_r a b) by lia.
    rewrite Z.rem_mod_nonneg by lia. reflexivity.
Qed.

Lemma rem_range t a b : 1 <= bits t -> in_range t a -> b <> 0 -> in_range t (Z.rem a b).
Proof.
  intros Hb [L H] Hz. unfold in_range, lo, hi in *.
  assert (P : 0 < 2 ^ (bits t - 1)) by (apply Z.pow_pos_nonneg; lia).
  assert (P' : 0 < 2 ^ bits t) by (apply Z.pow_pos_nonneg; lia).
  destruct (Z.lt_ge_cases a 0).
  - pose proof (Z.rem_nonpos a b Hz ltac:(lia)) as B.
    assert (a <= Z.rem a b).
    { rewrite <- (Z.opp_involutive a) at 2. rewrite Z.rem_opp_l by lia.
      pose proof (Z.rem_le (-a) (Z.abs b) ltac:(lia) ltac:(lia)) as B2. rewrite Z.rem_abs_r in B2 by lia. lia. }
    destruct (signed t); lia.
  - pose proof (Z.rem_nonneg a b Hz ltac:(lia)) as B.
    pose proof (Z.rem_le a (Z.abs b) ltac:(lia) ltac:(lia)) as B2.
    rewrite Z.rem_abs_r in B2 by lia.
    destruct (signed t); lia.
Qed.

Lemma shr_range t a b : 1 <= bits t -> in_range t a -> 0 <= b -> in_range t (a / 2 ^ b).
Proof.
  intros Hb [L H] Hz. unfold in_range, lo, hi in *.
  assert (P : 0 < 2 ^ (bits t - 1)) by (apply Z.pow_pos_nonneg; lia).
  assert (P' : 0 < 2 ^ bits t) by (apply Z.pow_pos_nonneg; lia).
  assert (Q : 0 < 2 ^ b) by (apply Z.pow_pos_nonneg; lia).
  pose proof (Z.div_mod a (2 ^ b) ltac:(lia)) as D.
  pose proof (Z.mod_pos_bound a (2 ^ b) ltac:(lia)) as B.
  remember (a / 2 ^ b) as q. remember (a mod 2 ^ b) as r. remember (2 ^ b) as X.
  destruct (signed t); split; nia.
Qed.

Definition fold (op : binop) (t : ity) (a b : Z) : result outcome :=
  on_instruction (bin (opcode op) (typ_of t) a b).

Lemma fold_ok_step op t a b f r : 1 <= bits t ->
  assoc (opcode op) ops_table = Some f -> is_defined_ty (opcode op) (typ_of t) b = true -> f a b = Ok r ->
  fold op t a b = Ok (Folded (wrap t r) (typ_of t)).
Proof.
  intros Hb A D F. unfold fold. rewrite (bin_folds _ _ _ _ f A (typ_of_int t) D), F. cbn [bind].
  rewrite correct_wrap by lia. reflexivity.
Qed.

Lemma andb_range b n : (0 <=? b) && (b <? n) = true -> 0 <= b < n.
Proof. lia. Qed.

Theorem fold_exact op t a b v : 1 <= bits t -> in_range t a -> in_range t b -> handled op = true ->
  eval_binop op t a b = Some v -> fold op t a b = Ok (Folded v (typ_of t)).
Proof.
  intros Hb Ha Hr Hh E. destruct op; try discriminate Hh; cbn [eval_binop] in E.
  - injection E as <-. now apply (fold_ok_step Add t a b op_add).
  - injection E as <-. now apply (fold_ok_step Sub t a b op_sub).
  - injection E as <-. now apply (fold_ok_step Mul t a b op_mul).
  - destruct (div_defined t a b) eqn:D; [|discriminate]. injection E as <-.
    assert (Hz : b <> 0) by (unfold div_defined in D; lia).
    rewrite <- (wrap_id t (Z.rem a b)) by (try lia; now apply rem_range).
    apply (fold_ok_step Rem t a b rem); try lia; try reflexivity.
    + change (negb (b =? 0) = true). lia.
    + now apply rem_is_Zrem.
  - destruct ((0 <=? b) && (b <? bits t)) eqn:D; [|discriminate]. injection E as <-.
    apply andb_range in D.
    apply (fold_ok_step Shl t a b op_lshift); try lia; try reflexivity.
    + change ((0 <=? b) && (b <? bits t) = true). lia.
    + unfold op_lshift. destruct (Z.ltb_spec b 0); [lia|]. now rewrite shiftl_mul by lia.
  - destruct ((0 <=? b) && (b <? bits t)) eqn:D; [|discriminate]. injection E as <-.
    apply andb_range in D.
    rewrite <- (wrap_id t (a / 2 ^ b)) by (try lia; apply shr_range; (assumption || lia)).
    apply (fold_ok_step Shr t a b op_rshift); try lia; try reflexivity.
    + change ((0 <=? b) && (b <? bits t) = true). lia.
    + unfold op_rshift. destruct (Z.ltb_spec b 0); [lia|]. now rewrite shiftr_div by lia.
Qed.

(* operators that are not in the table are left for run time *)
Theorem unhandled_untouched op t a b : handled op = false -> fold op t a b = Ok Unchanged.
Proof. intros H. unfold fold. apply bin_not_in_ops. destruct op; try discriminate H; reflexivity. Qed.

(* every function of the table returns a value when is_defined says so (any operands) *)
Lemma ops_defined_ok z t a b f : assoc z ops_table = Some f -> is_defined_ty z (typ_of t) b = true ->
  exists r, f a b = Ok r.
Proof.
  unfold ops_table. cbn [assoc]. intros A D.
  repeat match type of A with
  | (if ?k =? z then _ else _) = _ => destruct (Z.eqb_spec k z); [subst z; injection A as <- | ]
  end; try discriminate A; unfold is_defined_ty, is_defined in D; cbn in D.
  - eexists; reflexivity.
  - eexists; reflexivity.
  - eexists; reflexivity.
  - exists (Z.rem a b). apply rem_is_Zrem. lia.
  - unfold op_lshift. destruct (Z.ltb_spec b 0); [lia|]. eexists; reflexivity.
  - unfold op_rshift. destruct (Z.ltb_spec b 0); [lia|]. eexists; reflexivity.
Qed.

(* a Binop of two constants of an integer type: the pass never raises, whatever the operation
   code and the operand values; what it folds lies in the range of the type *)
Theorem fold_total_in_range z t a b : 1 <= bits t ->
  on_instruction (bin z (typ_of t) a b) = Ok Unchanged \/
  exists v, on_instruction (bin z (typ_of t) a b) = Ok (Folded v (typ_of t)) /\ in_range t v.
Proof.
  intros Hb. destruct (assoc z ops_table) as [f|] eqn:A; [|left; now apply bin_not_in_ops].
  destruct (is_defined_ty z (typ_of t) b) eqn:D; [|left; now apply (bin_undefined _ _ _ _ f)].
  right. destruct (ops_defined_ok z t a b f A D) as [r F].
  exists (wrap t r). split; [|now apply wrap_range].
  rewrite (bin_folds _ _ _ _ f A (typ_of_int t) D), F. cbn [bind]. rewrite correct_wrap by lia. reflexivity.
Qed.

(* integer cast of a constant *)
Theorem cast_exact from to v : 1 <= bits to ->
  on_instruction (VCast (VConst v from) (typ_of to)) = Ok (Folded (eval_cast to v) (typ_of to)).
Proof.
  intros Hb. unfold on_instruction. cbn [is_const eval_const bind].
  unfold cast_ty, cast. cbn [typ_of t_ptr t_int t_float t_bits t_signed].
  pose proof (correct_wrap to v Hb) as C. unfold correct_ty in C. cbn [typ_of t_ptr t_int t_float t_bits t_signed] in C.
  rewrite C. reflexivity.
Qed.

(* ---- chain rules ---- *)
Definition chain (op : binop) (y : value) (t : typ) (c1 c2 : Z) : value :=
  VBinop (VBinop y (opcode op) (VConst c1 t) t) (opcode op) (VConst c2 t) t.

Lemma cast_wrap t v : 1 <= bits t -> cast_ty v (typ_of t) = Ok (wrap t v).
Proof.
  intros Hb. unfold cast_ty, cast. cbn [typ_of t_ptr t_int t_float t_bits t_signed].
  pose proof (correct_wrap t v Hb) as C. unfold correct_ty in C. cbn [typ_of t_ptr t_int t_float t_bits t_signed] in C.
  rewrite C. reflexivity.
Qed.

Lemma chain_add_run y t c1 c2 : 1 <= bits t -> is_const y = Ok false -> ty_of y = typ_of t ->
  on_instruction (chain Add y (typ_of t) c1 c2) = Ok (Rechained y (opcode Add) (wrap t (c1 + c2)) (typ_of t)).
Proof.
  intros Hb Hy Ty. unfold on_instruction, chain. cbn [is_const]. rewrite Hy.
  change (in_ops (opcode Add)) with true. cbn [negb typ_of t_int bind].
  unfold chain_cond. cbn [is_const bind negb]. rewrite Z.eqb_refl. cbn [negb t_float typ_of].
  unfold chain_apply. cbn [eval_const bind]. rewrite typ_eqb_refl. unfold guard.
  change (Typ false true false (bits t) (signed t)) with (typ_of t).
  rewrite cast_wrap by lia. cbn [bind]. rewrite Ty, typ_eqb_refl. reflexivity.
Qed.

Lemma chain_sub_run y t c1 c2 : 1 <= bits t -> is_const y = Ok false -> ty_of y = typ_of t ->
  on_instruction (chain Sub y (typ_of t) c1 c2) = Ok (Rechained y (opcode Sub) (wrap t (c1 + c2)) (typ_of t)).
Proof.
  intros Hb Hy Ty. unfold on_instruction, chain. cbn [is_const]. rewrite Hy.
  change (in_ops (opcode Sub)) with true. cbn [negb typ_of t_int bind].
  unfold chain_cond. cbn [is_const bind negb].
  change (opcode Sub =? code_of "+") with false. cbn [negb bind].
  change (opcode Sub =? code_of "-") with true. cbn [negb t_float typ_of].
  unfold chain_apply. cbn [eval_const bind]. rewrite typ_eqb_refl. unfold guard.
  change (Typ false true false (bits t) (signed t)) with (typ_of t).
  rewrite cast_wrap by lia. cbn [bind]. rewrite Ty, typ_eqb_refl. reflexivity.
Qed.

Lemma wrap_add_l t x y : 1 <= bits t -> (wrap t x + y) mod 2 ^ bits t = (x + y) mod 2 ^ bits t.
Proof.
  intros Hb. assert (P : 0 < 2 ^ bits t) by (apply Z.pow_pos_nonneg; lia).
  rewrite Z.add_mod, wrap_congr, <- Z.add_mod by lia. reflexivity.
Qed.
Lemma wrap_add_r t x y : 1 <= bits t -> (x + wrap t y) mod 2 ^ bits t = (x + y) mod 2 ^ bits t.
Proof. intros Hb. rewrite (Z.add_comm x), wrap_add_l by lia. f_equal. lia. Qed.
Lemma wrap_sub_l t x y : 1 <= bits t -> (wrap t x - y) mod 2 ^ bits t = (x - y) mod 2 ^ bits t.
Proof. intros Hb. replace (wrap t x - y) with (wrap t x + - y) by lia. rewrite wrap_add_l by lia. try (f_equal; lia). Qed.
Lemma wrap_sub_r t x y : 1 <= bits t -> (x - wrap t y) mod 2 ^ bits t = (x - y) mod 2 ^ bits t.
Proof.
  intros Hb. assert (P : 0 < 2 ^ bits t) by (apply Z.pow_pos_nonneg; lia).
  rewrite Zminus_mod, wrap_congr, <- Zminus_mod by lia. reflexivity.
Qed.

(* (y + c1) + c2 = y + c  and  (y - c1) - c2 = y - c  under the run-time semantics *)
Lemma chain_add_sem t yv c1 c2 : 1 <= bits t ->
  wrap t (wrap t (yv + c1) + c2) = wrap t (yv + wrap t (c1 + c2)).
Proof.
  intros Hb. apply wrap_mod_eq. rewrite wrap_add_l, wrap_add_r by lia. f_equal. lia.
Qed.
Lemma chain_sub_sem t yv c1 c2 : 1 <= bits t ->
  wrap t (wrap t (yv - c1) - c2) = wrap t (yv - wrap t (c1 + c2)).
Proof.
  intros Hb. apply wrap_mod_eq. rewrite wrap_sub_l, wrap_sub_r by lia. f_equal. lia.
Qed.

Theorem chain_add_exact y t c1 c2 : 1 <= bits t -> is_const y = Ok false -> ty_of y = typ_of t ->
  exists c, on_instruction (chain Add y (typ_of t) c1 c2) = Ok (Rechained y (opcode Add) c (typ_of t)) /\
    in_range t c /\
    forall yv r1 r, eval_binop Add t yv c1 = Some r1 -> eval_binop Add t r1 c2 = Some r ->
                    eval_binop Add t yv c = Some r.
Proof.
  intros Hb Hy Ty. exists (wrap t (c1 + c2)). split; [now apply chain_add_run|]. split; [now apply wrap_range|].
  cbn [eval_binop]. intros yv r1 r E1 E2. injection E1 as <-. injection E2 as <-.
  f_equal. symmetry. now apply chain_add_sem.
Qed.

Theorem chain_sub_exact y t c1 c2 : 1 <= bits t -> is_const y = Ok false -> ty_of y = typ_of t ->
  exists c, on_instruction (chain Sub y (typ_of t) c1 c2) = Ok (Rechained y (opcode Sub) c (typ_of t)) /\
    in_range t c /\
    forall yv r1 r, eval_binop Sub t yv c1 = Some r1 -> eval_binop Sub t r1 c2 = Some r ->
                    eval_binop Sub t yv c = Some r.
Proof.
  intros Hb Hy Ty. exists (wrap t (c1 + c2)). split; [now apply chain_sub_run|]. split; [now apply wrap_range|].
  cbn [eval_binop]. intros yv r1 r E1 E2. injection E1 as <-. injection E2 as <-.
  f_equal. symmetry. now apply chain_sub_sem.
Qed.

(* floating point types: the chain rules do not fire (float addition is not associative) *)
Theorem chain_float_untouched op y ty c1 c2 : t_float ty = true -> t_int ty = false ->
  (op = Add \/ op = Sub) -> on_instruction (chain op y ty c1 c2) = Ok Unchanged.
Proof.
  intros Hf Hi Hop. unfold on_instruction, chain. cbn [is_const]. rewrite Hi.
  destruct (negb (in_ops (opcode op))); cbn [negb bind];
  unfold chain_cond; cbn [is_const bind negb]; rewrite Hf;
  destruct Hop as [-> | ->]; reflexivity.
Qed.

(* ---- 8-bit exhaustive sweeps (bounded; extra to the unbounded theorems) ---- *)
Definition values_of (t : ity) : list Z := rangeZ (lo t) (hi t).

Definition agrees (op : binop) (t : ity) (a b : Z) : bool :=
  match eval_binop op t a b, fold op t a b with
  | Some v, Ok (Folded w ty) => (v =? w) && typ_eqb ty (typ_of t)
  | Some _, Ok Unchanged => negb (handled op)   (* operator not in the folder's table *)
  | Some _, _ => false
  | None, Ok Unchanged => true
  | None, Ok (Folded w ty) => in_rangeb t w && typ_eqb ty (typ_of t)
  | None, _ => false
  end.

Definition sweep (op : binop) (t : ity) : bool :=
  forallb (fun a => forallb (fun b => agrees op t a b) (values_of t)) (values_of t).

Lemma sweep8_add : sweep Add i8 && sweep Add u8 = true. Proof. vm_compute. reflexivity. Qed.
Lemma sweep8_sub : sweep Sub i8 && sweep Sub u8 = true. Proof. vm_compute. reflexivity. Qed.
Lemma sweep8_mul : sweep Mul i8 && sweep Mul u8 = true. Proof. vm_compute. reflexivity. Qed.
Lemma sweep8_rem : sweep Rem i8 && sweep Rem u8 = true. Proof. vm_compute. reflexivity. Qed.
Lemma sweep8_shl : sweep Shl i8 && sweep Shl u8 = true. Proof. vm_compute. reflexivity. Qed.
Lemma sweep8_shr : sweep Shr i8 && sweep Shr u8 = true. Proof. vm_compute. reflexivity. Qed.



Lemma sweep_forall op t : sweep op t = true ->
  forall a b, in_range t a -> in_range t b -> agrees op t a b = true.
Proof.
  unfold sweep, values_of. intros H a b Ha Hb.
  rewrite forallb_forall in H. specialize (H a ltac:(apply rangeZ_In; exact Ha)).
  rewrite forallb_forall in H. apply H. apply rangeZ_In. exact Hb.
Qed.

Definition sweep8_stmt (op : binop) : Prop :=
  forall t, t = i8 \/ t = u8 -> forall a b, in_range t a -> in_range t b -> agrees op t a b = true.

Lemma sweep8_lift op : sweep op i8 && sweep op u8 = true -> sweep8_stmt op.
Proof.
  intros H t Ht. apply andb_prop in H. destruct H as [H1 H2].
  destruct Ht as [-> | ->]; apply sweep_forall; assumption.
Qed.

Lemma sweep8_add_all : sweep8_stmt Add. Proof. exact (sweep8_lift Add sweep8_add). Qed.
Lemma sweep8_sub_all : sweep8_stmt Sub. Proof. exact (sweep8_lift Sub sweep8_sub). Qed.
Lemma sweep8_mul_all : sweep8_stmt Mul. Proof. exact (sweep8_lift Mul sweep8_mul). Qed.
Lemma sweep8_rem_all : sweep8_stmt Rem. Proof. exact (sweep8_lift Rem sweep8_rem). Qed.
Lemma sweep8_shl_all : sweep8_stmt Shl. Proof. exact (sweep8_lift Shl sweep8_shl). Qed.
Lemma sweep8_shr_all : sweep8_stmt Shr. Proof. exact (sweep8_lift Shr sweep8_shr). Qed.
