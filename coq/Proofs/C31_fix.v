(* Proofs/C31_fix.v — the repaired compile() (error state always present) and scan() (an empty
   longest match is no match): tables are complete for EVERY compiled regex, the run computes
   membership, and scan terminates within (length input + 2)^2 iterations for every regex. *)
From PV Require Import Lib.Py Lib.Tac Spec.RegLangSpec Model.Regex.
From PV Require Import Proofs.C31_sets Proofs.C31_regex Proofs.C31_dfa Proofs.C31_total Proofs.C31_scan.
Open Scope Z_scope.

Lemma null_row_eq n : null_row n = [(0, 255, n)].
Proof. reflexivity. Qed.

Lemma deriv_NULL c : deriv NULL c = NULL.
Proof. reflexivity. Qed.

Lemma compile_fx_tables fuel r d : re_canon r -> compile_fx fuel r = Ok d ->
  exists states, tables_ok r states d.
Proof.
  intros Hr. unfold compile_fx.
  destruct (compile_loop fuel ([r], [[]], [r])) as [[[states trs] stack]| | |] eqn:Ec; cbn [bind];
    try discriminate.
  assert (HB0 : Base [r] [[]]).
  { split; [reflexivity|]. split; [constructor; [assumption|constructor]|].
    intros [|[|i]] ts si Hi Hsi; cbn in Hi; try discriminate. inversion Hi. constructor. }
  assert (HP0 : Pend [r] [[]] [r] None).
  { split; [constructor; [intros []|constructor]|]. split.
    - intros q [<-|[]]. exists O. split; [apply index_of_self_head|]. split; [discriminate|reflexivity].
    - intros q m Hm _. left. left. cbn in Hm. destruct (re_eqb q r) eqn:E; [|discriminate].
      apply re_eqb_eq in E. now subst. }
  apply compile_loop_J in Ec; auto. destruct Ec as (HB & (_ & _ & Hdone) & (l & ->)).
  destruct HB as (Hlen & Hcan & Htr).
  assert (Hold : forall q j c, index_of q ([r] ++ l) O = Some j -> in_sigma c ->
            exists ts m, nth_error trs j = Some ts /\ (forall trs', nth_error trs' j = Some ts -> pick_transition trs' j c = Ok m) /\
                         index_of (deriv q c) ([r] ++ l) O = Some m).
  { intros q j c Hq Hc. destruct (Hdone q j Hq) as [[]|(ts & Hts & Hok)]; [discriminate|].
    destruct (pick_transition_total trs j ts c Hts Hok Hc) as (m & Hm). exists ts, m. split; [assumption|].
    pose proof (index_of_0 _ _ _ Hq) as Hnq. specialize (Htr j ts q Hts Hnq).
    assert (Hv : Forall tvalid ts) by (eapply Forall_impl; [|exact Htr]; intros t [H _]; exact H).
    destruct (pick_transition_spec trs j ts c m Hts Hv Hm) as (t & Ht & <- & Hct).
    rewrite Forall_forall in Htr. destruct (Htr t Ht) as [_ Hnext]. split; [|now apply Hnext].
    intros trs' Hts'. unfold pick_transition in *. rewrite Hts'. rewrite Hts in Hm. exact Hm. }
  destruct (index_of NULL ([r] ++ l) O) as [e|] eqn:Ee.
  - intros H. inversion H; subst d. clear H. exists ([r] ++ l). unfold tables_ok.
    split; [reflexivity|]. split; [assumption|]. split; [apply index_of_self_head|].
    intros q j c Hq Hc. destruct (Hold q j c Hq Hc) as (ts & m & Hts & Hp & Hi). exists m. split; auto.
  - intros H. inversion H; subst d. clear H. exists (([r] ++ l) ++ [NULL]). unfold tables_ok.
    pose proof (index_of_none_app NULL ([r] ++ l) O Ee) as Hn. cbn [Nat.add] in Hn.
    split; [reflexivity|]. split; [assumption|].
    split; [apply index_of_app_some, index_of_self_head|].
    intros q j c Hq Hc. apply index_of_app_inv in Hq. cbn [Nat.add] in Hq.
    destruct Hq as [Hq|(_ & -> & ->)].
    + destruct (Hold q j c Hq Hc) as (ts & m & Hts & Hp & Hi). exists m. split.
      * apply Hp. now apply nth_error_app_some.
      * now apply index_of_app_some.
    + rewrite deriv_NULL. rewrite null_row_eq.
      assert (Hrow : nth_error (trs ++ [[(0, 255, length ([r] ++ l))]]) (length ([r] ++ l)) =
                     Some [(0, 255, length ([r] ++ l))]).
      { rewrite nth_error_app2 by lia. rewrite Hlen, Nat.sub_diag. reflexivity. }
      assert (Hok : RowOK [(0, 255, length ([r] ++ l))]).
      { split.
        - cbn. split; [unfold tvalid; cbn; lia|]. split; [constructor|exact I].
        - intros c0 Hc0. eexists. split; [now left|]. unfold tin, tr_first, tr_last, in_sigma in *. cbn. lia. }
      destruct (pick_transition_total _ _ _ c Hrow Hok Hc) as (m & Hm). exists m. split; [assumption|].
      assert (Hv : Forall tvalid [(0, 255, length ([r] ++ l))]) by (constructor; [unfold tvalid; cbn; lia|constructor]).
      destruct (pick_transition_spec _ _ _ c m Hrow Hv Hm) as (t & [<-|[]] & <- & _). exact Hn.
Qed.

(* the run on complete tables computes the derivative matcher *)
Lemma run_from_tables r states d : tables_ok r states d ->
  forall s, Forall in_sigma s -> forall j q, index_of q states O = Some j ->
  run_from d j s = Ok (nullable (derivs q s)).
Proof.
  destruct d as [[trs accepts] e]. intros (Hacc & Herr & H0 & Hpick). subst accepts.
  induction s as [|c s IH]; intros Hs j q Hq; cbn [run_from].
  - apply index_of_0 in Hq. rewrite nth_error_map, Hq. reflexivity.
  - inversion Hs as [|? ? Hc Hs']; subst. destruct (Hpick q j c Hq Hc) as (m & Hm & Hi).
    rewrite Hm. cbn [bind]. rewrite (IH Hs' m (deriv q c) Hi). reflexivity.
Qed.

Theorem run_fx_correct fuel r d : re_canon r -> compile_fx fuel r = Ok d ->
  forall s, Forall in_sigma s -> run d s = Ok (matches r s).
Proof.
  intros Hr Hc s Hs. destruct (compile_fx_tables fuel r d Hr Hc) as (states & Hok).
  unfold run, matches. apply (run_from_tables r states d Hok s Hs O r).
  destruct d as [[trs accepts] e]. destruct Hok as (_ & _ & H0 & _). exact H0.
Qed.

Theorem dfa_fx_correct fuel r d : re_canon r -> compile_fx fuel r = Ok d ->
  forall s, Forall in_sigma s ->
  (run d s = Ok true <-> L r s) /\ (run d s = Ok false <-> ~ L r s).
Proof.
  intros Hr Hc s Hs. rewrite (run_fx_correct fuel r d Hr Hc s Hs).
  pose proof (matches_spec r s) as H. destruct (matches r s); split; split; intros H1;
    try discriminate; try reflexivity.
  - now apply H.
  - exfalso. apply H1. now apply H.
  - apply H in H1. discriminate.
  - intros HL. apply H in HL. discriminate.
Qed.


(* ================================================================== scan_fx always terminates *)
Definition scan_measure (n start offset : nat) : nat :=
  ((n - start) * (n + 2) + (n - offset) + 1)%nat.

Lemma scan_fx_terminates r states d chars : tables_ok r states d -> Forall in_sigma chars ->
  forall fuel start offset st accept end_ out,
  (exists q, index_of q states O = Some st) ->
  (start <= offset <= length chars)%nat -> (accept = true -> (end_ <= offset)%nat) ->
  (scan_measure (length chars) start offset <= fuel)%nat ->
  (exists toks, scan_loop_fx fuel d chars start offset st accept end_ out = Ok toks) \/
  (exists code, scan_loop_fx fuel d chars start offset st accept end_ out = Diag code).
Proof.
  destruct d as [[trs accepts] e]. intros (Hacc & Herr & H0 & Hpick) Hsig. subst accepts.
  set (n := length chars).
  induction fuel as [|fuel IH]; intros start offset st accept end_ out (q & Hq) Hso Hend Hf.
  - unfold scan_measure in Hf. nia.
  - cbn [scan_loop_fx]. pose proof (index_of_0 _ _ _ Hq) as Hnq. rewrite nth_error_map, Hnq. cbn [option_map].
    set (accept1 := if nullable q then true else accept).
    set (end1 := if nullable q then offset else end_).
    assert (Hend1 : accept1 = true -> (end1 <= offset)%nat).
    { unfold accept1, end1. destruct (nullable q); auto. }
    assert (Hemit : forall offset1, (offset <= offset1 <= n)%nat ->
              (exists toks, (if accept1 && (start <? end1)%nat
                 then scan_loop_fx fuel (trs, map nullable states, e) chars end1 end1 O false end1
                        (out ++ [firstn (end1 - start) (skipn start chars)])
                 else if (start <? offset1)%nat then Diag 1 else Ok out) = Ok toks) \/
              (exists code, (if accept1 && (start <? end1)%nat
                 then scan_loop_fx fuel (trs, map nullable states, e) chars end1 end1 O false end1
                        (out ++ [firstn (end1 - start) (skipn start chars)])
                 else if (start <? offset1)%nat then Diag 1 else Ok out) = Diag code)).
    { intros offset1 Ho1. destruct (accept1 && (start <? end1)%nat) eqn:Eb.
      - apply andb_true_iff in Eb. destruct Eb as [Ea Elt]. apply Nat.ltb_lt in Elt.
        specialize (Hend1 Ea). apply IH.
        + exists r. exact H0.
        + lia.
        + discriminate.
        + unfold scan_measure in *. fold n in Hf |- *. nia.
      - destruct (start <? offset1)%nat; [right|left]; eauto. }
    destruct (nth_error chars offset) as [ch|] eqn:Ech.
    + assert (Hlt : (offset < n)%nat) by (apply nth_error_Some; congruence).
      assert (Hc : in_sigma ch) by (rewrite Forall_forall in Hsig; eapply Hsig, nth_error_In; eauto).
      destruct (Hpick q st ch Hq Hc) as (m & Hm & Hmi). rewrite Hm. cbn [bind].
      destruct (m =? e)%nat.
      * apply Hemit. lia.
      * apply IH.
        -- eauto.
        -- lia.
        -- intros Ea. specialize (Hend1 Ea). lia.
        -- unfold scan_measure in *. fold n in Hf |- *. nia.
    + cbn [bind]. rewrite Nat.eqb_refl. apply Hemit. lia.
Qed.

Theorem scan_fx_total fuel r d chars : re_canon r -> compile_fx fuel r = Ok d -> Forall in_sigma chars ->
  (exists toks, scan_fx ((length chars + 2) * (length chars + 2)) d chars = Ok toks) \/
  (exists code, scan_fx ((length chars + 2) * (length chars + 2)) d chars = Diag code).
Proof.
  intros Hr Hc Hsig. destruct (compile_fx_tables fuel r d Hr Hc) as (states & Hok). unfold scan_fx.
  apply (scan_fx_terminates r states d chars Hok Hsig).
  - exists r. destruct d as [[trs accepts] e]. destruct Hok as (_ & _ & H0 & _). exact H0.
  - lia.
  - discriminate.
  - unfold scan_measure. nia.
Qed.

(* ================================================================== scan_fx = maximal munch, for every regex *)
Lemma scan_loop_fx_munch r states d : tables_ok r states d ->
  forall fuel done tok suf st accept end_ out res,
  Forall in_sigma (tok ++ suf) ->
  index_of (derivs r tok) states O = Some st ->
  seen r done tok accept end_ ->
  scan_loop_fx fuel d (done ++ tok ++ suf) (length done) (length done + length tok) st accept end_ out = Ok res ->
  exists toks, res = out ++ toks /\ munch (L r) (tok ++ suf) toks.
Proof.
  destruct d as [[trs accepts] e]. intros (Hacc & Herr & H0 & Hpick). subst accepts.
  induction fuel as [|fuel IH]; intros done tok suf st accept end_ out res Hsig Hst Hseen; cbn [scan_loop_fx];
    [discriminate|].
  pose proof (index_of_0 _ _ _ Hst) as Hnst.
  rewrite nth_error_map, Hnst. cbn [option_map].
  set (acc_here := nullable (derivs r tok)).
  set (accept1 := if acc_here then true else accept).
  set (end1 := if acc_here then (length done + length tok)%nat else end_).
  (* the summary after looking at the accept flag of the current state *)
  assert (HQ : if accept1 then
             exists tokA tokB, tok = tokA ++ tokB /\ end1 = (length done + length tokA)%nat /\
               L r tokA /\ (forall x y, tokB = x ++ y -> x <> [] -> ~ L r (tokA ++ x))
           else forall x y, tok = x ++ y -> ~ L r x).
  { unfold accept1, end1. destruct acc_here eqn:Eacc; unfold acc_here in Eacc.
    - exists tok, []. rewrite app_nil_r. split; [reflexivity|]. split; [reflexivity|].
      split; [now apply matches_spec|]. intros x y E Hx. destruct x; [congruence|discriminate].
    - assert (Hno : ~ L r tok) by (intros HL; apply matches_spec in HL; unfold matches in HL; congruence).
      unfold seen in Hseen. destruct accept.
      + destruct Hseen as (tokA & tokB & -> & HB & -> & HL & Hlong). exists tokA, tokB.
        split; [reflexivity|]. split; [reflexivity|]. split; [assumption|].
        intros x y E Hx. destruct y as [|c y]; [|apply (Hlong x (c :: y)); auto; discriminate].
        rewrite app_nil_r in E. now subst x.
      + intros x y E. destruct y as [|c y]; [|apply (Hseen x (c :: y)); auto; discriminate].
        rewrite app_nil_r in E. now subst x. }
  (* emitting the token tokA and restarting behind it *)
  assert (Hemit : accept1 = true -> (length done < end1)%nat ->
            (forall x y, suf = x ++ y -> x <> [] -> ~ L r (tok ++ x)) ->
            scan_loop_fx fuel (trs, map nullable states, e) (done ++ tok ++ suf) end1 end1 O false end1
              (out ++ [firstn (end1 - length done) (skipn (length done) (done ++ tok ++ suf))]) = Ok res ->
            exists toks, res = out ++ toks /\ munch (L r) (tok ++ suf) toks).
  { intros Ea Hlt Hbeyond Hrun. rewrite Ea in HQ. destruct HQ as (tokA & tokB & -> & -> & HL & Hlong).
    rewrite <- !app_assoc in Hrun. rewrite sub_token in Hrun.
    assert (Hne : tokA <> []).
    { intros ->. cbn in Hlt. lia. }
    rewrite <- app_length in Hrun. rewrite (app_assoc done tokA) in Hrun.
    replace (length (done ++ tokA)) with (length (done ++ tokA) + length (@nil Z))%nat in Hrun at 2 by (cbn; lia).
    change (tokB ++ suf) with ([] ++ tokB ++ suf) in Hrun.
    apply IH in Hrun.
    - destruct Hrun as (toks & -> & Hm). exists (tokA :: toks). rewrite <- app_assoc. split; [reflexivity|].
      rewrite <- app_assoc. constructor; auto.
      intros x y E Hx.
      (* x is a non-empty prefix of tokB ++ suf *)
      destruct (Nat.le_gt_cases (length x) (length tokB)) as [Hle|Hgt].
      + assert (Hx' : exists z, tokB = x ++ z).
        { exists (firstn (length tokB - length x) (skipn (length x) tokB)).
          assert (E2 : firstn (length x) (tokB ++ suf) = x) by (rewrite E, firstn_app, firstn_all, Nat.sub_diag; cbn; now rewrite app_nil_r).
          rewrite firstn_app in E2. replace (length x - length tokB)%nat with O in E2 by lia.
          cbn in E2. rewrite app_nil_r in E2. rewrite <- E2 at 1.
          rewrite <- (firstn_skipn (length x) tokB) at 1. f_equal.
          rewrite firstn_all2; [reflexivity|]. rewrite skipn_length. lia. }
        destruct Hx' as (z & Ez). now apply (Hlong x z).
      + assert (Hx' : exists z, x = tokB ++ z /\ z <> [] /\ suf = z ++ y).
        { exists (skipn (length tokB) x).
          assert (E2 : firstn (length tokB) (x ++ y) = tokB) by (rewrite <- E, firstn_app, firstn_all, Nat.sub_diag; cbn; now rewrite app_nil_r).
          rewrite firstn_app in E2. replace (length tokB - length x)%nat with O in E2 by lia.
          cbn in E2. rewrite app_nil_r in E2.
          assert (Ex : x = tokB ++ skipn (length tokB) x) by (rewrite <- E2 at 1; now rewrite firstn_skipn).
          split; [assumption|]. split.
          - intros Hz. rewrite Hz, app_nil_r in Ex. subst x. lia.
          - rewrite Ex in E. rewrite <- app_assoc in E. now apply app_inv_head in E. }
        destruct Hx' as (z & -> & Hz & Esuf). rewrite app_assoc. now apply (Hbeyond z y).
    - cbn [app]. rewrite Forall_app in Hsig. destruct Hsig as [Ht Hs]. rewrite Forall_app in Ht.
      destruct Ht. now apply Forall_app.
    - cbn. exact H0.
    - unfold seen. intros x y E Hy. symmetry in E. apply app_eq_nil in E. destruct E. contradiction. }
  destruct suf as [|c suf'].
  - (* end of input *)
    rewrite !app_nil_r in *.
    assert (Hn : nth_error (done ++ tok) (length done + length tok) = None)
      by (apply nth_error_None; rewrite app_length; lia).
    rewrite Hn. cbn [bind]. rewrite Nat.eqb_refl. destruct (accept1 && (length done <? end1)%nat) eqn:Eb.
    + apply andb_true_iff in Eb. destruct Eb as [Ea Elt0]. apply Nat.ltb_lt in Elt0.
      intros Hrun. apply Hemit; [exact Ea|exact Elt0| |exact Hrun].
      intros x y E Hx. symmetry in E. apply app_eq_nil in E. destruct E. contradiction.
    + destruct (length done <? length done + length tok)%nat eqn:Elt; [discriminate|].
      intros H. inversion H; subst res. exists []. rewrite !app_nil_r. split; [reflexivity|].
      destruct tok; [constructor|cbn in Elt; apply Nat.ltb_ge in Elt; lia].
  - (* one more character *)
    rewrite app_assoc, <- app_length, nth_error_at, <- app_assoc.
    assert (Hc : in_sigma c) by (rewrite Forall_app in Hsig; destruct Hsig as [_ Hs]; now inversion Hs).
    destruct (Hpick (derivs r tok) st c Hst Hc) as (m & Hm & Hmi). rewrite Hm. cbn [bind].
    assert (Hd : deriv (derivs r tok) c = derivs r (tok ++ [c])) by (now rewrite derivs_app).
    rewrite Hd in Hmi.
    destruct (m =? e)%nat eqn:Eme.
    + (* the new state is the error state: no extension of tok ++ [c] matches *)
      apply Nat.eqb_eq in Eme. subst m.
      assert (Hnull : derivs r (tok ++ [c]) = NULL) by (eapply index_of_inj; eauto).
      destruct (accept1 && (length done <? end1)%nat) eqn:Eb.
      * apply andb_true_iff in Eb. destruct Eb as [Ea Elt0]. apply Nat.ltb_lt in Elt0.
        intros Hrun. apply Hemit; [exact Ea|exact Elt0| |exact Hrun]. intros x y E Hx. destruct x as [|c' x]; [congruence|].
        cbn in E. inversion E; subst c' suf'. intros HL.
        change (tok ++ c :: x) with (tok ++ [c] ++ x) in HL. rewrite app_assoc in HL.
        apply derivs_spec in HL. rewrite Hnull in HL. now apply L_NULL in HL.
      * assert (Elt : (length done <? S (length (done ++ tok)))%nat = true) by (rewrite app_length; apply Nat.ltb_lt; lia).
        rewrite Elt. discriminate.
    + (* keep scanning *)
      intros Hrun.
      replace (S (length (done ++ tok))) with (length done + length (tok ++ [c]))%nat in Hrun
        by (rewrite !app_length; cbn; lia).
      change (done ++ tok ++ c :: suf') with (done ++ tok ++ [c] ++ suf') in Hrun.
      rewrite (app_assoc tok [c] suf') in Hrun.
      apply IH in Hrun; auto.
      * destruct Hrun as (toks & -> & Hmunch). exists toks. split; [reflexivity|].
        now rewrite <- app_assoc in Hmunch.
      * now rewrite <- app_assoc.
      * unfold seen. destruct accept1.
        -- destruct HQ as (tokA & tokB & -> & -> & HL & Hlong). exists tokA, (tokB ++ [c]).
           rewrite <- app_assoc. split; [reflexivity|]. split; [now destruct tokB|].
           split; [reflexivity|]. split; [assumption|]. intros x y E Hx Hy.
           symmetry in E. destruct (app_snoc_split x y tokB c E Hy) as (y' & -> & ->).
           now apply (Hlong x y').
        -- intros x y E Hy. destruct (app_snoc_split x y tok c (eq_sym E) Hy) as (y' & -> & ->).
           now apply (HQ x y').
Qed.


Lemma scan_loop_fx_diag r states d : tables_ok r states d ->
  forall fuel done tok suf st accept end_ out code,
  Forall in_sigma (tok ++ suf) ->
  index_of (derivs r tok) states O = Some st ->
  seen r done tok accept end_ ->
  scan_loop_fx fuel d (done ++ tok ++ suf) (length done) (length done + length tok) st accept end_ out = Diag code ->
  forall toks, ~ munch (L r) (tok ++ suf) toks.
Proof.
  destruct d as [[trs accepts] e]. intros (Hacc & Herr & H0 & Hpick). subst accepts.
  induction fuel as [|fuel IH]; intros done tok suf st accept end_ out code Hsig Hst Hseen; cbn [scan_loop_fx];
    [discriminate|].
  pose proof (index_of_0 _ _ _ Hst) as Hnst.
  rewrite nth_error_map, Hnst. cbn [option_map].
  set (acc_here := nullable (derivs r tok)).
  set (accept1 := if acc_here then true else accept).
  set (end1 := if acc_here then (length done + length tok)%nat else end_).
  assert (HQ : if accept1 then
             exists tokA tokB, tok = tokA ++ tokB /\ end1 = (length done + length tokA)%nat /\
               L r tokA /\ (forall x y, tokB = x ++ y -> x <> [] -> ~ L r (tokA ++ x))
           else forall x y, tok = x ++ y -> ~ L r x).
  { unfold accept1, end1. destruct acc_here eqn:Eacc; unfold acc_here in Eacc.
    - exists tok, []. rewrite app_nil_r. split; [reflexivity|]. split; [reflexivity|].
      split; [now apply matches_spec|]. intros x y E Hx. destruct x; [congruence|discriminate].
    - assert (Hno : ~ L r tok) by (intros HL; apply matches_spec in HL; unfold matches in HL; congruence).
      unfold seen in Hseen. destruct accept.
      + destruct Hseen as (tokA & tokB & -> & HB & -> & HL & Hlong). exists tokA, tokB.
        split; [reflexivity|]. split; [reflexivity|]. split; [assumption|].
        intros x y E Hx. destruct y as [|c y]; [|apply (Hlong x (c :: y)); auto; discriminate].
        rewrite app_nil_r in E. now subst x.
      + intros x y E. destruct y as [|c y]; [|apply (Hseen x (c :: y)); auto; discriminate].
        rewrite app_nil_r in E. now subst x. }
  assert (Hnone : (accept1 && (length done <? end1)%nat) = false ->
            forall x y, tok = x ++ y -> x <> [] -> ~ L r x).
  { intros Eb x y E Hx. destruct accept1.
    - cbn in Eb. apply Nat.ltb_ge in Eb. destruct HQ as (tokA & tokB & Etok & Eend & HL & Hlong).
      rewrite Eend in Eb. assert (EA : tokA = []) by (destruct tokA; [reflexivity|cbn in Eb; lia]).
      subst tokA. cbn in Etok. subst tokB. now apply (Hlong x y).
    - now apply (HQ x y). }
  assert (Hemit : accept1 = true -> (length done < end1)%nat ->
            (forall x y, suf = x ++ y -> x <> [] -> ~ L r (tok ++ x)) ->
            scan_loop_fx fuel (trs, map nullable states, e) (done ++ tok ++ suf) end1 end1 O false end1
              (out ++ [firstn (end1 - length done) (skipn (length done) (done ++ tok ++ suf))]) = Diag code ->
            forall toks, ~ munch (L r) (tok ++ suf) toks).
  { intros Ea Hlt Hbeyond Hrun. rewrite Ea in HQ. destruct HQ as (tokA & tokB & -> & -> & HL & Hlong).
    rewrite <- !app_assoc in Hrun. rewrite sub_token in Hrun.
    assert (Hne : tokA <> []).
    { intros ->. cbn in Hlt. lia. }
    rewrite <- app_length in Hrun. rewrite (app_assoc done tokA) in Hrun.
    replace (length (done ++ tokA)) with (length (done ++ tokA) + length (@nil Z))%nat in Hrun at 2 by (cbn; lia).
    change (tokB ++ suf) with ([] ++ tokB ++ suf) in Hrun.
    intros toks Hm. rewrite <- app_assoc in Hm.
    destruct (munch_first_unique (L r) tokA (tokB ++ suf) toks _ Hm eq_refl Hne HL) as (toks1 & -> & Hm1).
    { apply longest_split; assumption. }
    revert Hm1. change (tokB ++ suf) with ([] ++ tokB ++ suf). eapply IH; [| | |exact Hrun].
    - cbn [app]. rewrite Forall_app in Hsig. destruct Hsig as [Ht Hs]. rewrite Forall_app in Ht.
      destruct Ht. now apply Forall_app.
    - cbn. exact H0.
    - unfold seen. intros x y E Hy. symmetry in E. apply app_eq_nil in E. destruct E. contradiction. }
  destruct suf as [|c suf'].
  - rewrite !app_nil_r in *.
    assert (Hn : nth_error (done ++ tok) (length done + length tok) = None)
      by (apply nth_error_None; rewrite app_length; lia).
    rewrite Hn. cbn [bind]. rewrite Nat.eqb_refl. destruct (accept1 && (length done <? end1)%nat) eqn:Eb.
    + apply andb_true_iff in Eb. destruct Eb as [Ea Elt0]. apply Nat.ltb_lt in Elt0.
      intros Hrun. apply Hemit; [exact Ea|exact Elt0| |exact Hrun].
      intros x y E Hx. symmetry in E. apply app_eq_nil in E. destruct E. contradiction.
    + destruct (length done <? length done + length tok)%nat eqn:Elt; [|discriminate].
      intros _ toks Hm. apply Nat.ltb_lt in Elt. destruct Hm as [|w rest toks' Hw HP _ _].
      * cbn in Elt. lia.
      * apply (Hnone eq_refl w rest); auto.
  - rewrite app_assoc, <- app_length, nth_error_at, <- app_assoc.
    assert (Hc : in_sigma c) by (rewrite Forall_app in Hsig; destruct Hsig as [_ Hs]; now inversion Hs).
    destruct (Hpick (derivs r tok) st c Hst Hc) as (m & Hm & Hmi). rewrite Hm. cbn [bind].
    assert (Hd : deriv (derivs r tok) c = derivs r (tok ++ [c])) by (now rewrite derivs_app).
    rewrite Hd in Hmi.
    destruct (m =? e)%nat eqn:Eme.
    + apply Nat.eqb_eq in Eme. subst m.
      assert (Hnull : derivs r (tok ++ [c]) = NULL) by (eapply index_of_inj; eauto).
      assert (Hbeyond : forall z, ~ L r ((tok ++ [c]) ++ z)).
      { intros z HL. apply derivs_spec in HL. rewrite Hnull in HL. now apply L_NULL in HL. }
      destruct (accept1 && (length done <? end1)%nat) eqn:Eb.
      * apply andb_true_iff in Eb. destruct Eb as [Ea Elt0]. apply Nat.ltb_lt in Elt0.
        intros Hrun. apply Hemit; [exact Ea|exact Elt0| |exact Hrun]. intros x y E Hx. destruct x as [|c' x]; [congruence|].
        cbn in E. inversion E; subst c' suf'.
        change (tok ++ c :: x) with (tok ++ [c] ++ x). rewrite app_assoc. apply Hbeyond.
      * intros _ toks Hmu.
        remember (tok ++ c :: suf') as text eqn:Et. destruct Hmu as [|w rest toks' Hw HP _ _].
        -- destruct tok; discriminate.
        -- change (tok ++ c :: suf') with (tok ++ [c] ++ suf') in Et. rewrite app_assoc in Et.
           destruct (prefix_cmp _ _ _ _ Et) as [(z & Ew & _)|(z & -> & _)].
           ++ destruct z as [|c' z].
              ** rewrite app_nil_r in Ew. subst w. apply (Hbeyond []). now rewrite app_nil_r.
              ** destruct (app_snoc_split w (c' :: z) tok c (eq_sym Ew)) as (y' & _ & ->); [discriminate|].
                 apply (Hnone eq_refl w y'); auto.
           ++ now apply (Hbeyond z).
    + intros Hrun.
      replace (S (length (done ++ tok))) with (length done + length (tok ++ [c]))%nat in Hrun
        by (rewrite !app_length; cbn; lia).
      change (done ++ tok ++ c :: suf') with (done ++ tok ++ [c] ++ suf') in Hrun.
      rewrite (app_assoc tok [c] suf') in Hrun.
      intros toks Hmu. change (tok ++ c :: suf') with (tok ++ [c] ++ suf') in Hmu. rewrite app_assoc in Hmu.
      revert toks Hmu. eapply IH; [| | |exact Hrun]; auto.
      * now rewrite <- app_assoc.
      * unfold seen. destruct accept1.
        -- destruct HQ as (tokA & tokB & -> & -> & HL & Hlong). exists tokA, (tokB ++ [c]).
           rewrite <- app_assoc. split; [reflexivity|]. split; [now destruct tokB|].
           split; [reflexivity|]. split; [assumption|]. intros x y E Hx Hy.
           symmetry in E. destruct (app_snoc_split x y tokB c E Hy) as (y' & -> & ->).
           now apply (Hlong x y').
        -- intros x y E Hy. destruct (app_snoc_split x y tok c (eq_sym E) Hy) as (y' & -> & ->).
           now apply (HQ x y').
Qed.


Lemma scan_fx_no_internal r states d : tables_ok r states d ->
  forall fuel chars start offset st accept end_ out err,
  Forall in_sigma chars -> (exists q, index_of q states O = Some st) ->
  scan_loop_fx fuel d chars start offset st accept end_ out <> Internal err.
Proof.
  destruct d as [[trs accepts] e]. intros (Hacc & Herr & H0 & Hpick). subst accepts.
  induction fuel as [|fuel IH]; intros chars start offset st accept end_ out err Hsig (q & Hq); cbn [scan_loop_fx];
    [discriminate|].
  pose proof (index_of_0 _ _ _ Hq) as Hnq. rewrite nth_error_map, Hnq. cbn [option_map].
  destruct (nth_error chars offset) as [ch|] eqn:Ech.
  - assert (Hc : in_sigma ch) by (rewrite Forall_forall in Hsig; eapply Hsig, nth_error_In; eauto).
    destruct (Hpick q st ch Hq Hc) as (m & Hm & Hmi). rewrite Hm. cbn [bind].
    destruct (m =? e)%nat.
    + destruct ((if nullable q then true else accept) && _).
      * apply IH; auto. exists r. exact H0.
      * destruct (start <? S offset)%nat; discriminate.
    + apply IH; auto. eauto.
  - cbn [bind]. rewrite Nat.eqb_refl.
    destruct ((if nullable q then true else accept) && _).
    + apply IH; auto. exists r. exact H0.
    + destruct (start <? offset)%nat; discriminate.
Qed.

Theorem scan_fx_correct fuel fuel2 r d chars :
  re_canon r -> compile_fx fuel r = Ok d -> Forall in_sigma chars ->
  match scan_fx fuel2 d chars with
  | Ok toks => munch (L r) chars toks /\ concat toks = chars
  | Diag _ => forall toks, ~ munch (L r) chars toks
  | Internal _ => False
  | OutOfFuel => True
  end.
Proof.
  intros Hr Hc Hsig. destruct (compile_fx_tables fuel r d Hr Hc) as (states & Hok).
  assert (H0 : index_of (derivs r []) states O = Some O).
  { destruct d as [[trs accepts] e]. destruct Hok as (_ & _ & H0 & _). exact H0. }
  assert (Hseen0 : seen r [] [] false O).
  { unfold seen. intros x y E Hy. symmetry in E. apply app_eq_nil in E. destruct E. contradiction. }
  destruct (scan_fx fuel2 d chars) as [toks|code|err|] eqn:E; unfold scan_fx in E.
  - change chars with ([] ++ [] ++ chars) in E at 1.
    change O with (length (@nil Z)) in E at 1. change O with (length (@nil Z) + length (@nil Z))%nat in E at 2.
    eapply (scan_loop_fx_munch r states d Hok) in E; eauto.
    destruct E as (toks' & -> & Hm). cbn [app] in *. split; [assumption|]. eapply munch_concat; eauto.
  - intros toks. change chars with ([] ++ [] ++ chars) in E at 1.
    change O with (length (@nil Z)) in E at 1. change O with (length (@nil Z) + length (@nil Z))%nat in E at 2.
    eapply (scan_loop_fx_diag r states d Hok) in E; eauto.
  - eapply (scan_fx_no_internal r states d Hok); [exact Hsig| |exact E]. exists r. exact H0.
  - exact I.
Qed.
