(* Proofs/C17_codec.v — layer 1 of C17: what the gABI reader (Spec/ElfSpec.v) decodes from the
   bytes the model (Model/ElfWriter.v) packs.  Unbounded: every value, every layout.
     pack / fdec          one field
     serialize / decode_fields   one structure, any layout whose fields are packed in the declared order
     read_table           a contiguous table of structures located anywhere in a file
     get_string / strtab_get     string table entries
   plus the facts about the generated layouts (Gen/Tab_elf.v). *)
From PV Require Import Lib.Py Lib.Tac Gen.Tab_elf Model.ElfWriter Spec.ElfSpec.
From Coq Require Import String Ascii.
Open Scope Z_scope.
Local Notation length := List.length (only parsing).
Local Notation concat := List.concat (only parsing).

(* ------------------------------------------------------------------ little-endian digits *)
Lemma le_bytes_length n v : length (le_bytes n v) = n.
Proof. revert v; induction n as [|n IH]; intros v; cbn; [reflexivity|now rewrite IH]. Qed.

Lemma le_val_le_bytes n v : le_val (le_bytes n v) = v mod 2 ^ (8 * Z.of_nat n).
Proof.
  revert v; induction n as [|n IH]; intros v.
  - cbn. now rewrite Z.mod_1_r.
  - cbn [le_bytes le_val]. rewrite IH.
    replace (8 * Z.of_nat (S n)) with (8 + 8 * Z.of_nat n) by lia.
    rewrite Z.pow_add_r by lia. change (2 ^ 8) with 256.
    rewrite Z.rem_mul_r by lia. lia.
Qed.

Lemma uint_order be l : uint be (if be then rev l else l) = le_val l.
Proof. unfold uint. destruct be; [now rewrite rev_involutive|reflexivity]. Qed.

Lemma order_length (be : bool) (l : list Z) : length (if be then rev l else l) = length l.
Proof. destruct be; [apply rev_length|reflexivity]. Qed.

(* model format character -> field type of the reader *)
Definition fty_of (c : string) : fty :=
  match fmt_info c with
  | Some (n, false) => FU n
  | Some (n, true) => FS n
  | None => FU 0
  end.

Lemma pack_fdec be c v bs :
  pack be c v = Ok bs -> fmt_info c <> None ->
  length bs = fsize (fty_of c) /\ fdec be (fty_of c) bs = v.
Proof.
  unfold pack, fty_of. destruct (fmt_info c) as [[n sg]|] eqn:E; [|congruence]. intros H _.
  destruct ((if sg then - 2 ^ (8 * Z.of_nat n - 1) else 0) <=? v) eqn:Hlo; [|discriminate].
  destruct (v <? (if sg then 2 ^ (8 * Z.of_nat n - 1) else 2 ^ (8 * Z.of_nat n))) eqn:Hhi; [|discriminate].
  cbn [andb] in H. injection H as <-.
  assert (Hn : (0 < n)%nat).
  { unfold fmt_info in E. repeat match type of E with (if ?b then _ else _) = _ => destruct b end;
      try discriminate; injection E as <- <-; lia. }
  destruct sg; cbn [fsize fdec]; (split; [now rewrite order_length, le_bytes_length|]).
  - unfold sint. rewrite uint_order, le_val_le_bytes.
    unfold zlen. rewrite order_length, le_bytes_length.
    set (w := 8 * Z.of_nat n) in *.
    assert (Hw : 2 ^ w = 2 * 2 ^ (w - 1)).
    { replace w with (1 + (w - 1)) at 1 by lia. rewrite Z.pow_add_r by lia. reflexivity. }
    assert (0 < 2 ^ (w - 1)) by (apply Z.pow_pos_nonneg; lia).
    destruct (Z.leb_spec 0 v).
    + rewrite Z.mod_small by lia. destruct (Z.ltb_spec v (2 ^ (w - 1))); lia.
    + replace (v mod 2 ^ w) with (v + 2 ^ w).
      * destruct (Z.ltb_spec (v + 2 ^ w) (2 ^ (w - 1))); lia.
      * apply Z.mod_unique_pos with (q := -1); lia.
  - rewrite uint_order, le_val_le_bytes. apply Z.mod_small. lia.
Qed.

(* ------------------------------------------------------------------ structures *)
Definition fname (f : string * string * bool) : string := fst (fst f).
Definition spec_layout (L : layout) : list fty := map (fun f => fty_of (snd (fst f))) L.
(* every field has a known format and is packed in byte order [be] (1-byte fields: any) *)
Definition layout_good (be : bool) (L : layout) : bool :=
  forallb (fun f => match fmt_info (snd (fst f)) with
                    | Some (n, _) => (Nat.eqb n 1) || Bool.eqb (snd f) be
                    | None => false end) L.

Lemma rev_single (l : list Z) : length l = 1%nat -> rev l = l.
Proof. destruct l as [|a [|b r]]; cbn; intros; try discriminate; reflexivity. Qed.

Lemma pack_be_irrelevant b1 b2 c v :
  (match fmt_info c with Some (n, _) => (Nat.eqb n 1) || Bool.eqb b1 b2 | None => false end) = true ->
  pack b1 c v = pack b2 c v.
Proof.
  unfold pack. destruct (fmt_info c) as [[n sg]|]; [|discriminate]. intros H.
  destruct (Nat.eqb_spec n 1) as [->|Hn]; cbn [orb] in H.
  - destruct (_ && _); [|reflexivity]. f_equal.
    assert (E : rev (le_bytes 1 v) = le_bytes 1 v) by (apply rev_single, le_bytes_length).
    destruct b1, b2; cbn; congruence.
  - apply Bool.eqb_prop in H. now subst.
Qed.

Lemma layout_size_spec L : layout_good true L = true \/ layout_good false L = true ->
  layout_size L = Z.of_nat (lsize (spec_layout L)).
Proof.
  intros H. induction L as [|[[n c] b] L IH]; [reflexivity|].
  cbn [layout_size spec_layout map lsize fst snd].
  assert (Hc : fmt_info c <> None /\ (layout_good true L = true \/ layout_good false L = true)).
  { destruct H as [H|H]; cbn [layout_good forallb fst snd] in H; apply andb_prop in H as [H1 H2];
      (split; [destruct (fmt_info c); [discriminate|discriminate H1]|auto]). }
  destruct Hc as [Hc HL]. rewrite IH by exact HL. unfold spec_layout, fty_of.
  destruct (fmt_info c) as [[k [|]]|]; [| |congruence]; cbn [fsize]; lia.
Qed.

Lemma serialize_decode be L h bs :
  serialize L h = Ok bs -> layout_good be L = true ->
  length bs = lsize (spec_layout L) /\
  decode_fields be (spec_layout L) bs = map (fun f => hget h (fname f)) L.
Proof.
  revert bs; induction L as [|[[n c] b] L IH]; intros bs H G.
  - injection H as <-. split; reflexivity.
  - cbn [serialize] in H. cbn [layout_good forallb fst snd] in G. apply andb_prop in G as [G1 G2].
    destruct (pack b c (hget h n)) as [x| | |] eqn:P; try discriminate. cbn [bind] in H.
    destruct (serialize L h) as [xs| | |] eqn:Sx; try discriminate. cbn [bind] in H. injection H as <-.
    rewrite (pack_be_irrelevant b be) in P by exact G1.
    assert (Hc : fmt_info c <> None) by (destruct (fmt_info c); [discriminate|discriminate G1]).
    destruct (pack_fdec _ _ _ _ P Hc) as [Lx Dx].
    destruct (IH xs eq_refl G2) as [Lxs Dxs].
    cbn [spec_layout map lsize decode_fields fst snd fname]. fold (spec_layout L).
    rewrite app_length, Lx, Lxs. split; [reflexivity|].
    rewrite <- Lx.
    rewrite firstn_app, Nat.sub_diag, firstn_all, app_nil_r.
    rewrite skipn_app, Nat.sub_diag, skipn_all. cbn [app skipn]. now rewrite Dx, Dxs.
Qed.

(* ------------------------------------------------------------------ located chunks of a file *)
Definition at_ (bs : list Z) (off : Z) (x : list Z) : Prop :=
  exists pre post, bs = pre ++ x ++ post /\ zlen pre = off.

Lemma at_app_r bs b off x : at_ bs off x -> at_ (bs ++ b) off x.
Proof. intros (pre & post & -> & E). exists pre, (post ++ b). now rewrite <- !app_assoc. Qed.

Lemma at_here pre x : at_ (pre ++ x) (zlen pre) x.
Proof. exists pre, []. now rewrite app_nil_r. Qed.

Lemma at_split bs off x y : at_ bs off (x ++ y) -> at_ bs off x /\ at_ bs (off + zlen x) y.
Proof.
  intros (pre & post & -> & E). split.
  - exists pre, (y ++ post). now rewrite <- app_assoc.
  - exists (pre ++ x), post. rewrite <- !app_assoc. split; [reflexivity|].
    unfold zlen in *. rewrite app_length. lia.
Qed.

Lemma at_slice bs off x : at_ bs off x -> slice bs off (zlen x) = Some x.
Proof.
  intros (pre & post & -> & E). unfold slice, zlen in *. rewrite !app_length.
  assert (Ho : Z.to_nat off = length pre) by lia.
  replace ((0 <=? off) && (0 <=? Z.of_nat (length x))
           && (off + Z.of_nat (length x) <=? Z.of_nat (length pre + (length x + length post)))) with true
    by (symmetry; lia).
  rewrite Ho, Nat2Z.id, skipn_app, Nat.sub_diag, skipn_all. cbn [app skipn].
  now rewrite firstn_app, Nat.sub_diag, firstn_all, app_nil_r.
Qed.

Lemma at_byte bs off x i b : at_ bs off x -> nth_error x i = Some b ->
  byte_at bs (off + Z.of_nat i) = Some b.
Proof.
  intros (pre & post & -> & E) Hn. unfold byte_at, zlen in *.
  destruct (Z.ltb_spec (off + Z.of_nat i) 0); [lia|].
  replace (Z.to_nat (off + Z.of_nat i)) with (length pre + i)%nat by lia.
  rewrite nth_error_app2 by lia. replace (length pre + i - length pre)%nat with i by lia.
  rewrite nth_error_app1; [exact Hn|]. apply nth_error_Some. congruence.
Qed.

(* a table of structures *)
Lemma read_struct_at be L bs off c :
  at_ bs off c -> length c = lsize L -> read_struct be L bs off = Some (decode_fields be L c).
Proof.
  intros H E. unfold read_struct. apply at_slice in H. unfold zlen in H. rewrite E in H.
  now rewrite H.
Qed.

Lemma read_table_at be L bs chunks : forall off,
  at_ bs off (concat chunks) -> Forall (fun c => length c = lsize L) chunks ->
  read_table be L bs off (zlen chunks) = Some (map (decode_fields be L) chunks).
Proof.
  unfold read_table, zlen. destruct (Z.ltb_spec (Z.of_nat (length chunks)) 0) as [Hneg|_]; [lia|].
  rewrite Nat2Z.id. induction chunks as [|c r IH]; intros off H F; [reflexivity|].
  inversion F as [|? ? Fc Fr]; subst. cbn [concat] in H. apply at_split in H as [H1 H2].
  cbn [length read_table_n map]. rewrite (read_struct_at _ _ _ _ _ H1 Fc). cbn [obind].
  unfold zlen in H2. rewrite Fc in H2. rewrite (IH _ H2 Fr). reflexivity.
Qed.

(* ------------------------------------------------------------------ string tables *)
Definition nul_free (s : string) : bool := forallb (fun b => negb (b =? 0)) (str_bytes s).
Definition strtab_at (tab : list Z) (i : Z) (txt : string) : Prop :=
  exists pre post, tab = pre ++ str_bytes txt ++ 0 :: post /\ zlen pre = i.

Lemma strtab_at_app tab ext i txt : strtab_at tab i txt -> strtab_at (tab ++ ext) i txt.
Proof.
  intros (pre & post & -> & E). exists pre, (post ++ ext). split; [|exact E].
  now rewrite <- !app_assoc.
Qed.

Lemma cstr_app l post : forallb (fun b => negb (b =? 0)) l = true -> cstr (l ++ 0 :: post) = Some l.
Proof.
  induction l as [|b l IH]; intros H; [reflexivity|].
  cbn [forallb] in H. apply andb_prop in H as [H1 H2]. cbn [app cstr].
  destruct (b =? 0); [discriminate|]. now rewrite IH.
Qed.

Lemma strtab_get_at tab i txt :
  strtab_at tab i txt -> nul_free txt = true -> strtab_get tab i = Some (str_bytes txt).
Proof.
  intros (pre & post & -> & E) N. unfold strtab_get, zlen in *. rewrite !app_length. cbn [length].
  replace ((0 <=? i) && (i <? Z.of_nat (length pre + (length (str_bytes txt) + S (length post))))) with true
    by (symmetry; lia).
  replace (Z.to_nat i) with (length pre) by lia.
  rewrite skipn_app, Nat.sub_diag, skipn_all. cbn [app skipn]. now apply cstr_app.
Qed.

(* the invariant of StringTable: every recorded name sits at its recorded offset *)
Definition names_inv (s : wst) : Prop :=
  forall txt i, sget (w_names s) txt = Some i -> strtab_at (w_strtab s) i txt.

Lemma String_eqb_eq a b : String.eqb a b = true -> a = b.
Proof. apply String.eqb_eq. Qed.

Lemma get_string_spec s txt i s' :
  get_string s txt = Ok (i, s') -> names_inv s ->
  names_inv s' /\ strtab_at (w_strtab s') i txt /\ (exists ext, w_strtab s' = w_strtab s ++ ext) /\
  w_buf s' = w_buf s /\ w_shdrs s' = w_shdrs s /\ w_secnums s' = w_secnums s /\ w_phdrs s' = w_phdrs s /\
  w_symmap s' = w_symmap s /\ w_eh s' = w_eh s.
Proof.
  unfold get_string. intros H I. destruct (sget (w_names s) txt) as [j|] eqn:E.
  - injection H as <- <-. repeat split; auto. exists []. now rewrite app_nil_r.
  - destruct (encode_ascii txt) as [b| | |] eqn:A; try discriminate. cbn [bind] in H. injection H as <- <-.
    assert (Hb : b = str_bytes txt).
    { unfold encode_ascii in A. destruct (forallb _ _); [now injection A|discriminate]. }
    subst b. cbn. repeat split; auto.
    + intros t j Hj. cbn in Hj |- *. destruct (String.eqb txt t) eqn:Et.
      * apply String_eqb_eq in Et. subst t. injection Hj as <-.
        exists (w_strtab s), []. split; reflexivity.
      * apply strtab_at_app. now apply I.
    + exists (w_strtab s), []. split; reflexivity.
    + eexists; reflexivity.
Qed.

(* ------------------------------------------------------------------ the generated layouts *)
Definition names_of (L : layout) : list string := map fname L.

Definition ehdr_names := ["e_type"; "e_machine"; "e_version"; "e_entry"; "e_phoff"; "e_shoff"; "e_flags";
  "e_ehsize"; "e_phentsize"; "e_phnum"; "e_shentsize"; "e_shnum"; "e_shstrndx"]%string.
Definition shdr_names := ["sh_name"; "sh_type"; "sh_flags"; "sh_addr"; "sh_offset"; "sh_size"; "sh_link";
  "sh_info"; "sh_addralign"; "sh_entsize"]%string.
Definition phdr_names (c64 : bool) :=
  (if c64 then ["p_type"; "p_flags"; "p_offset"; "p_vaddr"; "p_paddr"; "p_filesz"; "p_memsz"; "p_align"]
   else ["p_type"; "p_offset"; "p_vaddr"; "p_paddr"; "p_filesz"; "p_memsz"; "p_flags"; "p_align"])%string.
Definition sym_names (c64 : bool) :=
  (if c64 then ["st_name"; "st_info"; "st_other"; "st_shndx"; "st_value"; "st_size"]
   else ["st_name"; "st_value"; "st_size"; "st_info"; "st_other"; "st_shndx"])%string.
Definition rela_names := ["r_offset"; "r_info"; "r_addend"]%string.

(* a HeaderTypes instance lays its structures out as the gABI says, in its declared byte order *)
Record ht_ok (ht : htypes) : Prop := {
  ok_bits : ht_bits ht = 32 \/ ht_bits ht = 64;
  ok_eh : names_of (ht_ehdr ht) = ehdr_names /\ spec_layout (ht_ehdr ht) = ehdr_layout (ht_bits ht =? 64)
          /\ layout_good (ht_big ht) (ht_ehdr ht) = true;
  ok_sh : names_of (ht_shdr ht) = shdr_names /\ spec_layout (ht_shdr ht) = shdr_layout (ht_bits ht =? 64)
          /\ layout_good (ht_big ht) (ht_shdr ht) = true;
  ok_ph : names_of (ht_phdr ht) = phdr_names (ht_bits ht =? 64)
          /\ spec_layout (ht_phdr ht) = phdr_layout (ht_bits ht =? 64)
          /\ layout_good (ht_big ht) (ht_phdr ht) = true;
  ok_sy : names_of (ht_sym ht) = sym_names (ht_bits ht =? 64)
          /\ spec_layout (ht_sym ht) = sym_layout (ht_bits ht =? 64)
          /\ layout_good (ht_big ht) (ht_sym ht) = true;
  ok_rl : names_of (ht_rela ht) = rela_names /\ spec_layout (ht_rela ht) = rela_layout (ht_bits ht =? 64)
          /\ layout_good (ht_big ht) (ht_rela ht) = true }.

(* the fields are packed in the byte order EI_DATA announces *)
Definition ht_consistent (ht : htypes) : bool :=
  layout_good (ht_big ht) (ht_ehdr ht) && layout_good (ht_big ht) (ht_shdr ht)
  && layout_good (ht_big ht) (ht_phdr ht) && layout_good (ht_big ht) (ht_sym ht)
  && layout_good (ht_big ht) (ht_rela ht).

Lemma ht_ok_consistent ht : ht_ok ht -> ht_consistent ht = true.
Proof.
  intros [_ (_ & _ & A) (_ & _ & B) (_ & _ & C) (_ & _ & D) (_ & _ & E)].
  unfold ht_consistent. now rewrite A, B, C, D, E.
Qed.

Lemma tab_le32_ok : exists ht, get_htypes 32 false = Ok ht /\ ht_ok ht.
Proof. eexists; split; [reflexivity|]. constructor; cbn; auto. Qed.
Lemma tab_le64_ok : exists ht, get_htypes 64 false = Ok ht /\ ht_ok ht.
Proof. eexists; split; [reflexivity|]. constructor; cbn; auto. Qed.

(* every arch of write_elf: its HeaderTypes follow the gABI, or (big-endian arches only) its fields are
   not packed in the announced byte order — the defect fixes/C17-header-endianness.diff repairs *)
Lemma tab_arches_ok :
  forall name bits big x, In (name, (bits, big, x)) elf_arch_table ->
  exists ht, get_htypes bits big = Ok ht /\ (ht_ok ht \/ (big = true /\ ht_consistent ht = false)).
Proof.
  intros name bits big x H. cbn in H.
  repeat (destruct H as [H|H]; [injection H as <- <- <- <-;
    (eexists; split; [reflexivity|];
     first [left; constructor; cbn; solve [auto] | right; split; reflexivity])|]).
  contradiction.
Qed.

(* structure views used by the reader-side statements *)
Definition shdr_of (h : hdr) : shdr :=
  {| sh_name := hget h "sh_name"; sh_type := hget h "sh_type"; sh_flags := hget h "sh_flags";
     sh_addr := hget h "sh_addr"; sh_offset := hget h "sh_offset"; sh_size := hget h "sh_size";
     sh_link := hget h "sh_link"; sh_info := hget h "sh_info"; sh_addralign := hget h "sh_addralign";
     sh_entsize := hget h "sh_entsize" |}.
Definition sym_of (h : hdr) : sym :=
  {| st_name := hget h "st_name"; st_info := hget h "st_info"; st_other := hget h "st_other";
     st_shndx := hget h "st_shndx"; st_value := hget h "st_value"; st_size := hget h "st_size" |}.
Definition phdr_of (h : hdr) : phdr :=
  {| p_type := hget h "p_type"; p_flags := hget h "p_flags"; p_offset := hget h "p_offset";
     p_vaddr := hget h "p_vaddr"; p_paddr := hget h "p_paddr"; p_filesz := hget h "p_filesz";
     p_memsz := hget h "p_memsz"; p_align := hget h "p_align" |}.
Definition rela_of (c64 : bool) (h : hdr) : rela :=
  let k := if c64 then 2 ^ 32 else 2 ^ 8 in
  {| r_offset := hget h "r_offset"; r_sym := hget h "r_info" / k; r_type := hget h "r_info" mod k;
     r_addend := hget h "r_addend" |}.
Definition ehdr_of (c64 be : bool) (h : hdr) : ehdr :=
  {| e_class64 := c64; e_big := be; e_type := hget h "e_type"; e_machine := hget h "e_machine";
     e_version := hget h "e_version"; e_entry := hget h "e_entry"; e_phoff := hget h "e_phoff";
     e_shoff := hget h "e_shoff"; e_flags := hget h "e_flags"; e_ehsize := hget h "e_ehsize";
     e_phentsize := hget h "e_phentsize"; e_phnum := hget h "e_phnum"; e_shentsize := hget h "e_shentsize";
     e_shnum := hget h "e_shnum"; e_shstrndx := hget h "e_shstrndx" |}.

Lemma map_names L h : map (fun f => hget h (fname f)) L = map (hget h) (names_of L).
Proof. unfold names_of. now rewrite map_map. Qed.

(* what the reader decodes from one serialised structure of each kind *)
Section Structs.
  Variable ht : htypes.
  Hypothesis OK : ht_ok ht.
  Let c64 := ht_bits ht =? 64.
  Let be := ht_big ht.

  Lemma shdr_roundtrip h bs : serialize (ht_shdr ht) h = Ok bs ->
    length bs = lsize (shdr_layout c64) /\
    mk_shdr (decode_fields be (shdr_layout c64) bs) = Some (shdr_of h).
  Proof.
    intros H. destruct (ok_sh _ OK) as (N & Lq & G). destruct (serialize_decode be _ _ _ H G) as [Lb D].
    fold c64 in Lq. rewrite Lq in Lb, D. split; [exact Lb|]. rewrite D, map_names, N. reflexivity.
  Qed.

  Lemma sym_roundtrip h bs : serialize (ht_sym ht) h = Ok bs ->
    length bs = lsize (sym_layout c64) /\
    mk_sym c64 (decode_fields be (sym_layout c64) bs) = Some (sym_of h).
  Proof.
    intros H. destruct (ok_sy _ OK) as (N & Lq & G). destruct (serialize_decode be _ _ _ H G) as [Lb D].
    fold c64 in Lq, N. rewrite Lq in Lb, D. split; [exact Lb|]. rewrite D, map_names, N.
    destruct c64; reflexivity.
  Qed.

  Lemma phdr_roundtrip h bs : serialize (ht_phdr ht) h = Ok bs ->
    length bs = lsize (phdr_layout c64) /\
    mk_phdr c64 (decode_fields be (phdr_layout c64) bs) = Some (phdr_of h).
  Proof.
    intros H. destruct (ok_ph _ OK) as (N & Lq & G). destruct (serialize_decode be _ _ _ H G) as [Lb D].
    fold c64 in Lq, N. rewrite Lq in Lb, D. split; [exact Lb|]. rewrite D, map_names, N.
    destruct c64; reflexivity.
  Qed.

  Lemma rela_roundtrip h bs : serialize (ht_rela ht) h = Ok bs ->
    length bs = lsize (rela_layout c64) /\
    mk_rela c64 (decode_fields be (rela_layout c64) bs) = Some (rela_of c64 h).
  Proof.
    intros H. destruct (ok_rl _ OK) as (N & Lq & G). destruct (serialize_decode be _ _ _ H G) as [Lb D].
    fold c64 in Lq. rewrite Lq in Lb, D. split; [exact Lb|]. rewrite D, map_names, N. reflexivity.
  Qed.

  Lemma ehdr_roundtrip h bs : serialize (ht_ehdr ht) h = Ok bs ->
    length bs = lsize (ehdr_layout c64) /\
    mk_ehdr c64 be (decode_fields be (ehdr_layout c64) bs) = Some (ehdr_of c64 be h).
  Proof.
    intros H. destruct (ok_eh _ OK) as (N & Lq & G). destruct (serialize_decode be _ _ _ H G) as [Lb D].
    fold c64 in Lq. rewrite Lq in Lb, D. split; [exact Lb|]. rewrite D, map_names, N. reflexivity.
  Qed.
End Structs.

(* RELA info word: symbol index and type come back when the type fits its sub-field *)
Lemma rela_info_split k r_sym r_type : 0 <= k -> 0 <= r_type < 2 ^ k ->
  (Z.shiftl r_sym k + r_type) / 2 ^ k = r_sym /\ (Z.shiftl r_sym k + r_type) mod 2 ^ k = r_type.
Proof.
  intros Hk H. rewrite Z.shiftl_mul_pow2 by lia. split.
  - rewrite Z.div_add_l by lia. rewrite Z.div_small by lia. lia.
  - rewrite Z.add_comm, Z.mod_add by lia. apply Z.mod_small; lia.
Qed.
