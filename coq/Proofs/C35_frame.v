(* Proofs/C35_frame.v — framing: rsp_pack emits the spec frame; the decoder recognises a frame as
   exactly one message at its last byte; rsp_unpack restores the payload; bad checksums are
   negatively acknowledged.  Positive results need [esc_fix]; refutations are on [orig]. *)
From PV Require Import Lib.Py Lib.Tac Spec.RspSpec Model.Rsp.
Open Scope Z_scope.

(* ------------------------------------------------------------ list helpers *)
Lemma skipn_exact {A} (a t : list A) : skipn (length a) (a ++ t) = t.
Proof. induction a; cbn; auto. Qed.
Lemma firstn_exact {A} (a t : list A) : firstn (length a) (a ++ t) = a.
Proof. induction a; cbn; [reflexivity|now rewrite IHa]. Qed.
Lemma firstn_repeat_app {A} (x : A) k n t : (k <= n)%nat -> firstn k (repeat x n ++ t) = repeat x k.
Proof.
  revert n; induction k as [|k IH]; intros n H; [reflexivity|].
  destruct n as [|n]; [lia|]. cbn. f_equal. apply IH. lia.
Qed.
Lemma repeat_snoc {A} (x : A) n : repeat x n ++ [x] = x :: repeat x n.
Proof. induction n; cbn; [reflexivity|now rewrite IHn]. Qed.

(* ------------------------------------------------------------ rsp_pack = Spec.frame *)
Lemma replace1_app a x y : replace1 a (x ++ y) = replace1 a x ++ replace1 a y.
Proof. unfold replace1. apply flat_map_app. Qed.

Lemma replace_chain_pointwise c :
  replace1 36 (replace1 35 (replace1 42 (if c =? 125 then [125; Z.lxor 125 32] else [c]))) = esc1 c.
Proof.
  unfold esc1, special.
  destruct (Z.eqb_spec c 125) as [->|N1]; [reflexivity|].
  destruct (Z.eqb_spec c 42) as [->|N2]; [reflexivity|].
  destruct (Z.eqb_spec c 35) as [->|N3]; [reflexivity|].
  destruct (Z.eqb_spec c 36) as [->|N4]; [reflexivity|].
  unfold replace1. cbn [flat_map app orb].
  apply Z.eqb_neq in N2, N3, N4.
  rewrite N2. cbn [flat_map app]. rewrite N3. cbn [flat_map app]. rewrite N4. reflexivity.
Qed.

Lemma replace_chain p :
  replace1 36 (replace1 35 (replace1 42 (replace1 125 p))) = escape p.
Proof.
  induction p as [|c p IH]; [reflexivity|].
  change (replace1 125 (c :: p)) with
    ((if c =? 125 then [125; Z.lxor 125 32] else [c]) ++ replace1 125 p).
  rewrite !replace1_app, IH, replace_chain_pointwise. reflexivity.
Qed.

Lemma rsp_pack_frame p : rsp_pack p = frame p.
Proof.
  unfold rsp_pack, frame. cbn [fold_left]. rewrite replace_chain. reflexivity.
Qed.

(* ------------------------------------------------------------ facts about escaping *)
Lemma special_cases c :
  (special c = true /\ (c = 35 \/ c = 36 \/ c = 125 \/ c = 42)) \/
  (special c = false /\ c <> 35 /\ c <> 36 /\ c <> 125 /\ c <> 42).
Proof. unfold special. lia. Qed.

Lemma escape_no_hash p : ~ In 35 (escape p).
Proof.
  induction p as [|c p IH]; [intros []|].
  cbn [escape flat_map]. fold (escape p). intros H. apply in_app_or in H as [H|H]; [|auto].
  unfold esc1 in H.
  destruct (special_cases c) as [[S [E|[E|[E|E]]]]|[S N]]; rewrite S in H; subst; cbn in H;
    intuition lia.
Qed.

Lemma escape_ascii p :
  forallb is_ascii_b p = true -> forallb is_ascii_b (escape p) = true.
Proof.
  induction p as [|c p IH]; [reflexivity|].
  cbn [forallb escape flat_map]. fold (escape p). intros H.
  apply andb_prop in H as [Hc Hp]. rewrite forallb_app, (IH Hp), andb_true_r.
  unfold esc1.
  destruct (special_cases c) as [[-> [E|[E|[E|E]]]]|[-> N]]; subst; cbn; try reflexivity.
  now rewrite Hc.
Qed.

Lemma lxor32_invol c : Z.lxor (Z.lxor c 32) 32 = c.
Proof. now rewrite Z.lxor_assoc, Z.lxor_nilpotent, Z.lxor_0_r. Qed.

Lemma spec_unescape_escape p : unescape (escape p) = Some p.
Proof.
  induction p as [|c p IH]; [reflexivity|].
  cbn [escape flat_map]. fold (escape p). unfold esc1.
  destruct (special_cases c) as [[-> _]|[-> (N1 & N2 & N3 & N4)]].
  - cbn [app unescape]. cbn [Z.eqb Pos.eqb]. rewrite IH. cbn. now rewrite lxor32_invol.
  - cbn [app unescape]. apply Z.eqb_neq in N3. rewrite N3, IH. reflexivity.
Qed.

(* the model's unescape loop computes the spec's partial function *)
Lemma unesc_loop_spec l :
  (forall data, unesc_loop l false data =
      match unescape l with Some p => Ok (data ++ p) | None => Diag 3 end) /\
  (forall data, unesc_loop l true data =
      match l with
      | [] => Diag 3
      | d :: r => match unescape r with Some p => Ok (data ++ Z.lxor d 32 :: p) | None => Diag 3 end
      end).
Proof.
  induction l as [|c r [IH1 IH2]]; split; intros data.
  - cbn. now rewrite app_nil_r.
  - reflexivity.
  - cbn [unesc_loop unescape]. destruct (c =? 125).
    + rewrite IH2. destruct r as [|d r']; [reflexivity|].
      destruct (unescape r'); reflexivity.
    + rewrite IH1. destruct (unescape r); cbn; [|reflexivity].
      now rewrite <- app_assoc.
  - cbn [unesc_loop]. rewrite IH1. destruct (unescape r); [|reflexivity].
    now rewrite <- app_assoc.
Qed.

Lemma unesc_loop_ok l p : unescape l = Some p -> unesc_loop l false [] = Ok p.
Proof. intros H. rewrite (proj1 (unesc_loop_spec l)), H. reflexivity. Qed.

(* ------------------------------------------------------------ hex digits *)
Lemma hexv_hexval c : hexv c = hexval c.
Proof. reflexivity. Qed.

Lemma int16_2_hex h1 h2 a b :
  hexval h1 = Some a -> hexval h2 = Some b -> int16_2 h1 h2 = Some (16 * a + b).
Proof. intros H1 H2. unfold int16_2. change hexv with hexval. rewrite H1, H2. reflexivity. Qed.

Lemma hexdigit_of_hexval h a : hexval h = Some a -> is_hexdigit h = true.
Proof. intros H. unfold is_hexdigit. change hexv with hexval. now rewrite H. Qed.

Lemma hex_guard_ok cf h1 h2 a b : hexval h1 = Some a -> hexval h2 = Some b ->
  hex_fix cf && negb (is_hexdigit h1 && is_hexdigit h2) = false.
Proof.
  intros H1 H2. rewrite (hexdigit_of_hexval _ _ H1), (hexdigit_of_hexval _ _ H2).
  cbn. apply andb_false_r.
Qed.

Definition hex2_ok (c : Z) : bool :=
  match hex2 c with
  | [h1; h2] =>
      match hexval h1, hexval h2 with
      | Some a, Some b => (16 * a + b =? c) && is_ascii_b h1 && is_ascii_b h2
      | _, _ => false
      end
  | _ => false
  end.

Lemma hex2_ok_all : forallb hex2_ok (rangeZ 0 256) = true.
Proof. vm_compute. reflexivity. Qed.

Lemma hex2_spec c : 0 <= c < 256 ->
  exists h1 h2 a b, hex2 c = [h1; h2] /\ hexval h1 = Some a /\ hexval h2 = Some b /\
                    16 * a + b = c /\ is_ascii_b h1 = true /\ is_ascii_b h2 = true.
Proof.
  intros H. pose proof hex2_ok_all as A. rewrite forallb_forall in A.
  specialize (A c (proj2 (rangeZ_In 0 256 c) H)). unfold hex2_ok in A.
  destruct (hex2 c) as [|h1 [|h2 [|? ?]]]; try discriminate.
  destruct (hexval h1) as [a|] eqn:E1; [|discriminate].
  destruct (hexval h2) as [b|] eqn:E2; [|discriminate].
  apply andb_prop in A as [A A3]. apply andb_prop in A as [A1 A2].
  exists h1, h2, a, b. repeat split; auto. lia.
Qed.

(* ------------------------------------------------------------ frame is a frame *)
Lemma frame_is_frame p : is_frame_of (frame p) p.
Proof.
  unfold frame.
  assert (Hc : 0 <= checksum (escape p) < 256) by (unfold checksum; lia).
  destruct (hex2_spec _ Hc) as (h1 & h2 & a & b & E & H1 & H2 & Hv & _).
  exists (escape p), h1, h2, a, b. rewrite E.
  repeat split; auto using escape_no_hash, spec_unescape_escape.
Qed.

(* ------------------------------------------------------------ rsp_unpack on the packet shape *)
Lemma len_app_cons (body : list Z) x t : len (x :: body ++ t) = len body + len t + 1.
Proof. unfold len. cbn [length]. rewrite app_length. lia. Qed.

Lemma unpack_shape cf body h1 h2 :
  rsp_unpack cf (36 :: body ++ [35; h1; h2]) =
  if hex_fix cf && negb (is_hexdigit h1 && is_hexdigit h2) then Diag 2 else
  match int16_2 h1 h2 with
  | None => Diag 2
  | Some crc2 =>
      if negb (sumZ body mod 256 =? crc2) then Diag 2
      else if esc_fix cf then unesc_loop body false [] else Ok body
  end.
Proof.
  unfold rsp_unpack.
  assert (L : len (36 :: body ++ [35; h1; h2]) = len body + 4)
    by (rewrite len_app_cons; unfold len; cbn; lia).
  assert (Hn : 0 <= len body) by (unfold len; lia).
  (* pkt[0] *)
  replace (idx (36 :: body ++ [35; h1; h2]) 0) with (Some 36) by reflexivity.
  cbn [Z.eqb Pos.eqb negb].
  (* pkt[-3] *)
  assert (I3 : idx (36 :: body ++ [35; h1; h2]) (-3) = Some 35).
  { unfold idx. replace (-3 <? 0) with true by reflexivity. rewrite L.
    destruct (Z.ltb_spec (len body + 4 + -3) 0); [lia|].
    replace (Z.to_nat (len body + 4 + -3)) with (S (length body)) by (unfold len; lia).
    cbn [nth_error]. rewrite nth_error_app2 by lia. now rewrite Nat.sub_diag. }
  rewrite I3. cbn [Z.eqb Pos.eqb negb].
  (* pkt[1:-3] *)
  assert (S1 : py_slice (36 :: body ++ [35; h1; h2]) 1 (-3) = body).
  { unfold py_slice, norm_bound. rewrite L.
    replace (1 <? 0) with false by reflexivity. replace (-3 <? 0) with true by reflexivity.
    replace (Z.min 1 (len body + 4)) with 1 by lia.
    replace (Z.max (len body + 4 + -3) 0 - 1) with (len body) by lia.
    replace (Z.to_nat 1) with 1%nat by reflexivity. cbn [skipn].
    unfold len. rewrite Nat2Z.id. apply firstn_exact. }
  rewrite S1.
  (* pkt[-2:] *)
  assert (S2 : py_slice_from (36 :: body ++ [35; h1; h2]) (-2) = [h1; h2]).
  { unfold py_slice_from, norm_bound. rewrite L. replace (-2 <? 0) with true by reflexivity.
    replace (Z.to_nat (Z.max (len body + 4 + -2) 0)) with (S (length (body ++ [35])))
      by (rewrite app_length; unfold len; cbn; lia).
    cbn [skipn]. change (body ++ [35; h1; h2]) with (body ++ [35] ++ [h1; h2]).
    rewrite app_assoc. apply skipn_exact. }
  rewrite S2. reflexivity.
Qed.

(* ------------------------------------------------------------ the decoder on a packet *)
Fixpoint dec_feed (cf : cfg) (st : dstate) (bs : list Z) : dstate * list dout :=
  match bs with
  | [] => (st, [])
  | b :: r =>
      let '(s1, o) := dec_step cf st b in
      let '(s2, os) := dec_feed cf s1 r in
      (s2, o :: os)
  end.

Lemma dec_feed_app cf st a b :
  dec_feed cf st (a ++ b) =
  let '(s1, o1) := dec_feed cf st a in
  let '(s2, o2) := dec_feed cf s1 b in (s2, o1 ++ o2).
Proof.
  revert st; induction a as [|x a IH]; intros st; cbn [app dec_feed].
  - destruct (dec_feed cf st b); reflexivity.
  - destruct (dec_step cf st x) as [s1 o]. rewrite IH.
    destruct (dec_feed cf s1 a) as [s2 o1]. destruct (dec_feed cf s2 b). reflexivity.
Qed.

Lemma dec_feed_length cf bs : forall st, length (snd (dec_feed cf st bs)) = length bs.
Proof.
  induction bs as [|b r IH]; intros st; cbn [dec_feed]; [reflexivity|].
  destruct (dec_step cf st b) as [s1 o]. specialize (IH s1).
  destruct (dec_feed cf s1 r). cbn in *. now rewrite IH.
Qed.

Lemma dec_feed_pkt cf body : ~ In 35 body -> forall acc,
  dec_feed cf (DPkt acc) body = (DPkt (acc ++ body), repeat DNone (length body)).
Proof.
  induction body as [|b r IH]; intros Hn acc.
  - cbn. now rewrite app_nil_r.
  - cbn [dec_feed dec_step].
    assert (Hb : b =? 35 = false) by (apply Z.eqb_neq; intros ->; apply Hn; now left).
    rewrite Hb. cbn [andb]. rewrite IH by (intros H; apply Hn; now right).
    rewrite <- app_assoc. reflexivity.
Qed.

Lemma dec_frame cf body h1 h2 :
  esc_fix cf = true -> ~ In 35 body ->
  dec_fix cf || forallb is_ascii_b (36 :: body ++ [35; h1; h2]) = true ->
  dec_feed cf DIdle (36 :: body ++ [35; h1; h2]) =
  (DIdle, repeat DNone (length body + 3) ++ [DMsg (36 :: body ++ [35; h1; h2])]).
Proof.
  intros He Hn Ha.
  cbn [dec_feed]. replace (dec_step cf DIdle 36) with (DPkt [36], DNone) by reflexivity.
  rewrite dec_feed_app, (dec_feed_pkt cf body Hn).
  cbn [dec_feed dec_step]. rewrite He. cbn [Z.eqb Pos.eqb orb andb]. cbn [dec_step].
  replace (((([36] ++ body) ++ [35]) ++ [h1]) ++ [h2]) with (36 :: body ++ [35; h1; h2])
    by (cbn; rewrite <- !app_assoc; reflexivity).
  rewrite Ha. f_equal.
  replace (length body + 3)%nat with (S (length body + 2)) by lia.
  cbn [repeat app]. f_equal. rewrite repeat_app. cbn [repeat]. rewrite <- app_assoc. reflexivity.
Qed.

(* ------------------------------------------------------------ receiver events *)
Definition ev_of (cf : cfg) (o : dout) : rxev :=
  match o with
  | DNone => RNone
  | DCrash => RCrash
  | DMsg m => match is_ack_msg m with Some c => RAck c | None => decodepkt cf m end
  end.

Lemma rx_feed_dec cf bs : forall d,
  rx_feed cf d bs = (fst (dec_feed cf d bs), map (ev_of cf) (snd (dec_feed cf d bs))).
Proof.
  induction bs as [|b r IH]; intros d; [reflexivity|].
  cbn [rx_feed dec_feed]. unfold process_byte.
  destruct (dec_step cf d b) as [d1 o].
  assert (E : forall e, (let '(d2, es) := rx_feed cf d1 r in (d2, e :: es)) =
              (fst (dec_feed cf d1 r), e :: map (ev_of cf) (snd (dec_feed cf d1 r))))
    by (intros e; rewrite IH; reflexivity).
  destruct (dec_feed cf d1 r) as [d2 os]. cbn [fst snd map ev_of] in *.
  destruct o; cbn [ev_of]; try apply E. destruct (is_ack_msg m); apply E.
Qed.

Lemma rx_feed_app cf a b d :
  rx_feed cf d (a ++ b) =
  let '(d1, e1) := rx_feed cf d a in
  let '(d2, e2) := rx_feed cf d1 b in (d2, e1 ++ e2).
Proof.
  rewrite (rx_feed_dec cf (a ++ b)), dec_feed_app, (rx_feed_dec cf a).
  destruct (dec_feed cf d a) as [d1 o1]. cbn [fst snd]. rewrite (rx_feed_dec cf b).
  destruct (dec_feed cf d1 b) as [d2 o2]. cbn [fst snd]. now rewrite map_app.
Qed.

Lemma map_repeat {A B} (f : A -> B) x n : map f (repeat x n) = repeat (f x) n.
Proof. induction n; cbn; [reflexivity|now rewrite IHn]. Qed.

Lemma length_shape (body : list Z) h1 h2 :
  Nat.sub (length (36 :: body ++ [35; h1; h2])) 1 = (length body + 3)%nat.
Proof. cbn [length]. rewrite app_length. cbn. lia. Qed.

(* a packet-shaped byte string: N silent bytes, then exactly one event decided by rsp_unpack *)
Lemma rx_packet cf body h1 h2 :
  esc_fix cf = true -> ~ In 35 body ->
  dec_fix cf || forallb is_ascii_b (36 :: body ++ [35; h1; h2]) = true ->
  rx_feed cf DIdle (36 :: body ++ [35; h1; h2]) =
  (DIdle, repeat RNone (length body + 3) ++ [decodepkt cf (36 :: body ++ [35; h1; h2])]).
Proof.
  intros He Hn Ha. rewrite rx_feed_dec, (dec_frame cf body h1 h2 He Hn Ha).
  cbn [fst snd]. rewrite map_app, map_repeat. cbn [map ev_of].
  replace (is_ack_msg (36 :: body ++ [35; h1; h2])) with (@None Z); [reflexivity|].
  destruct body; reflexivity.
Qed.

Lemma good_frame_delivered_gen cf w p :
  esc_fix cf = true -> is_frame_of w p -> dec_fix cf || forallb is_ascii_b w = true ->
  rx_feed cf DIdle w = (DIdle, repeat RNone (length w - 1) ++ [RDeliver p]).
Proof.
  intros He (body & h1 & h2 & a & b & -> & Hn & H1 & H2 & Hv & Hu) Ha.
  rewrite (rx_packet cf body h1 h2 He Hn Ha).
  rewrite (length_shape body h1 h2).
  do 2 f_equal. unfold decodepkt.
  rewrite unpack_shape, (hex_guard_ok cf _ _ _ _ H1 H2), (int16_2_hex _ _ _ _ H1 H2), He.
  unfold checksum in Hv. rewrite Hv, Z.eqb_refl. cbn [negb].
  now rewrite (unesc_loop_ok _ _ Hu).
Qed.

Lemma good_frame_delivered cf w p :
  esc_fix cf = true -> is_frame_of w p -> forallb is_ascii_b w = true ->
  rx_feed cf DIdle w = (DIdle, repeat RNone (length w - 1) ++ [RDeliver p]).
Proof. intros He Hf Ha. apply good_frame_delivered_gen; auto. rewrite Ha. apply orb_true_r. Qed.

Lemma bad_checksum_nacked_gen cf w :
  esc_fix cf = true -> is_bad_checksum_frame w -> dec_fix cf || forallb is_ascii_b w = true ->
  rx_feed cf DIdle w = (DIdle, repeat RNone (length w - 1) ++ [RNak]).
Proof.
  intros He (body & h1 & h2 & a & b & -> & Hn & H1 & H2 & Hv) Ha.
  rewrite (rx_packet cf body h1 h2 He Hn Ha).
  rewrite (length_shape body h1 h2).
  do 2 f_equal. unfold decodepkt.
  rewrite unpack_shape, (hex_guard_ok cf _ _ _ _ H1 H2), (int16_2_hex _ _ _ _ H1 H2).
  unfold checksum in Hv.
  destruct (Z.eqb_spec (sumZ body mod 256) (16 * a + b)); [lia|reflexivity].
Qed.

Lemma bad_checksum_nacked cf w :
  esc_fix cf = true -> is_bad_checksum_frame w -> forallb is_ascii_b w = true ->
  rx_feed cf DIdle w = (DIdle, repeat RNone (length w - 1) ++ [RNak]).
Proof. intros He Hf Ha. apply bad_checksum_nacked_gen; auto. rewrite Ha. apply orb_true_r. Qed.

(* check digits that int(…, 16) rejects: negative acknowledgement as well *)
Lemma unparsable_checksum_nacked cf body h1 h2 :
  esc_fix cf = true -> ~ In 35 body ->
  forallb is_ascii_b (36 :: body ++ [35; h1; h2]) = true ->
  int16_2 h1 h2 = None ->
  rx_feed cf DIdle (36 :: body ++ [35; h1; h2]) = (DIdle, repeat RNone (length body + 3) ++ [RNak]).
Proof.
  intros He Hn Ha Hi. rewrite (rx_packet cf body h1 h2 He Hn); [|rewrite Ha; apply orb_true_r].
  do 2 f_equal. unfold decodepkt. rewrite unpack_shape, Hi.
  destruct (hex_fix cf && negb (is_hexdigit h1 && is_hexdigit h2)); reflexivity.
Qed.

(* ------------------------------------------------------------ chunking *)

Lemma feed_chunks_gen cf chunks : forall d evs,
  fold_left (fun acc ch => let '(d1, e1) := rx_feed cf (fst acc) ch in (d1, snd acc ++ e1))
            chunks (d, evs) =
  (fst (rx_feed cf d (concat chunks)), evs ++ snd (rx_feed cf d (concat chunks))).
Proof.
  induction chunks as [|ch r IH]; intros d evs.
  - cbn. now rewrite app_nil_r.
  - cbn [fold_left concat fst snd]. rewrite rx_feed_app.
    destruct (rx_feed cf d ch) as [d1 e1]. rewrite IH.
    destruct (rx_feed cf d1 (concat r)) as [d2 e2]. cbn [fst snd]. now rewrite app_assoc.
Qed.

Lemma feed_chunks_concat cf d chunks :
  feed_chunks cf d chunks = rx_feed cf d (concat chunks).
Proof.
  unfold feed_chunks. rewrite feed_chunks_gen. cbn [app].
  destruct (rx_feed cf d (concat chunks)); reflexivity.
Qed.

Lemma frame_ascii p : forallb is_ascii_b p = true -> forallb is_ascii_b (frame p) = true.
Proof.
  intros H. unfold frame.
  assert (Hc : 0 <= checksum (escape p) < 256) by (unfold checksum; lia).
  destruct (hex2_spec _ Hc) as (h1 & h2 & a & b & E & _ & _ & _ & A1 & A2). rewrite E.
  cbn [forallb]. rewrite forallb_app, (escape_ascii p H). cbn [forallb].
  rewrite A1, A2. reflexivity.
Qed.

Lemma frame_roundtrip_bytes cf payload chunks :
  esc_fix cf = true -> dec_fix cf = true ->
  concat chunks = rsp_pack payload ->
  feed_chunks cf DIdle chunks =
  (DIdle, repeat RNone (length (rsp_pack payload) - 1) ++ [RDeliver payload]).
Proof.
  intros He Hd Hc. rewrite feed_chunks_concat, Hc, rsp_pack_frame.
  apply good_frame_delivered_gen; auto using frame_is_frame. now rewrite Hd.
Qed.

Lemma frame_roundtrip cf payload chunks :
  esc_fix cf = true ->
  forallb is_ascii_b payload = true ->
  concat chunks = rsp_pack payload ->
  feed_chunks cf DIdle chunks =
  (DIdle, repeat RNone (length (rsp_pack payload) - 1) ++ [RDeliver payload]).
Proof.
  intros He Ha Hc. rewrite feed_chunks_concat, Hc, rsp_pack_frame.
  apply good_frame_delivered; auto using frame_is_frame, frame_ascii.
Qed.

(* no event before the last byte: a proper prefix of a packet is silent *)
Lemma rx_feed_length cf bs d : length (snd (rx_feed cf d bs)) = length bs.
Proof. rewrite rx_feed_dec. cbn [snd]. now rewrite map_length, dec_feed_length. Qed.

Lemma proper_prefix_silent cf w pre suf e :
  rx_feed cf DIdle w = (DIdle, repeat RNone (length w - 1) ++ [e]) ->
  w = pre ++ suf -> suf <> [] ->
  snd (rx_feed cf DIdle pre) = repeat RNone (length pre).
Proof.
  intros H -> Hs. rewrite rx_feed_app in H.
  pose proof (rx_feed_length cf pre DIdle) as L.
  destruct (rx_feed cf DIdle pre) as [d1 e1]. destruct (rx_feed cf d1 suf) as [d2 e2].
  cbn [snd] in *. inversion H as [[Hd He]].
  assert (F : firstn (length pre) (e1 ++ e2) = e1) by (rewrite <- L; apply firstn_exact).
  rewrite He in F. rewrite firstn_repeat_app in F; [now symmetry|].
  rewrite app_length. destruct suf; [congruence|]. cbn [length]. lia.
Qed.

(* ------------------------------------------------------------ refutations on the unfixed code *)
Lemma orig_quote_never_ends :
  forallb is_ascii_b [97; 39] = true /\
  rx_feed orig DIdle (rsp_pack [97; 39]) =
    (DPkt (rsp_pack [97; 39]), repeat RNone (length (rsp_pack [97; 39]))).
Proof. split; vm_compute; reflexivity. Qed.

Lemma orig_no_unescape :
  forallb is_ascii_b [97; 125; 98; 36] = true /\
  snd (rx_feed orig DIdle (rsp_pack [97; 125; 98; 36])) =
    repeat RNone (length (rsp_pack [97; 125; 98; 36]) - 1) ++ [RDeliver [97; 125; 93; 98; 125; 4]].
Proof. split; vm_compute; reflexivity. Qed.
