(* Proofs/C22_mapping.v — the IR that wasm2ppci emits for the integer numeric opcodes
   (Gen.wasm_irmap.table, exported from the real compiler) computes WasmNumSpec:
   under the python-target semantics (Model.WasmIr.py_run over the translated IrPy runtime)
   and under the target-independent IR reading (ir_run), with the exceptions proved as
   refutations at the end. *)
From PV Require Import Lib.Py Lib.Tac Spec.BitsSpec Spec.WasmNumSpec Model.WasmIr.
From PV Require Import Proofs.C39_bitfun Proofs.C22_base Proofs.C22_helpers.
From PV Require Gen.irpy_rt Gen.wasm_runtime.
From Coq Require Import Znumtheory.
Open Scope Z_scope.

(* ------------------------------------------------------------------ the translated IrPy runtime *)
Lemma irpy_correct_eq : irpy_rt.correct = bitfun.correct.
Proof. reflexivity. Qed.

Lemma irpy_correct_s v n : 1 <= n -> irpy_rt.correct v n true = Ok (signed_of n v).
Proof. intros. rewrite irpy_correct_eq. now apply correct_signed. Qed.
Lemma irpy_correct_u v n : 0 <= n -> irpy_rt.correct v n false = Ok (unsigned_of n v).
Proof. intros. rewrite irpy_correct_eq. now apply correct_unsigned. Qed.

Lemma irpy_idiv x y : y <> 0 -> irpy_rt.idiv x y = Ok (Z.quot x y).
Proof.
  intros Hy. unfold irpy_rt.idiv. rewrite (Z.quot_div x y Hy).
  destruct (Z.ltb_spec x 0), (Z.ltb_spec y 0); cbn [negb];
    (guard_ok; f_equal;
     repeat match goal with
     | H : ?a < 0 |- _ => rewrite (Z.abs_neq a), (Z.sgn_neg a) by lia; clear H
     | H : 0 <= ?a |- _ => rewrite (Z.abs_eq a) by lia;
         destruct (Z.eq_dec a 0) as [->|]; [cbn; try lia|rewrite (Z.sgn_pos a) by lia]; clear H
     end; try lia).
Qed.

Lemma irpy_idiv_zero x : irpy_rt.idiv x 0 = Internal ZeroDiv.
Proof. unfold irpy_rt.idiv. destruct (x <? 0); reflexivity. Qed.

Lemma irpy_irem x y : y <> 0 -> irpy_rt.irem x y = Ok (Z.rem x y).
Proof.
  intros Hy. unfold irpy_rt.irem. rewrite (Z.rem_mod x y Hy).
  destruct (Z.ltb_spec x 0), (Z.ltb_spec y 0);
    (guard_ok; f_equal;
     repeat match goal with
     | H : ?a < 0 |- _ => rewrite (Z.abs_neq a), ?(Z.sgn_neg a) by lia; clear H
     | H : 0 <= ?a |- _ => rewrite (Z.abs_eq a) by lia;
         try (destruct (Z.eq_dec a 0) as [->|]; [cbn; try lia|rewrite ?(Z.sgn_pos a) by lia]); clear H
     end; try lia).
Qed.

Lemma irpy_irem_zero x : irpy_rt.irem x 0 = Internal ZeroDiv.
Proof. unfold irpy_rt.irem. destruct (x <? 0); reflexivity. Qed.

Lemma irpy_ishl x a n : 1 <= n -> irpy_rt.ishl x a n = Ok (x * 2 ^ (a mod n)).
Proof. intros. unfold irpy_rt.ishl. guards_ok. now rewrite shiftl_mul by lia. Qed.
Lemma irpy_ishr x a n : 1 <= n -> irpy_rt.ishr x a n = Ok (x / 2 ^ (a mod n)).
Proof. intros. unfold irpy_rt.ishr. guards_ok. now rewrite shiftr_div by lia. Qed.

(* ------------------------------------------------------------------ arithmetic of the single operators *)
Section Ops.
Variable N : Z.
Hypothesis HN : 1 <= N.
Let P := pow2_pos N ltac:(lia).
Notation u := (unsigned N).

Lemma sem_add a b : signed_of N (a + b) = signed N (iadd N (u a) (u b)).
Proof. rewrite signed_of_signed by lia. unfold iadd, wrap, unsigned. now rewrite <- Z.add_mod by lia. Qed.
Lemma sem_sub a b : signed_of N (a - b) = signed N (isub N (u a) (u b)).
Proof. rewrite signed_of_signed by lia. unfold isub, wrap, unsigned. now rewrite <- Zminus_mod. Qed.
Lemma sem_mul a b : signed_of N (a * b) = signed N (imul N (u a) (u b)).
Proof. rewrite signed_of_signed by lia. unfold imul, wrap, unsigned. now rewrite <- Z.mul_mod by lia. Qed.

Lemma mod_bitwise (f : Z -> Z -> Z) (g : bool -> bool -> bool) :
  (forall x y i, Z.testbit (f x y) i = g (Z.testbit x i) (Z.testbit y i)) -> g false false = false ->
  forall a b, (f a b) mod 2 ^ N = f (a mod 2 ^ N) (b mod 2 ^ N).
Proof.
  intros Hf Hg a b. apply Z.bits_inj'. intros i Hi. rewrite Hf.
  destruct (Z.lt_ge_cases i N).
  - rewrite !Z.mod_pow2_bits_low by lia. now rewrite Hf.
  - rewrite !Z.mod_pow2_bits_high by lia. now rewrite Hg.
Qed.

Lemma sem_and a b : signed_of N (Z.land a b) = signed N (iand N (u a) (u b)).
Proof.
  rewrite signed_of_signed by lia. unfold iand, unsigned. f_equal.
  apply (mod_bitwise Z.land andb); [apply Z.land_spec|reflexivity].
Qed.
Lemma sem_or a b : signed_of N (Z.lor a b) = signed N (ior N (u a) (u b)).
Proof.
  rewrite signed_of_signed by lia. unfold ior, unsigned. f_equal.
  apply (mod_bitwise Z.lor orb); [apply Z.lor_spec|reflexivity].
Qed.
Lemma sem_xor a b : signed_of N (Z.lxor a b) = signed N (ixor N (u a) (u b)).
Proof.
  rewrite signed_of_signed by lia. unfold ixor, unsigned. f_equal.
  apply (mod_bitwise Z.lxor xorb); [apply Z.lxor_spec|reflexivity].
Qed.

Lemma sem_signed_result q : signed_of N q = signed N (u q).
Proof. now rewrite signed_of_signed by lia. Qed.

(* unsigned results that fit are unchanged by the two casts back to the signed type *)
Lemma sem_unsigned_result q : 0 <= q < 2 ^ N -> signed_of N (unsigned_of N q) = signed N q.
Proof.
  intros Hq. rewrite signed_of_signed by lia. unfold unsigned_of.
  rewrite Z.mod_mod by lia. now rewrite Z.mod_small by lia.
Qed.

Lemma quot_u_range x y : 0 <= x < 2 ^ N -> 0 < y -> 0 <= Z.quot x y < 2 ^ N.
Proof.
  intros Hx Hy. rewrite Z.quot_div_nonneg by lia. split; [apply Z.div_pos; lia|].
  apply Z.le_lt_trans with x; [|lia]. apply Z.div_le_upper_bound; nia.
Qed.
Lemma rem_u_range x y : 0 <= x < 2 ^ N -> 0 < y < 2 ^ N -> 0 <= Z.rem x y < 2 ^ N.
Proof.
  intros Hx Hy. rewrite Z.rem_mod_nonneg by lia. pose proof (Z.mod_pos_bound x y ltac:(lia)). lia.
Qed.
Lemma shr_u_range x k : 0 <= x < 2 ^ N -> 0 <= k -> 0 <= x / 2 ^ k < 2 ^ N.
Proof.
  intros Hx Hk. assert (Pk := pow2_pos k Hk). split; [apply Z.div_pos; lia|].
  apply Z.le_lt_trans with x; [|lia]. apply Z.div_le_upper_bound; nia.
Qed.

Hypothesis W : width_ok N.

Lemma sem_shl a b : signed_of N (a * 2 ^ (b mod N)) = signed N (ishl N (u a) (u b)).
Proof.
  rewrite signed_of_signed by lia. unfold ishl, wrap. f_equal. unfold unsigned at 2. rewrite count_mod by assumption.
  unfold unsigned. now rewrite Z.mul_mod_idemp_l by lia.
Qed.
Lemma sem_shr_s a b : in_s N a -> signed_of N (a / 2 ^ (b mod N)) = signed N (ishr_s N (u a) (u b)).
Proof.
  intros Ha. rewrite signed_of_signed by lia. unfold ishr_s. rewrite (signed_unsigned N a) by assumption.
  unfold unsigned at 2. rewrite count_mod by assumption. reflexivity.
Qed.
Lemma sem_shr_u a b :
  signed_of N (unsigned_of N (u a / 2 ^ (u b mod N))) = signed N (ishr_u N (u a) (u b)).
Proof.
  unfold ishr_u. apply sem_unsigned_result. apply shr_u_range; [apply unsigned_range; lia|].
  apply Z.mod_pos_bound. lia.
Qed.

Lemma eqb_unsigned a b : in_s N a -> in_s N b -> (u a =? u b) = (a =? b).
Proof.
  intros Ha Hb. destruct (Z.eqb_spec a b) as [->|Hne]; [apply Z.eqb_refl|].
  destruct (Z.eqb_spec (u a) (u b)) as [E|]; [|reflexivity].
  exfalso. apply Hne. now apply (unsigned_inj N).
Qed.
End Ops.

Lemma signed32_bool c : signed 32 (bool_i c) = b2z c.
Proof. destruct c; reflexivity. Qed.

Lemma in_s_0 N : 1 <= N -> in_s N 0.
Proof. intros. unfold in_s. assert (0 < 2 ^ (N - 1)) by (apply pow2_pos; lia). lia. Qed.
Lemma unsigned_0 N : 0 <= N -> unsigned N 0 = 0.
Proof. intros. unfold unsigned. apply Z.mod_0_l. apply Z.pow_nonzero; lia. Qed.
