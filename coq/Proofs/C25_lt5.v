(* Proofs/C25_lt5.v — thorough tier: the model of Lengauer-Tarjan equals the reference immediate
   dominators on ALL 16^5 = 1048576 loop-free graphs with 5 nodes (entry 0, unreachable nodes
   included, two set iteration orders), assembled from 16 vm_compute shards. *)
From PV Require Import Lib.Py Spec.CfgSpec Model.DomRef Model.DomTree Model.LengauerTarjan Proofs.C25_lt.
From PV Require Import Proofs.C25_lt5_0 Proofs.C25_lt5_1 Proofs.C25_lt5_2 Proofs.C25_lt5_3 Proofs.C25_lt5_4 Proofs.C25_lt5_5 Proofs.C25_lt5_6 Proofs.C25_lt5_7 Proofs.C25_lt5_8 Proofs.C25_lt5_9 Proofs.C25_lt5_10 Proofs.C25_lt5_11 Proofs.C25_lt5_12 Proofs.C25_lt5_13 Proofs.C25_lt5_14 Proofs.C25_lt5_15.
Close Scope Z_scope. Open Scope nat_scope.

Definition all_noloop5 : list graph :=
  product [noloop_rows 5 0; noloop_rows 5 1; noloop_rows 5 2; noloop_rows 5 3; noloop_rows 5 4].

Lemma shard_ok k : k < 16 -> forallb chk_lt (shard5 k) = true.
Proof.
  intros Hk.
  destruct k as [|k]; [exact lt5_shard_0|].
  destruct k as [|k]; [exact lt5_shard_1|].
  destruct k as [|k]; [exact lt5_shard_2|].
  destruct k as [|k]; [exact lt5_shard_3|].
  destruct k as [|k]; [exact lt5_shard_4|].
  destruct k as [|k]; [exact lt5_shard_5|].
  destruct k as [|k]; [exact lt5_shard_6|].
  destruct k as [|k]; [exact lt5_shard_7|].
  destruct k as [|k]; [exact lt5_shard_8|].
  destruct k as [|k]; [exact lt5_shard_9|].
  destruct k as [|k]; [exact lt5_shard_10|].
  destruct k as [|k]; [exact lt5_shard_11|].
  destruct k as [|k]; [exact lt5_shard_12|].
  destruct k as [|k]; [exact lt5_shard_13|].
  destruct k as [|k]; [exact lt5_shard_14|].
  destruct k as [|k]; [exact lt5_shard_15|].
  lia.
Qed.

Lemma rows0_len : length (noloop_rows 5 0) = 16.
Proof. vm_compute. reflexivity. Qed.

Lemma all_noloop5_shard g : In g all_noloop5 -> exists k, k < 16 /\ In g (shard5 k).
Proof.
  unfold all_noloop5. cbn [product]. intros H. apply in_flat_map in H.
  destruct H as [c [Hc Hg]]. destruct (In_nth _ _ [] Hc) as [k [Hk Ek]].
  exists k. split; [now rewrite <- rows0_len|]. unfold shard5. rewrite Ek. exact Hg.
Qed.

Theorem lt_bounded5 g : In g all_noloop5 ->
  lt_idom g (preds_of g) 0 = lt_expected g 0 /\
  lt_idom (map (@rev nat) g) (map (@rev nat) (preds_of g)) 0 = lt_expected g 0.
Proof.
  intros Hg. destruct (all_noloop5_shard g Hg) as [k [Hk Hin]].
  pose proof (shard_ok k Hk) as H. rewrite forallb_forall in H. specialize (H g Hin).
  unfold chk_lt in H. apply andb_true_iff in H. destruct H as [H1 H2].
  split; now apply res_eqb_eq.
Qed.
