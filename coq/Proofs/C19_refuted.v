(* Proofs/C19_refuted.v — witnesses against the S-record writer as it was before fixes C19-1..3
   (Model.Srecord.write_srecord_orig). *)
From PV Require Import Lib.Py Lib.Tac Spec.SrecSpec Model.Srecord Proofs.C19_srecord.
Open Scope Z_scope.

Definition orig_reads (code : list Z) : option (list srec) :=
  match write_srecord_orig code with Ok lines => read_file lines | _ => None end.

Definition opt_eqb (x y : option Z) : bool :=
  match x, y with Some a, Some b => a =? b | None, None => true | _, _ => false end.

Lemma opt_eqb_false x y : opt_eqb x y = false -> x <> y.
Proof. intros H E. subst y. destruct x; cbn in H; [lia|discriminate]. Qed.

(* header emitted as a data record: the file does not start with S0, and the image of the
   empty code is not empty *)
Lemma orig_header_not_S0 : exists code recs, all_byte code = true /\
  orig_reads code = Some recs /\ wf_file recs = false /\ denote recs 0 <> image 0 code 0.
Proof. exists [], [mk_srec 1 0 HDR; mk_srec 9 0 []]. vm_compute. repeat split; congruence. Qed.

(* 16-bit addresses: byte 65550 of the code lands at address 14 *)
Definition big_code : list Z := repeat 0 (Z.to_nat 65550) ++ [1].

Definition wraps_check (code : list Z) (a : Z) : bool :=
  all_byte code && (len code <=? 4294967296) &&
  match orig_reads code with
  | Some recs => negb (opt_eqb (denote recs a) (image 0 code a))
  | None => false
  end.

Lemma wraps_check_sound code a : wraps_check code a = true ->
  exists recs, all_byte code = true /\ len code <= 4294967296 /\
               orig_reads code = Some recs /\ denote recs a <> image 0 code a.
Proof.
  unfold wraps_check. intros H.
  destruct (orig_reads code) as [recs|]; [|rewrite andb_false_r in H; discriminate].
  apply andb_true_iff in H. destruct H as [H H3]. apply andb_true_iff in H. destruct H as [H1 H2].
  exists recs. repeat split; auto; [lia|].
  apply opt_eqb_false. now apply negb_true_iff.
Qed.

Lemma wraps_check_big : wraps_check big_code 65550 = true.
Proof. vm_compute. reflexivity. Qed.

Lemma orig_wraps : exists code recs a, all_byte code = true /\ len code <= 4294967296 /\
  orig_reads code = Some recs /\ denote recs a <> image 0 code a.
Proof.
  destruct (wraps_check_sound _ _ wraps_check_big) as (recs & H).
  exists big_code, recs, 65550. exact H.
Qed.
