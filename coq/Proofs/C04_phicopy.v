(* Proofs/C04_phicopy.v — the phi copies emitted by copy_phis_of_successors implement a parallel
   assignment; placement of the copies (lost copy problem) with and without isolated phi registers. *)
From Coq Require Import ZArith List Bool Lia.
From PV Require Import Model.PhiCopy.
Import ListNotations.
Open Scope Z_scope.

(* ------------------------------------------------------------------ basic facts *)
Lemma upd_same e d v : upd e d v d = v.
Proof. unfold upd. now rewrite Z.eqb_refl. Qed.
Lemma upd_other e d v r : r <> d -> upd e d v r = e r.
Proof. unfold upd. intros H. destruct (Z.eqb_spec r d); congruence. Qed.

Lemma exec_app a b e : exec (a ++ b) e = exec b (exec a e).
Proof. unfold exec. now rewrite fold_left_app. Qed.
Lemma exec_cons m ms e : exec (m :: ms) e = exec ms (exec1 e m).
Proof. reflexivity. Qed.

Lemma eval_ext s e e' : (forall r, In r (reads s) -> e r = e' r) -> eval s e = eval s e'.
Proof.
  destruct s; simpl; intros H; auto.
  f_equal. apply map_ext_in. auto.
Qed.

(* ------------------------------------------------------------------ step 1 *)
Definition reads_below (vm : key -> src) (phis : list phi) (next : reg) :=
  forall p r, In p phis -> In r (reads (vm (p_from p))) -> r < next.

(* sequential register-to-register moves none of whose destinations is a source of any of them *)
Definition rmoves (l : list (reg * reg)) : list move :=
  map (fun dt => Mov (fst dt) (SReg (snd dt))) l.

Lemma rmoves_sem : forall l e,
  (forall d t d' t', In (d, t) l -> In (d', t') l -> d <> t') ->
  let e2 := exec (rmoves l) e in
  (forall r, ~ In r (map fst l) -> e2 r = e r) /\
  (forall d v, In d (map fst l) -> (forall t, In (d, t) l -> e t = v) -> e2 d = v).
Proof.
  induction l as [|[d0 t0] tl IH]; intros e Hdisj.
  - simpl. split; [auto | intros ? ? []].
  - assert (Hd' : forall d t d' t', In (d, t) tl -> In (d', t') tl -> d <> t').
    { intros; eapply Hdisj; right; eauto. }
    specialize (IH (upd e d0 (e t0)) Hd'). cbv zeta in IH. destruct IH as [IH1 IH2].
    unfold rmoves in *. cbv zeta. simpl map. rewrite exec_cons. simpl exec1. simpl eval. split.
    + intros r Hr. rewrite IH1 by (intro; apply Hr; now right).
      apply upd_other. intros ->. apply Hr. now left.
    + intros d v Hd Hv.
      destruct (in_dec Z.eq_dec d (map fst tl)) as [Hin | Hnin].
      * apply IH2; auto. intros t Ht. rewrite upd_other. { apply Hv. now right. }
        intros ->. eapply (Hdisj d0 t0 d d0); [now left | now right |]. reflexivity.
      * rewrite IH1 by assumption. destruct Hd as [Hd | Hd]; [| tauto].
        simpl in Hd. subst d. rewrite upd_same. apply Hv. now left.
Qed.

Lemma lookup_cons k k' t m :
  lookup k ((k', t) :: m) = if k' =? k then Some t else lookup k m.
Proof. reflexivity. Qed.

Lemma step1_sem vm : forall phis next vmap e ms vmap',
  step1 vm phis next vmap = (ms, vmap') ->
  reads_below vm phis next ->
  let e1 := exec ms e in
  (forall r, r < next -> e1 r = e r) /\
  (forall k t, lookup k vmap' = Some t ->
     (lookup k vmap = Some t /\ forall p, In p phis -> p_from p <> k) \/
     (next <= t /\ e1 t = eval (vm k) e /\ exists p, In p phis /\ p_from p = k)) /\
  (forall k, lookup k vmap <> None -> lookup k vmap' <> None) /\
  (forall p, In p phis -> lookup (p_from p) vmap' <> None).
Proof.
  induction phis as [|p tl IH]; intros next vmap e ms vmap' H Hrb; simpl in H.
  - inversion H; subst. simpl. repeat split; auto.
  - destruct (step1 vm tl (next + 1) ((p_from p, next) :: vmap)) as [ms0 vm0] eqn:E.
    inversion H; subst ms vmap'. clear H.
    assert (Hrb' : reads_below vm tl (next + 1)).
    { intros q r Hq Hr. assert (r < next) by (eapply Hrb; [right|]; eauto). lia. }
    specialize (IH _ _ (upd e next (eval (vm (p_from p)) e)) _ _ E Hrb').
    cbv zeta in IH. destruct IH as (I1 & I2 & I3 & I4).
    cbv zeta. rewrite exec_cons. simpl exec1.
    set (e' := upd e next (eval (vm (p_from p)) e)) in *.
    assert (Hev : forall q, In q (p :: tl) -> eval (vm (p_from q)) e' = eval (vm (p_from q)) e).
    { intros q Hq. apply eval_ext. intros r Hr. unfold e'. apply upd_other.
      assert (r < next) by (eapply Hrb; eauto). lia. }
    split; [| split; [| split]].
    + intros r Hr. rewrite I1 by lia. unfold e'. apply upd_other. lia.
    + intros k t Hk. destruct (I2 k t Hk) as [[Hl Hn] | (Hge & Hv & q & Hq & Hqk)].
      * rewrite lookup_cons in Hl. destruct (Z.eqb_spec (p_from p) k) as [Heq | Hne].
        -- inversion Hl; subst t. right. split; [lia|]. split.
           ++ rewrite I1 by lia. unfold e'. rewrite upd_same. now rewrite Heq.
           ++ exists p. split; [now left | assumption].
        -- left. split; auto. intros q [<- | Hq]; auto.
      * right. split; [lia|]. split.
        -- rewrite Hv. subst k. apply Hev. now right.
        -- exists q. split; [now right | assumption].
    + intros k Hk. apply I3. rewrite lookup_cons. destruct (p_from p =? k); congruence.
    + intros q [<- | Hq]; [| now apply I4].
      apply I3. rewrite lookup_cons, Z.eqb_refl. congruence.
Qed.

Definition tmp_of (vmap : list (key * reg)) (p : phi) : reg :=
  match lookup (p_from p) vmap with Some t => t | None => 0 end.

Lemma step2_shape : forall phis vmap,
  (forall p, In p phis -> lookup (p_from p) vmap <> None) ->
  step2 phis vmap = Some (rmoves (map (fun p => (p_reg p, tmp_of vmap p)) phis)).
Proof.
  induction phis as [|p tl IH]; intros vmap H; simpl; auto.
  rewrite IH by (intros; apply H; now right).
  specialize (H p (or_introl eq_refl)).
  destruct (lookup (p_from p) vmap) as [t|] eqn:E; [| congruence].
  unfold rmoves. simpl. do 4 f_equal. unfold tmp_of. now rewrite E.
Qed.

(* ------------------------------------------------------------------ the parallel-copy theorem *)
Definition functional (phis : list phi) :=
  forall p q, In p phis -> In q phis -> p_reg p = p_reg q -> p_from p = p_from q.

Theorem phi_copy_parallel : forall vm phis next e,
  functional phis ->
  (forall p, In p phis -> p_reg p < next) ->
  reads_below vm phis next ->
  exists ms, copy_phis vm phis next = Some ms /\
    let e' := exec ms e in
    (forall p, In p phis -> e' (p_reg p) = eval (vm (p_from p)) e) /\
    (forall r, r < next -> (forall p, In p phis -> p_reg p <> r) -> e' r = e r).
Proof.
  intros vm phis next e Hfun Hlt Hrb. unfold copy_phis.
  destruct (step1 vm phis next []) as [ms1 vmap] eqn:E1.
  destruct (step1_sem vm phis next [] e ms1 vmap E1 Hrb) as (S1 & S2 & _ & S4).
  rewrite (step2_shape phis vmap S4). eexists. split; [reflexivity|]. cbv zeta.
  rewrite exec_app. set (e1 := exec ms1 e) in *.
  set (l := map (fun p => (p_reg p, tmp_of vmap p)) phis).
  assert (Hl : forall d t, In (d, t) l -> exists p, In p phis /\ d = p_reg p /\
             lookup (p_from p) vmap = Some t).
  { intros d t Hin. unfold l in Hin. apply in_map_iff in Hin. destruct Hin as (p & Hp & Hin).
    inversion Hp; subst. exists p. repeat split; auto. unfold tmp_of.
    specialize (S4 p Hin). destruct (lookup (p_from p) vmap); congruence. }
  assert (Htmp : forall p t, In p phis -> lookup (p_from p) vmap = Some t ->
             next <= t /\ e1 t = eval (vm (p_from p)) e).
  { intros p t Hp Ht. destruct (S2 _ _ Ht) as [[Hnil _] | (Hge & Hv & _)]; [discriminate | auto]. }
  assert (Hdisj : forall d t d' t', In (d, t) l -> In (d', t') l -> d <> t').
  { intros d t d' t' H1 H2. destruct (Hl _ _ H1) as (p & Hp & -> & _).
    destruct (Hl _ _ H2) as (q & Hq & _ & Hq2). specialize (Hlt p Hp).
    destruct (Htmp q t' Hq Hq2). lia. }
  destruct (rmoves_sem l e1 Hdisj) as [R1 R2]. split.
  - intros p Hp. apply R2.
    + unfold l. rewrite map_map. simpl. apply in_map_iff. now exists p.
    + intros t Ht. destruct (Hl _ _ Ht) as (q & Hq & Hpq & Hq2).
      destruct (Htmp q t Hq Hq2) as [_ ->]. now rewrite (Hfun p q Hp Hq Hpq).
  - intros r Hr Hnot. rewrite R1; [now apply S1|].
    unfold l. rewrite map_map. simpl. intros Hin. apply in_map_iff in Hin.
    destruct Hin as (p & Hp & Hin). now apply (Hnot p Hin).
Qed.

(* ------------------------------------------------------------------ placement of the copies *)
(* The copies for the phis of ALL successors are executed before the terminator, whichever
   successor is taken. This is harmless exactly when nobody but the head moves of the phi's own
   block reads a phi register ("isolated" phi registers). *)
Definition isolated (all : list phi) (c : src) :=
  (forall p q, In p all -> In q all -> p_val q <> p_reg p) /\
  (forall q r, In q all -> In r (reads c) -> r <> p_reg q).

Lemma head_moves_rmoves ps : head_moves ps = rmoves (map (fun p => (p_val p, p_reg p)) ps).
Proof. unfold head_moves, rmoves. rewrite map_map. reflexivity. Qed.

Theorem phi_edge_isolated : forall vm all taken next c e,
  incl taken all -> functional all ->
  (forall p, In p all -> p_reg p < next /\ p_val p < next) ->
  reads_below vm all next -> (forall r, In r (reads c) -> r < next) ->
  isolated all c ->
  (forall p q, In p taken -> In q taken -> p_val p = p_val q -> p_reg p = p_reg q) ->
  exists cv e2, edge_impl vm all taken next c e = Some (cv, e2) /\
    cv = eval c e /\
    (forall p, In p taken -> e2 (p_val p) = eval (vm (p_from p)) e) /\
    (forall r, r < next -> (forall q, In q all -> r <> p_reg q) ->
               (forall p, In p taken -> r <> p_val p) -> e2 r = e r).
Proof.
  intros vm all taken next c e Hincl Hfun Hlt Hrb Hc [Iso1 Iso2] Hvfun.
  destruct (phi_copy_parallel vm all next e Hfun (fun p H => proj1 (Hlt p H)) Hrb)
    as (ms & Hms & P1 & P2). cbv zeta in P1, P2.
  unfold edge_impl. rewrite Hms. do 2 eexists. split; [reflexivity|].
  set (e1 := exec ms e) in *. split; [| split].
  - apply eval_ext. intros r Hr. apply P2; [now apply Hc|]. intros p Hp Heq.
    now apply (Iso2 p r Hp Hr).
  - intros p Hp. rewrite head_moves_rmoves.
    set (l := map (fun p => (p_val p, p_reg p)) taken).
    assert (Hl : forall d t, In (d, t) l -> exists q, In q taken /\ d = p_val q /\ t = p_reg q).
    { intros d t Hin. apply in_map_iff in Hin. destruct Hin as (q & Hq & Hin).
      inversion Hq; subst. now exists q. }
    assert (Hdisj : forall d t d' t', In (d, t) l -> In (d', t') l -> d <> t').
    { intros d t d' t' H1 H2. destruct (Hl _ _ H1) as (q & Hq & -> & _).
      destruct (Hl _ _ H2) as (q' & Hq' & _ & ->). apply Iso1; now apply Hincl. }
    destruct (rmoves_sem l e1 Hdisj) as [_ R2]. apply R2.
    + unfold l. rewrite map_map. simpl. apply in_map_iff. now exists p.
    + intros t Ht. destruct (Hl _ _ Ht) as (q & Hq & Hpq & ->).
      rewrite (Hvfun q p Hq Hp (eq_sym Hpq)). apply P1. now apply Hincl.
  - intros r Hr Hnp Hnv. rewrite head_moves_rmoves.
    set (l := map (fun p => (p_val p, p_reg p)) taken).
    assert (Hdisj : forall d t d' t', In (d, t) l -> In (d', t') l -> d <> t').
    { intros d t d' t' H1 H2. apply in_map_iff in H1. destruct H1 as (q & Hq & H1).
      apply in_map_iff in H2. destruct H2 as (q' & Hq' & H2). inversion Hq; inversion Hq'; subst.
      apply Iso1; now apply Hincl. }
    destruct (rmoves_sem l e1 Hdisj) as [R1 _]. rewrite R1.
    + apply P2; auto. intros p Hp Heq. now apply (Hnp p Hp).
    + unfold l. rewrite map_map. simpl. intros Hin. apply in_map_iff in Hin.
      destruct Hin as (p & Hp & Hin). now apply (Hnv p Hin).
Qed.

(* the code as found: the uses of a phi read the phi register itself (p_val = p_reg) *)
Definition unisolated (all : list phi) := forall p, In p all -> p_val p = p_reg p.

(* a block that branches back to itself on a condition over its own phi: the condition sees the
   value of the next iteration   (do { j = i; i = i + 1; } while (j < n);) *)
Theorem phi_edge_unisolated_condition_refuted :
  exists vm all taken next c e,
    unisolated all /\ functional all /\ NoDup (map p_reg all) /\ incl taken all /\
    (forall p, In p all -> p_reg p < next) /\ reads_below vm all next /\
    (forall r, In r (reads c) -> r < next) /\
    exists cv e2, edge_impl vm all taken next c e = Some (cv, e2) /\ cv <> eval c e.
Proof.
  exists (fun _ => SFun [1] (fun l => hd 0 l + 1)), [mkphi 1 1 10], [mkphi 1 1 10], 2,
         (SReg 1), (fun _ => 0).
  split; [intros p [<- | []]; reflexivity|].
  split; [intros p q [<- | []] [<- | []]; reflexivity|].
  split; [repeat constructor; simpl; tauto|].
  split; [apply incl_refl|].
  split; [intros p [<- | []]; simpl; lia|].
  split; [intros p r [<- | []] [<- | []]; lia|].
  split; [intros r [<- | []]; lia|].
  do 2 eexists. split; [vm_compute; reflexivity|]. vm_compute. discriminate.
Qed.

(* the edge that leaves the loop: the phi register of the loop header is overwritten although the
   header is not entered again, so a later use of the phi sees the wrong value (lost copy)
   (do { j = i; i = i + 1; } while (i < n); return j;) *)
Theorem phi_edge_unisolated_lost_copy_refuted :
  exists vm all taken next c e r,
    unisolated all /\ functional all /\ NoDup (map p_reg all) /\ incl taken all /\
    (forall p, In p all -> p_reg p < next) /\ reads_below vm all next /\
    (forall r, In r (reads c) -> r < next) /\
    r < next /\ (forall p, In p taken -> r <> p_val p) /\
    exists cv e2, edge_impl vm all taken next c e = Some (cv, e2) /\ e2 r <> e r.
Proof.
  exists (fun _ => SConst 7), [mkphi 1 1 10], [], 2, (SConst 0), (fun _ => 0), 1.
  split; [intros p [<- | []]; reflexivity|].
  split; [intros p q [<- | []] [<- | []]; reflexivity|].
  split; [repeat constructor; simpl; tauto|].
  split; [intros p []|].
  split; [intros p [<- | []]; simpl; lia|].
  split; [intros p r [<- | []] []|].
  split; [intros r []|].
  split; [lia|]. split; [intros p []|].
  do 2 eexists. split; [vm_compute; reflexivity|]. vm_compute. discriminate.
Qed.
