(* Proofs/C16_rd_scope.v — DictReader (Model/IrJson.v) on the JSON written for ONE instruction, in an arbitrary
   reader state satisfying the scope invariant SInv: operands may be registered, pending or not yet seen. *)
From PV Require Import Lib.Py Lib.Tac Lib.Val Lib.Json Spec.IRSyntax Model.IrJson Proofs.C16_irjson.
From Coq Require Import String Ascii.
Local Open Scope string_scope.
Local Open Scope list_scope.
Open Scope Z_scope.

Definition slook (st : rst) (name : string) : option (vref * ty) :=
  match vlookup name (rs_loc st) with Some x => Some x | None => vlookup name (rs_glob st) end.
Definition set_pend (st : rst) (p : list (string * ty)) : rst :=
  mk_rst (rs_glob st) (rs_loc st) (rs_infun st) p (rs_next st) (rs_bmap st) (rs_funcs st) (rs_blocks st) (rs_ins st).

Definition known (next : positive) (gk : list string) (r : vref) : bool :=
  match r with Loc v => Pos.ltb v next | Param _ => true | Glob s => mem_str s gk | Unres _ => true end.

Section Fun.
  Variable gn : list string.
  Variable f : func.
  Variable vt : list (string * ty).
  Definition wfr (r : vref) : Prop := wf_ref gn f r = true.
  Hypothesis ref_inj : forall r r', wfr r -> wfr r' -> ref_name f r = ref_name f r' -> r = r'.
  Hypothesis vt_loc : forall v, wfr (Loc v) -> plookup (ref_name f (Loc v)) vt = Some (vref_ty f (Loc v)).
  Hypothesis vt_glob : forall s, wfr (Glob s) -> plookup s vt = None.

  Definition hide (next : positive) (gk : list string) (r : vref) : vref :=
    if known next gk r then r else Unres (ref_name f r).

  Record SInv (next : positive) (gk : list string) (st : rst) : Prop := {
    si_infun : rs_infun st = true;
    si_known : forall r, wfr r -> known next gk r = true -> slook st (ref_name f r) = Some (r, vref_ty f r);
    si_unknown : forall r, wfr r -> known next gk r = false -> slook st (ref_name f r) = None;
    si_pend : forall r t, wfr r -> plookup (ref_name f r) (rs_pend st) = Some t -> t = vref_ty f r }.

  Definition addp (next : positive) (gk : list string) (r : vref) (st : rst) : rst :=
    if known next gk r then st
    else match plookup (ref_name f r) (rs_pend st) with
         | Some _ => st
         | None => set_pend st ((ref_name f r, vref_ty f r) :: rs_pend st)
         end.
  Definition addps next gk (l : list vref) (st : rst) : rst := fold_left (fun s r => addp next gk r s) l st.

  Lemma wfr_not_unres s : ~ wfr (Unres s).
  Proof. unfold wfr. cbn. discriminate. Qed.

  Lemma gvr_inv next gk st r d :
    SInv next gk st -> wfr r -> (d = Ptr \/ d = vref_ty f r) ->
    gvr vt (ref_name f r) d st = ((hide next gk r, vref_ty f r), addp next gk r st).
  Proof.
    intros I Hr Hd. unfold gvr, get_value_ref, hide, addp. rewrite (si_infun _ _ _ I).
    destruct (known next gk r) eqn:K.
    - pose proof (si_known _ _ _ I r Hr K) as L. unfold slook in L.
      destruct (vlookup (ref_name f r) (rs_loc st)).
      + now inversion L.
      + rewrite L. reflexivity.
    - pose proof (si_unknown _ _ _ I r Hr K) as L. unfold slook in L.
      destruct (vlookup (ref_name f r) (rs_loc st)); [discriminate|]. rewrite L.
      destruct (plookup (ref_name f r) (rs_pend st)) eqn:P.
      + rewrite (si_pend _ _ _ I r t Hr P). reflexivity.
      + assert (E : match plookup (ref_name f r) vt with Some t => t | None => d end = vref_ty f r).
        { destruct r as [v|n|s|s].
          - now rewrite vt_loc.
          - discriminate K.
          - cbn [ref_name]. rewrite vt_glob by assumption. destruct Hd as [->| ->]; reflexivity.
          - now apply wfr_not_unres in Hr. }
        cbv zeta. rewrite !E. unfold set_pend. rewrite (si_infun _ _ _ I). reflexivity.
  Qed.

  Lemma addp_inv next gk st r : SInv next gk st -> wfr r -> SInv next gk (addp next gk r st).
  Proof.
    intros I Hr. unfold addp. destruct (known next gk r); [assumption|].
    destruct (plookup (ref_name f r) (rs_pend st)) eqn:P; [assumption|].
    destruct I as [I1 I2 I3 I4]. constructor; cbn; try assumption.
    intros r' t Hr' H. destruct (String.eqb (ref_name f r') (ref_name f r)) eqn:E.
    - apply String.eqb_eq in E. apply ref_inj in E; try assumption. subst. now inversion H.
    - now apply I4.
  Qed.
  Lemma addps_inv next gk l : forall st, SInv next gk st -> Forall wfr l -> SInv next gk (addps next gk l st).
  Proof.
    induction l as [|r l IH]; intros st I Hl; [assumption|]. inversion Hl; subst.
    cbn [addps fold_left]. apply IH; [|assumption]. now apply addp_inv.
  Qed.
  Lemma addp_bmap next gk r st : rs_bmap (addp next gk r st) = rs_bmap st.
  Proof. unfold addp. destruct (known next gk r); [reflexivity|]. now destruct (plookup _ _). Qed.
  Lemma addp_next next gk r st : rs_next (addp next gk r st) = rs_next st.
  Proof. unfold addp. destruct (known next gk r); [reflexivity|]. now destruct (plookup _ _). Qed.

  Lemma addps_cons next gk r l st : addps next gk (r :: l) st = addps next gk l (addp next gk r st).
  Proof. reflexivity. Qed.
  Lemma addps_bmap next gk l : forall st, rs_bmap (addps next gk l st) = rs_bmap st.
  Proof. induction l as [|r l IH]; intros st; [reflexivity|]. rewrite addps_cons, IH. apply addp_bmap. Qed.
  Lemma addps_next next gk l : forall st, rs_next (addps next gk l st) = rs_next st.
  Proof. induction l as [|r l IH]; intros st; [reflexivity|]. rewrite addps_cons, IH. apply addp_next. Qed.
  Lemma addps_app next gk l1 l2 st : addps next gk (l1 ++ l2) st = addps next gk l2 (addps next gk l1 st).
  Proof. unfold addps. apply fold_left_app. Qed.

  Lemma get_args_inv next gk l : forall st, SInv next gk st -> Forall wfr l ->
    get_args vt (map (fun r => JStr (ref_name f r)) l) st = Ok (map (hide next gk) l, addps next gk l st).
  Proof.
    induction l as [|r l IH]; intros st I Hl; [reflexivity|]. inversion Hl; subst.
    cbn [map get_args as_str bind]. rewrite (gvr_inv next gk) by (auto). 
    rewrite IH by (try apply addp_inv; assumption). reflexivity.
  Qed.

  Lemma mem_pos_app b l1 l2 : mem_pos b (l1 ++ l2) = mem_pos b l1 || mem_pos b l2.
  Proof. induction l1 as [|x l1 IH]; [reflexivity|]. cbn. rewrite IH. now rewrite orb_assoc. Qed.
  Lemma nodup_pos_mid l1 b l2 : nodup_pos (l1 ++ b :: l2) = true ->
    mem_pos b l1 = false /\ nodup_pos ((l1 ++ [b]) ++ l2) = true.
  Proof.
    induction l1 as [|x l1 IH]; cbn [app nodup_pos mem_pos]; intros H.
    - split; [reflexivity | exact H].
    - apply andb_prop in H. destruct H as [H1 H2]. destruct (IH H2) as [A B]. split.
      + rewrite mem_pos_app in H1. cbn [mem_pos] in H1. destruct (Pos.eqb_spec b x) as [->|N].
        * rewrite Pos.eqb_refl in H1. rewrite orb_true_r in H1. discriminate.
        * exact A.
      + rewrite B, andb_true_r. rewrite <- app_assoc. cbn [app]. exact H1.
  Qed.

  Definition wphi (p : bid * vref) : json :=
    JObj [("block", JStr (block_name f (fst p))); ("value", JStr (ref_name f (snd p)))].
  Lemma get_phi_inv next gk t ins : forall acc st, SInv next gk st ->
    (forall p, In p ins -> wfr (snd p) /\ vref_ty f (snd p) = t /\
                            blookup (block_name f (fst p)) (rs_bmap st) = Some (fst p)) ->
    nodup_pos (map fst acc ++ map fst ins) = true ->
    get_phi_inputs vt t (map wphi ins) acc st =
      Ok (acc ++ map (fun p => (fst p, hide next gk (snd p))) ins, addps next gk (map snd ins) st).
  Proof.
    induction ins as [|[b r] ins IH]; intros acc st I H N.
    - cbn. now rewrite app_nil_r.
    - destruct (H (b, r) (or_introl eq_refl)) as (Hr & Ht & Hb). cbn [fst snd] in *.
      cbn [map get_phi_inputs]. unfold jstr at 1 2, wphi at 1 2.
      cbn [jget jlookup String.eqb Ascii.eqb Bool.eqb bind as_str fst snd].
      unfold get_block_ref. rewrite Hb. cbn [bind].
      rewrite (gvr_inv next gk) by (auto). rewrite Ht.
      replace (ty_eqb t t) with true by (symmetry; now apply ty_eqb_spec). cbn [check bind].
      cbn [map fst] in N. destruct (nodup_pos_mid _ _ _ N) as [M N']. rewrite M.
      rewrite IH.
      + rewrite <- app_assoc. reflexivity.
      + now apply addp_inv.
      + intros p Hp. destruct (H p (or_intror Hp)) as (A & B & C). rewrite addp_bmap. auto.
      + rewrite map_app. exact N'.
  Qed.

  Definition phi_blocks (i : instr) : list bid := match i with IPhi _ _ _ ins => map fst ins | _ => [] end.
  Definition fin (i' : instr) (st : rst) : result rst :=
    match instr_def i' with Some _ => finish_value cfg_fixed i' st | None => add_instruction i' st end.

  Local Arguments gvr : simpl never.
  Local Arguments finish_value : simpl never.
  Local Arguments add_instruction : simpl never.
  Local Arguments get_type : simpl never.
  Local Arguments write_type : simpl never.
  Local Arguments asc2bin : simpl never.
  Local Arguments bin2asc : simpl never.
  Local Arguments get_args : simpl never.
  Local Arguments get_phi_inputs : simpl never.
  Local Arguments read_const : simpl never.
  Local Arguments write_const : simpl never.

  Ltac jred := cbn [jget jlookup String.eqb Ascii.eqb Bool.eqb bind as_str as_int as_list fix_volatile fix_copyblob
                    fix_undefined cfg_fixed andb check negb].
  Ltac tyok H := rewrite H; cbn [check bind].

  Lemma read_instr next gk st i j :
    SInv next gk st ->
    Forall wfr (instr_uses i) ->
    ctor_ok_instr f i = true ->
    (forall b, In b (instr_targets i ++ phi_blocks i) -> blookup (block_name f b) (rs_bmap st) = Some b) ->
    nodup_pos (phi_blocks i) = true ->
    (forall v n t, instr_def i = Some (v, n, t) -> v = rs_next st) ->
    write_instruction cfg_fixed f i = Ok j ->
    construct_instruction cfg_fixed vt j st = fin (map_refs (hide next gk) i) (addps next gk (instr_uses i) st).
  Proof.
    intros I Hu Hc Hb Hn Hv Hw.
    destruct i; cbn in Hw; inversion Hw; subst j; clear Hw;
      cbn [instr_def] in Hv; try (pose proof (Hv _ _ _ eq_refl) as Ev; subst v);
      cbn [instr_uses] in Hu; cbn [ctor_ok_instr] in Hc;
      unfold construct_instruction, jstr, jint, jvol, jbool; jred;
      cbn [map_refs instr_uses addps fold_left]; unfold fin; cbn [instr_def].
    - (* const *) rewrite type_roundtrip. jred. rewrite const_roundtrip. reflexivity.
    - (* binop *) inversion Hu as [|? ? Ha Hu']; subst. inversion Hu' as [|? ? Hb' _]; subst.
      apply andb_prop in Hc. destruct Hc as [C1 C2].
      rewrite type_roundtrip. jred.
      rewrite (gvr_inv next gk) by auto. rewrite (gvr_inv next gk) by (auto using addp_inv).
      rewrite binop_name_roundtrip. tyok C1. tyok C2. reflexivity.
    - (* unop *) inversion Hu as [|? ? Ha _]; subst.
      rewrite type_roundtrip. jred. rewrite (gvr_inv next gk) by auto.
      rewrite unop_name_roundtrip. tyok Hc. reflexivity.
    - (* cast *) inversion Hu as [|? ? Ha _]; subst.
      rewrite type_roundtrip. jred. rewrite (gvr_inv next gk) by auto. reflexivity.
    - (* load *) inversion Hu as [|? ? Ha _]; subst. apply andb_prop in Hc. destruct Hc as [C1 C2].
      rewrite type_roundtrip. jred. rewrite (gvr_inv next gk) by auto. jred. tyok C1. tyok C2. reflexivity.
    - (* store *) inversion Hu as [|? ? Ha Hu']; subst. inversion Hu' as [|? ? Hb' _]; subst.
      rewrite (gvr_inv next gk) by auto. rewrite (gvr_inv next gk) by (auto using addp_inv).
      jred. tyok Hc. reflexivity.
    - (* alloc *) tyok Hc. reflexivity.
    - (* addressof *) inversion Hu as [|? ? Ha _]; subst.
      rewrite type_roundtrip. jred. rewrite (gvr_inv next gk) by auto. tyok Hc. reflexivity.
    - (* literal *) rewrite bytes_roundtrip by assumption. reflexivity.
    - (* copyblob *) inversion Hu as [|? ? Ha Hu']; subst. inversion Hu' as [|? ? Hb' _]; subst.
      rewrite (gvr_inv next gk) by auto. rewrite (gvr_inv next gk) by (auto using addp_inv). reflexivity.
    - (* phi *) rewrite type_roundtrip. jred.
      change (map (fun p : bid * vref => JObj [("block", JStr (block_name f (fst p))); ("value", JStr (ref_name f (snd p)))]) ins)
        with (map wphi ins).
      rewrite (get_phi_inv next gk t ins [] st I).
      + reflexivity.
      + intros p Hp. rewrite forallb_forall in Hc. rewrite Forall_forall in Hu. repeat split.
        * apply Hu. now apply in_map.
        * apply ty_eqb_spec. now apply Hc.
        * apply Hb. cbn [instr_targets phi_blocks app]. now apply in_map.
      + exact Hn.
    - (* undefined *) rewrite type_roundtrip. reflexivity.
    - (* callf *) inversion Hu as [|? ? Ha Hu']; subst.
      rewrite type_roundtrip. jred. rewrite (gvr_inv next gk) by auto.
      rewrite (get_args_inv next gk) by (auto using addp_inv). jred. tyok Hc. reflexivity.
    - (* callp *) inversion Hu as [|? ? Ha Hu']; subst.
      rewrite (gvr_inv next gk) by auto.
      rewrite (get_args_inv next gk) by (auto using addp_inv). jred. tyok Hc. reflexivity.
    - (* jump *) unfold get_block_ref. rewrite Hb by (cbn; auto). reflexivity.
    - (* cjump *) inversion Hu as [|? ? Ha Hu']; subst. inversion Hu' as [|? ? Hb' _]; subst.
      rewrite (gvr_inv next gk) by auto. rewrite (gvr_inv next gk) by (auto using addp_inv).
      unfold get_block_ref. rewrite !addp_bmap. rewrite (Hb yes) by (cbn; auto). rewrite (Hb no) by (cbn; auto).
      jred. rewrite cond_name_roundtrip. reflexivity.
    - (* return *) inversion Hu as [|? ? Ha _]; subst. rewrite (gvr_inv next gk) by auto. reflexivity.
    - (* exit *) reflexivity.
  Qed.
End Fun.
