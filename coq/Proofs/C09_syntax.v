(* Proofs/C09_syntax.v — generic lemmas about Model/AsmSyntax.v:
   (1) a well-formed entry's own production recognises its printed token sequence and recovers the operands;
   (2) unify_dir is a sound over-approximation of "production t recognises a printed form of production s";
   (3) the pair list computed by ambiguous_pairs is complete. *)
From PV Require Import Lib.Py Model.AsmSyntax.
From Coq Require Import String Ascii Lia.
Open Scope Z_scope.

Section Generic.
Variable kwl : bool.
Variable kws : list string.
Variable regs : list regclass.

(* ---------------------------------------------------------------- small facts *)
Lemma render_strip : forall syn ops, render regs syn ops = render regs (strip_sp syn) ops.
Proof.
  induction syn as [|a r IH]; intros ops; [reflexivity|].
  destruct a; cbn [strip_sp render];
    try (match goal with |- context [render_atom regs ?a ops] => destruct (render_atom regs a ops) as [[ts ops']|] end;
         [rewrite IH; reflexivity | reflexivity]).
  cbn [render_atom]. rewrite IH. destruct (render regs (strip_sp r) ops); reflexivity.
Qed.

Lemma atoms_eqb_eq : forall x y, atoms_eqb x y = true -> x = y.
Proof.
  induction x as [|a x IH]; destruct y as [|b y]; cbn; intros H; try discriminate; [reflexivity|].
  apply andb_true_iff in H. destruct H as [H1 H2]. f_equal; [|apply IH; exact H2].
  destruct a, b; cbn in H1; try discriminate; try reflexivity.
  - apply String.eqb_eq in H1. subst. reflexivity.
  - apply String.eqb_eq in H1. subst. reflexivity.
  - apply Nat.eqb_eq in H1. subst. reflexivity.
Qed.

Lemma regs_found_nth : forall rules rs k0 k nm x,
  regs_found kws rules k0 rs = true -> nth_error rs k = Some (nm, x) ->
  smem (lower nm) kws = true /\ find_word (lower nm) rules = Some (k0 + k)%nat.
Proof.
  induction rs as [|[n1 x1] rs IH]; intros k0 k nm x H Hn.
  - destruct k; discriminate.
  - cbn [regs_found] in H. apply andb_true_iff in H. destruct H as [H H3].
    apply andb_true_iff in H. destruct H as [H1 H2].
    destruct k as [|k].
    + cbn in Hn. inversion Hn; subst. split; [exact H1|].
      destruct (find_word (lower nm) rules); [|discriminate].
      apply Nat.eqb_eq in H2. subst. f_equal. lia.
    + cbn in Hn. destruct (IH (S k0) k nm x H3 Hn) as [A B]. split; [exact A|].
      rewrite B. f_equal. lia.
Qed.

Lemma word_typ_kw : forall w, smem w kws = true -> String.eqb (lower w) w = true -> word_typ kws w = Some w.
Proof.
  intros w H1 H2. apply String.eqb_eq in H2. unfold word_typ. rewrite H2, H1. reflexivity.
Qed.

Lemma reg_render_facts : forall c k nm x,
  atom_ok kws regs (AReg c) = true -> nth_error (rc_regs (rc_at regs c)) k = Some (nm, x) ->
  word_typ kws nm = Some (lower nm) /\ find_word (lower nm) (rc_rules (rc_at regs c)) = Some k.
Proof.
  intros c k nm x H Hn. cbn [atom_ok] in H. apply andb_true_iff in H. destruct H as [_ H].
  unfold reg_ok in H. apply andb_true_iff in H. destruct H as [H _].
  destruct (regs_found_nth _ _ _ _ _ _ H Hn) as [A B]. split.
  - unfold word_typ. rewrite A. reflexivity.
  - exact B.
Qed.

(* ---------------------------------------------------------------- (1) own production recognises the printed form *)
Lemma atom_roundtrip : forall a r ops,
  atom_ok kws regs a = true -> ops_ok kws regs (a :: r) ops = true ->
  exists ts ops' o,
    render_atom regs a ops = Some (ts, ops') /\
    (forall rest, match_atom kwl kws regs a (ts ++ rest) = Some (o, rest)) /\
    ops = (match o with Some v => v :: ops' | None => ops' end) /\
    ops_ok kws regs r ops' = true.
Proof.
  intros a r ops Ha Ho. destruct a; cbn [atom_ok] in Ha; try discriminate.
  - (* ALit *) apply andb_true_iff in Ha. destruct Ha as [H1 H2].
    exists [TWord w], ops, None. cbn [ops_ok] in Ho. repeat split; auto.
    intros rest. cbn [app match_atom]. rewrite (word_typ_kw w H1 H2). rewrite String.eqb_refl. reflexivity.
  - (* AGl *) exists [TGlyph g], ops, None. cbn [ops_ok] in Ho. repeat split; auto.
    intros rest. cbn [app match_atom]. rewrite String.eqb_refl. reflexivity.
  - (* AReg *) cbn [ops_ok] in Ho. destruct ops as [|[k|z|s] ops']; try discriminate.
    apply andb_true_iff in Ho. destruct Ho as [Hk Ho]. apply Nat.ltb_lt in Hk.
    destruct (nth_error (rc_regs (rc_at regs c)) k) as [[nm x]|] eqn:Hn.
    2:{ apply nth_error_None in Hn. lia. }
    destruct (reg_render_facts c k nm x Ha Hn) as [A B].
    exists [TWord nm], ops', (Some (VReg k)). cbn [render_atom]. rewrite Hn. repeat split; auto.
    intros rest. cbn [app match_atom]. rewrite A, B. reflexivity.
  - (* AImm *) cbn [ops_ok] in Ho. destruct ops as [|[k|z|s] ops']; try discriminate.
    exists (if z <? 0 then [TGlyph "-"; TNum (- z)] else [TNum z]), ops', (Some (VImm z)).
    cbn [render_atom]. repeat split; auto.
    intros rest. destruct (z <? 0); cbn [app match_atom].
    + rewrite String.eqb_refl. rewrite Z.opp_involutive. reflexivity.
    + reflexivity.
  - (* ALab *) cbn [ops_ok] in Ho. destruct ops as [|[k|z|s] ops']; try discriminate.
    apply andb_true_iff in Ho. destruct Ho as [Hl Ho].
    exists [TWord s], ops', (Some (VLabel s)). cbn [render_atom]. repeat split; auto.
    intros rest. cbn [app match_atom]. unfold label_ok in Hl. apply andb_true_iff in Hl. destruct Hl as [_ Hl].
    apply negb_true_iff in Hl. unfold word_typ. rewrite Hl. reflexivity.
Qed.

Lemma rule_roundtrip : forall rule ops,
  forallb (atom_ok kws regs) rule = true -> ops_ok kws regs rule ops = true ->
  exists toks, render regs rule ops = Some toks /\ matches kwl kws regs rule toks = Some ops.
Proof.
  induction rule as [|a r IH]; intros ops Hw Ho.
  - destruct ops; [|discriminate]. exists []. split; reflexivity.
  - cbn [forallb] in Hw. apply andb_true_iff in Hw. destruct Hw as [Ha Hr].
    destruct (atom_roundtrip a r ops Ha Ho) as (ts & ops' & o & R & M & E & O).
    destruct (IH ops' Hr O) as (toks' & R' & M').
    exists (ts ++ toks'). cbn [render matches]. rewrite R, R', M, M'. split; [reflexivity|].
    rewrite E. reflexivity.
Qed.

Theorem entry_render_matches : forall e ops,
  wf_entry kws regs e = true -> ops_ok kws regs (s_rule e) ops = true ->
  exists toks, render regs (s_syn e) ops = Some toks /\ matches kwl kws regs (s_rule e) toks = Some ops.
Proof.
  intros e ops Hw Ho. unfold wf_entry in Hw.
  apply andb_true_iff in Hw. destruct Hw as [Hw H3]. apply andb_true_iff in Hw. destruct Hw as [H1 _].
  apply atoms_eqb_eq in H1. rewrite render_strip, H1. apply rule_roundtrip; assumption.
Qed.

(* ---------------------------------------------------------------- (2) soundness of unify_dir *)
Lemma render_cons : forall a s' ops toks,
  render regs (a :: s') ops = Some toks ->
  exists ts ops' toks', render_atom regs a ops = Some (ts, ops') /\ render regs s' ops' = Some toks' /\ toks = ts ++ toks'.
Proof.
  intros a s' ops toks H. cbn [render] in H.
  destruct (render_atom regs a ops) as [[ts ops']|] eqn:E1; [|discriminate].
  destruct (render regs s' ops') as [toks'|] eqn:E2; [|discriminate].
  inversion H. exists ts, ops', toks'. repeat split; auto.
Qed.

Lemma matches_nil_toks : forall b t', matches kwl kws regs (b :: t') [] = None.
Proof. intros b t'. cbn [matches]. destruct b; reflexivity. Qed.

(* the printed form of a production that does not start with an int operand does not start with a number *)
Lemma head_not_num : forall s ops toks,
  forallb (atom_ok kws regs) s = true -> render regs s ops = Some toks ->
  match s with AImm :: _ => False | _ => True end ->
  match toks with TNum _ :: _ => False | _ => True end.
Proof.
  intros s ops toks Hw Hr Hs. destruct s as [|a s'].
  - cbn in Hr. destruct ops; inversion Hr. exact I.
  - destruct (render_cons _ _ _ _ Hr) as (ts & ops' & toks' & R & _ & E). subst toks.
    cbn [forallb] in Hw. apply andb_true_iff in Hw. destruct Hw as [Ha _].
    destruct a; cbn in Ha; try discriminate; try contradiction; cbn [render_atom] in R.
    + inversion R. exact I.
    + inversion R. exact I.
    + destruct ops as [|[k|z|l] o]; try discriminate.
      destruct (nth_error (rc_regs (rc_at regs c)) k) as [[nm x]|]; inversion R. exact I.
    + destruct ops as [|[k|z|l] o]; try discriminate. inversion R. exact I.
Qed.

Lemma words_meet_none : forall a b w k,
  words_meet a b = false -> find_word w a = Some k -> find_word w b = None.
Proof.
  induction a as [|[x kx] a IH]; intros b w k Hm Hf; [discriminate|].
  cbn [words_meet] in Hm. cbn [find_word] in Hf.
  destruct (find_word x b) eqn:Hx; [discriminate|].
  destruct (String.eqb w x) eqn:E.
  - apply String.eqb_eq in E. subst. exact Hx.
  - eapply IH; eauto.
Qed.

Ltac fin_none :=
  repeat match goal with
  | |- None = None => reflexivity
  | |- context [if ?c then _ else _] => destruct c eqn:?
  | |- context [match matches kwl kws regs ?t ?k with _ => _ end] => destruct (matches kwl kws regs t k) eqn:?
  | _ => progress cbn [andb orb] in *
  | _ => discriminate
  | _ => congruence
  end.

Lemma unify_dir_sound_n : forall n s t ops toks,
  (List.length s <= n)%nat ->
  forallb (atom_ok kws regs) s = true -> ops_ok kws regs s ops = true ->
  render regs s ops = Some toks -> unify_dir regs s t = false -> matches kwl kws regs t toks = None.
Proof.
  induction n as [|n IH]; intros s t ops toks Hl Hw Ho Hr Hu.
  - destruct s; [|cbn in Hl; lia]. cbn in Hr. destruct ops; inversion Hr.
    destruct t as [|b t']; [discriminate|]. apply matches_nil_toks.
  - destruct s as [|a s'].
    { cbn in Hr. destruct ops; inversion Hr. destruct t as [|b t']; [discriminate|]. apply matches_nil_toks. }
    cbn [List.length] in Hl.
    cbn [forallb] in Hw. apply andb_true_iff in Hw. destruct Hw as [Ha Hw'].
    destruct (atom_roundtrip a s' ops Ha Ho) as (ts & ops' & o & R & M & E & O).
    destruct (render_cons _ _ _ _ Hr) as (ts0 & ops0 & toks' & R0 & R' & Et).
    rewrite R in R0. inversion R0; subst ts0 ops0. clear R0. subst toks.
    assert (IHs' : forall t', unify_dir regs s' t' = false -> matches kwl kws regs t' toks' = None).
    { intros t' U. apply (IH s' t' ops' toks'); auto. lia. }
    destruct t as [|b t'].
    { destruct a; cbn in Ha; try discriminate; cbn [render_atom] in R.
      - inversion R. reflexivity.
      - inversion R. reflexivity.
      - destruct ops as [|[k|z|l] oo]; try discriminate.
        destruct (nth_error (rc_regs (rc_at regs c)) k) as [[nm x]|]; inversion R. reflexivity.
      - destruct ops as [|[k|z|l] oo]; try discriminate. inversion R. destruct (z <? 0); reflexivity.
      - destruct ops as [|[k|z|l] oo]; try discriminate. inversion R. reflexivity. }
    destruct a; cbn in Ha; try discriminate.
    + (* s starts with a literal word *)
      apply andb_true_iff in Ha. destruct Ha as [H1 H2].
      cbn [render_atom] in R. inversion R; subst ts ops'. clear R.
      pose proof (word_typ_kw w H1 H2) as WT.
      destruct b; cbn [unify_dir] in Hu; cbn [app matches match_atom]; try reflexivity; rewrite WT.
      * destruct (String.eqb w w0) eqn:E1; [|reflexivity]. cbn [andb] in Hu. rewrite (IHs' t' Hu). reflexivity.
      * unfold has_word in Hu. destruct (find_word w (rc_rules (rc_at regs c))); [|reflexivity].
        cbn [andb] in Hu. rewrite (IHs' t' Hu). reflexivity.
      * rewrite (IHs' t' Hu). reflexivity.
    + (* s starts with a glyph *)
      cbn [render_atom] in R. inversion R; subst ts ops'. clear R.
      destruct b; cbn [unify_dir] in Hu; cbn [app matches match_atom]; try reflexivity.
      * destruct (String.eqb g g0) eqn:E1; [|reflexivity].
        cbn [andb] in Hu. rewrite (IHs' t' Hu). reflexivity.
      * (* t reads "-" NUMBER as a negative int *)
        destruct toks' as [|[w0|n0|g0] toks'']; try reflexivity.
        destruct (String.eqb g "-") eqn:E1; [|reflexivity]. cbn [andb] in Hu.
        destruct s' as [|a2 s''].
        { cbn in R'. destruct ops; discriminate. }
        destruct a2; try (exfalso; exact (head_not_num _ _ _ Hw' R' I)).
        cbn [forallb] in Hw'. apply andb_true_iff in Hw'. destruct Hw' as [_ Hw''].
        destruct (render_cons _ _ _ _ R') as (ts2 & ops2 & toks2 & Ra & Rb & Ec).
        cbn [render_atom] in Ra. destruct ops as [|[k|z|l] oo]; try discriminate.
        inversion Ra; subst ts2 ops2. clear Ra.
        cbn [ops_ok] in O.
        destruct (z <? 0); cbn [app] in Ec; inversion Ec; subst.
        rewrite (IH s'' t' oo toks2); auto. cbn [List.length] in Hl. lia.
    + (* s starts with a register *)
      cbn [render_atom] in R. destruct ops as [|[k|z|l] oo]; try discriminate.
      destruct (nth_error (rc_regs (rc_at regs c)) k) as [[nm x]|] eqn:Hn; [|discriminate].
      inversion R; subst ts ops'. clear R.
      assert (Hok : atom_ok kws regs (AReg c) = true) by exact Ha.
      destruct (reg_render_facts c k nm x Hok Hn) as [WT FW].
      destruct b; cbn [unify_dir] in Hu; cbn [app matches match_atom]; try reflexivity; rewrite WT.
      * destruct (String.eqb (lower nm) w) eqn:E1; [|reflexivity].
        apply String.eqb_eq in E1. subst w. unfold has_word in Hu. rewrite FW in Hu. cbn [andb] in Hu.
        rewrite (IHs' t' Hu). reflexivity.
      * destruct (words_meet (rc_rules (rc_at regs c)) (rc_rules (rc_at regs c0))) eqn:Wm.
        -- cbn [andb] in Hu. destruct (find_word (lower nm) (rc_rules (rc_at regs c0))); [|reflexivity].
           rewrite (IHs' t' Hu). reflexivity.
        -- rewrite (words_meet_none _ _ _ _ Wm FW). reflexivity.
      * rewrite (IHs' t' Hu). reflexivity.
    + (* s starts with an int operand *)
      cbn [render_atom] in R. destruct ops as [|[k|z|l] oo]; try discriminate.
      inversion R; subst ts ops'. clear R.
      destruct b; cbn [unify_dir] in Hu; destruct (z <? 0); cbn [app matches match_atom]; try reflexivity.
      * (* "-" then the number *)
        destruct (String.eqb "-" g) eqn:E2; [|reflexivity].
        assert (String.eqb g "-" = true) as E1 by (rewrite String.eqb_sym; exact E2).
        rewrite E1 in Hu. cbn [andb] in Hu.
        destruct t' as [|b2 t'']; [reflexivity|].
        destruct b2; cbn [matches match_atom]; try reflexivity.
        rewrite (IHs' t'' Hu). reflexivity.
      * rewrite String.eqb_refl. rewrite (IHs' t' Hu). reflexivity.
      * rewrite (IHs' t' Hu). reflexivity.
    + (* s starts with a label operand *)
      cbn [render_atom] in R. destruct ops as [|[k|z|l] oo]; try discriminate.
      inversion R; subst ts ops'. clear R.
      cbn [ops_ok] in Ho. apply andb_true_iff in Ho. destruct Ho as [Hlab _].
      unfold label_ok in Hlab. apply andb_true_iff in Hlab. destruct Hlab as [_ Hlab]. apply negb_true_iff in Hlab.
      assert (WT : word_typ kws l = None) by (unfold word_typ; rewrite Hlab; reflexivity).
      destruct b; cbn [unify_dir] in Hu; cbn [app matches match_atom]; try reflexivity; rewrite WT; try reflexivity.
      rewrite (IHs' t' Hu). reflexivity.
Qed.

Theorem unify_dir_sound : forall s t ops toks,
  forallb (atom_ok kws regs) s = true -> ops_ok kws regs s ops = true ->
  render regs s ops = Some toks -> unify_dir regs s t = false -> matches kwl kws regs t toks = None.
Proof. intros. eapply unify_dir_sound_n; eauto. Qed.

(* ---------------------------------------------------------------- (3) the computed pair list is complete *)
Definition dflt : sentry := mkS "" "" 0 [AOther] [AOther].

Lemma amb_with_complete : forall r i a j0 m,
  (m < List.length r)%nat -> unify regs a (s_rule (nth m r dflt)) = true ->
  In (i, (j0 + m)%nat) (amb_with regs i a j0 r).
Proof.
  induction r as [|e r IH]; intros i a j0 m Hm Hu; [cbn in Hm; lia|].
  cbn [amb_with]. apply in_or_app. destruct m as [|m].
  - left. cbn [nth] in Hu. rewrite Hu. replace (j0 + 0)%nat with j0 by lia. left. reflexivity.
  - right. cbn [nth] in Hu. cbn [List.length] in Hm.
    replace (j0 + S m)%nat with (S j0 + m)%nat by lia. apply IH; [lia|exact Hu].
Qed.

Lemma amb_from_complete : forall l k i j,
  (i < j)%nat -> (j < List.length l)%nat ->
  unify regs (s_rule (nth i l dflt)) (s_rule (nth j l dflt)) = true ->
  In ((k + i)%nat, (k + j)%nat) (amb_from regs k l).
Proof.
  induction l as [|e r IH]; intros k i j Hij Hj Hu; [cbn in Hj; lia|].
  cbn [amb_from]. apply in_or_app. cbn [List.length] in Hj.
  destruct j as [|j]; [lia|]. destruct i as [|i].
  - left. cbn [nth] in Hu. replace (k + 0)%nat with k by lia.
    replace (k + S j)%nat with (S k + j)%nat by lia. apply amb_with_complete; [lia|exact Hu].
  - right. cbn [nth] in Hu. replace (k + S i)%nat with (S k + i)%nat by lia.
    replace (k + S j)%nat with (S k + j)%nat by lia. apply IH; [lia|lia|exact Hu].
Qed.

Lemma ambiguous_pairs_complete : forall l i j,
  (i < j)%nat -> (j < List.length l)%nat ->
  unify regs (s_rule (entry_at l i)) (s_rule (entry_at l j)) = true ->
  In (i, j) (ambiguous_pairs regs l).
Proof. intros l i j H1 H2 H3. apply (amb_from_complete l 0 i j H1 H2 H3). Qed.

End Generic.

Lemma pairs_eqb_eq : forall x y, pairs_eqb x y = true -> x = y.
Proof.
  induction x as [|[a b] x IH]; destruct y as [|[c d] y]; cbn; intros H; try discriminate; [reflexivity|].
  apply andb_true_iff in H. destruct H as [H1 H2]. unfold pair_eqb in H1. cbn in H1.
  apply andb_true_iff in H1. destruct H1 as [Ha Hb]. apply Nat.eqb_eq in Ha, Hb. subst.
  f_equal. apply IH. exact H2.
Qed.

Lemma in_pairs_In : forall a b l, In (a, b) l -> in_pairs a l = true /\ in_pairs b l = true.
Proof.
  intros a b l H. unfold in_pairs. split; apply existsb_exists; exists (a, b); (split; [exact H|]); cbn.
  - rewrite Nat.eqb_refl. reflexivity.
  - rewrite Nat.eqb_refl. apply orb_true_r.
Qed.

(* ---------------------------------------------------------------- table level *)
Definition table_facts (kws : list string) (regs : list regclass) (stab extra nonwf : list sentry)
                       (amb : list (nat * nat)) : Prop :=
  forallb (wf_entry kws regs) stab = true /\
  forallb (wf_rule kws regs) extra = true /\
  forallb (fun e => negb (wf_entry kws regs e)) nonwf = true /\
  pairs_eqb (ambiguous_pairs regs (stab ++ extra)) amb = true.

Lemma table_facts_reflect : forall kws regs stab extra nonwf amb,
  (forallb (wf_entry kws regs) stab && forallb (wf_rule kws regs) extra &&
   forallb (fun e => negb (wf_entry kws regs e)) nonwf &&
   pairs_eqb (ambiguous_pairs regs (stab ++ extra)) amb)%bool = true ->
  table_facts kws regs stab extra nonwf amb.
Proof.
  intros. repeat (match goal with H : (_ && _)%bool = true |- _ => apply andb_true_iff in H; destruct H end).
  unfold table_facts. auto.
Qed.

Section Table.
Variable kwl : bool.
Variables (kws : list string) (regs : list regclass) (stab extra nonwf : list sentry) (amb : list (nat * nat)).
Hypothesis TF : table_facts kws regs stab extra nonwf amb.

Lemma stab_wf : forall i, (i < List.length stab)%nat -> wf_entry kws regs (entry_at stab i) = true.
Proof.
  intros i Hi. destruct TF as [H _]. rewrite forallb_forall in H. apply H. apply nth_In. exact Hi.
Qed.

Theorem table_render_matches : forall i ops,
  (i < List.length stab)%nat -> ops_ok kws regs (s_rule (entry_at stab i)) ops = true ->
  exists toks, render regs (s_syn (entry_at stab i)) ops = Some toks /\
               matches kwl kws regs (s_rule (entry_at stab i)) toks = Some ops.
Proof. intros i ops Hi Ho. apply entry_render_matches; [apply stab_wf; exact Hi|exact Ho]. Qed.

Theorem table_unambiguous : forall i j ops toks,
  (i < List.length stab)%nat -> (j < List.length (stab ++ extra))%nat -> i <> j ->
  in_pairs i amb = false ->
  ops_ok kws regs (s_rule (entry_at stab i)) ops = true ->
  render regs (s_syn (entry_at stab i)) ops = Some toks ->
  matches kwl kws regs (s_rule (entry_at (stab ++ extra) j)) toks = None.
Proof.
  intros i j ops toks Hi Hj Hne Hamb Ho Hr.
  pose proof (stab_wf i Hi) as Hw. unfold wf_entry in Hw.
  apply andb_true_iff in Hw. destruct Hw as [Hw H3]. apply andb_true_iff in Hw. destruct Hw as [H1 _].
  apply atoms_eqb_eq in H1. rewrite render_strip, H1 in Hr.
  assert (Ei : entry_at (stab ++ extra) i = entry_at stab i).
  { unfold entry_at. apply app_nth1. exact Hi. }
  destruct (unify regs (s_rule (entry_at (stab ++ extra) i)) (s_rule (entry_at (stab ++ extra) j))) eqn:U.
  - exfalso. destruct TF as (_ & _ & _ & Hp). apply pairs_eqb_eq in Hp.
    assert (Hi' : (i < List.length (stab ++ extra))%nat) by (rewrite app_length; lia).
    destruct (Nat.lt_ge_cases i j) as [Hlt|Hge].
    + pose proof (ambiguous_pairs_complete regs _ i j Hlt Hj U) as Hin. rewrite Hp in Hin.
      destruct (in_pairs_In _ _ _ Hin) as [A _]. congruence.
    + assert (Hlt : (j < i)%nat) by lia.
      assert (U' : unify regs (s_rule (entry_at (stab ++ extra) j)) (s_rule (entry_at (stab ++ extra) i)) = true).
      { unfold unify in *. rewrite orb_comm. exact U. }
      pose proof (ambiguous_pairs_complete regs _ j i Hlt Hi' U') as Hin. rewrite Hp in Hin.
      destruct (in_pairs_In _ _ _ Hin) as [_ B]. congruence.
  - unfold unify in U. apply orb_false_iff in U. destruct U as [U _]. rewrite Ei in U.
    eapply unify_dir_sound; eauto.
Qed.

(* whatever production of the grammar recognises the printed form of a non-ambiguous class variant is that
   variant's own production, and it recovers the operands *)
Theorem table_roundtrip : forall i j ops ops' toks,
  (i < List.length stab)%nat -> (j < List.length (stab ++ extra))%nat ->
  in_pairs i amb = false ->
  ops_ok kws regs (s_rule (entry_at stab i)) ops = true ->
  render regs (s_syn (entry_at stab i)) ops = Some toks ->
  matches kwl kws regs (s_rule (entry_at (stab ++ extra) j)) toks = Some ops' ->
  j = i /\ ops' = ops.
Proof.
  intros i j ops ops' toks Hi Hj Hamb Ho Hr Hm.
  destruct (Nat.eq_dec i j) as [E|Hne].
  - subst j. split; [reflexivity|].
    assert (Ei : entry_at (stab ++ extra) i = entry_at stab i) by (unfold entry_at; apply app_nth1; exact Hi).
    rewrite Ei in Hm. destruct (table_render_matches i ops Hi Ho) as (toks0 & R & M).
    rewrite Hr in R. inversion R; subst toks0. rewrite Hm in M. inversion M. reflexivity.
  - rewrite (table_unambiguous i j ops toks Hi Hj Hne Hamb Ho Hr) in Hm. discriminate.
Qed.

End Table.

(* link to the C08 encoder model: the descriptor of a class variant is looked up by (class, variant) *)
From PV Require Import Model.Encode.

Definition desc_for (tab : list instr_desc) (e : sentry) : instr_desc :=
  match find (fun d => (String.eqb (d_class d) (s_cls e) && String.eqb (d_variant d) (s_variant e))%bool) tab with
  | Some d => d
  | None => empty_desc
  end.

Theorem table_roundtrip_bytes : forall kwl kws regs stab extra nonwf amb (tab : list instr_desc),
  table_facts kws regs stab extra nonwf amb ->
  forall i j ops ops' toks,
  (i < List.length stab)%nat -> (j < List.length (stab ++ extra))%nat ->
  in_pairs i amb = false ->
  ops_ok kws regs (s_rule (entry_at stab i)) ops = true ->
  render regs (s_syn (entry_at stab i)) ops = Some toks ->
  matches kwl kws regs (s_rule (entry_at (stab ++ extra) j)) toks = Some ops' ->
  encode_instr (desc_for tab (entry_at (stab ++ extra) j)) (zops regs (s_rule (entry_at (stab ++ extra) j)) ops') =
  encode_instr (desc_for tab (entry_at stab i)) (zops regs (s_rule (entry_at stab i)) ops).
Proof.
  intros kwl kws regs stab extra nonwf amb tab TF i j ops ops' toks Hi Hj Hamb Ho Hr Hm.
  destruct (table_roundtrip kwl kws regs stab extra nonwf amb TF i j ops ops' toks Hi Hj Hamb Ho Hr Hm) as [E1 E2].
  subst j ops'.
  assert (Ei : entry_at (stab ++ extra) i = entry_at stab i) by (unfold entry_at; apply app_nth1; exact Hi).
  rewrite Ei. reflexivity.
Qed.

(* keyword labels: with kwl = true (`$str$ -> <keyword>` returns the keyword, current ppci) a label that is a
   keyword written in another letter case is recognised as the lower-case keyword, not as the label printed *)
Theorem keyword_label_refuted :
  exists kws regs e s, wf_entry kws regs e = true /\ is_ident s = true /\
    exists toks, render regs (s_syn e) [VLabel s] = Some toks /\
                 matches true kws regs (s_rule e) toks = Some [VLabel (lower s)] /\ lower s <> s.
Proof.
  exists ["j"; "add"]%string, [], (mkS "B" "" 0 [ALit "j"; ASp; ALab] [ALit "j"; ALab]), "Add"%string.
  split; [vm_compute; reflexivity|]. split; [vm_compute; reflexivity|].
  exists [TWord "j"; TWord "Add"]. split; [reflexivity|]. split; [vm_compute; reflexivity|].
  vm_compute. discriminate.
Qed.
