(* Proofs/C08_rvspec.v — C08: the reference decoder inverts the reference field packing (spec-level, no ppci):
   for every base mnemonic, ALL register numbers 0..31 and ALL immediates of the format's range,
   decode_word (rv_encode mn args) = Some (mn, args).  One arithmetic lemma per format (R/I/L/S/B/U/J). *)
From Coq Require Import ZArith List String Lia.
From PV Require Import Spec.RV32Decode Spec.RV32Encode.
Import ListNotations.
Open Scope string_scope.
Open Scope Z_scope.

Ltac Zify.zify_post_hook ::= Z.to_euclidean_division_equations.

Ltac pows :=
  change (2^0) with 1 in *; change (2^1) with 2 in *; change (2^3) with 8 in *; change (2^4) with 16 in *;
  change (2^5) with 32 in *; change (2^6) with 64 in *; change (2^7) with 128 in *; change (2^8) with 256 in *;
  change (2^10) with 1024 in *; change (2^11) with 2048 in *; change (2^12) with 4096 in *; change (2^15) with 32768 in *;
  change (2^20) with 1048576 in *; change (2^21) with 2097152 in *; change (2^25) with 33554432 in *;
  change (2^31) with 2147483648 in *; change (2^32) with 4294967296 in *;
  change (2^(12-1)) with 2048 in *; change (2^(13-1)) with 4096 in *; change (2^13) with 8192 in *;
  change (2^(21-1)) with 1048576 in *; change (2^(5-1)) with 16 in *; change (2^(20-1)) with 524288 in *.

Ltac open_enc := unfold enc_fields, fval, fold_right, nth, bits, sext; pows.
Ltac close_sext := match goal with |- (if ?c then _ else _) = _ => destruct c eqn:?E end; lia.

Lemma fields_R opc f3 f7 rd rs1 rs2 :
  0 <= opc < 128 -> 0 <= f3 < 8 -> 0 <= f7 < 128 -> 0 <= rd < 32 -> 0 <= rs1 < 32 -> 0 <= rs2 < 32 ->
  let w := enc_fields (layout_R opc f3 f7) [rd; rs1; rs2] in
  bits w 0 7 = opc /\ bits w 7 5 = rd /\ bits w 12 3 = f3 /\ bits w 15 5 = rs1 /\ bits w 20 5 = rs2 /\ bits w 25 7 = f7.
Proof. intros. subst w. unfold layout_R. open_enc. repeat split; lia. Qed.

Lemma fields_I opc f3 rd rs1 imm :
  0 <= opc < 128 -> 0 <= f3 < 8 -> 0 <= rd < 32 -> 0 <= rs1 < 32 -> -2048 <= imm < 2048 ->
  let w := enc_fields (layout_I opc f3) [rd; rs1; imm] in
  bits w 0 7 = opc /\ bits w 7 5 = rd /\ bits w 12 3 = f3 /\ bits w 15 5 = rs1 /\ sext 12 (bits w 20 12) = imm.
Proof. intros. subst w. unfold layout_I. open_enc. repeat split; try lia. close_sext. Qed.

Lemma fields_L f3 rd imm rs1 :
  0 <= f3 < 8 -> 0 <= rd < 32 -> 0 <= rs1 < 32 -> -2048 <= imm < 2048 ->
  let w := enc_fields (layout_L f3) [rd; imm; rs1] in
  bits w 0 7 = 3 /\ bits w 7 5 = rd /\ bits w 12 3 = f3 /\ bits w 15 5 = rs1 /\ sext 12 (bits w 20 12) = imm.
Proof. intros. subst w. unfold layout_L. open_enc. repeat split; try lia. close_sext. Qed.

Lemma fields_S f3 rs2 imm rs1 :
  0 <= f3 < 8 -> 0 <= rs2 < 32 -> 0 <= rs1 < 32 -> -2048 <= imm < 2048 ->
  let w := enc_fields (layout_S f3) [rs2; imm; rs1] in
  bits w 0 7 = 35 /\ bits w 12 3 = f3 /\ bits w 15 5 = rs1 /\ bits w 20 5 = rs2 /\
  sext 12 (bits w 25 7 * 32 + bits w 7 5) = imm.
Proof. intros. subst w. unfold layout_S. open_enc. repeat split; try lia. close_sext. Qed.

Lemma fields_B f3 rs1 rs2 off :
  0 <= f3 < 8 -> 0 <= rs1 < 32 -> 0 <= rs2 < 32 -> -4096 <= off < 4096 -> off mod 2 = 0 ->
  let w := enc_fields (layout_B f3) [rs1; rs2; off] in
  bits w 0 7 = 99 /\ bits w 12 3 = f3 /\ bits w 15 5 = rs1 /\ bits w 20 5 = rs2 /\
  sext 13 (bits w 31 1 * 4096 + bits w 7 1 * 2048 + bits w 25 6 * 32 + bits w 8 4 * 2) = off.
Proof. intros. subst w. unfold layout_B. open_enc. repeat split; try lia. close_sext. Qed.

Lemma fields_U opc rd imm :
  0 <= opc < 128 -> 0 <= rd < 32 -> 0 <= imm < 1048576 ->
  let w := enc_fields (layout_U opc) [rd; imm] in
  bits w 0 7 = opc /\ bits w 7 5 = rd /\ bits w 12 20 = imm.
Proof. intros. subst w. unfold layout_U. open_enc. repeat split; lia. Qed.

Lemma fields_J rd off :
  0 <= rd < 32 -> -1048576 <= off < 1048576 -> off mod 2 = 0 ->
  let w := enc_fields layout_J [rd; off] in
  bits w 0 7 = 111 /\ bits w 7 5 = rd /\
  sext 21 (bits w 31 1 * 1048576 + bits w 12 8 * 4096 + bits w 20 1 * 2048 + bits w 21 10 * 2) = off.
Proof. intros. subst w. unfold layout_J. open_enc. repeat split; try lia. close_sext. Qed.

Lemma assoc_in {A} k (l : list (string * A)) v : assoc k l = Some v -> In (k, v) l.
Proof.
  induction l as [|[k' v'] r IH]; cbn; [discriminate|].
  destruct (String.eqb_spec k k'); intros H; [inversion H; subst; now left|right; auto].
Qed.

Ltac in_cases H := repeat (destruct H as [H|H]; [inversion H; subst; clear H|]); try contradiction.
Ltac use_fields F := cbv zeta in F; destruct F as (?&?&?&?&?&?) || destruct F as (?&?&?&?&?) || destruct F as (?&?&?) .
Ltac rw_all := repeat match goal with H : bits _ _ _ = _ |- _ => rewrite H; clear H | H : sext _ _ = _ |- _ => rewrite H; clear H end.

Lemma dec_R mn f3 f7 rd rs1 rs2 : In (mn, (f3, f7)) r_ops ->
  0 <= rd < 32 -> 0 <= rs1 < 32 -> 0 <= rs2 < 32 ->
  decode_word (enc_fields (layout_R 51 f3 f7) [rd; rs1; rs2]) = Some (mn, [rd; rs1; rs2]).
Proof.
  intros Hin ? ? ?. unfold r_ops in Hin. in_cases Hin;
  (match goal with |- decode_word (enc_fields (layout_R ?o ?a ?b) _) = _ =>
     pose proof (fields_R o a b rd rs1 rs2 ltac:(lia) ltac:(lia) ltac:(lia) ltac:(lia) ltac:(lia) ltac:(lia)) as F end;
   use_fields F; unfold decode_word; cbv zeta; rw_all; reflexivity).
Qed.

Lemma dec_Sh mn f3 f7 rd rs1 sh : In (mn, (f3, f7)) sh_ops ->
  0 <= rd < 32 -> 0 <= rs1 < 32 -> 0 <= sh < 32 ->
  decode_word (enc_fields (layout_R 19 f3 f7) [rd; rs1; sh]) = Some (mn, [rd; rs1; sh]).
Proof.
  intros Hin ? ? ?. unfold sh_ops in Hin. in_cases Hin;
  (match goal with |- decode_word (enc_fields (layout_R ?o ?a ?b) _) = _ =>
     pose proof (fields_R o a b rd rs1 sh ltac:(lia) ltac:(lia) ltac:(lia) ltac:(lia) ltac:(lia) ltac:(lia)) as F end;
   use_fields F; unfold decode_word; cbv zeta; rw_all; reflexivity).
Qed.

Lemma dec_I mn f3 rd rs1 imm : In (mn, f3) i_ops ->
  0 <= rd < 32 -> 0 <= rs1 < 32 -> -2048 <= imm < 2048 ->
  decode_word (enc_fields (layout_I 19 f3) [rd; rs1; imm]) = Some (mn, [rd; rs1; imm]).
Proof.
  intros Hin ? ? ?. unfold i_ops in Hin. in_cases Hin;
  (match goal with |- decode_word (enc_fields (layout_I ?o ?a) _) = _ =>
     pose proof (fields_I o a rd rs1 imm ltac:(lia) ltac:(lia) ltac:(lia) ltac:(lia) ltac:(lia)) as F end;
   use_fields F; unfold decode_word; cbv zeta; rw_all; reflexivity).
Qed.

Lemma dec_Jalr rd rs1 imm :
  0 <= rd < 32 -> 0 <= rs1 < 32 -> -2048 <= imm < 2048 ->
  decode_word (enc_fields (layout_I 103 0) [rd; rs1; imm]) = Some ("jalr", [rd; rs1; imm]).
Proof.
  intros. pose proof (fields_I 103 0 rd rs1 imm ltac:(lia) ltac:(lia) ltac:(lia) ltac:(lia) ltac:(lia)) as F.
  use_fields F; unfold decode_word; cbv zeta; rw_all; reflexivity.
Qed.

Lemma dec_L mn f3 rd imm rs1 : In (mn, f3) l_ops ->
  0 <= rd < 32 -> -2048 <= imm < 2048 -> 0 <= rs1 < 32 ->
  decode_word (enc_fields (layout_L f3) [rd; imm; rs1]) = Some (mn, [rd; imm; rs1]).
Proof.
  intros Hin ? ? ?. unfold l_ops in Hin. in_cases Hin;
  (match goal with |- decode_word (enc_fields (layout_L ?a) _) = _ =>
     pose proof (fields_L a rd imm rs1 ltac:(lia) ltac:(lia) ltac:(lia) ltac:(lia)) as F end;
   use_fields F; unfold decode_word; cbv zeta; rw_all; reflexivity).
Qed.

Lemma dec_S mn f3 rs2 imm rs1 : In (mn, f3) s_ops ->
  0 <= rs2 < 32 -> -2048 <= imm < 2048 -> 0 <= rs1 < 32 ->
  decode_word (enc_fields (layout_S f3) [rs2; imm; rs1]) = Some (mn, [rs2; imm; rs1]).
Proof.
  intros Hin ? ? ?. unfold s_ops in Hin. in_cases Hin;
  (match goal with |- decode_word (enc_fields (layout_S ?a) _) = _ =>
     pose proof (fields_S a rs2 imm rs1 ltac:(lia) ltac:(lia) ltac:(lia) ltac:(lia)) as F end;
   use_fields F; unfold decode_word; cbv zeta; rw_all; reflexivity).
Qed.

Lemma dec_B mn f3 rs1 rs2 off : In (mn, f3) b_ops ->
  0 <= rs1 < 32 -> 0 <= rs2 < 32 -> -4096 <= off < 4096 -> off mod 2 = 0 ->
  decode_word (enc_fields (layout_B f3) [rs1; rs2; off]) = Some (mn, [rs1; rs2; off]).
Proof.
  intros Hin ? ? ? ?. unfold b_ops in Hin. in_cases Hin;
  (match goal with |- decode_word (enc_fields (layout_B ?a) _) = _ =>
     pose proof (fields_B a rs1 rs2 off ltac:(lia) ltac:(lia) ltac:(lia) ltac:(lia) ltac:(assumption)) as F end;
   use_fields F; unfold decode_word; cbv zeta; rw_all; reflexivity).
Qed.

Lemma dec_U mn opc rd imm : In (mn, opc) u_ops ->
  0 <= rd < 32 -> 0 <= imm < 1048576 ->
  decode_word (enc_fields (layout_U opc) [rd; imm]) = Some (mn, [rd; imm]).
Proof.
  intros Hin ? ?. unfold u_ops in Hin. in_cases Hin;
  (match goal with |- decode_word (enc_fields (layout_U ?a) _) = _ =>
     pose proof (fields_U a rd imm ltac:(lia) ltac:(lia) ltac:(lia)) as F end;
   use_fields F; unfold decode_word; cbv zeta; rw_all; reflexivity).
Qed.

Lemma dec_J rd off :
  0 <= rd < 32 -> -1048576 <= off < 1048576 -> off mod 2 = 0 ->
  decode_word (enc_fields layout_J [rd; off]) = Some ("jal", [rd; off]).
Proof.
  intros. pose proof (fields_J rd off ltac:(lia) ltac:(lia) ltac:(assumption)) as F.
  use_fields F; unfold decode_word; cbv zeta; rw_all; reflexivity.
Qed.

Fixpoint args_ok (ks : list akind) (args : list Z) : Prop :=
  match ks, args with
  | [], [] => True
  | k :: kr, v :: vr => arg_ok k v /\ args_ok kr vr
  | _, _ => False
  end.

(* the reference decoder inverts the reference encoder: all registers, all immediates *)
Theorem rv_roundtrip mn fs ks args :
  rv_layout mn = Some (fs, ks) -> args_ok ks args -> decode_word (enc_fields fs args) = Some (mn, args).
Proof.
  unfold rv_layout. intros H Ha.
  destruct (assoc mn r_ops) as [[f3 f7]|] eqn:E1.
  { inversion H; subst. apply assoc_in in E1. destruct args as [|a [|b [|c [|]]]]; cbn in Ha; try tauto.
    apply dec_R; cbn in *; tauto. }
  destruct (assoc mn sh_ops) as [[f3 f7]|] eqn:E2.
  { inversion H; subst. apply assoc_in in E2. destruct args as [|a [|b [|c [|]]]]; cbn in Ha; try tauto.
    apply dec_Sh; cbn in *; tauto. }
  destruct (assoc mn i_ops) as [f3|] eqn:E3.
  { inversion H; subst. apply assoc_in in E3. destruct args as [|a [|b [|c [|]]]]; cbn in Ha; try tauto.
    apply dec_I; cbn in *; tauto. }
  destruct (assoc mn l_ops) as [f3|] eqn:E4.
  { inversion H; subst. apply assoc_in in E4. destruct args as [|a [|b [|c [|]]]]; cbn in Ha; try tauto.
    apply dec_L; cbn in *; tauto. }
  destruct (assoc mn s_ops) as [f3|] eqn:E5.
  { inversion H; subst. apply assoc_in in E5. destruct args as [|a [|b [|c [|]]]]; cbn in Ha; try tauto.
    apply dec_S; cbn in *; tauto. }
  destruct (assoc mn b_ops) as [f3|] eqn:E6.
  { inversion H; subst. apply assoc_in in E6. destruct args as [|a [|b [|c [|]]]]; cbn in Ha; try tauto.
    apply dec_B; cbn in *; tauto. }
  destruct (assoc mn u_ops) as [opc|] eqn:E7.
  { inversion H; subst. apply assoc_in in E7. destruct args as [|a [|b [|]]]; cbn in Ha; try tauto.
    apply dec_U; cbn in *; tauto. }
  destruct (String.eqb_spec mn "jal").
  { inversion H; subst. destruct args as [|a [|b [|]]]; cbn in Ha; try tauto.
    apply dec_J; cbn in *; tauto. }
  destruct (String.eqb_spec mn "jalr").
  { inversion H; subst. destruct args as [|a [|b [|c [|]]]]; cbn in Ha; try tauto.
    apply dec_Jalr; cbn in *; tauto. }
  destruct (String.eqb_spec mn "ecall").
  { inversion H; subst. destruct args; cbn in Ha; [reflexivity|tauto]. }
  destruct (String.eqb_spec mn "ebreak").
  { inversion H; subst. destruct args; cbn in Ha; [reflexivity|tauto]. }
  discriminate.
Qed.
