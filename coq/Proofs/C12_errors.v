(* Proofs/C12_errors.v — whole-link outcome analysis of Model.Linker for property C12:
   which inputs make link succeed, fail with which CompilerError (Diag code), or raise another
   exception (Internal); the model never runs out of fuel. *)
From PV Require Import Lib.Py Lib.Tac Spec.LinkSpec Model.Linker Proofs.C12_linker.
From Coq Require Import String.
Open Scope Z_scope.
Arguments sd_name : simpl never.

(* outcome analysis of a result *)
Definition rcase {A} (r : result A) (POk : A -> Prop) (PDiag : Z -> Prop) (PInt : Prop) : Prop :=
  match r with Ok a => POk a | Diag c => PDiag c | Internal _ => PInt | OutOfFuel => False end.

Lemma rcase_bind {A B} (r : result A) (f : A -> result B) P Q I P' :
  rcase r P Q I -> (forall a, P a -> rcase (f a) P' Q I) -> rcase (bind r f) P' Q I.
Proof. destruct r; cbn; auto. Qed.

Lemma rcase_weaken {A} (r : result A) (P P' : A -> Prop) (Q Q' : Z -> Prop) (I I' : Prop) :
  rcase r P Q I -> (forall a, P a -> P' a) -> (forall c, Q c -> Q' c) -> (I -> I') -> rcase r P' Q' I'.
Proof. destruct r; cbn; auto. Qed.

Lemma rcase_Ok {A} (r : result A) a P Q I : r = Ok a -> rcase r P Q I -> P a.
Proof. intros ->. auto. Qed.

(* ------------------------------------------------------------------ sections *)
Definition AInv (secs : list sect) : Prop := forall n s, find_sect n secs = Some s -> 1 <= s_align s.

Lemma inject_section_outcome secs inp :
  rcase (inject_section secs inp)
    (fun r => (forall n, find_sect n (fst r) <> None <-> (find_sect n secs <> None \/ n = s_name inp)) /\
              (AInv secs -> AInv (fst r)))
    (fun _ => False) (s_align inp = 0).
Proof.
  destruct (inject_section secs inp) as [[secs' off]|c|e|] eqn:E; cbn.
  - destruct (inject_section_spec _ _ _ _ E) as [_ [_ [Oth [s' [F [_ [_ Al]]]]]]]. split.
    + intros n. destruct (String.eqb n (s_name inp)) eqn:En.
      * apply String.eqb_eq in En. subst n. rewrite F. split; [auto | discriminate].
      * apply String.eqb_neq in En. rewrite Oth by assumption. tauto.
    + intros A n s Fn. destruct (String.eqb n (s_name inp)) eqn:En.
      * apply String.eqb_eq in En. subst n. rewrite F in Fn. injection Fn as <-. rewrite Al.
        destruct (find_sect (s_name inp) secs) as [s0|] eqn:F0; [specialize (A _ _ F0)|]; lia.
      * apply String.eqb_neq in En. rewrite Oth in Fn by assumption. eauto.
  - unfold inject_section in E. destruct (get_section_create (s_name inp) secs) as [secs1 out].
    destruct (Z.eq_dec (s_align inp) 0) as [Z0|Z0]; [rewrite Z0 in E; discriminate|].
    destruct (pad_to_spec (s_data out) _ Z0) as [k [_ [Hp _]]]. rewrite Hp in E. discriminate.
  - unfold inject_section in E. destruct (get_section_create (s_name inp) secs) as [secs1 out].
    destruct (Z.eq_dec (s_align inp) 0) as [Z0|Z0]; [assumption|].
    destruct (pad_to_spec (s_data out) _ Z0) as [k [_ [Hp _]]]. rewrite Hp in E. discriminate.
  - unfold inject_section in E. destruct (get_section_create (s_name inp) secs) as [secs1 out].
    destruct (Z.eq_dec (s_align inp) 0) as [Z0|Z0]; [rewrite Z0 in E; discriminate|].
    destruct (pad_to_spec (s_data out) _ Z0) as [k [_ [Hp _]]]. rewrite Hp in E. discriminate.
Qed.

Lemma inject_sections_outcome inps : forall secs,
  rcase (inject_sections secs inps)
    (fun r => map fst (snd r) = map s_name inps /\
              (forall n, find_sect n (fst r) <> None <-> (find_sect n secs <> None \/ In n (map s_name inps))) /\
              (AInv secs -> AInv (fst r)))
    (fun _ => False) (exists s, In s inps /\ s_align s = 0).
Proof.
  induction inps as [|i r IH]; intros secs; cbn [inject_sections].
  - cbn. split; [reflexivity|]. split; [intros n; cbn; tauto | auto].
  - eapply rcase_bind.
    + eapply rcase_weaken; [apply inject_section_outcome | intros a Pa; exact Pa | auto |].
      intros Z0. exists i. split; [now left | assumption].
    + intros [secs1 off] [N1 A1]. cbn [fst] in *. eapply rcase_bind.
      * eapply rcase_weaken; [apply IH | intros a Pa; exact Pa | auto |].
        intros [s [Hs Z0]]. exists s. split; [now right | assumption].
      * intros [secs2 offs] [M2 [N2 A2]]. cbn [fst snd] in *. cbn. split; [now rewrite M2|].
        split; [|auto]. intros n. rewrite N2, N1. cbn. intuition.
Qed.

(* ------------------------------------------------------------------ symbols *)
Definition sym_ref (s : sym) : list string :=
  if is_global (y_bind s) && y_undefined s then [y_name s] else [].

(* D = defined names, R = referenced (undefined occurrences of) global names, so far *)
Definition SInv (syms : list sym) (D R : list string) : Prop :=
  DInv syms D /\
  (forall s, In s syms -> is_global (y_bind s) = true -> In (y_name s) (D ++ R)) /\
  (forall n, In n (D ++ R) -> find_global n syms <> None).

Lemma In_define_global n v sc l s :
  In s (define_global n v sc l) ->
  In s l \/ (y_name s = n /\ is_global (y_bind s) = true).
Proof.
  induction l as [|x r IH]; cbn; [tauto|].
  destruct (is_global (y_bind x) && String.eqb (y_name x) n) eqn:E; cbn.
  - apply andb_true_iff in E. destruct E as [E1 E2]. apply String.eqb_eq in E2.
    intros [<-|H]; [right; cbn; auto | left; auto].
  - intros [<-|H]; [left; auto|]. destruct (IH H); auto.
Qed.

Lemma find_global_define_some m n v sc l :
  find_global m l <> None -> find_global m (define_global n v sc l) <> None.
Proof.
  intros H. destruct (String.eqb m n) eqn:E.
  - apply String.eqb_eq in E. subst m. destruct (find_global n l) as [s|] eqn:F; [|congruence].
    rewrite (find_global_define_same _ _ _ _ _ F). discriminate.
  - apply String.eqb_neq in E. now rewrite find_global_define_other.
Qed.

Lemma find_global_app_some m l x : find_global m l <> None -> find_global m (l ++ [x]) <> None.
Proof. intros H. rewrite find_global_app. destruct (find_global m l); congruence. Qed.

Lemma in_app3 {A} (x : A) a b c : In x ((a ++ b) ++ c) <-> In x a \/ In x b \/ In x c.
Proof. rewrite !in_app_iff. tauto. Qed.

Lemma merge_def_outcome syms D R n sc v typ size :
  SInv syms D R ->
  rcase (merge_global_symbol syms n sc (Some v) typ size)
    (fun r => SInv (fst r) (D ++ [n]) R) (fun c => c = 1 /\ In n D) False.
Proof.
  intros [DI [G E]].
  destruct (merge_global_symbol syms n sc (Some v) typ size) as [[syms' id]|c|e|] eqn:M; cbn.
  - pose proof (merge_def_D _ _ _ _ _ _ _ _ _ DI M) as DI'. split; [assumption|].
    unfold merge_global_symbol in M. destruct (find_global n syms) as [s0|] eqn:F.
    + destruct (y_value s0); [discriminate|]. injection M as <- <-. split.
      * intros s Hs Gs. apply In_define_global in Hs. rewrite in_app3. destruct Hs as [Hs|[Hn _]].
        -- specialize (G s Hs Gs). rewrite in_app_iff in G. tauto.
        -- right. left. left. auto.
      * intros m Hm. rewrite in_app3 in Hm. apply find_global_define_some.
        destruct Hm as [Hm|[[<-|[]]|Hm]]; [apply E; rewrite in_app_iff; auto | congruence | apply E; rewrite in_app_iff; auto].
    + apply inject_symbol_spec in M. destruct M as [-> _]. split.
      * intros s Hs Gs. rewrite in_app3. apply in_app_iff in Hs. destruct Hs as [Hs|[<-|[]]].
        -- specialize (G s Hs Gs). rewrite in_app_iff in G. tauto.
        -- right. left. left. reflexivity.
      * intros m Hm. rewrite in_app3 in Hm. destruct Hm as [Hm|[[<-|[]]|Hm]].
        -- apply find_global_app_some. apply E. rewrite in_app_iff; auto.
        -- rewrite find_global_app, F. cbn. rewrite String.eqb_refl. discriminate.
        -- apply find_global_app_some. apply E. rewrite in_app_iff; auto.
  - apply merge_global_symbol_diag in M. destruct M as [-> [s [v1 [v0 [F [V _]]]]]]. split; [reflexivity|].
    destruct DI as [_ I]. apply I. exists s. split; [assumption | congruence].
  - unfold merge_global_symbol, inject_symbol in M. cbn in M. destruct (find_global n syms) as [s0|] eqn:F.
    + destruct (y_value s0); discriminate.
    + discriminate.
  - unfold merge_global_symbol, inject_symbol in M. cbn in M. destruct (find_global n syms) as [s0|] eqn:F.
    + destruct (y_value s0); discriminate.
    + discriminate.
Qed.

Lemma merge_ref_outcome syms D R n sc typ size :
  SInv syms D R ->
  rcase (merge_global_symbol syms n sc None typ size)
    (fun r => SInv (fst r) D (R ++ [n])) (fun _ => False) False.
Proof.
  intros [DI [G E]]. unfold merge_global_symbol. destruct (find_global n syms) as [s0|] eqn:F; cbn.
  - split; [assumption|]. split.
    + intros s Hs Gs. specialize (G s Hs Gs). rewrite app_assoc, in_app_iff. auto.
    + intros m Hm. rewrite app_assoc, in_app_iff in Hm. destruct Hm as [Hm|[<-|[]]]; [auto | congruence].
  - unfold inject_symbol. cbn. rewrite F. cbn. split; [|split].
    + apply append_nondef_D; [assumption|]. cbn. auto.
    + intros s Hs Gs. rewrite app_assoc, in_app_iff. apply in_app_iff in Hs. destruct Hs as [Hs|[<-|[]]]; [left; auto | right; now left].
    + intros m Hm. rewrite app_assoc, in_app_iff in Hm. destruct Hm as [Hm|[<-|[]]].
      * apply find_global_app_some. auto.
      * rewrite find_global_app, F. cbn. rewrite String.eqb_refl. discriminate.
Qed.

Lemma local_outcome syms D R x :
  SInv syms D R -> is_global (y_bind x) = false -> SInv (syms ++ [x]) D R.
Proof.
  intros [DI [G E]] Hx. split; [apply append_nondef_D; [assumption | congruence]|]. split.
  - intros s Hs Gs. apply in_app_iff in Hs. destruct Hs as [Hs|[<-|[]]]; [auto | congruence].
  - intros m Hm. apply find_global_app_some. auto.
Qed.

Section WithCfg.
Variable cfg : lcfg.

Definition sym_wf (offs : list (string * Z)) (s : sym) : Prop :=
  forall v, y_value s = Some v ->
    match y_sect s with Some sc => lookup sc offs <> None | None => fix_abs cfg = true end.

Lemma inject_sym_outcome offs syms D R s :
  SInv syms D R ->
  rcase (inject_sym cfg offs syms s)
    (fun r => SInv (fst r) (D ++ sym_def s) (R ++ sym_ref s))
    (fun c => c = 1 /\ exists n, sym_def s = [n] /\ In n D) (~ sym_wf offs s).
Proof.
  intros Inv. unfold inject_sym, sym_def, sym_ref, sym_wf, y_undefined.
  destruct (y_value s) as [v|] eqn:V.
  - destruct (y_sect s) as [sc|] eqn:S.
    + destruct (lookup sc offs) as [off|] eqn:L; cbn [bind fst snd].
      * destruct (is_global (y_bind s)) eqn:G; cbn [andb negb].
        -- rewrite app_nil_r. eapply rcase_weaken; [apply merge_def_outcome; exact Inv | auto | | intros []].
           intros c [-> Hn]. split; [reflexivity|]. eauto.
        -- unfold inject_symbol. rewrite G. cbn. rewrite !app_nil_r. now apply local_outcome.
      * cbn. intros H. specialize (H v eq_refl). congruence.
    + destruct (fix_abs cfg) eqn:Fx; cbn [bind fst snd].
      * destruct (is_global (y_bind s)) eqn:G; cbn [andb negb].
        -- rewrite app_nil_r. eapply rcase_weaken; [apply merge_def_outcome; exact Inv | auto | | intros []].
           intros c [-> Hn]. split; [reflexivity|]. eauto.
        -- unfold inject_symbol. rewrite G. cbn. rewrite !app_nil_r. now apply local_outcome.
      * cbn. intros H. specialize (H v eq_refl). congruence.
  - cbn [bind fst snd]. destruct (is_global (y_bind s)) eqn:G; cbn [andb negb].
    + rewrite app_nil_r. eapply rcase_weaken; [apply merge_ref_outcome; exact Inv | auto | intros c [] | intros []].
    + unfold inject_symbol. rewrite G. cbn. rewrite !app_nil_r. now apply local_outcome.
Qed.

Lemma dup_not_nodup {A} (D X Y : list A) n : In n D -> ~ NoDup (D ++ X ++ n :: Y).
Proof.
  intros Hn ND. apply NoDup_app_inv in ND. destruct ND as [_ [_ Dj]].
  apply (Dj n Hn). apply in_app_iff. right. now left.
Qed.

Lemma inject_syms_outcome offs inps : forall syms D R,
  SInv syms D R ->
  rcase (inject_syms cfg offs syms inps)
    (fun r => SInv (fst r) (D ++ flat_map sym_def inps) (R ++ flat_map sym_ref inps) /\
              List.length (snd r) = List.length inps)
    (fun c => c = 1 /\ ~ NoDup (D ++ flat_map sym_def inps)) (~ Forall (sym_wf offs) inps).
Proof.
  induction inps as [|s r IH]; intros syms D R Inv; cbn [inject_syms].
  - cbn. rewrite !app_nil_r. auto.
  - eapply rcase_bind.
    + eapply rcase_weaken; [apply inject_sym_outcome; exact Inv | intros a Pa; exact Pa | |].
      * intros c [-> [n [Hd Hn]]]. split; [reflexivity|]. cbn. rewrite Hd. cbn.
        apply (dup_not_nodup D [] _ n Hn).
      * intros H F. apply H. now inversion F.
    + intros [syms1 id] Inv1. cbn [fst] in Inv1. eapply rcase_bind.
      * eapply rcase_weaken; [apply IH; exact Inv1 | intros a Pa; exact Pa | |].
        -- intros c [-> H]. split; [reflexivity|]. cbn. now rewrite app_assoc.
        -- intros H F. apply H. now inversion F.
      * intros [syms2 ids] [Inv2 L]. cbn [fst snd] in *. cbn. rewrite !app_assoc. split; [assumption | now rewrite L].
Qed.

(* ------------------------------------------------------------------ inject_object *)
Lemma lookup_in n l : lookup n l <> None <-> In n (map fst l).
Proof.
  induction l as [|[k v] r IH]; cbn; [tauto|].
  destruct (lookup n r) as [x|] eqn:L.
  - split; [intros _; right; apply IH; discriminate | discriminate].
  - destruct (String.eqb k n) eqn:E.
    + apply String.eqb_eq in E. split; [auto | discriminate].
    + apply String.eqb_neq in E. split; [congruence | intros [?|?]; [congruence | tauto]].
Qed.

Lemma lookupZ_in n l : lookupZ n l <> None <-> In n (map fst l).
Proof.
  induction l as [|[k v] r IH]; cbn; [tauto|].
  destruct (lookupZ n r) as [x|] eqn:L.
  - split; [intros _; right; apply IH; discriminate | discriminate].
  - destruct (k =? n) eqn:E.
    + split; [left; lia | discriminate].
    + split; [congruence | intros [?|?]; [lia | tauto]].
Qed.

Lemma map_fst_combine {A B} (ks : list A) : forall (vs : list B),
  List.length vs = List.length ks -> map fst (combine ks vs) = ks.
Proof.
  induction ks as [|k r IH]; intros [|v vs] H; cbn in *; try discriminate; [reflexivity|].
  f_equal. apply IH. lia.
Qed.

Definition ecount (o : obj) : nat := match o_entry o with Some _ => 1%nat | None => 0%nat end.
Definition obj_refs (o : obj) : list string := flat_map sym_ref (o_syms o).
Definition sect_names (o : obj) : list string := map s_name (o_sects o).

(* input objects on which inject_object raises no exception other than CompilerError *)
Definition wf_obj (o : obj) : Prop :=
  Forall (fun s => s_align s <> 0) (o_sects o) /\
  Forall (fun sy => forall v, y_value sy = Some v ->
            match y_sect sy with Some sc => In sc (sect_names o) | None => fix_abs cfg = true end)
         (o_syms o) /\
  Forall (fun r => In (r_sect r) (sect_names o) /\ In (r_sym r) (map y_id (o_syms o))) (o_relocs o) /\
  (forall e, o_entry o = Some e -> In e (map y_id (o_syms o))).

Definition EInv (d : obj) (k : nat) : Prop := (o_entry d = None <-> k = 0%nat) /\ (k <= 1)%nat.
Definition NInv (secs : list sect) (X : list string) : Prop :=
  forall n, find_sect n secs <> None <-> In n X.

Lemma relocs_outcome offs idmap l :
  rcase (map_result (inject_reloc offs idmap) l) (fun _ => True) (fun _ => False)
        (~ Forall (fun r => In (r_sect r) (map fst offs) /\ In (r_sym r) (map fst idmap)) l).
Proof.
  induction l as [|r t IH]; cbn [map_result]; [exact I|].
  eapply rcase_bind with (P := fun _ => True).
  - unfold inject_reloc. destruct (lookup (r_sect r) offs) eqn:L; cbn.
    + destruct (lookupZ (r_sym r) idmap) eqn:L2; cbn; [exact I|].
      intros F. inversion F as [|? ? [_ H2] _]; subst. apply lookupZ_in in H2. congruence.
    + intros F. inversion F as [|? ? [H1 _] _]; subst. apply lookup_in in H1. congruence.
  - intros a _. eapply rcase_bind with (P := fun _ => True).
    + eapply rcase_weaken; [exact IH | auto | auto |]. intros H F. apply H. now inversion F.
    + intros b _. exact I.
Qed.

Lemma NoDup_app_l {A} (a b : list A) : NoDup (a ++ b) -> NoDup a.
Proof. intros H. now destruct (NoDup_app_inv _ _ H). Qed.

Definition MInv (d : obj) (D R : list string) (k : nat) (X : list string) : Prop :=
  SInv (o_syms d) D R /\ EInv d k /\ NInv (o_sects d) X /\ AInv (o_sects d).

Lemma inject_object_outcome d o D R k X :
  MInv d D R k X ->
  rcase (inject_object cfg d o)
    (fun r => MInv (fst r) (D ++ obj_defs o) (R ++ obj_refs o) (k + ecount o) (X ++ sect_names o) /\
              o_images (fst r) = o_images d)
    (fun c => (c = 1 /\ ~ NoDup (D ++ obj_defs o)) \/ (c = 3 /\ (k + ecount o > 1)%nat))
    (~ wf_obj o).
Proof.
  intros [SI [[E1 E2] [NI AI]]]. unfold inject_object.
  eapply rcase_bind.
  { eapply rcase_weaken; [apply inject_sections_outcome | intros a Pa; exact Pa | intros c [] |].
    intros [s [Hs Z0]] [W _]. eapply Forall_forall in W; eauto. }
  intros [secs offs] [Mo [No Ao]]. cbn [fst snd] in *.
  assert (Wsyms : wf_obj o -> Forall (sym_wf offs) (o_syms o)).
  { intros [_ [W _]]. eapply Forall_impl; [|exact W]. intros sy H v Hv. specialize (H v Hv).
    destruct (y_sect sy); [|assumption]. apply lookup_in. rewrite Mo. exact H. }
  eapply rcase_bind.
  { eapply rcase_weaken; [apply inject_syms_outcome; exact SI | intros a Pa; exact Pa | |].
    - intros c [-> H]. left. auto.
    - intros H W. apply H. auto. }
  intros [syms ids] [SI' Li]. cbn [fst snd] in *.
  assert (Mi : map fst (combine (map y_id (o_syms o)) ids) = map y_id (o_syms o))
    by (apply map_fst_combine; now rewrite map_length).
  eapply rcase_bind with (P := fun _ => True).
  { eapply rcase_weaken; [apply relocs_outcome | auto | intros c [] |].
    rewrite Mo, Mi. intros H [_ [_ [W _]]]. auto. }
  intros rels _.
  assert (NI' : NInv secs (X ++ sect_names o)).
  { intros n. rewrite No, in_app_iff, (NI n). reflexivity. }
  unfold ecount. destruct (o_entry o) as [e|] eqn:Eo; cbn [bind].
  - destruct (o_entry d) as [e0|] eqn:Ed; cbn.
    + right. split; [reflexivity|]. assert (k <> 0)%nat by (intros K; apply E1 in K; discriminate). lia.
    + destruct (lookupZ e (combine (map y_id (o_syms o)) ids)) as [i|] eqn:L; cbn.
      * assert (k = 0)%nat by (now apply E1). subst k.
        split; [|reflexivity]. split; [assumption|]. split; [|auto]. split; [|lia].
        cbn. split; [discriminate | lia].
      * intros [_ [_ [_ W]]]. specialize (W e Eo). rewrite <- Mi in W. apply lookupZ_in in W. congruence.
  - cbn. split; [|reflexivity]. split; [assumption|]. split; [|auto]. rewrite Nat.add_0_r. split; assumption.
Qed.

Fixpoint ecounts (objs : list obj) : nat :=
  match objs with [] => 0%nat | o :: r => (ecount o + ecounts r)%nat end.

Lemma merge_objects_outcome objs : forall d D R k X,
  MInv d D R k X ->
  rcase (merge_objects cfg d objs)
    (fun r => MInv (fst r) (D ++ flat_map obj_defs objs) (R ++ flat_map obj_refs objs)
                   (k + ecounts objs) (X ++ flat_map sect_names objs) /\
              o_images (fst r) = o_images d)
    (fun c => (c = 1 /\ ~ NoDup (D ++ flat_map obj_defs objs)) \/ (c = 3 /\ (k + ecounts objs > 1)%nat))
    (~ Forall wf_obj objs).
Proof.
  induction objs as [|o r IH]; intros d D R k X Inv; cbn [merge_objects].
  - cbn. rewrite !app_nil_r, Nat.add_0_r. auto.
  - eapply rcase_bind.
    + eapply rcase_weaken; [apply inject_object_outcome; exact Inv | intros a Pa; exact Pa | |].
      * intros c [[-> H]|[-> H]]; [left | right; cbn; split; [reflexivity | lia]].
        split; [reflexivity|]. intros ND. apply H. cbn in ND. rewrite app_assoc in ND. now apply NoDup_app_l in ND.
      * intros H F. apply H. now inversion F.
    + intros [d1 t] [Inv1 Im1]. cbn [fst] in *. eapply rcase_bind.
      * eapply rcase_weaken; [apply IH; exact Inv1 | intros a Pa; exact Pa | |].
        -- intros c [[-> H]|[-> H]]; [left | right; cbn; split; [reflexivity | lia]].
           split; [reflexivity|]. cbn. now rewrite app_assoc.
        -- intros H F. apply H. now inversion F.
      * intros [d2 ts] [Inv2 Im2]. cbn [fst] in *. cbn.
        rewrite !app_assoc, Nat.add_assoc. split; [assumption | congruence].
Qed.

(* ------------------------------------------------------------------ layout *)
Definition LInv (d : obj) (D R X : list string) : Prop :=
  SInv (o_syms d) D R /\ NInv (o_sects d) X /\ AInv (o_sects d).

(* layout inputs that raise no exception other than CompilerError, given the existing section names X *)
Definition wf_input (X : list string) (i : minput) : Prop :=
  match i with
  | ISection _ => True
  | ISectionData n => ~ In (sd_name n) X /\ In n X
  | ISymDef n => ~ In (sd_name n) X
  | IAlign a => a <> 0
  end.

Fixpoint wf_inputs (X : list string) (l : list minput) : Prop :=
  match l with [] => True | i :: r => wf_input X i /\ wf_inputs (X ++ input_name i) r end.

Fixpoint wf_mems (X : list string) (mems : list memory) : Prop :=
  match mems with
  | [] => True
  | m :: r => wf_inputs X (m_inputs m) /\ wf_mems (X ++ placed_names (m_inputs m)) r
  end.

Lemma NInv_app secs X x : NInv secs X -> find_sect (s_name x) secs = None -> NInv (secs ++ [x]) (X ++ [s_name x]).
Proof.
  intros N F n. rewrite find_app, in_app_iff. cbn. destruct (find_sect n secs) eqn:E.
  - split; [intros _; left; apply N; congruence | discriminate].
  - destruct (String.eqb (s_name x) n) eqn:E2.
    + apply String.eqb_eq in E2. split; [auto | discriminate].
    + apply String.eqb_neq in E2. split; [congruence | intros [H|[H|[]]]; [apply N in H; congruence | congruence]].
Qed.

Lemma AInv_app secs x : AInv secs -> 1 <= s_align x -> AInv (secs ++ [x]).
Proof.
  intros A Hx n s. rewrite find_app. destruct (find_sect n secs) eqn:E.
  - intros H. injection H as <-. eauto.
  - destruct (String.eqb (s_name x) n); intros H; [injection H as <-; assumption | discriminate].
Qed.

Lemma layout_input_outcome d cur names i D R X :
  LInv d D R X ->
  rcase (layout_input cfg (d, cur, names) i)
    (fun st' => LInv (fst (fst st')) (D ++ input_def i) R (X ++ input_name i) /\
                snd st' = names ++ input_name i /\ o_images (fst (fst st')) = o_images d)
    (fun c => (c = 1 /\ exists n, input_def i = [n] /\ In n D) \/
              (c = 6 /\ fix_twice cfg = true /\ exists n, input_name i = [n] /\ In n (placed_so_far d names)))
    (~ wf_input X i).
Proof.
  intros [SI [NI AI]]. cbn [layout_input]. destruct i as [n|n|n|a]; cbn [input_def input_name wf_input].
  - destruct (fix_twice cfg && existsb (String.eqb n) (placed_so_far d names)) eqn:Tw.
    + cbn. right. apply andb_true_iff in Tw. destruct Tw as [T1 T2]. split; [reflexivity|]. split; [assumption|].
      exists n. split; [reflexivity|]. apply existsb_exists in T2. destruct T2 as [x [Hx E]].
      apply String.eqb_eq in E. now subst x.
    + destruct (get_section_create n (o_sects d)) as [secs1 s] eqn:G.
      destruct (get_section_create_spec _ _ _ _ G) as [F1 [N1 [O1 C1]]].
      assert (Hal : 1 <= s_align s).
      { destruct (find_sect n (o_sects d)) as [s0|] eqn:F0; destruct C1 as [-> _]; [eapply AI; eauto | cbn; lia]. }
      destruct (align_up_spec cur (s_align s) ltac:(lia)) as [k [_ [Ha _]]]. rewrite Ha.
      cbn [bind rcase fst snd with_sects o_sects o_syms o_images].
      rewrite app_nil_r. split; [|auto]. split; [assumption|].
      set (s' := mkSect (s_name s) (cur + k) (s_align s) (s_data s)).
      assert (Fs : find_sect n (set_sect s' secs1) = Some s') by (eapply find_set_same; eauto).
      assert (Oth : forall m, m <> n -> find_sect m (set_sect s' secs1) = find_sect m (o_sects d)).
      { intros m Hm. rewrite find_set_other by (cbn; congruence). now apply O1. }
      split.
      * intros m. rewrite in_app_iff. cbn. destruct (String.eqb m n) eqn:E.
        -- apply String.eqb_eq in E. subst m. rewrite Fs. split; [auto | discriminate].
        -- apply String.eqb_neq in E. rewrite Oth by assumption. rewrite (NI m).
           split; [auto | intros [?|[?|[]]]; [assumption | congruence]].
      * unfold AInv. intros m t. cbn [with_sects o_sects]. fold s'. destruct (String.eqb m n) eqn:E.
        -- apply String.eqb_eq in E. subst m. rewrite Fs. intros H. injection H as <-. exact Hal.
        -- apply String.eqb_neq in E. rewrite Oth by assumption. apply AI.
  - destruct (find_sect (sd_name n) (o_sects d)) eqn:E1.
    + cbn. intros [W _]. apply W. apply NI. congruence.
    + destruct (find_sect n (o_sects d)) as [src|] eqn:E2; cbn.
      * rewrite app_nil_r. split; [|auto]. split; [assumption|]. split.
        -- apply (NInv_app _ _ (mkSect (sd_name n) cur 1 (s_data src))); assumption.
        -- apply AInv_app; [assumption | cbn; lia].
      * intros [_ W]. apply NI in W. congruence.
  - destruct (find_sect (sd_name n) (o_sects d)) eqn:E1.
    + cbn. intros W. apply W. apply NI. congruence.
    + eapply rcase_bind.
      * eapply rcase_weaken; [apply merge_def_outcome; exact SI | intros a Pa; exact Pa | | intros []].
        intros c [-> H]. left. split; [reflexivity|]. eauto.
      * intros [syms id0] SI'. cbn [fst] in SI'. cbn. split; [|auto]. split; [assumption|]. split.
        -- apply (NInv_app _ _ (mkSect (sd_name n) cur 1 [])); assumption.
        -- apply AInv_app; [assumption | cbn; lia].
  - destruct (Z.eq_dec a 0) as [->|Ha]; [cbn; tauto|].
    destruct (align_up_spec cur a Ha) as [k [_ [E _]]]. rewrite E. cbn. rewrite !app_nil_r.
    split; [exact (conj SI (conj NI AI)) | auto].
Qed.

Lemma layout_inputs_outcome l : forall d cur names D R X,
  LInv d D R X ->
  rcase (layout_inputs cfg (d, cur, names) l)
    (fun st' => LInv (fst (fst st')) (D ++ flat_map input_def l) R (X ++ placed_names l) /\
                snd st' = names ++ placed_names l /\ o_images (fst (fst st')) = o_images d)
    (fun c => (c = 1 /\ ~ NoDup (D ++ flat_map input_def l)) \/
              (c = 6 /\ fix_twice cfg = true /\ ~ NoDup (placed_so_far d names ++ placed_names l)))
    (~ wf_inputs X l).
Proof.
  induction l as [|i r IH]; intros d cur names D R X Inv; cbn [layout_inputs].
  - cbn. rewrite !app_nil_r. auto.
  - eapply rcase_bind.
    + eapply rcase_weaken; [apply layout_input_outcome; exact Inv | intros a Pa; exact Pa | |].
      * intros c [[-> [n [Hd Hn]]]|[-> [Fx [n [Hd Hn]]]]]; [left | right]; (split; [reflexivity|]).
        -- cbn. rewrite Hd. apply (dup_not_nodup D [] _ n Hn).
        -- split; [assumption|]. cbn [placed_names flat_map]. rewrite Hd. apply (dup_not_nodup _ [] _ n Hn).
      * cbn. tauto.
    + intros [[d1 cur1] names1] [Inv1 [Hn Im]]. cbn [fst snd] in *. subst names1.
      eapply rcase_weaken; [apply IH; exact Inv1 | | |].
      * intros [[d2 cur2] names2] [Inv2 [Hn2 Im2]]. cbn [fst snd] in *. cbn [flat_map placed_names].
        fold (placed_names r). rewrite !app_assoc. split; [assumption|]. split; [exact Hn2 | congruence].
      * intros c [[-> H]|[-> [Fx H]]]; [left | right]; (split; [reflexivity|]).
        -- cbn. now rewrite app_assoc.
        -- split; [assumption|]. unfold placed_so_far in *. rewrite Im in H. cbn [placed_names flat_map].
           fold (placed_names r). now rewrite <- !app_assoc in *.
      * cbn. tauto.
Qed.

Lemma image_data_loop_shape ss : forall cur data,
  (exists out, image_data_loop cur data ss = Ok out) \/ image_data_loop cur data ss = Internal ValueErrorI.
Proof.
  induction ss as [|s r IH]; intros cur data; cbn; [eauto|].
  destruct (s_addr s <? cur); [auto | apply IH].
Qed.

(* the image of memory m, laid out starting from destination d, is larger than the memory *)
Definition exceeds (d : obj) (m : memory) : Prop :=
  exists d1 cur names data,
    layout_inputs cfg (d, m_loc m, []) (m_inputs m) = Ok (d1, cur, names) /\
    image_data (o_sects d1) (mkImage (m_name m) (m_loc m) names) = Ok data /\ len data > m_size m.

Definition inames (d : obj) : list string := flat_map i_sects (o_images d).

Lemma layout_memory_outcome d m D R X :
  LInv d D R X -> ids_ok (o_syms d) ->
  rcase (layout_memory cfg d m)
    (fun d' => LInv d' (D ++ mem_defs m) R (X ++ placed_names (m_inputs m)) /\
               inames d' = inames d ++ placed_names (m_inputs m) /\ ids_ok (o_syms d'))
    (fun c => (c = 1 /\ ~ NoDup (D ++ mem_defs m)) \/
              (c = 6 /\ fix_twice cfg = true /\ ~ NoDup (inames d ++ placed_names (m_inputs m))) \/
              (c = 4 /\ exceeds d m))
    (~ wf_inputs X (m_inputs m) \/ ~ NoDup (placed_names (m_inputs m))).
Proof.
  intros Inv Hids. pose proof (layout_inputs_outcome (m_inputs m) d (m_loc m) [] D R X Inv) as O.
  unfold layout_memory.
  destruct (layout_inputs cfg (d, m_loc m, []) (m_inputs m)) as [[[d1 cur] names]|c|e|] eqn:L; cbn in O; cbn [bind].
  - destruct O as [Inv1 [Hn Im]]. subst names.
    destruct (layout_inputs_spec cfg (m_loc m) _ _ _ _ _ _ _ Hids L) as [Lv [_ [_ [_ [I1 _]]]]].
    destruct (image_data (o_sects d1) (mkImage (m_name m) (m_loc m) (placed_names (m_inputs m)))) as [data|c|e|] eqn:Idt.
    + cbn [bind]. destruct (len data >? m_size m) eqn:Sz; cbn.
      * right. right. split; [reflexivity|]. exists d1, cur, (placed_names (m_inputs m)), data.
        repeat split; auto. lia.
      * split; [exact Inv1|]. split; [|exact I1]. unfold inames. cbn. rewrite Im, flat_map_app. cbn.
        now rewrite app_nil_r.
    + exfalso. unfold image_data in Idt. destruct (image_data_loop_shape (resolve (o_sects d1) (i_sects (mkImage (m_name m) (m_loc m) (placed_names (m_inputs m))))) (i_addr (mkImage (m_name m) (m_loc m) (placed_names (m_inputs m)))) []) as [[o Ho]|Ho]; congruence.
    + cbn. right. intros ND.
      assert (Inv0 : linv (m_loc m) d (m_loc m) []).
      { split; [intros n []|]. cbn. repeat split; [lia | constructor]. }
      destruct (Lv ND Inv0) as [_ [Or _]].
      unfold image_data in Idt. cbn [i_addr i_sects] in Idt. rewrite image_data_loop_ok in Idt by assumption. discriminate.
    + exfalso. unfold image_data in Idt. destruct (image_data_loop_shape (resolve (o_sects d1) (i_sects (mkImage (m_name m) (m_loc m) (placed_names (m_inputs m))))) (i_addr (mkImage (m_name m) (m_loc m) (placed_names (m_inputs m)))) []) as [[o Ho]|Ho]; congruence.
  - cbn. unfold placed_so_far in O. rewrite app_nil_r in O. fold (inames d) in O.
    destruct O as [[-> H]|[-> [Fx H]]]; [left | right; left]; auto.
  - cbn. left. exact O.
  - exact O.
Qed.

Lemma NoDup_app_r {A} (a b : list A) : NoDup (a ++ b) -> NoDup b.
Proof. intros H. now destruct (NoDup_app_inv _ _ H) as [_ [? _]]. Qed.

Lemma layout_sections_outcome mems : forall d D R X,
  LInv d D R X -> ids_ok (o_syms d) ->
  rcase (layout_sections cfg d mems)
    (fun d' => LInv d' (D ++ flat_map mem_defs mems) R (X ++ all_placed mems))
    (fun c => (c = 1 /\ ~ NoDup (D ++ flat_map mem_defs mems)) \/
              (c = 6 /\ fix_twice cfg = true /\ ~ NoDup (inames d ++ all_placed mems)) \/
              (c = 4 /\ exists d0 m, In m mems /\ exceeds d0 m))
    (~ wf_mems X mems \/ ~ NoDup (all_placed mems)).
Proof.
  induction mems as [|m r IH]; intros d D R X Inv Hids; cbn [layout_sections].
  - cbn. now rewrite !app_nil_r.
  - eapply rcase_bind.
    + eapply rcase_weaken; [apply layout_memory_outcome; eassumption | intros a Pa; exact Pa | |].
      * intros c [[-> H]|[[-> [Fx H]]|[-> H]]]; [left | right; left | right; right]; (split; [reflexivity|]).
        -- intros ND. apply H. cbn in ND. rewrite app_assoc in ND. now apply NoDup_app_l in ND.
        -- split; [assumption|]. intros ND. apply H. cbn in ND. rewrite app_assoc in ND. now apply NoDup_app_l in ND.
        -- exists d, m. split; [now left | assumption].
      * intros [H|H]; [left; cbn; tauto | right]. intros ND. apply H. cbn in ND. now apply NoDup_app_l in ND.
    + intros d1 [Inv1 [In1 I1]]. eapply rcase_weaken; [apply IH; eassumption | | |].
      * intros d2 Inv2. cbn. now rewrite !app_assoc.
      * intros c [[-> H]|[[-> [Fx H]]|[-> [d0 [m0 [Hm H]]]]]]; [left | right; left | right; right]; (split; [reflexivity|]).
        -- cbn. now rewrite app_assoc.
        -- split; [assumption|]. rewrite In1 in H. cbn. now rewrite app_assoc.
        -- exists d0, m0. split; [now right | assumption].
      * intros [H|H]; [left; cbn; tauto | right]. intros ND. apply H. cbn in ND. now apply NoDup_app_r in ND.
Qed.

(* ------------------------------------------------------------------ link *)
Lemma find_global_In n l s : find_global n l = Some s -> In s l /\ is_global (y_bind s) = true /\ y_name s = n.
Proof.
  intros F. destruct (find_global_define n 0 None l s F) as [G [N [i [A _]]]].
  split; [eapply nth_error_In; eauto | auto].
Qed.

Lemma inject_extra_outcome extra : forall syms D R,
  SInv syms D R -> NoDup (R ++ D) ->
  rcase (inject_extra syms extra)
    (fun syms' => SInv syms' (D ++ map fst extra) R /\ NoDup (R ++ D ++ map fst extra))
    (fun c => c = 2 /\ ~ NoDup (R ++ D ++ map fst extra)) False.
Proof.
  induction extra as [|[n v] r IH]; intros syms D R Inv ND; cbn [inject_extra].
  - cbn. rewrite !app_nil_r. auto.
  - destruct (find_global n syms) as [s0|] eqn:F.
    + unfold inject_symbol. cbn. rewrite F. cbn. split; [reflexivity|].
      destruct (find_global_In _ _ _ F) as [Hin [G N]]. destruct Inv as [_ [Gl _]].
      specialize (Gl _ Hin G). rewrite N in Gl. rewrite app_assoc.
      apply (dup_not_nodup (R ++ D) [] _ n). rewrite in_app_iff in *. tauto.
    + pose proof (merge_def_outcome syms D R n None v OBJECT 0 Inv) as O.
      unfold merge_global_symbol in O. rewrite F in O.
      assert (Hn : ~ In n (R ++ D)).
      { destruct Inv as [_ [_ E]]. intros Hin. apply (E n); [rewrite in_app_iff in *; tauto | assumption]. }
      eapply rcase_bind.
      * eapply rcase_weaken; [exact O | intros a Pa; exact Pa | | intros []].
        intros c [-> H]. exfalso. apply Hn. rewrite in_app_iff. auto.
      * intros [syms1 id] Inv1. cbn [fst] in Inv1.
        assert (ND1 : NoDup (R ++ D ++ [n])) by (rewrite app_assoc; now apply NoDup_snoc).
        eapply rcase_weaken; [apply IH; eassumption | | | intros []].
        -- intros syms' [I2 N2]. cbn. change (n :: map fst r) with ([n] ++ map fst r). now rewrite !app_assoc in *.
        -- intros c [-> H]. split; [reflexivity|]. cbn. change (n :: map fst r) with ([n] ++ map fst r). now rewrite !app_assoc in *.
Qed.

Definition ename_l (lay : option layout) (entry : option string) : list string :=
  match entry_name lay entry with Some e => [e] | None => [] end.
Definition all_refs (objs : list obj) (lay : option layout) (entry : option string) : list string :=
  ename_l lay entry ++ flat_map obj_refs objs.
Definition ecnt (objs : list obj) (lay : option layout) (entry : option string) : nat :=
  (List.length (ename_l lay entry) + ecounts objs)%nat.

(* inputs on which link raises no exception other than CompilerError *)
Definition wf_link (objs : list obj) (lay : option layout) (partial : bool) : Prop :=
  objs <> [] /\ (partial = true -> lay = None) /\ Forall wf_obj objs /\
  (partial = false -> forall l, lay = Some l ->
     wf_mems (flat_map sect_names objs) (l_mems l) /\ NoDup (all_placed (l_mems l))).

Definition link_ok_post (objs : list obj) (lay : option layout) (partial : bool)
           (entry : option string) (extra : list (string * Z)) : Prop :=
  NoDup (all_defs objs lay partial extra) /\
  NoDup (ename_l lay entry ++ map fst extra) /\
  (ecnt objs lay entry <= 1)%nat /\
  (partial = false -> forall n, In n (all_refs objs lay entry) -> In n (all_defs objs lay partial extra)).

Definition link_diag_cause (objs : list obj) (lay : option layout) (partial : bool)
           (entry : option string) (extra : list (string * Z)) (c : Z) : Prop :=
  (c = 1 /\ ~ NoDup (all_defs objs lay partial extra)) \/
  (c = 2 /\ ~ NoDup (ename_l lay entry ++ map fst extra)) \/
  (c = 3 /\ (ecnt objs lay entry > 1)%nat) \/
  (c = 4 /\ partial = false /\ exists l d0 m, lay = Some l /\ In m (l_mems l) /\ exceeds d0 m) \/
  (c = 5 /\ partial = false /\
     exists n, In n (all_defs objs lay partial extra ++ all_refs objs lay entry) /\
               exists d2 s, In s (o_syms d2) /\ y_name s = n /\ is_global (y_bind s) = true /\ y_value s = None /\
                 DInv (o_syms d2) (all_defs objs lay partial extra)) \/
  (c = 6 /\ fix_twice cfg = true /\ partial = false /\
     exists l, lay = Some l /\ ~ NoDup (all_placed (l_mems l))).

Lemma rcase_bind_eq {A B} (r : result A) (f : A -> result B) P Q I P' :
  rcase r P Q I -> (forall a, r = Ok a -> P a -> rcase (f a) P' Q I) -> rcase (bind r f) P' Q I.
Proof. destruct r; cbn; auto. Qed.

Lemma final_check_outcome (d2 : obj) (ts : list trace) D R :
  SInv (o_syms d2) D R ->
  rcase (_ <- check_undefined_symbols d2;; Ok (d2, ts))
    (fun _ => forall n, In n R -> In n D)
    (fun c => c = 5 /\ exists n, In n (D ++ R) /\
                exists d s, In s (o_syms d) /\ y_name s = n /\ is_global (y_bind s) = true /\
                            y_value s = None /\ DInv (o_syms d) D)
    False.
Proof.
  intros [DI [G E]]. unfold check_undefined_symbols.
  destruct (existsb undefined_global (o_syms d2)) eqn:U; cbn.
  - split; [reflexivity|]. apply existsb_exists in U. destruct U as [s [Hs Us]].
    unfold undefined_global, y_undefined in Us. apply andb_true_iff in Us. destruct Us as [U1 U2].
    exists (y_name s). split; [auto|]. exists d2, s. split; [assumption|]. split; [reflexivity|].
    split; [assumption|]. split; [destruct (y_value s); [discriminate | reflexivity] | exact DI].
  - intros n Hn. assert (Hf : find_global n (o_syms d2) <> None) by (apply E; rewrite in_app_iff; auto).
    destruct (find_global n (o_syms d2)) as [s|] eqn:F; [|congruence].
    destruct (find_global_In _ _ _ F) as [Hin [Gs Ns]]. destruct DI as [_ I]. apply I. exists s.
    split; [assumption|]. intros V.
    assert (existsb undefined_global (o_syms d2) = true); [|congruence].
    apply existsb_exists. exists s. split; [assumption|]. unfold undefined_global, y_undefined. now rewrite V, Gs.
Qed.

Theorem link_outcome objs lay partial entry extra :
  rcase (link_trace cfg objs lay partial entry extra)
    (fun _ => link_ok_post objs lay partial entry extra)
    (link_diag_cause objs lay partial entry extra)
    (~ wf_link objs lay partial).
Proof.
  unfold link_trace. destruct objs as [|o0 objs0]; [cbn; intros [H _]; congruence|].
  set (objs := o0 :: objs0). fold (entry_name lay entry).
  assert (S00 : SInv [] [] []).
  { split; [split; [constructor | intros n; cbn; split; [tauto | intros [s [? _]]; discriminate]]|].
    split; [intros s H; destruct H | intros n H; destruct H]. }
  assert (Init : exists syms0 eid,
            match entry_name lay entry with
            | Some e => ' (sy, i) <- inject_symbol [] e GLOBAL None None OBJECT 0;; Ok (sy, Some i)
            | None => Ok ([], None)
            end = Ok (syms0, eid) /\
            SInv syms0 [] (ename_l lay entry) /\ ids_ok syms0 /\
            (eid = None <-> List.length (ename_l lay entry) = 0%nat) /\ (List.length (ename_l lay entry) <= 1)%nat /\
            NoDup (ename_l lay entry)).
  { unfold ename_l. destruct (entry_name lay entry) as [e|].
    - eexists _, _. split; [reflexivity|].
      pose proof (merge_ref_outcome [] [] [] e None OBJECT 0 S00) as O. cbn in O.
      split; [exact O|]. split; [apply (ids_ok_app [] _ ids_ok_nil); reflexivity|].
      cbn. split; [split; [discriminate | lia]|]. split; [lia|]. repeat constructor. tauto.
    - eexists _, _. split; [reflexivity|]. split; [exact S00|].
      split; [apply ids_ok_nil|]. cbn. split; [tauto|]. split; [lia | constructor]. }
  destruct Init as [syms0 [eid [-> [S0 [I0 [Ee [El NDe]]]]]]]. cbn [bind].
  eapply rcase_bind_eq.
  { eapply rcase_weaken; [apply (inject_extra_outcome extra syms0 [] (ename_l lay entry) S0); now rewrite app_nil_r
                         | intros a Pa; exact Pa | | intros []].
    intros c [-> H]. right. left. auto. }
  intros syms1 Ex [S1 ND1]. cbn [app] in S1, ND1.
  pose proof (inject_extra_spec _ _ _ I0 Ex) as I1.
  eapply rcase_bind_eq.
  { eapply rcase_weaken;
      [apply (merge_objects_outcome objs (mkObj [] syms1 [] [] eid) (map fst extra) (ename_l lay entry)
                (List.length (ename_l lay entry)) [])
      | intros a Pa; exact Pa | |].
    - split; [exact S1|]. split; [split; assumption|]. split; [intros n; cbn; tauto | intros n s; cbn; discriminate].
    - intros c [[-> H]|[-> H]]; [left | right; right; left]; (split; [reflexivity|]); [|exact H].
      intros ND. apply H. unfold all_defs in ND. rewrite app_assoc in ND. now apply NoDup_app_l in ND.
    - intros H [_ [_ [W _]]]. auto. }
  intros [d1 ts] Mg [[SI [[E1 E2] [NI AI]]] Im]. cbn [fst app] in *.
  destruct (merge_objects_spec cfg objs (mkObj [] syms1 [] [] eid) _ _ I1 Mg) as [_ [_ [Id1 _]]].
  assert (Post0 : forall tail, NoDup ((map fst extra ++ flat_map obj_defs objs) ++ tail) ->
                  NoDup (map fst extra ++ flat_map obj_defs objs ++ tail)) by (intros; now rewrite app_assoc).
  destruct partial.
  - destruct lay as [l|]; cbn.
    + intros [_ [W _]]. specialize (W eq_refl). discriminate.
    + unfold link_ok_post, all_defs, ecnt. split; [apply Post0; rewrite app_nil_r; apply SI|].
      split; [assumption|]. split; [assumption | discriminate].
  - destruct lay as [l|].
    + eapply rcase_bind.
      * eapply rcase_weaken; [apply (layout_sections_outcome (l_mems l) d1 _ _ _ (conj SI (conj NI AI)) Id1)
                             | intros a Pa; exact Pa | |].
        -- intros c [[-> H]|[[-> [Fx H]]|[-> [d0 [m [Hm H]]]]]].
           ++ left. split; [reflexivity|]. unfold all_defs. now rewrite app_assoc.
           ++ do 5 right. split; [reflexivity|]. split; [assumption|]. split; [reflexivity|]. exists l.
              split; [reflexivity|]. unfold inames in H. rewrite Im in H. exact H.
           ++ do 3 right. left. split; [reflexivity|]. split; [reflexivity|]. exists l, d0, m. auto.
        -- intros H [_ [_ [_ W]]]. destruct (W eq_refl l eq_refl) as [W1 W2]. tauto.
      * intros d2 [S2 _].
        eapply rcase_weaken; [apply (final_check_outcome d2 ts _ _ S2) | | | intros []].
        -- intros a0 Hr. unfold link_ok_post, all_defs, ecnt, all_refs. split; [apply Post0; apply S2|].
           split; [assumption|]. split; [assumption|]. intros _ n Hn. rewrite app_assoc. now apply Hr.
        -- intros c [-> [n [Hn Hs]]]. do 4 right. left. split; [reflexivity|]. split; [reflexivity|].
           exists n. unfold all_defs, all_refs. rewrite (app_assoc (map fst extra)). auto.
    + cbn [bind].
      eapply rcase_weaken; [apply (final_check_outcome d1 ts _ _ SI) | | | intros []].
      * intros a0 Hr. unfold link_ok_post, all_defs, ecnt, all_refs. split; [apply Post0; rewrite app_nil_r; apply SI|].
        split; [assumption|]. split; [assumption|]. intros _ n Hn. rewrite app_nil_r. now apply Hr.
      * intros c [-> [n [Hn Hs]]]. do 4 right. left. split; [reflexivity|]. split; [reflexivity|].
        exists n. unfold all_defs, all_refs. rewrite !app_nil_r. auto.
Qed.

End WithCfg.

(* ------------------------------------------------------------------ summary *)
Theorem link_errors_exact cfg objs lay partial entry extra :
  let r := link_trace cfg objs lay partial entry extra in
  (forall x, r = Ok x -> link_ok_post objs lay partial entry extra) /\
  (forall c, r = Diag c -> link_diag_cause cfg objs lay partial entry extra c) /\
  (forall e, r = Internal e -> ~ wf_link cfg objs lay partial) /\
  r <> OutOfFuel /\
  (wf_link cfg objs lay partial ->
     (exists x, r = Ok x) \/ (exists c, r = Diag c /\ link_diag_cause cfg objs lay partial entry extra c)).
Proof.
  intros r. pose proof (link_outcome cfg objs lay partial entry extra) as O. fold r in O.
  destruct r as [x|c|e|]; cbn in O.
  - split; [intros; assumption|]. split; [discriminate|]. split; [discriminate|]. split; [discriminate|]. eauto.
  - split; [discriminate|]. split; [intros c0 H; now injection H as <-|]. split; [discriminate|].
    split; [discriminate|]. eauto.
  - split; [discriminate|]. split; [discriminate|]. split; [intros; assumption|]. split; [discriminate | tauto].
  - destruct O.
Qed.

(* the causes exclude success: none of them holds for a link that succeeds *)
Theorem link_ok_no_cause cfg objs lay partial entry extra x :
  link_trace cfg objs lay partial entry extra = Ok x ->
  NoDup (all_defs objs lay partial extra) /\
  NoDup (ename_l lay entry ++ map fst extra) /\
  (ecnt objs lay entry <= 1)%nat /\
  (partial = false -> forall n, In n (all_refs objs lay entry) -> In n (all_defs objs lay partial extra)) /\
  (fix_twice cfg = true -> partial = false -> forall l, lay = Some l -> NoDup (all_placed (l_mems l))).
Proof.
  intros H. destruct (link_errors_exact cfg objs lay partial entry extra) as [A _].
  destruct (A x H) as [P1 [P2 [P3 P4]]]. repeat split; auto.
  intros Fx -> l ->. destruct x as [out ts]. eapply link_trace_fixed_nodup; eassumption.
Qed.
