(* Proofs/C21_leb.v — C21: the LEB128 codec of the model round-trips; primitive writers/readers. *)
From PV Require Import Lib.Py Lib.Tac Model.WasmTypes Gen.Tab_wasm_opcodes Model.WasmBin.
From Coq Require Import String.
Local Open Scope list_scope.
Open Scope Z_scope.

(* [w] succeeds and [r] reads the value back from the written bytes followed by anything *)
Definition rt {A} (w : result bytes) (r : reader A) (a : A) : Prop :=
  exists bb, w = Ok bb /\ forall rest, r (bb ++ rest) = Ok (a, rest).

Lemma pow128_S n : 128 ^ Z.of_nat (S n) = 128 * 128 ^ Z.of_nat n.
Proof. rewrite Nat2Z.inj_succ, Z.pow_succ_r by lia. reflexivity. Qed.

Lemma pow128_pos n : 0 < 128 ^ Z.of_nat n.
Proof. apply Z.pow_pos_nonneg; lia. Qed.

Lemma uleb_rt n : forall fuel v, (S n <= fuel)%nat -> 0 <= v < 128 ^ Z.of_nat (S n) ->
  exists bb, uleb_enc fuel v = Ok bb /\ (List.length bb <= S n)%nat /\
             forall rest, unsigned_leb128_decode (bb ++ rest) = Ok (v, rest).
Proof.
  induction n as [|n IH]; intros fuel v Hf Hv; (destruct fuel as [|f]; [lia|]); cbn [uleb_enc].
  - replace (128 ^ Z.of_nat 1) with 128 in Hv by reflexivity.
    assert (E : v / 128 = 0) by lia. rewrite E. cbn.
    exists [v mod 128]. split; [reflexivity|]. split; [cbn; lia|].
    intros rest. cbn. assert (E2 : v mod 128 = v) by lia. rewrite E2.
    destruct (Z.ltb_spec v 128); [reflexivity|lia].
  - rewrite pow128_S in Hv. pose proof (pow128_pos (S n)) as Hp.
    destruct (Z.eqb_spec (v / 128) 0) as [E|E].
    + exists [v mod 128]. split; [reflexivity|]. split; [cbn; lia|].
      intros rest. cbn. assert (E2 : v mod 128 = v) by lia. rewrite E2.
      destruct (Z.ltb_spec v 128); [reflexivity|lia].
    + destruct (IH f (v / 128)) as (bb & Hw & Hl & Hr); [lia|lia|].
      rewrite Hw. cbn [bind]. exists ((v mod 128 + 128) :: bb). split; [reflexivity|].
      split; [cbn; lia|]. intros rest. cbn [app unsigned_leb128_decode].
      destruct (Z.ltb_spec (v mod 128 + 128) 128); [lia|].
      rewrite Hr. cbn [bind]. f_equal. f_equal. lia.
Qed.

Lemma sleb_rt n : forall fuel v, (S n <= fuel)%nat ->
  - (64 * 128 ^ Z.of_nat n) <= v < 64 * 128 ^ Z.of_nat n ->
  exists bb, signed_leb128_encode fuel v = Ok bb /\ (List.length bb <= S n)%nat /\
             forall rest, signed_leb128_decode (bb ++ rest) = Ok (v, rest).
Proof.
  induction n as [|n IH]; intros fuel v Hf Hv; (destruct fuel as [|f]; [lia|]);
    cbn [signed_leb128_encode].
  - replace (128 ^ Z.of_nat 0) with 1 in Hv by reflexivity.
    assert (Hd : (v / 128 = 0 /\ v mod 128 = v /\ 0 <= v < 64) \/
                 (v / 128 = -1 /\ v mod 128 = v + 128 /\ -64 <= v < 0)) by lia.
    destruct Hd as [(E1 & E2 & E3)|(E1 & E2 & E3)]; rewrite E1, E2.
    + destruct (Z.leb_spec 64 v); [lia|]. cbn.
      exists [v]. split; [reflexivity|]. split; [cbn; lia|]. intros rest. cbn.
      destruct (Z.ltb_spec v 128); [|lia]. destruct (Z.leb_spec 64 v); [lia|reflexivity].
    + destruct (Z.leb_spec 64 (v + 128)); [|lia]. cbn.
      exists [v + 128]. split; [reflexivity|]. split; [cbn; lia|]. intros rest. cbn.
      destruct (Z.ltb_spec (v + 128) 128); [|lia].
      destruct (Z.leb_spec 64 (v + 128)); [|lia]. f_equal. f_equal. lia.
  - rewrite pow128_S in Hv. pose proof (pow128_pos n) as Hp.
    set (byte := v mod 128). set (v' := v / 128).
    assert (Hb : 0 <= byte < 128) by (subst byte; lia).
    assert (Hvv : v = 128 * v' + byte) by (subst byte v'; lia).
    destruct (((v' =? 0) && negb (64 <=? byte)) || ((v' =? -1) && (64 <=? byte))) eqn:Hdone.
    + exists [byte]. split; [reflexivity|]. split; [cbn; lia|]. intros rest. cbn.
      destruct (Z.ltb_spec byte 128); [|lia].
      destruct (Z.leb_spec 64 byte); f_equal; f_equal; lia.
    + destruct (IH f v') as (bb & Hw & Hl & Hr); [lia|lia|].
      rewrite Hw. cbn [bind]. exists ((byte + 128) :: bb). split; [reflexivity|].
      split; [cbn; lia|]. intros rest. cbn [app signed_leb128_decode].
      destruct (Z.ltb_spec (byte + 128) 128); [lia|].
      rewrite Hr. cbn [bind]. f_equal. f_equal. lia.
Qed.

(* ---- value ranges accepted by the primitive writers (exactly 5 resp. 10 LEB bytes) ---- *)
Definition u35 (z : Z) : bool := (0 <=? z) && (z <? 2 ^ 35).
Definition s35 (z : Z) : bool := (- 2 ^ 34 <=? z) && (z <? 2 ^ 34).
Definition s70 (z : Z) : bool := (- 2 ^ 69 <=? z) && (z <? 2 ^ 69).
Definition u7 (z : Z) : bool := (0 <=? z) && (z <? 128).

Lemma write_vu32_rt z : u35 z = true -> rt (write_vu32 z) read_uint z.
Proof.
  unfold u35. intros H.
  destruct (uleb_rt 4 LEBFUEL z) as (bb & Hw & Hl & Hr); [unfold LEBFUEL; lia| |].
  { change (128 ^ Z.of_nat 5) with (2 ^ 35). lia. }
  exists bb. split; [|exact Hr].
  unfold write_vu32, unsigned_leb128_encode. destruct (Z.ltb_spec z 0); [lia|].
  rewrite Hw. unfold len. destruct (Z.leb_spec (Z.of_nat (List.length bb)) 5); [reflexivity|lia].
Qed.

Lemma write_vu7_rt z : u7 z = true -> rt (write_vu7 z) read_uint z.
Proof.
  unfold u7. intros H.
  exists [z]. split.
  - unfold write_vu7, unsigned_leb128_encode, LEBFUEL. destruct (Z.ltb_spec z 0); [lia|].
    cbn [uleb_enc]. assert (E : z / 128 = 0) by lia. rewrite E. cbn.
    assert (E2 : z mod 128 = z) by lia. rewrite E2. reflexivity.
  - intros rest. cbn. destruct (Z.ltb_spec z 128); [reflexivity|lia].
Qed.

Lemma write_vu7_bytes z : u7 z = true -> write_vu7 z = Ok [z].
Proof.
  unfold u7. intros H.
  unfold write_vu7, unsigned_leb128_encode, LEBFUEL. destruct (Z.ltb_spec z 0); [lia|].
  cbn [uleb_enc]. assert (E : z / 128 = 0) by lia. rewrite E. cbn.
  assert (E2 : z mod 128 = z) by lia. rewrite E2. reflexivity.
Qed.

Lemma write_vs32_rt z : s35 z = true -> rt (write_vs32 z) read_int z.
Proof.
  unfold s35. intros H.
  destruct (sleb_rt 4 LEBFUEL z) as (bb & Hw & Hl & Hr); [unfold LEBFUEL; lia| |].
  { change (64 * 128 ^ Z.of_nat 4) with (2 ^ 34). lia. }
  exists bb. split; [|exact Hr].
  unfold write_vs32. rewrite Hw. unfold len.
  destruct (Z.leb_spec (Z.of_nat (List.length bb)) 5); [reflexivity|lia].
Qed.

Lemma write_vs64_rt z : s70 z = true -> rt (write_vs64 z) read_int z.
Proof.
  unfold s70. intros H.
  destruct (sleb_rt 9 LEBFUEL z) as (bb & Hw & Hl & Hr); [unfold LEBFUEL; lia| |].
  { change (64 * 128 ^ Z.of_nat 9) with (2 ^ 69). lia. }
  exists bb. split; [|exact Hr].
  unfold write_vs64. rewrite Hw. unfold len.
  destruct (Z.leb_spec (Z.of_nat (List.length bb)) 10); [reflexivity|lia].
Qed.

(* the unsigned writer read back by the SIGNED reader (the datacount section of the unfixed
   reader): agrees below 64 only *)
Lemma write_vu32_read_int_small z : 0 <= z < 64 -> rt (write_vu32 z) read_int z.
Proof.
  intros H. exists [z]. split.
  - unfold write_vu32, unsigned_leb128_encode, LEBFUEL. destruct (Z.ltb_spec z 0); [lia|].
    cbn [uleb_enc]. assert (E : z / 128 = 0) by lia. rewrite E. cbn.
    assert (E2 : z mod 128 = z) by lia. rewrite E2. reflexivity.
  - intros rest. cbn. destruct (Z.ltb_spec z 128); [|lia].
    destruct (Z.leb_spec 64 z); [lia|reflexivity].
Qed.

(* ---- generic combinators ---- *)
Lemma rt_intro {A} (w : result bytes) (r : reader A) (a : A) bb :
  w = Ok bb -> (forall rest, r (bb ++ rest) = Ok (a, rest)) -> rt w r a.
Proof. intros; exists bb; auto. Qed.

(* vectors: write_all / read_vec *)
Lemma write_all_rt {A} (w : A -> result bytes) (r : reader A) (l : list A) :
  Forall (fun x => rt (w x) r x) l ->
  rt (write_all w l) (read_vec (List.length l) r) l.
Proof.
  induction 1 as [|x l Hx Hl IH].
  - exists []. split; reflexivity.
  - destruct Hx as (b1 & W1 & R1). destruct IH as (b2 & W2 & R2).
    exists (b1 ++ b2). cbn [write_all]. rewrite W1, W2. split; [reflexivity|].
    intros rest. cbn [List.length read_vec]. rewrite <- app_assoc, R1. cbn [bind].
    rewrite R2. reflexivity.
Qed.

Lemma Forall_forallb {A} (p : A -> bool) (P : A -> Prop) l :
  (forall x, p x = true -> P x) -> forallb p l = true -> Forall P l.
Proof.
  intros H. induction l as [|x l IH]; cbn; intros Hl; constructor;
    apply andb_true_iff in Hl; destruct Hl; auto.
Qed.

Lemma read_exactly_app (d rest : bytes) :
  read_exactly (len d) (d ++ rest) = Ok (d, rest).
Proof.
  unfold read_exactly, len. destruct (Z.ltb_spec (Z.of_nat (List.length d)) 0); [lia|].
  rewrite app_length. destruct (Z.ltb_spec (Z.of_nat (List.length d + List.length rest)) (Z.of_nat (List.length d))); [lia|].
  rewrite Nat2Z.id. rewrite firstn_app, Nat.sub_diag, firstn_all. cbn [firstn].
  rewrite app_nil_r. rewrite skipn_app, Nat.sub_diag, skipn_all. reflexivity.
Qed.

Lemma read_exactly_n n (d rest : bytes) : len d = n ->
  read_exactly n (d ++ rest) = Ok (d, rest).
Proof. intros <-. apply read_exactly_app. Qed.

(* length-prefixed bytes: write_str / read_str *)
Lemma write_str_rt (s : bytes) : u35 (len s) = true -> rt (write_str s) read_str s.
Proof.
  intros H. destruct (write_vu32_rt _ H) as (b & W & R).
  exists (b ++ s). unfold write_str. rewrite W. split; [reflexivity|].
  intros rest. unfold read_str, read_length_prefixed_bytes. rewrite <- app_assoc, R. cbn [bind].
  apply read_exactly_app.
Qed.

Lemma prefixed_rt (payload : bytes) : u35 (len payload) = true ->
  exists l, write_vu32 (len payload) = Ok l /\
            forall rest, read_length_prefixed_bytes (l ++ payload ++ rest) = Ok (payload, rest).
Proof.
  intros H. destruct (write_vu32_rt _ H) as (b & W & R).
  exists b. split; [exact W|]. intros rest. unfold read_length_prefixed_bytes.
  rewrite R. cbn [bind]. apply read_exactly_app.
Qed.
