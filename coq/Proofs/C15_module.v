(* Proofs/C15_module.v — module level of the token parser of the IR text format (property C15), unbounded:
   parse c (print_tokens c fr m) = Ok (erase fr c m) for every printable module: variable declarations with
   initial values, externals, the declaration list, and the loop bound S (number of tokens) used by [parse]. *)
From PV Require Import Lib.Py Lib.Val Lib.Json Spec.IRSyntax Model.IrJson Model.IrText Proofs.C15_irtext.
From Coq Require Import String Ascii List Lia.
Import ListNotations.
Local Open Scope string_scope.
Local Open Scope list_scope.

Section M.
Variable c : tcfg.
Variable N : nat.

(* ---- variables *)
Definition init_toks (i : rinit) : list token := toks (l_init i).
Lemma parse_init_ok i r : parse_init (init_toks i ++ r) = Ok (i, r).
Proof. destruct i; reflexivity. Qed.
Definition rvar_ok (g : rvar) : Prop :=
  match rv_value g with Some l => fx_init c = true /\ (List.length l <= N)%nat | None => True end.
Definition var_value_toks (v : option (list rinit)) : list token :=
  match v with
  | None => []
  | Some l => TOp "=" :: TOp "[" :: toks (join_comma (map l_init l)) ++ [TOp "]"]
  end.
Lemma toks_var g :
  toks (l_var g) =
  TId (binding_name (rv_binding g)) :: TId "variable" :: TId (rv_name g) :: TOp "(" :: TInt (rv_amount g)
  :: TId "bytes" :: TId "aligned" :: TId "at" :: TInt (rv_align g) :: TOp ")" :: var_value_toks (rv_value g).
Proof.
  unfold l_var. rewrite toks_app. destruct (rv_value g); [|reflexivity].
  rewrite !toks_app. reflexivity.
Qed.
(* the reader after "<binding> variable name (n bytes aligned at a)" *)
Definition var_tail (b : binding) (n : string) (am al : Z) (ts : list token) : result (ritem * list token) :=
  '(g, ts) <-
    (if fx_init c && peek_is "=" ts then
       ts <- consume_op "=" ts ;; ts <- consume_op "[" ts ;;
       if peek_is "]" ts then ts <- consume_op "]" ts ;; Ok (mk_rvar b n am al (Some []), ts)
       else '(x, ts) <- parse_init ts ;; '(xs, ts) <- comma_loop parse_init N ts ;;
            ts <- consume_op "]" ts ;; Ok (mk_rvar b n am al (Some (x :: xs)), ts)
     else Ok (mk_rvar b n am al None, ts)) ;;
  Ok (RVar g, ts).
Lemma var_pre b n am al ts :
  parse_declaration c N (TId (binding_name b) :: TId "variable" :: TId n :: TOp "(" :: TInt am
                         :: TId "bytes" :: TId "aligned" :: TId "at" :: TInt al :: TOp ")" :: ts)
  = var_tail b n am al ts.
Proof. destruct b; reflexivity. Qed.

Lemma var_roundtrip g rest : rvar_ok g -> peek_is "=" rest = false ->
  parse_declaration c N (toks (l_var g) ++ rest) = Ok (RVar g, rest).
Proof.
  intros Hg Hr. rewrite toks_var. destruct g as [b name am al v]. unfold rvar_ok in Hg.
  cbn [rv_value rv_binding rv_name rv_amount rv_align] in *. cbn [app]. rewrite var_pre. unfold var_tail.
  destruct v as [l|]; cbn [var_value_toks app].
  - destruct Hg as [Hc Hl]. rewrite Hc. change (peek_is "=" (TOp "=" :: _)) with true. cbn [andb].
    cbn [consume_op String.eqb Ascii.eqb Bool.eqb bind].
    destruct l as [|x xs].
    + reflexivity.
    + cbn [map]. rewrite toks_join_comma. change (toks (l_init x)) with (init_toks x).
      rewrite <- !app_assoc.
      assert (Hp : peek_is "]" (init_toks x ++ flat_map (fun y => TOp "," :: toks y) (map l_init xs) ++ [TOp "]"] ++ rest) = false)
        by (destruct x; reflexivity).
      rewrite Hp. rewrite parse_init_ok. cbn [bind].
      rewrite flat_map_concat_map, map_map, <- flat_map_concat_map.
      rewrite (comma_loop_ok parse_init init_toks);
        [reflexivity|intros; apply parse_init_ok|reflexivity|cbn in Hl; lia].
  - rewrite Hr. rewrite Bool.andb_false_r. reflexivity.
Qed.

(* ---- externals *)
Definition rext_ok (e : ext) : Prop :=
  match e with EVar _ => True | EFunc _ args _ | EProc _ args => (List.length args <= N)%nat end.
Lemma types_parens args rest : (List.length args <= N)%nat ->
  parse_parens N parse_type (TOp "(" :: toks (join_comma (map l_ty args)) ++ TOp ")" :: rest) = Ok (args, rest).
Proof.
  intros Hn. apply (parse_parens_ok N parse_type (fun t => toks (l_ty t)) l_ty); auto.
  - intros y r _. apply parse_type_ok.
  - intros y r _. destruct (ty_first y r) as (s & r' & E). rewrite E. reflexivity.
Qed.
Lemma toks_ext e :
  toks (l_ext e) =
  match e with
  | EVar n => [TId "external"; TId "variable"; TId n]
  | EFunc n args r => TId "external" :: TId "function" :: toks (l_ty r) ++ TId n :: TOp "("
                      :: toks (join_comma (map l_ty args)) ++ [TOp ")"]
  | EProc n args => TId "external" :: TId "procedure" :: TId n :: TOp "(" :: toks (join_comma (map l_ty args)) ++ [TOp ")"]
  end.
Proof. destruct e; unfold l_ext; rewrite ?toks_app; cbn [toks flat_map app]; rewrite <- ?app_assoc; reflexivity. Qed.
Opaque parse_parens.
Lemma ext_roundtrip e rest : rext_ok e ->
  parse_external N (toks (l_ext e) ++ TOp ";" :: rest) = Ok (RExt e, rest).
Proof.
  intros He. rewrite toks_ext. destruct e as [n|n args r|n args]; cbn [rext_ok] in He.
  - reflexivity.
  - unfold parse_external. cbn [app consume_keyword parse_id bind String.eqb Ascii.eqb Bool.eqb at_keyword tl].
    cbn -[parse_type toks join_comma]. rewrite <- !app_assoc. rewrite parse_type_ok. cbn [bind app parse_id].
    rewrite <- !app_assoc. cbn [app]. rewrite (types_parens args (TOp ";" :: rest) He). reflexivity.
  - unfold parse_external. cbn -[toks join_comma]. rewrite <- !app_assoc. cbn [app].
    rewrite (types_parens args (TOp ";" :: rest) He). reflexivity.
Qed.
Transparent parse_parens.

(* ---- the declaration list *)
Definition ritem_ok (x : ritem) : Prop :=
  match x with RExt e => rext_ok e | RVar g => rvar_ok g | RFunc f => rfunc_ok c N f end.
Definition item_toks (x : ritem) : list token := toks (l_item x).
Lemma item_toks_eq x :
  item_toks x = match x with
                | RExt e => toks (l_ext e) ++ [TOp ";"]
                | RVar g => toks (l_var g)
                | RFunc f => toks (l_func f)
                end.
Proof.
  unfold item_toks, l_item. rewrite toks_app. cbn [toks flat_map app].
  destruct x; rewrite ?toks_app; cbn [toks flat_map app]; rewrite ?app_nil_r; reflexivity.
Qed.
Lemma item_first x r : exists s r', item_toks x ++ r = TId s :: r' /\
  String.eqb s "external" = match x with RExt _ => true | _ => false end.
Proof.
  rewrite item_toks_eq. destruct x as [e|g|f].
  - rewrite toks_ext. destruct e; cbn; eauto.
  - rewrite toks_var. destruct g as [[] ? ? ? ?]; cbn; eauto.
  - rewrite toks_func. destruct f as [[] ? ? ? ?]; cbn; eauto.
Qed.
Lemma items_peek xs : peek_is "=" (flat_map item_toks xs) = false.
Proof.
  destruct xs as [|x r]; [reflexivity|]. cbn [flat_map].
  destruct (item_first x (flat_map item_toks r)) as (s & r' & E & _). rewrite E. reflexivity.
Qed.
Lemma items_roundtrip xs : forall fuel, (List.length xs < fuel)%nat -> (forall x, In x xs -> ritem_ok x) ->
  parse_items c N fuel (flat_map item_toks xs) = Ok xs.
Proof.
  induction xs as [|x r IH]; intros fuel Hf Hok.
  - destruct fuel; [cbn in Hf; lia|]. reflexivity.
  - destruct fuel; [cbn in Hf; lia|]. cbn [flat_map].
    destruct (item_first x (flat_map item_toks r)) as (s & r' & E & Es).
    cbn [parse_items]. rewrite E. cbn [at_keyword]. rewrite Es. rewrite <- E.
    assert (Hx := Hok x (or_introl eq_refl)).
    rewrite item_toks_eq. destruct x as [e|g|f]; cbn [ritem_ok] in Hx.
    + rewrite <- app_assoc. cbn [app]. rewrite ext_roundtrip by assumption. cbn [bind].
      rewrite IH; [reflexivity|cbn in Hf; lia|intros; apply Hok; now right].
    + rewrite var_roundtrip by (auto using items_peek). cbn [bind].
      rewrite IH; [reflexivity|cbn in Hf; lia|intros; apply Hok; now right].
    + rewrite func_roundtrip by assumption. cbn [bind].
      rewrite IH; [reflexivity|cbn in Hf; lia|intros; apply Hok; now right].
Qed.

Definition rmodul_ok (m : rmodul) : Prop :=
  (List.length (rm_items m) < N)%nat /\ forall x, In x (rm_items m) -> ritem_ok x.
Lemma toks_layout m :
  toks (layout m) = TId "module" :: TId (rm_name m) :: TOp ";" :: flat_map item_toks (rm_items m).
Proof. unfold layout. rewrite toks_app, toks_flat_map. reflexivity. Qed.
Theorem module_roundtrip m : rmodul_ok m -> parse_module c N (toks (layout m)) = Ok m.
Proof.
  intros [Hl Hok]. rewrite toks_layout. unfold parse_module. cbn [consume_keyword parse_id bind String.eqb Ascii.eqb Bool.eqb consume_op].
  cbn -[parse_items]. rewrite items_roundtrip by assumption. destruct m; reflexivity.
Qed.
End M.

(* ---- the loop bound: every list of the raw module is shorter than its token list *)
Lemma join_len {A} (g : A -> list ltok) (xs : list A) :
  (forall x, (1 <= List.length (toks (g x)))%nat) -> (List.length xs <= List.length (toks (join_comma (map g xs))))%nat.
Proof.
  intros Hg. destruct xs as [|x r]; [cbn; lia|]. cbn [map]. rewrite toks_join_comma, app_length.
  pose proof (Hg x). assert (List.length r <= List.length (flat_map (fun y => TOp "," :: toks y) (map g r)))%nat.
  { induction r as [|y r IH]; [cbn; lia|]. cbn [map flat_map]. cbn [List.length app]. rewrite app_length. lia. }
  cbn [List.length]. lia.
Qed.
Lemma flat_map_len_in {A B} (f : A -> list B) xs x : In x xs -> (List.length (f x) <= List.length (flat_map f xs))%nat.
Proof.
  induction xs as [|y r IH]; [intros []|]. intros [->|H]; cbn [flat_map]; rewrite app_length; [lia|].
  specialize (IH H). lia.
Qed.
Lemma flat_map_len_ge {A B} (f : A -> list B) xs : (forall x, (1 <= List.length (f x))%nat) ->
  (List.length xs <= List.length (flat_map f xs))%nat.
Proof. intros Hf. induction xs as [|y r IH]; [cbn; lia|]. cbn [flat_map List.length]. rewrite app_length. pose proof (Hf y). lia. Qed.
Lemma ty_len t : (1 <= List.length (toks (l_ty t)))%nat.
Proof. destruct t; cbn; lia. Qed.

Definition pair_l (p : string * string) : list ltok := [K (fst p); OP ":"; LSp; K (snd p)].
Lemma pair_len p : (1 <= List.length (toks (pair_l p)))%nat.
Proof. cbv. lia. Qed.
Definition arg_l (a : string) : list ltok := [K a].
Lemma arg_len a : (1 <= List.length (toks (arg_l a)))%nat.
Proof. cbv. lia. Qed.
Lemma instr_size i : (rsize_instr i <= List.length (toks (l_instr i)))%nat.
Proof.
  destruct i; cbn [rsize_instr]; try lia.
  - unfold l_instr. rewrite assign_prefix, toks_app. rewrite !app_length. cbn [List.length].
    pose proof (join_len pair_l ins pair_len). unfold pair_l in H. rewrite app_length. lia.
  - rewrite toks_callf, toks_l_args. rewrite !app_length. cbn [List.length]. rewrite app_length.
    pose proof (join_len arg_l args arg_len). unfold arg_l in H. lia.
  - rewrite toks_callp, toks_l_args. cbn [List.length]. rewrite app_length.
    pose proof (join_len arg_l args arg_len). unfold arg_l in H. lia.
Qed.
Lemma stmt_len i : (1 <= List.length (stmt_toks i))%nat.
Proof. unfold stmt_toks. rewrite app_length. cbn. lia. Qed.

Section B.
Variable c : tcfg.

Lemma block_bound k B : (List.length (block_toks k) <= B)%nat ->
  forallb (rprintable_instr c) (rb_ins k) = true -> rblock_ok c (S B) k.
Proof.
  intros HB Hp. unfold block_toks in HB. rewrite toks_block in HB. cbn [List.length] in HB. rewrite app_length in HB.
  split.
  - pose proof (flat_map_len_ge stmt_toks (rb_ins k) stmt_len). lia.
  - intros i Hi. split; [rewrite forallb_forall in Hp; now apply Hp|].
    pose proof (flat_map_len_in stmt_toks _ _ Hi). unfold stmt_toks in H at 1. rewrite app_length in H.
    pose proof (instr_size i). lia.
Qed.
Lemma block_len k : (1 <= List.length (block_toks k))%nat.
Proof. unfold block_toks. rewrite toks_block. cbn. lia. Qed.
Lemma func_bound f B : (List.length (toks (l_func f)) <= B)%nat ->
  forallb (fun k => forallb (rprintable_instr c) (rb_ins k)) (rf_blocks f) = true -> rfunc_ok c (S B) f.
Proof.
  intros HB Hp. rewrite toks_func in HB. cbn [List.length] in HB. rewrite !app_length in HB. cbn [List.length] in HB.
  rewrite !app_length in HB. cbn [List.length] in HB.
  pose proof (join_len param_l (rf_params f) (fun p => ltac:(rewrite toks_param, app_length; cbn; lia))).
  pose proof (flat_map_len_ge block_toks (rf_blocks f) block_len).
  rewrite ?app_length in HB. cbn [List.length] in HB. unfold rfunc_ok.
  split; [lia|split; [lia|]].
  intros k Hk. apply block_bound.
  - pose proof (flat_map_len_in block_toks _ _ Hk). lia.
  - rewrite forallb_forall in Hp. now apply Hp.
Qed.
Lemma init_len i : (1 <= List.length (toks (l_init i)))%nat.
Proof. destruct i; cbn; lia. Qed.
Lemma item_bound x B : (List.length (item_toks x) <= B)%nat -> rprintable_item c x = true -> ritem_ok c (S B) x.
Proof.
  intros HB Hp. rewrite item_toks_eq in HB. destruct x as [e|g|f]; cbn [ritem_ok rprintable_item] in *.
  - rewrite toks_ext in HB. destruct e as [n|n args r|n args]; cbn [rext_ok]; [exact I| |];
      repeat (first [rewrite app_length in HB | progress cbn [List.length] in HB]);
      pose proof (join_len l_ty args ty_len); lia.
  - unfold rvar_ok. rewrite toks_var in HB. destruct (rv_value g) as [l|]; [|exact I]. split; [assumption|].
    cbn [var_value_toks] in HB. repeat (first [rewrite app_length in HB | progress cbn [List.length] in HB]).
    pose proof (join_len l_init l init_len). lia.
  - now apply func_bound.
Qed.
Lemma item_len x : (1 <= List.length (item_toks x))%nat.
Proof. destruct (item_first x []) as (s & r' & E & _). rewrite app_nil_r in E. rewrite E. cbn. lia. Qed.

Theorem parse_layout m : rprintable c m = true -> parse c (toks (layout m)) = Ok m.
Proof.
  intros Hp. unfold parse. apply module_roundtrip. rewrite toks_layout. cbn [List.length].
  split.
  - pose proof (flat_map_len_ge item_toks (rm_items m) item_len). lia.
  - intros x Hx. apply (item_bound x (S (S (S (List.length (flat_map item_toks (rm_items m))))))).
    + pose proof (flat_map_len_in item_toks _ _ Hx). lia.
    + unfold rprintable in Hp. rewrite forallb_forall in Hp. now apply Hp.
Qed.
Corollary module_parse fr m : rprintable c (erase fr c m) = true ->
  parse c (print_tokens c fr m) = Ok (erase fr c m).
Proof. intros H. unfold print_tokens, print_layout. now apply parse_layout. Qed.
End B.

(* ---- printable modules have printable raw forms *)
Lemma forallb_map {A B} (p : B -> bool) (g : A -> B) l : forallb p (map g l) = forallb (fun x => p (g x)) l.
Proof. induction l; cbn; congruence. Qed.
Lemma forallb_flat_map {A B} (p : B -> bool) (g : A -> list B) l :
  forallb p (flat_map g l) = forallb (fun x => forallb p (g x)) l.
Proof. induction l as [|x r IH]; [reflexivity|]. cbn [flat_map forallb]. now rewrite forallb_app, IH. Qed.
Lemma printable_rprintable c fr fp m : printable c fr fp m = true -> rprintable c (erase fr c m) = true.
Proof.
  unfold printable. intros H. apply Bool.andb_true_iff in H. destruct H as [_ Hf].
  unfold rprintable, erase. cbn [rm_items]. rewrite !forallb_app, !forallb_map.
  apply Bool.andb_true_iff. split; [apply forallb_forall; reflexivity|].
  apply Bool.andb_true_iff. split.
  - apply forallb_forall. intros g _. cbn [rprintable_item erase_var rv_value].
    destruct (fx_init c); [destruct (g_value g)|]; reflexivity.
  - rewrite forallb_forall in Hf |- *. intros f Hin. specialize (Hf f Hin). unfold printable_func in Hf.
    apply Bool.andb_true_iff in Hf. destruct Hf as [Hf _]. apply Bool.andb_true_iff in Hf. destruct Hf as [_ Hf].
    cbn [rprintable_item erase_func rf_blocks]. rewrite forallb_map. unfold func_instrs in Hf.
    rewrite forallb_map, forallb_flat_map in Hf. cbn [erase_block rb_ins].
    rewrite forallb_forall in Hf |- *. intros k Hk. specialize (Hf k Hk). cbn [rb_ins erase_block].
    now rewrite forallb_map.
Qed.
Theorem module_parse_printable c fr fp m : printable c fr fp m = true ->
  parse c (print_tokens c fr m) = Ok (erase fr c m).
Proof. intros H. apply module_parse. eapply printable_rprintable; eassumption. Qed.
