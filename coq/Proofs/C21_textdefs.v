(* Proofs/C21_textdefs.v — C21: definition-level text round trip for memory, table, global, func. *)
From PV Require Import Lib.Py Lib.Tac Model.WasmTypes Gen.Tab_wasm_opcodes Gen.Tab_wasm_text Model.WasmBin
  Model.WasmText Model.WasmTextDefs Proofs.C21_instr Proofs.C21_text.
From Coq Require Import String.
Local Open Scope string_scope.
Local Open Scope list_scope.
Open Scope Z_scope.

Lemma head_in_opcodes op : (is_block_op op = true \/ exists c, assoc String.eqb opcodes op = Some c) ->
  in_opcodes op = true.
Proof.
  unfold in_opcodes. intros [Hb|[c Hc]]; [|now rewrite Hc].
  destruct (block_op_cases _ Hb) as [->|[->| ->]]; reflexivity.
Qed.

Lemma print_head_instr fs i ps tail : wf_text fs i = true -> print_instr fs i = Ok ps ->
  at_instruction (lex ps ++ tail) = true.
Proof.
  destruct i as [op args]. intros Hwf Hp. unfold print_instr in Hp. unfold wf_text in Hwf.
  cbn [i_op i_args] in *.
  assert (Hh : in_opcodes op = true /\ lex_word op = TWord op).
  { destruct (is_block_op op) eqn:Hb.
    - split; [apply head_in_opcodes; auto|]. destruct (block_op_cases _ Hb) as [->|[->| ->]]; reflexivity.
    - destruct (assoc String.eqb opcodes op) as [c|] eqn:Eop; [|discriminate].
      split; [apply head_in_opcodes; eauto|apply plain_word_lex; eapply in_table_word; eassumption]. }
  destruct Hh as [Hh Hop].
  destruct (is_block_op op).
  - destruct args as [|[|t| | | | |] ?]; try discriminate. injection Hp as <-.
    cbn [lex map lex_piece List.app]. rewrite Hop. exact Hh.
  - destruct (instr_args_text fs (Instr op args)) as [l| | |]; try discriminate. cbn [bind] in Hp.
    cbv zeta in Hp. destruct (70 <? sumZ (map fst l)); injection Hp as <-;
      cbn [lex map lex_piece List.app at_instruction]; rewrite Hop; exact Hh.
Qed.

Theorem instr_list_rt fs : forall l ps fuel tail,
  forallb (wf_text fs) l = true -> print_instrs fs l = Ok ps -> (List.length l < fuel)%nat ->
  at_instruction tail = false -> safe_next tail = true ->
  parse_instr_list fs fuel (lex ps ++ tail) = Ok (l, tail).
Proof.
  induction l as [|i l IH]; intros ps fuel tail Hwf Hp Hf Hat Hs; (destruct fuel as [|f]; [cbn in Hf; lia|]).
  - cbn in Hp. injection Hp as <-. cbn [lex map List.app parse_instr_list]. now rewrite Hat.
  - cbn [forallb] in Hwf. apply andb_true_iff in Hwf. destruct Hwf as [Hi Hl].
    unfold print_instrs in Hp. fold (print_instrs fs l) in Hp.
    destruct (print_instr fs i) as [a| | |] eqn:Ea; try discriminate. cbn [bind] in Hp.
    destruct (print_instrs fs l) as [b| | |] eqn:Eb; try discriminate. cbn [bind] in Hp. injection Hp as <-.
    rewrite lex_app, <- app_assoc.
    assert (Hsn : safe_next (lex b ++ tail) = true).
    { destruct l as [|i' l'].
      - cbn in Eb. injection Eb as <-. exact Hs.
      - cbn [forallb] in Hl. apply andb_true_iff in Hl. destruct Hl as [Hi' _].
        unfold print_instrs in Eb. fold (print_instrs fs l') in Eb.
        destruct (print_instr fs i') as [a'| | |] eqn:Ea'; try discriminate. cbn [bind] in Eb.
        destruct (print_instrs fs l') as [b'| | |]; try discriminate. cbn [bind] in Eb. injection Eb as <-.
        rewrite lex_app, <- app_assoc. apply (print_head_safe fs i' a' _ Hi' Ea'). }
    cbn [parse_instr_list]. rewrite (print_head_instr fs i a _ Hi Ea).
    rewrite (text_instr_rt fs i a _ Hi Ea Hsn). cbn [bind].
    rewrite (IH b f tail Hl eq_refl) by (auto; cbn in Hf; lia). reflexivity.
Qed.

(* ---- well-formed definitions of the four kinds ---- *)
Definition type_word (t : string) : bool := plain_word t && negb (is_reftype t).

Definition wf_text_def (fs : fspell) (d : defn) : bool :=
  match d with
  | DMemory mn mx => true
  | DTable k mn mx =>
      is_reftype k && negb ((mn =? 0) && match mx with None => true | Some _ => false end)
  | DGlobal t m init => plain_word t && forallb (wf_text fs) init
  | DFunc r locals instructions =>
      String.eqb (fst r) "type" && forallb plain_word locals && forallb (wf_text fs) instructions
  | DType params results => forallb plain_word params && forallb plain_word results
  | DStart r => String.eqb (fst r) "func"
  | DElem tab offset refs =>
      String.eqb (fst tab) "table" && (snd tab =? 0) && forallb (wf_text fs) offset &&
      forallb (fun r : (string * Z)%type => String.eqb (fst r) "func") refs
  | _ => false
  end.

Lemma parse_words_rt ws : forall tail f, forallb plain_word ws = true -> (List.length ws < f)%nat ->
  parse_words f (map lex_word ws ++ TRpar :: tail) = Ok (ws, tail).
Proof.
  induction ws as [|w ws IH]; intros tail f H Hf; (destruct f as [|f]; [cbn in Hf; lia|]).
  - reflexivity.
  - cbn [forallb] in H. apply andb_true_iff in H. destruct H as [Hw Hr].
    cbn [map List.app parse_words]. rewrite (plain_word_lex _ Hw).
    unfold plain_word in Hw. destruct (lex_word w); try discriminate.
    apply andb_true_iff in Hw. destruct Hw as [Hw _]. apply andb_true_iff in Hw. destruct Hw as [_ Hd].
    apply negb_true_iff in Hd. rewrite Hd. rewrite (IH tail f Hr) by (cbn in Hf; lia). reflexivity.
Qed.

Lemma not_instr_rpar rest : at_instruction (TRpar :: rest) = false /\ safe_next (TRpar :: rest) = true.
Proof. split; reflexivity. Qed.

Lemma lex_map_PW ws : lex (map PW ws) = map lex_word ws.
Proof. induction ws; cbn; [reflexivity|]. f_equal. exact IHws. Qed.

Lemma sig_follows_safe ts : safe_next ts = true -> sig_follows ts = false.
Proof.
  unfold safe_next. intros H. apply andb_true_iff in H. destruct H as [H _].
  destruct ts as [|[| |w|] [|[| |w'|] ?]]; try reflexivity. cbn in H.
  apply andb_true_iff in H. destruct H as [H _]. apply andb_true_iff in H. destruct H as [H1 H2].
  apply negb_true_iff in H1, H2. cbn. now rewrite H1, H2.
Qed.

Lemma parse_locals_none f ts :
  (at_instruction ts = true \/ exists r, ts = TRpar :: r) -> parse_locals (S f) ts = Ok ([], ts).
Proof.
  intros [H|[r ->]]; [|reflexivity]. cbn [parse_locals].
  destruct ts as [|[| |w|] [|[| |w'|] ?]]; try reflexivity. cbn in H.
  destruct (String.eqb_spec w' "local") as [->|]; [discriminate H|reflexivity].
Qed.

Lemma print_instr_nonempty fs i ps : wf_text fs i = true -> print_instr fs i = Ok ps -> (1 <= List.length ps)%nat.
Proof.
  intros Hwf Hp. destruct (print_head_safe fs i ps [] Hwf Hp) as [Hne _]. destruct ps; [congruence|cbn; lia].
Qed.

Lemma print_instrs_len fs : forall l b, forallb (wf_text fs) l = true -> print_instrs fs l = Ok b ->
  (List.length l <= List.length b)%nat.
Proof.
  induction l as [|i l IH]; intros b Hwf Hp; [cbn; lia|].
  cbn [forallb] in Hwf. apply andb_true_iff in Hwf. destruct Hwf as [Hi Hl].
  unfold print_instrs in Hp. fold (print_instrs fs l) in Hp.
  destruct (print_instr fs i) as [a| | |] eqn:Ea; try discriminate. cbn [bind] in Hp.
  destruct (print_instrs fs l) as [b'| | |] eqn:Eb; try discriminate. cbn [bind] in Hp. injection Hp as <-.
  rewrite app_length. pose proof (print_instr_nonempty fs i a Hi Ea). pose proof (IH b' Hl eq_refl). cbn. lia.
Qed.

Lemma body_head fs l b rest : forallb (wf_text fs) l = true -> print_instrs fs l = Ok b ->
  (at_instruction (lex b ++ TRpar :: rest) = true \/ exists r, lex b ++ TRpar :: rest = TRpar :: r) /\
  safe_next (lex b ++ TRpar :: rest) = true.
Proof.
  intros Hwf Hp. destruct l as [|i l'].
  - cbn in Hp. injection Hp as <-. split; [right; eexists; reflexivity|reflexivity].
  - cbn [forallb] in Hwf. apply andb_true_iff in Hwf. destruct Hwf as [Hi _].
    unfold print_instrs in Hp. fold (print_instrs fs l') in Hp.
    destruct (print_instr fs i) as [a| | |] eqn:Ea; try discriminate. cbn [bind] in Hp.
    destruct (print_instrs fs l') as [b'| | |]; try discriminate. cbn [bind] in Hp. injection Hp as <-.
    rewrite lex_app, <- app_assoc. split.
    + left. apply (print_head_instr fs i a _ Hi Ea).
    + apply (print_head_safe fs i a _ Hi Ea).
Qed.

Lemma parse_groups_cons kw f w r : parse_groups kw (S f) (TLpar :: TWord w :: r) =
  if String.eqb w kw then
    '(l, r1) <- parse_words (S (List.length r)) r ;;
    '(l', r2) <- parse_groups kw f r1 ;; Ok (l ++ l', r2)
  else Ok ([], TLpar :: TWord w :: r).
Proof. reflexivity. Qed.

Lemma parse_groups_one kw ws tail f : forallb plain_word ws = true -> ws <> [] ->
  (forall f', parse_groups kw (S f') tail = Ok ([], tail)) ->
  parse_groups kw (S (S f)) (TLpar :: TWord kw :: map lex_word ws ++ TRpar :: tail) = Ok (ws, tail).
Proof.
  intros Hw Hne Ht. rewrite parse_groups_cons. rewrite String.eqb_refl.
  rewrite (parse_words_rt ws tail _ Hw) by (rewrite app_length, map_length; cbn; lia). cbn [bind].
  rewrite Ht. cbn [bind]. now rewrite app_nil_r.
Qed.

Definition group_pieces (kw : string) (ws : list string) : list piece :=
  match ws with [] => [] | _ => [PL; PW kw] ++ map PW ws ++ [PR] end.

Lemma groups_rt kw ws tail fuel : lex_word kw = TWord kw -> forallb plain_word ws = true ->
  (2 <= fuel)%nat -> (forall f', parse_groups kw (S f') tail = Ok ([], tail)) ->
  parse_groups kw fuel (lex (group_pieces kw ws) ++ tail) = Ok (ws, tail).
Proof.
  intros Hk Hw Hf Ht. destruct fuel as [|[|f]]; try lia.
  destruct ws as [|w ws]; [apply Ht|].
  unfold group_pieces. rewrite !lex_app. change (lex [PL; PW kw]) with [TLpar; lex_word kw].
  change (lex [PR]) with [TRpar]. rewrite Hk, lex_map_PW, <- !app_assoc. cbn [List.app].
  apply parse_groups_one; auto. discriminate.
Qed.

Lemma parse_groups_skip kw w tail f : String.eqb w kw = false ->
  parse_groups kw (S f) (TLpar :: TWord w :: tail) = Ok ([], TLpar :: TWord w :: tail).
Proof. intros H. cbn [parse_groups]. now rewrite H. Qed.

Lemma parse_groups_rpar kw tail f : parse_groups kw (S f) (TRpar :: tail) = Ok ([], TRpar :: tail).
Proof. reflexivity. Qed.

Lemma lex_map_PWf {A} (g : A -> string) l : lex (map (fun x => PW (g x)) l) = map lex_word (map g l).
Proof. induction l; cbn; [reflexivity|]. f_equal. exact IHl. Qed.

Lemma parse_func_refs_rt refs tail :
  forallb (fun r : (string * Z)%type => String.eqb (fst r) "func") refs = true ->
  parse_func_refs (map lex_word (map (fun r : ref => dec (snd r)) refs) ++ TRpar :: tail) = (refs, TRpar :: tail).
Proof.
  induction refs as [|[sp z] refs IH]; cbn [forallb]; intros H; [reflexivity|].
  apply andb_true_iff in H. destruct H as [Hx Hl]. cbn [fst] in Hx. apply String.eqb_eq in Hx. subst sp.
  cbn [map snd List.app]. rewrite lex_dec. cbn [parse_func_refs]. rewrite (IH Hl). reflexivity.
Qed.

Theorem text_def_rt fs d ps rest :
  wf_text_def fs d = true -> print_def fs d = Ok ps ->
  parse_def fs (lex ps ++ rest) = Ok (d, rest).
Proof.
  destruct d; cbn [wf_text_def]; try discriminate; intros Hwf Hp; cbn [print_def] in Hp.
  - (* type *)
    apply andb_true_iff in Hwf. destruct Hwf as [Hps Hrs].
    assert (Eps : ps = [PL; PW "type"; PL; PW "func"] ++ group_pieces "param" params ++
                       group_pieces "result" results ++ [PR; PR]) by (injection Hp as <-; reflexivity).
    subst ps. clear Hp. rewrite !lex_app.
    change (lex [PL; PW "type"; PL; PW "func"]) with [TLpar; TWord "type"; TLpar; TWord "func"].
    change (lex [PR; PR]) with [TRpar; TRpar]. rewrite <- !app_assoc. cbn [List.app].
    unfold parse_def. cbn [String.eqb Ascii.eqb Bool.eqb].
    set (t2 := lex (group_pieces "result" results) ++ TRpar :: TRpar :: rest).
    rewrite (groups_rt "param" params t2);
      [|reflexivity|exact Hps|rewrite app_length; unfold t2; rewrite app_length; cbn; lia
       |intros f'; unfold t2; destruct results; [apply parse_groups_rpar|reflexivity]].
    cbn [bind]. unfold t2.
    rewrite (groups_rt "result" results (TRpar :: TRpar :: rest));
      [|reflexivity|exact Hrs|rewrite app_length; cbn; lia|intros; apply parse_groups_rpar].
    reflexivity.
  - (* table *)
    injection Hp as <-. apply andb_true_iff in Hwf. destruct Hwf as [Hk Hz].
    assert (Hkw : lex_word kind = TWord kind).
    { unfold is_reftype in Hk. apply orb_true_iff in Hk. destruct Hk as [E|E]; apply String.eqb_eq in E; subst; reflexivity. }
    destruct mx as [m|]; cbn [print_limits].
    + cbn [List.app lex map lex_piece]. change (lex_word "table") with (TWord "table"). rewrite !lex_dec, Hkw.
      cbn [parse_def String.eqb Ascii.eqb Bool.eqb parse_limits]. rewrite Hk. reflexivity.
    + destruct (Z.eqb_spec mn 0) as [->|Hmn]; [discriminate|]. cbn [andb].
      cbn [List.app lex map lex_piece]. change (lex_word "table") with (TWord "table"). rewrite !lex_dec, Hkw.
      cbn [parse_def String.eqb Ascii.eqb Bool.eqb parse_limits]. rewrite Hk. reflexivity.
  - (* memory *)
    injection Hp as <-. destruct mx as [m|]; cbn [print_limits andb List.app lex map lex_piece];
      change (lex_word "memory") with (TWord "memory"); rewrite !lex_dec; reflexivity.
  - (* global *)
    apply andb_true_iff in Hwf. destruct Hwf as [Ht Hi].
    destruct (print_instrs fs init) as [body| | |] eqn:Eb; try discriminate. cbn [bind] in Hp. injection Hp as <-.
    destruct (not_instr_rpar rest) as [Hat Hs].
    pose proof Ht as Ht'. unfold plain_word in Ht'. destruct (lex_word typ) eqn:Elt; try discriminate.
    apply andb_true_iff in Ht'. destruct Ht' as [Ht' _]. apply andb_true_iff in Ht'. destruct Ht' as [Hs1 Hd].
    apply String.eqb_eq in Hs1. subst s. apply negb_true_iff in Hd.
    destruct mutable.
    + cbn [List.app lex map lex_piece]. rewrite !lex_app. cbn [lex map lex_piece].
      change (lex_word "global") with (TWord "global"). change (lex_word "mut") with (TWord "mut"). rewrite Elt.
      cbn [parse_def String.eqb Ascii.eqb Bool.eqb bind fst snd]. rewrite <- app_assoc. cbn [List.app].
      rewrite (instr_list_rt fs init body _ (TRpar :: rest) Hi Eb)
        by (auto; pose proof (print_instrs_len fs init body Hi Eb); rewrite app_length; unfold lex; rewrite map_length; cbn; lia).
      reflexivity.
    + cbn [List.app lex map lex_piece]. rewrite !lex_app. cbn [lex map lex_piece].
      change (lex_word "global") with (TWord "global"). rewrite Elt.
      cbn [parse_def String.eqb Ascii.eqb Bool.eqb]. rewrite Hd. cbn [bind fst snd]. rewrite <- app_assoc. cbn [List.app].
      rewrite (instr_list_rt fs init body _ (TRpar :: rest) Hi Eb)
        by (auto; pose proof (print_instrs_len fs init body Hi Eb); rewrite app_length; unfold lex; rewrite map_length; cbn; lia).
      reflexivity.
  - (* start *)
    injection Hp as <-. apply String.eqb_eq in Hwf. destruct r as [sp z]. cbn [fst snd] in *. subst sp.
    cbn [lex map lex_piece List.app]. change (lex_word "start") with (TWord "start"). rewrite lex_dec. reflexivity.
  - (* elem *)
    apply andb_true_iff in Hwf. destruct Hwf as [Hwf Hrefs]. apply andb_true_iff in Hwf. destruct Hwf as [Hwf Hi].
    apply andb_true_iff in Hwf. destruct Hwf as [Htab Hz]. apply String.eqb_eq in Htab.
    destruct tab as [sp tz]. cbn [fst snd] in *. subst sp. rewrite Hz in Hp. cbn [negb] in Hp.
    apply Z.eqb_eq in Hz. subst tz.
    destruct (print_instrs fs offset) as [body| | |] eqn:Eb; try discriminate. cbn [bind] in Hp.
    assert (Eps : ps = [PL; PW "elem"; PL; PW "offset"] ++ body ++ [PR] ++
                       map (fun r : ref => PW (dec (snd r))) refs ++ [PR]) by (injection Hp as <-; reflexivity).
    subst ps. clear Hp. rewrite !lex_app, lex_map_PWf.
    change (lex [PL; PW "elem"; PL; PW "offset"]) with [TLpar; TWord "elem"; TLpar; TWord "offset"].
    change (lex [PR]) with [TRpar]. rewrite <- !app_assoc. cbn [List.app].
    unfold parse_def. cbn [String.eqb Ascii.eqb Bool.eqb].
    set (tl := map lex_word (map (fun r : ref => dec (snd r)) refs) ++ TRpar :: rest).
    rewrite (instr_list_rt fs offset body _ (TRpar :: tl) Hi Eb)
      by (auto; pose proof (print_instrs_len fs offset body Hi Eb); rewrite app_length; unfold lex; rewrite map_length; cbn; lia).
    cbn [bind]. unfold tl. rewrite (parse_func_refs_rt refs rest Hrefs). reflexivity.
  - (* func *)
    apply andb_true_iff in Hwf. destruct Hwf as [Hwf Hi]. apply andb_true_iff in Hwf. destruct Hwf as [Hr Hl].
    apply String.eqb_eq in Hr. destruct r as [sp ty]. cbn [fst snd] in *. subst sp.
    destruct (print_instrs fs instructions) as [body| | |] eqn:Eb; try discriminate. cbn [bind] in Hp.
    injection Hp as <-. destruct (not_instr_rpar rest) as [Hat Hs].
    destruct (body_head fs instructions body rest Hi Eb) as [Hhead Hsafe].
    set (tl := lex body ++ TRpar :: rest) in *.
    assert (Hbody : forall f, (List.length instructions < f)%nat ->
              parse_instr_list fs f tl = Ok (instructions, TRpar :: rest)).
    { intros f Hf. apply (instr_list_rt fs instructions body f (TRpar :: rest) Hi Eb Hf Hat Hs). }
    assert (Hlen : (List.length instructions <= List.length tl)%nat).
    { unfold tl. rewrite app_length. pose proof (print_instrs_len fs instructions body Hi Eb). unfold lex. rewrite map_length. lia. }
    destruct locals as [|l0 locals].
    + cbn [List.app lex map lex_piece]. rewrite !lex_app. cbn [lex map lex_piece List.app].
      change (lex_word "func") with (TWord "func"). change (lex_word "type") with (TWord "type"). rewrite lex_dec.
      rewrite <- ?app_assoc. cbn [List.app]. fold tl. cbn [parse_def String.eqb Ascii.eqb Bool.eqb].
      rewrite (sig_follows_safe _ Hsafe), (parse_locals_none _ _ Hhead). cbn [bind].
      rewrite Hbody by lia. reflexivity.
    + cbn [List.app lex map lex_piece]. rewrite !lex_app. cbn [lex map lex_piece List.app].
      rewrite ?lex_app. cbn [lex map lex_piece List.app]. fold (lex (map PW locals)). rewrite ?lex_map_PW.
      change (lex_word "func") with (TWord "func"). change (lex_word "type") with (TWord "type").
      change (lex_word "local") with (TWord "local"). rewrite lex_dec. rewrite <- !app_assoc. cbn [List.app].
      fold tl. cbn [parse_def String.eqb Ascii.eqb Bool.eqb sig_follows orb].
      set (ws := l0 :: locals) in *.
      cbn [parse_locals String.eqb Ascii.eqb Bool.eqb].
      change (lex_word l0 :: map lex_word locals ++ TRpar :: tl) with (map lex_word ws ++ TRpar :: tl).
      rewrite (parse_words_rt ws tl _ Hl) by (rewrite app_length, map_length; cbn; lia). cbn [bind].
      cbn [List.length]. rewrite (parse_locals_none _ _ Hhead). cbn [bind]. rewrite app_nil_r.
      rewrite Hbody by lia. reflexivity.
Qed.

(* ------------------------------------------------------------------ the (module ...) loop *)
Lemma print_def_head fs d ps : wf_text_def fs d = true -> print_def fs d = Ok ps ->
  exists k ps', ps = PL :: PW k :: ps' /\ lex_word k = TWord k.
Proof.
  destruct d; cbn [wf_text_def]; try discriminate; intros Hwf Hp; cbn [print_def] in Hp.
  - injection Hp as <-. eexists _, _. split; [reflexivity|reflexivity].
  - injection Hp as <-. eexists _, _. split; [reflexivity|reflexivity].
  - injection Hp as <-. eexists _, _. split; [reflexivity|reflexivity].
  - destruct (print_instrs fs init); try discriminate. injection Hp as <-. eexists _, _. split; reflexivity.
  - injection Hp as <-. eexists _, _. split; reflexivity.
  - destruct (negb (snd tab =? 0)); try discriminate. destruct (print_instrs fs offset); try discriminate.
    injection Hp as <-. eexists _, _. split; reflexivity.
  - destruct (print_instrs fs instructions); try discriminate. injection Hp as <-. eexists _, _. split; reflexivity.
Qed.

Theorem text_defs_rt fs : forall l ps fuel rest,
  forallb (wf_text_def fs) l = true -> print_defs fs l = Ok ps -> (List.length l < fuel)%nat ->
  parse_defs fs fuel (lex ps ++ TRpar :: rest) = Ok (l, TRpar :: rest).
Proof.
  induction l as [|d l IH]; intros ps fuel rest Hwf Hp Hf; (destruct fuel as [|f]; [cbn in Hf; lia|]).
  - cbn in Hp. injection Hp as <-. reflexivity.
  - cbn [forallb] in Hwf. apply andb_true_iff in Hwf. destruct Hwf as [Hd Hl]. cbn [print_defs] in Hp.
    destruct (print_def fs d) as [a| | |] eqn:Ea; try discriminate. cbn [bind] in Hp.
    destruct (print_defs fs l) as [b| | |] eqn:Eb; try discriminate. cbn [bind] in Hp. injection Hp as <-.
    rewrite lex_app, <- app_assoc.
    destruct (print_def_head fs d a Hd Ea) as (k & a' & -> & Hk).
    pose proof (text_def_rt fs d _ (lex b ++ TRpar :: rest) Hd Ea) as P.
    cbn [parse_defs]. cbn [lex map lex_piece List.app] in P |- *. rewrite P. cbn [bind].
    rewrite (IH b f rest Hl eq_refl) by (cbn in Hf; lia). reflexivity.
Qed.

Theorem text_module_rt fs l ps :
  forallb (wf_text_def fs) l = true -> print_module fs l = Ok ps ->
  parse_module_text fs (lex ps) = Ok l.
Proof.
  intros Hwf Hp. unfold print_module in Hp.
  destruct (print_defs fs l) as [b| | |] eqn:Eb; try discriminate. cbn [bind] in Hp.
  assert (Eps : ps = [PL; PW "module"] ++ b ++ [PR]) by (injection Hp as <-; reflexivity). subst ps. clear Hp.
  rewrite !lex_app. change (lex [PL; PW "module"]) with [TLpar; TWord "module"]. change (lex [PR]) with [TRpar].
  cbn [List.app]. unfold parse_module_text. cbn [String.eqb Ascii.eqb Bool.eqb].
  pose proof (text_defs_rt fs l b (S (List.length (lex b ++ [TRpar]))) [] Hwf Eb) as P.
  assert (Hlen : (List.length l <= List.length b)%nat).
  { clear -Hwf Eb. revert b Eb. induction l as [|d l IH]; intros b Eb; [cbn; lia|].
    cbn [forallb] in Hwf. apply andb_true_iff in Hwf. destruct Hwf as [Hd Hl]. cbn [print_defs] in Eb.
    destruct (print_def fs d) as [a| | |] eqn:Ea; try discriminate. cbn [bind] in Eb.
    destruct (print_defs fs l) as [b'| | |] eqn:Eb'; try discriminate. cbn [bind] in Eb. injection Eb as <-.
    destruct (print_def_head fs d a Hd Ea) as (k & a' & -> & _). rewrite app_length. pose proof (IH Hl b' eq_refl). cbn. lia. }
  rewrite P by (rewrite app_length; unfold lex; rewrite map_length; cbn; lia).
  destruct (lex b ++ [TRpar]) as [|t0 ts0] eqn:Ets; [destruct (lex b); discriminate|].
  assert (Hnw : match t0 with TWord _ => False | _ => True end).
  { destruct l as [|d l'].
    - cbn in Eb. injection Eb as <-. cbn in Ets. injection Ets as <- <-. exact I.
    - cbn [forallb] in Hwf. apply andb_true_iff in Hwf. destruct Hwf as [Hd _]. cbn [print_defs] in Eb.
      destruct (print_def fs d) as [a| | |] eqn:Ea; try discriminate. cbn [bind] in Eb.
      destruct (print_defs fs l') as [b'| | |]; try discriminate. cbn [bind] in Eb. injection Eb as <-.
      destruct (print_def_head fs d a Hd Ea) as (k & a' & -> & _). cbn in Ets. injection Ets as <- _. exact I. }
  destruct t0; try contradiction; reflexivity.
Qed.
