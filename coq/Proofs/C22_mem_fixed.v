(* Proofs/C22_mem_fixed.v — the repaired address lowering (fixes/C22-address-unsigned.diff: the i32 address is
   cast to u32 before the pointer cast): loads and stores agree with Spec.WasmMemSpec for EVERY i32 address,
   and every out-of-bounds access raises. *)
From PV Require Import Lib.Py Lib.Tac Spec.BitsSpec Spec.WasmNumSpec Spec.WasmMemSpec Model.WasmMem.
From PV Require Import Proofs.C22_base Proofs.C22_mem.
Open Scope Z_scope.

Lemma u32_nonneg s : 0 <= s mod 2 ^ 32.
Proof. apply Z.mod_pos_bound. reflexivity. Qed.

Lemma load_narrow_u m size N s off sx r : wf m -> (1 <= size)%nat ->
  8 * Z.of_nat size <= N -> 0 <= off -> 8 * Z.of_nat size <> N ->
  mem_load (wasm_mem m) size sx N (unsigned 32 s) off = Some r -> wasm_load_u m size sx N s off = Ok (signed N r).
Proof. intros. unfold wasm_load_u. eapply load_narrow_c; try eassumption. apply u32_nonneg. Qed.

Lemma load_full_u m size N s off sx r : wf m -> (1 <= size)%nat ->
  8 * Z.of_nat size <= N -> 0 <= off -> 8 * Z.of_nat size = N ->
  mem_load (wasm_mem m) size sx N (unsigned 32 s) off = Some r -> wasm_load_u m size true N s off = Ok (signed N r).
Proof. intros. unfold wasm_load_u. eapply load_full_c; try eassumption. apply u32_nonneg. Qed.

Lemma load_oob_u m size N s off sgn sx : wf m -> (1 <= size)%nat ->
  8 * Z.of_nat size <= N -> 0 <= off ->
  mem_load (wasm_mem m) size sx N (unsigned 32 s) off = None -> wasm_load_u m size sgn N s off = Internal AssertionError.
Proof. intros. unfold wasm_load_u. eapply load_oob_c; try eassumption. apply u32_nonneg. Qed.

Lemma store_exact_u m size N s off v W' : wf m -> (1 <= size)%nat -> 8 * Z.of_nat size <= N ->
  0 <= off -> in_s N v ->
  mem_store (wasm_mem m) size (unsigned 32 s) off (unsigned N v) = Some W' ->
  exists m', wasm_store_u m size N s off v = Ok m' /\ store_post m m' W'.
Proof. intros. unfold wasm_store_u. eapply store_exact; try eassumption. apply u32_nonneg. Qed.

Lemma store_oob_u m size N s off v : wf m -> (1 <= size)%nat -> 8 * Z.of_nat size <= N ->
  0 <= off -> in_s N v ->
  mem_store (wasm_mem m) size (unsigned 32 s) off (unsigned N v) = None ->
  wasm_store_u m size N s off v = Internal AssertionError.
Proof. intros. unfold wasm_store_u. eapply store_oob; try eassumption. apply u32_nonneg. Qed.
