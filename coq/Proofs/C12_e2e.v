(* Proofs/C12_e2e.v — end-to-end contents: every input section's bytes are found in the memory image
   of the memory its output section is placed in, at section.address + recorded offset. *)
From PV Require Import Lib.Py Lib.Tac Spec.LinkSpec Model.Linker Proofs.C12_linker.
From Coq Require Import String.
Open Scope Z_scope.

Lemma bytes_at_nth l off bs k :
  bytes_at l off bs -> 0 <= k < len bs -> nth (Z.to_nat (off + k)) l 0 = nth (Z.to_nat k) bs 0.
Proof.
  intros [pre [post [-> Hl]]] Hk. unfold len in *.
  rewrite app_nth2 by lia. rewrite app_nth1 by lia. f_equal. lia.
Qed.

Lemma mem_byte_block bl : forall c a d j,
  ordered_from c bl -> In (a, d) bl -> 0 <= j < len d -> mem_byte bl (a + j) = nth (Z.to_nat j) d 0.
Proof.
  induction bl as [|[a0 d0] r IH]; intros c a d j O Hin Hj; cbn in *; [tauto|].
  destruct O as [O1 O2]. destruct Hin as [E|Hin].
  - injection E as -> ->. assert (E1 : (a <=? a + j) && (a + j <? a + len d) = true) by lia.
    rewrite E1. f_equal. lia.
  - destruct (ordered_from_In _ _ _ O2 Hin) as [X _]. cbn in X.
    assert (E1 : (a0 <=? a + j) && (a + j <? a0 + len d0) = false) by lia. rewrite E1.
    eapply IH; eassumption.
Qed.

Lemma resolve_In secs names n s : In n names -> find_sect n secs = Some s -> In s (resolve secs names).
Proof.
  intros Hn F. unfold resolve. apply in_flat_map. exists n. split; [assumption|]. rewrite F. now left.
Qed.

Lemma Forall2_combine_In {A B} (P : A -> B -> Prop) l l' a b :
  Forall2 P l l' -> In (a, b) (combine l l') -> P a b.
Proof.
  intros F. induction F; cbn; [tauto|]. intros [E|Hi]; [injection E as <- <-; assumption | auto].
Qed.

Theorem end_to_end_contents cfg objs l entry extra out ts i o t j s rec m img :
  link_trace cfg objs (Some l) false entry extra = Ok (out, ts) ->
  (NoDup (all_placed (l_mems l)) \/ fix_twice cfg = true) ->
  nth_error objs i = Some o -> nth_error ts i = Some t ->
  nth_error (o_sects o) j = Some s -> nth_error (fst t) j = Some rec ->
  In (m, img) (combine (l_mems l) (o_images out)) -> In (s_name s) (i_sects img) ->
  exists os bytes,
    find_sect (s_name s) (o_sects out) = Some os /\ image_data (o_sects out) img = Ok bytes /\
    aligned (s_addr os) (s_align os) /\
    m_loc m <= s_addr os + snd rec /\ s_addr os + snd rec + len (s_data s) <= m_loc m + m_size m /\
    forall k, 0 <= k < len (s_data s) ->
      mem_byte (blocks (resolve (o_sects out) (i_sects img))) (s_addr os + snd rec + k) = nth (Z.to_nat k) (s_data s) 0 /\
      nth (Z.to_nat (s_addr os + snd rec + k - m_loc m)) bytes 0 = nth (Z.to_nat k) (s_data s) 0.
Proof.
  intros H ND Ho Ht Hs Hr Hm Hp.
  assert (NDp : NoDup (all_placed (l_mems l))).
  { destruct ND as [ND|Fx]; [assumption | eapply link_trace_fixed_nodup; eassumption]. }
  pose proof (Forall2_combine_In _ _ _ _ _ (link_trace_layout cfg _ _ _ _ _ _ H NDp) Hm) as MP.
  pose proof (mem_placed_facts _ _ _ MP) as P.
  destruct MP as [_ [_ [_ [_ [Ord [_ [_ Imd]]]]]]].
  destruct (c12_contents cfg _ _ _ _ _ _ _ H) as [_ C]. destruct (C _ _ _ Ho Ht) as [_ C2].
  destruct (C2 _ _ _ Hs Hr) as [_ [os [F [_ K]]]].
  destruct (contribution_bytes_at _ _ _ _ K) as [B _].
  destruct P as [_ [_ [_ [Reg [_ [bytes [Im [_ Bt]]]]]]]].
  set (ss := resolve (o_sects out) (i_sects img)) in *.
  assert (Hos : In os ss) by (eapply resolve_In; eassumption).
  destruct (Reg os Hos) as [Al [R1 R2]].
  assert (Hoff : 0 <= snd rec /\ snd rec + len (s_data s) <= len (s_data os)).
  { destruct B as [pre [post [E Hl]]]. rewrite E, !len_app. pose proof (len_nonneg pre). pose proof (len_nonneg post). lia. }
  exists os, bytes. split; [assumption|]. split; [assumption|]. split; [assumption|].
  split; [lia|]. split; [lia|]. intros k Hk.
  assert (Hb : In (s_addr os, s_data os) (blocks ss)) by (unfold blocks; apply in_map_iff; exists os; auto).
  assert (MB : mem_byte (blocks ss) (s_addr os + snd rec + k) = nth (Z.to_nat k) (s_data s) 0).
  { replace (s_addr os + snd rec + k) with (s_addr os + (snd rec + k)) by lia.
    rewrite (mem_byte_block (blocks ss) (m_loc m) (s_addr os) (s_data os)); [|assumption|assumption|lia].
    now apply bytes_at_nth. }
  split; [assumption|]. rewrite <- MB.
  assert (Lb : len bytes = end_of (m_loc m) (blocks ss) - m_loc m).
  { rewrite Imd in Im. injection Im as <-. now apply len_fill. }
  destruct (ordered_from_In _ _ _ Ord Hb) as [_ Y]. cbn in Y.
  replace (s_addr os + snd rec + k) with (m_loc m + (s_addr os + snd rec + k - m_loc m)) at 2 by lia.
  apply Bt. lia.
Qed.
