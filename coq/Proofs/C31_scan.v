(* Proofs/C31_scan.v — scanner.scan implements maximal munch for a non-nullable token regex:
   whenever it returns, the tokens split the input, and each token is the longest non-empty
   prefix of the rest that the regex matches. *)
From PV Require Import Lib.Py Lib.Tac Spec.RegLangSpec Model.Regex.
From PV Require Import Proofs.C31_sets Proofs.C31_regex Proofs.C31_dfa Proofs.C31_total.
Open Scope Z_scope.

(* ---- what compile() guarantees about its tables *)
Definition tables_ok (r : re) (states : list re) (d : dfa) : Prop :=
  let '(trs, accepts, e) := d in
  accepts = map nullable states /\
  index_of NULL states O = Some e /\
  index_of r states O = Some O /\
  (forall q j c, index_of q states O = Some j -> in_sigma c ->
     exists m, pick_transition trs j c = Ok m /\ index_of (deriv q c) states O = Some m).

Lemma compile_tables fuel r d : re_canon r -> compile fuel r = Ok d -> exists states, tables_ok r states d.
Proof.
  intros Hr. unfold compile.
  destruct (compile_loop fuel ([r], [[]], [r])) as [[[states trs] stack]| | |] eqn:Ec; cbn [bind];
    try discriminate.
  assert (HB0 : Base [r] [[]]).
  { split; [reflexivity|]. split; [constructor; [assumption|constructor]|].
    intros [|[|i]] ts si Hi Hsi; cbn in Hi; try discriminate. inversion Hi. constructor. }
  assert (HP0 : Pend [r] [[]] [r] None).
  { split; [constructor; [intros []|constructor]|]. split.
    - intros q [<-|[]]. exists O. split; [apply index_of_self_head|]. split; [discriminate|reflexivity].
    - intros q m Hm _. left. left. cbn in Hm. destruct (re_eqb q r) eqn:E; [|discriminate].
      apply re_eqb_eq in E. now subst. }
  apply compile_loop_J in Ec; auto. destruct Ec as (HB & (_ & _ & Hdone) & (l & ->)).
  destruct (index_of NULL ([r] ++ l) O) as [e|] eqn:Ee; [|discriminate].
  intros H. inversion H; subst d. clear H. exists ([r] ++ l). unfold tables_ok.
  split; [reflexivity|]. split; [assumption|]. split; [apply index_of_self_head|].
  intros q j c Hq Hc. destruct HB as (Hlen & Hcan & Htr).
  destruct (Hdone q j Hq) as [[]|(ts & Hts & Hok)]; [discriminate|].
  destruct (pick_transition_total trs j ts c Hts Hok Hc) as (m & Hm). exists m. split; [assumption|].
  pose proof (index_of_0 _ _ _ Hq) as Hnq. specialize (Htr j ts q Hts Hnq).
  assert (Hv : Forall tvalid ts) by (eapply Forall_impl; [|exact Htr]; intros t [H _]; exact H).
  destruct (pick_transition_spec trs j ts c m Hts Hv Hm) as (t & Ht & <- & Hct).
  rewrite Forall_forall in Htr. destruct (Htr t Ht) as [_ Hnext]. now apply Hnext.
Qed.

(* ---- list facts *)
Lemma app_snoc_split {A} (x y l : list A) (c : A) :
  x ++ y = l ++ [c] -> y <> [] -> exists y', y = y' ++ [c] /\ l = x ++ y'.
Proof.
  intros E Hy. destruct (exists_last Hy) as (y' & c' & ->).
  rewrite app_assoc in E. apply app_inj_tail in E. destruct E as [<- <-]. eauto.
Qed.

Lemma sub_token {A} (done tok rest : list A) :
  firstn (length done + length tok - length done) (skipn (length done) (done ++ tok ++ rest)) = tok.
Proof.
  replace (length done + length tok - length done)%nat with (length tok) by lia.
  rewrite skipn_app, skipn_all, Nat.sub_diag. cbn [skipn app].
  rewrite firstn_app, firstn_all, Nat.sub_diag. cbn. now rewrite app_nil_r.
Qed.

Lemma nth_error_at {A} (pre suf : list A) :
  nth_error (pre ++ suf) (length pre) = match suf with [] => None | c :: _ => Some c end.
Proof.
  rewrite nth_error_app2 by lia. rewrite Nat.sub_diag. destruct suf; reflexivity.
Qed.

(* ---- the loop invariant: chars = done ++ tok ++ suf, the automaton has read tok *)
Definition seen (r : re) (done tok : list Z) (accept : bool) (end_ : nat) : Prop :=
  if accept then
    exists tokA tokB, tok = tokA ++ tokB /\ tokB <> [] /\ end_ = (length done + length tokA)%nat /\
      L r tokA /\ (forall x y, tokB = x ++ y -> x <> [] -> y <> [] -> ~ L r (tokA ++ x))
  else forall x y, tok = x ++ y -> y <> [] -> ~ L r x.

Lemma scan_loop_munch r states d : re_canon r -> nullable r = false -> tables_ok r states d ->
  forall fuel done tok suf st accept end_ out res,
  Forall in_sigma (tok ++ suf) ->
  index_of (derivs r tok) states O = Some st ->
  seen r done tok accept end_ ->
  scan_loop fuel d (done ++ tok ++ suf) (length done) (length done + length tok) st accept end_ out = Ok res ->
  exists toks, res = out ++ toks /\ munch (L r) (tok ++ suf) toks.
Proof.
  intros Hr Hnn. destruct d as [[trs accepts] e]. intros (Hacc & Herr & H0 & Hpick). subst accepts.
  induction fuel as [|fuel IH]; intros done tok suf st accept end_ out res Hsig Hst Hseen; cbn [scan_loop];
    [discriminate|].
  pose proof (index_of_0 _ _ _ Hst) as Hnst.
  rewrite nth_error_map, Hnst. cbn [option_map].
  set (acc_here := nullable (derivs r tok)).
  set (accept1 := if acc_here then true else accept).
  set (end1 := if acc_here then (length done + length tok)%nat else end_).
  (* the summary after looking at the accept flag of the current state *)
  assert (HQ : if accept1 then
             exists tokA tokB, tok = tokA ++ tokB /\ end1 = (length done + length tokA)%nat /\
               L r tokA /\ (forall x y, tokB = x ++ y -> x <> [] -> ~ L r (tokA ++ x))
           else forall x y, tok = x ++ y -> ~ L r x).
  { unfold accept1, end1. destruct acc_here eqn:Eacc; unfold acc_here in Eacc.
    - exists tok, []. rewrite app_nil_r. split; [reflexivity|]. split; [reflexivity|].
      split; [now apply matches_spec|]. intros x y E Hx. destruct x; [congruence|discriminate].
    - assert (Hno : ~ L r tok) by (intros HL; apply matches_spec in HL; unfold matches in HL; congruence).
      unfold seen in Hseen. destruct accept.
      + destruct Hseen as (tokA & tokB & -> & HB & -> & HL & Hlong). exists tokA, tokB.
        split; [reflexivity|]. split; [reflexivity|]. split; [assumption|].
        intros x y E Hx. destruct y as [|c y]; [|apply (Hlong x (c :: y)); auto; discriminate].
        rewrite app_nil_r in E. now subst x.
      + intros x y E. destruct y as [|c y]; [|apply (Hseen x (c :: y)); auto; discriminate].
        rewrite app_nil_r in E. now subst x. }
  (* emitting the token tokA and restarting behind it *)
  assert (Hemit : accept1 = true ->
            (forall x y, suf = x ++ y -> x <> [] -> ~ L r (tok ++ x)) ->
            scan_loop fuel (trs, map nullable states, e) (done ++ tok ++ suf) end1 end1 O false end1
              (out ++ [firstn (end1 - length done) (skipn (length done) (done ++ tok ++ suf))]) = Ok res ->
            exists toks, res = out ++ toks /\ munch (L r) (tok ++ suf) toks).
  { intros Ea Hbeyond Hrun. rewrite Ea in HQ. destruct HQ as (tokA & tokB & -> & -> & HL & Hlong).
    rewrite <- !app_assoc in Hrun. rewrite sub_token in Hrun.
    assert (Hne : tokA <> []).
    { intros ->. apply nullable_spec in HL. congruence. }
    rewrite <- app_length in Hrun. rewrite (app_assoc done tokA) in Hrun.
    replace (length (done ++ tokA)) with (length (done ++ tokA) + length (@nil Z))%nat in Hrun at 2 by (cbn; lia).
    change (tokB ++ suf) with ([] ++ tokB ++ suf) in Hrun.
    apply IH in Hrun.
    - destruct Hrun as (toks & -> & Hm). exists (tokA :: toks). rewrite <- app_assoc. split; [reflexivity|].
      rewrite <- app_assoc. constructor; auto.
      intros x y E Hx.
      (* x is a non-empty prefix of tokB ++ suf *)
      destruct (Nat.le_gt_cases (length x) (length tokB)) as [Hle|Hgt].
      + assert (Hx' : exists z, tokB = x ++ z).
        { exists (firstn (length tokB - length x) (skipn (length x) tokB)).
          assert (E2 : firstn (length x) (tokB ++ suf) = x) by (rewrite E, firstn_app, firstn_all, Nat.sub_diag; cbn; now rewrite app_nil_r).
          rewrite firstn_app in E2. replace (length x - length tokB)%nat with O in E2 by lia.
          cbn in E2. rewrite app_nil_r in E2. rewrite <- E2 at 1.
          rewrite <- (firstn_skipn (length x) tokB) at 1. f_equal.
          rewrite firstn_all2; [reflexivity|]. rewrite skipn_length. lia. }
        destruct Hx' as (z & Ez). now apply (Hlong x z).
      + assert (Hx' : exists z, x = tokB ++ z /\ z <> [] /\ suf = z ++ y).
        { exists (skipn (length tokB) x).
          assert (E2 : firstn (length tokB) (x ++ y) = tokB) by (rewrite <- E, firstn_app, firstn_all, Nat.sub_diag; cbn; now rewrite app_nil_r).
          rewrite firstn_app in E2. replace (length tokB - length x)%nat with O in E2 by lia.
          cbn in E2. rewrite app_nil_r in E2.
          assert (Ex : x = tokB ++ skipn (length tokB) x) by (rewrite <- E2 at 1; now rewrite firstn_skipn).
          split; [assumption|]. split.
          - intros Hz. rewrite Hz, app_nil_r in Ex. subst x. lia.
          - rewrite Ex in E. rewrite <- app_assoc in E. now apply app_inv_head in E. }
        destruct Hx' as (z & -> & Hz & Esuf). rewrite app_assoc. now apply (Hbeyond z y).
    - cbn [app]. rewrite Forall_app in Hsig. destruct Hsig as [Ht Hs]. rewrite Forall_app in Ht.
      destruct Ht. now apply Forall_app.
    - cbn. exact H0.
    - unfold seen. intros x y E Hy. symmetry in E. apply app_eq_nil in E. destruct E. contradiction. }
  destruct suf as [|c suf'].
  - (* end of input *)
    rewrite !app_nil_r in *.
    assert (Hn : nth_error (done ++ tok) (length done + length tok) = None)
      by (apply nth_error_None; rewrite app_length; lia).
    rewrite Hn. cbn [bind]. rewrite Nat.eqb_refl. destruct accept1 eqn:Ea.
    + intros Hrun. apply Hemit; [reflexivity| |exact Hrun].
      intros x y E Hx. symmetry in E. apply app_eq_nil in E. destruct E. contradiction.
    + destruct (length done <? length done + length tok)%nat eqn:Elt; [discriminate|].
      intros H. inversion H; subst res. exists []. rewrite !app_nil_r. split; [reflexivity|].
      destruct tok; [constructor|cbn in Elt; apply Nat.ltb_ge in Elt; lia].
  - (* one more character *)
    rewrite app_assoc, <- app_length, nth_error_at, <- app_assoc.
    assert (Hc : in_sigma c) by (rewrite Forall_app in Hsig; destruct Hsig as [_ Hs]; now inversion Hs).
    destruct (Hpick (derivs r tok) st c Hst Hc) as (m & Hm & Hmi). rewrite Hm. cbn [bind].
    assert (Hd : deriv (derivs r tok) c = derivs r (tok ++ [c])) by (now rewrite derivs_app).
    rewrite Hd in Hmi.
    destruct (m =? e)%nat eqn:Eme.
    + (* the new state is the error state: no extension of tok ++ [c] matches *)
      apply Nat.eqb_eq in Eme. subst m.
      assert (Hnull : derivs r (tok ++ [c]) = NULL) by (eapply index_of_inj; eauto).
      destruct accept1 eqn:Ea.
      * intros Hrun. apply Hemit; [reflexivity| |exact Hrun]. intros x y E Hx. destruct x as [|c' x]; [congruence|].
        cbn in E. inversion E; subst c' suf'. intros HL.
        change (tok ++ c :: x) with (tok ++ [c] ++ x) in HL. rewrite app_assoc in HL.
        apply derivs_spec in HL. rewrite Hnull in HL. now apply L_NULL in HL.
      * assert (Elt : (length done <? S (length (done ++ tok)))%nat = true) by (rewrite app_length; apply Nat.ltb_lt; lia).
        rewrite Elt. discriminate.
    + (* keep scanning *)
      intros Hrun.
      replace (S (length (done ++ tok))) with (length done + length (tok ++ [c]))%nat in Hrun
        by (rewrite !app_length; cbn; lia).
      change (done ++ tok ++ c :: suf') with (done ++ tok ++ [c] ++ suf') in Hrun.
      rewrite (app_assoc tok [c] suf') in Hrun.
      apply IH in Hrun; auto.
      * destruct Hrun as (toks & -> & Hmunch). exists toks. split; [reflexivity|].
        now rewrite <- app_assoc in Hmunch.
      * now rewrite <- app_assoc.
      * unfold seen. destruct accept1.
        -- destruct HQ as (tokA & tokB & -> & -> & HL & Hlong). exists tokA, (tokB ++ [c]).
           rewrite <- app_assoc. split; [reflexivity|]. split; [now destruct tokB|].
           split; [reflexivity|]. split; [assumption|]. intros x y E Hx Hy.
           symmetry in E. destruct (app_snoc_split x y tokB c E Hy) as (y' & -> & ->).
           now apply (Hlong x y').
        -- intros x y E Hy. destruct (app_snoc_split x y tok c (eq_sym E) Hy) as (y' & -> & ->).
           now apply (HQ x y').
Qed.

Theorem scan_maximal_munch fuel fuel2 r d chars toks :
  re_canon r -> nullable r = false -> compile fuel r = Ok d -> Forall in_sigma chars ->
  scan fuel2 d chars = Ok toks -> munch (L r) chars toks.
Proof.
  intros Hr Hnn Hc Hsig Hscan. destruct (compile_tables fuel r d Hr Hc) as (states & Hok).
  unfold scan in Hscan.
  change chars with ([] ++ [] ++ chars) in Hscan at 1.
  change O with (length (@nil Z)) in Hscan at 1. change O with (length (@nil Z) + length (@nil Z))%nat in Hscan at 2.
  eapply (scan_loop_munch r states d Hr Hnn Hok) in Hscan.
  - destruct Hscan as (toks' & -> & Hm). exact Hm.
  - exact Hsig.
  - cbn. destruct d as [[trs accepts] e]. destruct Hok as (_ & _ & H0 & _). exact H0.
  - unfold seen. intros x y E Hy. symmetry in E. apply app_eq_nil in E. destruct E. contradiction.
Qed.

(* ---- more fuel never changes a successful compile *)
Lemma compile_loop_fuel_mono fuel : forall st st', compile_loop fuel st = Ok st' ->
  compile_loop (S fuel) st = Ok st'.
Proof.
  induction fuel as [|fuel IH]; intros [[states trs] stack] st'; [discriminate|].
  intros H. cbn [compile_loop] in H. cbn [compile_loop]. destruct stack as [|state stack0]; [exact H|].
  destruct (index_of state states O) as [n|]; [|discriminate].
  destruct (fold_left (class_step state n) (classes state) (states, trs, stack0)) as [[s1 t1] k1].
  apply IH in H. exact H.
Qed.

Lemma compile_fuel_mono fuel k r d : compile fuel r = Ok d -> compile (fuel + k) r = Ok d.
Proof.
  intros H. induction k as [|k IH]; [now rewrite Nat.add_0_r|].
  rewrite Nat.add_succ_r. unfold compile in *.
  destruct (compile_loop (fuel + k) ([r], [[]], [r])) as [st| | |] eqn:E; try discriminate.
  apply compile_loop_fuel_mono in E. rewrite E. exact IH.
Qed.

(* ================================================================== more about munch *)
Lemma munch_concat P text toks : munch P text toks -> concat toks = text.
Proof. induction 1; cbn; [reflexivity|]. now f_equal. Qed.

Lemma prefix_cmp {A} (x1 : list A) : forall y1 x2 y2, x1 ++ y1 = x2 ++ y2 ->
  (exists z, x2 = x1 ++ z /\ y1 = z ++ y2) \/ (exists z, x1 = x2 ++ z /\ y2 = z ++ y1).
Proof.
  induction x1 as [|a x1 IH]; intros y1 x2 y2 E; cbn in E.
  - left. exists x2. auto.
  - destruct x2 as [|b x2]; cbn in E.
    + right. exists (a :: x1). auto.
    + inversion E; subst. destruct (IH _ _ _ H1) as [(z & -> & ->)|(z & -> & ->)]; [left|right]; exists z; auto.
Qed.

Lemma longest_split (P : list Z -> Prop) tokA tokB suf :
  (forall x y, tokB = x ++ y -> x <> [] -> ~ P (tokA ++ x)) ->
  (forall x y, suf = x ++ y -> x <> [] -> ~ P ((tokA ++ tokB) ++ x)) ->
  forall x y, tokB ++ suf = x ++ y -> x <> [] -> ~ P (tokA ++ x).
Proof.
  intros H1 H2 x y E Hx. destruct (prefix_cmp _ _ _ _ E) as [(z & -> & ->)|(z & -> & ->)].
  - destruct z as [|c z].
    + rewrite app_nil_r in *. destruct tokB as [|b tokB]; [congruence|]. apply (H1 (b :: tokB) []); [now rewrite app_nil_r|discriminate].
    + rewrite app_assoc. apply (H2 (c :: z) y); [reflexivity|discriminate].
  - now apply (H1 x z).
Qed.

Lemma munch_first_unique (P : list Z -> Prop) w rest toks text :
  munch P text toks -> text = w ++ rest -> w <> [] -> P w ->
  (forall x y, rest = x ++ y -> x <> [] -> ~ P (w ++ x)) ->
  exists toks1, toks = w :: toks1 /\ munch P rest toks1.
Proof.
  intros Hm E Hw HP Hlong. destruct Hm as [|w' rest' toks' Hw' HP' Hlong' Hm'].
  - destruct w; [congruence|discriminate].
  - destruct (prefix_cmp _ _ _ _ E) as [(z & -> & ->)|(z & -> & ->)].
    + destruct z as [|c z].
      * rewrite app_nil_r in *. eauto.
      * exfalso. apply (Hlong' (c :: z) rest); [reflexivity|discriminate|assumption].
    + destruct z as [|c z].
      * rewrite app_nil_r in *. cbn in Hm'. eauto.
      * exfalso. apply (Hlong (c :: z) rest'); [reflexivity|discriminate|assumption].
Qed.

(* ---- ValueError("No match!") is raised only when the input has no maximal-munch split *)
Lemma scan_loop_diag r states d : re_canon r -> nullable r = false -> tables_ok r states d ->
  forall fuel done tok suf st accept end_ out code,
  Forall in_sigma (tok ++ suf) ->
  index_of (derivs r tok) states O = Some st ->
  seen r done tok accept end_ ->
  scan_loop fuel d (done ++ tok ++ suf) (length done) (length done + length tok) st accept end_ out = Diag code ->
  forall toks, ~ munch (L r) (tok ++ suf) toks.
Proof.
  intros Hr Hnn. destruct d as [[trs accepts] e]. intros (Hacc & Herr & H0 & Hpick). subst accepts.
  induction fuel as [|fuel IH]; intros done tok suf st accept end_ out code Hsig Hst Hseen; cbn [scan_loop];
    [discriminate|].
  pose proof (index_of_0 _ _ _ Hst) as Hnst.
  rewrite nth_error_map, Hnst. cbn [option_map].
  set (acc_here := nullable (derivs r tok)).
  set (accept1 := if acc_here then true else accept).
  set (end1 := if acc_here then (length done + length tok)%nat else end_).
  assert (HQ : if accept1 then
             exists tokA tokB, tok = tokA ++ tokB /\ end1 = (length done + length tokA)%nat /\
               L r tokA /\ (forall x y, tokB = x ++ y -> x <> [] -> ~ L r (tokA ++ x))
           else forall x y, tok = x ++ y -> ~ L r x).
  { unfold accept1, end1. destruct acc_here eqn:Eacc; unfold acc_here in Eacc.
    - exists tok, []. rewrite app_nil_r. split; [reflexivity|]. split; [reflexivity|].
      split; [now apply matches_spec|]. intros x y E Hx. destruct x; [congruence|discriminate].
    - assert (Hno : ~ L r tok) by (intros HL; apply matches_spec in HL; unfold matches in HL; congruence).
      unfold seen in Hseen. destruct accept.
      + destruct Hseen as (tokA & tokB & -> & HB & -> & HL & Hlong). exists tokA, tokB.
        split; [reflexivity|]. split; [reflexivity|]. split; [assumption|].
        intros x y E Hx. destruct y as [|c y]; [|apply (Hlong x (c :: y)); auto; discriminate].
        rewrite app_nil_r in E. now subst x.
      + intros x y E. destruct y as [|c y]; [|apply (Hseen x (c :: y)); auto; discriminate].
        rewrite app_nil_r in E. now subst x. }
  assert (Hemit : accept1 = true ->
            (forall x y, suf = x ++ y -> x <> [] -> ~ L r (tok ++ x)) ->
            scan_loop fuel (trs, map nullable states, e) (done ++ tok ++ suf) end1 end1 O false end1
              (out ++ [firstn (end1 - length done) (skipn (length done) (done ++ tok ++ suf))]) = Diag code ->
            forall toks, ~ munch (L r) (tok ++ suf) toks).
  { intros Ea Hbeyond Hrun. rewrite Ea in HQ. destruct HQ as (tokA & tokB & -> & -> & HL & Hlong).
    rewrite <- !app_assoc in Hrun. rewrite sub_token in Hrun.
    assert (Hne : tokA <> []).
    { intros ->. apply nullable_spec in HL. congruence. }
    rewrite <- app_length in Hrun. rewrite (app_assoc done tokA) in Hrun.
    replace (length (done ++ tokA)) with (length (done ++ tokA) + length (@nil Z))%nat in Hrun at 2 by (cbn; lia).
    change (tokB ++ suf) with ([] ++ tokB ++ suf) in Hrun.
    intros toks Hm. rewrite <- app_assoc in Hm.
    destruct (munch_first_unique (L r) tokA (tokB ++ suf) toks _ Hm eq_refl Hne HL) as (toks1 & -> & Hm1).
    { apply longest_split; assumption. }
    revert Hm1. change (tokB ++ suf) with ([] ++ tokB ++ suf). eapply IH; [| | |exact Hrun].
    - cbn [app]. rewrite Forall_app in Hsig. destruct Hsig as [Ht Hs]. rewrite Forall_app in Ht.
      destruct Ht. now apply Forall_app.
    - cbn. exact H0.
    - unfold seen. intros x y E Hy. symmetry in E. apply app_eq_nil in E. destruct E. contradiction. }
  destruct suf as [|c suf'].
  - rewrite !app_nil_r in *.
    assert (Hn : nth_error (done ++ tok) (length done + length tok) = None)
      by (apply nth_error_None; rewrite app_length; lia).
    rewrite Hn. cbn [bind]. rewrite Nat.eqb_refl. destruct accept1 eqn:Ea.
    + intros Hrun. apply Hemit; [reflexivity| |exact Hrun].
      intros x y E Hx. symmetry in E. apply app_eq_nil in E. destruct E. contradiction.
    + destruct (length done <? length done + length tok)%nat eqn:Elt; [|discriminate].
      intros _ toks Hm. apply Nat.ltb_lt in Elt. destruct Hm as [|w rest toks' Hw HP _ _].
      * cbn in Elt. lia.
      * now apply (HQ w rest).
  - rewrite app_assoc, <- app_length, nth_error_at, <- app_assoc.
    assert (Hc : in_sigma c) by (rewrite Forall_app in Hsig; destruct Hsig as [_ Hs]; now inversion Hs).
    destruct (Hpick (derivs r tok) st c Hst Hc) as (m & Hm & Hmi). rewrite Hm. cbn [bind].
    assert (Hd : deriv (derivs r tok) c = derivs r (tok ++ [c])) by (now rewrite derivs_app).
    rewrite Hd in Hmi.
    destruct (m =? e)%nat eqn:Eme.
    + apply Nat.eqb_eq in Eme. subst m.
      assert (Hnull : derivs r (tok ++ [c]) = NULL) by (eapply index_of_inj; eauto).
      assert (Hbeyond : forall z, ~ L r ((tok ++ [c]) ++ z)).
      { intros z HL. apply derivs_spec in HL. rewrite Hnull in HL. now apply L_NULL in HL. }
      destruct accept1 eqn:Ea.
      * intros Hrun. apply Hemit; [reflexivity| |exact Hrun]. intros x y E Hx. destruct x as [|c' x]; [congruence|].
        cbn in E. inversion E; subst c' suf'.
        change (tok ++ c :: x) with (tok ++ [c] ++ x). rewrite app_assoc. apply Hbeyond.
      * intros _ toks Hmu.
        remember (tok ++ c :: suf') as text eqn:Et. destruct Hmu as [|w rest toks' Hw HP _ _].
        -- destruct tok; discriminate.
        -- change (tok ++ c :: suf') with (tok ++ [c] ++ suf') in Et. rewrite app_assoc in Et.
           destruct (prefix_cmp _ _ _ _ Et) as [(z & Ew & _)|(z & -> & _)].
           ++ destruct z as [|c' z].
              ** rewrite app_nil_r in Ew. subst w. apply (Hbeyond []). now rewrite app_nil_r.
              ** destruct (app_snoc_split w (c' :: z) tok c (eq_sym Ew)) as (y' & _ & ->); [discriminate|].
                 now apply (HQ w y').
           ++ now apply (Hbeyond z).
    + intros Hrun.
      replace (S (length (done ++ tok))) with (length done + length (tok ++ [c]))%nat in Hrun
        by (rewrite !app_length; cbn; lia).
      change (done ++ tok ++ c :: suf') with (done ++ tok ++ [c] ++ suf') in Hrun.
      rewrite (app_assoc tok [c] suf') in Hrun.
      intros toks Hmu. change (tok ++ c :: suf') with (tok ++ [c] ++ suf') in Hmu. rewrite app_assoc in Hmu.
      revert toks Hmu. eapply IH; [| | |exact Hrun]; auto.
      * now rewrite <- app_assoc.
      * unfold seen. destruct accept1.
        -- destruct HQ as (tokA & tokB & -> & -> & HL & Hlong). exists tokA, (tokB ++ [c]).
           rewrite <- app_assoc. split; [reflexivity|]. split; [now destruct tokB|].
           split; [reflexivity|]. split; [assumption|]. intros x y E Hx Hy.
           symmetry in E. destruct (app_snoc_split x y tokB c E Hy) as (y' & -> & ->).
           now apply (Hlong x y').
        -- intros x y E Hy. destruct (app_snoc_split x y tok c (eq_sym E) Hy) as (y' & -> & ->).
           now apply (HQ x y').
Qed.

Theorem scan_diag_no_munch fuel fuel2 r d chars code :
  re_canon r -> nullable r = false -> compile fuel r = Ok d -> Forall in_sigma chars ->
  scan fuel2 d chars = Diag code -> forall toks, ~ munch (L r) chars toks.
Proof.
  intros Hr Hnn Hc Hsig Hscan toks. destruct (compile_tables fuel r d Hr Hc) as (states & Hok).
  unfold scan in Hscan.
  change chars with ([] ++ [] ++ chars) in Hscan at 1.
  change O with (length (@nil Z)) in Hscan at 1. change O with (length (@nil Z) + length (@nil Z))%nat in Hscan at 2.
  eapply (scan_loop_diag r states d Hr Hnn Hok) in Hscan.
  - exact Hscan.
  - exact Hsig.
  - cbn. destruct d as [[trs accepts] e]. destruct Hok as (_ & _ & H0 & _). exact H0.
  - unfold seen. intros x y E Hy. symmetry in E. apply app_eq_nil in E. destruct E. contradiction.
Qed.

(* ---- scan never fails internally on input over SIGMA *)
Lemma scan_loop_no_internal r states d : tables_ok r states d ->
  forall fuel chars start offset st accept end_ out err,
  Forall in_sigma chars -> (exists q, index_of q states O = Some st) ->
  scan_loop fuel d chars start offset st accept end_ out <> Internal err.
Proof.
  destruct d as [[trs accepts] e]. intros (Hacc & Herr & H0 & Hpick). subst accepts.
  induction fuel as [|fuel IH]; intros chars start offset st accept end_ out err Hsig (q & Hq); cbn [scan_loop];
    [discriminate|].
  pose proof (index_of_0 _ _ _ Hq) as Hnq. rewrite nth_error_map, Hnq. cbn [option_map].
  destruct (nth_error chars offset) as [ch|] eqn:Ech.
  - assert (Hc : in_sigma ch) by (rewrite Forall_forall in Hsig; eapply Hsig, nth_error_In; eauto).
    destruct (Hpick q st ch Hq Hc) as (m & Hm & Hmi). rewrite Hm. cbn [bind].
    destruct (m =? e)%nat.
    + destruct (if nullable q then true else accept).
      * apply IH; auto. exists r. exact H0.
      * destruct (start <? S offset)%nat; discriminate.
    + apply IH; auto. eauto.
  - cbn [bind]. rewrite Nat.eqb_refl.
    destruct (if nullable q then true else accept).
    + apply IH; auto. exists r. exact H0.
    + destruct (start <? offset)%nat; discriminate.
Qed.

Theorem scan_correct fuel fuel2 r d chars :
  re_canon r -> nullable r = false -> compile fuel r = Ok d -> Forall in_sigma chars ->
  match scan fuel2 d chars with
  | Ok toks => munch (L r) chars toks /\ concat toks = chars
  | Diag _ => forall toks, ~ munch (L r) chars toks
  | Internal _ => False
  | OutOfFuel => True
  end.
Proof.
  intros Hr Hnn Hc Hsig. destruct (scan fuel2 d chars) as [toks|code|err|] eqn:E.
  - pose proof (scan_maximal_munch fuel fuel2 r d chars toks Hr Hnn Hc Hsig E) as Hm.
    split; [assumption|]. eapply munch_concat; eauto.
  - eapply scan_diag_no_munch; eauto.
  - destruct (compile_tables fuel r d Hr Hc) as (states & Hok). unfold scan in E.
    eapply (scan_loop_no_internal r states d Hok); [exact Hsig| |exact E].
    exists r. destruct d as [[trs accepts] e]. destruct Hok as (_ & _ & H0 & _). exact H0.
  - exact I.
Qed.
