(* Proofs/C11_relocs3.v — C11: Thumb b / b<c> / ldr literal / bl, ARM ldr literal, x86 jmp8, abs64. *)
From PV Require Import Lib.Py Lib.Tac Spec.RelocSpec Gen.bitfun Model.Reloc Proofs.C11_bits Proofs.C11_relocs
  Proofs.C11_relocs2 Proofs.C11_final.
Open Scope Z_scope.

Lemma align2_even P : P mod 2 = 0 -> align FUEL P 2 = Ok P.
Proof.
  intros H. unfold align, FUEL. cbn [align_loop1]. unfold guard. cbn [negb Z.eqb].
  rewrite H. reflexivity.
Qed.

Lemma align4_lit P : P mod 2 = 0 -> align FUEL (P + 2) 4 = Ok ((P + 4) / 4 * 4).
Proof.
  intros H. unfold align, FUEL. cbn [align_loop1]. unfold guard. cbn [negb Z.eqb].
  destruct (Z.eqb_spec ((P + 2) mod 4) 0); cbn [negb bind]; [f_equal; lia|].
  destruct (Z.eqb_spec ((P + 2 + 1) mod 4) 0); cbn [negb bind]; [lia|].
  destruct (Z.eqb_spec ((P + 2 + 1 + 1) mod 4) 0); cbn [negb bind]; [f_equal; lia|]. lia.
Qed.

(* a two-byte instruction whose low byte is replaced *)
Lemma set_low_byte data v : bytes_ok 2 data -> 0 <= v < 256 ->
  exists d', set_nth data 0 (fun _ => v) = Ok d' /\ bytes_ok 2 d' /\
    bits (le_word d') 0 8 = v /\ bits (le_word d') 8 8 = bits (le_word data) 8 8.
Proof.
  intros [Hw Hl] Hv. destruct data as [|b0 [|b1 [|? ?]]]; unfold len in Hl; cbn [length] in Hl; try lia.
  inversion Hw as [|? ? B0 Hw']; subst. inversion Hw' as [|? ? B1 _]; subst.
  cbn [set_nth]. assert (E : ((0 <=? v) && (v <? 256)) = true) by lia. rewrite E.
  eexists. split; [reflexivity|]. split; [split; [constructor; [exact Hv|constructor; [exact B1|constructor]]|reflexivity]|].
  cbn [le_word]. unfold bits. pows. split; lia.
Qed.

(* ---- Thumb B<c> (rel8) *)
Lemma exact_thumb_bcc A S P data : bytes_ok 2 data -> S mod 2 = 0 -> P mod 2 = 0 ->
  - 256 <= S - (P + 4) < 254 ->
  exists d', apply ThRel8 A S data P = Ok d' /\ bytes_ok 2 d' /\ thumb_bcc_target (le_word d') P = S /\
             bits (le_word d') 8 8 = bits (le_word data) 8 8.
Proof.
  intros Hd HS HP Hr. unfold apply, asrt. rewrite (proj2 (Z.eqb_eq _ _) HS). unfold guard.
  rewrite align2_even by exact HP. cbn [bind].
  assert (E : ((-256 <=? S - (P + 4)) && (S - (P + 4) <? 254) && ((S - (P + 4) + 256) mod 2 =? 0)) = true) by lia.
  rewrite E. rewrite shiftr_div by lia. change (2 ^ 1) with 2. rewrite wn_ok by (pows; lia). cbn [bind].
  destruct (set_low_byte data (((S - (P + 4)) / 2) mod 2 ^ 8) Hd) as (d' & E' & W & B & F).
  { apply mod_small_range. pows. lia. }
  exists d'. repeat split; try apply W; auto.
  unfold thumb_bcc_target. rewrite B. unfold sext. pows. lia.
Qed.

(* ---- Thumb LDR (literal) (lit8) *)
Lemma exact_thumb_ldr_lit A S P data : bytes_ok 2 data -> S mod 4 = 0 -> P mod 2 = 0 ->
  0 <= S - (P + 4) / 4 * 4 < 1024 ->
  exists d', apply ThLit8 A S data P = Ok d' /\ bytes_ok 2 d' /\ thumb_ldr_lit_addr (le_word d') P = S /\
             bits (le_word d') 8 8 = bits (le_word data) 8 8.
Proof.
  intros Hd HS HP Hr. unfold apply, asrt. rewrite (proj2 (Z.eqb_eq _ _) HS). unfold guard.
  rewrite align4_lit by exact HP. cbn [bind].
  set (o := S - (P + 4) / 4 * 4) in *.
  assert (Ho : o mod 4 = 0) by (subst o; rewrite Zminus_mod, Z_mod_mult, HS; reflexivity).
  assert (E : ((0 <=? o) && (o <? 1024) && (o mod 4 =? 0)) = true) by (rewrite Ho; lia).
  rewrite E. rewrite shiftr_div by lia. change (2 ^ 2) with 4.
  destruct (set_low_byte data (o / 4) Hd) as (d' & E' & W & B & F); [lia|].
  exists d'. repeat split; try apply W; auto.
  unfold thumb_ldr_lit_addr. rewrite B. subst o. lia.
Qed.

(* ---- Thumb B (wrap_new11) *)
Lemma exact_thumb_b A S P data : bytes_ok 2 data -> P mod 2 = 0 -> (S - (P + 4)) mod 2 = 0 ->
  - 2048 <= S - (P + 4) < 2046 ->
  exists d', apply ThWrapNew11 A S data P = Ok d' /\ bytes_ok 2 d' /\ thumb_b_target (le_word d') P = S /\
             bits (le_word d') 11 5 = bits (le_word data) 11 5.
Proof.
  intros [Hw Hl] HP HS Hr. unfold apply, asrt.
  rewrite align2_even by exact HP. cbn [bind].
  assert (E : ((-2048 <=? S - (P + 4)) && (S - (P + 4) <? 2046) && ((S - (P + 4) + 2048) mod 2 =? 0)) = true) by lia.
  rewrite E. unfold guard. rewrite shiftr_div by lia. change (2 ^ 1) with 2. rewrite wn_ok by (pows; lia). cbn [bind].
  destruct (bv_set_wset data 2 0 11 (((S - (P + 4)) / 2) mod 2 ^ 11)) as (d' & E' & Hw' & Hl' & Hv'); auto; try lia.
  exists d'. split; [exact E'|]. split; [split; [exact Hw'|lia]|].
  lv. rewrite Hv'. change (11 - 0) with 11. unfold thumb_b_target. bw. split; [|reflexivity].
  unfold sext. pows. lia.
Qed.

(* ---- Thumb BL (bl_imm11): exact within +-4 MiB when the template has J1 = J2 = 1 (what the assembler emits) *)
Lemma exact_thumb_bl A S P data : bytes_ok 4 data -> S mod 2 = 0 -> P mod 2 = 0 ->
  bits (le_word data) 29 1 = 1 -> bits (le_word data) 27 1 = 1 ->
  - 2 ^ 22 <= S - (P + 4) < 2 ^ 22 ->
  exists d', apply ThBlImm11 A S data P = Ok d' /\ bytes_ok 4 d' /\ thumb_bl_target (le_word d') P = S /\
    bits (le_word d') 11 5 = bits (le_word data) 11 5 /\ bits (le_word d') 27 5 = bits (le_word data) 27 5.
Proof.
  intros [Hw Hl] HS HP J1 J2 Hr. change (wf data) in Hw. unfold apply, asrt. rewrite (proj2 (Z.eqb_eq _ _) HS). unfold guard.
  rewrite align2_even by exact HP. cbn [bind].
  pows.
  assert (E : ((-16777216 <=? S - (P + 4)) && (S - (P + 4) <? 16777214) && ((S - (P + 4) + 16777216) mod 2 =? 0)) = true) by lia.
  rewrite E. set (o := S - (P + 4)) in *. rewrite shiftr_div by lia. change (2 ^ 1) with 2. rewrite wn_ok by (pows; lia). cbn [bind].
  set (r := (o / 2) mod 2 ^ 32).
  assert (Hrr : 0 <= r < 2 ^ 32) by (apply mod_small_range; pows; lia).
  revert J1 J2. lv. start_word data W0. intros J1 J2.
  bvs. bvs. bvs.
  eexists. split; [reflexivity|]. split; [split; assumption|].
  fin_word. unfold thumb_bl_target. bw. rewrite J1, J2.
  split; [|split; reflexivity].
  lits. subst r. pows.
  repeat match goal with |- context [if ?c then _ else _] => destruct c eqn:? end; unfold sext; pows; subst o; lia.
Qed.

(* ---- x86-64 jmp8 and abs64 *)
Lemma exact_x86_jmp8 A S P data : bytes_ok 1 data -> fits_signed 8 (S - (P + 1)) ->
  exists d', apply X86Jmp8 A S data P = Ok d' /\ bytes_ok 1 d' /\ x86_rel8_target (le_word d') P = S.
Proof.
  intros [Hw Hl] Hf. unfold fits_signed in Hf. change (8 - 1) with 7 in Hf. unfold apply.
  destruct (single_field 1 data 8 (S - (P + 1))) as (d' & E & Hw' & Hl' & Hv); auto; try (pows; lia).
  exists d'. repeat split; auto. unfold x86_rel8_target. rewrite Hv. unfold sext. pows. lia.
Qed.

Lemma exact_x86_abs64 A S P data : bytes_ok 8 data -> 0 <= S < 2 ^ 64 ->
  exists d', apply X86Abs64 A S data P = Ok d' /\ bytes_ok 8 d' /\ le_word d' = S.
Proof.
  intros [Hw Hl] HS. unfold apply. rewrite wn_ok by (pows; lia). cbn [bind].
  rewrite (Z.mod_small S) by lia.
  destruct (single_field 8 data 64 S) as (d' & E & Hw' & Hl' & Hv); auto; try (pows; lia).
  exists d'. repeat split; auto. rewrite Hv. apply Z.mod_small. lia.
Qed.
