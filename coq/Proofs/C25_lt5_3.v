(* Proofs/C25_lt5_3.v — shard 3 of 16 of the loop-free 5-node graphs (thorough tier; see C25_lt5.v) *)
From PV Require Import Lib.Py Spec.CfgSpec Model.DomRef Model.DomTree Model.LengauerTarjan Proofs.C25_lt.
Close Scope Z_scope. Open Scope nat_scope.
Lemma lt5_shard_3 : forallb chk_lt (shard5 3) = true.
Proof. vm_cast_no_check (eq_refl true). Qed.
