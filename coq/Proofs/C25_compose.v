(* Proofs/C25_compose.v — composition of the unbounded results: for an accepted idom map t and ANY
   tree tr that represents t (distinct labels, labels reachable, tree ancestors = parent-map
   ancestors), the interval tests of _number_dominator_tree decide dominance and strict dominance
   by the path definition.  That build_tree t is such a tree is covered by c25_dominates_bounded
   (<= 4 nodes) and by the per-run correspondence, not by an unbounded theorem. *)
From PV Require Import Lib.Py.
From PV Require Import Spec.CfgSpec Model.DomRef Model.DomTree.
From PV Require Import Proofs.C25_ref Proofs.C25_cert Proofs.C25_intervals.
Close Scope Z_scope.
Open Scope nat_scope.

Definition represents (g : graph) (e : nat) (t : pmap) (tr : dtree) : Prop :=
  NoDup (labels tr) /\
  (forall w, In w (labels tr) -> reachable g e w) /\
  (forall a b, In a (labels tr) -> In b (labels tr) -> (tanc tr b a <-> anc t b a)).

Theorem dominates_by_intervals g e t tr fuel :
  check_idom g e t = true -> represents g e t tr -> 2 * size tr < fuel ->
  exists iv, number_tree fuel tr = Ok iv /\
    forall one other, In one (labels tr) -> In other (labels tr) ->
      exists io i1, alookup other iv = Some io /\ alookup one iv = Some i1 /\
        (below_or_same io i1 = true <-> dominates g e one other) /\
        (below io i1 = true <-> sdominates g e one other).
Proof.
  intros Hc [Hnd [Hreach Hanc]] Hf.
  destruct (intervals_correct tr fuel Hnd Hf) as [iv [Hiv Hspec]].
  exists iv. split; auto. intros one other H1 Ho.
  destruct (Hspec other one Ho H1) as [io [i1 [E1 [E2 [B1 B2]]]]].
  exists io, i1. repeat split; auto.
  - intros H. apply (cert_tree_dominance g e t Hc other one (Hreach _ Ho)).
    apply Hanc; auto. now apply B1.
  - intros H. apply B1. apply Hanc; auto.
    now apply (cert_tree_dominance g e t Hc other one (Hreach _ Ho)).
  - apply B2 in H. destruct H as [H _].
    apply (cert_tree_dominance g e t Hc other one (Hreach _ Ho)). now apply Hanc.
  - apply B2 in H. destruct H as [_ H]. congruence.
  - intros [Hd Hne]. apply B2. split; [|congruence].
    apply Hanc; auto. now apply (cert_tree_dominance g e t Hc other one (Hreach _ Ho)).
Qed.
