(* Proofs/C30_sites.v — order (in)dependence of the set-consuming sites modelled in Model/C30Sites.v *)
From Coq Require Import ZArith List Sorted Lia Bool Permutation.
From PV Require Import Lib.Py Spec.OrderedSetSpec Model.OrderedSet Model.C30Sites Proofs.C30_orderedset.
Import ListNotations.
Open Scope Z_scope.

Lemma set_add_In : forall x y s, In y (set_add x s) <-> y = x \/ In y s.
Proof.
  intros. unfold set_add. destruct (mem x s) eqn:E; simpl; [|intuition].
  apply mem_In in E. intuition (subst; auto).
Qed.

(* ------------------------------------------------------------------ assign_colors *)
Definition blocks (alias : Z -> option (list Z)) (m r : Z) : Prop :=
  match alias m with Some rs => In r rs | None => r = m end.

Lemma fold_set_add_In : forall rs tk y, In y (fold_left (fun t a => set_add a t) rs tk) <-> In y rs \/ In y tk.
Proof.
  induction rs; simpl; intros; [tauto|]. rewrite IHrs, set_add_In. intuition.
Qed.

Lemma taken_step_In : forall alias tk m y,
  In y (taken_step alias tk m) <-> In y tk \/ exists r, m = Some r /\ blocks alias r y.
Proof.
  intros alias tk [r|] y; simpl.
  - unfold blocks. destruct (alias r) as [rs|] eqn:E.
    + rewrite fold_set_add_In. split.
      * intros [H|H]; [right; exists r; rewrite E; auto|auto].
      * intros [H|(r' & Hr & H)]; [auto|]. inversion Hr; subst. rewrite E in H. auto.
    + rewrite set_add_In. split.
      * intros [H|H]; [right; exists r; rewrite E; auto|auto].
      * intros [H|(r' & Hr & H)]; [auto|]. inversion Hr; subst. rewrite E in H. auto.
  - split; auto. intros [H|(r & Hr & _)]; [auto|discriminate].
Qed.

Lemma takenregs_In_gen : forall alias adj tk y,
  In y (fold_left (taken_step alias) adj tk) <->
  In y tk \/ exists r, In (Some r) adj /\ blocks alias r y.
Proof.
  induction adj as [|m adj IH]; simpl; intros tk y.
  - split; auto. intros [H|(r & [] & _)]; auto.
  - rewrite IH, taken_step_In. split.
    + intros [[H|(r & Hr & Hb)]|(r & Hr & Hb)]; eauto.
    + intros [H|(r & [Hr|Hr] & Hb)]; eauto.
Qed.

(* the set of registers taken by the neighbours *)
Lemma takenregs_In : forall alias adj y,
  In y (takenregs alias adj) <-> exists r, In (Some r) adj /\ blocks alias r y.
Proof. intros. unfold takenregs. rewrite takenregs_In_gen. simpl. tauto. Qed.

Theorem assign_color_order_independent : forall cls alias adj adj',
  Permutation adj adj' -> assign_color cls alias adj = assign_color cls alias adj'.
Proof.
  intros cls alias adj adj' Hp. unfold assign_color.
  rewrite (os_sub_order_independent cls (takenregs alias adj) (takenregs alias adj')); auto.
  intro x. rewrite !takenregs_In. split; intros (r & Hr & Hb); exists r; split; auto.
  - eapply Permutation_in; eauto.
  - eapply Permutation_in; [apply Permutation_sym|]; eauto.
Qed.

Lemma hd_filter_find : forall (f : Z -> bool) l, hd_error (filter f l) = find f l.
Proof. induction l; simpl; auto. destruct (f a); auto. Qed.

(* the pick is the first register, in the class's own order, that no neighbour blocks *)
Theorem assign_color_first_free : forall cls alias adj, NoDup cls ->
  assign_color cls alias adj = find (fun r => negb (mem r (takenregs alias adj))) cls.
Proof.
  intros cls alias adj Hn. unfold assign_color. rewrite os_sub_filter by auto.
  rewrite <- hd_filter_find. destruct (filter _ cls) as [|a l]; simpl; auto.
Qed.

(* ------------------------------------------------------------------ callee-saved selection *)
Theorem callee_saved_order_independent : forall cs used used' alias,
  (forall x, In x used <-> In x used') -> callee_saved cs used alias = callee_saved cs used' alias.
Proof.
  intros cs used used' alias He. unfold callee_saved. apply filter_ext. intro reg. unfold is_used.
  assert (Hm : forall r, mem r used = mem r used').
  { intro r. destruct (mem r used') eqn:E.
    - apply mem_In, He. now apply mem_In.
    - apply mem_false. rewrite He. now apply mem_false. }
  induction (alias reg); simpl; auto. now rewrite Hm, IHl.
Qed.

Lemma filter_sublist_order : forall (f : Z -> bool) l x y r1 r2,
  filter f l = r1 ++ x :: r2 -> In y r2 -> exists l1 l2, l = l1 ++ x :: l2 /\ In y l2.
Proof.
  induction l as [|a l IH]; simpl; intros x y r1 r2 Hf Hy.
  - destruct r1; discriminate.
  - destruct (f a).
    + destruct r1 as [|b r1]; simpl in Hf; inversion Hf; subst.
      * exists [], l. split; auto. now apply filter_In in Hy.
      * match goal with H : filter f l = _ |- _ => destruct (IH _ _ _ _ H Hy) as (l1 & l2 & -> & Hin) end.
        exists (b :: l1), l2. auto.
    + destruct (IH _ _ _ _ Hf Hy) as (l1 & l2 & -> & Hin). exists (a :: l1), l2. auto.
Qed.

(* the saved registers are exactly the used callee-save registers, in the order of the callee_save tuple *)
Theorem callee_saved_in_tuple_order : forall cs used alias,
  (forall r, In r (callee_saved cs used alias) <-> In r cs /\ is_used used alias r = true) /\
  (forall x y r1 r2, callee_saved cs used alias = r1 ++ x :: r2 -> In y r2 ->
     exists l1 l2, cs = l1 ++ x :: l2 /\ In y l2).
Proof.
  intros. split; [intro; apply filter_In|]. intros. eapply filter_sublist_order; eauto.
Qed.

(* arm: a commutative fold — any enumeration of the register set gives the same mask *)
Lemma fold_left_perm : forall (g : Z -> Z -> Z), (forall a x y, g (g a x) y = g (g a y) x) ->
  forall l l', Permutation l l' -> forall a, fold_left g l a = fold_left g l' a.
Proof.
  intros g Hc l l' Hp. induction Hp; intro a0; simpl; auto.
  - now rewrite Hc.
  - now rewrite IHHp1.
Qed.

Theorem reg_list_to_mask_order_independent : forall e e', Permutation e e' ->
  reg_list_to_mask e = reg_list_to_mask e'.
Proof.
  intros. unfold reg_list_to_mask. apply fold_left_perm; auto.
  intros a x y. rewrite <- !Z.lor_assoc. f_equal. apply Z.lor_comm.
Qed.

(* ------------------------------------------------------------------ mem2reg place_phi_nodes *)
Definition df_ex (b : Z) : list Z := if b =? 1 then [2; 3] else [].

(* as it is: which block gets phi_<name>_0 depends on the order in which the runtime enumerates df[b] *)
Theorem place_phi_nodes_refuted : exists enum enum' df defining fuel r r',
  (forall s, Permutation (enum s) s) /\ (forall s, Permutation (enum' s) s) /\
  place_phi_nodes enum df fuel defining = Ok r /\ place_phi_nodes enum' df fuel defining = Ok r' /\ r <> r'.
Proof.
  exists (fun s => s), (@rev Z), df_ex, [1], 10%nat, [(2, 0); (3, 1)], [(3, 0); (2, 1)].
  split; [intro; apply Permutation_refl|]. split; [intro; apply Permutation_sym, Permutation_rev|].
  split; [vm_compute; reflexivity|]. split; [vm_compute; reflexivity|]. discriminate.
Qed.

(* repaired: sorting every enumeration by the block's position makes the result independent of it *)
Section Fixed.
  Variable ord : Z -> Z.
  Hypothesis ord_inj : forall x y, ord x = ord y -> x = y.
  Let R (x y : Z) : Prop := ord x < ord y.

  Lemma R_asym : forall x y, R x y -> R y x -> False.
  Proof. unfold R; intros; lia. Qed.

  Lemma insert_by_perm : forall x l, Permutation (insert_by ord x l) (x :: l).
  Proof.
    induction l; simpl; auto. destruct (ord x <=? ord a); auto.
    eapply perm_trans; [apply perm_skip, IHl|apply perm_swap].
  Qed.

  Lemma sort_by_perm : forall l, Permutation (sort_by ord l) l.
  Proof.
    induction l; simpl; auto. eapply perm_trans; [apply insert_by_perm|]. now apply perm_skip.
  Qed.

  Lemma insert_by_sorted : forall x l, StronglySorted R l -> ~ In x l -> StronglySorted R (insert_by ord x l).
  Proof.
    induction l as [|a l IH]; simpl; intros Hs Hx.
    - constructor; constructor.
    - inversion Hs as [|? ? Hsl Hfa]; subst. destruct (Z.leb_spec (ord x) (ord a)).
      + assert (R x a).
        { unfold R. destruct (Z.eq_dec (ord x) (ord a)) as [e|]; [apply ord_inj in e; subst; tauto|lia]. }
        constructor; auto. constructor; auto.
        rewrite Forall_forall in *. intros z Hz. specialize (Hfa _ Hz). unfold R in *. lia.
      + constructor.
        * apply IH; auto.
        * rewrite Forall_forall in *. intros z Hz.
          apply (Permutation_in _ (insert_by_perm x l)) in Hz. destruct Hz as [<-|Hz]; auto.
  Qed.

  Lemma sort_by_sorted : forall l, NoDup l -> StronglySorted R (sort_by ord l).
  Proof.
    induction 1; simpl; [constructor|]. apply insert_by_sorted; auto.
    intro Hin. apply H. eapply Permutation_in; [apply sort_by_perm|]; auto.
  Qed.

  Lemma sort_by_canonical : forall l l', NoDup l -> Permutation l l' -> sort_by ord l = sort_by ord l'.
  Proof.
    intros l l' Hn Hp. apply (ssorted_unique R R_asym).
    - now apply sort_by_sorted.
    - apply sort_by_sorted. eapply Permutation_NoDup; eauto.
    - intro x. split; intro Hx.
      + eapply Permutation_in; [apply Permutation_sym, sort_by_perm|].
        eapply Permutation_in; [exact Hp|]. eapply Permutation_in; [apply sort_by_perm|]; auto.
      + eapply Permutation_in; [apply Permutation_sym, sort_by_perm|].
        eapply Permutation_in; [apply Permutation_sym; exact Hp|]. eapply Permutation_in; [apply sort_by_perm|]; auto.
  Qed.

  Variable enum enum' : list Z -> list Z.
  Hypothesis enum_perm : forall s, Permutation (enum s) s.
  Hypothesis enum_perm' : forall s, Permutation (enum' s) s.
  Variable df : Z -> list Z.
  Hypothesis df_set : forall b, NoDup (df b).

  Lemma sort_enum_eq : forall s, NoDup s -> sort_by ord (enum s) = sort_by ord (enum' s).
  Proof.
    intros s Hn. apply sort_by_canonical.
    - eapply Permutation_NoDup; [apply Permutation_sym, enum_perm|]; auto.
    - eapply perm_trans; [apply enum_perm|apply Permutation_sym, enum_perm'].
  Qed.

  Lemma place_phi_loop_fixed_eq : forall fuel st,
    place_phi_loop_fixed enum df ord fuel st = place_phi_loop_fixed enum' df ord fuel st.
  Proof.
    induction fuel; intros [[[bl hp] idx] phis]; simpl; destruct bl; auto.
    rewrite (sort_enum_eq (df z)) by apply df_set. apply IHfuel.
  Qed.

  Theorem place_phi_nodes_fixed_order_independent : forall fuel defining, NoDup defining ->
    place_phi_nodes_fixed enum df ord fuel defining = place_phi_nodes_fixed enum' df ord fuel defining.
  Proof.
    intros. unfold place_phi_nodes_fixed. rewrite (sort_enum_eq defining) by auto.
    apply place_phi_loop_fixed_eq.
  Qed.
End Fixed.

(* ------------------------------------------------------------------ burg check_tree_defined *)
Lemma check_defined_ok : forall names symbols,
  check_tree_defined names symbols = Ok tt <-> (forall n, In n names -> mem n symbols = true).
Proof.
  intro names. induction names as [|a r IH]; intros symbols; simpl.
  - split; [intros _ n Hn; destruct Hn|auto].
  - destruct (mem a symbols) eqn:E.
    + rewrite IH. split; intros H n; [intros [<-|Hn]; auto|auto].
    + split; [discriminate|]. intro H. rewrite H in E by auto. discriminate.
Qed.

(* whether the check passes does not depend on the enumeration order of the name set *)
Theorem burg_check_order_independent : forall names names' symbols, Permutation names names' ->
  (check_tree_defined names symbols = Ok tt <-> check_tree_defined names' symbols = Ok tt).
Proof.
  intros names names' symbols Hp. rewrite !check_defined_ok. split; intros H n Hn; apply H.
  - eapply Permutation_in; [apply Permutation_sym|]; eauto.
  - eapply Permutation_in; eauto.
Qed.

Theorem burg_check_reports_undefined : forall names symbols n,
  check_tree_defined names symbols = Diag n -> In n names /\ mem n symbols = false.
Proof.
  induction names as [|a names IH]; simpl; intros symbols n H; [discriminate|].
  destruct (mem a symbols) eqn:E.
  - destruct (IH _ _ H); auto.
  - inversion H; subst; auto.
Qed.

(* only the name quoted in the BurgError of a malformed rule set follows the enumeration *)
Theorem burg_check_message_order_relevant : exists names names' symbols,
  Permutation names names' /\ check_tree_defined names symbols <> check_tree_defined names' symbols.
Proof. exists [1; 2], [2; 1], []. split; [apply perm_swap|vm_compute; discriminate]. Qed.

(* ------------------------------------------------------------------ relooper follows_loop *)
Lemma set_add_nodup : forall x s, NoDup s -> NoDup (set_add x s).
Proof.
  intros x s Hn. unfold set_add. destruct (mem x s) eqn:E; auto.
  constructor; auto. now apply mem_false.
Qed.

Section Follows.
  Variable ln : list Z.
  Variable sdom : Z -> bool.
  Let outside (x : Z) : Prop := mem x ln = false /\ sdom x = false.

  Lemma inner_fold_In : forall ss acc x,
    In x (fold_left (follows_inner ln sdom) ss acc) <-> In x acc \/ (In x ss /\ outside x).
  Proof.
    induction ss as [|s ss IH]; simpl; intros acc x; [tauto|].
    rewrite IH. unfold follows_inner, outside.
    destruct (mem s ln) eqn:E1; [|destruct (sdom s) eqn:E2].
    - split; [tauto|]. intros [H|[[<-|H] [H1 H2]]]; auto; congruence.
    - split; [tauto|]. intros [H|[[<-|H] [H1 H2]]]; auto; congruence.
    - rewrite set_add_In. split.
      + intros [[->|H]|H]; auto. tauto.
      + intros [H|[[<-|H] Ho]]; auto.
  Qed.

  Lemma inner_fold_nodup : forall ss acc, NoDup acc -> NoDup (fold_left (follows_inner ln sdom) ss acc).
  Proof.
    induction ss; simpl; intros acc Hn; auto. apply IHss. unfold follows_inner.
    destruct (mem a ln); auto. destruct (sdom a); auto using set_add_nodup.
  Qed.

  Variable succ : Z -> list Z.
  Let outer := fun acc node => fold_left (follows_inner ln sdom) (succ node) acc.

  Lemma outer_fold_In : forall nodes acc x,
    In x (fold_left outer nodes acc) <->
    In x acc \/ exists n, In n nodes /\ In x (succ n) /\ outside x.
  Proof.
    induction nodes as [|n nodes IH]; simpl; intros acc x.
    - split; auto. intros [H|(n & [] & _)]; auto.
    - rewrite IH. unfold outer. rewrite inner_fold_In. split.
      + intros [[H|[H Ho]]|(m & Hm & H)]; eauto 6.
      + intros [H|(m & [<-|Hm] & H & Ho)]; eauto 6.
  Qed.

  Lemma outer_fold_nodup : forall nodes acc, NoDup acc -> NoDup (fold_left outer nodes acc).
  Proof. induction nodes; simpl; intros; auto. apply IHnodes. unfold outer. now apply inner_fold_nodup. Qed.
End Follows.

Lemma reachable_outside_In : forall succ ln sdom x,
  In x (reachable_outside succ ln sdom) <->
  exists n, In n ln /\ In x (succ n) /\ mem x ln = false /\ sdom x = false.
Proof. intros. unfold reachable_outside. rewrite outer_fold_In. simpl. tauto. Qed.

Lemma mem_perm : forall x l l', Permutation l l' -> mem x l = mem x l'.
Proof.
  intros x l l' Hp. destruct (mem x l') eqn:E.
  - apply mem_In. eapply Permutation_in; [apply Permutation_sym; eauto|]. now apply mem_In.
  - apply mem_false. intro H. apply mem_false in E. apply E. eapply Permutation_in; eauto.
Qed.

(* neither the order of loop.rest (built from the set _reach[header]) nor the enumeration of the successor
   sets reaches the result *)
Theorem follows_loop_order_independent : forall succ succ' ln ln' sdom,
  Permutation ln ln' -> (forall n, Permutation (succ n) (succ' n)) ->
  follows_loop succ ln sdom = follows_loop succ' ln' sdom.
Proof.
  intros succ succ' ln ln' sdom Hp Hs. unfold follows_loop.
  assert (Hperm : Permutation (reachable_outside succ ln sdom) (reachable_outside succ' ln' sdom)).
  { apply NoDup_Permutation.
    - unfold reachable_outside. apply outer_fold_nodup. constructor.
    - unfold reachable_outside. apply outer_fold_nodup. constructor.
    - intro x. rewrite !reachable_outside_In. rewrite (mem_perm x ln ln' Hp).
      split; intros (n & Hn & Hx & Ho); exists n; split.
      + eapply Permutation_in; eauto.
      + split; auto. eapply Permutation_in; eauto.
      + eapply Permutation_in; [apply Permutation_sym|]; eauto.
      + split; auto. eapply Permutation_in; [apply Permutation_sym; apply Hs|]; auto. }
  destruct (reachable_outside succ ln sdom) as [|a [|b r]].
  - apply Permutation_nil in Hperm. now rewrite Hperm.
  - apply Permutation_length_1_inv in Hperm. now rewrite Hperm.
  - pose proof (Permutation_length Hperm) as Hl.
    destruct (reachable_outside succ' ln' sdom) as [|a' [|b' r']]; simpl in Hl; try discriminate; auto.
Qed.
