(* C29 — cover completeness for target riscv: reflection of the closure check on the regenerated table *)
From Coq Require Import String List.
From PV Require Import Spec.BurgCoverSpec Spec.IRTrees Spec.C29Known Model.BurgCover Model.C29Synth Proofs.C29_cover Gen.Tab_burg_riscv.
Import ListNotations.
Local Open Scope string_scope.

Lemma closure_riscv : closure_ok (usable assume_riscv rules_riscv) (irtrees desc_riscv excl_riscv) "S" "stm" = true.
Proof. vm_compute. reflexivity. Qed.

Theorem cover_complete_riscv : forall t,
  in_lang (irtrees desc_riscv excl_riscv) "S" t -> covers (usable assume_riscv rules_riscv) t "stm".
Proof. exact (closure_ok_complete _ _ _ _ closure_riscv). Qed.

(* the synthesized rules (UND<ty>, CALL, ASM) produce registers of the class the target maps the type to *)
Lemma synth_classes_riscv : synth_bad desc_riscv clsnt_riscv synth_riscv = [] /\ synth_complete desc_riscv synth_riscv = true.
Proof. split; vm_compute; reflexivity. Qed.
