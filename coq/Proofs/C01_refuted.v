(* Proofs/C01_refuted.v — where the code as found violates C01 (witnesses by computation), the
   tie between Spec/CExprSpec.v and Spec/CIntSpec.v on closed expressions, and the target instances.
   The definitions orig_* are FROZEN (the code at the time the defects were found: sem_orig typing —
   replaced by commit c83990b —, uint_types[2] = ir.i16 — still so); tools/props/c01.py replays every witness on the real front-end. *)
From PV Require Import Lib.Py Lib.Tac Spec.CIntSpec Spec.CExprSpec Gen.ceval Model.CEval
                       Model.CGenExpr Model.CGenExprRun Spec.IRSyntax Spec.IRSem Proofs.C01_base
                       Proofs.C01_arith Proofs.C01_expr Gen.c01_targets.
From Coq Require Import String.
Open Scope Z_scope.

Definition orig_lp64 : cgen := mk_cgen (mkctx 4 8 8 true) I16 4 8.      (* x86_64 *)
Definition orig_ilp32 : cgen := mk_cgen (mkctx 4 4 8 true) I16 4 4.     (* arm *)
Definition orig_int16 : cgen := mk_cgen (mkctx 2 4 8 true) I16 2 2.     (* msp430 *)

(* the function `rt f(te...) { return e; }` returns something else than the (defined) C value *)
Definition value_refuted (sv : semv) (g : cgen) (te : tenv) (rt : ity) (e : cx) (args : list Z) : bool :=
  match ceval (dm_of (cg_ctx g)) te args e, tree_result sv g te rt e args with
  | Some (v, _), ODone r => negb (r =? convert (dm_of (cg_ctx g)) rt v)
  | _, _ => false
  end.
Definition type_refuted (sv : semv) (g : cgen) (te : tenv) (e : cx) : bool :=
  negb (ity_eqb (ttyp (elab sv te e)) (xtype_of (dm_of (cg_ctx g)) te e)).

(* unsigned a; long b; (a + b) / 2  on ILP32: C type unsigned long, ppci: long *)
Definition w_ilp32 := XBin BDiv (XBin BAdd (XVar 0) (XVar 1)) (XLit TInt 2).
Lemma ilp32_refuted :
  type_refuted sem_orig orig_ilp32 [TUInt; TLong] w_ilp32 = true /\
  value_refuted sem_orig orig_ilp32 [TUInt; TLong] TULong w_ilp32 [4294967295; -1] = true /\
  spec_result (dm_of (cg_ctx orig_ilp32)) [TUInt; TLong] [4294967295; -1] w_ilp32 = Some 2147483647 /\
  tree_result sem_orig orig_ilp32 [TUInt; TLong] TULong w_ilp32 [4294967295; -1] = ODone 4294967295.
Proof. vm_compute. repeat split. Qed.

(* unsigned long a; long long b; b < a  on LP64: compared as long long instead of unsigned long long *)
Definition w_lp64 := XBin BLt (XVar 1) (XVar 0).
Lemma lp64_refuted :
  value_refuted sem_orig orig_lp64 [TULong; TLLong] TInt w_lp64 [1; -1] = true /\
  spec_result (dm_of (cg_ctx orig_lp64)) [TULong; TLLong] [1; -1] w_lp64 = Some 0 /\
  tree_result sem_orig orig_lp64 [TULong; TLLong] TInt w_lp64 [1; -1] = ODone 1.
Proof. vm_compute. repeat split. Qed.

(* unsigned short a; (a - 1) < 0  with 16-bit int: a promotes to unsigned int, ppci: int *)
Definition w_int16 := XBin BLt (XBin BSub (XVar 0) (XLit TInt 1)) (XLit TInt 0).
Lemma int16_promote_refuted :
  type_refuted sem_orig orig_int16 [TUShort] (XBin BSub (XVar 0) (XLit TInt 1)) = true /\
  value_refuted sem_orig orig_int16 [TUShort] TInt w_int16 [0] = true /\
  spec_result (dm_of (cg_ctx orig_int16)) [TUShort] [0] w_int16 = Some 0 /\
  tree_result sem_orig orig_int16 [TUShort] TInt w_int16 [0] = ODone 1.
Proof. vm_compute. repeat split. Qed.

(* unsigned a; (long)a  with 16-bit int: unsigned int is lowered to the SIGNED ir type i16 *)
Lemma int16_irtype_refuted :
  faithful_b default_cfg orig_int16 = false /\ irty orig_int16 TUInt = I16 /\
  value_refuted sem_orig orig_int16 [TUInt] TLong (XVar 0) [40000] = true /\
  tree_result sem_orig orig_int16 [TUInt] TLong (XVar 0) [40000] = ODone (-25536).
Proof. vm_compute. repeat split. Qed.

(* int a; unsigned b; a /= b  and  signed char a; int b; a /= b : computed in the type of a *)
Lemma compound_assign_refuted :
  value_refuted sem_orig orig_lp64 [TInt; TUInt] TInt (XAssignOp BDiv 0 (XVar 1)) [-7; 2] = true /\
  spec_result (dm_of (cg_ctx orig_lp64)) [TInt; TUInt] [-7; 2] (XAssignOp BDiv 0 (XVar 1)) = Some 2147483644 /\
  tree_result sem_orig orig_lp64 [TInt; TUInt] TInt (XAssignOp BDiv 0 (XVar 1)) [-7; 2] = ODone (-3) /\
  value_refuted sem_orig orig_ilp32 [TChar; TInt] TInt (XAssignOp BDiv 0 (XVar 1)) [100; 300] = true /\
  value_refuted (sem_c11 (cg_ctx orig_lp64)) orig_lp64 [TInt; TUInt] TInt (XAssignOp BDiv 0 (XVar 1)) [-7; 2] = true /\
  (* with fixes/C01-compound-assign.diff *)
  tree_result (sem_c11a (cg_ctx orig_lp64)) orig_lp64 [TInt; TUInt] TInt (XAssignOp BDiv 0 (XVar 1)) [-7; 2] = ODone 2147483644.
Proof. vm_compute. repeat split. Qed.

(* ---- the targets as exported on this run ---- *)
Lemma targets_wf : wf_ctx (cg_ctx tg_x86_64) /\ wf_ctx (cg_ctx tg_arm) /\ wf_ctx (cg_ctx tg_msp430).
Proof. unfold wf_ctx. cbn. lia. Qed.
Lemma targets_faithful : forall k, faithful k tg_x86_64 /\ faithful k tg_arm.
Proof. intros k. split; intros t; destruct t; reflexivity. Qed.

(* where sem_orig agrees with C: the operand type pairs it gets wrong, per data model (all other pairs agree) *)
Definition disagree_pairs (sv : semv) (dm : datamodel) : list (ity * ity) :=
  filter (fun p => negb (agree_c sv dm (fst p) (snd p)))
         (flat_map (fun a => map (fun b => (a, b)) all_ity) (filter (fun t => 3 <=? rank t) all_ity)).
Definition promote_bad (sv : semv) (dm : datamodel) : list ity :=
  filter (fun t => negb (agree_p sv dm t)) all_ity.
Lemma orig_fragment :
  (disagree_pairs sem_orig (dm_of (cg_ctx orig_lp64)), promote_bad sem_orig (dm_of (cg_ctx orig_lp64))) = ([(TULong, TLLong); (TLLong, TULong)], []) /\
  (disagree_pairs sem_orig (dm_of (cg_ctx orig_ilp32)), promote_bad sem_orig (dm_of (cg_ctx orig_ilp32))) = ([(TUInt, TLong); (TLong, TUInt)], []) /\
  (disagree_pairs sem_orig (dm_of (cg_ctx orig_int16)), promote_bad sem_orig (dm_of (cg_ctx orig_int16))) = ([], [TUShort]).
Proof. vm_compute. repeat split. Qed.

(* ---- closed expressions: Spec/CExprSpec.v is Spec/CIntSpec.v ---- *)
Lemma xtype_embed dm te e : xtype_of dm te (embed e) = type_of dm e.
Proof.
  induction e as [t z|t a IHa|op a IHa|op a IHa b IHb|x IHx a IHa b IHb]; cbn [embed xtype_of type_of];
    rewrite ?IHa, ?IHb; reflexivity.
Qed.
Lemma xeval_embed dm te st e :
  xeval dm te st (embed e) = match eval dm e with Some v => Some (v, st) | None => None end.
Proof.
  induction e as [t z|t a IHa|op a IHa|op a IHa b IHb|x IHx a IHa b IHb]; cbn [embed].
  - cbn. now destruct (in_range dm t z).
  - cbn [xeval eval]. rewrite IHa. now destruct (eval dm a).
  - cbn [xeval eval]. rewrite IHa, xtype_embed. destruct (eval dm a) as [v|]; [|reflexivity].
    destruct op; cbn [un_val]; reflexivity.
  - destruct op; cbn [xeval eval]; rewrite IHa, ?xtype_embed; (destruct (eval dm a) as [va|]; [|reflexivity]);
      try (rewrite IHb; destruct (eval dm b) as [vb|]; [|reflexivity]; unfold bin_val; cbn [is_shift];
           match goal with |- match ?X with _ => _ end = _ => now destruct X end).
    + destruct (va =? 0); [reflexivity|]. rewrite IHb. now destruct (eval dm b).
    + destruct (va =? 0); [|reflexivity]. rewrite IHb. now destruct (eval dm b).
  - cbn [xeval eval]. rewrite IHx. destruct (eval dm x) as [vx|]; [|reflexivity].
    cbn [xtype_of type_of]. rewrite !xtype_embed.
    destruct (vx =? 0).
    + rewrite IHb, xtype_embed. now destruct (eval dm b).
    + rewrite IHa, xtype_embed. now destruct (eval dm a).
Qed.

Lemma nonvacuous :
  wf_ctx (cg_ctx tg_x86_64) /\
  agrees sem_orig (dm_of (cg_ctx tg_x86_64)) [TUChar; TLong] (XBin BDiv (XUn UNeg (XVar 0)) (XAssignOp BAdd 1 (XLit TUInt 2))) = true /\
  store_ok (dm_of (cg_ctx tg_x86_64)) [TUChar; TLong] [200; -5] /\
  ceval (dm_of (cg_ctx tg_x86_64)) [TUChar; TLong] [200; -5] (XBin BDiv (XUn UNeg (XVar 0)) (XAssignOp BAdd 1 (XLit TUInt 2)))
    = Some (66, [200; -3]).
Proof. split; [unfold wf_ctx; cbn; lia|]. split; [reflexivity|]. split; [repeat constructor|reflexivity]. Qed.
