(* Proofs/C17_contents.v — where the contents of .symtab, .strtab and the .rela tables sit in the final file
   (every object): the bytes at sh_offset of those sections are exactly the serialised tables the writer loops
   produce (C17_tables), so the any-length table reads apply to the FINAL file. *)
From PV Require Import Lib.Py Lib.Tac Gen.Tab_elf Model.ElfWriter Spec.ElfSpec.
From PV Require Import Proofs.C17_codec Proofs.C17_recover Proofs.C17_file Proofs.C17_tables.
From Coq Require Import String Ascii.
Open Scope Z_scope.
Local Notation length := List.length (only parsing).
Local Notation concat := List.concat (only parsing).

Lemma Forall2_imp {A B} (P Q : A -> B -> Prop) l1 l2 :
  (forall a b, P a b -> Q a b) -> Forall2 P l1 l2 -> Forall2 Q l1 l2.
Proof. intros H. induction 1; constructor; auto. Qed.

(* ---- write_symbol_table ---- *)
Record symtab_fact (ht : htypes) (o : mobj) (sn : list (string * Z)) (buf st : list Z) (h : hdr) : Prop := {
  stf : exists es chunks,
      at_ buf (hget h "sh_offset") (zeros (layout_size (ht_sym ht)) ++ concat chunks)
      /\ sers (ht_sym ht) es chunks /\ Forall2 (symrel o sn st) (ordered_symbols o) es;
  stf_type : hget h "sh_type" = 2;
  stf_info : hget h "sh_info" = len (filter (fun y => negb (my_global y)) (mo_symbols o)) + 1;
  stf_entsize : hget h "sh_entsize" = layout_size (ht_sym ht);
  stf_size : hget h "sh_size" = layout_size (ht_sym ht) * (len (mo_symbols o) + 1) }.

Lemma write_symbol_table_spec ht o s s' :
  write_symbol_table ht o s = Ok s' -> names_inv s ->
  exists h, symtab_fact ht o (w_secnums s) (w_buf s') (w_strtab s') h /\ In h (w_shdrs s')
            /\ zlen (w_buf s) <= hget h "sh_offset" /\ names_inv s'.
Proof.
  unfold write_symbol_table. intros H N. bd H. rename x into s1.
  destruct (align_to_spec _ _ _ E) as (pad & Es1 & _).
  assert (N1 : names_inv (wr s1 (zeros (layout_size (ht_sym ht))))) by (rewrite Es1; exact N).
  bd H. rename x into s3.
  destruct (write_symbols_sers _ _ _ _ _ _ E0 N1) as (es & ch & S & B & F & N3 & X3 & K3 & Hs3).
  bd H. destruct x as [nm s4]. injection H as <-.
  destruct (get_string_spec _ _ _ _ E1 N3) as (N4 & A4 & X4 & B4 & H4 & K4 & _).
  eexists. split; [|split; [cbn; apply in_or_app; right; left; reflexivity|split]].
  - constructor; try reflexivity. exists es, ch. split; [|split; [exact S|]].
    + cbn. rewrite B4, B. cbn. rewrite <- app_assoc. apply at_here.
    + cbn. eapply Forall2_imp; [|exact F]. intros y e R. rewrite Es1 in R. cbn in R.
      eapply symrel_ext; [exact X4|exact R].
  - change (zlen (w_buf s) <= tell s1). rewrite Es1. unfold tell, len, zlen. cbn [wr w_buf]. rewrite app_length. lia.
  - exact N4.
Qed.

(* ---- write_string_table ---- *)
Lemma write_string_table_spec s s' :
  write_string_table s = Ok s' ->
  exists h, at_ (w_buf s') (hget h "sh_offset") (w_strtab s') /\ hget h "sh_size" = len (w_strtab s')
            /\ hget h "sh_type" = 3 /\ In h (w_shdrs s') /\ zlen (w_buf s) <= hget h "sh_offset"
            /\ ext (w_strtab s) (w_strtab s').
Proof.
  unfold write_string_table. intros H. bd H. rename x into s1.
  destruct (align_to_spec _ _ _ E) as (pad & Es1 & _).
  bd H. destruct x as [nm s2]. injection H as <-.
  pose proof (get_string_mono _ _ _ _ E0) as M.
  assert (B2 : w_buf s2 = w_buf s1).
  { unfold get_string in E0. destruct (sget _ _); [injection E0 as _ <-; reflexivity|].
    destruct (encode_ascii _); try discriminate. cbn [bind] in E0. injection E0 as _ <-. reflexivity. }
  exists [("sh_addralign", 1); ("sh_size", len (w_strtab s2)); ("sh_offset", tell s1); ("sh_flags", shf_alloc);
          ("sh_type", sht_strtab); ("sh_name", nm)]%string.
  ssplit; try reflexivity.
  - cbn. rewrite B2. unfold tell, len. apply at_here.
  - cbn. apply in_or_app; right; left; reflexivity.
  - change (zlen (w_buf s) <= tell s1). rewrite Es1. unfold tell, len, zlen. cbn [wr w_buf]. rewrite app_length. lia.
  - cbn. rewrite Es1 in M. exact (m_str _ _ M).
Qed.

(* ---- write_rela_table ---- *)
Lemma write_relas_keep ht o : forall rels s s', write_relas ht o s rels = Ok s' ->
  w_symmap s' = w_symmap s /\ w_secnums s' = w_secnums s /\ w_names s' = w_names s /\ w_strtab s' = w_strtab s.
Proof.
  induction rels as [|rel r IH]; intros s s' H; [injection H as <-; auto|].
  cbn [write_relas] in H. bd H. bd H. bd H. destruct (IH _ _ H) as (A & B & C & D). cbn in *. auto.
Qed.

Definition group (o : mobj) (name : string) : list mreloc :=
  filter (fun rel => String.eqb (mr_section rel) name) (mo_relocs o).

Record rela_fact (ht : htypes) (o : mobj) (sm : list (Z * Z)) (sn : list (string * Z)) (buf : list Z)
                 (name : string) (h : hdr) : Prop := {
  rf : exists es chunks, at_ buf (hget h "sh_offset") (concat chunks) /\ sers (ht_rela ht) es chunks
                         /\ Forall2 (relrel ht o sm) (group o name) es;
  rf_type : hget h "sh_type" = 4;
  rf_entsize : hget h "sh_entsize" = layout_size (ht_rela ht);
  rf_size : hget h "sh_size" = layout_size (ht_rela ht) * len (group o name);
  rf_info : sget sn name = Some (hget h "sh_info") }.

Lemma rela_fact_ext ht o sm sn buf buf' name h : ext buf buf' -> rela_fact ht o sm sn buf name h -> rela_fact ht o sm sn buf' name h.
Proof.
  intros E [(es & ch & A & S & F) T En Sz I]. constructor; auto. exists es, ch. split; [eapply at_ext; eauto|auto].
Qed.

Lemma write_rela_groups_spec ht o : forall names s s',
  write_rela_groups ht o s names = Ok s' -> names_inv s ->
  names_inv s' /\ mono s s' /\ w_symmap s' = w_symmap s /\ w_secnums s' = w_secnums s
  /\ forall name, In name names ->
       exists h, rela_fact ht o (w_symmap s) (w_secnums s) (w_buf s') name h /\ In h (w_shdrs s')
                 /\ zlen (w_buf s) <= hget h "sh_offset".
Proof.
  induction names as [|name r IH]; intros s s' H N.
  - injection H as <-. ssplit; auto using mono_refl. intros ? [].
  - cbn [write_rela_groups] in H. bd H. rename x into s1.
    destruct (align_to_spec _ _ _ E) as (pad & Es1 & _).
    bd H. rename x into s2.
    destruct (write_relas_sers _ _ _ _ _ E0) as (es & ch & S & B & F).
    destruct (write_relas_keep _ _ _ _ _ E0) as (Y2 & K2 & Nm2 & St2).
    assert (N2 : names_inv s2).
    { intros t i Ht. rewrite Nm2, Es1 in Ht. rewrite St2, Es1. now apply N. }
    bd H. destruct x as [nm s3].
    destruct (get_string_spec _ _ _ _ E1 N2) as (N3 & A3 & X3 & B3 & H3 & K3 & P3 & Y3 & _).
    bd H. rename x into info. unfold key in E2.
    destruct (sget (w_secnums s3) name) as [k|] eqn:Gk; [|discriminate]. injection E2 as ->.
    set (h := [("sh_entsize", layout_size (ht_rela ht)); ("sh_addralign", if (ht_bits ht =? 64)%Z then 8 else 4);
               ("sh_info", info); ("sh_link", 0); ("sh_size", (layout_size (ht_rela ht) * len (group o name))%Z);
               ("sh_offset", tell s1); ("sh_flags", shf_info_link); ("sh_type", sht_rela); ("sh_name", nm)]%string) in *.
    assert (N4 : names_inv (add_shdr s3 h None)) by exact N3.
    destruct (IH _ _ H N4) as (N' & M' & Y' & K' & HR).
    assert (Ysm : w_symmap (add_shdr s3 h None) = w_symmap s) by (cbn; rewrite Y3, Y2, Es1; reflexivity).
    assert (Ksn : w_secnums (add_shdr s3 h None) = w_secnums s) by (cbn; rewrite K3, K2, Es1; reflexivity).
    assert (M4 : mono s (add_shdr s3 h None)).
    { eapply mono_trans; [eapply align_to_mono; eauto|]. eapply mono_trans; [eapply write_relas_R; try eassumption; inst_mono|].
      eapply mono_trans; [eapply get_string_mono; eauto|apply add_shdr_mono]. }
    ssplit; auto.
    + eapply mono_trans; eauto.
    + rewrite Y'. exact Ysm.
    + rewrite K'. exact Ksn.
    + intros nme [<-|Hin].
      * exists h. ssplit.
        -- apply rela_fact_ext with (w_buf (add_shdr s3 h None)); [apply (m_buf _ _ M')|].
           constructor; try reflexivity.
           ++ exists es, ch. ssplit; auto.
              ** cbn. rewrite B3, B. unfold tell, len. apply at_here.
              ** rewrite Es1 in F. exact F.
           ++ change (hget h "sh_info") with info. rewrite <- Gk, K3, K2, Es1. reflexivity.
        -- destruct (m_sh _ _ M') as [e ->]. cbn. apply in_or_app; left. apply in_or_app; right; left; reflexivity.
        -- change (zlen (w_buf s) <= tell s1). rewrite Es1. unfold tell, len, zlen. cbn [wr w_buf]. rewrite app_length. lia.
      * destruct (HR nme Hin) as (h' & RF & Hin' & Lo). exists h'. ssplit; auto.
        -- rewrite <- Ysm, <- Ksn. exact RF.
        -- pose proof (ext_len _ _ (m_buf _ _ M4)) as Q. eapply Z.le_trans; [exact Q|exact Lo].
Qed.

(* ------------------------------------------------------------------ whole file: tables AND contents *)
Theorem export_whole ht machine o et bs :
  export_object ht machine o et = Ok bs -> image_names_ok o -> ht_ok ht ->
  exists eh hs hs' phs sn st,
    (exists raw, read_struct (ht_big ht) (ehdr_layout (ht_bits ht =? 64)) bs 16 = Some raw
                 /\ mk_ehdr (ht_bits ht =? 64) (ht_big ht) raw = Some (ehdr_of (ht_bits ht =? 64) (ht_big ht) eh))
    /\ hget eh "e_type" = et /\ hget eh "e_machine" = machine /\ hget eh "e_version" = 1
    /\ hget eh "e_shnum" = len hs + 1
    /\ hget eh "e_shentsize" = Z.of_nat (lsize (shdr_layout (ht_bits ht =? 64)))
    /\ hget eh "e_ehsize" = 16 + Z.of_nat (lsize (ehdr_layout (ht_bits ht =? 64)))
    /\ hget eh "e_phnum" = len phs
    /\ sget sn ".strtab"%string = Some (hget eh "e_shstrndx")
    /\ Forall2 (fun h h' => patch sn h = Ok h') hs hs'
    /\ (exists raw0 raw,
          read_struct (ht_big ht) (shdr_layout (ht_bits ht =? 64)) bs (hget eh "e_shoff") = Some raw0
          /\ mk_shdr raw0 = Some (shdr_of [])
          /\ read_table (ht_big ht) (shdr_layout (ht_bits ht =? 64)) bs
               (hget eh "e_shoff" + Z.of_nat (lsize (shdr_layout (ht_bits ht =? 64)))) (len hs) = Some raw
          /\ omap mk_shdr raw = Some (map shdr_of hs'))
    /\ (exists rawp, read_table (ht_big ht) (phdr_layout (ht_bits ht =? 64)) bs
                       (16 + Z.of_nat (lsize (ehdr_layout (ht_bits ht =? 64)))) (len phs) = Some rawp
                     /\ omap (mk_phdr (ht_bits ht =? 64)) rawp = Some (map phdr_of phs))
    /\ (exists hstr, In hstr hs /\ hget hstr "sh_type" = 3 /\ hget hstr "sh_size" = len st
                     /\ at_ bs (hget hstr "sh_offset") st)
    /\ (exists hsym sn2, In hsym hs /\ symtab_fact ht o sn2 bs st hsym)
    /\ (et = et_rel -> exists sm sn3, forall name, In name (sorted_names (map mr_section (mo_relocs o))) ->
           exists h, In h hs /\ rela_fact ht o sm sn3 bs name h).
Proof.
  unfold export_object. intros H NF OK. set (wi := with_images o et). unfold with_images in wi.
  destruct (negb ((et =? et_rel) || (et =? et_exec))); [discriminate|].
  bd H. rename x into id.
  set (s0 := {| w_buf := id ++ zeros (layout_size (ht_ehdr ht)); w_shdrs := []; w_secnums := [];
                w_strtab := [0]; w_names := []; w_phdrs := []; w_symmap := []; w_eh := [] |}) in *.
  assert (I0 : Inv s0).
  { constructor; cbn; [intros t i Hs; discriminate Hs|constructor|intros n k Hs; discriminate Hs]. }
  fold wi in H. bd H. rename x into s1. bd H. rename x into s2. bd H. rename x into s3.
  bd H. rename x into s4. bd H. rename x into s5. bd H. rename x into s6. bd H. rename x into eb.
  bd H. bd H. rename x0 into pb. injection H as <-.
  assert (M36 : mono s2 s5 /\ keepp s2 s5).
  { assert (A3 : mono s2 s3 /\ keepp s2 s3)
      by (split; [eapply write_symbol_table_R; try eassumption; inst_mono
                 |eapply (write_symbol_table_R keepp); try eassumption; inst_keepp]).
    assert (A4 : mono s3 s4 /\ keepp s3 s4).
    { destruct (et =? et_rel); [|injection E3 as <-; split; [apply mono_refl|reflexivity]].
      unfold write_rela_table in E3.
      split; [eapply write_rela_groups_R; try eassumption; inst_mono
             |eapply (write_rela_groups_R keepp); try eassumption; inst_keepp]. }
    assert (A5 : mono s4 s5 /\ keepp s4 s5)
      by (split; [eapply write_string_table_R; try eassumption; inst_mono
                 |eapply (write_string_table_R keepp); try eassumption; inst_keepp]).
    destruct A3, A4, A5. split; [repeat (eapply mono_trans; [eassumption|]); apply mono_refl|].
    unfold keepp in *. congruence. }
  destruct M36 as [M25 P25].
  assert (L0 : zlen (w_buf s0) = 16 + layout_size (ht_ehdr ht)).
  { assert (Lid : zlen id = 16) by (unfold ident_bytes in E; bd E; injection E as <-; reflexivity).
    unfold s0. cbn [w_buf]. unfold zlen in *. rewrite app_length. unfold zeros. rewrite repeat_length.
    assert (0 <= layout_size (ht_ehdr ht)).
    { clear. induction (ht_ehdr ht) as [|[[n c] b] L IHL]; cbn; [lia|]. destruct (fmt_info c) as [[k sg]|]; lia. }
    lia. }
  (* section header table *)
  unfold write_section_headers in E5.
  destruct (align_to s5 8) as [s5a| | |] eqn:EA; try discriminate. cbn [bind] in E5.
  pose proof (align_to_mono _ _ _ EA) as M5a.
  assert (P5a : w_phdrs s5a = w_phdrs s5) by (destruct (align_to_spec _ _ _ EA) as (pd & -> & _); reflexivity).
  destruct (write_shdr_list_sers _ _ _ _ E5) as (hs' & chunks & FP & SS & B6 & Eh6 & Ek6 & Ep6).
  cbn in B6, Eh6, Ek6, Ep6.
  assert (Leb : zlen eb = layout_size (ht_ehdr ht)).
  { unfold elf_header_bytes in E6. bd E6. bd E6. now apply serialize_len in E6. }
  pose proof (serialize_all_len _ _ _ E8) as Lpb.
  destruct (serialize_all_sers _ _ _ E8) as (pch & PS & Epb).
  assert (Lb2 : 16 + zlen (eb ++ pb) <= zlen (w_buf s2) /\ names_inv s2).
  { assert (Hp6 : w_phdrs s6 = w_phdrs s2) by (unfold keepp in P25; congruence).
    destruct wi eqn:Ewi.
    - destruct (write_images_spec _ _ _ _ E0 I0 NF)
        as (I1 & M1 & _ & _ & _ & _ & KW1 & HS1 & HK1 & phs & Hphs & Fph).
      assert (KW0 : keys_in s0 []) by (intros n Hn; cbn in Hn; congruence).
      destruct (write_sections_spec 0 _ _ _ _ E1 (inv_names _ I1) (KW1 _ KW0)) as (N2 & M2 & _ & P2 & _);
        [unfold zlen; lia|].
      pose proof (ext_len _ _ (m_buf _ _ M2)).
      assert (len (w_phdrs s6) = len (mo_images o)).
      { rewrite Hp6, P2, Hphs. cbn. symmetry. eapply Forall2_len; eauto. }
      split; [unfold zlen in *; rewrite app_length; lia|exact N2].
    - injection E0 as <-.
      assert (KW0 : keys_in s0 []) by (intros n Hn; cbn in Hn; congruence).
      destruct (write_sections_spec 0 _ _ _ _ E1 (inv_names _ I0) KW0) as (N2 & M2 & _ & P2 & _);
        [unfold zlen; lia|].
      pose proof (ext_len _ _ (m_buf _ _ M2)).
      assert (len (w_phdrs s6) = 0) by (rewrite Hp6, P2; reflexivity).
      split; [unfold zlen in *; rewrite app_length; lia|exact N2]. }
  destruct Lb2 as [Lb2 N2].
  pose proof (ext_len _ _ (m_buf _ _ M25)) as L25. pose proof (ext_len _ _ (m_buf _ _ M5a)) as L5a.
  set (esz := layout_size (ht_shdr ht)) in *.
  assert (Hesz : esz = Z.of_nat (lsize (shdr_layout (ht_bits ht =? 64)))).
  { destruct (ok_sh _ OK) as (_ & Lq & G). unfold esz. rewrite layout_size_spec, Lq; [reflexivity|].
    destruct (ht_big ht); [left|right]; exact G. }
  assert (Hehs : layout_size (ht_ehdr ht) = Z.of_nat (lsize (ehdr_layout (ht_bits ht =? 64)))).
  { destruct (ok_eh _ OK) as (_ & Lq & G). rewrite layout_size_spec, Lq; [reflexivity|].
    destruct (ht_big ht); [left|right]; exact G. }
  assert (L6 : zlen (w_buf s6) = zlen (w_buf s5a) + esz + zlen (List.concat chunks)).
  { rewrite B6. unfold zlen. rewrite !app_length. unfold zeros. rewrite repeat_length. rewrite Hesz. lia. }
  assert (Hb6 : 16 <= zlen (w_buf s6)) by (unfold zlen in *; rewrite app_length in Lb2; lia).
  destruct (at_overwrite_hdr (w_buf s6) eb pb Hb6) as [Aeb Apb].
  assert (Atab : at_ (overwrite (w_buf s6) e_ident_size (eb ++ pb)) (zlen (w_buf s5a))
                     (zeros esz ++ List.concat chunks)).
  { apply at_overwrite; [lia|unfold zlen in *; lia|]. rewrite B6, <- app_assoc. apply at_here. }
  apply at_split in Atab as [Anull Atab].
  assert (Lz : zlen (zeros esz) = esz) by (unfold zlen, zeros; rewrite repeat_length, Hesz; lia).
  rewrite Lz in Atab.
  (* ELF header record *)
  unfold elf_header_bytes in E6.
  set (eh0 := hset (hset (hset (w_eh s6) "e_type" et) "e_machine" machine) "e_version" 1) in *.
  bd E6. rename x0 into eh1. bd E6. rename x0 into nstr.
  assert (H1 : forall k, k <> "e_entry"%string -> hget eh1 k = hget eh0 k).
  { intros k Hk. destruct (et =? et_exec).
    - destruct (mo_entry o).
      + bd E9. injection E9 as <-. apply hget_hset_ne. intro Q. apply Hk. now symmetry.
      + injection E9 as <-. apply hget_hset_ne. intro Q. apply Hk. now symmetry.
    - injection E9 as <-. reflexivity. }
  set (eh := hset (hset (hset eh1 "e_flags" 0) "e_ehsize" (e_ident_size + layout_size (ht_ehdr ht)))
                  "e_shstrndx" nstr) in *.
  destruct (ehdr_roundtrip ht OK _ _ E6) as [Lraw Draw].
  assert (F_sh : forall k, k <> "e_flags"%string -> k <> "e_ehsize"%string -> k <> "e_shstrndx"%string ->
                 k <> "e_entry"%string -> hget eh k = hget eh0 k).
  { intros k K1 K2 K3 K4. unfold eh. rewrite !hget_hset_ne by (intro Q; symmetry in Q; contradiction). now apply H1. }
  (* contents of .symtab, .rela*, .strtab *)
  assert (M23 : mono s2 s3) by (eapply write_symbol_table_R; try eassumption; inst_mono).
  assert (M34 : mono s3 s4).
  { destruct (et =? et_rel); [|injection E3 as <-; apply mono_refl].
    unfold write_rela_table in E3. eapply write_rela_groups_R; try eassumption; inst_mono. }
  assert (M45 : mono s4 s5) by (eapply write_string_table_R; try eassumption; inst_mono).
  destruct (write_symbol_table_spec _ _ _ _ E2 N2) as (hsym & SF & Hsym_in & Hsym_lo & N3).
  destruct (write_string_table_spec _ _ E4) as (hstr & Astr & Zstr & Tstr & Hstr_in & Hstr_lo & Xstr).
  assert (RELA : (et =? et_rel) = true -> forall name, In name (sorted_names (map mr_section (mo_relocs o))) ->
            exists h, rela_fact ht o (w_symmap s3) (w_secnums s3) (w_buf s4) name h /\ In h (w_shdrs s4)
                      /\ zlen (w_buf s3) <= hget h "sh_offset").
  { intros Erel. rewrite Erel in E3. unfold write_rela_table in E3.
    destruct (write_rela_groups_spec _ _ _ _ _ E3 N3) as (_ & _ & _ & _ & HR). exact HR. }
  pose proof (ext_len _ _ (m_buf _ _ M23)) as L23. pose proof (ext_len _ _ (m_buf _ _ M34)) as L34.
  pose proof (ext_len _ _ (m_buf _ _ M45)) as L45.
  assert (X56 : ext (w_buf s5) (w_buf s6)).
  { eapply ext_trans; [apply (m_buf _ _ M5a)|]. rewrite B6, <- app_assoc. apply ext_app. }
  assert (TR : forall off dat, zlen (w_buf s2) <= off -> at_ (w_buf s5) off dat ->
                 at_ (overwrite (w_buf s6) e_ident_size (eb ++ pb)) off dat).
  { intros off dat Ho A. apply at_overwrite; [lia| |eapply at_ext; [exact X56|exact A]].
    pose proof (ext_len _ _ X56). lia. }
  assert (INH : forall h, In h (w_shdrs s5) -> In h (w_shdrs s5a)).
  { intros h Hin. destruct (m_sh _ _ M5a) as [e ->]. apply in_or_app. now left. }
  assert (IN35 : forall h, In h (w_shdrs s3) -> In h (w_shdrs s5a)).
  { intros h Hin. apply INH. destruct (m_sh _ _ M34) as [e1 Q1]. destruct (m_sh _ _ M45) as [e2 Q2].
    rewrite Q2, Q1. apply in_or_app; left. apply in_or_app; now left. }
  assert (IN45 : forall h, In h (w_shdrs s4) -> In h (w_shdrs s5a)).
  { intros h Hin. apply INH. destruct (m_sh _ _ M45) as [e2 Q2]. rewrite Q2. apply in_or_app; now left. }
  exists eh, (w_shdrs s5a), hs', (w_phdrs s6), (w_secnums s5a), (w_strtab s5).
  ssplit.
  - eexists. split; [apply read_struct_at; [exact Aeb|exact Lraw]|exact Draw].
  - rewrite F_sh by discriminate. unfold eh0. hg. reflexivity.
  - rewrite F_sh by discriminate. unfold eh0. hg. reflexivity.
  - rewrite F_sh by discriminate. unfold eh0. hg. reflexivity.
  - rewrite F_sh by discriminate. unfold eh0. hg. rewrite Eh6. hg. reflexivity.
  - rewrite F_sh by discriminate. unfold eh0. hg. rewrite Eh6. hg. exact Hesz.
  - unfold eh. hg. rewrite Hehs. reflexivity.
  - rewrite F_sh by discriminate. unfold eh0. hg.
    destruct (Z.eqb_spec (hget (w_eh s6) "e_phnum") (len (w_phdrs s6))) as [Q|Q]; [exact Q|discriminate E7].
  - unfold eh. hg. unfold key in E10. rewrite Ek6 in E10.
    destruct (sget (w_secnums s5a) ".strtab"); [now injection E10 as ->|discriminate].
  - exact FP.
  - assert (Eoff : hget eh "e_shoff" = zlen (w_buf s5a)).
    { rewrite F_sh by discriminate. unfold eh0. hg. rewrite Eh6. hg. reflexivity. }
    rewrite Eoff.
    destruct (shdr_table_read ht OK hs' chunks _ _ SS Atab) as (raw & R1 & R2).
    exists (decode_fields (ht_big ht) (shdr_layout (ht_bits ht =? 64)) (zeros esz)), raw. ssplit.
    + apply read_struct_at; [exact Anull|]. unfold zeros. rewrite repeat_length, Hesz. lia.
    + rewrite Hesz. apply null_shdr_decode.
    + rewrite <- Hesz. assert (Q : len (w_shdrs s5a) = len hs') by exact (Forall2_len _ _ _ FP). rewrite Q. exact R1.
    + exact R2.
  - rewrite Leb, Hehs in Apb. rewrite Epb in Apb |- *.
    destruct (phdr_read ht OK _ _ _ _ PS Apb) as (rawp & R1 & R2). exists rawp. split; [exact R1|exact R2].
  - exists hstr. ssplit; auto. apply TR; [lia|exact Astr].
  - exists hsym, (w_secnums s2). split; [now apply IN35|].
    destruct SF as [(es & ch & A & S & F) T I En Sz]. constructor; auto. exists es, ch. ssplit; auto.
    + apply TR; [lia|]. eapply at_ext; [|exact A]. eapply ext_trans; [apply (m_buf _ _ M34)|apply (m_buf _ _ M45)].
    + eapply Forall2_imp; [|exact F]. intros y e R. eapply symrel_ext; [|exact R].
      eapply ext_trans; [apply (m_str _ _ M34)|apply (m_str _ _ M45)].
  - intros Het. exists (w_symmap s3), (w_secnums s3). intros name Hn.
    assert (Erel : (et =? et_rel) = true) by (apply Z.eqb_eq; exact Het).
    destruct (RELA Erel name Hn) as (h & RF & Hin & Lo). exists h. split; [now apply IN45|].
    destruct RF as [(es & ch & A & S & F) T En Sz I]. constructor; auto. exists es, ch. ssplit; auto.
    apply TR; [lia|]. eapply at_ext; [apply (m_buf _ _ M45)|exact A].
Qed.

(* ------------------------------------------------------------------ what the gABI reader gets from those bytes *)
Lemma symrel_infos o sn st : forall syms es, Forall2 (symrel o sn st) syms es ->
  map st_info (map sym_of es) = map model_info syms.
Proof.
  induction 1 as [|y e syms es R F IH]; [reflexivity|]. cbn [map]. rewrite IH. f_equal.
  destruct R as (A & _). exact A.
Qed.

Corollary symtab_fact_read ht (OK : ht_ok ht) o sn bs st h : symtab_fact ht o sn bs st h ->
  exists es raw,
    read_table (ht_big ht) (sym_layout (ht_bits ht =? 64)) bs
               (hget h "sh_offset" + hget h "sh_entsize") (len es) = Some raw
    /\ omap (mk_sym (ht_bits ht =? 64)) raw = Some (map sym_of es)
    /\ Forall2 (symrel o sn st) (ordered_symbols o) es
    /\ locals_first (hget h "sh_info") (sym_of [] :: map sym_of es) = true.
Proof.
  intros [(es & ch & A & S & F) T I En Sz]. apply at_split in A as [_ A].
  assert (Lz : zlen (zeros (layout_size (ht_sym ht))) = layout_size (ht_sym ht)).
  { destruct (ok_sy _ OK) as (_ & Lq & G). rewrite layout_size_spec by (destruct (ht_big ht); [left|right]; exact G).
    unfold zlen, zeros. rewrite repeat_length. lia. }
  rewrite Lz in A. rewrite <- En in A.
  destruct (symtab_read ht OK es ch bs _ S A) as (raw & R1 & R2).
  exists es, raw. ssplit; auto. rewrite I. apply locals_first_model; [reflexivity|].
  unfold ordered_symbols in F. exact (symrel_infos _ _ _ _ _ F).
Qed.

Corollary rela_fact_read ht (OK : ht_ok ht) o sm sn bs name h : rela_fact ht o sm sn bs name h ->
  exists es raw,
    read_table (ht_big ht) (rela_layout (ht_bits ht =? 64)) bs (hget h "sh_offset") (len es) = Some raw
    /\ omap (mk_rela (ht_bits ht =? 64)) raw = Some (map (rela_of (ht_bits ht =? 64)) es)
    /\ Forall2 (relrel ht o sm) (group o name) es /\ sget sn name = Some (hget h "sh_info").
Proof.
  intros [(es & ch & A & S & F) T En Sz I].
  destruct (rela_read ht OK es ch bs _ S A) as (raw & R1 & R2). exists es, raw. ssplit; auto.
Qed.

(* names: a symbol's st_name resolves, in the string table found in the file, to the symbol's name *)
Corollary symrel_name o sn st y e : symrel o sn st y e -> nul_free (my_name y) = true ->
  strtab_get st (hget e "st_name") = Some (str_bytes (my_name y)).
Proof. intros (_ & _ & _ & D & _) NF. now apply strtab_get_at. Qed.
