(* Proofs/C36_current.v -- C36 statements instantiated with the tables / skeleton variant that
   tools/props/c36.py exported from the current source (Gen/Tab_py2ir.v), and the refutations
   for the source as found (commit 4864216: FloorDiv -> "/", increment in the body block,
   continue -> test block, loop variable bound to the phi). *)
From PV Require Import Lib.Py Lib.Tac Lib.Val Spec.IRSyntax Spec.IRSem Spec.PyExprSpec Model.Py2Ir
  Proofs.C36_py2ir Gen.Tab_py2ir.
From Coq Require Import String.
Open Scope Z_scope.

(* ---- the source as found *)
Definition lowcfg_orig : lowcfg :=
  mk_lowcfg [("Add", "+"); ("Sub", "-"); ("Mult", "*"); ("Div", "/"); ("FloorDiv", "/")]%string
            [("Gt", ">"); ("GtE", ">="); ("Lt", "<"); ("LtE", "<="); ("Eq", "=="); ("NotEq", "!=")]%string
            [("/", SA, SB)]%string false.

Lemma sound_tabs_of k :
  lc_floordiv k <> [] ->
  forallb (fun o => match o with
                    | PFloorDiv => true
                    | _ => match irop_eff k o with
                           | Some io => sound_binop o io | None => true end
                    end) all_pbins = true ->
  forallb (fun o => match ircond_of (lc_cmps k) o with
                    | Some c => sound_cmp o c | None => true end) all_pcmps = true ->
  sound_tabs k.
Proof.
  intros H1 H2 H3. split; [exact H1|]. rewrite forallb_forall in H2, H3. split.
  - intros o io Hn Hio. assert (I : In o all_pbins) by (destruct o; cbn; tauto).
    specialize (H2 o I). rewrite Hio in H2. destruct o; try exact H2. contradiction.
  - intros o c Hio. assert (I : In o all_pcmps) by (destruct o; cbn; tauto).
    specialize (H3 o I). now rewrite Hio in H3.
Qed.

Lemma sound_orig : sound_tabs lowcfg_orig.
Proof. apply sound_tabs_of; [discriminate | reflexivity | reflexivity]. Qed.

(* c36_expr_exact fails for the source as found: -7 // 2 *)
Lemma expr_exact_orig_refuted :
  exists e env v t, eval64 env e = Some v /\ lower lowcfg_orig e = Some t /\
                    eval_tree env t <> ODone v.
Proof.
  exists (PBin PFloorDiv (PVar 0) (PConst 2)), [-7], (-4), (TProg [("/", SA, SB)]%string (TVar 0) (TConst 2)).
  split; [reflexivity|]. split; [reflexivity|]. vm_compute. discriminate.
Qed.

(* ... and holds for it wherever truncation and floor agree at every // node *)
Fixpoint trunc_is_floor (env : list Z) (e : pexpr) : Prop :=
  match e with
  | PBin o a b =>
      trunc_is_floor env a /\ trunc_is_floor env b /\
      (o = PFloorDiv -> forall x y, eval64 env a = Some x -> eval64 env b = Some y ->
                        Z.quot x y = x / y)
  | PNeg a => trunc_is_floor env a
  | _ => True
  end.

Lemma expr_exact_orig_outside e env v t :
  trunc_is_floor env e -> eval64 env e = Some v -> lower lowcfg_orig e = Some t ->
  eval_tree env t = ODone v.
Proof.
  intros H. apply (lower_exact lowcfg_orig env sound_orig).
  induction e; cbn in *; auto. destruct H as (Ha & Hb & Ho). repeat split; auto.
  intros Hfd x y Ea Eb Hy Hq. unfold fd_exact_at. cbn [lc_floordiv lowcfg_orig].
  erewrite run_prog_step; [| reflexivity | reflexivity | reflexivity |
    apply eb_div; eauto using eval64_in64].
  cbn [run_prog]. rewrite (Ho Hfd x y Ea Eb). reflexivity.
Qed.

(* ---- the current source *)
Lemma floordiv_prog_cur : floordiv_prog = floor_prog.
Proof. reflexivity. Qed.

Lemma sound_cur : sound_tabs lowcfg_cur.
Proof. apply sound_tabs_of; [discriminate | reflexivity | reflexivity]. Qed.

Lemma fd_exact_cur : fd_exact lowcfg_cur.
Proof.
  intros x y Hx Hy Hy0 Hq. unfold fd_exact_at. cbn [lc_floordiv lowcfg_cur].
  rewrite floordiv_prog_cur. now apply floor_prog_exact.
Qed.

Lemma expr_exact_cur e env v t :
  eval64 env e = Some v -> lower lowcfg_cur e = Some t -> eval_tree env t = ODone v.
Proof. apply (lower_exact lowcfg_cur env sound_cur). apply fd_ok_all, fd_exact_cur. Qed.

Lemma cond_exact_cur c env bv t :
  evalc64 env c = Some bv -> lower_cond lowcfg_cur c CYes CNo = Some t ->
  eval_ctree env t = ODone bv.
Proof.
  intros He Hl. rewrite (lower_cond_exact lowcfg_cur env sound_cur fd_exact_cur c CYes CNo t bv He Hl).
  destruct bv; reflexivity.
Qed.

(* the operands after the deciding one are not evaluated: whatever [post] is (operands that
   trap, any number of them), the outcome is fixed by the prefix and the deciding operand *)
Lemma and_skips_cur pre a post env t :
  Forall (fun c => evalc64 env c = Some true) pre -> evalc64 env a = Some false ->
  lower_cond lowcfg_cur (PBoolOp true (pre ++ a :: post)) CYes CNo = Some t ->
  eval_ctree env t = ODone false.
Proof.
  intros Hp He. apply cond_exact_cur. cbn [evalc64].
  exact (chain_eval_decided env true pre a post Hp He).
Qed.
Lemma or_skips_cur pre a post env t :
  Forall (fun c => evalc64 env c = Some false) pre -> evalc64 env a = Some true ->
  lower_cond lowcfg_cur (PBoolOp false (pre ++ a :: post)) CYes CNo = Some t ->
  eval_ctree env t = ODone true.
Proof.
  intros Hp He. apply cond_exact_cur. cbn [evalc64].
  exact (chain_eval_decided env false pre a post Hp He).
Qed.

(* `/` on int operands is rejected once gen_binop diagnoses it *)
Lemma truediv_rejected k a b : lc_int_truediv_rejected k = true -> lower k (PBin PTrueDiv a b) = None.
Proof.
  intros H. cbn [lower]. destruct (lower k a); [|reflexivity]. destruct (lower k b); [|reflexivity].
  unfold irop_eff. rewrite H. destruct (lc_floordiv k); reflexivity.
Qed.

(* ---- gen_for *)
Lemma for_cur straight body init n fuel :
  in64 init = true -> n < 2 ^ 63 -> (Z.to_nat (n - init) < fuel)%nat ->
  run_for_loop (gen_for for_variant_cur straight) for_loopvar_cur body init n fuel
  = FDone (py_for body init n) (py_for_var_after body init n).
Proof.
  intros Hi Hn Hf.
  destruct (run_for_loop_exact (gen_for for_variant_cur straight) for_loopvar_cur body init n fuel)
    as (a & Ha & Hlv); auto.
  - reflexivity.
  - right. split; reflexivity.
  - rewrite Ha. now rewrite (Hlv eq_refl).
Qed.

(* source as found: the visited values are right for straight-line bodies without continue *)
Lemma for_orig_straight body init n fuel :
  (forall i, body i <> Cont) ->
  in64 init = true -> n < 2 ^ 63 -> (Z.to_nat (n - init) < fuel)%nat ->
  exists a, run_for_loop (gen_for VOrig true) LVPhi body init n fuel = FDone (py_for body init n) a.
Proof.
  intros Hc Hi Hn Hf.
  destruct (run_for_loop_exact (gen_for VOrig true) LVPhi body init n fuel) as (a & Ha & _); auto.
  - reflexivity.
  - now left.
  - eauto.
Qed.

Lemma for_orig_continue_refuted :
  run_for_loop (gen_for VOrig true) LVPhi (fun _ => Cont) 0 3 10 = FStuck [0] /\
  py_for (fun _ => Cont) 0 3 = [0; 1; 2].
Proof. split; reflexivity. Qed.
Lemma for_orig_nested_refuted :
  run_for_loop (gen_for VOrig false) LVPhi (fun _ => Fall) 0 3 10 = FStuck [0] /\
  py_for (fun _ => Fall) 0 3 = [0; 1; 2].
Proof. split; reflexivity. Qed.
Lemma for_orig_var_after_refuted :
  run_for_loop (gen_for VOrig true) LVPhi (fun _ => Fall) 0 5 10 = FDone [0; 1; 2; 3; 4] (Some 5) /\
  py_for_var_after (fun _ => Fall) 0 5 = Some 4.
Proof. split; reflexivity. Qed.
