(* Proofs/C26_parse.v — correctness of the precedence-climbing #if parser (parse_expression/_binop_take with
   the regenerated OP_MAP and binop_take_core): for EVERY expression tree e, parsing the token sequence the
   reference grammar generates for e with minimal parentheses (Spec.CPPGrammar.g_unparse) yields exactly
   the tree of e. Unbounded; generalised over the current minimum priority and the remaining tokens. *)
From PV Require Import Lib.Py Lib.Tac Spec.CIntSpec Spec.CPPGrammar Gen.ppif Model.PPIf Proofs.C26_ppif.
From Coq Require Import String.
Open Scope Z_scope.

Ltac streq :=
  repeat match goal with
  | |- context [String.eqb ?a ?b] =>
      let r := eval vm_compute in (String.eqb a b) in change (String.eqb a b) with r
  end.

(* ---- facts about the regenerated table ---- *)
Lemma tbl_bin op : exists fn, lookup (bsym op) op_map = Some (blevel op, false, Some fn).
Proof. destruct op; cbn [bsym blevel]; eexists; reflexivity. Qed.
Lemma tbl_q : lookup "?"%string op_map = Some (1, true, None).
Proof. reflexivity. Qed.
Lemma tbl_close : lookup ")"%string op_map = None /\ lookup ":"%string op_map = None.
Proof. split; reflexivity. Qed.

Lemma take_bin op q : binop_take (bsym op) q = (blevel op >? q).
Proof. unfold binop_take. destruct (tbl_bin op) as [fn ->]. reflexivity. Qed.
Lemma take_q q : binop_take "?"%string q = (1 >=? q).
Proof. unfold binop_take. rewrite tbl_q. reflexivity. Qed.
Lemma take_close q : binop_take ")"%string q = false /\ binop_take ":"%string q = false.
Proof. unfold binop_take. destruct tbl_close as [-> ->]. split; reflexivity. Qed.

Lemma take_mono s q q' : binop_take s q = false -> q <= q' -> binop_take s q' = false.
Proof.
  unfold binop_take, binop_take_core. destruct (lookup s op_map) as [e|]; [|reflexivity].
  destruct (op_rassoc e); cbn [negb]; lia.
Qed.

Lemma lookup_in {A} s (l : list (string * A)) e : lookup s l = Some e -> In (s, e) l.
Proof.
  induction l as [|[k v] l IH]; cbn; [discriminate|].
  destruct (String.eqb_spec s k); [intros [= <-]; subst; now left|right; auto].
Qed.
Lemma never_take_11 s : binop_take s 11 = false.
Proof.
  assert (T : forallb (fun kv => negb (binop_take_core true (op_prio (snd kv)) (op_rassoc (snd kv)) 11)) op_map = true)
    by (vm_compute; reflexivity).
  unfold binop_take. destruct (lookup s op_map) as [e|] eqn:L; [|reflexivity].
  apply lookup_in in L. pose proof (proj1 (forallb_forall _ _) T _ L) as H. cbn [snd] in H.
  now apply Bool.negb_true_iff in H.
Qed.

(* ---- tokens, fuel ---- *)
Definition toks (e : pexpr) : list tok := map tok_of (g_unparse e).
Definition ptoks (b : bool) (l : list tok) : list tok := if b then TSym "(" :: l ++ [TSym ")"] else l.
Lemma map_paren b l : map tok_of (paren b l) = ptoks b (map tok_of l).
Proof. destruct b; cbn; [rewrite map_app|]; reflexivity. Qed.

Definition pw (b : bool) : nat := if b then 1%nat else 0%nat.
Fixpoint need (e : pexpr) : nat :=
  match e with
  | PLit _ _ => 2
  | PUn _ a => need a + pw (Z.ltb (elevel a) (12)) + 1
  | PBin op a b => need a + pw (Z.ltb (elevel a) (blevel op)) + (need b + pw (Z.ltb (elevel b) (blevel op + 1))) + 1
  | PCond c a b => need c + pw (Z.ltb (elevel c) (2)) + (need a + pw (Z.ltb (elevel a) (1))) + (need b + pw (Z.ltb (elevel b) (1))) + 1
  end%nat.
Definition ucost' (cost : pexpr -> nat) (b : bool) (e : pexpr) : nat := if b then 1%nat else cost e.
Fixpoint cost (e : pexpr) : nat :=
  match e with
  | PLit _ _ => 1
  | PUn _ a => 1
  | PBin op a b => (if Z.ltb (elevel a) (blevel op) then 1 else cost a) + 1
  | PCond c a b => (if Z.ltb (elevel c) (2) then 1 else cost c) + 1
  end%nat.

Lemma cost_need e : (cost e + 1 <= need e)%nat.
Proof.
  induction e as [u v|op a IHa|op a IHa b IHb|c IHc a IHa b IHb]; cbn [cost need pw]; try lia.
  - destruct (elevel a <? blevel op); cbn [pw]; lia.
  - destruct (elevel c <? 2); cbn [pw]; lia.
Qed.

Lemma elevel_range e : 1 <= elevel e <= 12.
Proof. destruct e as [| | op ? ? |]; cbn; try lia. destruct op; cbn; lia. Qed.

(* when operators of grammar level L are consumed by the loop running at priority q *)
Definition takes (q L : Z) : Prop := (L = 1 -> q <= 1) /\ (L <> 1 -> q < L).
(* the next token is not consumed by a loop running at priority L *)
Definition stops (L : Z) (rest : list tok) : Prop :=
  match rest with TSym s :: _ => binop_take s L = false | _ => True end.

Lemma stops_mono L L' rest : stops L rest -> L <= L' -> stops L' rest.
Proof. destruct rest as [|[v|s] r]; cbn; auto. intros. eapply take_mono; eauto. Qed.

Lemma stops_close L rest : stops L (TSym ")" :: rest).
Proof. exact (proj1 (take_close L)). Qed.
Lemma stops_colon L rest : stops L (TSym ":" :: rest).
Proof. exact (proj2 (take_close L)). Qed.

Lemma ploop_stop f q t rest : (1 <= f)%nat -> stops q rest -> ploop f q t rest = Ok (t, rest).
Proof.
  intros Hf Hs. destruct f as [|f]; [lia|]. destruct rest as [|[v|s] r]; cbn [ploop]; try reflexivity.
  cbn in Hs. now rewrite Hs.
Qed.

Definition C (e : pexpr) : Prop := forall (f : nat) q rest,
  (need e <= f)%nat -> takes q (elevel e) -> stops (elevel e) rest ->
  pe f q (toks e ++ rest) = ploop (f - cost e) q (tree_of e) rest.

Definition CU (e : pexpr) : Prop := forall p (f : nat) q rest,
  (need e + pw (Z.ltb (elevel e) p) <= f)%nat -> 1 <= p <= 12 -> takes q p -> stops p rest ->
  pe f q (ptoks (elevel e <? p) (toks e) ++ rest) =
  ploop (f - (if elevel e <? p then 1 else cost e)) q (tree_of e) rest.

Lemma cu_of_c e : C e -> CU e.
Proof.
  intros HC p f q rest Hf Hp Ht Hs. pose proof (elevel_range e) as Hl. pose proof (cost_need e) as Hc.
  destruct (Z.ltb_spec (elevel e) p) as [L|L]; cbn [pw ptoks] in *.
  - destruct f as [|f1]; [lia|].
    cbn [app]. rewrite <- app_assoc. cbn [app pe]. streq. cbn [orb]. cbv iota.
    rewrite (HC f1 0 (TSym ")" :: rest)); [| lia | split; lia | apply stops_close].
    rewrite ploop_stop; [| lia | apply stops_close].
    cbn [bind]. replace (S f1 - 1)%nat with f1 by lia. reflexivity.
  - apply HC; [lia| |eapply stops_mono; eauto].
    destruct Ht as [T1 T2]. split; intros; [apply T1; lia|].
    destruct (Z.eq_dec p 1); [specialize (T1 e0); lia|specialize (T2 n); lia].
Qed.

Lemma toks_un op a : toks (PUn op a) = TSym (usym op) :: ptoks (elevel a <? 12) (toks a).
Proof. unfold toks. cbn [g_unparse map tok_of]. now rewrite map_paren. Qed.
Lemma toks_bin op a b :
  toks (PBin op a b) = ptoks (elevel a <? blevel op) (toks a) ++ TSym (bsym op) :: ptoks (elevel b <? blevel op + 1) (toks b).
Proof. unfold toks. cbn [g_unparse]. rewrite map_app. cbn [map tok_of]. now rewrite !map_paren. Qed.
Lemma toks_cond c a b :
  toks (PCond c a b) = ptoks (elevel c <? 2) (toks c) ++ TSym "?" :: ptoks (elevel a <? 1) (toks a) ++
                       TSym ":" :: ptoks (elevel b <? 1) (toks b).
Proof.
  unfold toks. cbn [g_unparse]. rewrite map_app. cbn [map tok_of]. rewrite map_app. cbn [map tok_of].
  now rewrite !map_paren.
Qed.

Lemma usym_unop op : usym op = unop_s op.
Proof. destruct op; reflexivity. Qed.
Lemma bsym_binop op : bsym op = binop_s op.
Proof. destruct op; reflexivity. Qed.
Lemma blevel_range op : 2 <= blevel op <= 11.
Proof. destruct op; cbn; lia. Qed.

Theorem parse_C e : C e.
Proof.
  induction e as [u v|op a IHa|op a IHa b IHb|c IHc a IHa b IHb]; intros f q rest Hf Ht Hs.
  - (* literal *) cbn [need] in Hf. destruct f as [|f1]; [lia|].
    unfold toks. cbn [g_unparse map tok_of app pe cost tree_of]. replace (S f1 - 1)%nat with f1 by lia. reflexivity.
  - (* unary *)
    apply cu_of_c in IHa. cbn [need cost] in *. destruct f as [|f1]; [lia|].
    rewrite toks_un. cbn [app pe].
    assert (A : pe f1 11 (ptoks (elevel a <? 12) (toks a) ++ rest) = Ok (tree_of a, rest)).
    { assert (S11 : forall L, 11 <= L -> stops L rest).
      { intros L HL. destruct rest as [|[?|s] ?]; cbn; auto. eapply take_mono; [apply never_take_11|exact HL]. }
      assert (TK : takes 11 12) by (split; lia).
      rewrite (IHa 12 f1 11 rest ltac:(lia) ltac:(lia) TK (S11 12 ltac:(lia))).
      apply ploop_stop; [|apply S11; lia].
      pose proof (cost_need a). destruct (elevel a <? 12); cbn [pw] in *; lia. }
    replace (S f1 - 1)%nat with f1 by lia.
    destruct op; cbn [usym tree_of unop_s]; streq; cbn [orb]; cbv iota; rewrite A; reflexivity.
  - (* binary *)
    apply cu_of_c in IHa. apply cu_of_c in IHb. pose proof (blevel_range op) as Hb.
    cbn [need cost elevel] in *. set (p := blevel op) in *.
    rewrite toks_bin, <- app_assoc. cbn [app]. fold p.
    destruct Ht as [T1 T2]. assert (Hq : q < p) by (apply T2; lia).
    rewrite (IHa p f q); [| lia | lia | split; lia | cbn [stops]; rewrite take_bin; fold p; lia].
    pose proof (cost_need a) as Ca. pose proof (cost_need b) as Cb.
    set (ca := if elevel a <? p then 1%nat else cost a) in *.
    assert (Hca : (ca + 1 <= need a + pw (Z.ltb (elevel a) p))%nat)
      by (unfold ca; destruct (elevel a <? p); cbn [pw]; lia).
    destruct (f - ca)%nat as [|g] eqn:G; [lia|].
    cbn [ploop]. rewrite take_bin. fold p. replace (p >? q) with true by lia.
    destruct (tbl_bin op) as [fn L]. rewrite L. cbn [op_prio op_func fst snd]. fold p.
    replace (String.eqb (bsym op) "?") with false by (destruct op; reflexivity).
    rewrite (IHb (p + 1) g p rest); [| lia | lia | split; lia | eapply stops_mono; [exact Hs|lia]].
    rewrite ploop_stop; [| | exact Hs].
    + cbn [bind]. rewrite bsym_binop. cbn [tree_of]. replace (f - (ca + 1))%nat with g by lia. reflexivity.
    + destruct (elevel b <? p + 1); cbn [pw] in *; lia.
  - (* conditional *)
    apply cu_of_c in IHc. apply cu_of_c in IHa. apply cu_of_c in IHb.
    cbn [need cost elevel] in *. destruct Ht as [T1 _]. specialize (T1 eq_refl).
    rewrite toks_cond, <- app_assoc. cbn [app].
    rewrite (IHc 2 f q); [| lia | lia | split; lia | cbn [stops]; rewrite take_q; lia].
    pose proof (cost_need c) as Cc. pose proof (cost_need a) as Ca. pose proof (cost_need b) as Cb.
    set (cc := if elevel c <? 2 then 1%nat else cost c) in *.
    assert (Hcc : (cc + 1 <= need c + pw (Z.ltb (elevel c) 2))%nat)
      by (unfold cc; destruct (elevel c <? 2); cbn [pw]; lia).
    destruct (f - cc)%nat as [|g] eqn:G; [lia|].
    cbn [ploop]. rewrite take_q. replace (1 >=? q) with true by lia.
    rewrite tbl_q. cbn [op_prio op_func fst snd]. streq. cbv iota.
    rewrite <- app_assoc. cbn [app].
    rewrite (IHa 1 g 0); [| lia | lia | split; lia | apply stops_colon].
    rewrite ploop_stop; [| destruct (elevel a <? 1); cbn [pw] in *; lia | apply stops_colon].
    cbn [bind].
    rewrite (IHb 1 g 1 rest); [| lia | lia | split; lia | exact Hs].
    rewrite ploop_stop; [| destruct (elevel b <? 1); cbn [pw] in *; lia | exact Hs].
    cbn [bind tree_of]. replace (f - (cc + 1))%nat with g by lia. reflexivity.
Qed.

(* the complete #if line *)
Theorem parse_unparse e : forall f, (need e <= f)%nat ->
  parse_line f (map tok_of (g_unparse e)) = Ok (tree_of e).
Proof.
  intros f Hf. unfold parse_line. fold (toks e). rewrite <- (app_nil_r (toks e)).
  pose proof (elevel_range e). pose proof (cost_need e).
  rewrite (parse_C e f 0 []); [| exact Hf | split; lia | exact I].
  rewrite ploop_stop; [reflexivity | lia | exact I].
Qed.

(* ---- validation of g_unparse against the reference grammar parser (bounded): g_parse (g_unparse e) = e ---- *)
Fixpoint pexpr_eqb (a b : pexpr) : bool :=
  match a, b with
  | PLit u x, PLit w y => Bool.eqb u w && Z.eqb x y
  | PUn o x, PUn p y => String.eqb (usym o) (usym p) && pexpr_eqb x y
  | PBin o x y, PBin p x' y' => String.eqb (bsym o) (bsym p) && pexpr_eqb x x' && pexpr_eqb y y'
  | PCond x y z, PCond x' y' z' => pexpr_eqb x x' && pexpr_eqb y y' && pexpr_eqb z z'
  | _, _ => false
  end.
Definition roundtrip (e : pexpr) : bool :=
  match g_parse 100 (g_unparse e) with Some e' => pexpr_eqb e e' | None => false end.

Definition L (z : Z) := PLit false z.
Definition shapes (o1 o2 : binop) : list pexpr :=
  [ PBin o1 (PBin o2 (L 1) (L 2)) (L 3); PBin o1 (L 1) (PBin o2 (L 2) (L 3));
    PBin o1 (PUn UNeg (PBin o2 (L 1) (L 2))) (PUn ULNot (L 3));
    PCond (PBin o1 (L 1) (L 2)) (PBin o2 (L 3) (L 4)) (PBin o1 (L 5) (L 6));
    PBin o1 (PCond (L 1) (L 2) (L 3)) (PBin o2 (L 4) (PCond (L 5) (L 6) (L 7)));
    PCond (PCond (L 1) (L 2) (L 3)) (PCond (L 4) (PBin o1 (L 5) (L 6)) (L 7)) (PCond (L 8) (L 9) (PBin o2 (L 10) (L 11)));
    PUn UCompl (PUn UNeg (PCond (PBin o1 (L 1) (L 2)) (L 3) (PUn UPlus (PBin o2 (L 4) (L 5))))) ].
Lemma unparse_roundtrip_bounded :
  forallb (fun o1 => forallb (fun o2 => forallb roundtrip (shapes o1 o2)) all_binops) all_binops = true.
Proof. vm_compute. reflexivity. Qed.

(* blevel is the position of the operator in the level list of the reference grammar *)
Lemma blevel_levels :
  forallb (fun op => match nth_error levels (Z.to_nat (blevel op - 2)) with
                     | Some l => match assoc_op (bsym op) l with Some op' => String.eqb (bsym op) (bsym op') | None => false end
                     | None => false end) all_binops = true.
Proof. vm_compute. reflexivity. Qed.
