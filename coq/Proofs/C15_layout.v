(* Proofs/C15_layout.v — every layout produced by the printer is lexable (property C15), unbounded:
   rlex_ok c r (names are identifiers, float / hex spellings well-formed) -> lay_ok c (layout r), by a
   compositional argument: a piece is [free] (lexes whatever follows) or [good] (lexes when a safe
   character follows); Writer and __str__ only ever join pieces at white space, ";", ",", "(", ")", ":". *)
From PV Require Import Lib.Py Lib.Val Lib.Json Spec.IRSyntax Model.IrJson Model.IrText Proofs.C15_lexer.
From Coq Require Import String Ascii List Lia ZArith DecimalString.
Import ListNotations.
Local Open Scope string_scope.
Local Open Scope list_scope.

Lemma render_app a b : render (a ++ b) = (render a ++ render b)%string.
Proof. induction a as [|x r IH]; [reflexivity|]. cbn [app]. rewrite !render_cons, IH. now rewrite app_assoc_s. Qed.

Fixpoint lay_ok_t (c : tcfg) (l : list ltok) (tail : string) : bool :=
  match l with
  | [] => true
  | x :: r => match x with LT t => tok_ok c t && sep_ok t (render r ++ tail) | _ => true end && lay_ok_t c r tail
  end.
Lemma lay_ok_t_nil c l : lay_ok_t c l "" = lay_ok c l.
Proof. induction l as [|x r IH]; [reflexivity|]. cbn [lay_ok_t lay_ok]. now rewrite app_nil_r_s, IH. Qed.
Lemma lay_ok_t_app c a b tail : lay_ok_t c (a ++ b) tail = lay_ok_t c a (render b ++ tail) && lay_ok_t c b tail.
Proof.
  induction a as [|x r IH]; [reflexivity|]. cbn [app lay_ok_t]. rewrite IH, render_app, app_assoc_s.
  now rewrite Bool.andb_assoc.
Qed.

Definition safe_head (tail : string) : bool :=
  match tail with
  | EmptyString => true
  | String ch _ => negb (is_idchar ch) && negb (Ascii.eqb ch ".")
                   && negb (Ascii.eqb "<" ch || Ascii.eqb ">" ch || Ascii.eqb "=" ch)
  end.
Lemma safe_sep t tail : safe_head tail = true -> sep_ok t tail = true.
Proof.
  destruct tail as [|ch r]; [destruct t; reflexivity|]. cbn [safe_head]. intros H.
  apply Bool.andb_true_iff in H. destruct H as [H H3]. apply Bool.andb_true_iff in H. destruct H as [H1 H2].
  destruct t; cbn [sep_ok sep_word sep_op]; try (now rewrite H1, H2); try reflexivity.
  destruct (String.eqb s "<" || String.eqb s ">" || String.eqb s "=")%bool; [exact H3|].
  destruct (String.eqb s "-"); [exact H1|reflexivity].
Qed.
(* [good]: lexes when followed by a safe character; [free]: lexes whatever follows *)
Definition good (c : tcfg) (a : list ltok) : Prop := forall tail, safe_head tail = true -> lay_ok_t c a tail = true.
Definition free (c : tcfg) (a : list ltok) : Prop := forall tail, lay_ok_t c a tail = true.
Definition safe_start (b : list ltok) : Prop := forall tail, safe_head (render b ++ tail) = true.
Lemma free_good c a : free c a -> good c a.
Proof. intros H tail _. apply H. Qed.
Lemma good_app c a b : good c a -> safe_start b -> good c b -> good c (a ++ b).
Proof. intros Ha Hs Hb tail Ht. rewrite lay_ok_t_app, (Ha _ (Hs tail)), (Hb _ Ht). reflexivity. Qed.
Lemma good_free_app c a b : good c a -> safe_start b -> free c b -> free c (a ++ b).
Proof. intros Ha Hs Hb tail. rewrite lay_ok_t_app, (Ha _ (Hs tail)), (Hb tail). reflexivity. Qed.
Lemma free_good_app c a b : free c a -> good c b -> good c (a ++ b).
Proof. intros Ha Hb tail Ht. rewrite lay_ok_t_app, (Ha _), (Hb _ Ht). reflexivity. Qed.
Lemma free_app c a b : free c a -> free c b -> free c (a ++ b).
Proof. intros Ha Hb tail. rewrite lay_ok_t_app, (Ha _), (Hb _). reflexivity. Qed.
Lemma free_flat_map {A} c (g : A -> list ltok) xs : (forall x, In x xs -> free c (g x)) -> free c (flat_map g xs).
Proof.
  induction xs as [|x r IH]; intros H; [intros tail; reflexivity|]. cbn [flat_map].
  apply free_app; [apply H; now left|apply IH; intros; apply H; now right].
Qed.
Lemma free_nil c : free c []. Proof. intros tail. reflexivity. Qed.
Lemma good_nil c : good c []. Proof. intros tail _. reflexivity. Qed.

(* starts *)
Lemma safe_start_sp r : safe_start (LSp :: r). Proof. intros tail. rewrite render_cons. reflexivity. Qed.
Lemma safe_start_nl r : safe_start (LNl :: r). Proof. intros tail. rewrite render_cons. reflexivity. Qed.
Definition safe_op (s : string) : bool := mem_str s [","; ";"; ")"; "("; ":"; "]"; "["; "{"; "}"].
Lemma safe_start_op s r : safe_op s = true -> safe_start (OP s :: r).
Proof.
  intros H tail. rewrite render_cons. unfold safe_op in H. cbn in H.
  repeat (apply Bool.orb_true_iff in H; destruct H as [H|H]); try discriminate; apply String.eqb_eq in H; subst s; reflexivity.
Qed.

Section G.
Variable c : tcfg.

Lemma free_ws x r : match x with LT _ => False | _ => True end -> free c r -> free c (x :: r).
Proof. intros Hx Hr tail. destruct x; [contradiction| | |]; cbn [lay_ok_t]; apply Hr. Qed.
Lemma good_ws x r : match x with LT _ => False | _ => True end -> good c r -> good c (x :: r).
Proof. intros Hx Hr tail Ht. destruct x; [contradiction| | |]; cbn [lay_ok_t]; now apply Hr. Qed.
Definition anyfollow (t : token) : Prop := forall x, sep_ok t x = true.
Lemma good_tok t r : tok_ok c t = true -> (r = [] \/ safe_start r \/ anyfollow t) -> good c r -> good c (LT t :: r).
Proof.
  intros Ht Hs Hr tail Htl. cbn [lay_ok_t]. rewrite Ht, (Hr _ Htl). cbn [andb]. rewrite Bool.andb_true_r.
  destruct Hs as [->|[Hs|Hs]]; [now apply safe_sep|apply safe_sep, Hs|apply Hs].
Qed.
Lemma free_tok t r : tok_ok c t = true -> (safe_start r \/ anyfollow t) -> free c r -> free c (LT t :: r).
Proof.
  intros Ht Hs Hr tail. cbn [lay_ok_t]. rewrite Ht, (Hr _). cbn [andb]. rewrite Bool.andb_true_r.
  destruct Hs as [Hs|Hs]; [apply safe_sep, Hs|apply Hs].
Qed.
Lemma good_tok_gen t r : tok_ok c t = true ->
  (forall tail, safe_head tail = true -> sep_ok t (render r ++ tail) = true) -> good c r -> good c (LT t :: r).
Proof. intros Ht Hs Hr tail Htl. cbn [lay_ok_t]. now rewrite Ht, (Hr _ Htl), (Hs _ Htl). Qed.
Lemma anyfollow_op s : mem_str s ["<"; ">"; "="; "-"] = false -> anyfollow (TOp s).
Proof.
  intros H x. cbn [sep_ok]. unfold sep_op. destruct x; [reflexivity|]. cbn in H.
  apply Bool.orb_false_iff in H. destruct H as [H1 H]. apply Bool.orb_false_iff in H. destruct H as [H2 H].
  apply Bool.orb_false_iff in H. destruct H as [H3 H]. apply Bool.orb_false_iff in H. destruct H as [H4 _].
  now rewrite H1, H2, H3, H4.
Qed.
Lemma anyfollow_str s : anyfollow (TStr s). Proof. intros x. reflexivity. Qed.

Lemma good_join {A} (g : A -> list ltok) xs : (forall x, In x xs -> good c (g x)) -> good c (join_comma (map g xs)).
Proof.
  induction xs as [|x r IH]; intros H; [apply good_nil|]. destruct r as [|y r'].
  - cbn. apply H. now left.
  - change (join_comma (map g (x :: y :: r'))) with (g x ++ [OP ","; LSp] ++ join_comma (map g (y :: r'))).
    apply good_app; [apply H; now left|apply safe_start_op; reflexivity|].
    apply free_good_app.
    + apply free_tok; [destruct (fx_ops c); reflexivity|left; apply safe_start_sp|]. apply free_ws; [exact I|apply free_nil].
    + apply IH. intros; apply H; now right.
Qed.
End G.

Lemma dec_head z : exists ch r, dec_of_Z z = String ch r /\ (is_digit ch = true \/ ch = "-"%char).
Proof.
  unfold dec_of_Z. destruct (Z.to_int z) as [u|u]; cbn [NilZero.string_of_int].
  - destruct (nz_uint u) as (Ha & Hn & _). cbn zeta in *. destruct (NilZero.string_of_uint u) as [|ch r]; [congruence|].
    exists ch, r. split; [reflexivity|]. left. cbn in Ha. now apply Bool.andb_true_iff in Ha.
  - eexists _, _. split; [reflexivity|]. now right.
Qed.
Lemma digit_not_rel ch : is_digit ch = true \/ ch = "-"%char -> (Ascii.eqb "<" ch || Ascii.eqb ">" ch || Ascii.eqb "=" ch)%bool = false.
Proof. intros [H| ->]; [|reflexivity]. destruct ch as [[] [] [] [] [] [] [] []]; cbn in *; try discriminate; reflexivity. Qed.

Section H.
Variable c : tcfg.
Ltac tokside := first [assumption | reflexivity | (cbn [tok_ok K OP NI]; unfold op_names; destruct (fx_ops c); reflexivity)].
Ltac follow := first [ left; reflexivity
                     | right; left; first [apply safe_start_sp | apply safe_start_nl | apply safe_start_op; reflexivity]
                     | right; right; first [apply anyfollow_op; reflexivity | apply anyfollow_str] ].
Ltac followf := first [ left; first [apply safe_start_sp | apply safe_start_nl | apply safe_start_op; reflexivity]
                      | right; first [apply anyfollow_op; reflexivity | apply anyfollow_str] ].
Ltac lst := repeat first
  [ apply good_nil | apply free_nil
  | apply free_ws; [exact I|] | apply good_ws; [exact I|]
  | apply good_tok; [tokside | follow | ]
  | apply free_tok; [tokside | followf | ] ].

Lemma ty_ident t : match t with Blob _ _ => True | _ => is_ident (ty_name t) = true end.
Proof. destruct t; try reflexivity; exact I. Qed.
Lemma sep_lt_int z rest : sep_op "<" (dec_of_Z z ++ rest) = true.
Proof.
  destruct (dec_head z) as (c1 & r1 & E1 & H1). rewrite E1. cbn [append]. unfold sep_op.
  change (String.eqb "<" "<") with true. cbn [orb]. now rewrite (digit_not_rel c1 H1).
Qed.
Lemma good_ty t : good c (l_ty t).
Proof.
  destruct t; try (unfold l_ty; cbn [ty_name]; lst; fail).
  unfold l_ty.
  apply good_tok_gen; [reflexivity|intros; rewrite render_cons; reflexivity|].
  apply good_tok_gen; [tokside|intros; rewrite render_cons; cbn [ltok_text token_text NI sep_ok]; rewrite app_assoc_s; apply sep_lt_int|].
  apply good_tok; [reflexivity|follow|].
  apply good_tok; [tokside|follow|].
  apply good_tok_gen; [reflexivity|intros; rewrite render_cons; reflexivity|].
  lst.
Qed.

Lemma free_assign t n : is_ident n = true -> free c (l_assign t n).
Proof. intros Hn. unfold l_assign. apply good_free_app; [apply good_ty|apply safe_start_sp|]. lst. Qed.

Ltac split_and H := repeat match type of H with (_ && _)%bool = true => let H2 := fresh "Hq" in apply Bool.andb_true_iff in H; destruct H as [H H2] end.

Lemma good_args args : forallb is_ident args = true -> good c (l_args args).
Proof.
  intros Ha. unfold l_args. apply free_good_app; [lst|].
  apply good_app; [|apply safe_start_op; reflexivity|lst].
  apply good_join. intros a Hin. rewrite forallb_forall in Ha. specialize (Ha a Hin). lst.
Qed.

Lemma good_instr i : rlex_instr c i = true -> good c (l_instr i).
Proof.
  destruct i; cbn [rlex_instr l_instr]; intros H; split_and H;
    try (apply free_good_app; [now apply free_assign|]).
  - (* const *) destruct c0 as [z|s]; cbn [l_cst rlex_cst] in *; [lst|].
    destruct (String.eqb s "inf" || String.eqb s "nan")%bool eqn:E; [|lst].
    apply Bool.orb_true_iff in E. destruct E as [E|E]; apply String.eqb_eq in E; subst s; lst.
  - (* binop *) destruct o; cbn [l_binop binop_name]; lst.
  - (* unop *) destruct o; cbn [unop_name]; [lst|].
    apply good_tok; [cbn [tok_ok OP]; unfold op_names; rewrite Hq; reflexivity|follow|]. lst.
  - lst.
  - (* load *) destruct vol; cbn [l_vol app]; lst.
  - (* store *) destruct vol; cbn [l_vol app]; lst.
  - lst.
  - lst.
  - lst.
  - lst.
  - (* phi *) apply free_good_app; [lst|]. apply good_join. intros p Hin.
    rewrite forallb_forall in Hq. specialize (Hq p Hin). split_and Hq. lst.
  - (* undefined *) destruct t as [t|]; cbn [l_instr]; [apply free_good_app; [now apply free_assign|lst]|lst].
  - (* callf *) apply good_app; [lst|apply safe_start_op; reflexivity|now apply good_args].
  - (* callp *) apply good_app; [lst|apply safe_start_op; reflexivity|now apply good_args].
  - lst.
  - destruct c0; cbn [cond_name]; lst.
  - lst.
  - lst.
Qed.

Lemma free_block k : is_ident (rb_name k) = true -> forallb (rlex_instr c) (rb_ins k) = true -> free c (l_block k).
Proof.
  intros Hn Hi. unfold l_block. apply free_app; [lst|]. apply free_app; [|lst].
  apply free_flat_map. intros i Hin. rewrite forallb_forall in Hi. specialize (Hi i Hin).
  apply free_app; [lst|]. apply good_free_app; [now apply good_instr|apply safe_start_op; reflexivity|lst].
Qed.
Lemma free_func f : rlex_item c (RFunc f) = true -> free c (l_func f).
Proof.
  cbn [rlex_item]. intros H. split_and H. unfold l_func.
  apply free_app; [destruct (rf_binding f); lst|].
  apply free_app.
  { destruct (rf_ret f) as [t|]; [|lst]. apply free_app; [lst|]. apply good_free_app; [apply good_ty|apply safe_start_sp|lst]. }
  apply free_app; [lst|].
  apply good_free_app.
  - apply good_join. intros p Hin. rewrite forallb_forall in Hq0. specialize (Hq0 p Hin).
    apply good_app; [apply good_ty|apply safe_start_sp|lst].
  - apply safe_start_op; reflexivity.
  - apply free_app; [lst|]. apply free_app; [|lst].
    apply free_flat_map. intros k Hin. rewrite forallb_forall in Hq. specialize (Hq k Hin). split_and Hq.
    now apply free_block.
Qed.
Lemma free_ext e : is_ident (ext_name e) = true -> free c (l_ext e ++ [OP ";"; LNl]).
Proof.
  intros Hn. destruct e as [n|n args r|n args]; cbn [ext_name l_ext] in *.
  - apply good_free_app; [lst|apply safe_start_op; reflexivity|lst].
  - rewrite <- !app_assoc. apply free_app; [lst|]. apply good_free_app; [apply good_ty|apply safe_start_sp|].
    apply free_app; [lst|]. apply good_free_app; [apply good_join; intros; apply good_ty|apply safe_start_op; reflexivity|lst].
  - rewrite <- !app_assoc. apply free_app; [lst|].
    apply good_free_app; [apply good_join; intros; apply good_ty|apply safe_start_op; reflexivity|lst].
Qed.
Lemma free_var g : rlex_item c (RVar g) = true -> (rv_value g <> None -> fx_init c = true \/ True) ->
  free c (l_var g ++ [LNl]).
Proof.
  cbn [rlex_item]. intros H _. split_and H. unfold l_var. rewrite <- app_assoc.
  apply free_app; [destruct (rv_binding g); lst|].
  destruct (rv_value g) as [l|]; [|lst]. rewrite <- app_assoc. apply free_app; [lst|].
  rewrite <- app_assoc. apply good_free_app; [|apply safe_start_op; reflexivity|lst].
  apply good_join. intros i Hin. rewrite forallb_forall in Hq. specialize (Hq i Hin). destruct i; cbn [l_init]; lst.
Qed.
Lemma free_item x : rlex_item c x = true -> free c (l_item x).
Proof.
  intros H. unfold l_item. apply free_app; [lst|]. destruct x as [e|g|f].
  - now apply free_ext.
  - apply free_var; [assumption|auto].
  - now apply free_func.
Qed.
Theorem layout_lexable m : rlex_ok c m = true -> lay_ok c (layout m) = true.
Proof.
  unfold rlex_ok. intros H. split_and H. rewrite <- lay_ok_t_nil. unfold layout.
  apply free_app; [lst|]. apply free_flat_map. intros x Hin. rewrite forallb_forall in Hq. now apply free_item, Hq.
Qed.
End H.
