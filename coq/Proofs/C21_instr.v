(* Proofs/C21_instr.v — C21: types, immediates, instructions and expressions round-trip. *)
From PV Require Import Lib.Py Lib.Tac Model.WasmTypes Gen.Tab_wasm_opcodes Model.WasmBin Proofs.C21_leb.
From Coq Require Import String.
Local Open Scope string_scope.
Local Open Scope list_scope.
Open Scope Z_scope.

(* ------------------------------------------------------------------ value types *)
Definition type_ok (t : string) : bool :=
  match assoc String.eqb lang_types t with
  | Some [b] =>
      match assoc Z.eqb lang_types_reverse b with
      | Some t' => String.eqb t' t
      | None => false
      end
  | _ => false
  end.

Lemma write_type_rt t : type_ok t = true -> rt (write_type t) read_type t.
Proof.
  unfold type_ok, write_type. intros H.
  destruct (assoc String.eqb lang_types t) as [[|b [|? ?]]|] eqn:E; try discriminate.
  exists [b]. split; [reflexivity|]. intros rest. unfold read_type. cbn [app read_byte bind].
  destruct (assoc Z.eqb lang_types_reverse b) as [t'|]; [|discriminate].
  apply String.eqb_eq in H. subst t'. reflexivity.
Qed.

Lemma write_types_rt l : forallb type_ok l = true ->
  rt (write_all write_type l) (read_vec (List.length l) read_type) l.
Proof.
  intros H. apply write_all_rt. revert H. apply Forall_forallb. exact write_type_rt.
Qed.

(* ------------------------------------------------------------------ references *)
Definition ref_ok (space : string) (r : ref) : bool := String.eqb (fst r) space && u35 (snd r).

Lemma write_ref_rt space r : ref_ok space r = true -> rt (write_ref r) (read_space_ref space) r.
Proof.
  unfold ref_ok. intros H. apply andb_true_iff in H. destruct H as [Hs Hi].
  apply String.eqb_eq in Hs. destruct r as [sp i]. cbn in *. subst sp.
  destruct (write_vu32_rt _ Hi) as (b & W & R). exists b. split; [exact W|].
  intros rest. unfold read_space_ref. rewrite R. reflexivity.
Qed.

Lemma write_refs_rt space l : forallb (ref_ok space) l = true ->
  rt (write_all write_ref l) (read_vec (List.length l) (read_space_ref space)) l.
Proof.
  intros H. apply write_all_rt. revert H. apply Forall_forallb. apply write_ref_rt.
Qed.

(* ------------------------------------------------------------------ immediates *)
Definition compat_arg (w : wmeth) (r : rmeth) (a : arg) : bool :=
  match w, r, a with
  | WType, RType, AStr s => type_ok s
  | WByte, RByte, AInt z => is_byte z
  | WVu32, RUint, AInt z => u35 z
  | WRef, RSpaceRef sp, ARef sp' i => String.eqb sp' sp && u35 i
  | WVs32, RInt, AInt z => s35 z
  | WVs64, RInt, AInt z => s70 z
  | WF32, RF32, AFloat raw => (len raw =? 4) && all_byte raw
  | WF64, RF64, AFloat raw => (len raw =? 8) && all_byte raw
  | _, _, _ => false
  end.

Lemma write_meth_rt w r a : compat_arg w r a = true -> rt (write_meth w a) (read_meth r) a.
Proof.
  destruct w, r, a; cbn [compat_arg]; try discriminate; intros H.
  - destruct (write_type_rt _ H) as (b & W & R). exists b. split; [exact W|].
    intros rest. cbn [read_meth]. rewrite R. reflexivity.
  - exists [z]. cbn [write_meth]. rewrite H. split; reflexivity.
  - destruct (write_vu32_rt _ H) as (b & W & R). exists b. split; [exact W|].
    intros rest. cbn [read_meth]. rewrite R. reflexivity.
  - destruct (write_ref_rt space (space0, idx)) as (b & W & R); [exact H|].
    exists b. split; [exact W|]. intros rest. cbn [read_meth]. rewrite R.
    apply andb_true_iff in H. destruct H as [Hs _]. apply String.eqb_eq in Hs.
    cbn. rewrite Hs. reflexivity.
  - destruct (write_vs32_rt _ H) as (b & W & R). exists b. split; [exact W|].
    intros rest. cbn [read_meth]. rewrite R. reflexivity.
  - destruct (write_vs64_rt _ H) as (b & W & R). exists b. split; [exact W|].
    intros rest. cbn [read_meth]. rewrite R. reflexivity.
  - exists raw. cbn [write_meth]. rewrite H. split; [reflexivity|].
    intros rest. cbn [read_meth]. apply andb_true_iff in H. destruct H as [Hl _].
    rewrite (read_exactly_n 4 raw rest) by lia. reflexivity.
  - exists raw. cbn [write_meth]. rewrite H. split; [reflexivity|].
    intros rest. cbn [read_meth]. apply andb_true_iff in H. destruct H as [Hl _].
    rewrite (read_exactly_n 8 raw rest) by lia. reflexivity.
Qed.

(* validity of one immediate for operand kind [k] when the opcode on the wire is [eff] *)
Definition wf_arg (eff : code) (k : akind) (a : arg) : bool :=
  match assoc akind_eqb wfm k, assoc akind_eqb rfm k with
  | Some w, Some r => compat_arg w r a
  | None, None =>
      match k, a with
      | KBrTable, ARefs l => (1 <=? len l) && u35 (len l - 1) && forallb (ref_ok "label") l
      | KResultTypes, AStrs l =>
          if code_eqb eff (28, None) then u35 (len l) && forallb type_ok l
          else match l with [] => true | _ => false end
      | _, _ => false
      end
  | _, _ => false
  end.

Lemma write_arg_rt eff k a : wf_arg eff k a = true -> rt (write_arg eff k a) (read_arg eff k) a.
Proof.
  unfold wf_arg, write_arg, read_arg.
  destruct (assoc akind_eqb wfm k) as [w|], (assoc akind_eqb rfm k) as [r|]; try discriminate.
  - apply write_meth_rt.
  - destruct k, a; try discriminate.
    + (* br_table *)
      intros H. apply andb_true_iff in H. destruct H as [H Hr].
      apply andb_true_iff in H. destruct H as [Hn Hc].
      destruct (write_vu32_rt _ Hc) as (b1 & W1 & R1).
      destruct (write_refs_rt "label" l Hr) as (b2 & W2 & R2).
      exists (b1 ++ b2). rewrite W1, W2. split; [reflexivity|].
      intros rest. rewrite <- app_assoc. fold read_uint. rewrite R1. cbn [bind].
      replace (Z.to_nat (len l - 1 + 1)) with (List.length l) by (unfold len; lia).
      rewrite R2. reflexivity.
    + (* result_types *)
      destruct (code_eqb eff (28, None)).
      * intros H. apply andb_true_iff in H. destruct H as [Hc Ht].
        destruct (write_vu32_rt _ Hc) as (b1 & W1 & R1).
        destruct (write_types_rt l Ht) as (b2 & W2 & R2).
        exists (b1 ++ b2). rewrite W1, W2. split; [reflexivity|].
        intros rest. rewrite <- app_assoc. rewrite R1. cbn [bind].
        replace (Z.to_nat (len l)) with (List.length l) by (unfold len; lia).
        rewrite R2. reflexivity.
      * destruct l; [|discriminate]. intros _. exists []. split; reflexivity.
Qed.

Fixpoint forall2b {A B} (p : A -> B -> bool) (la : list A) (lb : list B) : bool :=
  match la, lb with
  | [], [] => true
  | a :: la', b :: lb' => p a b && forall2b p la' lb'
  | _, _ => false
  end.

Lemma forall2b_length {A B} (p : A -> B -> bool) la lb :
  forall2b p la lb = true -> List.length la = List.length lb.
Proof.
  revert lb; induction la as [|a la IH]; intros [|b lb]; cbn; try discriminate; auto.
  intros H. apply andb_true_iff in H. destruct H. f_equal. auto.
Qed.

Lemma write_args_rt eff ks args : forall2b (wf_arg eff) ks args = true ->
  rt (write_args eff ks args) (read_args eff ks) args.
Proof.
  revert args; induction ks as [|k ks IH]; intros [|a args]; cbn [forall2b]; try discriminate.
  - intros _. exists []. split; reflexivity.
  - intros H. apply andb_true_iff in H. destruct H as [Ha Hr].
    destruct (write_arg_rt _ _ _ Ha) as (b1 & W1 & R1).
    destruct (IH _ Hr) as (b2 & W2 & R2).
    exists (b1 ++ b2). cbn [write_args]. rewrite W1, W2. split; [reflexivity|].
    intros rest. cbn [read_args]. rewrite <- app_assoc, R1. cbn [bind]. rewrite R2. reflexivity.
Qed.

(* ------------------------------------------------------------------ instructions *)
Definition code_ok (c : code) : bool :=
  match c with
  | (b, None) => is_byte b && negb (b =? 252) && negb (b =? 253)
  | (b, Some sub) => ((b =? 252) || (b =? 253)) && u35 sub
  end.

Definition reverz_is (c : code) (op : string) : bool :=
  match assoc code_eqb reverz c with
  | Some op' => String.eqb op' op
  | None => false
  end.

Definition wf_instr (i : instr) : bool :=
  match assoc String.eqb opcodes (i_op i) with
  | None => false
  | Some c =>
      match effective_code c (i_args i) with
      | Ok eff =>
          code_ok eff && reverz_is eff (i_op i) &&
          match assoc String.eqb operands (i_op i) with
          | Some ks => forall2b (wf_arg eff) ks (i_args i)
          | None => false
          end
      | _ => false
      end
  end.

Theorem write_instruction_rt i : wf_instr i = true -> rt (write_instruction i) read_instruction i.
Proof.
  destruct i as [op args]. unfold wf_instr, write_instruction. cbn [i_op i_args].
  destruct (assoc String.eqb opcodes op) as [c|]; [|discriminate].
  destruct (effective_code c args) as [eff| | |]; try discriminate.
  cbn [bind]. intros H.
  apply andb_true_iff in H. destruct H as [H Hargs].
  apply andb_true_iff in H. destruct H as [Hcode Hrev].
  destruct (assoc String.eqb operands op) as [ks|] eqn:Eks; [|discriminate].
  pose proof (forall2b_length _ _ _ Hargs) as Hlen. rewrite Hlen, Nat.eqb_refl. cbn [negb].
  destruct (write_args_rt _ _ _ Hargs) as (b2 & W2 & R2).
  unfold reverz_is in Hrev.
  destruct (assoc code_eqb reverz eff) as [op'|] eqn:Erev; [|discriminate].
  apply String.eqb_eq in Hrev. subst op'.
  destruct eff as [b [sub|]]; cbn [code_ok] in Hcode.
  - apply andb_true_iff in Hcode. destruct Hcode as [Hb Hsub].
    destruct (write_vu32_rt _ Hsub) as (b1 & W1 & R1). rewrite W1. cbn [bind]. rewrite W2.
    cbn [bind]. eexists. split; [reflexivity|]. intros rest.
    unfold read_instruction. cbn [app read_byte bind]. rewrite Hb.
    rewrite <- app_assoc. fold read_uint. rewrite R1. cbn [bind]. rewrite Erev, Eks, R2. reflexivity.
  - cbn [bind]. rewrite W2. cbn [bind]. eexists. split; [reflexivity|]. intros rest.
    unfold read_instruction. cbn [app read_byte bind].
    apply andb_true_iff in Hcode. destruct Hcode as [Hcode H253].
    apply andb_true_iff in Hcode. destruct Hcode as [_ H252].
    apply negb_true_iff in H252, H253. rewrite H252, H253. cbn [orb bind].
    rewrite Erev, Eks, R2. reflexivity.
Qed.

Lemma write_instruction_nonempty i bb : write_instruction i = Ok bb -> (1 <= List.length bb)%nat.
Proof.
  unfold write_instruction. destruct (assoc String.eqb opcodes (i_op i)) as [c|]; [|discriminate].
  destruct (effective_code c (i_args i)) as [eff| | |]; try discriminate. cbn [bind].
  destruct eff as [b [sub|]].
  - destruct (write_vu32 sub) as [s| | |]; try discriminate. cbn [bind].
    destruct (assoc String.eqb operands (i_op i)); [|discriminate].
    destruct (negb _); [discriminate|]. destruct (write_args _ _ _); try discriminate.
    cbn [bind]. intros H. injection H as <-. cbn. lia.
  - cbn [bind]. destruct (assoc String.eqb operands (i_op i)); [|discriminate].
    destruct (negb _); [discriminate|]. destruct (write_args _ _ _); try discriminate.
    cbn [bind]. intros H. injection H as <-. cbn. lia.
Qed.

(* ---- the table part of [wf_instr], checked once over the whole exported table ---- *)
Definition table_ok (op : string) : bool :=
  match assoc String.eqb opcodes op, assoc String.eqb operands op with
  | Some c, Some ks =>
      code_ok c && reverz_is c op &&
      (if code_eqb c (28, None) then reverz_is (27, None) op else true)
  | _, _ => false
  end.

Definition args_ok (op : string) (args : list arg) : bool :=
  match assoc String.eqb opcodes op, assoc String.eqb operands op with
  | Some c, Some ks =>
      match effective_code c args with
      | Ok eff => forall2b (wf_arg eff) ks args
      | _ => false
      end
  | _, _ => false
  end.

Lemma table_consistent : forallb table_ok (map fst opcodes) = true.
Proof. vm_compute. reflexivity. Qed.

Lemma effective_code_cases c args eff : effective_code c args = Ok eff ->
  eff = c \/ (code_eqb c (28, None) = true /\ eff = (27, None)).
Proof.
  destruct c as [b [sub|]]; cbn.
  - intros H. injection H as <-. auto.
  - destruct (Z.eqb_spec b 28) as [->|].
    + destruct args as [|a ?]; [discriminate|]. destruct (truthy_arg a); intros H; injection H as <-; auto.
    + intros H. injection H as <-. auto.
Qed.

Theorem instr_roundtrip_table op args :
  In op (map fst opcodes) -> args_ok op args = true ->
  rt (write_instruction (Instr op args)) read_instruction (Instr op args).
Proof.
  intros Hin Hargs. apply write_instruction_rt.
  pose proof table_consistent as T. rewrite forallb_forall in T. specialize (T _ Hin).
  unfold table_ok in T. unfold args_ok in Hargs. unfold wf_instr. cbn [i_op i_args].
  destruct (assoc String.eqb opcodes op) as [c|]; [|discriminate].
  destruct (assoc String.eqb operands op) as [ks|]; [|discriminate].
  destruct (effective_code c args) as [eff| | |] eqn:Eeff; try discriminate.
  rewrite Hargs, andb_true_r.
  apply andb_true_iff in T. destruct T as [T T27]. apply andb_true_iff in T. destruct T as [Tc Tr].
  destruct (effective_code_cases _ _ _ Eeff) as [->|[E28 ->]].
  - now rewrite Tc, Tr.
  - rewrite E28 in T27. rewrite T27. reflexivity.
Qed.

(* ------------------------------------------------------------------ expressions *)
Fixpoint balanced (blocks : Z) (l : list instr) : bool :=
  match l with
  | [] => blocks =? 1
  | i :: r => let b' := blocks_step blocks i in (1 <=? b') && balanced b' r
  end.

Definition end_instr : instr := Instr "end" [].

Lemma end_ok : wf_instr end_instr = true.
Proof. vm_compute. reflexivity. Qed.

Lemma write_end : write_instruction end_instr = Ok [11].
Proof. vm_compute. reflexivity. Qed.

Lemma read_end rest : read_instruction (11 :: rest) = Ok (end_instr, rest).
Proof.
  destruct (write_instruction_rt _ end_ok) as (bb & W & R).
  rewrite write_end in W. injection W as <-. apply R.
Qed.

Definition wf_expr (l : list instr) : bool := forallb wf_instr l && balanced 1 l.

Lemma write_instructions_loop l : forallb wf_instr l = true ->
  exists bs, write_instructions l = Ok bs /\ (List.length l <= List.length bs)%nat /\
    forall blocks acc fuel rest i r,
      (List.length l < fuel)%nat -> balanced blocks l = true ->
      read_instruction rest = Ok (i, r) -> blocks_step 1 i = 0 -> is_end i = true ->
      read_expression_loop fuel blocks acc (bs ++ rest) = Ok (acc ++ l, r).
Proof.
  induction l as [|x l IH]; cbn [forallb]; intros H.
  - exists []. split; [reflexivity|]. split; [cbn; lia|].
    intros blocks acc fuel rest i r Hf Hb Hr Hs He. cbn [app]. destruct fuel as [|f]; [cbn in Hf; lia|].
    cbn [read_expression_loop]. rewrite Hr. cbn [bind]. cbn in Hb. apply Z.eqb_eq in Hb. subst blocks.
    rewrite Hs. cbn. rewrite He. rewrite removelast_last, app_nil_r. reflexivity.
  - apply andb_true_iff in H. destruct H as [Hx Hl].
    destruct (write_instruction_rt _ Hx) as (b1 & W1 & R1).
    destruct (IH Hl) as (b2 & W2 & L2 & R2).
    exists (b1 ++ b2). unfold write_instructions in *. cbn [write_all]. rewrite W1, W2.
    split; [reflexivity|]. pose proof (write_instruction_nonempty _ _ W1) as Hne.
    split; [rewrite app_length; cbn; lia|].
    intros blocks acc fuel rest i r Hf Hb Hr Hs He.
    destruct fuel as [|f]; [cbn in Hf; lia|]. cbn [read_expression_loop].
    rewrite <- app_assoc, R1. cbn [bind]. cbn [balanced] in Hb.
    apply andb_true_iff in Hb. destruct Hb as [Hpos Hb].
    destruct (Z.eqb_spec (blocks_step blocks x) 0) as [E|_]; [lia|].
    rewrite (R2 _ _ _ _ i r); auto; [|cbn in Hf; lia].
    rewrite <- app_assoc. reflexivity.
Qed.

Theorem write_expression_rt l : wf_expr l = true -> rt (write_expression l) read_expression l.
Proof.
  unfold wf_expr. intros H. apply andb_true_iff in H. destruct H as [Hw Hb].
  destruct (write_instructions_loop l Hw) as (bs & W & L & R).
  exists (bs ++ [11]). unfold write_expression. rewrite W. cbn [bind].
  fold end_instr. rewrite write_end. split; [reflexivity|].
  intros rest. unfold read_expression. rewrite <- app_assoc.
  rewrite (R 1 [] _ _ end_instr rest); auto.
  all: try (rewrite !app_length; cbn; lia); try (cbn [app]; apply read_end).
Qed.

(* a function body is written as instructions followed by a raw 0x0b *)
Lemma write_body_rt l : wf_expr l = true ->
  exists bs, write_instructions l = Ok bs /\
             forall rest, read_expression (bs ++ [11] ++ rest) = Ok (l, rest).
Proof.
  unfold wf_expr. intros H. apply andb_true_iff in H. destruct H as [Hw Hb].
  destruct (write_instructions_loop l Hw) as (bs & W & L & R).
  exists bs. split; [exact W|]. intros rest. unfold read_expression.
  rewrite (R 1 [] _ _ end_instr rest); auto.
  all: try (rewrite !app_length; cbn; lia); try (cbn [app]; apply read_end).
Qed.
