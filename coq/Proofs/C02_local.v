(* Proofs/C02_local.v — soundness of the whole-function validator Model/OptValidateFn.v. *)
From PV Require Import Lib.Py Lib.Tac Spec.IRSyntax Spec.IRSem Model.OptValidate Model.OptValidateFn
  Proofs.C02_rules Proofs.C02_validate.
From Coq Require Import String.
Open Scope Z_scope.

Definition Rel (rho : list (vid * vid)) (e e' : env) : Prop :=
  forall v' v, rget rho v' = Some v -> env_get e' v' = env_get e v.

(* ------------------------------------------------------------------ what a step binds *)
Lemma step_shape c m ge f args e s i e1 s1 :
  step_simple c m ge f args e s i = ODone (e1, s1) ->
  e1 = e \/ exists v n t x, instr_def i = Some (v, n, t) /\ e1 = (v, x) :: e.
Proof.
  intros H. destruct i; simpl in H;
    repeat match type of H with
           | obind ?o _ = ODone _ => destruct o eqn:?; simpl in H; try discriminate
           | match ?o with _ => _ end = ODone _ => destruct o eqn:?; simpl in H; try discriminate
           | (let '(_, _) := ?o in _) = ODone _ => destruct o eqn:?; simpl in H; try discriminate
           end;
    try discriminate; inversion H; subst; try (left; reflexivity);
    right; do 4 eexists; split; reflexivity.
Qed.

Lemma in_defs_cons i l v : In v (defs_of (i :: l)) <->
  (exists n t, instr_def i = Some (v, n, t)) \/ In v (defs_of l).
Proof.
  unfold defs_of, instrs_defs. simpl. rewrite map_app, in_app_iff.
  destruct (instr_def i) as [[[w n] t]|]; simpl; split.
  - intros [[<-|[]]|H]; [left; eauto|right; exact H].
  - intros [(n0 & t0 & H)|H]; [inversion H; subst; left; left; reflexivity|right; exact H].
  - intros [[]|H]; right; exact H.
  - intros [(n0 & t0 & H)|H]; [discriminate|right; exact H].
Qed.

Lemma run_simple_get c m ge f args : forall l e s e1 s1,
  run_simple c m ge f args l e s = ODone (e1, s1) ->
  forall v, ~ In v (defs_of l) -> env_get e1 v = env_get e v.
Proof.
  induction l as [|i l IH]; intros e s e1 s1 H v Hv.
  - simpl in H. inversion H; subst. reflexivity.
  - cbn [run_simple] in H.
    destruct (step_simple c m ge f args e s i) as [[ea sa]| | | |] eqn:Est; cbn [obind] in H; try discriminate.
    rewrite (IH _ _ _ _ H v); [|intros Hin; apply Hv; apply in_defs_cons; right; exact Hin].
    destruct (step_shape _ _ _ _ _ _ _ _ _ _ Est) as [->|(w & n & t & x & Hd & ->)]; [reflexivity|].
    simpl. destruct (Pos.eqb_spec w v); [|reflexivity].
    subst. exfalso. apply Hv. apply in_defs_cons. left. eauto.
Qed.

(* ------------------------------------------------------------------ the instruction loop *)
Lemma go_simple c m ge rec K f args i r e s : is_simple i = true ->
  go c m ge rec K f args (i :: r) e s =
  ('(e1, s1) <~ step_simple c m ge f args e s i ;; go c m ge rec K f args r e1 s1).
Proof. destruct i; simpl; try discriminate; reflexivity. Qed.

Lemma take_simple_app l : forall a b, take_simple l = (a, b) ->
  l = a ++ b /\ forallb is_simple a = true /\ (match b with i :: _ => is_simple i = false | [] => True end).
Proof.
  induction l as [|i l IH]; intros a b H; simpl in H.
  - inversion H; subst. repeat split.
  - destruct (is_simple i) eqn:Ei.
    + destruct (take_simple l) as [a0 b0]. inversion H; subst.
      destruct (IH _ _ eq_refl) as (H1 & H2 & H3). subst l. repeat split; simpl; try assumption.
      rewrite Ei, H2. reflexivity.
    + inversion H; subst. repeat split. exact Ei.
Qed.

Lemma go_app c m ge rec K f args : forall a b e s, forallb is_simple a = true ->
  go c m ge rec K f args (a ++ b) e s =
  ('(e1, s1) <~ run_simple c m ge f args a e s ;; go c m ge rec K f args b e1 s1).
Proof.
  induction a as [|i a IH]; intros b e s H; [reflexivity|].
  simpl in H. apply Bool.andb_true_iff in H. destruct H as [Hi Ha].
  change ((i :: a) ++ b) with (i :: (a ++ b)). rewrite go_simple by assumption.
  cbn [run_simple]. destruct (step_simple c m ge f args e s i) as [[ea sa]| | | |]; cbn [obind]; try reflexivity.
  apply IH. exact Ha.
Qed.

(* ------------------------------------------------------------------ the renaming relation *)
Lemma rel_ren_ok rho m ge args e e' : Rel rho e e' -> ren_ok m ge e args e' rho.
Proof. intros H v' v Hr. simpl. rewrite (H _ _ Hr). reflexivity. Qed.

Lemma eval_ref_loc_inj m ge args e e' v v' :
  eval_ref m ge false e' args (Loc v') = eval_ref m ge false e args (Loc v) -> env_get e' v' = env_get e v.
Proof.
  simpl. destruct (env_get e' v') as [[]|]; destruct (env_get e v) as [[]|]; intros H; congruence.
Qed.

Lemma mem_pos_in p l : mem_pos p l = true <-> In p l.
Proof.
  induction l as [|x l IH]; simpl; [split; [discriminate|intros []]|].
  rewrite Bool.orb_true_iff, IH. split.
  - intros [H|H]; [left; symmetry; apply Pos.eqb_eq; exact H|right; exact H].
  - intros [H|H]; [left; apply Pos.eqb_eq; congruence|right; exact H].
Qed.
Lemma rget_in rho a b : rget rho a = Some b -> In (a, b) rho.
Proof.
  induction rho as [|[k x] r IH]; simpl; [discriminate|].
  destruct (Pos.eqb_spec k a); intros H; [inversion H; subst; left; reflexivity|right; apply IH; exact H].
Qed.
Lemma nodup_snd_inj (rho : list (vid * vid)) (a a' b : vid) :
  nodup_pos (map snd rho) = true -> In (a, b) rho -> In (a', b) rho -> a = a'.
Proof.
  induction rho as [|[k x] r IH]; simpl; [intros _ []|].
  intros H H1 H2. apply Bool.andb_true_iff in H. destruct H as [Hn Hr].
  assert (Hnot : forall y, In (y, x) r -> False).
  { intros y Hy. apply Bool.negb_true_iff in Hn.
    assert (mem_pos x (map snd r) = true) by (apply mem_pos_in; apply in_map_iff; exists (y, x); split; [reflexivity|exact Hy]).
    congruence. }
  destruct H1 as [H1|H1]; destruct H2 as [H2|H2].
  - congruence.
  - inversion H1; subst. exfalso. eapply Hnot; eassumption.
  - inversion H2; subst. exfalso. eapply Hnot; eassumption.
  - apply IH; assumption.
Qed.

Lemma rel_push rho e e' v v' x :
  nodup_pos (map snd rho) = true -> rget rho v' = Some v -> Rel rho e e' ->
  Rel rho ((v, x) :: e) ((v', x) :: e').
Proof.
  intros Hn Hv HR w' w Hw. simpl.
  destruct (Pos.eqb_spec v' w').
  - subst. rewrite Hv in Hw. inversion Hw; subst. rewrite Pos.eqb_refl. reflexivity.
  - destruct (Pos.eqb_spec v w).
    + subst. exfalso. apply n. eapply nodup_snd_inj; [exact Hn|apply rget_in; exact Hv|apply rget_in; exact Hw].
    + apply HR. exact Hw.
Qed.

(* ------------------------------------------------------------------ one straight-line segment *)
Lemma outs_defs_in rho l' v v' : rget rho v' = Some v -> In v' (defs_of l') -> In (Loc v, Loc v') (outs_defs rho l').
Proof.
  intros Hr Hin. unfold outs_defs. apply in_flat_map. exists v'. split; [exact Hin|].
  rewrite Hr. left. reflexivity.
Qed.

Lemma segment_sound c m ge f f' args rho seg seg' ps e e' s e1 s1 :
  cfg_ok c -> Rel rho e e' ->
  place_ok rho (defs_of seg) (defs_of seg') = true ->
  check_block c f false f' rho seg seg' (outs_defs rho seg' ++ ps) = true ->
  run_simple c m ge f args seg e s = ODone (e1, s1) ->
  exists e1', run_simple c m ge f' args seg' e' s = ODone (e1', s1) /\ Rel rho e1 e1' /\
    forall r r', In (r, r') ps -> eval_ref m ge false e1' args r' = eval_ref m ge false e1 args r.
Proof.
  intros Hc HR Hpl Hck Hrun.
  destruct (check_block_sound c m ge f f' e args false Hc (fun H => False_ind _ (Bool.diff_false_true H))
              e' rho (rel_ren_ok _ m ge args _ _ HR) seg seg' _ s e1 s1 Hck Hrun) as (e1' & Hrun' & Houts).
  exists e1'. split; [exact Hrun'|]. split.
  - intros w' w Hw. destruct (mem_pos w' (defs_of seg')) eqn:Em.
    + apply (eval_ref_loc_inj m ge args). apply Houts. apply in_or_app. left.
      apply outs_defs_in; [exact Hw|apply mem_pos_in; exact Em].
    + unfold place_ok in Hpl. rewrite forallb_forall in Hpl.
      specialize (Hpl _ (rget_in _ _ _ Hw)). cbn [fst snd] in Hpl. rewrite Em in Hpl.
      apply Bool.eqb_prop in Hpl.
      rewrite (run_simple_get _ _ _ _ _ _ _ _ _ _ Hrun' w'), (run_simple_get _ _ _ _ _ _ _ _ _ _ Hrun w).
      * apply HR. exact Hw.
      * intros Hin. apply mem_pos_in in Hin. congruence.
      * intros Hin. apply mem_pos_in in Hin. congruence.
  - intros r r' Hin. apply Houts. apply in_or_app. right. exact Hin.
Qed.

(* ------------------------------------------------------------------ a block body *)
Section Body.
  Variable c : cfg.
  Variable m m' : modul.
  Variable ge : list (string * Z).
  Variable f f' : func.
  Variable args : list value.
  Variable rho : list (vid * vid).
  Variable rec rec' : func -> list value -> st -> outcome (option value * st).
  Variable K K' : bid -> env -> st -> outcome (option value * st).
  Variable tr : bid -> bid -> bool.
  Hypothesis Hc : cfg_ok c.
  Hypothesis Hnd : nodup_pos (map snd rho) = true.
  Hypothesis Hctx : forall ph e r, eval_ref m' ge ph e args r = eval_ref m ge ph e args r.
  Hypothesis Hcall : forall want cal vs s r s1,
    do_call m rec want cal vs s = ODone (r, s1) -> do_call m' rec' want cal vs s = ODone (r, s1).
  Hypothesis HK : forall t t' e e' s r s1, tr t t' = true -> Rel rho e e' ->
    K t e s = ODone (r, s1) -> K' t' e' s = ODone (r, s1).

  Lemma step_simple_ctx g e s i : step_simple c m' ge g args e s i = step_simple c m ge g args e s i.
  Proof. destruct i; unfold step_simple, eval_int; rewrite ?Hctx; reflexivity. Qed.
  Lemma run_simple_ctx g : forall l e s, run_simple c m' ge g args l e s = run_simple c m ge g args l e s.
  Proof.
    induction l as [|i l IH]; intros e s; [reflexivity|]. cbn [run_simple]. rewrite step_simple_ctx.
    destruct (step_simple c m ge g args e s i) as [[ea sa]| | | |]; cbn [obind]; try reflexivity. apply IH.
  Qed.

  Lemma omap_rel e1 e1' : forall l l', List.length l = List.length l' ->
    (forall r r', In (r, r') (combine l l') -> eval_ref m ge false e1' args r' = eval_ref m ge false e1 args r) ->
    omap (eval_ref m' ge false e1' args) l' = omap (eval_ref m ge false e1 args) l.
  Proof.
    induction l as [|a l IH]; intros [|a' l'] Hl H; try discriminate; [reflexivity|].
    simpl. rewrite Hctx, (H a a' (or_introl eq_refl)).
    rewrite (IH l'); [reflexivity|simpl in Hl; congruence|].
    intros r r' Hin. apply H. right. exact Hin.
  Qed.

  Lemma check_body_sound : forall n l l' e e' s r s1,
    check_body c f f' rho tr n l l' = true -> Rel rho e e' ->
    go c m ge rec K f args l e s = ODone (r, s1) ->
    go c m' ge rec' K' f' args l' e' s = ODone (r, s1).
  Proof.
    induction n as [|n IH]; intros l l' e e' s r s1 Hck HR Hgo; [discriminate Hck|].
    cbn [check_body] in Hck.
    destruct (take_simple l) as [seg rest] eqn:Et. destruct (take_simple l') as [seg' rest'] eqn:Et'.
    destruct (take_simple_app _ _ _ Et) as (-> & Hs & Hns).
    destruct (take_simple_app _ _ _ Et') as (-> & Hs' & _).
    rewrite go_app in Hgo by assumption. rewrite go_app by assumption.
    destruct (run_simple c m ge f args seg e s) as [[e1 sa]| | | |] eqn:Erun; cbn [obind] in Hgo; try discriminate Hgo.
    rewrite run_simple_ctx.
    destruct rest as [|i rest]; [discriminate Hck|]. destruct rest' as [|i' rest']; [discriminate Hck|].
    apply Bool.andb_true_iff in Hck. destruct Hck as [Hpl Hck].
    destruct i; try discriminate Hns; clear Hns.
    - (* function call *)
      destruct i'; try discriminate Hck.
      apply Bool.andb_true_iff in Hck. destruct Hck as [Hck Hrest].
      apply Bool.andb_true_iff in Hck. destruct Hck as [Hck Hv].
      apply Bool.andb_true_iff in Hck. destruct Hck as [Hck Hlen].
      apply Bool.andb_true_iff in Hck. destruct Hck as [Hck Hcal].
      destruct (segment_sound c m ge f f' args rho seg seg' _ e e' s e1 sa Hc HR Hpl Hck Erun) as (e1' & Hrun' & HR1 & Hps).
      rewrite Hrun'. cbn [obind].
      destruct callee; try discriminate Hcal. destruct callee0; try discriminate Hcal.
      apply String.eqb_eq in Hcal. subst name0. apply Nat.eqb_eq in Hlen.
      cbn [go] in *. rewrite (omap_rel e1 e1' _ _ Hlen Hps).
      destruct (omap (eval_ref m ge false e1 args) args0) as [vs| | | |]; cbn [obind] in *; try discriminate Hgo.
      destruct (do_call m rec true (Glob name) vs sa) as [[rv sb]| | | |] eqn:Edc; cbn [obind] in *; try discriminate Hgo.
      rewrite (Hcall _ _ _ _ _ _ Edc). cbn [obind].
      destruct rv as [x|]; [|discriminate Hgo].
      destruct (rget rho v0) as [w|] eqn:Er; [|discriminate Hv]. apply Pos.eqb_eq in Hv. subst w.
      eapply IH; [exact Hrest|apply rel_push; eassumption|exact Hgo].
    - (* procedure call *)
      destruct i'; try discriminate Hck.
      apply Bool.andb_true_iff in Hck. destruct Hck as [Hck Hrest].
      apply Bool.andb_true_iff in Hck. destruct Hck as [Hck Hlen].
      apply Bool.andb_true_iff in Hck. destruct Hck as [Hck Hcal].
      destruct (segment_sound c m ge f f' args rho seg seg' _ e e' s e1 sa Hc HR Hpl Hck Erun) as (e1' & Hrun' & HR1 & Hps).
      rewrite Hrun'. cbn [obind].
      destruct callee; try discriminate Hcal. destruct callee0; try discriminate Hcal.
      apply String.eqb_eq in Hcal. subst name0. apply Nat.eqb_eq in Hlen.
      cbn [go] in *. rewrite (omap_rel e1 e1' _ _ Hlen Hps).
      destruct (omap (eval_ref m ge false e1 args) args0) as [vs| | | |]; cbn [obind] in *; try discriminate Hgo.
      destruct (do_call m rec false (Glob name) vs sa) as [[rv sb]| | | |] eqn:Edc; cbn [obind] in *; try discriminate Hgo.
      rewrite (Hcall _ _ _ _ _ _ Edc). cbn [obind].
      eapply IH; [exact Hrest|exact HR1|exact Hgo].
    - (* jump *)
      destruct i'; try discriminate Hck. cbn [term_ok] in Hck.
      destruct (tr b b0) eqn:Etr; [|discriminate Hck].
      destruct (segment_sound c m ge f f' args rho seg seg' _ e e' s e1 sa Hc HR Hpl Hck Erun) as (e1' & Hrun' & HR1 & Hps).
      rewrite Hrun'. cbn [obind go] in *. eapply HK; eassumption.
    - (* cjump *)
      destruct i'; try discriminate Hck. cbn [term_ok] in Hck.
      destruct (dec2b cond_eq_dec c0 c1 && tr yes yes0 && tr no no0) eqn:Ec; [|discriminate Hck].
      apply Bool.andb_true_iff in Ec. destruct Ec as [Ec Eno]. apply Bool.andb_true_iff in Ec. destruct Ec as [Ec Eyes].
      apply dec2b_spec in Ec. subst c1.
      destruct (segment_sound c m ge f f' args rho seg seg' _ e e' s e1 sa Hc HR Hpl Hck Erun) as (e1' & Hrun' & HR1 & Hps).
      rewrite Hrun'. cbn [obind go] in *. rewrite !eval_int_as in *. rewrite !Hctx.
      rewrite (Hps a a0 (or_introl eq_refl)), (Hps b b0 (or_intror (or_introl eq_refl))).
      destruct (as_int (eval_ref m ge false e1 args a)); cbn [obind] in *; try discriminate Hgo.
      destruct (as_int (eval_ref m ge false e1 args b)); cbn [obind] in *; try discriminate Hgo.
      destruct (eval_cond c0 a1 a2); eapply HK; eassumption.
    - (* return *)
      destruct i'; try discriminate Hck. cbn [term_ok] in Hck.
      destruct (segment_sound c m ge f f' args rho seg seg' _ e e' s e1 sa Hc HR Hpl Hck Erun) as (e1' & Hrun' & HR1 & Hps).
      rewrite Hrun'. cbn [obind go] in *. rewrite Hctx, (Hps a a0 (or_introl eq_refl)). exact Hgo.
    - (* exit *)
      destruct i'; try discriminate Hck. cbn [term_ok] in Hck.
      destruct (segment_sound c m ge f f' args rho seg seg' _ e e' s e1 sa Hc HR Hpl Hck Erun) as (e1' & Hrun' & HR1 & Hps).
      rewrite Hrun'. cbn [obind go] in *. exact Hgo.
  Qed.
End Body.

(* ------------------------------------------------------------------ phis *)
Section Phis.
  Variable m m' : modul.
  Variable ge : list (string * Z).
  Variable args : list value.
  Variable rho : list (vid * vid).
  Hypothesis Hctx : forall ph e r, eval_ref m' ge ph e args r = eval_ref m ge ph e args r.

  Lemma eval_phis_none pred e : forall l ph, eval_phis m ge pred e args l = ODone ph ->
    forall v, ~ In v (phi_vids l) -> env_get ph v = None.
  Proof.
    induction l as [|i l IH]; intros ph H v Hv; [simpl in H; inversion H; reflexivity|].
    destruct i; try (simpl in H; apply (IH _ H); exact Hv).
    simpl in H. destruct pred as [p|]; [|discriminate].
    destruct (find (fun q => Pos.eqb (fst q) p) ins) as [q|]; [|discriminate].
    destruct (eval_ref m ge true e args (snd q)); simpl in H; try discriminate.
    destruct (eval_phis m ge (Some p) e args l) eqn:Er; simpl in H; try discriminate.
    inversion H; subst. simpl. simpl in Hv.
    destruct (Pos.eqb_spec v0 v); [exfalso; apply Hv; left; assumption|].
    apply (IH _ eq_refl). intros Hin. apply Hv. right. exact Hin.
  Qed.

  Lemma eval_phis_some pred e : forall l ph, eval_phis m ge pred e args l = ODone ph ->
    forall v ins, find_phi l v = Some ins ->
    exists p q x, pred = Some p /\ find (fun q => Pos.eqb (fst q) p) ins = Some q /\
                  eval_ref m ge true e args (snd q) = ODone x /\ env_get ph v = Some x.
  Proof.
    induction l as [|i l IH]; intros ph H v ins Hf; [discriminate Hf|].
    unfold find_phi in Hf. simpl find in Hf.
    destruct i; try (simpl in H; apply (IH _ H); exact Hf).
    simpl in H. destruct pred as [p|]; [|discriminate].
    destruct (find (fun q => Pos.eqb (fst q) p) ins0) as [q|] eqn:Eq; [|discriminate].
    destruct (eval_ref m ge true e args (snd q)) eqn:Ev; simpl in H; try discriminate.
    destruct (eval_phis m ge (Some p) e args l) eqn:Er; simpl in H; try discriminate.
    inversion H; subst. destruct (Pos.eqb_spec v0 v).
    - inversion Hf; subst. exists p, q, a. simpl. rewrite Pos.eqb_refl. repeat split; assumption.
    - destruct (IH _ eq_refl v ins Hf) as (p' & q' & x & Hp & Hq & Hx & Hg).
      exists p', q', x. simpl. destruct (Pos.eqb_spec v0 v); [contradiction|]. repeat split; assumption.
  Qed.

  Lemma ref_rel_eval ph e e' r r' : Rel rho e e' -> ref_rel rho r r' = true ->
    eval_ref m' ge ph e' args r' = eval_ref m ge ph e args r.
  Proof.
    intros HR H. rewrite Hctx. destruct r, r'; simpl in H; try discriminate.
    - destruct (rget rho v0) eqn:Er; [|discriminate]. apply Pos.eqb_eq in H. subst.
      simpl. rewrite (HR _ _ Er). reflexivity.
    - apply Nat.eqb_eq in H. subst. reflexivity.
    - apply String.eqb_eq in H. subst. reflexivity.
  Qed.

  Lemma existsb_find {A} (P : A -> bool) l : existsb P l = true -> exists x, find P l = Some x.
  Proof.
    induction l as [|a l IH]; simpl; [discriminate|]. destruct (P a); [eauto|]. exact IH.
  Qed.

  Lemma phis_sound pred e e' l : Rel rho e e' -> forall l' ph,
    check_phis rho l l' = true -> eval_phis m ge pred e args l = ODone ph ->
    exists ph', eval_phis m' ge pred e' args l' = ODone ph' /\
      (forall v' v, rget rho v' = Some v -> In v' (phi_vids l') -> env_get ph' v' = env_get ph v) /\
      (forall v', ~ In v' (phi_vids l') -> env_get ph' v' = None).
  Proof.
    intros HR. induction l' as [|i' l' IH]; intros ph Hck Hev.
    - exists []. split; [reflexivity|]. split; [intros v' v _ []|reflexivity].
    - simpl in Hck. apply Bool.andb_true_iff in Hck. destruct Hck as [Hi Hck].
      destruct (IH ph Hck Hev) as (pr & Hpr & Hp1 & Hp2).
      destruct i'; try (exists pr; split; [exact Hpr|split; assumption]).
      destruct (rget rho v) as [w|] eqn:Er; [|discriminate Hi].
      destruct (find_phi l w) as [ins0|] eqn:Ef; [|discriminate Hi].
      destruct (eval_phis_some _ _ _ _ Hev _ _ Ef) as (p & q & x & -> & Hq & Hx & Hg).
      unfold check_ins in Hi. apply Bool.andb_true_iff in Hi. destruct Hi as [Hi1 Hi2].
      rewrite forallb_forall in Hi1, Hi2.
      assert (Hq' : exists q', find (fun q0 => Pos.eqb (fst q0) p) ins = Some q').
      { apply existsb_find.
        destruct (find_some _ _ Hq) as [Hin Hfp]. apply Pos.eqb_eq in Hfp.
        specialize (Hi2 _ Hin). rewrite Hfp in Hi2. exact Hi2. }
      destruct Hq' as [q' Hq'].
      destruct (find_some _ _ Hq') as [Hin' Hfp']. apply Pos.eqb_eq in Hfp'.
      specialize (Hi1 _ Hin'). rewrite Hfp', Hq in Hi1.
      exists ((v, x) :: pr). split.
      + cbn [eval_phis]. rewrite Hq'. rewrite (ref_rel_eval true e e' _ _ HR Hi1), Hx. cbn [obind].
        rewrite Hpr. reflexivity.
      + split.
        * intros v' w' Hr Hin. simpl. destruct (Pos.eqb_spec v v').
          -- subst. rewrite Er in Hr. inversion Hr; subst. symmetry. exact Hg.
          -- apply Hp1; [exact Hr|]. simpl in Hin. destruct Hin as [Hin|Hin]; [contradiction|exact Hin].
        * intros v' Hn. simpl. destruct (Pos.eqb_spec v v'); [exfalso; apply Hn; left; assumption|].
          apply Hp2. intros Hin. apply Hn. right. exact Hin.
  Qed.
End Phis.

(* ------------------------------------------------------------------ blocks, functions, modules *)
Lemma env_get_app a b v : env_get (a ++ b) v = match env_get a v with Some x => Some x | None => env_get b v end.
Proof.
  induction a as [|[k x] a IH]; [reflexivity|]. simpl. destruct (Pos.eqb k v); [reflexivity|exact IH].
Qed.

Lemma check_blocks_find c f f' rho : forall l l' b k,
  check_blocks c f f' rho l l' = true ->
  find (fun k0 => Pos.eqb (b_id k0) b) l = Some k ->
  exists k', find (fun k0 => Pos.eqb (b_id k0) b) l' = Some k' /\ check_blockpair c f f' rho k k' = true.
Proof.
  induction l as [|k0 l IH]; intros [|k0' l'] b k H Hf; try discriminate.
  simpl in H. apply Bool.andb_true_iff in H. destruct H as [Hp Hr].
  assert (Hid : b_id k0 = b_id k0').
  { unfold check_blockpair in Hp. repeat (apply Bool.andb_true_iff in Hp; destruct Hp as [Hp _]).
    apply Pos.eqb_eq. exact Hp. }
  simpl in *. rewrite <- Hid. destruct (Pos.eqb (b_id k0) b).
  - inversion Hf; subst. eauto.
  - eapply IH; eassumption.
Qed.

Lemma check_funcs_find c : forall l l' name,
  check_funcs c l l' = true ->
  match find (fun g => String.eqb (f_name g) name) l with
  | Some g => exists g', find (fun g => String.eqb (f_name g) name) l' = Some g' /\ check_local c g g' = true
  | None => find (fun g => String.eqb (f_name g) name) l' = None
  end.
Proof.
  induction l as [|g l IH]; intros [|g' l'] name H; try discriminate; [reflexivity|].
  simpl in H. apply Bool.andb_true_iff in H. destruct H as [Hl Hr].
  assert (Hn : f_name g = f_name g').
  { unfold check_local in Hl. repeat (apply Bool.andb_true_iff in Hl; destruct Hl as [Hl _]).
    apply String.eqb_eq. exact Hl. }
  simpl. rewrite <- Hn. destruct (String.eqb (f_name g) name); [eauto|]. apply IH. exact Hr.
Qed.

Section Modul.
  Variable c : cfg.
  Variable m m' : modul.
  Hypothesis Hc : cfg_ok c.
  Hypothesis Hext : m_externals m = m_externals m'.
  Hypothesis Hvars : m_vars m = m_vars m'.
  Hypothesis Hfuncs : check_funcs c (m_funcs m) (m_funcs m') = true.
  Let ge := layout c m.

  Lemma layout_eq : layout c m' = ge.
  Proof. unfold ge, layout. rewrite Hvars. reflexivity. Qed.

  Lemma ctx_eq args ph e r : eval_ref m' ge ph e args r = eval_ref m ge ph e args r.
  Proof.
    destruct r; try reflexivity. simpl. destruct (assoc_str name ge); [reflexivity|].
    unfold find_ext. rewrite <- Hext. unfold find_func.
    pose proof (check_funcs_find c _ _ name Hfuncs) as H.
    destruct (find (fun f => String.eqb (f_name f) name) (m_funcs m)).
    - destruct H as (g' & -> & _). reflexivity.
    - rewrite H. reflexivity.
  Qed.

  Definition sound_at (n : nat) : Prop :=
    forall f f', check_local c f f' = true ->
    forall args pred b e e' s r s1, Rel (mk_rho f f') e e' ->
      exec_block c m ge n f args pred b e s = ODone (r, s1) ->
      exec_block c m' ge n f' args pred b e' s = ODone (r, s1).

  Lemma local_entry f f' : check_local c f f' = true ->
    entry_bid f' = entry_bid f /\ List.length (f_params f') = List.length (f_params f).
  Proof.
    unfold check_local. intros H. repeat (apply Bool.andb_true_iff in H; destruct H as [H ?]).
    split.
    - unfold entry_bid. destruct (f_blocks f) as [|k l]; destruct (f_blocks f') as [|k' l']; try discriminate; [reflexivity|].
      simpl in H0. apply Bool.andb_true_iff in H0. destruct H0 as [Hp _]. unfold check_blockpair in Hp.
      repeat (apply Bool.andb_true_iff in Hp; destruct Hp as [Hp _]). apply Pos.eqb_eq in Hp. congruence.
    - unfold params_eqb in H4. apply dec2b_spec in H4. congruence.
  Qed.

  Lemma call_sound n : sound_at n -> forall want cal vs s r s1,
    do_call m (rec_of c m ge n) want cal vs s = ODone (r, s1) ->
    do_call m' (rec_of c m' ge n) want cal vs s = ODone (r, s1).
  Proof.
    intros IH want cal vs s r s1 H. destruct cal; simpl in *; try discriminate.
    unfold find_func in *. pose proof (check_funcs_find c _ _ name Hfuncs) as Hf.
    destruct (find (fun f => String.eqb (f_name f) name) (m_funcs m)) as [g|].
    - destruct Hf as (g' & -> & Hl). destruct (local_entry _ _ Hl) as [He Hp]. rewrite Hp.
      destruct (negb (Nat.eqb (List.length vs) (List.length (f_params g)))); [discriminate|].
      unfold rec_of in *. rewrite He. destruct (entry_bid g) as [eb|]; [|discriminate].
      destruct (exec_block c m ge n g vs None eb [] s) as [[rr ss]| | | |] eqn:Ex; cbn [obind] in H; try discriminate.
      rewrite (IH g g' Hl vs None eb [] [] s rr ss (fun _ _ _ => eq_refl) Ex). cbn [obind]. exact H.
    - rewrite Hf. unfold find_ext in *. rewrite <- Hext. exact H.
  Qed.
End Modul.

Section Modul2.
  Variable c : cfg.
  Variable m m' : modul.
  Hypothesis Hc : cfg_ok c.
  Hypothesis Hext : m_externals m = m_externals m'.
  Hypothesis Hvars : m_vars m = m_vars m'.
  Hypothesis Hfuncs : check_funcs c (m_funcs m) (m_funcs m') = true.
  Let ge := layout c m.

  Theorem sound_all : forall n, sound_at c m m' n.
  Proof.
    induction n as [|n IH]; intros f f' Hl args pred b e e' s r s1 HR Hex; [discriminate Hex|].
    rewrite exec_block_S in *.
    pose proof Hl as Hl0. unfold check_local in Hl0.
    apply Bool.andb_true_iff in Hl0. destruct Hl0 as [Hl0 Hblocks].
    apply Bool.andb_true_iff in Hl0. destruct Hl0 as [Hl0 _].
    apply Bool.andb_true_iff in Hl0. destruct Hl0 as [Hl0 Hnd].
    unfold find_block in *.
    destruct (find (fun k => Pos.eqb (b_id k) b) (f_blocks f)) as [k|] eqn:Ek; [|discriminate Hex].
    destruct (check_blocks_find _ _ _ _ _ _ _ _ Hblocks Ek) as (k' & -> & Hp).
    unfold check_blockpair in Hp.
    apply Bool.andb_true_iff in Hp. destruct Hp as [Hp Hbody].
    apply Bool.andb_true_iff in Hp. destruct Hp as [Hp Hphis].
    apply Bool.andb_true_iff in Hp. destruct Hp as [_ Hplace].
    destruct (eval_phis m (layout c m) pred e args (b_ins k)) as [ph| | | |] eqn:Eph; cbn [obind] in Hex; try discriminate Hex.
    destruct (phis_sound m m' (layout c m) args (mk_rho f f') (ctx_eq c m m' Hext Hfuncs args)
                pred e e' (b_ins k) HR (b_ins k') ph Hphis Eph) as (ph' & -> & Hp1 & Hp2).
    cbn [obind].
    eapply (check_body_sound c m m' (layout c m) f f' args (mk_rho f f') _ _ _ _ Pos.eqb); try eassumption.
    - apply ctx_eq; assumption.
    - apply call_sound; assumption.
    - intros t t' e1 e1' s2 r2 s3 Ht HR2 Hk. apply Pos.eqb_eq in Ht. subst t'. eapply IH; eassumption.
    - intros v' v Hr. rewrite !env_get_app.
      destruct (mem_pos v' (phi_vids (b_ins k'))) eqn:Em.
      + rewrite (Hp1 _ _ Hr (proj1 (mem_pos_in _ _) Em)). destruct (env_get ph v); [reflexivity|apply HR; exact Hr].
      + rewrite Hp2 by (intros Hin; apply mem_pos_in in Hin; congruence).
        unfold place_ok in Hplace. rewrite forallb_forall in Hplace.
        specialize (Hplace _ (rget_in _ _ _ Hr)). cbn [fst snd] in Hplace. rewrite Em in Hplace.
        apply Bool.eqb_prop in Hplace.
        rewrite (eval_phis_none _ _ _ _ _ _ _ Eph v) by (intros Hin; apply mem_pos_in in Hin; congruence).
        apply HR. exact Hr.
  Qed.

  Theorem run_function_sound : forall fname args s n r s1,
    run_function c m fname args s n = ODone (r, s1) ->
    run_function c m' fname args s n = ODone (r, s1).
  Proof.
    intros fname args s n r s1 H. unfold run_function in *. unfold find_func in *.
    pose proof (check_funcs_find c _ _ fname Hfuncs) as Hf.
    destruct (find (fun f => String.eqb (f_name f) fname) (m_funcs m)) as [g|]; [|discriminate H].
    destruct Hf as (g' & -> & Hl). destruct (local_entry c _ _ Hl) as [He Hp]. rewrite Hp, He.
    destruct (negb (Nat.eqb (List.length args) (List.length (f_params g)))); [discriminate H|].
    destruct (entry_bid g) as [eb|]; [|discriminate H].
    rewrite (layout_eq c m m' Hvars).
    exact (sound_all n g g' Hl args None eb [] [] s r s1 (fun _ _ _ => eq_refl) H).
  Qed.
End Modul2.

Theorem check_modul_sound : forall c m m', cfg_ok c -> check_modul c m m' = true ->
  forall fname args s n r s1,
    run_function c m fname args s n = ODone (r, s1) ->
    run_function c m' fname args s n = ODone (r, s1).
Proof.
  intros c m m' Hc H. unfold check_modul in H.
  apply Bool.andb_true_iff in H. destruct H as [H Hf].
  apply Bool.andb_true_iff in H. destruct H as [H _].
  apply Bool.andb_true_iff in H. destruct H as [He Hv].
  apply dec2b_spec in He. apply dec2b_spec in Hv.
  apply run_function_sound; assumption.
Qed.

Theorem check_modul_run_main : forall c m m', cfg_ok c -> check_modul c m m' = true ->
  forall fname args n res, run_main c m fname args n = ODone res -> run_main c m' fname args n = ODone res.
Proof.
  intros c m m' Hc H fname args n res Hr. pose proof H as H0. unfold check_modul in H0.
  apply Bool.andb_true_iff in H0. destruct H0 as [H0 _]. apply Bool.andb_true_iff in H0. destruct H0 as [H0 _].
  apply Bool.andb_true_iff in H0. destruct H0 as [_ Hv]. apply dec2b_spec in Hv.
  unfold run_main in *.
  assert (Hi : init_st c m' = init_st c m) by (unfold init_st, layout; rewrite Hv; reflexivity).
  rewrite Hi.
  destruct (run_function c m fname args (init_st c m) n) as [[r s]| | | |] eqn:Ef; cbn [obind] in Hr; try discriminate Hr.
  rewrite (check_modul_sound c m m' Hc H _ _ _ _ _ _ Ef). cbn [obind].
  unfold global_bytes, layout in *. rewrite <- Hv. exact Hr.
Qed.
