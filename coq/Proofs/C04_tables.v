(* Proofs/C04_tables.v — reflected check of Gen/Tab_effects.v (regenerated from /repo on every run): the
   instruction classes that define `effect` — the only thing PeepHoleStream looks at. *)
From Coq Require Import List String Bool ZArith.
From PV Require Import Gen.Tab_effects.
Import ListNotations.

Definition effrow := (string * string * bool * bool * bool)%type.
Definition e_class (r : effrow) : string := snd (fst (fst (fst r))).
Definition e_is_label (r : effrow) : bool := snd (fst (fst r)).
Definition e_is_jump (r : effrow) : bool := snd (fst r).
Definition e_effect_is_pc_target (r : effrow) : bool := snd r.

(* Label (or a subclass), or the single instruction an arch emits for the IR tree JMP (jumps = [target]);
   in both cases effect() is exactly [("set", "pc", name / target)] *)
Definition row_ok (r : effrow) : bool :=
  e_effect_is_pc_target r && (e_is_label r || e_is_jump r).

Lemma effect_table_ok : forallb row_ok effect_classes = true.
Proof. vm_compute. reflexivity. Qed.

Lemma effect_classes_ok : forall r, In r effect_classes ->
  e_effect_is_pc_target r = true /\ (e_is_label r = true \/ e_is_jump r = true).
Proof.
  intros r Hin. pose proof (proj1 (forallb_forall _ _) effect_table_ok r Hin) as H.
  unfold row_ok in H. apply andb_true_iff in H. destruct H as [H1 H2].
  apply orb_true_iff in H2. auto.
Qed.

(* the table is not empty: the Label class itself is in it, and more than 1000 classes were scanned *)
Lemma effect_table_nonvacuous :
  existsb (fun r => e_is_label r && String.eqb (e_class r) "Label") effect_classes = true /\
  (1000 <? classes_scanned)%Z = true.
Proof. vm_compute. split; reflexivity. Qed.
